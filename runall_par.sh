#!/bin/sh
# ./runall_par.sh [tier] [jobs] — like runall.sh but runs the families in parallel (one property at a time per family,
# since the checks of one family share a build lock); output in /tmp/runall-<tier>/<family>.log, summary at the end.
cd "$(dirname "$0")"
tier=${1:-quick}; jobs=${2:-4}
out=/tmp/runall-$tier; rm -rf $out; mkdir -p $out
fams=$(python3 -c "import json,glob;print(' '.join(sorted({json.load(open(f))['family'] for f in glob.glob('registry/*.json')})))")
for fam in $fams; do echo $fam; done | xargs -P $jobs -I{} sh -c '
  fam={}; for f in registry/*.json; do
    if [ "$(python3 -c "import json;print(json.load(open(\"$f\"))[\"family\"])")" = "$fam" ]; then
      id=$(basename $f .json); o=$(./check $id --tier '"$tier"' 2>&1); rc=$?
      echo "$id rc=$rc $(echo "$o" | grep -E "^$id tier" | head -1)" >> '"$out"'/$fam.log
      echo "$o" | grep -E "^(VIOLATION|  [A-Z-]+:)" | cut -c1-300 >> '"$out"'/$fam.log
    fi; done'
cat $out/*.log | sort
