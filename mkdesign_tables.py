#!/usr/bin/env python3
"""Regenerates the generated sections of DESIGN.md (between the BEGIN/END GENERATED markers) from
known_findings.json, seeded/*/meta.json and registry/*.json."""
import json, os, glob, re
V = os.path.dirname(os.path.abspath(__file__))
kf = json.load(open(os.path.join(V, "known_findings.json")))
out = []
out.append("## 13. Findings on the unchanged tree, as established by the checks (generated from known_findings.json)\n")
out.append("Every entry below was first reproduced through `./check` on the real code (oracle violation with a replay),\n"
           "then either repaired by one minimal unguarded `fix:` commit in /repo (model follows the repaired code; the\n"
           "pre-repair behaviour stays provable as a `…_false` theorem; the entry suppresses nothing) or registered as a\n"
           "known finding with a narrow oracle class (the check prints KNOWN-FINDING and exits 0; any other violation of\n"
           "the property is still a VIOLATION).\n")
out.append("### 13.1 Repaired defects (`fix:` commits)\n")
out.append("| property | commit | what failed |\n|---|---|---|")
for f in sorted(kf["fixed"], key=lambda s: s.split()[1]):
    m = re.match(r"fixed: property=(C\d+) (\w+) (.*)", f, re.S)
    if m:
        out.append("| %s | %s | %s |" % (m.group(1), m.group(2), m.group(3).replace("|", "\\|").replace("\n", " ")))
out.append("\n### 13.2 Known findings kept (not repaired, with the reason in the reports)\n")
out.append("| property | oracle class | what fails | predicate that assigns the class |\n|---|---|---|---|")
for f in kf["findings"]:
    out.append("| %s | `%s` | %s | %s |" % (f["property"], f["class"], f["what"].replace("|", "\\|").replace("\n", " "), f.get("match", "").replace("|", "\\|").replace("\n", " ")))
out.append("\n## 14. Seeded changes (independent sub-agents, property text only) and which checks catch them (generated from seeded/*/meta.json)\n")
out.append("Each change compiles, leaves the existing tests' results unchanged, comes with a demonstration that fails with it and\n"
           "passes without it (re-run by the coordinator), and is applied to a scratch worktree for `./seedtest.sh seeded/<id>`.\n")
out.append("| id | property | change | needs, to manifest | caught by |\n|---|---|---|---|---|")
for p in sorted(glob.glob(os.path.join(V, "seeded", "*", "meta.json"))):
    m = json.load(open(p))
    sid = os.path.basename(os.path.dirname(p))
    out.append("| %s | %s | %s | %s | %s |" % (sid, m["property"], m["summary"].replace("|", "\\|"), m["needs_to_manifest"].replace("|", "\\|"), m.get("detected_by", "").replace("|", "\\|")))
out.append("\n## 15. Per-property summary of what is proved (generated from registry/*.json)\n")
out.append("| property | family | audited theorems / fact obligations | level |\n|---|---|---|---|")
for p in sorted(glob.glob(os.path.join(V, "registry", "*.json"))):
    r = json.load(open(p))
    pid = os.path.basename(p)[:-5]
    out.append("| %s | %s | %d theorems, %d facts | %s |" % (pid, r["family"], len(r["theorems"]), len(r.get("facts", [])), r["level_text"].replace("|", "\\|").replace("\n", " ")))
gen = "\n".join(out) + "\n"
path = os.path.join(V, "DESIGN.md")
s = open(path).read()
B, E = "<!-- BEGIN GENERATED -->", "<!-- END GENERATED -->"
if B in s:
    s = s[:s.index(B)] + B + "\n" + gen + E + s[s.index(E) + len(E):]
else:
    s = s.rstrip("\n") + "\n\n---------------------------------------------------------------------------------------------\n\n" + B + "\n" + gen + E + "\n"
open(path, "w").write(s)
print("DESIGN.md generated sections refreshed")
