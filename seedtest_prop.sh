#!/bin/sh
# ./seedtest_prop.sh <seeded-id-dir> <property> [tier] — like seedtest.sh but runs the check of ANOTHER property
# against the seeded change (a change may violate more than one property).
set -u
d=$(cd "$1" && pwd); prop=$2; tier=${3:-quick}
wt=$(mktemp -d /tmp/seedrun-XXXXXX); rmdir "$wt"
git -C /repo worktree add -q --detach "$wt" HEAD || exit 2
git -C "$wt" apply "$d/patch.diff" || { echo "patch does not apply"; git -C /repo worktree remove --force "$wt"; exit 2; }
cd /verif
VERIF_REPO="$wt" ./check "$prop" --tier "$tier"; rc=$?
h=$(python3 -c "import hashlib;print(hashlib.sha1('$wt'.encode()).hexdigest()[:10])")
rm -rf "/verif/.build/$h"
git -C /repo worktree remove --force "$wt"
echo "seedtest $prop $(basename $d): exit=$rc"
exit $rc
