#!/bin/sh
# runs every registered check (quick tier by default) and prints a one-line summary per property
cd "$(dirname "$0")"
tier=${1:-quick}
for f in registry/*.json; do
  id=$(basename $f .json)
  out=$(./check $id --tier $tier 2>&1); rc=$?
  echo "$id rc=$rc $(echo "$out" | grep -E "^$id tier" | head -1)"
  echo "$out" | grep -E "^(KNOWN-FINDING|VIOLATION)" | sed 's/^/    /' | cut -c1-220
done
