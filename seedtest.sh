#!/bin/sh
# ./seedtest.sh <seeded-id-dir> [tier]   — run the check(s) of a seeded change in a scratch worktree
# (used while other work is going on in /repo; the official procedure `git -C /repo apply …; ./check …;
#  git -C /repo checkout -- .` gives the same result because ./check only reads the tree it is pointed at)
set -u
d=$(cd "$1" && pwd); tier=${2:-quick}
prop=$(python3 -c "import json;print(json.load(open('$d/meta.json'))['property'])")
wt=$(mktemp -d /tmp/seedrun-XXXXXX); rmdir "$wt"
git -C /repo worktree add -q --detach "$wt" HEAD || exit 2
git -C "$wt" apply "$d/patch.diff" || { echo "patch does not apply"; git -C /repo worktree remove --force "$wt"; exit 2; }
cd /verif
VERIF_REPO="$wt" ./check "$prop" --tier "$tier"; rc=$?
h=$(python3 -c "import hashlib;print(hashlib.sha1('$wt'.encode()).hexdigest()[:10])")
rm -rf "/verif/.build/$h"
git -C /repo worktree remove --force "$wt"
echo "seedtest $prop $(basename $d): exit=$rc"
exit $rc
