#!/usr/bin/env python3
"""Edit known_findings.json under a lock (several people may be adding entries).
  ./kf.py known  C13 postings-colon  'label names containing ":" collide: ("a:b","c") vs ("a","b:c")'  'oracle class postings-colon: distinct label pairs, equal key, some name contains ":"'
  ./kf.py fixed  C39 ad5d377f3 'Get(AggrCounter) on a chunk without counter aggregate returned "invalid size"'
This is a development-time tool; checks never write the file."""
import fcntl, json, os, sys
V = os.path.dirname(os.path.abspath(__file__))
p = os.path.join(V, "known_findings.json")
with open(p + ".lock", "w") as lk:
    fcntl.flock(lk, fcntl.LOCK_EX)
    d = json.load(open(p))
    if sys.argv[1] == "known":
        _, _, prop, cls, what, match = sys.argv
        d["findings"] = [f for f in d["findings"] if not (f["property"] == prop and f["class"] == cls)]
        d["findings"].append({"kind": "known", "property": prop, "class": cls, "what": what, "match": match})
    elif sys.argv[1] == "fixed":
        _, _, prop, commit, what = sys.argv
        d["fixed"].append("fixed: property=%s %s %s" % (prop, commit, what))
    elif sys.argv[1] == "drop":
        _, _, prop, cls = sys.argv
        d["findings"] = [f for f in d["findings"] if not (f["property"] == prop and f["class"] == cls)]
    d["findings"].sort(key=lambda f: (f["property"], f["class"]))
    json.dump(d, open(p + ".tmp", "w"), indent=1)
    os.replace(p + ".tmp", p)
