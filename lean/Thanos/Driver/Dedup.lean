import Thanos.Common.Parse
/-
  Line-protocol driver of the `dedup` family (C01 C02 C04 C40).
  One request per line, one answer per line; every line is self-contained.
-/
open Thanos Thanos.Parse

namespace Thanos.Driver.Dedup

def handle : List String → String
  | _ => "bad-op"

end Thanos.Driver.Dedup
