import Thanos.Common.Parse
import Thanos.Model.Iter
import Thanos.Model.ChunkMerge
import Thanos.Model.ReadPath
/-
  Line-protocol driver of the `dedup` family (C01 C02 C04 C40).
  One request per line, one answer per line; every line is self-contained.

  dd.run <f> <replicas> <calls>          (C01, C02)
     f        = function name of the select hints (any name), `none` for the empty string
                (`isCounter f`, i.e. increase | rate | irate | resets  ⇒ counter adjustment)
     replicas = r;r;…      r = e (no samples) | t:v,t:v,…     (integers)
     calls    = c,c,…      c = n (Next) | s<t> (Seek t) | d (Next until ValNone)
     answer   = o,o,…      o = t:v (At() after a successful call) | x (ValNone) | panic (trace ends)

  ds.run <f> <replicaLabels> <series>     (C01)   the series-SET level: dedup.NewSeriesSet over several input series
     replicaLabels = name,name,… | -      (removed from every input series before the set sees it)
     series   = S|S|…      S = <labels>@<samples>      labels = k=v,k=v,… (any order) | -     samples = t:v,… | e
     answer   = O|O|…      O = <labels>@<trace of Next until ValNone>    in output order;  - = no series

  cm.merge <series>                      (C40)   NewChunkSeriesMerger over aggregate chunk series
     series   = S|S|…      S = chunk;chunk;…
     chunk    = mint/maxt/A0/A1/A2/A3/A4        Ai = n (aggregate absent) | e (no samples) | t:v,t:v,…
                (A0..A4 = count, sum, min, max, counter)
     answer   = chunk;chunk;… of the merged series | - (no chunk) | panic

  rp.select <dedup> <wrl> <repFirst> <qmint> <qmaxt> <series>      (C04)   the read path, spec-level composition
     series   = L|L|…       L = <key>=<rep>;<rep>;…      key = two digits
                rep   = <rid>@<chunk>+<chunk>+…          rid = one digit
                chunk = <store>~<rank>~t:v,t:v,…
     answer   = S|S|…       S = <key>=<samples> (dedup) | <key>.<rid>=<samples> (no dedup); samples = t:v,… | e
                - = no series;  panic
     (`wrl` only selects whether stores or the proxy remove the replica label — the same specification)

  rp.tsdb <dedup> <wrl> <replicaLabels> <qmint> <qmaxt> <stores> [<frame> <chunkRange>]   (C04)
                                                          the read path over TSDB-backed stores
     replicaLabels = name,name,… | -
     stores   = ST|ST|…     ST = <ext>#<ser>#<ser>…      ext = labels | -
                ser   = <labels>@<chunk>+<chunk>+…       labels = k=v,k=v,…     chunk = t:v,… | e
     frame, chunkRange: how the harness makes the real store cut frames and head chunks; the model
                does not read them (frames of one series are concatenated, the chunks are given)
     answer   = S|S|…       S = <labels>@<samples>, ordered by the rendered label set;  - = no series;  panic
-/
open Thanos Thanos.Parse

namespace Thanos.Driver.Dedup
open Thanos.Dedup

def parseSample (s : String) : Option Sample :=
  match splitChar ':' s with
  | [t, v] => do
    let t ← parseInt? t
    let v ← parseInt? v
    pure { t := t, v := v }
  | _ => none

def parseReplica (s : String) : Option (List Sample) :=
  if s = "e" then some [] else (splitChar ',' s).mapM parseSample

def parseReplicas (s : String) : Option (List (List Sample)) :=
  (splitChar ';' s).mapM parseReplica

inductive DCall where
  | call (c : Call)
  | drain

def parseCall (s : String) : Option DCall :=
  if s = "n" then some (.call .next)
  else if s = "d" then some .drain
  else match s.toList with
    | 's' :: rest => (parseInt? (String.ofList rest)).map fun t => .call (.seek t)
    | _ => none

def showObs : Obs → String
  | .sample s => s!"{s.t}:{s.v}"
  | .none => "x"
  | .panic => "panic"

/-- `Next` until `ValNone`, at most `n` times -/
def drainObs (o : Ops σ) : Nat → σ → List Obs × σ
  | 0, s => ([.panic], s)
  | n + 1, s =>
    let r := o.next s
    if o.bad r.1 then ([.panic], r.1)
    else if r.2 then
      match o.atS r.1 with
      | some x => let q := drainObs o n r.1; (.sample x :: q.1, q.2)
      | none => ([.panic], r.1)
    else ([.none], r.1)

def runD (o : Ops σ) : List DCall → σ → List Obs
  | [], _ => []
  | .drain :: cs, s =>
    let q := drainObs o (o.fuel s + 2) s
    if q.1.getLast? = some .panic then q.1 else q.1 ++ runD o cs q.2
  | .call c :: cs, s =>
    let r := match c with
      | .next => o.next s
      | .seek t => o.seek t s
    if o.bad r.1 then [.panic]
    else if r.2 then
      match o.atS r.1 with
      | some x => .sample x :: runD o cs r.1
      | none => [.panic]
    else .none :: runD o cs r.1

def parseAggr (s : String) : Option (Option (List Sample)) :=
  if s = "n" then some none
  else if s = "e" then some (some [])
  else ((splitChar ',' s).mapM parseSample).map some

def parseChunk (s : String) : Option AggrChk :=
  match splitChar '/' s with
  | [mint, maxt, a0, a1, a2, a3, a4] => do
    let mint ← parseInt? mint
    let maxt ← parseInt? maxt
    let aggr ← [a0, a1, a2, a3, a4].mapM parseAggr
    pure { mint := mint, maxt := maxt, aggr := aggr }
  | _ => none

def parseSeries (s : String) : Option (List (List AggrChk)) :=
  (splitChar '|' s).mapM fun x => (splitChar ';' x).mapM parseChunk

def showSamples (l : List Sample) : String :=
  if l.isEmpty then "e" else ",".intercalate (l.map fun s => s!"{s.t}:{s.v}")

def showAggr : Option (List Sample) → String
  | none => "n"
  | some l => showSamples l

def showChunk (c : AggrChk) : String :=
  "/".intercalate ([toString c.mint, toString c.maxt] ++ c.aggr.map showAggr)

def parseRChunk (s : String) : Option RChunk :=
  match splitChar '~' s with
  | [st, rk, sm] => do
    let st ← parseNat? st
    let rk ← parseNat? rk
    let sm ← (splitChar ',' sm).mapM parseSample
    pure { store := st, rank := rk, samples := sm }
  | _ => none

def parseRReplica (s : String) : Option RReplica :=
  match splitChar '@' s with
  | [rid, cs] => do
    let rid ← parseNat? rid
    let cs ← (splitChar '+' cs).mapM parseRChunk
    pure { rid := rid, chunks := cs }
  | _ => none

def parseRSeries (s : String) : Option RSeries :=
  match splitChar '=' s with
  | [key, reps] => do
    let key ← parseNat? key
    let reps ← (splitChar ';' reps).mapM parseRReplica
    pure { key := key, reps := reps }
  | _ => none

def parseLbl (s : String) : Option Lbl :=
  match splitChar '=' s with
  | [k, v] => some (k, v)
  | _ => none

def parseLbls (s : String) : Option (List Lbl) :=
  if s = "-" then some [] else (splitChar ',' s).mapM parseLbl

def parseTStore (s : String) : Option TStore :=
  match splitChar '#' s with
  | ext :: sers => do
    let ext ← parseLbls ext
    let sers ← sers.mapM fun x =>
      match splitChar '@' x with
      | [ls, sm] => do
        let ls ← parseLbls ls
        let chs ← (splitChar '+' sm).mapM parseReplica
        pure (ls, chs)
      | _ => none
    pure { ext := ext, series := sers }
  | [] => none

def twoDigits (n : Nat) : String := if n < 10 then s!"0{n}" else toString n

def parseBool? (s : String) : Option Bool :=
  if s = "1" then some true else if s = "0" then some false else none

/-- which `toChunk` the driver runs: the one of the tree the model follows -/
def chunkFixed : Bool := true

/-- `seriesToChunkEncoderSplit` of the vendored Prometheus -/
def split : Nat := 120

/-- which `dedupSeriesIterator.Seek` the driver runs: the one of the tree the model follows -/
def seekFixed : Bool := true

def tsdbOp (d w rl qmint qmaxt stores : String) : String :=
  match parseBool? d, parseBool? w, parseInt? qmint, parseInt? qmaxt, (splitChar '|' stores).mapM parseTStore with
  | some d, some _, some qmint, some qmaxt, some sts =>
    let rl := if rl = "-" then [] else splitChar ',' rl
    let res := selectTSDB seekFixed d rl qmint qmaxt sts
    if res.any (fun kv => kv.2.isNone) then "panic" else
    if res.isEmpty then "-" else
    joinWith "|" (res.map fun kv => s!"{kv.1}@{showSamples (kv.2.getD [])}")
  | _, _, _, _, _ => "bad-op"

def parseInSeries (s : String) : Option (List Lbl × List Sample) :=
  match splitChar '@' s with
  | [ls, sm] => do
    let ls ← parseLbls ls
    let sm ← parseReplica sm
    pure (ls, sm)
  | _ => none

def handle : List String → String
  | ["dd.run", f, reps, calls] =>
    match parseReplicas reps, (listOf ',' calls).mapM parseCall with
    | some (r :: rs), some cs =>
      let it := mkF seekFixed (if f = "none" then "" else f) r rs
      joinWith "," ((runD it.ops cs it.st).map showObs)
    | _, _ => "bad-op"
  | ["ds.run", f, rl, series] =>
    match (splitChar '|' series).mapM parseInSeries with
    | some ss =>
      let rl := if rl = "-" then [] else splitChar ',' rl
      let out := dedupSet seekFixed (if f = "none" then "" else f) rl ss
      if out.isEmpty then "-" else
      joinWith "|" (out.map fun (ls, it) =>
        (if ls.isEmpty then "-" else showLbls ls) ++ "@" ++ joinWith "," ((runD it.ops [.drain] it.st).map showObs))
    | none => "bad-op"
  | ["cm.merge", series] =>
    match parseSeries series with
    | some ss =>
      match chunkMerge seekFixed chunkFixed split ss with
      | some cs => joinWith ";" (cs.map showChunk)
      | none => "panic"
    | none => "bad-op"
  | ["rp.select", d, w, rf, qmint, qmaxt, series] =>
    match parseBool? d, parseBool? w, parseBool? rf, parseInt? qmint, parseInt? qmaxt,
          (splitChar '|' series).mapM parseRSeries with
    | some d, some _, some rf, some qmint, some qmaxt, some ss =>
      let res := selectAll seekFixed d rf qmint qmaxt ss
      if res.any (fun kv => kv.2.isNone) then "panic" else
      joinWith "|" (res.map fun kv =>
        let name := if d then twoDigits kv.1.1
                    else if rf then s!"{twoDigits kv.1.2}.{kv.1.1}" else s!"{twoDigits kv.1.1}.{kv.1.2}"
        s!"{name}={showSamples (kv.2.getD [])}")
    | _, _, _, _, _, _ => "bad-op"
  | ["rp.tsdb", d, w, rl, qmint, qmaxt, stores] => tsdbOp d w rl qmint qmaxt stores
  | ["rp.tsdb", d, w, rl, qmint, qmaxt, stores, _, _] => tsdbOp d w rl qmint qmaxt stores
  | _ => "bad-op"

end Thanos.Driver.Dedup
