import Thanos.Common.Parse
import Thanos.Model.Iter
/-
  Line-protocol driver of the `dedup` family (C01 C02 C04 C40).
  One request per line, one answer per line; every line is self-contained.

  dd.run <f> <replicas> <calls>          (C01, C02)
     f        = PromQL function name of the select hints, `none` for the empty string
                (increase | rate | irate | resets  ⇒ counter adjustment)
     replicas = r;r;…      r = e (no samples) | t:v,t:v,…     (integers)
     calls    = c,c,…      c = n (Next) | s<t> (Seek t) | d (Next until ValNone)
     answer   = o,o,…      o = t:v (At() after a successful call) | x (ValNone) | panic (trace ends)
-/
open Thanos Thanos.Parse

namespace Thanos.Driver.Dedup
open Thanos.Dedup

def parseSample (s : String) : Option Sample :=
  match splitChar ':' s with
  | [t, v] => do
    let t ← parseInt? t
    let v ← parseInt? v
    pure { t := t, v := v }
  | _ => none

def parseReplica (s : String) : Option (List Sample) :=
  if s = "e" then some [] else (splitChar ',' s).mapM parseSample

def parseReplicas (s : String) : Option (List (List Sample)) :=
  (splitChar ';' s).mapM parseReplica

inductive DCall where
  | call (c : Call)
  | drain

def parseCall (s : String) : Option DCall :=
  if s = "n" then some (.call .next)
  else if s = "d" then some .drain
  else match s.toList with
    | 's' :: rest => (parseInt? (String.ofList rest)).map fun t => .call (.seek t)
    | _ => none

def isCounterFn (f : String) : Bool := f = "increase" || f = "rate" || f = "irate" || f = "resets"

def showObs : Obs → String
  | .sample s => s!"{s.t}:{s.v}"
  | .none => "x"
  | .panic => "panic"

/-- `Next` until `ValNone`, at most `n` times -/
def drainObs (o : Ops σ) : Nat → σ → List Obs × σ
  | 0, s => ([.panic], s)
  | n + 1, s =>
    let r := o.next s
    if o.bad r.1 then ([.panic], r.1)
    else if r.2 then
      match o.atS r.1 with
      | some x => let q := drainObs o n r.1; (.sample x :: q.1, q.2)
      | none => ([.panic], r.1)
    else ([.none], r.1)

def runD (o : Ops σ) : List DCall → σ → List Obs
  | [], _ => []
  | .drain :: cs, s =>
    let q := drainObs o (o.fuel s + 2) s
    if q.1.getLast? = some .panic then q.1 else q.1 ++ runD o cs q.2
  | .call c :: cs, s =>
    let r := match c with
      | .next => o.next s
      | .seek t => o.seek t s
    if o.bad r.1 then [.panic]
    else if r.2 then
      match o.atS r.1 with
      | some x => .sample x :: runD o cs r.1
      | none => [.panic]
    else .none :: runD o cs r.1

/-- which `dedupSeriesIterator.Seek` the driver runs: the one of the tree the model follows -/
def seekFixed : Bool := true

def handle : List String → String
  | ["dd.run", f, reps, calls] =>
    match parseReplicas reps, (listOf ',' calls).mapM parseCall with
    | some (r :: rs), some cs =>
      let it := mk seekFixed (isCounterFn f) r rs
      joinWith "," ((runD it.ops cs it.st).map showObs)
    | _, _ => "bad-op"
  | _ => "bad-op"

end Thanos.Driver.Dedup
