import Thanos.Common.Parse
/-
  Line-protocol driver of the `proxy` family (C03 C05 C06 C17).
  One request per line, one answer per line; every line is self-contained.
-/
open Thanos Thanos.Parse

namespace Thanos.Driver.Proxy

def handle : List String → String
  | _ => "bad-op"

end Thanos.Driver.Proxy
