import Thanos.Common.Parse
import Thanos.Model.Prune
/-
  Line-protocol driver of the `proxy` family (C03 C05 C06 C17).
  One request per line, one answer per line; every line is self-contained.

  C05 grammar (strings hex encoded, `-` = empty list / empty string, `_` = empty label set):
    matcher  := <ty>:<name>:<value>:<acc>     ty 0 "=" 1 "!=" 2 "=~" 3 "!~"; acc = values ('v'<hex>, ',' separated)
                                              of the case's universe the regex accepts
    matchers := matcher (';' matcher)* | '-'
    dbg      := matchers ('/' matchers)* | '-'
    labels   := <name>=<value> (',' …)* | '_'
    sets     := labels ('/' labels)* | '-'
    client   := <mint>:<maxt>:<filterOK>:<isLocal>:<addr>:<sets>:<raw series, ignored by the model>
    clients  := client ('|' client)* | '-'
  ops:
    prune.lsm    <matchers> <sets>                                   -> 1 | 0
    prune.store  <mint> <maxt> <matchers> <dbg> <client>             -> ok|time|local|addr|extlabels|filter
    prune.ext    <matchers> <labels>                                 -> nomatch | ok <kept matchers>
    prune.series <mint> <maxt> <matchers> <sel> <abort> <dbg> <clients>
                                                 -> none|invalid|unavailable|ok <store idx,…> <kept matchers>
-/
open Thanos Thanos.Parse

namespace Thanos.Driver.Proxy

/-! ### C05 -/
section prune
open Thanos.Prune

def parseBool? (s : String) : Option Bool :=
  if s = "1" then some true else if s = "0" then some false else none

def parseMType? (s : String) : Option MType :=
  if s = "0" then some .eq else if s = "1" then some .neq
  else if s = "2" then some .re else if s = "3" then some .nre else none

def showMType : MType → String
  | .eq => "0" | .neq => "1" | .re => "2" | .nre => "3"

/-- an element of a regex truth table: `v` followed by the hex of the value (`v` alone = "") -/
def accVal? (s : String) : Option String :=
  match s.toList with
  | 'v' :: r => do
    let bs ← hexDecodeAux r
    String.fromUTF8? (ByteArray.mk bs.toArray)
  | _ => none

def parseMatcher? (s : String) : Option Matcher :=
  match splitChar ':' s with
  | [ty, n, v, acc] => do
    let ty ← parseMType? ty
    let n ← hexString? n
    let v ← hexString? v
    let acc ← (listOf ',' acc).mapM accVal?
    pure { ty := ty, name := n, value := v, acc := fun x => acc.contains x }
  | _ => none

def parseMatchers? (s : String) : Option (List Matcher) := (listOf ';' s).mapM parseMatcher?

def parseDbg? (s : String) : Option (List (List Matcher)) := (listOf '/' s).mapM parseMatchers?

def parseLabel? (s : String) : Option (String × String) :=
  match splitChar '=' s with
  | [n, v] => do
    let n ← hexString? n
    let v ← hexString? v
    pure (n, v)
  | _ => none

def parseLabels? (s : String) : Option Labels :=
  if s = "_" then some [] else (listOf ',' s).mapM parseLabel?

def parseSets? (s : String) : Option (List Labels) := (listOf '/' s).mapM parseLabels?

def parseClient? (s : String) : Option Client :=
  match splitChar ':' s with
  | [mint, maxt, f, l, addr, sets, _raw] => do
    let mint ← parseInt? mint
    let maxt ← parseInt? maxt
    let f ← parseBool? f
    let l ← parseBool? l
    let addr ← hexString? addr
    let sets ← parseSets? sets
    pure { mint := mint, maxt := maxt, filterOK := f, isLocal := l, addr := addr, extSets := sets }
  | _ => none

def parseClients? (s : String) : Option (List Client) := (listOf '|' s).mapM parseClient?

def hexOfString (s : String) : String := hexEncode s.toUTF8.toList

def showMatcher (m : Matcher) : String :=
  s!"{showMType m.ty}:{hexOfString m.name}:{hexOfString m.value}"

def showMatchers (ms : List Matcher) : String := joinWith ";" (ms.map showMatcher)

def showReason : Reason → String
  | .ok => "ok" | .time => "time" | .localStore => "local" | .addr => "addr"
  | .extlabels => "extlabels" | .filter => "filter"

def handlePrune : List String → Option String
  | ["prune.lsm", ms, sets] => do
    let ms ← parseMatchers? ms
    let sets ← parseSets? sets
    pure (if labelSetsMatch ms sets then "1" else "0")
  | ["prune.store", mint, maxt, ms, dbg, c] => do
    let mint ← parseInt? mint
    let maxt ← parseInt? maxt
    let ms ← parseMatchers? ms
    let dbg ← parseDbg? dbg
    let c ← parseClient? c
    pure (showReason (storeMatches dbg c mint maxt ms))
  | ["prune.ext", ms, ext] => do
    let ms ← parseMatchers? ms
    let ext ← parseLabels? ext
    pure (match matchesExternalLabels ms ext with
      | none => "nomatch"
      | some kept => s!"ok {showMatchers kept}")
  | ["prune.series", mint, maxt, ms, sel, abort, dbg, cs] => do
    let mint ← parseInt? mint
    let maxt ← parseInt? maxt
    let ms ← parseMatchers? ms
    let sel ← parseLabels? sel
    let abort ← parseBool? abort
    let dbg ← parseDbg? dbg
    let cs ← parseClients? cs
    pure (match seriesDecision sel abort dbg cs mint maxt ms with
      | .nomatch => "none"
      | .invalid => "invalid"
      | .unavailable => "unavailable"
      | .queried [] _ => "none"     -- from outside, "nobody was asked" is all that can be seen
      | .queried idx kept => s!"ok {showNats "," idx} {showMatchers kept}")
  | _ => none

end prune

def handle (toks : List String) : String :=
  match toks with
  | [] => "bad-op"
  | op :: _ =>
    if op.startsWith "prune." then (handlePrune toks).getD "bad-op"
    else "bad-op"

end Thanos.Driver.Proxy
