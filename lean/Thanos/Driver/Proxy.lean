import Thanos.Common.Parse
import Thanos.Model.Prune
import Thanos.Model.Pool
import Thanos.Model.Merge
import Thanos.Model.Ring
/-
  Line-protocol driver of the `proxy` family (C03 C05 C06 C17).
  One request per line, one answer per line; every line is self-contained.

  C05 grammar (strings hex encoded, `-` = empty list / empty string, `_` = empty label set):
    matcher  := <ty>:<name>:<value>:<acc>     ty 0 "=" 1 "!=" 2 "=~" 3 "!~"; acc = values ('v'<hex>, ',' separated)
                                              of the case's universe the regex accepts
    matchers := matcher (';' matcher)* | '-'
    dbg      := matchers ('/' matchers)* | '-'
    labels   := <name>=<value> (',' …)* | '_'
    sets     := labels ('/' labels)* | '-'
    client   := <mint>:<maxt>:<filterOK>:<isLocal>:<addr>:<sets>:<raw series, ignored by the model>
    clients  := client ('|' client)* | '-'
  ops:
    prune.lsm    <matchers> <sets>                                   -> 1 | 0
    prune.store  <mint> <maxt> <matchers> <dbg> <client>             -> ok|time|local|addr|extlabels|filter
    prune.ext    <matchers> <labels>                                 -> nomatch | ok <kept matchers>
    prune.sel    <mint> <maxt> <matchers> <selspec> <keepbits> <abort> <clients>   (TSDB selector)
                                                 -> none|invalid|unavailable|ok <store idx,…> <kept> <matchers for the selected label sets, sorted>
    prune.series <mint> <maxt> <matchers> <sel> <abort> <dbg> <clients>
                                                 -> none|invalid|unavailable|ok <store idx,…> <kept matchers>
-/
open Thanos Thanos.Parse

namespace Thanos.Driver.Proxy

/-! ### C05 -/
section prune
open Thanos.Prune

def parseBool? (s : String) : Option Bool :=
  if s = "1" then some true else if s = "0" then some false else none

def parseMType? (s : String) : Option MType :=
  if s = "0" then some .eq else if s = "1" then some .neq
  else if s = "2" then some .re else if s = "3" then some .nre else none

def showMType : MType → String
  | .eq => "0" | .neq => "1" | .re => "2" | .nre => "3"

/-- an element of a regex truth table: `v` followed by the hex of the value (`v` alone = "") -/
def accVal? (s : String) : Option String :=
  match s.toList with
  | 'v' :: r => do
    let bs ← hexDecodeAux r
    String.fromUTF8? (ByteArray.mk bs.toArray)
  | _ => none

def parseMatcher? (s : String) : Option Matcher :=
  match splitChar ':' s with
  | [ty, n, v, acc] => do
    let ty ← parseMType? ty
    let n ← hexString? n
    let v ← hexString? v
    let acc ← (listOf ',' acc).mapM accVal?
    pure { ty := ty, name := n, value := v, acc := fun x => acc.contains x }
  | _ => none

def parseMatchers? (s : String) : Option (List Matcher) := (listOf ';' s).mapM parseMatcher?

def parseDbg? (s : String) : Option (List (List Matcher)) := (listOf '/' s).mapM parseMatchers?

def parseLabel? (s : String) : Option (String × String) :=
  match splitChar '=' s with
  | [n, v] => do
    let n ← hexString? n
    let v ← hexString? v
    pure (n, v)
  | _ => none

def parseLabels? (s : String) : Option Labels :=
  if s = "_" then some [] else (listOf ',' s).mapM parseLabel?

def parseSets? (s : String) : Option (List Labels) := (listOf '/' s).mapM parseLabels?

def parseClient? (s : String) : Option Client :=
  match splitChar ':' s with
  | [mint, maxt, f, l, addr, sets, _raw] => do
    let mint ← parseInt? mint
    let maxt ← parseInt? maxt
    let f ← parseBool? f
    let l ← parseBool? l
    let addr ← hexString? addr
    let sets ← parseSets? sets
    pure { mint := mint, maxt := maxt, filterOK := f, isLocal := l, addr := addr, extSets := sets }
  | _ => none

def parseClients? (s : String) : Option (List Client) := (listOf '|' s).mapM parseClient?

def hexOfString (s : String) : String := hexEncode s.toUTF8.toList

def showMatcher (m : Matcher) : String :=
  s!"{showMType m.ty}:{hexOfString m.name}:{hexOfString m.value}"

def showMatchers (ms : List Matcher) : String := joinWith ";" (ms.map showMatcher)

def showReason : Reason → String
  | .ok => "ok" | .time => "time" | .localStore => "local" | .addr => "addr"
  | .extlabels => "extlabels" | .filter => "filter"

def insertStrP (x : String) : List String → List String
  | [] => [x]
  | y :: r => if x ≤ y then x :: y :: r else y :: insertStrP x r

def sortStrsP (xs : List String) : List String := xs.foldr insertStrP []

def handlePrune : List String → Option String
  | ["prune.lsm", ms, sets] => do
    let ms ← parseMatchers? ms
    let sets ← parseSets? sets
    pure (if labelSetsMatch ms sets then "1" else "0")
  | ["prune.store", mint, maxt, ms, dbg, c] => do
    let mint ← parseInt? mint
    let maxt ← parseInt? maxt
    let ms ← parseMatchers? ms
    let dbg ← parseDbg? dbg
    let c ← parseClient? c
    pure (showReason (storeMatches dbg c mint maxt ms))
  | ["prune.ext", ms, ext] => do
    let ms ← parseMatchers? ms
    let ext ← parseLabels? ext
    pure (match matchesExternalLabels ms ext with
      | none => "nomatch"
      | some kept => s!"ok {showMatchers kept}")
  | ["prune.series", mint, maxt, ms, sel, abort, dbg, cs] => do
    let mint ← parseInt? mint
    let maxt ← parseInt? maxt
    let ms ← parseMatchers? ms
    let sel ← parseLabels? sel
    let abort ← parseBool? abort
    let dbg ← parseDbg? dbg
    let cs ← parseClients? cs
    pure (match seriesDecision sel abort dbg cs mint maxt ms with
      | .nomatch => "none"
      | .invalid => "invalid"
      | .unavailable => "unavailable"
      | .queried [] _ => "none"     -- from outside, "nobody was asked" is all that can be seen
      | .queried idx kept => s!"ok {showNats "," idx} {showMatchers kept}")
  | ["prune.sel", mint, maxt, ms, selspec, keepbits, abort, cs] => do
    -- ProxyStore.Series with a TSDB selector: <selspec> = n (default selector) or the relabel rules
    -- (only the real code reads them); <keepbits> = per store one 0/1 per label set ('|' between
    -- stores, '-' for a store without label sets): relabel.Process keeps that label set
    let mint ← parseInt? mint
    let maxt ← parseInt? maxt
    let ms ← parseMatchers? ms
    let abort ← parseBool? abort
    let cs ← parseClients? cs
    let bits ← (splitChar '|' keepbits).mapM (fun b =>
      if b = "-" then some [] else b.toList.mapM (fun ch => parseBool? (String.singleton ch)))
    if bits.length ≠ cs.length && !(cs.isEmpty) then none else
    let table : List (Labels × Bool) := (cs.zip bits).flatMap (fun p => p.1.extSets.zip p.2)
    let sel : Selector := { isNil := selspec = "n",
                            keep := fun ls => match table.find? (fun e => e.1 = ls) with
                              | some e => e.2
                              | none => false }
    pure (match seriesDecisionSel sel [] abort [] cs mint maxt ms with
      | .nomatch => "none"
      | .invalid => "invalid"
      | .unavailable => "unavailable"
      | .queried [] _ _ => "none"
      | .queried idx kept extra =>
        s!"ok {showNats "," idx} {showMatchers kept} {joinWith ";" (sortStrsP (extra.map showMatcher))}")
  | _ => none

end prune

/-! ### C17

  ops:
    bpool.run <min> <max> <num> <den> <maxTotal> <script>      pool.BucketedPool (factor = num/den)
        script := op (',' op)* ; op := g<sz>:n | g<sz>:<cap> (Get; what the bucket's sync.Pool handed back)
                                     | p<k> (Put what the k-th Get returned) | f<cap> (Put a slice of that capacity)
        -> hang | per op: ok:<cap>:<used> | ex:<used> | bad | <used>   (',' separated)
    pool.own <script>                                          ShardInfo.Matcher / ShardMatcher.Close on one sync.Pool
        script := ev (',' ev)* ; ev := o<m>:<buffer id the pool handed out> | c<m>
        -> ids=<buffer id per open> free=<sorted buffer ids left in the pool>
    pool.series <strategy> <nstores> <openErr idx,… | -> <abort>  ProxyStore.Series with ShardInfo over fake stores
        -> puts=<times the buffer of store i was put back | x (never taken)>
    pool.series2 <strategy> <nstores> <openErr|-> <abort> <recvErr store idx,…|-> <limit>   … with Recv failures / Limit
-/
section pool
open Thanos.Pool

/-- the repaired code is modelled: `ShardMatcher.Close` is idempotent, `BucketedPool.Get` tests the
    budget with the bucket size -/
def idemClose : Bool := true
def fixedBudget : Bool := true

def parseBOp? (s : String) : Option BOp :=
  match s.toList with
  | 'g' :: r =>
    match splitChar ':' (String.ofList r) with
    | [sz, ch] => do
      let sz ← parseNat? sz
      if ch = "n" then pure (.get sz none) else do
        let c ← parseNat? ch
        pure (.get sz (some c))
    | _ => none
  | 'p' :: r => (parseNat? (String.ofList r)).map .putGot
  | 'f' :: r => (parseNat? (String.ofList r)).map .putCap
  | _ => none

def showBAns : BAns → String
  | .got (.ok c) u => s!"ok:{c}:{u}"
  | .got .exhausted u => s!"ex:{u}"
  | .got .badChoice _ => "bad"
  | .put u => toString u

inductive OwnEv where
  | opn (m : Nat) (buf : Nat)
  | cls (m : Nat)

def parseOwnEv? (s : String) : Option OwnEv :=
  match s.toList with
  | 'o' :: r =>
    match splitChar ':' (String.ofList r) with
    | [m, b] => do
      let m ← parseNat? m
      let b ← parseNat? b
      pure (.opn m b)
    | _ => none
  | 'c' :: r => (parseNat? (String.ofList r)).map .cls
  | _ => none

/-- replay an ownership script: the op line names the buffer the real sync.Pool handed out; it is
    translated into the model's choice (an index into the pooled buffers, or "fresh") -/
def runOwn : PState → List OwnEv → Option (PState × List Nat)
  | s, [] => some (s, [])
  | s, .opn m b :: r =>
    let pick : Option (Option Nat) :=
      match s.free.idxOf? b with
      | some k => some (some k)
      | none => if b = s.next then some none else none
    match pick with
    | none => none
    | some pk =>
      let s' := step idemClose s (.opn m pk)
      (runOwn s' r).map fun (sf, ids) => (sf, b :: ids)
  | s, .cls m :: r => runOwn (step idemClose s (.cls m)) r

def insertSorted (x : Nat) : List Nat → List Nat
  | [] => [x]
  | y :: r => if x ≤ y then x :: y :: r else y :: insertSorted x r

def sortNats (xs : List Nat) : List Nat := xs.foldr insertSorted []

def handlePool : List String → Option String
  | ["bpool.run", mn, mx, num, den, mt, script] => do
    let mn ← parseNat? mn
    let mx ← parseNat? mx
    let num ← parseNat? num
    let den ← parseNat? den
    let mt ← parseNat? mt
    let ops ← (listOf ',' script).mapM parseBOp?
    if den = 0 then none else
    match BPool.new mn mx num den mt with
    | none => pure "hang"
    | some p => pure (joinWith "," ((p.runScript fixedBudget [] ops).map showBAns))
  | ["pool.own", script] => do
    let evs ← (listOf ',' script).mapM parseOwnEv?
    match runOwn PState.init evs with
    | none => pure "bad"
    | some (s, ids) => pure s!"ids={showNats "," ids} free={showNats "," (sortNats s.free)}"
  | ["pool.series", _strategy, n, openErr, abort] => do
    let n ← parseNat? n
    let errs ← parseNats? ',' openErr
    let abort ← parseBool? abort
    -- without failures other than open errors and without a limit every stream is drained: the
    -- loser tree closes each response set when it is exhausted and the deferred Close runs again
    let firstErr := (List.range n).find? (fun i => errs.contains i)
    let cell (i : Nat) : String :=
      match abort, firstErr with
      | true, some j =>
        -- the fan-out loop returns at store j: earlier sets are closed once (deferred), store j
        -- took a buffer that is never returned, later stores are never reached
        if i < j then toString (putsOf idemClose 1) else if i = j then "0" else "x"
      | _, _ => if errs.contains i then "0" else toString (putsOf idemClose 2)
    pure s!"puts={joinWith "," ((List.range n).map cell)}"
  | ["pool.series2", _strategy, n, openErr, abort, _recvErr, _limit] => do
    -- the same request with Recv failures and a Limit: how often the loser tree closes a response
    -- set now depends on the merge, but with an idempotent Close every buffer that was taken for an
    -- opened store still comes back exactly once (deferred Close) — `putsOf true k = 1` for k ≥ 1
    let n ← parseNat? n
    let errs ← parseNats? ',' openErr
    let abort ← parseBool? abort
    if !idemClose then none else
    let firstErr := (List.range n).find? (fun i => errs.contains i)
    let cell (i : Nat) : String :=
      match abort, firstErr with
      | true, some j => if i < j then toString (putsOf idemClose 1) else if i = j then "0" else "x"
      | _, _ => if errs.contains i then "0" else toString (putsOf idemClose 1)
    pure s!"puts={joinWith "," ((List.range n).map cell)}"
  | _ => none

end pool

/-! ### C03 / C06

  grammar (byte strings hex encoded, `-` = empty list / empty string, `_` = empty label set):
    field   := n | <ty>.<data>.<hash>                  hash = Chunk.Hash, or xxhash(data) when that is 0
    chunk   := <mint>~<maxt>~<raw>~<count>~<sum>~<min>~<max>~<counter>
    chunks  := chunk ('+' chunk)* | -
    series  := <labels>@<chunks>                       labels := <name>=<value> (',' …)* | _
    frame   := S<series> | W<msg> | H<payload> | B<series> ('&' <series>)* | B
    sframe  := <0|1><frame>                            1 = the proxy-side shard matcher keeps the frame
    store   := <supportsSharding><supportsWithout><openErr>[kind]:<n | r<k>[kind] | h<k>>:<recvMsg>,<timeoutMsg>,<openMsg>:<sframe (';' sframe)* | ->
    kind    := p | g | d | u | w | c | e    which error the failing call returns: plain (default), gRPC status, context deadline,
                                            io.ErrUnexpectedEOF, an error wrapping io.EOF (%w), a type with Is(io.EOF) = true, io.EOF itself
                                            (only io.EOF itself, from Recv, is the end of the stream: `isEnd`)
    stores  := store ('|' store)* | -
  ops:
    lt.merge <maxVal> <ints (',') per sequence, sequences separated by '|'>   pkg/losertree on integers
        -> <merged ints> closed=<leaf positions in close order>
    ring.run <maxBuffered> <a<k> | p (',' …)>          the ring buffer of lazyRespSet (append skipped when full, pop when empty)
        -> <popped values> h=<ringHead> t=<ringTail>
    merge.dedup <frame (';' frame)*>                   NewResponseDeduplicator over a fixed stream
        -> <frames>
    merge.series <lazy> <bufsize> <batch> <limit> <abort> <dedup> <sharded> <without names | -> <stores>
        -> <ok|aborted|err-open> shape=<b<n>|s|x,…> series=<series (';')> warn=<sorted msgs> hints=<sorted payloads>
    q.select <lazy> <bufsize> <batch> <abort> <deduplicate> <sharded> <replica label names | -> <stores>
        querier.selectFn (pkg/query) over the proxy (with its deduplicator) over the stores
        -> err | ok n=<number of series; with replica deduplication only 0 or +> warn=<sorted set of msgs>
-/
section merge
open Thanos.Merge

/-- which `chainSeriesAndRemIdenticalChunks` the driver follows: the code that is in /repo -/
def fixedDedup : Bool := true

def bytesOfHex? (s : String) : Option Bytes := (hexDecode? s).map (·.map (·.toNat))
def hexOfBytes (b : Bytes) : String := hexEncode (b.map UInt8.ofNat)

def parseField? (s : String) : Option (Option Field) :=
  if s = "n" then some none else
  match splitChar '.' s with
  | [ty, d, h] => do
    let ty ← parseNat? ty
    let d ← bytesOfHex? d
    -- `z<n>`: Chunk.Hash is 0 and n = xxhash(data) is what the deduplicator computes itself
    let h ← parseNat? (match h.toList with | 'z' :: r => String.ofList r | _ => h)
    pure (some { ty := ty, data := d, hash := h })
  | _ => none

def parseChunk? (s : String) : Option Chunk :=
  match splitChar '~' s with
  | [mint, maxt, f0, f1, f2, f3, f4, f5] => do
    let mint ← parseInt? mint
    let maxt ← parseInt? maxt
    let f0 ← parseField? f0
    let f1 ← parseField? f1
    let f2 ← parseField? f2
    let f3 ← parseField? f3
    let f4 ← parseField? f4
    let f5 ← parseField? f5
    pure { mint := mint, maxt := maxt, raw := f0, count := f1, sum := f2, min := f3, max := f4, counter := f5 }
  | _ => none

def parseBLabel? (s : String) : Option (Bytes × Bytes) :=
  match splitChar '=' s with
  | [n, v] => do
    let n ← bytesOfHex? n
    let v ← bytesOfHex? v
    pure (n, v)
  | _ => none

def parseBLabels? (s : String) : Option Merge.Labels :=
  if s = "_" then some [] else (listOf ',' s).mapM parseBLabel?

def parseSeries? (s : String) : Option Merge.Series :=
  match splitChar '@' s with
  | [l, cs] => do
    let l ← parseBLabels? l
    let cs ← (listOf '+' cs).mapM parseChunk?
    pure { lbls := l, chunks := cs }
  | _ => none

def parseFrame? (s : String) : Option Frame :=
  match s.toList with
  | 'S' :: r => (parseSeries? (String.ofList r)).map .series
  | 'W' :: r => (bytesOfHex? (String.ofList r)).map .warning
  | 'H' :: r => (bytesOfHex? (String.ofList r)).map .hints
  | 'B' :: r => ((listOf '&' (String.ofList r)).mapM parseSeries?).map .batch
  | _ => none

def parseSFrame? (s : String) : Option (Frame × Bool) :=
  match s.toList with
  | '0' :: r => (parseFrame? (String.ofList r)).map (·, false)
  | '1' :: r => (parseFrame? (String.ofList r)).map (·, true)
  | _ => none

/-- error kinds of a scripted failure: p plain error, g gRPC status error, d context.DeadlineExceeded,
    u io.ErrUnexpectedEOF, w an error wrapping io.EOF (%w), c an error type with Is(io.EOF) = true,
    e io.EOF itself -/
def parseErrKind? : Char → Option RecvError
  | 'p' | 'g' | 'd' | 'u' => some { isEOF := false, chainEOF := false }
  | 'w' | 'c' => some { isEOF := false, chainEOF := true }
  | 'e' => some { isEOF := true, chainEOF := true }
  | _ => none

def parseFailure? (s : String) : Option (Failure × RecvError) :=
  match s.toList with
  | ['n'] => some (.none, {})
  | 'r' :: r =>
    match r.reverse with
    | k :: d => if k.isDigit then (parseNat? (String.ofList r)).map (fun n => (.recvErr n, {}))
                else do
                  let e ← parseErrKind? k
                  let n ← parseNat? (String.ofList d.reverse)
                  pure (.recvErr n, e)
    | [] => none
  | 'h' :: r => (parseNat? (String.ofList r)).map (fun n => (.hang n, {}))
  | _ => none

def parseStore? (s : String) : Option Store :=
  match splitChar ':' s with
  | [flags, fail, msgs, frames] =>
    -- an optional 4th flag character is the error kind of the failing Series() call: the open path
    -- has no end-of-stream test, every kind is a failure
    let flagChars := flags.toList
    if flagChars.length = 4 && (parseErrKind? (flagChars.getD 3 'x')).isNone then none else
    match (flagChars.take 3).mapM (fun c => parseBool? (String.singleton c)), splitChar ',' msgs with
    | some [sh, wo, oe], [m1, m2, m3] => do
      if flagChars.length > 4 then none
      let (fail, rerr) ← parseFailure? fail
      let m1 ← bytesOfHex? m1
      let m2 ← bytesOfHex? m2
      let m3 ← bytesOfHex? m3
      let frames ← (listOf ';' frames).mapM parseSFrame?
      pure { supportsSharding := sh, supportsWithout := wo, openErr := oe, failure := fail, frames := frames,
             recvMsg := m1, timeoutMsg := m2, openMsg := m3, recvError := rerr }
    | _, _ => none
  | _ => none

def showField : Option Field → String
  | none => "n"
  | some f => s!"{f.ty}.{hexOfBytes f.data}"

def showChunk (c : Chunk) : String :=
  "~".intercalate [toString c.mint, toString c.maxt, showField c.raw, showField c.count, showField c.sum,
                   showField c.min, showField c.max, showField c.counter]

def showBLabels (l : Merge.Labels) : String :=
  if l.isEmpty then "_" else ",".intercalate (l.map fun p => s!"{hexOfBytes p.1}={hexOfBytes p.2}")

def showSeries (s : Merge.Series) : String := s!"{showBLabels s.lbls}@{joinWith "+" (s.chunks.map showChunk)}"

def showFrame : Frame → String
  | .series s => "S" ++ showSeries s
  | .warning m => "W" ++ hexOfBytes m
  | .hints m => "H" ++ hexOfBytes m
  | .batch ss => "B" ++ "&".intercalate (ss.map showSeries)

def insertStr (x : String) : List String → List String
  | [] => [x]
  | y :: r => if x ≤ y then x :: y :: r else y :: insertStr x r

def sortStrs (xs : List String) : List String := xs.foldr insertStr []

def shapeOf (fs : List Frame) : String :=
  joinWith "," (fs.map fun f => match f with
    | .series _ => "s" | .batch ss => s!"b{ss.length}" | _ => "x")

def showOutcome (fs : List Frame) (sortSeries : Bool) : String :=
  let warn := sortStrs (fs.filterMap fun f => match f with | .warning m => some (hexOfBytes m) | _ => none)
  let hints := sortStrs (fs.filterMap fun f => match f with | .hints m => some (hexOfBytes m) | _ => none)
  let ser := (flatten fs).map showSeries
  let ser := if sortSeries then sortStrs ser else ser
  s!"shape={shapeOf fs} series={joinWith ";" ser} warn={joinWith "," warn} hints={joinWith "," hints}"

def lessNat (mx : Nat) (a b : Nat) : Bool :=
  if a = mx && b ≠ mx then false else if a ≠ mx && b = mx then true else if a = mx && b = mx then true else a / 16 < b / 16

def handleMerge : List String → Option String
  | ["lt.merge", mx, seqs] => do
    let mx ← parseNat? mx
    let seqs ← (listOf '|' seqs).mapM (fun s => if s = "_" then some [] else parseNats? ',' s)
    let t := LoserTree.new seqs mx (lessNat mx)
    let (out, tf) := LoserTree.drain ((seqs.map List.length).sum + 1) t
    pure s!"{showNats "," out} closed={showNats "," (tf.closed.map (· - seqs.length))}"
  | ["ring.run", size, script] => do
    -- the ring buffer of lazyRespSet: a<k> = append k (skipped when full), p = pop (skipped when empty)
    let size ← parseNat? size
    let ops ← (listOf ',' script).mapM (fun s => match s.toList with
      | 'a' :: r => (parseNat? (String.ofList r)).map Ring.Op.app
      | ['p'] => some Ring.Op.pop
      | _ => none)
    let (vs, rf) := Ring.run (Ring.Ring.new size : Ring.Ring Nat) ops
    pure s!"{joinWith "," (vs.map fun v => match v with | some k => toString k | none => "nil")} h={rf.head} t={rf.tail}"
  | ["merge.dedup", frames] => do
    let fs ← (listOf ';' frames).mapM parseFrame?
    pure (joinWith ";" ((dedup fixedDedup fs).map showFrame))
  | ["merge.series", lazy, _buf, batch, limit, abort, dd, sharded, without, stores] => do
    let lazy ← parseBool? lazy
    let batch ← parseNat? batch
    let limit ← parseNat? limit
    let abort ← parseBool? abort
    let dd ← parseBool? dd
    let sharded ← parseBool? sharded
    let without ← (listOf ',' without).mapM bytesOfHex?
    let stores ← (listOf '|' stores).mapM parseStore?
    let rq : Request := { fixedDedup := fixedDedup, lazy := lazy, batchSize := batch, limit := limit, abort := abort, dedup := dd,
                          sharded := sharded, without := without }
    let (out, oc) := proxySeriesSeen rq stores
    pure (match oc with
      | .ok => s!"ok {showOutcome out (!dd)}"
      | .aborted => "aborted"
      | .openFailed => "err-open"
      | .noStores => "unavailable")
  | ["q.select", lazy, _buf, batch, abort, qd, sharded, replicas, stores] => do
    let lazy ← parseBool? lazy
    let batch ← parseNat? batch
    let abort ← parseBool? abort
    let qd ← parseBool? qd
    let sharded ← parseBool? sharded
    let replicas ← (listOf ',' replicas).mapM bytesOfHex?
    let stores ← (listOf '|' stores).mapM parseStore?
    -- `isDedupEnabled`: deduplicate && len(replicaLabels) > 0
    let dedupOn := qd && !replicas.isEmpty
    let rq : Request := { fixedDedup := fixedDedup, lazy := lazy, batchSize := batch, limit := 0, abort := abort, dedup := true,
                          sharded := sharded, without := if dedupOn then replicas else [] }
    let r := selectFnSeen rq stores
    if r.failed then pure "err" else
    let ws := (sortStrs (r.warnings.map hexOfBytes)).eraseDups
    let n := if dedupOn then (if r.series.isEmpty then "0" else "+") else toString r.series.length
    pure s!"ok n={n} warn={joinWith "," ws}"
  | _ => none

end merge

def handle (toks : List String) : String :=
  match toks with
  | [] => "bad-op"
  | op :: _ =>
    if op.startsWith "prune." then (handlePrune toks).getD "bad-op"
    else if op.startsWith "bpool." || op.startsWith "pool." then (handlePool toks).getD "bad-op"
    else if op.startsWith "lt." || op.startsWith "merge." || op.startsWith "q." || op.startsWith "ring." then (handleMerge toks).getD "bad-op"
    else "bad-op"

end Thanos.Driver.Proxy
