import Thanos.Driver.Misc
-- executable root of `model_misc` (kept apart so that the library can import every driver)
def main : IO Unit := Thanos.Parse.runDriver Thanos.Driver.Misc.handle
