import Thanos.Driver.Dedup
-- executable root of `model_dedup` (kept apart so that the library can import every driver)
def main : IO Unit := Thanos.Parse.runDriver Thanos.Driver.Dedup.handle
