import Thanos.Driver.Hashring
-- executable root of `model_hashring` (kept apart so that the library can import every driver)
def main : IO Unit := Thanos.Parse.runDriver Thanos.Driver.Hashring.handle
