import Thanos.Common.Parse
import Thanos.Model.Planner
import Thanos.Model.CompactProto
/-
  Line-protocol driver of the `compact` family (C29 C30 C34).
  One request per line, one answer per line; every line is self-contained.

  C30 (planner):
    meta   = id:min:max:failed:tomb:series:isize:res          (failed is 0/1)
    metas  = meta;meta;…   (sorted by min by the caller; `-` = none)
    plan.one  <ranges ,> <excl ids ,> <metas>            -> ids `,`-joined | - | panic
    plan.iter <ranges ,> <excl ids ,> <metas> <newId>    -> fix|panic|fuel <plans: ids `,`-joined, plans `|`-joined> <final: id:min:max `;`-joined>
    plan.size <ranges ,> <excl ids ,> <metas> <limit> <totalMax>   -> ok <plan ids> <marked ids, sorted, unique> | panic <marked>
    plan.vert <ranges ,> <excl ids ,> <metas> <limit> <totalMax>   -> same as plan.size
        (limit = int64(float64(totalMax)*0.85) is computed by the Go side — float semantics are an input)

  C34 / C29 (protocol): one op is a whole trace
    cp.run <deleteDelay> <ignoreDelay> <lag> <gateways> <actions `,`-joined>
      action = s (ship) | c:<id+id+…> (compact) | f:<id+id+…> (compaction whose upload fails) | m:<b>:<r> (mark source b of result r) | g (garbage-collect all
               duplicates) | x (clean all blocks marked long enough ago) | y:<g> (gateway g syncs) | t:<d> (tick)
      -> per action, `;`-joined:  <ok|no>/<unmarked ids>/<marked ids>/<loaded ids of gateway 0>|<of gateway 1>|…
      (a disabled action answers `no` and leaves the state unchanged)
    cp.valid <deleteDelay> <events `,`-joined>      (C29 trace validation)
      event = s | r (read fault) | t:<d> | +<id>:<level>:<parents +>:<sources +> | m:<id> | -<id>
      -> valid | invalid@<k>:<event>     (is every event a transition of the model: compact / gc|markSource / clean / tick)
-/
open Thanos Thanos.Parse

namespace Thanos.Driver.Compact
open Thanos.Planner

def parseMeta (s : String) : Option Meta :=
  match splitChar ':' s with
  | [i, mn, mx, f, t, sr, isz, rs] => do
    let i ← parseNat? i
    let mn ← parseInt? mn
    let mx ← parseInt? mx
    let f ← parseNat? f
    let t ← parseNat? t
    let sr ← parseNat? sr
    let isz ← parseInt? isz
    let rs ← parseNat? rs
    pure { id := i, min := mn, max := mx, failed := f != 0, tomb := t, series := sr, isize := isz, res := rs }
  | _ => none

def parseMetas (s : String) : Option (List Meta) := (listOf ';' s).mapM parseMeta

def exclOf (ids : List Nat) : Excl := fun i => ids.contains i

def showIds (p : List Meta) : String := showNats "," (p.map (·.id))

def showPlans (ps : List (List Meta)) : String := joinWith "|" (ps.map showIds)

def showFinal (ms : List Meta) : String :=
  joinWith ";" (ms.map fun m => s!"{m.id}:{m.min}:{m.max}")

def insertNat (x : Nat) : List Nat → List Nat
  | [] => [x]
  | y :: ys => if x < y then x :: y :: ys else if x = y then y :: ys else y :: insertNat x ys

def sortUniq (xs : List Nat) : List Nat := xs.foldl (fun acc x => insertNat x acc) []

def showSize : SizeOutcome → String
  | .ok p mk => s!"ok {showIds p} {showNats "," (sortUniq mk)}"
  | .panic mk => s!"panic {showNats "," (sortUniq mk)}"
  | .outOfFuel => "fuel"

/-! ### protocol traces (C34, C29) -/
section Proto
open Thanos.CompactProto

/-- the tie rule of DefaultDeduplicateFilter's sort as the code has it now (see `Props/C34.lean`,
    obligation `C34_fact_tie`) -/
def currentLevelTie : Bool := true

def parseAction (s : String) : Option (List String) := some (splitChar ':' s)

def digest (s : State) : String :=
  let un := (s.blocks.filter (·.mark.isNone)).map (·.id)
  let mk := (s.blocks.filter (·.mark.isSome)).map (·.id)
  let gws := s.gws.map (fun g => showNats "+" (sortUniq g.loaded))
  s!"{showNats "+" (sortUniq un)}/{showNats "+" (sortUniq mk)}/{if gws.isEmpty then "-" else "|".intercalate gws}"

def gcAll (P : Params) (s : State) : State :=
  let ds := (duplicates P.levelTie (P.deleteDelay / P.divisor) s.now s.blocks).filter (·.mark.isNone)
  ds.foldl (fun st b => match step P st (.gc b.id) with | some st' => st' | none => st) s

def cleanAll (P : Params) (s : State) : State :=
  s.blocks.foldl (fun st b => match step P st (.clean b.id) with | some st' => st' | none => st) s

/-- one action token; `none` = malformed -/
def doAction (P : Params) (s : State) (tok : String) : Option (Bool × State) :=
  match splitChar ':' tok with
  | ["s"] => (step P s .ship).map (fun s' => (true, s'))
  | ["c", ids] =>
    match parseNats? '+' ids with
    | some ids => some (match step P s (.compact ids) with | some s' => (true, s') | none => (false, s))
    | none => none
  | ["f", ids] =>
    match parseNats? '+' ids with
    | some ids =>
      -- enabled like a compaction; the result never becomes visible
      some (match step P s (.compact ids) with
            | some _ => (match step P s .failedUpload with | some s' => (true, s') | none => (false, s))
            | none => (false, s))
    | none => none
  | ["m", b, r] =>
    match parseNat? b, parseNat? r with
    | some b, some r => some (match step P s (.markSource b r) with | some s' => (true, s') | none => (false, s))
    | _, _ => none
  | ["g"] => some (true, gcAll P s)
  | ["x"] => some (true, cleanAll P s)
  | ["y", g] =>
    match parseNat? g with
    | some g => some (match step P s (.sync g) with | some s' => (true, s') | none => (false, s))
    | none => none
  | ["t", d] =>
    match parseNat? d with
    | some d => some (match step P s (.tick d) with | some s' => (true, s') | none => (false, s))
    | none => none
  | _ => none

def runTrace (P : Params) : State → List String → Option (List String)
  | _, [] => some []
  | s, t :: ts =>
    match doAction P s t with
    | none => none
    | some (ok, s') =>
      match runTrace P s' ts with
      | none => none
      | some rest => some (s!"{if ok then "ok" else "no"}/{digest s'}" :: rest)

/-! trace validation (C29): is the recorded meta-level history of the real bucket a history of the model? -/

def dropChars (n : Nat) (s : String) : String := String.ofList (s.toList.drop n)

def validEvent (P : Params) (s : State) (ev : String) : Option State :=
  if ev = "s" then step P s .ship
  else if ev = "r" then step P s .readFault
  else if ev.startsWith "t:" then
    match parseNat? (dropChars 2 ev) with
    | some d => step P s (.tick d)
    | none => none
  else if ev.startsWith "m:" then
    match parseNat? (dropChars 2 ev) with
    | some b =>
      match step P s (.gc b) with
      | some s' => some s'
      | none => (s.blocks.map (·.id)).findSome? (fun r => step P s (.markSource b r))
    | none => none
  else if ev.startsWith "-" then
    match parseNat? (dropChars 1 ev) with
    | some b => step P s (.clean b)
    | none => none
  else if ev.startsWith "+" then
    match splitChar ':' (dropChars 1 ev) with
    | [i, lv, par, src] =>
      match parseNat? i, parseNat? lv, parseNats? '+' par, parseNats? '+' src with
      | some i, some lv, some par, some src =>
        match step P s (.compact par) with
        | some s' =>
          match s'.blocks.getLast? with
          | some nb => if nb.id = i ∧ nb.level = lv ∧ nb.sources = sortUniq src then some s' else none
          | none => none
        | none => none
      | _, _, _, _ => none
    | _ => none
  else none

def validate (P : Params) : State → Nat → List String → String
  | _, _, [] => "valid"
  | s, k, ev :: evs =>
    match validEvent P s ev with
    | some s' => validate P s' (k + 1) evs
    | none => s!"invalid@{k}:{ev}"

end Proto

def handle : List String → String
  | ["plan.one", rs, ex, ms] =>
    match parseInts? ',' rs, parseNats? ',' ex, parseMetas ms with
    | some rs, some ex, some ms =>
      match plan rs (exclOf ex) ms with
      | some p => showIds p
      | none => "panic"
    | _, _, _ => "bad-op"
  | ["plan.iter", rs, ex, ms, nid] =>
    match parseInts? ',' rs, parseNats? ',' ex, parseMetas ms, parseNat? nid with
    | some rs, some ex, some ms, some nid =>
      match iterate rs (exclOf ex) (2 * ms.length + 2) nid ms with
      | .fixpoint ps f => s!"fix {showPlans ps} {showFinal f}"
      | .panic ps => s!"panic {showPlans ps} -"
      | .outOfFuel ps f => s!"fuel {showPlans ps} {showFinal f}"
    | _, _, _, _ => "bad-op"
  | ["plan.size", rs, ex, ms, lim, _totalMax] =>
    match parseInts? ',' rs, parseNats? ',' ex, parseMetas ms, parseInt? lim with
    | some rs, some ex, some ms, some lim =>
      showSize (sizePlan rs lim (ms.length + 1) (exclOf ex) [] ms)
    | _, _, _, _ => "bad-op"
  | ["plan.vert", rs, ex, ms, lim, _totalMax] =>
    match parseInts? ',' rs, parseNats? ',' ex, parseMetas ms, parseInt? lim with
    | some rs, some ex, some ms, some lim =>
      showSize (vertPlan true rs lim (exclOf ex) (ms.length + 1) [] [] ms)
    | _, _, _, _ => "bad-op"
  | ["cp.run", dd, ig, lag, k, acts] =>
    match parseNat? dd, parseNat? ig, parseNat? lag, parseNat? k with
    | some dd, some ig, some lag, some k =>
      let P : CompactProto.Params := { deleteDelay := dd, divisor := 2, ignoreDelay := ig, lag := lag, levelTie := currentLevelTie }
      match runTrace P (CompactProto.init k) (listOf ',' acts) with
      | some outs => joinWith ";" outs
      | none => "bad-op"
    | _, _, _, _ => "bad-op"
  | ["cp.valid", dd, evs] =>
    match parseNat? dd with
    | some dd =>
      let P : CompactProto.Params := { deleteDelay := dd, divisor := 2, ignoreDelay := dd / 2, lag := 0, levelTie := currentLevelTie }
      validate P (CompactProto.init 0) 1 (listOf ',' evs)
    | none => "bad-op"
  | _ => "bad-op"

end Thanos.Driver.Compact
