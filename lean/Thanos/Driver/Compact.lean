import Thanos.Common.Parse
import Thanos.Model.Planner
/-
  Line-protocol driver of the `compact` family (C29 C30 C34).
  One request per line, one answer per line; every line is self-contained.

  C30 (planner):
    meta   = id:min:max:failed:tomb:series:isize:res          (failed is 0/1)
    metas  = meta;meta;…   (sorted by min by the caller; `-` = none)
    plan.one  <ranges ,> <excl ids ,> <metas>            -> ids `,`-joined | - | panic
    plan.iter <ranges ,> <excl ids ,> <metas> <newId>    -> fix|panic|fuel <plans: ids `,`-joined, plans `|`-joined> <final: id:min:max `;`-joined>
    plan.size <ranges ,> <excl ids ,> <metas> <limit> <totalMax>   -> ok <plan ids> <marked ids, sorted, unique> | panic <marked>
    plan.vert <ranges ,> <excl ids ,> <metas> <limit> <totalMax>   -> same as plan.size
        (limit = int64(float64(totalMax)*0.85) is computed by the Go side — float semantics are an input)
-/
open Thanos Thanos.Parse

namespace Thanos.Driver.Compact
open Thanos.Planner

def parseMeta (s : String) : Option Meta :=
  match splitChar ':' s with
  | [i, mn, mx, f, t, sr, isz, rs] => do
    let i ← parseNat? i
    let mn ← parseInt? mn
    let mx ← parseInt? mx
    let f ← parseNat? f
    let t ← parseNat? t
    let sr ← parseNat? sr
    let isz ← parseInt? isz
    let rs ← parseNat? rs
    pure { id := i, min := mn, max := mx, failed := f != 0, tomb := t, series := sr, isize := isz, res := rs }
  | _ => none

def parseMetas (s : String) : Option (List Meta) := (listOf ';' s).mapM parseMeta

def exclOf (ids : List Nat) : Excl := fun i => ids.contains i

def showIds (p : List Meta) : String := showNats "," (p.map (·.id))

def showPlans (ps : List (List Meta)) : String := joinWith "|" (ps.map showIds)

def showFinal (ms : List Meta) : String :=
  joinWith ";" (ms.map fun m => s!"{m.id}:{m.min}:{m.max}")

def insertNat (x : Nat) : List Nat → List Nat
  | [] => [x]
  | y :: ys => if x < y then x :: y :: ys else if x = y then y :: ys else y :: insertNat x ys

def sortUniq (xs : List Nat) : List Nat := xs.foldl (fun acc x => insertNat x acc) []

def showSize : SizeOutcome → String
  | .ok p mk => s!"ok {showIds p} {showNats "," (sortUniq mk)}"
  | .panic mk => s!"panic {showNats "," (sortUniq mk)}"
  | .outOfFuel => "fuel"

def handle : List String → String
  | ["plan.one", rs, ex, ms] =>
    match parseInts? ',' rs, parseNats? ',' ex, parseMetas ms with
    | some rs, some ex, some ms =>
      match plan rs (exclOf ex) ms with
      | some p => showIds p
      | none => "panic"
    | _, _, _ => "bad-op"
  | ["plan.iter", rs, ex, ms, nid] =>
    match parseInts? ',' rs, parseNats? ',' ex, parseMetas ms, parseNat? nid with
    | some rs, some ex, some ms, some nid =>
      match iterate rs (exclOf ex) (2 * ms.length + 2) nid ms with
      | .fixpoint ps f => s!"fix {showPlans ps} {showFinal f}"
      | .panic ps => s!"panic {showPlans ps} -"
      | .outOfFuel ps f => s!"fuel {showPlans ps} {showFinal f}"
    | _, _, _, _ => "bad-op"
  | ["plan.size", rs, ex, ms, lim, _totalMax] =>
    match parseInts? ',' rs, parseNats? ',' ex, parseMetas ms, parseInt? lim with
    | some rs, some ex, some ms, some lim =>
      showSize (sizePlan rs lim (ms.length + 1) (exclOf ex) [] ms)
    | _, _, _, _ => "bad-op"
  | ["plan.vert", rs, ex, ms, lim, _totalMax] =>
    match parseInts? ',' rs, parseNats? ',' ex, parseMetas ms, parseInt? lim with
    | some rs, some ex, some ms, some lim =>
      showSize (vertPlan rs lim (exclOf ex) (ms.length + 1) [] [] ms)
    | _, _, _, _ => "bad-op"
  | _ => "bad-op"

end Thanos.Driver.Compact
