import Thanos.Common.Parse
/-
  Line-protocol driver of the `compact` family (C29 C30 C34).
  One request per line, one answer per line; every line is self-contained.
-/
open Thanos Thanos.Parse

namespace Thanos.Driver.Compact

def handle : List String → String
  | _ => "bad-op"

end Thanos.Driver.Compact
