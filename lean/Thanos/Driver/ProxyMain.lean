import Thanos.Driver.Proxy
-- executable root of `model_proxy` (kept apart so that the library can import every driver)
def main : IO Unit := Thanos.Parse.runDriver Thanos.Driver.Proxy.handle
