import Thanos.Common.Parse
import Thanos.Model.CacheKeys
import Thanos.Model.BucketKey
import Thanos.Model.PostingsCodec
import Thanos.Model.CachingBucket
import Thanos.Model.CachingBucketOps
import Thanos.Model.IndexHeader
import Thanos.Model.LazyReader
import Thanos.Model.ReaderPool
/-
  Line-protocol driver of the `index` family (C11 C12 C13 C14 C16).
  One request per line, one answer per line; every line is self-contained.

  C13 (cache keys) — grammar
    str    := hex of the bytes, "-" for the empty string
    m      := <type 0..3>,<name str>,<value str>            0 "="  1 "!="  2 "=~"  3 "!~"
    ms     := "-" | m(;m)*
    item   := P/<block>/<name>/<value>/<compression> | E/<block>/<ms>/<compression> | S/<block>/<id>
    table  := "-" | <str>=<str>(,<str>=<str>)*      (argument = result of a third-party function)
    key   <item> <quote table> <hash table>   -> hex of CacheKey.String | noquote | nohash
    pair  <item> <item> <quote table>         -> eq | ne   (do the two keys coincide?)
    lms   <ms> <quote table>                  -> hex of LabelMatchersToString
    mkey  <type> <name> <value>               -> hex of the matchers-cache key
    mpair <type> <name> <value> <type> <name> <value>  -> eq | ne

  C12 (postings codecs) — grammar
    list   := "-" | <uint64>(,<uint64>)*
    script := "-" | op(,op)*      op := n (Next) | s<x> (Seek(x)) | d (call Next until false)
    trace  := one item per op: t<At> | f | D<count>/<sum mod 2^64>/<Σ (i+1)·v_i mod 2^64>[=v.v.v if count ≤ 40]
    pc.enc <list>                              -> hex of the diff+uvarint payload | unsorted
    pc.rt  dvs|dss|dsp <list> <chunk lengths> <script>
                                               -> <payload length>/<fnv1a-32 of payload> <trace> e<0|1>   | unsorted | bad-chunks
         (encode with the codec, decode, run the script; the chunk lengths are those of the
          real snappy stream — third-party input — and must add up to the payload length)
    chunk  := u<hex> | c<hex> (data chunk, uncompressed / compressed) | p<hex> (padding chunk: no data)
    pc.dec dvs|dss <chunk>(|<chunk>)* <script>   -> <trace> e<0|1>
         (decode the given payload, cut into the given chunks; malformed payloads allowed)

  C14 (caching bucket) — grammar
    cb.hist <object hex> <S> <maxSub> <p> <op>(;<op>)*
        one object in the wrapped in-memory bucket, a caching bucket with subrange size S and
        MaxSubRequests maxSub in front of it, a history of reads; `p` = buffer size of the Read calls
    op  := r<off>,<len>,<attrpat>,<subpat>     GetRange(off, len), read to EOF
    pat := [012]+   how the lossy cache treats the i-th key of a Fetch call (cyclic):
                    0 = return it if stored, 1 = miss this time, 2 = evict (miss and forget)
    answer: one item per op, joined by ';':
        <bytes hex | panic | err>/<A if the wrapped bucket's Attributes was called, else ->/
        <GetRange calls on the wrapped bucket: start+len,…>/<stored subrange keys: start-end,…>

  C11 (binary index-header) — grammar
    ih.q <n> <nextOff> <tbl> <wanted> [ignored tokens: how the harness rebuilds the index]
        n       = postingOffsetsInMemSampling
        tbl     = <rank>:<offset>(,<rank>:<offset>)*   the postings offset table of one label name
                  (label values replaced by their ranks among all strings of the case)
        nextOff = where the posting list after the last one of this name starts (first posting
                  of the next name, or the end of the postings section)
        wanted  = "-" | <rank>(,<rank>)*               the requested values, sorted
      -> s=<kept table indices> l=<lastValOffset> v=<LabelValues as ranks> r=<range>(,<range>)*
         range = <start>:<end> | nf ;  r=err on an error
    ih.names <names of all table entries, as ranks, in table order> <rank of "" or ->     -> LabelNames as ranks
    ih.sym <shift> <nameSymbols ref:x<hex>,…> <refs to look up, in order> <symbol table ref:x<hex>,…>
      -> x<hex> | err per lookup (the header's symbol caches are part of the model, invisible in the answers)
    ih.v1 <rank of ""> <lastEnd> <v1 table name.value.offset,…> <name> <wanted values>   (ranks; index format v1)
      -> v=<LabelValues> r=<range>,…

  C16 (lazy index-header) — grammar
    lz.seq <item>(,<item>)*     calls made one after the other on one LazyBinaryReader
        item := q (a Reader method) | u (unloadIfIdleSince(0)) | b (unloadIfIdleSince: not idle) | p (isIdleSince)
      -> <result>(,<result>)* loads=<n> unloads=<n>
         result := ok | err | unloaded | noop | notidle | p0 | p1
    lz.seqf <item>(,<item>)*    as lz.seq; further items: x (from now on NewBinaryReader fails: the header file is
        gone and the bucket is down) | h (the bucket is back)
      -> <result>(,<result>)* loads=<n> failed=<n> unloads=<n>      result also: lerr (the load error)
    lz.pool <0|1> <op>(,<op>)*  one ReaderPool (1 = it sweeps idle readers), readers numbered in creation order
        op := n (NewBinaryReader) | u<i> (a Reader method of reader i) | a<i> (reader i not used within the
              idle timeout) | c<i> (Close of reader i) | s (closeIdleReaders)
      -> per op <tracked bits>/<loaded bits> (one bit per reader, - if none), then unloads=<n>
    lz.sched <kinds> <schedule>   kinds := [qubp]+ (one thread each), schedule := <tid>(,<tid>)*
      -> bad=<0|1> loads=<n> unloads=<n> <log>     (model only: used by the corpus to replay interleavings)
-/
open Thanos Thanos.Parse

namespace Thanos.Driver.Index
open Thanos.CacheKeys

def strOfHex? (s : String) : Option Str := (hexDecode? s).map (·.map (·.toNat))
def hexOfStr (s : Str) : String := hexEncode (s.map UInt8.ofNat)

def parseType? (s : String) : Option MatchType :=
  match s with
  | "0" => some .eq | "1" => some .neq | "2" => some .re | "3" => some .nre
  | _ => none

def parseMatcher? (s : String) : Option Matcher :=
  match splitChar ',' s with
  | [t, n, v] => do
    let t ← parseType? t
    let n ← strOfHex? n
    let v ← strOfHex? v
    pure ⟨t, n, v⟩
  | _ => none

def parseMatchers? (s : String) : Option (List Matcher) := (listOf ';' s).mapM parseMatcher?

def parseItem? (s : String) : Option CacheKey :=
  match splitChar '/' s with
  | ["P", b, n, v, c] => do
    let b ← strOfHex? b; let n ← strOfHex? n; let v ← strOfHex? v; let c ← strOfHex? c
    pure ⟨b, .postings n v, c⟩
  | ["E", b, ms, c] => do
    let b ← strOfHex? b; let ms ← parseMatchers? ms; let c ← strOfHex? c
    pure ⟨b, .expanded ms, c⟩
  | ["S", b, id] => do
    let b ← strOfHex? b; let id ← parseNat? id
    pure ⟨b, .series id, []⟩
  | _ => none

def parseTable? (s : String) : Option (List (Str × Str)) :=
  (listOf ',' s).mapM fun e =>
    match splitChar '=' e with
    | [a, b] => do
      let a ← strOfHex? a; let b ← strOfHex? b
      pure (a, b)
    | _ => none

def tableFn (t : List (Str × Str)) (s : Str) : Str := (t.lookup s).getD []

/-- the strings an item passes to `quote` -/
def quoted (k : CacheKey) : List Str :=
  match k.item with
  | .expanded ms => ms.flatMap fun m => [m.name, m.value]
  | _ => []

/-- the string an item passes to `hash` -/
def preimage (quote : Str → Str) (k : CacheKey) : Option Str :=
  match k.item with
  | .postings n v => some (n ++ cColon :: v)
  | .expanded ms => some (labelMatchersToString quote ms)
  | .series _ => none

def covers (t : List (Str × Str)) (xs : List Str) : Bool := xs.all fun x => (t.lookup x).isSome

/-- injective stand-in for the hash in `pair` ops (images are outside the byte range) -/
def standIn (s : Str) : Str := s.map (· + 256)

def eqne (b : Bool) : String := if b then "eq" else "ne"

def handleC13 : List String → Option String
  | ["key", item, qt, ht] => do
    let k ← parseItem? item
    let qt ← parseTable? qt
    let ht ← parseTable? ht
    if !covers qt (quoted k) then pure "noquote" else
    match preimage (tableFn qt) k with
    | some p => if !covers ht [p] then pure "nohash" else
                pure (hexOfStr (keyString (tableFn ht) (tableFn qt) k))
    | none => pure (hexOfStr (keyString (tableFn ht) (tableFn qt) k))
  | ["pair", i1, i2, qt] => do
    let k1 ← parseItem? i1
    let k2 ← parseItem? i2
    let qt ← parseTable? qt
    if !covers qt (quoted k1 ++ quoted k2) then pure "noquote" else
    pure (eqne (keyString standIn (tableFn qt) k1 == keyString standIn (tableFn qt) k2))
  | ["lms", ms, qt] => do
    let ms ← parseMatchers? ms
    let qt ← parseTable? qt
    if !covers qt (ms.flatMap fun m => [m.name, m.value]) then pure "noquote" else
    pure (hexOfStr (labelMatchersToString (tableFn qt) ms))
  | ["mkey", t, n, v] => do
    let m ← parseMatcher? s!"{t},{n},{v}"
    pure (hexOfStr (matcherKey m))
  | ["mpair", t1, n1, v1, t2, n2, v2] => do
    let m1 ← parseMatcher? s!"{t1},{n1},{v1}"
    let m2 ← parseMatcher? s!"{t2},{n2},{v2}"
    pure (eqne (matcherKey m1 == matcherKey m2))
  | _ => none

/-! ### C12 -/
section C12
open Thanos.PostingsCodec

def parseOp? (s : String) : Option Op :=
  if s = "n" then some .next
  else if s.startsWith "s" then (parseNat? (s.drop 1).toString).map .seek
  else none

/-- script items: `d` is kept apart from Next/Seek -/
inductive Cmd where
  | op (o : Op)
  | drain

def parseCmd? (s : String) : Option Cmd :=
  if s = "d" then some .drain else (parseOp? s).map .op

def fnv32 (bs : List Nat) : Nat :=
  bs.foldl (fun h b => ((h ^^^ b) * 16777619) % 4294967296) 2166136261

def showObs : Obs → String
  | some v => s!"t{v}"
  | none => "f"

def wsum (vs : List Nat) : Nat :=
  (vs.foldl (fun (acc : Nat × Nat) v => (acc.1 + 1, (acc.2 + (acc.1 + 1) * v) % M64)) (0, 0)).2

def showDrain (vs : List Nat) : String :=
  let head := s!"D{vs.length}/{vs.sum % M64}/{wsum vs}"
  if vs.length ≤ 40 ∧ vs.length > 0 then head ++ "=" ++ ".".intercalate (vs.map toString) else head

def runCmds {σ : Type} (I : IterOps σ) : List Cmd → σ → List String × σ
  | [], s => ([], s)
  | .op .next :: cs, s =>
    let (r, s') := I.next s
    let (t, s'') := runCmds I cs s'
    (showObs (obs r (I.cur s')) :: t, s'')
  | .op (.seek x) :: cs, s =>
    let (r, s') := seekG I x s
    let (t, s'') := runCmds I cs s'
    (showObs (obs r (I.cur s')) :: t, s'')
  | .drain :: cs, s =>
    let (vs, s') := drainG I (I.size s + 1) s
    let (t, s'') := runCmds I cs s'
    (showDrain vs :: t, s'')

/-- cut `bs` into pieces of the given lengths (which must add up) -/
def cut : List Nat → List Nat → Option (List (List Nat))
  | [], [] => some []
  | [], _ :: _ => none
  | n :: ns, bs => if bs.length < n then none else (cut ns (bs.drop n)).map (bs.take n :: ·)

/-- `u<hex>` / `c<hex>`: a data chunk with that payload; `p<hex>`: a padding chunk (no data) -/
def parseChunk? (s : String) : Option (List Nat) :=
  if s.startsWith "p" then (strOfHex? (s.drop 1).toString).map fun _ => []
  else if s.startsWith "u" ∨ s.startsWith "c" then strOfHex? (s.drop 1).toString
  else none

def runCodec (codec : String) (chunks : List (List Nat)) (cmds : List Cmd) : Option String :=
  if codec = "dvs" then
    let (t, s) := runCmds plainOps cmds ⟨0, chunks.flatten, false⟩
    some (joinWith "," t ++ (if s.err then " e1" else " e0"))
  else if codec = "dss" ∨ codec = "dsp" then
    some (joinWith "," (runCmds streamOps cmds ⟨0, [], chunks⟩).1 ++ " e0")
  else none

def handleC12 : List String → Option String
  | ["pc.enc", l] => do
    let l ← parseNats? ',' l
    match encode l with
    | some bs => pure (hexOfStr bs)
    | none => pure "unsorted"
  | ["pc.rt", codec, l, lens, script] => do
    let l ← parseNats? ',' l
    let lens ← parseNats? ',' lens
    let cmds ← (listOf ',' script).mapM parseCmd?
    match encode l with
    | none => pure "unsorted"
    | some bs =>
      match cut lens bs with
      | none => pure "bad-chunks"
      | some chunks => do
        let t ← runCodec codec chunks cmds
        pure s!"{bs.length}/{fnv32 bs} {t}"
  | ["pc.dec", codec, chunks, script] => do
    let chunks ← (splitChar '|' chunks).mapM parseChunk?
    let cmds ← (listOf ',' script).mapM parseCmd?
    runCodec codec chunks cmds
  | _ => none
end C12

/-! ### C14 -/
section C14
open Thanos.CachingBucket Thanos.CacheKeys

def patAt (pat : List Char) (i : Nat) : Char := pat.getD (i % pat.length) '0'

def sortPairs (l : List (Nat × Nat)) : List (Nat × Nat) :=
  (l.toArray.qsort fun a b => a.1 < b.1 || (a.1 == b.1 && a.2 < b.2)).toList

def showPairs (sep : String) (l : List (Nat × Nat)) : String :=
  joinWith "," ((sortPairs l).map fun (a, b) => s!"{a}{sep}{b}")

def parsePat? (s : String) : Option (List Char) :=
  if s.isEmpty || !(s.toList.all fun c => c == '0' || c == '1' || c == '2') then none else some s.toList

def parseMode? (s : String) : Option ReadMode :=
  if s = "f" then some .full else if s = "x" then some .exact
  else if s.startsWith "h" then (parseNat? (s.drop 1).toString).map .partialRead else none

/-- one op of a history, with the patterns of its Fetch calls -/
structure WOp where
  op : KOp
  pats : List (List Char)       -- one pattern per Fetch call of the op

/-- a Fetch: which of the requested keys are seen (pattern 0 and stored), which are evicted (2) -/
def fetch (c : KCache) (keys : List Str) (pat : List Char) : List Str × KCache :=
  let keyed := keys.zipIdx.map fun (k, i) => (k, patAt pat i)
  let seen := (keyed.filter fun (_, ch) => ch == '0').map (·.1)
  let evicted := (keyed.filter fun (_, ch) => ch == '2').map (·.1)
  (seen, c.filter fun e => !evicted.contains e.1)

def viewOf (c : KCache) (seen : List Str) : Str → Option Val :=
  fun ks => if seen.contains ks then c.lookup ks else none

/-- the subrange keys a GetRange asks the cache for, in request order (none when the request is
    passed to the wrapped bucket or the object is absent) -/
def rangeKeys (w : World) (S : Nat) (name : Str) (off len : Nat) : List Str :=
  match w.obj name with
  | none => []
  | some b =>
    let size := b.length
    if off ≥ size then [] else
    let endPos := min (off + len) size
    let startRange := (off / S) * S
    let endRange := (endPos / S) * S + (if endPos % S > 0 then S else 0)
    (offsets S startRange endRange).map fun o => keyOf .subrange name o (min (o + S) size) []

def showStr (s : Str) : String := hexOfStr s

def showCall : Call → String
  | .attributes _ => "A"
  | .getRange _ off len => s!"R{off}+{len}"
  | .get _ => "G"
  | .exists_ _ => "E"
  | .iter _ _ => "I"

def showKAns : Thanos.CachingBucket.Ans → String
  | .data b => hexOfStr b
  | .notFound => "notfound"
  | .bool b => if b then "true" else "false"
  | .size n => s!"size:{n}"
  | .names l => "names:" ++ joinWith "," (l.map showStr)
  | .failed => "err"
  | .panic => "panic"

def sortStrings (l : List String) : List String := (l.toArray.qsort (· < ·)).toList

def callKey (c : Call) : Nat × Nat :=
  match c with
  | .getRange _ off len => (off, len)
  | _ => (0, 0)

def showRes (r : KRes) : String :=
  let reads := (r.calls.filter fun c => match c with | .getRange .. => true | _ => false)
  let others := (r.calls.filter fun c => match c with | .getRange .. => false | _ => true)
  let readsSorted := sortPairs (reads.map callKey)
  let calls := others.map showCall ++ readsSorted.map fun (a, l) => s!"R{a}+{l}"
  let ans := match r.ans with
    | .panic => "panic" | .failed => "err" | a => showKAns a
  if ans == "panic" || ans == "err" then s!"{ans}/-/-" else
  s!"{ans}/{joinWith "+" calls}/{joinWith "," (sortStrings (r.stores.map fun e => showStr e.1))}"

/-- run one op: its Fetch calls with their patterns, the op itself, the stores -/
def worldStep (w : World) (cfg : Cfg) (c : KCache) (o : WOp) : String × KCache :=
  let pat (i : Nat) : List Char := o.pats.getD i ['0']
  match o.op with
  | .getRange name off len _ =>
    let (seen1, c1) := fetch c [keyOf .attrs name 0 0 []] (pat 0)
    -- the attributes are fetched (and stored) before the subranges are asked for
    let a := kAttrs w name (viewOf c seen1)
    let c2 := c1.filter (fun e => !(a.2.2.map (·.1)).contains e.1) ++ a.2.2
    let (seen2, c3) := fetch c2 (rangeKeys w cfg.S name off len) (pat 1)
    let view := fun ks => if ks = keyOf .attrs name 0 0 [] then viewOf c seen1 ks else viewOf c2 seen2 ks
    let r := kStep w cfg o.op view
    let newKeys := r.stores.map (·.1)
    (showRes r, c3.filter (fun e => !newKeys.contains e.1) ++ r.stores)
  | .get name _ =>
    let (seen, c1) := fetch c [keyOf .content name 0 0 [], keyOf .exists_ name 0 0 []] (pat 0)
    let r := kStep w cfg o.op (viewOf c seen)
    let newKeys := r.stores.map (·.1)
    (showRes r, c1.filter (fun e => !newKeys.contains e.1) ++ r.stores)
  | .exists_ name =>
    let (seen, c1) := fetch c [keyOf .exists_ name 0 0 []] (pat 0)
    let r := kStep w cfg o.op (viewOf c seen)
    let newKeys := r.stores.map (·.1)
    (showRes r, c1.filter (fun e => !newKeys.contains e.1) ++ r.stores)
  | .attributes name =>
    let (seen, c1) := fetch c [keyOf .attrs name 0 0 []] (pat 0)
    let r := kStep w cfg o.op (viewOf c seen)
    let newKeys := r.stores.map (·.1)
    (showRes r, c1.filter (fun e => !newKeys.contains e.1) ++ r.stores)
  | .iter dir recursive =>
    let (seen, c1) := fetch c [keyOf (if recursive then .iterRecursive else .iter) dir 0 0 w.hash] (pat 0)
    let r := kStep w cfg o.op (viewOf c seen)
    let newKeys := r.stores.map (·.1)
    (showRes r, c1.filter (fun e => !newKeys.contains e.1) ++ r.stores)

def worldRun (w : World) (cfg : Cfg) : List WOp → KCache → List String
  | [], _ => []
  | o :: os, c =>
    let (a, c') := worldStep w cfg c o
    a :: worldRun w cfg os c'

/-- `kind:field:field…`; returns the op and, for Iter, the listing the wrapped bucket gives -/
def parseWOp? (s : String) : Option (WOp × Option ((Str × Bool) × List Str)) :=
  match splitChar ':' s with
  | ["r", n, o, l, p, ap, sp] => do
    let n ← strOfHex? n; let o ← parseNat? o; let l ← parseNat? l; let p ← parseNat? p
    let ap ← parsePat? ap; let sp ← parsePat? sp
    if l = 0 ∨ p = 0 then none else
    pure (⟨.getRange n o l p, [ap, sp]⟩, none)
  | ["g", n, m, pat] => do
    let n ← strOfHex? n; let m ← parseMode? m; let pat ← parsePat? pat
    pure (⟨.get n m, [pat]⟩, none)
  | ["e", n, pat] => do
    let n ← strOfHex? n; let pat ← parsePat? pat
    pure (⟨.exists_ n, [pat]⟩, none)
  | ["a", n, pat] => do
    let n ← strOfHex? n; let pat ← parsePat? pat
    pure (⟨.attributes n, [pat]⟩, none)
  | ["i", d, rec, pat, listing] => do
    let d ← strOfHex? d; let pat ← parsePat? pat
    let rec ← if rec = "1" then some true else if rec = "0" then some false else none
    let names ← (listOf ',' listing).mapM strOfHex?
    pure (⟨.iter d rec, [pat]⟩, some ((d, rec), names))
  | _ => none

def parseObjects? (s : String) : Option (List (Str × Bytes)) :=
  (listOf ',' s).mapM fun e =>
    match splitChar '=' e with
    | [n, b] => do
      let n ← strOfHex? n; let b ← strOfHex? b
      pure (n, b)
    | _ => none

/-- the old single-object histories, expressed in the general form: objects "obj" and
    "zdir/file", absent "nope", listing of "" = ["obj", "zdir/"], config hash "h" -/
def legacyOp? (obj : Bytes) (p : Nat) (s : String) : Option (WOp × Option ((Str × Bool) × List Str)) :=
  let objN : Str := [111, 98, 106]
  let nope : Str := [110, 111, 112, 101]
  let rest := (s.drop 1).toString
  match s.toList.head? with
  | some 'r' =>
    match splitChar ',' rest with
    | [o, l, ap, sp] => do
      let o ← parseNat? o; let l ← parseNat? l
      let ap ← parsePat? ap; let sp ← parsePat? sp
      if l = 0 then none else pure (⟨.getRange objN o l p, [ap, sp]⟩, none)
    | _ => none
  | some 'g' =>
    match splitChar ',' rest with
    | [m, pat] => do
      let m ← parseMode? m; let pat ← parsePat? pat
      let m := match m with | .partialRead n => .partialRead (min n obj.length) | m => m
      pure (⟨.get objN m, [pat]⟩, none)
    | _ => none
  | some 'G' => (parsePat? rest).map fun pat => (⟨.get nope .full, [pat]⟩, none)
  | some 'e' => (parsePat? rest).map fun pat => (⟨.exists_ objN, [pat]⟩, none)
  | some 'E' => (parsePat? rest).map fun pat => (⟨.exists_ nope, [pat]⟩, none)
  | some 'a' => (parsePat? rest).map fun pat => (⟨.attributes objN, [pat]⟩, none)
  | some 'A' => (parsePat? rest).map fun pat => (⟨.attributes nope, [pat]⟩, none)
  | some 'i' => (parsePat? rest).map fun pat =>
      (⟨.iter [] false, [pat]⟩, some (([], false), [objN, [122, 100, 105, 114, 47]]))
  | _ => none

def runWorld (objs : List (Str × Bytes)) (hash : Str) (cfg : Cfg)
    (ops : List (WOp × Option ((Str × Bool) × List Str))) : String :=
  let listings := ops.filterMap (·.2)
  let w : World := ⟨objs, fun d r => ((listings.lookup (d, r)).getD []), hash⟩
  ";".intercalate (worldRun w cfg (ops.map (·.1)) [])

def handleC14 : List String → Option String
  | ["cb.hist", obj, S, maxSub, p, ops] => do
    let obj ← strOfHex? obj
    let S ← parseNat? S; let maxSub ← parseNat? maxSub; let p ← parseNat? p
    if S = 0 ∨ p = 0 then none else
    let ops ← (splitChar ';' ops).mapM (legacyOp? obj p)
    pure (runWorld [([111, 98, 106], obj), ([122, 100, 105, 114, 47, 102, 105, 108, 101], [120])] [104] ⟨S, maxSub, 0⟩ ops)
  | ["cb.mix", obj, S, maxSub, p, maxGet, ops] => do
    let obj ← strOfHex? obj
    let S ← parseNat? S; let maxSub ← parseNat? maxSub; let p ← parseNat? p; let maxGet ← parseNat? maxGet
    if S = 0 ∨ p = 0 then none else
    let ops ← (splitChar ';' ops).mapM (legacyOp? obj p)
    pure (runWorld [([111, 98, 106], obj), ([122, 100, 105, 114, 47, 102, 105, 108, 101], [120])] [104] ⟨S, maxSub, maxGet⟩ ops)
  | ["cb.world", S, maxSub, maxGet, hash, objs, ops] => do
    let S ← parseNat? S; let maxSub ← parseNat? maxSub; let maxGet ← parseNat? maxGet
    let hash ← strOfHex? hash
    let objs ← parseObjects? objs
    if S = 0 then none else
    let ops ← (splitChar ';' ops).mapM parseWOp?
    pure (runWorld objs hash ⟨S, maxSub, maxGet⟩ ops)
  | ["cb.key", verb, name, start, stop, hash] => do
    let verb ← match verb with
      | "0" => some Verb.exists_ | "1" => some Verb.content | "2" => some Verb.iter
      | "3" => some Verb.iterRecursive | "4" => some Verb.attrs | "5" => some Verb.subrange | _ => none
    let name ← strOfHex? name
    let start ← parseNat? start
    let stop ← parseNat? stop
    let hash ← strOfHex? hash
    pure (hexOfStr (bucketKeyString ⟨verb, name, start, stop, hash⟩))
  | _ => none
end C14

/-! ### C11 -/
section C11
open Thanos.IndexHeader

def parseTbl? (s : String) : Option (List (Nat × Nat)) :=
  (listOf ',' s).mapM fun e =>
    match splitChar ':' e with
    | [a, b] => do
      let a ← parseNat? a; let b ← parseNat? b
      pure (a, b)
    | _ => none

def showRng (r : IndexHeader.Rng) : String := if r = notFound then "nf" else s!"{r.start}:{r.stop}"

def handleC11 : List String → Option String
  | "ih.q" :: n :: nextOff :: tbl :: wanted :: _ => do
    let n ← parseNat? n
    let nextOff ← parseNat? nextOff
    let tbl ← parseTbl? tbl
    let wanted ← parseNats? ',' wanted
    if n = 0 then none else
    let offs := sample n tbl
    let lastVal : Int := (nextOff : Int) - 4
    let lv := match labelValues offs tbl with
      | .ok vs => showNats "," vs
      | .error _ => "err"
    let r := match lookup offs tbl lastVal wanted with
      | .ok rs => joinWith "," (rs.map showRng)
      | .error _ => "err"
    pure s!"s={showNats "," (offs.map (·.2))} l={lastVal} v={lv} r={r}"
  | "ih.names" :: names :: emptyName :: _ => do
    let names ← parseNats? ',' names
    let e ← if emptyName = "-" then some none else (parseNat? emptyName).map some
    pure (showNats "," (labelNames e names))
  | "ih.sym" :: shift :: names :: refs :: syms :: _ => do
    let shift ← parseNat? shift
    let names ← (listOf ',' names).mapM fun e =>
      match splitChar ':' e with
      | [o, k] => do
        let o ← parseNat? o
        let k ← strOfHex? (k.drop 1).toString
        pure (o, k)
      | _ => none
    let refs ← parseNats? ',' refs
    let syms ← (listOf ',' syms).mapM fun e =>
      match splitChar ':' e with
      | [o, k] => do
        let o ← parseNat? o
        let k ← strOfHex? (k.drop 1).toString
        pure (o, k)
      | _ => none
    let table := fun (o : Nat) => syms.lookup o
    let rs := lookupSymbols table names 1024 shift refs []
    pure (joinWith "," (rs.map fun r => match r with | some s => "x" ++ (if s.isEmpty then "" else hexOfStr s) | none => "err"))
  | "ih.v1" :: emptyName :: lastEnd :: tbl :: name :: wanted :: _ => do
    let emptyName ← parseNat? emptyName
    let lastEnd ← parseNat? lastEnd
    let tbl ← (listOf ',' tbl).mapM fun e =>
      match splitChar '.' e with
      | [n, v, o] => do
        let n ← parseNat? n; let v ← parseNat? v; let o ← parseNat? o
        pure (n, v, o)
      | _ => none
    let name ← parseNat? name
    let wanted ← parseNats? ',' wanted
    let vals := ((tbl.filter fun e => e.1 = name).map fun e => e.2.1).toArray.qsort (· < ·) |>.toList
    pure s!"v={showNats "," vals} r={joinWith "," ((lookupV1 false emptyName lastEnd tbl name wanted).map showRng)}"
  | _ => none
end C11

/-! ### C16 -/
section C16
open Thanos.LazyReader

def showEvent : Event → String
  | .ok _ => "ok"
  | .errUnloaded => "err"
  | .loadErr => "lerr"
  | .unloaded _ => "unloaded"
  | .noop => "noop"
  | .notIdle => "notidle"
  | .probed b => if b then "p1" else "p0"

def kindOf? (c : Char) : Option Kind :=
  match c with
  | 'q' => some .reader
  | 'u' => some (.unloader true)
  | 'b' => some (.unloader false)
  | 'p' => some .probe
  | _ => none

def tidOf? (s : String) : Option Nat :=
  match s with
  | "q" => some 0 | "u" => some 1 | "b" => some 2 | "p" => some 3
  | _ => none

def handleC16 : List String → Option String
  | ["lz.seq", script] => do
    let tids ← (listOf ',' script).mapM tidOf?
    let s0 := init [.reader, .unloader true, .unloader false, .probe]
    let s := tids.foldl (fun s i => call true false 16 s i) s0
    pure s!"{joinWith "," (s.log.map fun e => showEvent e.2)} loads={s.loads} unloads={s.unloads}"
  | ["lz.seqf", script] => do
    -- as lz.seq, in an environment that can break: x = from now on NewBinaryReader fails, h = it works again
    let items ← (listOf ',' script).mapM fun it =>
      match it with
      | "x" => some (Sum.inr true)
      | "h" => some (Sum.inr false)
      | _ => (tidOf? it).map Sum.inl
    let s0 := init [.reader, .unloader true, .unloader false, .probe]
    let s := items.foldl (fun s it =>
      match it with
      | .inl i => call true false 16 s i
      | .inr true => { s with failAt := [s.loads] }
      | .inr false => { s with failAt := [] }) s0
    pure s!"{joinWith "," (s.log.map fun e => showEvent e.2)} loads={s.loads} failed={s.loadFails} unloads={s.unloads}"
  | ["lz.pool", tracking, script] => do
    let tr ← if tracking = "1" then some true else if tracking = "0" then some false else none
    let ops ← (listOf ',' script).mapM fun it =>
      match it.toList with
      | ['n'] => some ReaderPool.Op.new
      | ['s'] => some ReaderPool.Op.sweep
      | 'u' :: r => (parseNat? (String.ofList r)).map ReaderPool.Op.use
      | 'a' :: r => (parseNat? (String.ofList r)).map ReaderPool.Op.age
      | 'c' :: r => (parseNat? (String.ofList r)).map ReaderPool.Op.close
      | _ => none
    let bits (l : List Bool) : String := if l.isEmpty then "-" else String.ofList (l.map fun b => if b then '1' else '0')
    let snap (p : ReaderPool.Pool) : String :=
      s!"{bits ((List.range p.readers.length).map fun i => p.tracked.contains i)}/{bits (p.readers.map (·.loaded))}"
    let (p, out) := ops.foldl (fun (acc : ReaderPool.Pool × List String) o =>
      let p' := ReaderPool.step acc.1 o
      (p', acc.2 ++ [snap p'])) (ReaderPool.init tr, [])
    pure s!"{joinWith "," out} unloads={p.unloads}"
  | "lz.sched" :: kinds :: sched :: _ => do
    let ks ← kinds.toList.mapM kindOf?
    let sch ← parseNats? ',' sched
    let s := run true false (init ks) sch
    let log := joinWith "," (s.log.map fun e => s!"{e.1}:{showEvent e.2}")
    pure s!"bad={if s.bad then 1 else 0} loads={s.loads} unloads={s.unloads} {log}"
  | _ => none
end C16

def handle (toks : List String) : String :=
  match toks with
  | [] => "bad-op"
  | t :: _ =>
    let r := if t.startsWith "pc." then handleC12 toks
             else if t.startsWith "cb." then handleC14 toks
             else if t.startsWith "ih." then handleC11 toks
             else if t.startsWith "lz." then handleC16 toks else handleC13 toks
    match r with
    | some r => r
    | none => "bad-op"

end Thanos.Driver.Index
