import Thanos.Common.Parse
/-
  Line-protocol driver of the `index` family (C11 C12 C13 C14 C16).
  One request per line, one answer per line; every line is self-contained.
-/
open Thanos Thanos.Parse

namespace Thanos.Driver.Index

def handle : List String → String
  | _ => "bad-op"

end Thanos.Driver.Index
