import Thanos.Common.Parse
import Thanos.Model.CacheKeys
/-
  Line-protocol driver of the `index` family (C11 C12 C13 C14 C16).
  One request per line, one answer per line; every line is self-contained.

  C13 (cache keys) — grammar
    str    := hex of the bytes, "-" for the empty string
    m      := <type 0..3>,<name str>,<value str>            0 "="  1 "!="  2 "=~"  3 "!~"
    ms     := "-" | m(;m)*
    item   := P/<block>/<name>/<value>/<compression> | E/<block>/<ms>/<compression> | S/<block>/<id>
    table  := "-" | <str>=<str>(,<str>=<str>)*      (argument = result of a third-party function)
    key   <item> <quote table> <hash table>   -> hex of CacheKey.String | noquote | nohash
    pair  <item> <item> <quote table>         -> eq | ne   (do the two keys coincide?)
    lms   <ms> <quote table>                  -> hex of LabelMatchersToString
    mkey  <type> <name> <value>               -> hex of the matchers-cache key
    mpair <type> <name> <value> <type> <name> <value>  -> eq | ne
-/
open Thanos Thanos.Parse

namespace Thanos.Driver.Index
open Thanos.CacheKeys

def strOfHex? (s : String) : Option Str := (hexDecode? s).map (·.map (·.toNat))
def hexOfStr (s : Str) : String := hexEncode (s.map UInt8.ofNat)

def parseType? (s : String) : Option MatchType :=
  match s with
  | "0" => some .eq | "1" => some .neq | "2" => some .re | "3" => some .nre
  | _ => none

def parseMatcher? (s : String) : Option Matcher :=
  match splitChar ',' s with
  | [t, n, v] => do
    let t ← parseType? t
    let n ← strOfHex? n
    let v ← strOfHex? v
    pure ⟨t, n, v⟩
  | _ => none

def parseMatchers? (s : String) : Option (List Matcher) := (listOf ';' s).mapM parseMatcher?

def parseItem? (s : String) : Option CacheKey :=
  match splitChar '/' s with
  | ["P", b, n, v, c] => do
    let b ← strOfHex? b; let n ← strOfHex? n; let v ← strOfHex? v; let c ← strOfHex? c
    pure ⟨b, .postings n v, c⟩
  | ["E", b, ms, c] => do
    let b ← strOfHex? b; let ms ← parseMatchers? ms; let c ← strOfHex? c
    pure ⟨b, .expanded ms, c⟩
  | ["S", b, id] => do
    let b ← strOfHex? b; let id ← parseNat? id
    pure ⟨b, .series id, []⟩
  | _ => none

def parseTable? (s : String) : Option (List (Str × Str)) :=
  (listOf ',' s).mapM fun e =>
    match splitChar '=' e with
    | [a, b] => do
      let a ← strOfHex? a; let b ← strOfHex? b
      pure (a, b)
    | _ => none

def tableFn (t : List (Str × Str)) (s : Str) : Str := (t.lookup s).getD []

/-- the strings an item passes to `quote` -/
def quoted (k : CacheKey) : List Str :=
  match k.item with
  | .expanded ms => ms.flatMap fun m => [m.name, m.value]
  | _ => []

/-- the string an item passes to `hash` -/
def preimage (quote : Str → Str) (k : CacheKey) : Option Str :=
  match k.item with
  | .postings n v => some (n ++ cColon :: v)
  | .expanded ms => some (labelMatchersToString quote ms)
  | .series _ => none

def covers (t : List (Str × Str)) (xs : List Str) : Bool := xs.all fun x => (t.lookup x).isSome

/-- injective stand-in for the hash in `pair` ops (images are outside the byte range) -/
def standIn (s : Str) : Str := s.map (· + 256)

def eqne (b : Bool) : String := if b then "eq" else "ne"

def handleC13 : List String → Option String
  | ["key", item, qt, ht] => do
    let k ← parseItem? item
    let qt ← parseTable? qt
    let ht ← parseTable? ht
    if !covers qt (quoted k) then pure "noquote" else
    match preimage (tableFn qt) k with
    | some p => if !covers ht [p] then pure "nohash" else
                pure (hexOfStr (keyString (tableFn ht) (tableFn qt) k))
    | none => pure (hexOfStr (keyString (tableFn ht) (tableFn qt) k))
  | ["pair", i1, i2, qt] => do
    let k1 ← parseItem? i1
    let k2 ← parseItem? i2
    let qt ← parseTable? qt
    if !covers qt (quoted k1 ++ quoted k2) then pure "noquote" else
    pure (eqne (keyString standIn (tableFn qt) k1 == keyString standIn (tableFn qt) k2))
  | ["lms", ms, qt] => do
    let ms ← parseMatchers? ms
    let qt ← parseTable? qt
    if !covers qt (ms.flatMap fun m => [m.name, m.value]) then pure "noquote" else
    pure (hexOfStr (labelMatchersToString (tableFn qt) ms))
  | ["mkey", t, n, v] => do
    let m ← parseMatcher? s!"{t},{n},{v}"
    pure (hexOfStr (matcherKey m))
  | ["mpair", t1, n1, v1, t2, n2, v2] => do
    let m1 ← parseMatcher? s!"{t1},{n1},{v1}"
    let m2 ← parseMatcher? s!"{t2},{n2},{v2}"
    pure (eqne (matcherKey m1 == matcherKey m2))
  | _ => none

def handle (toks : List String) : String :=
  match handleC13 toks with
  | some r => r
  | none => "bad-op"

end Thanos.Driver.Index
