import Thanos.Common.Parse
/-
  Line-protocol driver of the `stores` family (C07 C08 C09 C10 C15).
  One request per line, one answer per line; every line is self-contained.
-/
open Thanos Thanos.Parse

namespace Thanos.Driver.Stores

def handle : List String → String
  | _ => "bad-op"

end Thanos.Driver.Stores
