import Thanos.Common.Parse
import Thanos.Model.BlockSet
import Thanos.Model.Labels
import Thanos.Model.Frames
import Thanos.Model.StoreSpec
import Thanos.Model.Limiter
import Thanos.Model.Partition
import Thanos.Model.Postings
/-
  Line-protocol driver of the `stores` family (C07 C08 C09 C10 C15).
  One request per line, one answer per line; every line is self-contained.

  C15
    bs.getfor <blocks> <mint> <maxt> <maxres>
        blocks = `res:mint:maxt:keep` joined by `,` (`-` = none), in the order they are added; the id of a
        block is its position.  keep = 1/0 = outcome of matchRelabelLabels on the block.
      -> `ok f=<failed adds> <res:mint:maxt joined by ;> <sorted ids joined by ,>` | `panic`
    bs.hist <blocks> <ops> <mint> <maxt> <maxres>
        ops = `a<i>` (add block i) / `r<i>` (remove block i by id) joined by `,`: a history of the block set
      -> as bs.getfor

  C08 / C07 / C10 (names and values are ranks, value 0 = empty; encodings as in harness/cmd/stores/e2e.go)
    lbl.extend <lset> <ext>   lbl.rm <lset> <names>   lbl.serve <raw> <ext> <without>
    frm.split <maxBytes> <lset> <payload lengths> <label sizes> <chunk sizes>
    st.series <kind> <blocks> <mint> <maxt> <matchers> <without> <skip>
    st.names  <kind> <blocks> <start> <end> <matchers> <without>
    st.values <kind> <blocks> <start> <end> <matchers> <without> <label>
    st.ext <blocks> <new ext> <start> <end> <matchers> <without> <label>   the TSDB store of the first block answers Series
                              (labels only), LabelNames, LabelValues; SetExtLset(new ext); the three calls again
                              -> `<series> # <names> # <values> | <series> # <names> # <values>`
    px.series <blocks> <mint> <maxt> <matchers> <without> <skip>     the same three calls through a ProxyStore in front of
    px.names  <blocks> <start> <end> <matchers> <without>            the TSDB store of the first block and the store
    px.values <blocks> <start> <end> <matchers> <without> <label>    gateway of all blocks

  C09
    lim.seq <limit> <n,n,…>        -> `<1|0,…> failed=<0|1>`
    st.limits bkt+<cfg> <blocks> <mint> <maxt> <matchers> <without> <skip>   (cfg carries sl<n> and cl<n>)
                                   -> `ok s=<series> c=<chunks>` | `exhausted`

  C10
    st.hist bkt+<cfg> <blocks> <req>!<req>!…   req = mint~maxt~matchers~without~skip  -> answers joined by ` | `
    part.gap <maxGap> <start:end,…>            -> `start:end:i:j,…`
    pg.groups <lvals> <matchers>               lvals = name=v+v;…  matchers = typ.name.pathex.value.flags.set.ok,…
                                               -> `name:addAll:adds:rems;…` | `nil`
-/
open Thanos Thanos.Parse

namespace Thanos.Driver.Stores

/-! ### C15 -/

def parseBlock (id : Nat) (s : String) : Option BlockSet.Block :=
  match (splitChar ':' s).mapM parseInt? with
  | some [r, a, b, k] => some { id := id, res := r, mint := a, maxt := b, keep := k != 0 }
  | _ => none

def parseBlocks (s : String) : Option (List BlockSet.Block) :=
  let rec go : Nat → List String → Option (List BlockSet.Block)
    | _, [] => some []
    | i, x :: xs => do
      let b ← parseBlock i x
      let r ← go (i + 1) xs
      pure (b :: r)
  go 0 (listOf ',' s)

def insertNat (x : Nat) : List Nat → List Nat
  | [] => [x]
  | y :: ys => if x ≤ y then x :: y :: ys else y :: insertNat x ys

def sortNats (xs : List Nat) : List Nat := xs.foldr insertNat []

def showGetFor (failed : Nat) : Option (List BlockSet.Block) → String
  | none => "panic"
  | some r =>
    let seq := joinWith ";" (r.map fun b => s!"{b.res}:{b.mint}:{b.maxt}")
    let ids := showNats "," (sortNats (r.map (·.id)))
    s!"ok f={failed} {seq} {ids}"

/-! ### labels, frames, store specification -/

open Thanos.Labels in
def parseLabel (s : String) : Option Label :=
  match (splitChar '.' s).mapM parseNat? with
  | some [n, v] => some (n, v)
  | _ => none

def parseLabels (s : String) : Option Labels.Labels := (listOf ',' s).mapM parseLabel

def showLabels (ls : Labels.Labels) : String := joinWith "," (ls.map fun l => s!"{l.1}.{l.2}")

def parseChunk (s : String) : Option StoreSpec.Chunk :=
  match splitChar '.' s with
  | [a, b, i] => do
    let a ← parseInt? a
    let b ← parseInt? b
    let i ← parseNat? i
    pure ⟨a, b, i⟩
  | _ => none

def parseSeries (s : String) : Option StoreSpec.Series :=
  match splitChar '^' s with
  | [l, c] => do
    let l ← parseLabels l
    let c ← (listOf ',' c).mapM parseChunk
    pure ⟨l, c⟩
  | _ => none

def parseSpecBlock (s : String) : Option StoreSpec.Block :=
  let mk (e a b ss res : String) : Option StoreSpec.Block := do
    let e ← parseLabels e
    let a ← parseInt? a
    let b ← parseInt? b
    let ss ← (listOf ';' ss).mapM parseSeries
    let res ← parseInt? res
    pure ⟨e, a, b, ss, res⟩
  match splitChar '@' s with
  | [e, a, b, ss] => mk e a b ss "0"
  | [e, a, b, ss, res] => mk e a b ss res
  | _ => none

def parseSpecBlocks (s : String) : Option (List StoreSpec.Block) := (listOf '/' s).mapM parseSpecBlock

/-- `type.name.patternhex.vals`; returns the matcher and whether it is `__name__="…"` (name rank 1, type 0) -/
def parseMatcher (s : String) : Option (StoreSpec.Matcher × Bool) :=
  match splitChar '.' s with
  | [t, n, _, vs] => do
    let t ← parseNat? t
    let n ← parseNat? n
    let vs ← if vs = "_" then some [] else (splitChar '+' vs).mapM parseNat?
    pure (⟨n, false, vs⟩, t == 0 && n == 1)
  | _ => none

def parseReq (mint maxt matchers without : String) (skip : Bool) (maxRes : Int := 0) : Option StoreSpec.Req := do
  let a ← parseInt? mint
  let b ← parseInt? maxt
  let ms ← (listOf ',' matchers).mapM parseMatcher
  let w ← parseNats? ',' without
  pure ⟨a, b, ms.map (·.1), w, skip, ms.any (·.2), maxRes⟩

/-- the value of `key<digits>` in a `+`-separated configuration, 0 when absent -/
def cfgNat (key : String) (kind : String) : Nat :=
  ((splitChar '+' kind).filterMap fun t =>
    if t.startsWith key ∧ (t.drop key.length).all Char.isDigit ∧ t.length > key.length then (t.drop key.length).toNat? else none).headD 0

def kindOf (s : String) : String := (splitChar '+' s).headD ""

def showSeries (skip : Bool) (es : List StoreSpec.Entry) : String :=
  let c := StoreSpec.canonSeries es
  joinWith ";" (c.map fun e =>
    let ids := if skip || e.2.isEmpty then "_" else "+".intercalate (e.2.map toString)
    s!"{showLabels e.1}={ids}")

def handleSeries (kind blocks mint maxt matchers without skip : String) : String :=
  match parseSpecBlocks blocks, parseReq mint maxt matchers without (skip == "1") (cfgNat "x" kind) with
  | some bs, some r =>
    match kindOf kind, bs with
    | "tsdb", db :: _ =>
      match StoreSpec.tsdbSeries db r with
      | .ok es => "ok " ++ showSeries r.skipChunks es
      | .invalid => "invalid"
    | "bkt", _ :: _ => "ok " ++ showSeries r.skipChunks (StoreSpec.bucketSeries bs r)
    | _, _ => "bad-op"
  | _, _ => "bad-op"

def handleNames (kind blocks mint maxt matchers without : String) : String :=
  match parseSpecBlocks blocks, parseReq mint maxt matchers without false with
  | some bs, some r =>
    match kindOf kind, bs with
    | "tsdb", db :: _ => "ok " ++ showNats "," (StoreSpec.sortNatsDup (StoreSpec.tsdbLabelNames db r))
    | "bkt", _ :: _ => "ok " ++ showNats "," (StoreSpec.canonNats (StoreSpec.bucketLabelNames bs r))
    | _, _ => "bad-op"
  | _, _ => "bad-op"

def handleValues (kind blocks mint maxt matchers without label : String) : String :=
  match parseSpecBlocks blocks, parseReq mint maxt matchers without false, parseNat? label with
  | some bs, some r, some l =>
    if l = 0 then "invalid" else
    match kindOf kind, bs with
    | "tsdb", db :: _ => "ok " ++ showNats "," (StoreSpec.canonNats (StoreSpec.tsdbLabelValues db r l))
    | "bkt", _ :: _ => "ok " ++ showNats "," (StoreSpec.canonNats (StoreSpec.bucketLabelValues bs r l))
    | _, _ => "bad-op"
  | _, _, _ => "bad-op"

def handleExt (blocks newExt mint maxt matchers without label : String) : String :=
  match parseSpecBlocks blocks, parseLabels newExt, parseReq mint maxt matchers without true, parseNat? label with
  | some (db :: _), some ext, some r, some l =>
    let round (s : StoreSpec.TStore) : String :=
      let sa := match s.series r with
        | .ok es => "ok " ++ showSeries true es
        | .invalid => "invalid"
      let na := "ok " ++ showNats "," (StoreSpec.sortNatsDup (s.labelNames r))
      let va := "ok " ++ showNats "," (StoreSpec.canonNats (s.labelValues r l))
      s!"{sa} # {na} # {va}"
    let s0 := StoreSpec.TStore.new db
    round s0 ++ " | " ++ round (s0.setExt ext)
  | _, _, _, _ => "bad-op"

def handleProxy (op blocks mint maxt matchers without : String) (last : String) : String :=
  match parseSpecBlocks blocks, parseReq mint maxt matchers without (op == "px.series" && last == "1") with
  | some bs, some r =>
    let cs := StoreSpec.standardClients bs
    if cs.isEmpty then "bad-op" else
    match op with
    | "px.series" =>
      match StoreSpec.proxySeries cs r with
      | .ok es => "ok " ++ showSeries r.skipChunks es
      | .invalid => "invalid"
      | .aborted => "aborted"
    | "px.names" => "ok " ++ showNats "," (StoreSpec.proxyLabelNames cs r)
    | "px.values" =>
      match parseNat? last with
      | some l => if l = 0 then "invalid" else "ok " ++ showNats "," (StoreSpec.proxyLabelValues cs r l)
      | none => "bad-op"
    | _ => "bad-op"
  | _, _ => "bad-op"

def handleLimits (kind blocks mint maxt matchers without skip : String) : String :=
  match parseSpecBlocks blocks, parseReq mint maxt matchers without (skip == "1") (cfgNat "x" kind) with
  | some bs, some r =>
    if kindOf kind != "bkt" then "bad-op" else
    match StoreSpec.bucketSeriesLimited (cfgNat "sl" kind) (cfgNat "cl" kind) bs r with
    | .exhausted => "exhausted"
    | .ok es =>
      let c := if r.skipChunks then 0 else StoreSpec.countChunks es
      s!"ok s={StoreSpec.countSeries es} c={c}"
  | _, _ => "bad-op"

def parsePlus (s : String) : Option (List Nat) :=
  if s = "_" ∨ s = "-" ∨ s = "" then some [] else (splitChar '+' s).mapM parseNat?

def parsePMatcher (s : String) : Option Postings.PMatcher :=
  match splitChar '.' s with
  | [t, n, pat, v, fl, set, ok] => do
    let t ← parseNat? t
    let n ← parseNat? n
    let v := (parseNat? v).getD 0   -- `-1`: the pattern is no table value (only used for = / !=, where it then matches nothing in the table)
    let fl ← parseNat? fl
    let set ← parsePlus set
    let ok ← parsePlus ok
    pure ⟨n, t, v, fl % 2 == 1, (fl / 2) % 2 == 1, (fl / 4) % 2 == 1, set, ok, pat⟩
  | _ => none

def parseLvals (s : String) : Option (List (Nat × List Nat)) :=
  (listOf ';' s).mapM fun t =>
    match splitChar '=' t with
    | [n, vs] => do
      let n ← parseNat? n
      let vs ← parsePlus vs
      pure (n, vs)
    | _ => none

def showKeys (ks : List Nat) : String := if ks.isEmpty then "_" else "+".intercalate (ks.map toString)

def zipIdx (xs : List Int) : List Frames.Chunk :=
  let rec go : Nat → List Int → List Frames.Chunk
    | _, [] => []
    | i, x :: r => (i, x) :: go (i + 1) r
  go 0 xs

def parseOps (bs : List BlockSet.Block) (s : String) : Option (List BlockSet.Op) :=
  (listOf ',' s).mapM fun t =>
    match (t.drop 1).toNat? with
    | some i =>
      if t.startsWith "a" then (bs[i]?).map BlockSet.Op.add
      else if t.startsWith "r" then some (BlockSet.Op.remove i)
      else none
    | none => none

def handle : List String → String
  | ["bs.hist", blocks, ops, mint, maxt, maxres] =>
    match parseBlocks blocks, parseInt? mint, parseInt? maxt, parseInt? maxres with
    | some bs, some mint, some maxt, some maxres =>
      match parseOps bs ops with
      | some ops =>
        let (s, failed) := BlockSet.run BlockSet.empty ops
        showGetFor failed (BlockSet.getFor true true s mint maxt maxres)
      | none => "bad-op"
    | _, _, _, _ => "bad-op"
  | ["lbl.extend", a, b] =>
    match parseLabels a, parseLabels b with
    | some a, some b => showLabels (Labels.extendSorted a b)
    | _, _ => "bad-op"
  | ["lbl.rm", a, ns] =>
    match parseLabels a, parseNats? ',' ns with
    | some a, some ns => showLabels (Labels.rm ns a)
    | _, _ => "bad-op"
  | ["lbl.serve", raw, ext, ns] =>
    match parseLabels raw, parseLabels ext, parseNats? ',' ns with
    | some raw, some ext, some ns =>
      s!"t={showLabels (Labels.serveTSDB ns ext raw)} b={showLabels (Labels.serveBucket ns ext raw)}"
    | _, _, _ => "bad-op"
  | ["frm.split", maxBytes, _, _, lsz, csz] =>
    match parseInt? maxBytes, parseInts? ',' lsz, parseInts? ',' csz with
    | some m, some lsz, some csz =>
      joinWith "|" ((Frames.splitFrames m lsz (zipIdx csz)).map fun f => "+".intercalate (f.map fun c => toString c.1))
    | _, _, _ => "bad-op"
  | ["st.hist", kind, blocks, reqs] =>
    let answers := (splitChar '!' reqs).map fun rq =>
      match splitChar '~' rq with
      | [a, b, ms, w, sk] => handleSeries kind blocks a b ms w sk
      | _ => "bad-op"
    if answers.contains "bad-op" then "bad-op" else " | ".intercalate answers
  | ["pg.groups", lvals, ms] =>
    match parseLvals lvals, (listOf ',' ms).mapM parsePMatcher with
    | some lv, some ms =>
      let lvalsFn := fun n => ((lv.find? (·.1 == n)).map (·.2)).getD []
      match Postings.matchersToPostingGroups lvalsFn ms with
      | none => "nil"
      | some gs => joinWith ";" (gs.map fun g =>
          s!"{g.name}:{if g.addAll then 1 else 0}:{showKeys g.addKeys}:{showKeys g.removeKeys}")
    | _, _ => "bad-op"
  | ["part.gap", maxGap, rs] =>
    let parseR (t : String) : Option (Nat × Nat) :=
      match (splitChar ':' t).mapM parseNat? with
      | some [a, b] => some (a, b)
      | _ => none
    match parseNat? maxGap, (listOf ',' rs).mapM parseR with
    | some g, some rs =>
      joinWith "," ((Partition.partition g rs).map fun p => s!"{p.start}:{p.stop}:{p.i}:{p.j}")
    | _, _ => "bad-op"
  | ["lim.seq", limit, ns] =>
    match parseNat? limit, parseNats? ',' ns with
    | some limit, some ns =>
      let out := Limiter.run (Limiter.new limit) ns
      let failed := if out.all id then 0 else 1
      s!"{joinWith "," (out.map fun b => if b then "1" else "0")} failed={failed}"
    | _, _ => "bad-op"
  | ["st.limits", kind, blocks, mint, maxt, matchers, without, skip] =>
    handleLimits kind blocks mint maxt matchers without skip
  | ["st.series", kind, blocks, mint, maxt, matchers, without, skip] =>
    handleSeries kind blocks mint maxt matchers without skip
  | ["st.ext", blocks, newExt, mint, maxt, matchers, without, label] => handleExt blocks newExt mint maxt matchers without label
  | ["px.series", blocks, mint, maxt, matchers, without, skip] => handleProxy "px.series" blocks mint maxt matchers without skip
  | ["px.names", blocks, mint, maxt, matchers, without] => handleProxy "px.names" blocks mint maxt matchers without ""
  | ["px.values", blocks, mint, maxt, matchers, without, label] => handleProxy "px.values" blocks mint maxt matchers without label
  | ["st.names", kind, blocks, mint, maxt, matchers, without] =>
    handleNames kind blocks mint maxt matchers without
  | ["st.values", kind, blocks, mint, maxt, matchers, without, label] =>
    handleValues kind blocks mint maxt matchers without label
  | ["bs.getfor", blocks, mint, maxt, maxres] =>
    match parseBlocks blocks, parseInt? mint, parseInt? maxt, parseInt? maxres with
    | some bs, some mint, some maxt, some maxres =>
      let (s, failed) := BlockSet.addAll BlockSet.empty bs
      showGetFor failed (BlockSet.getFor true true s mint maxt maxres)
    | _, _, _, _ => "bad-op"
  | _ => "bad-op"

end Thanos.Driver.Stores
