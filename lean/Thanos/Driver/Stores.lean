import Thanos.Common.Parse
import Thanos.Model.BlockSet
/-
  Line-protocol driver of the `stores` family (C07 C08 C09 C10 C15).
  One request per line, one answer per line; every line is self-contained.

  C15
    bs.getfor <blocks> <mint> <maxt> <maxres>
        blocks = `res:mint:maxt:keep` joined by `,` (`-` = none), in the order they are added; the id of a
        block is its position.  keep = 1/0 = outcome of matchRelabelLabels on the block.
      -> `ok f=<failed adds> <res:mint:maxt joined by ;> <sorted ids joined by ,>` | `panic`
-/
open Thanos Thanos.Parse

namespace Thanos.Driver.Stores

/-! ### C15 -/

def parseBlock (id : Nat) (s : String) : Option BlockSet.Block :=
  match (splitChar ':' s).mapM parseInt? with
  | some [r, a, b, k] => some { id := id, res := r, mint := a, maxt := b, keep := k != 0 }
  | _ => none

def parseBlocks (s : String) : Option (List BlockSet.Block) :=
  let rec go : Nat → List String → Option (List BlockSet.Block)
    | _, [] => some []
    | i, x :: xs => do
      let b ← parseBlock i x
      let r ← go (i + 1) xs
      pure (b :: r)
  go 0 (listOf ',' s)

def insertNat (x : Nat) : List Nat → List Nat
  | [] => [x]
  | y :: ys => if x ≤ y then x :: y :: ys else y :: insertNat x ys

def sortNats (xs : List Nat) : List Nat := xs.foldr insertNat []

def showGetFor (failed : Nat) : Option (List BlockSet.Block) → String
  | none => "panic"
  | some r =>
    let seq := joinWith ";" (r.map fun b => s!"{b.res}:{b.mint}:{b.maxt}")
    let ids := showNats "," (sortNats (r.map (·.id)))
    s!"ok f={failed} {seq} {ids}"

def handle : List String → String
  | ["bs.getfor", blocks, mint, maxt, maxres] =>
    match parseBlocks blocks, parseInt? mint, parseInt? maxt, parseInt? maxres with
    | some bs, some mint, some maxt, some maxres =>
      let (s, failed) := BlockSet.addAll BlockSet.empty bs
      showGetFor failed (BlockSet.getFor true true s mint maxt maxres)
    | _, _, _, _ => "bad-op"
  | _ => "bad-op"

end Thanos.Driver.Stores
