import Thanos.Common.Parse
/-
  Line-protocol driver of the `hashring` family (C18 C19 C20 C21 C27).
  One request per line, one answer per line; every line is self-contained.
-/
open Thanos Thanos.Parse

namespace Thanos.Driver.Hashring

def handle : List String → String
  | _ => "bad-op"

end Thanos.Driver.Hashring
