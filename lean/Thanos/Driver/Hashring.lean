import Thanos.Common.Parse
import Thanos.Model.Hashring
import Thanos.Model.MultiRing
import Thanos.Model.ShuffleShard
/-
  Line-protocol driver of the `hashring` family (C18 C19 C20 C21 C27).
  One request per line, one answer per line; every line is self-contained.

  ket <mode> <rf> <nq> <eps> <series>
      mode    t = print the replica table, d = print a digest of it
      rf      replication factor
      nq      GetN is asked for n = 0 .. nq-1
      eps     `,`-list of  <addrhex>/<azhex>/<h1.h2.….hk>   (hashes of the endpoint's sections, decimal)
      series  `,`-list of  <tenanthex>:<labels>:<v>            (only v, the series hash, is read here)
    -> toofew | stuck | hang | panic | ok <T> <G>
      T       mode t: `;`-list, one entry per section in ring order:  <ep>:<r0.r1.…>
              mode d: d<digest of the same numbers>
      G       `;`-list, one entry per series: <g0.g1.…>, gi = endpoint index | I (insufficient) | P (panic)

  ketp <rf> <nq> <eps> <perm> <series>      the ring built from eps and from eps in the order perm
      perm    `.`-list: for every new position the old position
    -> <A1> <A2>    Ai = toofew | stuck | hang | panic | tie | <G>   (G in positions of eps, for both)

  keta <rf> <eps> <pos> <series>            the ring without endpoint number pos of eps, and the ring of eps
    -> <A_before> <A_after>                  (both in positions of eps; GetN for n = 0 .. rf-1)

  shard <za> <rf> <cap> <eps> <dflt> <ovs> <reqs>    a history of tenants on one shuffle shard ring
      za      1 = zone aware, 0 = zone awareness disabled;  cap = LRU capacity;  eps as in ket (the base ring)
      dflt    default shard size;  ovs = `|`-list of <type>:<size>:<tenants> (types/tenants as in route), `-` = none
      reqs    `;`-list of <tenanthex>:<tab>/<tab>/…:<azhex>=<p1.p2.…>/…    glob tables per override (`-` if
              none), and per zone the positions math/rand draws for (tenant, zone) (zone `-` when za = 0)
    -> `;`-list: sorted positions (in eps) of the tenant's nodes `i.j.k` | toobig | toofew | stuck

  shardr <za> <rf> <cap> <epsA> <dfltA> <ovsA> <reqsA> <epsB> <dfltB> <ovsB> <reqsB1> <reqsB2>
      a configuration update: requests on ring A; ring B (another configuration, same registerer and hashring
      name) is built while A is open; requests B1 on B; A is closed; requests B2 on B
    -> <answers A> <answers B1> <answers B2>   (each as in shard; `-` for an empty list)

  shardg <za> <rf> <eps> <big> <dflt> <ovs> <req> <series>    one tenant, end to end: selection on the base ring
      (eps), then the sub-ring over the selected nodes with their production sections (big = `,`-list, per
      endpoint of eps, of the hashes of its SectionsPerNode sections), then GetN(0..rf-1) for the series
    -> toobig | toofew | stuck | <G> in positions of eps

  route <cfgs> <reqs>                       a history of requests on one multi hashring (with its cache)
      cfgs    `|`-list of <type>:<tenants>    type e ("exact") | x ("") | g ("glob") | o (anything else);
              tenants = `,`-list of hex names / patterns (`-` = the empty name), `~` = no tenant list (default hashring)
      reqs    `;`-list of <tenanthex>:<tab>/<tab>/…   one table per configuration: filepath.Match of
              each of its patterns against the tenant, a string over y n b (ErrBadPattern), `-` if empty
              optional third field of a configuration: the number of nodes of its (hashmod) hashring, default 1;
              optional third field of a request: the replica index n, default 0
    -> `;`-list: index of the chosen hashring | <i>!<size> (hashring i was selected and has only <size> nodes:
       its "insufficient nodes" error) | none | err | <i>?err (map-order dependent)
  routem <cfgs> <req>                       one uncached request (malformed-pattern stream)

  mod <nq> <addrs> <series>                 hashmod ring; addrs = `,`-list of <addrhex>
    -> <G>          gi = first position of the answered address in addrs | I
  modp <nq> <addrs> <perm> <series>         … and the ring built from the permuted list
    -> <G1> <G2>
-/
open Thanos Thanos.Parse

namespace Thanos.Driver.Hashring
open Thanos.Hashring

/-- position of `x` in `xs`, appending it when new -/
def internAux (x : String) : List String → Nat → Option Nat
  | [], _ => none
  | y :: ys, i => if x = y then some i else internAux x ys (i + 1)

def intern (tab : List String) (x : String) : List String × Nat :=
  match internAux x tab 0 with
  | some i => (tab, i)
  | none => (tab ++ [x], tab.length)

/-- parse the endpoint list; zone names are interned in order of first occurrence -/
def parseEps (s : String) : Option (List Ep) :=
  let rec go (toks : List String) (tab : List String) (acc : List Ep) : Option (List Ep) :=
    match toks with
    | [] => some acc.reverse
    | t :: ts =>
      match splitChar '/' t with
      | [_, az, hs] =>
        match parseNats? '.' hs with
        | some hashes =>
          let (tab', z) := intern tab az
          go ts tab' ({ az := z, hashes := hashes } :: acc)
        | none => none
      | _ => none
  go (listOf ',' s) [] []

def parseSeries (s : String) : Option (List Nat) :=
  (listOf ',' s).mapM fun t =>
    match splitChar ':' t with
    | [_, _, v] => parseNat? v
    | _ => none

def showGet : Get → String
  | .node e => toString e
  | .insufficient => "I"
  | .panic => "P"

def digestStep (h x : Nat) : Nat := (h * 1000003 + x + 1) % 2305843009213693951

def digest (secs : List (Sec × List Nat)) : Nat :=
  secs.foldl (fun h s => digestStep (s.2.foldl digestStep (digestStep h s.1.ep)) 1000000) 7

def showTable (mode : String) (secs : List (Sec × List Nat)) : String :=
  if mode = "d" then s!"d{digest secs}"
  else joinWith ";" (secs.map fun s => s!"{s.1.ep}:{showNats "." s.2}")

def showGets (numEps : Nat) (secs : List (Sec × List Nat)) (nq : Nat) (vs : List Nat) : String :=
  joinWith ";" (vs.map fun v => joinWith "." ((List.range nq).map fun n => showGet (getN numEps secs v n)))

/-- two neighbouring sections with the same hash: `sort.Sort` may order them either way, so the
    case is outside the compared domain (both sides answer `tie`) -/
def hasTie : List (Sec × List Nat) → Bool
  | a :: b :: rest => a.1.hash == b.1.hash || hasTie (b :: rest)
  | _ => false

def ket (lapCheck : Bool) (mode : String) (rf nq : Nat) (eps : List Ep) (vs : List Nat) : String :=
  match build lapCheck eps rf with
  | .tooFew => "toofew"
  | .stuck => "stuck"
  | .hang => "hang"
  | .panic => "panic"
  | .ring secs =>
    if hasTie secs then "tie"
    else s!"ok {showTable mode secs} {showGets eps.length secs nq vs}"

/-- the GetN part only, endpoint indices renamed through `ren` (new position ↦ old position) -/
def ketG (lapCheck : Bool) (rf nq : Nat) (eps : List Ep) (ren : List Nat) (vs : List Nat) : String :=
  match build lapCheck eps rf with
  | .tooFew => "toofew"
  | .stuck => "stuck"
  | .hang => "hang"
  | .panic => "panic"
  | .ring secs =>
    if hasTie secs then "tie"
    else joinWith ";" (vs.map fun v => joinWith "." ((List.range nq).map fun n =>
      match getN eps.length secs v n with
      | .node e => match ren[e]? with | some o => toString o | none => "?"
      | g => showGet g))

def parseAddrs (s : String) : Option (List (List Nat)) :=
  (listOf ',' s).mapM fun t => (hexDecode? t).map (·.map (·.toNat))

/-- first position of the address in the op line -/
def addrIndex (addrs : List (List Nat)) (a : List Nat) : String :=
  match addrs.findIdx? (· == a) with
  | some i => toString i
  | none => "?"

def modG (nq : Nat) (orig addrs : List (List Nat)) (vs : List Nat) : String :=
  joinWith ";" (vs.map fun v => joinWith "." ((List.range nq).map fun n =>
    match simpleGetN addrs.length v n with
    | .node _ => match simpleGet addrs v n with | some a => addrIndex orig a | none => "P"
    | g => showGet g))

/-! ### C27: routing -/

open Thanos.MultiRing in
def parseMType (s : String) : Option MType :=
  if s = "e" ∨ s = "x" then some .exact else if s = "g" then some .glob else if s = "o" then some .other else none

open Thanos.MultiRing in
/-- `<type>:<tenants>` with tenants a `,`-list of hex tokens (`~` = no tenant list) -/
def parseCfgs (s : String) : Option (List (MType × List String)) :=
  (listOf '|' s).mapM fun t =>
    match splitChar ':' t with
    | [ty, ts] => (parseMType ty).map fun m => (m, if ts = "~" then [] else splitChar ',' ts)
    | [ty, ts, _] => (parseMType ty).map fun m => (m, if ts = "~" then [] else splitChar ',' ts)
    | _ => none

/-- the sizes of the sub-hashrings: third field of a configuration token, 1 when absent -/
def parseSizes (s : String) : Option (List Nat) :=
  (listOf '|' s).mapM fun t =>
    match splitChar ':' t with
    | [_, _] => some 1
    | [_, _, sz] => parseNat? sz
    | _ => none

open Thanos.MultiRing in
def parseGlobTab (s : String) : Option (List GlobRes) :=
  if s = "-" then some [] else
  s.toList.mapM fun c => if c = 'y' then some .yes else if c = 'n' then some .no else if c = 'b' then some .bad else none

open Thanos.MultiRing in
/-- `<tenanthex>:<tab>/<tab>/…` one table per configuration -/
def parseReq (cfgs : List (MType × List String)) (s : String) : Option (String × List Cfg) :=
  match (splitChar ':' s).take 2 with
  | [t, tabs] =>
    match (splitChar '/' tabs).mapM parseGlobTab with
    | some gs =>
      if gs.length = cfgs.length then
        some (t, (cfgs.zip gs).map fun (c, g) => { typ := c.1, tenants := c.2, glob := g })
      else none
    | none => none
  | _ => none

open Thanos.MultiRing in
def showRoute : Route → String
  | .ring i => toString i
  | .none => "none"
  | .err => "err"
  | .ringOrErr i => s!"{i}?err"

/-- the replica index of a request: third field, 0 when absent -/
def parseReqN (s : String) : Option Nat :=
  match splitChar ':' s with
  | [_, _] => some 0
  | [_, _, n] => parseNat? n
  | _ => none

open Thanos.MultiRing in
def showAns : Ans → String
  | .served i => toString i
  | .insufficient i s => s!"{i}!{s}"
  | .noRing => "none"
  | .matchErr => "err"
  | .servedOrErr i => s!"{i}?err"

open Thanos.MultiRing in
def viewOf (reqs : List (String × List Cfg)) (tenant : String) : List Cfg :=
  match reqs.find? (·.1 == tenant) with
  | some r => r.2
  | none => []

/-! ### C21: shuffle sharding -/

/-- endpoints with their zone tokens: (zone token, Ep) -/
def parseEpsZ (s : String) : Option (List String × List Ep) :=
  let rec go (toks : List String) (tab : List String) (acc : List Ep) : Option (List String × List Ep) :=
    match toks with
    | [] => some (tab, acc.reverse)
    | t :: ts =>
      match splitChar '/' t with
      | [_, az, hs] =>
        match parseNats? '.' hs with
        | some hashes =>
          let (tab', z) := intern tab az
          go ts tab' ({ az := z, hashes := hashes } :: acc)
        | none => none
      | _ => none
  go (listOf ',' s) [] []

open Thanos.MultiRing Thanos.ShuffleShard in
/-- `<type>:<size>:<tenants>` -/
def parseOvs (s : String) : Option (List (MType × Nat × List String)) :=
  (listOf '|' s).mapM fun t =>
    match splitChar ':' t with
    | [ty, sz, ts] =>
      match parseMTypeOv ty, parseNat? sz with
      | some m, some n => some (m, n, if ts = "~" then [] else splitChar ',' ts)
      | _, _ => none
    | _ => none
where
  /-- for overrides the empty matcher type is exact as well (after the repair of getShardSize) -/
  parseMTypeOv (s : String) : Option MType :=
    if s = "e" ∨ s = "x" then some .exact else if s = "g" then some .glob else if s = "o" then some .other else none

/-- `<azhex>=<p1.p2.…>` per zone, `/`-separated -/
def parsePositions (s : String) : Option (List (String × List Nat)) :=
  (listOf '/' s).mapM fun t =>
    match splitChar '=' t with
    | [z, ps] => (parseNats? '.' ps).map fun l => (z, l)
    | _ => none

structure ShardReq where
  tenant : String
  globs : List (List MultiRing.GlobRes)
  positions : List (String × List Nat)

def parseShardReq (s : String) : Option ShardReq :=
  match splitChar ':' s with
  | [t, tabs, pos] =>
    match (if tabs = "-" then some [] else (splitChar '/' tabs).mapM parseGlobTab), parsePositions pos with
    | some gs, some ps => some { tenant := t, globs := gs, positions := ps }
    | _, _ => none
  | _ => none

open Thanos.ShuffleShard in
/-- the answer for one tenant: sorted node positions, or the error of `getTenantShard` -/
def shardAnswer (za : Bool) (rf : Nat) (zoneTab : List String) (eps : List Ep) (ring : List Sec) (dflt : Nat)
    (ovs : List (MultiRing.MType × Nat × List String)) (r : ShardReq) : Option String :=
  if r.globs.length ≠ ovs.length then none else
  let ovs' : List Override := (ovs.zip r.globs).map fun (o, g) => { typ := o.1, size := o.2.1, tenants := o.2.2, glob := g }
  let posOf (z : Nat) : List Nat :=
    let key := if za then (zoneTab[z]?).getD "?" else "-"
    match r.positions.find? (·.1 == key) with
    | some p => p.2
    | none => []
  match tenantShard za ring dflt ovs' r.tenant posOf with
  | .tooBig => some "toobig"
  | .nodes final =>
    if final.length < rf then some "toofew"
    else
      -- zone sizes of the selected nodes (their real zones)
      let azs := final.filterMap fun e => (eps[e]?).map (·.az)
      let sizes := (dedup azs).map fun z => azs.count z
      if !canBalance sizes rf then some "stuck"
      else some (showNats "." (final.mergeSort (fun a b => decide (a ≤ b))))

/-- the answers of a history of tenant requests on ONE shuffle shard ring (its own cache, empty at first) -/
def shardHistory (za : Bool) (rf cap : Nat) (eps dflt ovs reqs : String) : Option (List String) :=
  match parseEpsZ eps, parseNat? dflt, parseOvs ovs, (listOf ';' reqs).mapM parseShardReq with
  | some (ztab, eps), some dflt, some ovs, some rs =>
    let ring := mkRing eps
    -- all requests of one tenant carry the same tables: compute by tenant, cache by tenant
    let compute (t : String) : Option String :=
      match rs.find? (·.tenant == t) with
      | some r =>
        match shardAnswer za rf ztab eps ring dflt ovs r with
        | some a => if a = "toobig" ∨ a = "toofew" ∨ a = "stuck" then none else some a
        | none => none
      | none => none
    let errOf (t : String) : String :=
      match rs.find? (·.tenant == t) with
      | some r => (shardAnswer za rf ztab eps ring dflt ovs r).getD "bad-op"
      | none => "bad-op"
    let answers := ShuffleShard.getCachedSeq compute cap [] (rs.map (·.tenant))
    some ((answers.zip (rs.map (·.tenant))).map fun (a, t) => match a with | some s => s | none => errOf t)
  | _, _, _, _ => none

def handle : List String → String
  | ["ket", mode, rf, nq, eps, series] =>
    match parseNat? rf, parseNat? nq, parseEps eps, parseSeries series with
    | some rf, some nq, some eps, some vs => ket true mode rf nq eps vs
    | _, _, _, _ => "bad-op"
  | ["ketp", rf, nq, eps, perm, series] =>
    match parseNat? rf, parseNat? nq, parseEps eps, parseNats? '.' perm, parseSeries series with
    | some rf, some nq, some eps, some perm, some vs =>
      ketG true rf nq eps (List.range eps.length) vs ++ " " ++ ketG true rf nq (permute eps perm) perm vs
    | _, _, _, _, _ => "bad-op"
  | ["keta", rf, eps, pos, series] =>
    match parseNat? rf, parseEps eps, parseNat? pos, parseSeries series with
    | some rf, some eps, some pos, some vs =>
      if pos < eps.length then
        let ren := (List.range (eps.length - 1)).map fun i => if i < pos then i else i + 1
        ketG true rf rf (eps.eraseIdx pos) ren vs ++ " " ++ ketG true rf rf eps (List.range eps.length) vs
      else "bad-op"
    | _, _, _, _ => "bad-op"
  | ["shard", za, rf, cap, eps, dflt, ovs, reqs] =>
    match parseNat? rf, parseNat? cap with
    | some rf, some cap =>
      match shardHistory (za = "1") rf cap eps dflt ovs reqs with
      | some as => joinWith ";" as
      | none => "bad-op"
    | _, _ => "bad-op"
  | ["shardr", za, rf, cap, epsA, dfltA, ovsA, reqsA, epsB, dfltB, ovsB, reqsB1, reqsB2] =>
    -- ring A, then ring B built with the same registerer and name while A is open, A closed between
    -- the two request lists of B: every ring instance has its own, initially empty, cache
    match parseNat? rf, parseNat? cap with
    | some rf, some cap =>
      let b1 := listOf ';' reqsB1
      let b := joinWith ";" (b1 ++ listOf ';' reqsB2)
      match shardHistory (za = "1") rf cap epsA dfltA ovsA reqsA, shardHistory (za = "1") rf cap epsB dfltB ovsB b with
      | some aa, some ab => joinWith ";" aa ++ " " ++ joinWith ";" (ab.take b1.length) ++ " " ++ joinWith ";" (ab.drop b1.length)
      | _, _ => "bad-op"
    | _, _ => "bad-op"
  | ["shardg", za, rf, eps, big, dflt, ovs, req, series] =>
    match parseNat? rf, parseEpsZ eps, (listOf ',' big).mapM (parseNats? '.'), parseNat? dflt, parseOvs ovs,
      parseShardReq req, parseSeries series with
    | some rf, some (ztab, eps), some big, some dflt, some ovs, some r, some vs =>
      if r.globs.length ≠ ovs.length ∨ big.length ≠ eps.length then "bad-op" else
      let ring := mkRing eps
      let za := za = "1"
      let ovs' : List ShuffleShard.Override :=
        (ovs.zip r.globs).map fun (o, g) => { typ := o.1, size := o.2.1, tenants := o.2.2, glob := g }
      let posOf (z : Nat) : List Nat :=
        let key := if za then (ztab[z]?).getD "?" else "-"
        match r.positions.find? (·.1 == key) with
        | some p => p.2
        | none => []
      match ShuffleShard.tenantShard za ring dflt ovs' r.tenant posOf with
      | .tooBig => "toobig"
      | .nodes final =>
        -- the sub-ring: the selected endpoints with their real zones and their production sections
        let sub : List Ep := final.filterMap fun i =>
          match eps[i]?, big[i]? with
          | some e, some hs => some { az := e.az, hashes := hs }
          | _, _ => none
        ketG true rf rf sub final vs
    | _, _, _, _, _, _, _ => "bad-op"
  | ["route", cfgsTok, reqs] =>
    match parseCfgs cfgsTok with
    | some cfgs =>
      match (listOf ';' reqs).mapM (parseReq cfgs), (listOf ';' reqs).mapM parseReqN, parseSizes cfgsTok with
      | some rs, some ns, some sizes =>
        joinWith ";" ((MultiRing.getNSeqN (viewOf rs) sizes [] ((rs.map (·.1)).zip ns)).map showAns)
      | _, _, _ => "bad-op"
    | none => "bad-op"
  | ["routem", cfgs, req] =>
    match parseCfgs cfgs with
    | some cfgs =>
      match parseReq cfgs req with
      | some r => showRoute (MultiRing.route r.1 r.2)
      | none => "bad-op"
    | none => "bad-op"
  | ["mod", nq, addrs, series] =>
    match parseNat? nq, parseAddrs addrs, parseSeries series with
    | some nq, some addrs, some vs => modG nq addrs addrs vs
    | _, _, _ => "bad-op"
  | ["modp", nq, addrs, perm, series] =>
    match parseNat? nq, parseAddrs addrs, parseNats? '.' perm, parseSeries series with
    | some nq, some addrs, some perm, some vs => modG nq addrs addrs vs ++ " " ++ modG nq addrs (permute addrs perm) vs
    | _, _, _, _ => "bad-op"
  | _ => "bad-op"

end Thanos.Driver.Hashring
