import Thanos.Common.Parse
/-
  Line-protocol driver of the `misc` family (C45 C46 C47 C48 C49).
  One request per line, one answer per line; every line is self-contained.
-/
open Thanos Thanos.Parse

namespace Thanos.Driver.Misc

def handle : List String → String
  | _ => "bad-op"

end Thanos.Driver.Misc
