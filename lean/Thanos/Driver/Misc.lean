import Thanos.Common.Parse
import Thanos.Model.Rules
import Thanos.Model.Memcached
import Thanos.Model.AlertQueue
import Thanos.Model.Reloader
import Thanos.Model.Rewrite
/-
  Line-protocol driver of the `misc` family (C45 C46 C47 C48 C49).
  One request per line, one answer per line; every line is self-contained.

  C45
    rules.match <labels> <sets>                         -> true | false
    rules.rules <repl> <sels> <groups>                  -> groups (canonical) | - | err
      sels   = sel{;sel} | -        sel = set | w<set> (the same set spelled with extra white space) | E (the empty
                                    string: does not parse, the request fails); one match[] string per sel, in order
      labels = lab{+lab} | -        lab = hexname=hexvalue=cls      cls = p|t|x|e|n (PClass)
      sets   = set{;set} | -        set = m{,m} | e (the empty set)
      m      = hexname:typ:hexvalue:tbl    typ = eq|ne|re|nre
               tbl = xhexv{+xhexv} | -   (the values of this op line — "" is a bare x — on which the anchored regex matches)
      repl   = hexname{,hexname} | -
      groups = group{|group} | -    group = hexfile/hexname{/rule}
      rule   = kind:hexname:hexquery:dur:state:lastEval:labels      kind = a|r
      answer: same group format, labels as hexname=hexvalue

  C49
    mc.jump <key> <n>                                   -> bucket | none          (jumpHash)
    mc.pick <listed> <perm> <keys>                      -> <single> <batch>
    mc.two  <listedA> <permA> <listedB> <permB> <keys>  -> <singleA> <singleB>
      listed = hexsrv{,hexsrv} | -     servers as passed to SetServers
      perm   = i{,i} | -               what natsort.Sort does to the lexically sorted list (input):
                                       final[k] = lexsorted[perm[k]]
      keys   = hexkey:hash{,hexkey:hash} | -       hash = xxhash64 of the key, decimal (input)
    mc.hist <steps> <keys>                              -> <answer>{|<answer>}
      steps  = step{|step}      step = S<listed>~<perm>   SetServers with names that all resolve      -> ok
                                     | F<listed>          SetServers with a name that does not resolve -> err
                                     | P                  PickServer for every key + PickServerForKeys -> <single>/<batch>
      single = per key the picked hexsrv, or err, joined by ","  (- for no keys)
      batch  = err | hexsrv=hexkey+hexkey{;…} sorted by server (a server without keys: hexsrv=-) | - (empty map)

  C46
    aq.run <cap> <maxBatch> <items>                     -> <events> len=<n> tok=<0|1>  |  bad-schedule
      items  = item{;item} | -
      item   = P<alerts>          a synchronous Push
             | O                  a synchronous Pop: receive + body; `blocked` when there is no token
             | W                  a popper that is left waiting on the channel when there is no token; the
                                  next Push that sends hands the token over and the popper runs
             | K<alerts>          a Pop (the token is there) held inside its body, right after it cut its batch
                                  (at the `popped` counter), while a Push of <alerts> is attempted; with the
                                  body under the mutex the Push has to wait: receive, pop body, then the push
             | R<elem>{/<elem>}   a round: all elements queue up on the mutex (held by the harness) in this
                                  order and then run in this order; elem = p<alerts> (a pusher) | g (a popper
                                  that received the token BEFORE any element of the round ran; at most one)
      alerts = id.keep{,id.keep} | -       keep = 1|0: does relabelling keep the alert
      events = per pop body, in the order they ran: b<id>{,<id>} | b- (empty batch) | blocked | wblocked
               (the W popper was still waiting at the end), joined by ";"  (- for none)

  C47
    rl.expand <tol> <env> <hextext>                     -> ok <hex> | unset <hexname>      (expandEnv)
    rl.run <conf> <step>{|<step>}                       -> <answer>{|<answer>}             (a history of apply calls)
      conf   = hasCfg.hasOut.tolerate.watchZero.nDirs.hasWatched          (0|1 each, nDirs a number)
      step   = cfg~dirs~watched~env~script
      cfg    = x (missing) | file          dirs = dir{/dir} | -      dir = file{,file} | e (empty dir)
      watched = file{,file} | -            file = hexname:hexraw:plain
      plain  = "=" (not gzipped: the text is raw) | ! (broken gzip stream) | hextext (what gunzip gives)
               | @ (the entry is a dangling symlink; raw is "-"; only in config / watched directories)
      env    = hexname=hexvalue{,…} | -    script = a word of 1/0: answers of the reload endpoint, in order
      answer = res;outs      res = ok<requests> | err:missing | err:gzip | err:stat | err:env:<hexname>
      outs   = path=hexcontent{,…} sorted by path | -     path = out | <dir index>/<hexname>

  C48
    rw.block <series> <requests>                        -> <series> | -        (the rewritten block; through real blocks)
    rw.mod   <series> <requests>                        -> <series> | -        (the same through the in-memory series set)
      series   = s{|s} | -          s = labels/chunk{/chunk}     labels = hexname=hexvalue{+…} | -
      chunk    = [h]t.v{,t.v}       (integers; t increasing; h = a native histogram chunk, v stands for the histogram)
      requests = r{;r} | -          r = matchers/intervals
      matchers = m{,m} | e          m as in C45 (hexname:typ:hexvalue:tbl)
      intervals = a~b{,a~b} | -     (- = delete the whole series)
-/
open Thanos Thanos.Parse

namespace Thanos.Driver.Misc

/-- which loop `matches` has now (tied by the regenerated fact `rulesMatchesReturns`,
    obligation `C45_code_loop_fact` in Props/C45.lean): the repaired one -/
def rulesFixed : Bool := true
/-- does `matches` parse every label value on a template of its own (tied by `rulesMatchesTemplateScope`) -/
def rulesFresh : Bool := true

def hexS (s : String) : String := hexEncode s.toUTF8.toList

def parseLabel (s : String) : Option Rules.Label :=
  match splitChar '=' s with
  | [n, v, t] => do
    let n ← hexString? n
    let v ← hexString? v
    let t ← match t with
      | "p" => some Rules.PClass.plain | "t" => some .templ | "x" => some .err
      | "e" => some .emptyText | "n" => some .emptyOther | _ => none
    pure { name := n, value := v, cls := t }
  | _ => none

def parseLabels (s : String) : Option (List Rules.Label) := (listOf '+' s).mapM parseLabel

def parseMatcher (s : String) : Option Rules.Matcher :=
  match splitChar ':' s with
  | [n, t, v, tbl] => do
    let n ← hexString? n
    let v ← hexString? v
    let tbl ← (listOf '+' tbl).mapM fun e =>
      match e.toList with
      | 'x' :: [] => some ""
      | 'x' :: rest => hexString? (String.ofList rest)
      | _ => none
    match t with
    | "eq" => pure { name := n, pred := fun x => x == v }
    | "ne" => pure { name := n, pred := fun x => x != v }
    | "re" => pure { name := n, pred := fun x => tbl.contains x }
    | "nre" => pure { name := n, pred := fun x => !tbl.contains x }
    | _ => none
  | _ => none

def parseSet (s : String) : Option (List Rules.Matcher) :=
  if s = "e" then some [] else (listOf ',' s).mapM parseMatcher

def parseSets (s : String) : Option (List (List Rules.Matcher)) := (listOf ';' s).mapM parseSet

/-- a `match[]` string of a Rules request: `E` = the empty string (does not parse), `w<set>` = the
    set written with extra white space, otherwise the set in its plain spelling -/
def parseSel (s : String) : Option (Option (List Rules.Matcher)) :=
  if s = "E" then some none else
  match s.toList with
  | 'w' :: rest => (parseSet (String.ofList rest)).map some
  | _ => (parseSet s).map some

def parseRule (s : String) : Option Rules.Rule :=
  match splitChar ':' s with
  | [k, n, q, d, st, le, ls] => do
    let k ← if k = "a" then some Rules.Kind.alert else if k = "r" then some Rules.Kind.recording else none
    let n ← hexString? n
    let q ← hexString? q
    let d ← parseInt? d
    let st ← parseNat? st
    let le ← parseInt? le
    let ls ← parseLabels ls
    pure { kind := k, name := n, query := q, dur := d, state := st, lastEval := le, labels := ls }
  | _ => none

def parseGroup (s : String) : Option Rules.Group :=
  match splitChar '/' s with
  | f :: n :: rs => do
    let f ← hexString? f
    let n ← hexString? n
    let rs ← rs.mapM parseRule
    pure { file := f, name := n, rules := rs }
  | _ => none

def showRule (r : Rules.Rule) : String :=
  let k := match r.kind with | .alert => "a" | .recording => "r"
  let ls := joinWith "+" (r.labels.map fun l => hexS l.name ++ "=" ++ hexS l.value)
  s!"{k}:{hexS r.name}:{hexS r.query}:{r.dur}:{r.state}:{r.lastEval}:{ls}"

def showGroup (g : Rules.Group) : String :=
  "/".intercalate (hexS g.file :: hexS g.name :: g.rules.map showRule)

/-! ### C49 -/

def parseKeys (s : String) : Option (List (String × UInt64)) :=
  (listOf ',' s).mapM fun t =>
    match splitChar ':' t with
    | [k, h] => do
      let _ ← hexDecode? k
      let h ← parseNat? h
      if h < 2 ^ 64 then pure (k, UInt64.ofNat h) else none
    | _ => none

def parseServers (s : String) : Option (List String) :=
  (listOf ',' s).mapM fun t => do let _ ← hexDecode? t; pure t

/-- the selector's address list: lexical sort (model) then the rearrangement natsort makes (input) -/
def sortedOf (listed : List String) (perm : List Nat) : Option (List String) :=
  Memcached.applyPerm perm (Memcached.canon listed)

def showSingle (sorted : List String) (keys : List (String × UInt64)) : String :=
  joinWith "," (keys.map fun k => match Memcached.pickServer Memcached.realStep sorted k.2 with
    | some s => s | none => "err")

def showBatch (sorted : List String) (keys : List (String × UInt64)) : String :=
  match Memcached.pickForKeys Memcached.realStep sorted keys with
  | none => "err"
  | some m =>
    let m := m.mergeSort (fun a b => !(b.1 < a.1))
    joinWith ";" (m.map fun e => e.1 ++ "=" ++ joinWith "+" (e.2.map (·.1)))

/-! ### C46 -/

namespace AQ
open Thanos.AlertQueue

inductive Elem where
  | p (kept : List Nat) (n : Nat)   -- kept alerts, number of alerts pushed
  | g

inductive Item where
  | push (kept : List Nat) (n : Nat)
  | pop
  | wait
  | popThenPush (kept : List Nat) (n : Nat)
  | round (es : List Elem)

def parseAlerts (s : String) : Option (List Nat × Nat) := do
  let xs ← (listOf ',' s).mapM fun t =>
    match splitChar '.' t with
    | [i, k] => do
      let i ← parseNat? i
      if k = "1" then some (i, true) else if k = "0" then some (i, false) else none
    | _ => none
  pure ((xs.filter (·.2)).map (·.1), xs.length)

def parseElem (s : String) : Option Elem :=
  if s = "g" then some .g else
  match s.toList with
  | 'p' :: rest => do let (k, n) ← parseAlerts (String.ofList rest); pure (.p k n)
  | _ => none

def parseItem (s : String) : Option Item :=
  if s = "O" then some .pop else if s = "W" then some .wait else
  match s.toList with
  | 'P' :: rest => do let (k, n) ← parseAlerts (String.ofList rest); pure (.push k n)
  | 'K' :: rest => do let (k, n) ← parseAlerts (String.ofList rest); pure (.popThenPush k n)
  | 'R' :: rest => do let es ← (splitChar '/' (String.ofList rest)).mapM parseElem; pure (.round es)
  | _ => none

structure Run where
  s : State Nat
  waiting : Bool
  events : List String
  bad : Bool

def showBatch (b : List Nat) : String := "b" ++ showNats "," b

/-- receive + body of one popper (the token is there) -/
def takePop (c : Cfg) (r : Run) : Run :=
  match take r.s with
  | none => { r with bad := true }
  | some s1 =>
    match pop c s1 with
    | none => { r with bad := true }
    | some (b, s2) => { r with s := s2, events := r.events ++ [showBatch b] }

def pushStep (c : Cfg) (r : Run) (kept : List Nat) : Run :=
  let r := { r with s := push c r.s kept }
  -- a popper waiting on the channel gets the token the moment it is sent
  if r.waiting && r.s.token then { takePop c r with waiting := false } else r

def roundStep (c : Cfg) (r : Run) (es : List Elem) : Run :=
  let ng := (es.filter fun e => match e with | .g => true | _ => false).length
  if r.waiting || ng > 1 then { r with bad := true } else
  -- the popper of the round receives before anything of the round runs
  let r := if ng = 1 then
      match take r.s with
      | some s1 => { r with s := s1 }
      | none => { r with bad := true }
    else r
  es.foldl (fun r e => match e with
    | .p kept _ => { r with s := push c r.s kept }
    | .g => match pop c r.s with
      | some (b, s2) => { r with s := s2, events := r.events ++ [showBatch b] }
      | none => { r with bad := true }) r

def itemStep (c : Cfg) (r : Run) : Item → Run
  | .push kept _ => pushStep c r kept
  | .pop =>
    if r.waiting then { r with bad := true }
    else if r.s.token then takePop c r
    else { r with events := r.events ++ ["blocked"] }
  | .wait =>
    if r.waiting then { r with bad := true }
    else if r.s.token then takePop c r
    else { r with waiting := true }
  | .popThenPush kept _ =>
    -- the whole body of Pop is under the mutex: the Push runs after it
    if r.waiting || !r.s.token then { r with bad := true }
    else pushStep c (takePop c r) kept
  | .round es => roundStep c r es

def runItems (c : Cfg) (items : List Item) : String :=
  let r := items.foldl (itemStep c) { s := init, waiting := false, events := [], bad := false }
  if r.bad then "bad-schedule" else
  let ev := if r.waiting then r.events ++ ["wblocked"] else r.events
  s!"{joinWith ";" ev} len={r.s.queue.length} tok={if r.s.token then 1 else 0}"

end AQ

/-! ### C47 -/

namespace RL
open Thanos.Reloader

def parseFile (s : String) : Option File :=
  match splitChar ':' s with
  | [n, raw, pl] => do
    let _ ← hexDecode? raw
    if pl = "@" then
      -- a dangling symlink: no content at all
      if raw = "-" then pure { name := n, raw := raw, plain := none, dangling := true } else none
    else
    let plain ← if pl = "=" then (hexString? raw).map some
                else if pl = "!" then some none
                else (hexString? pl).map some
    pure { name := n, raw := raw, plain := plain }
  | _ => none

def parseFiles (s : String) : Option (List File) := (listOf ',' s).mapM parseFile

def parseDir (s : String) : Option (List File) := if s = "e" then some [] else parseFiles s

def parseEnv (s : String) : Option (List (String × String)) :=
  (listOf ',' s).mapM fun t =>
    match splitChar '=' t with
    | [n, v] => do pure ((← hexString? n), (← hexString? v))
    | _ => none

def parseScript (s : String) : Option (List Bool) :=
  s.toList.mapM fun c => if c = '1' then some true else if c = '0' then some false else none

structure Setup where
  conf : Conf
  nDirs : Nat
  hasWatched : Bool

def parseConf (s : String) : Option Setup :=
  match splitChar '.' s with
  | [a, b, c, d, n, w] => do
    let bit (x : String) : Option Bool := if x = "1" then some true else if x = "0" then some false else none
    pure { conf := { hasCfg := ← bit a, hasOut := ← bit b, tolerate := ← bit c, watchZero := ← bit d },
           nDirs := ← parseNat? n, hasWatched := ← bit w }
  | _ => none

def parseStep (su : Setup) (s : String) : Option Snap :=
  match splitChar '~' s with
  | [cfg, dirs, watched, env, script] => do
    let cfg ← if cfg = "x" then some none else (parseFile cfg).map some
    let dirs ← if su.nDirs = 0 then (if dirs = "-" then some [] else none) else (splitChar '/' dirs).mapM parseDir
    if dirs.length != su.nDirs then none
    let watched ← if su.hasWatched then (parseFiles watched).map some else (if watched = "-" then some none else none)
    let env ← parseEnv env
    let script ← parseScript script
    pure { cfg := cfg, dirs := dirs, watched := watched, env := env, script := script }
  | _ => none

def showRes : Res → String
  | .ok n => s!"ok{n}"
  | .err .missing => "err:missing"
  | .err .gzip => "err:gzip"
  | .err .stat => "err:stat"
  | .err (.env n) => "err:env:" ++ hexS n

def showKey : Key → String
  | .cfg => "out"
  | .dir i n => s!"{i}/{n}"

def showOut (o : OutFS) : String :=
  let es := o.map fun e => (showKey e.1, hexS e.2)
  joinWith "," ((es.mergeSort (fun a b => !(b.1 < a.1))).map fun e => e.1 ++ "=" ++ e.2)

/-- does an interrupted pass over a CfgDir remember the outputs it wrote (tied by the regenerated
    fact `reloaderTracksWrittenOutputs`, obligation `C47_track_fact`) -/
def rlTrack : Bool := true

def runSteps (c : Conf) : St → List Snap → List String
  | _, [] => []
  | st, s :: rest =>
    let (st', r) := Reloader.apply c rlTrack st s
    (showRes r ++ ";" ++ showOut st'.out) :: runSteps c st' rest

end RL

/-! ### C48 -/

namespace RW
open Thanos.Rewrite

def parseLSet (s : String) : Option LSet :=
  (listOf '+' s).mapM fun t =>
    match splitChar '=' t with
    | [n, v] => do pure ((← hexString? n), (← hexString? v))
    | _ => none

def parseChunk (s : String) : Option Chunk :=
  (listOf ',' s).mapM fun t =>
    match splitChar '.' t with
    | [a, b] => do pure ((← parseInt? a), (← parseInt? b))
    | _ => none

def parseKChunk (s : String) : Option KChunk :=
  match s.toList with
  | 'h' :: rest => do pure (true, ← parseChunk (String.ofList rest))
  | _ => do pure (false, ← parseChunk s)

def parseSeries (s : String) : Option KSeries :=
  match splitChar '/' s with
  | l :: cs => do pure { labels := ← parseLSet l, chunks := ← cs.mapM parseKChunk }
  | _ => none

def parseInterval (s : String) : Option Interval :=
  match splitChar '~' s with
  | [a, b] => do pure ⟨← parseInt? a, ← parseInt? b⟩
  | _ => none

def parseRequest (s : String) : Option Request :=
  match splitChar '/' s with
  | [ms, ivs] => do
    let ms ← if ms = "e" then some [] else (listOf ',' ms).mapM parseMatcher
    let ivs ← (listOf ',' ivs).mapM parseInterval
    pure { matchers := ms.map (fun m => ⟨m.name, m.pred⟩), intervals := ivs }
  | _ => none

def showSeries (s : KSeries) : String :=
  let l := joinWith "+" (s.labels.map fun p => hexS p.1 ++ "=" ++ hexS p.2)
  "/".intercalate (l :: s.chunks.map fun c =>
    (if c.1 then "h" else "") ++ joinWith "," (c.2.map fun x => s!"{x.1}.{x.2}"))

/-- does the chunk iterator skip a chunk emptied by several intervals (tied by the regenerated
    fact `rewriteEmptyChunkAction`, obligation `C48_empty_chunk_fact`) -/
def rwSkipEmpty : Bool := true

def run (series reqs : String) : String :=
  match (listOf '|' series).mapM parseSeries, (listOf ';' reqs).mapM parseRequest with
  | some b, some rs =>
    -- `rwSkipEmpty = true` is the code as it is; the encoding-aware loop is that code
    if rwSkipEmpty then
      match Rewrite.rewriteCodeK rs b with
      | some out => joinWith "|" (out.map showSeries)
      | none => "panic"
    else joinWith "|" ((Rewrite.rewriteCode false rs (b.map (·.erase))).map fun s =>
      showSeries { labels := s.labels, chunks := s.chunks.map fun c => (false, c) })
  | _, _ => "bad-op"

end RW

/-- a history of SetServers calls and lookups on one selector -/
def mcHist (keys : List (String × UInt64)) : List String → List String → Option (List String)
  | _, [] => some []
  | cur, st :: rest =>
    match st.toList with
    | ['P'] => (mcHist keys cur rest).map ((showSingle cur keys ++ "/" ++ showBatch cur keys) :: ·)
    | 'F' :: l => do
      let _ ← parseServers (String.ofList l)
      (mcHist keys (Memcached.setCall cur .fail) rest).map ("err" :: ·)
    | 'S' :: l =>
      match splitChar '~' (String.ofList l) with
      | [listed, perm] => do
        let ls ← parseServers listed
        let p ← parseNats? ',' perm
        let sorted ← sortedOf ls p
        (mcHist keys (Memcached.setCall cur (.ok sorted)) rest).map ("ok" :: ·)
      | _ => none
    | _ => none

def handle : List String → String
  | ["mc.hist", steps, keys] =>
    match parseKeys keys with
    | some ks =>
      match mcHist ks [] (splitChar '|' steps) with
      | some out => "|".intercalate out
      | none => "bad-op"
    | none => "bad-op"
  | ["rw.block", series, reqs] => RW.run series reqs
  | ["rw.mod", series, reqs] => RW.run series reqs
  | ["rl.expand", tol, env, text] =>
    match RL.parseEnv env, hexString? text with
    | some env, some t =>
      match Reloader.expandEnv (Reloader.lookupEnv env) (tol == "1") t with
      | .ok v => "ok " ++ hexS v
      | .error (.unset n) => "unset " ++ hexS n
      | .error .fuel => "fuel"
    | _, _ => "bad-op"
  | ["rl.run", conf, steps] =>
    match RL.parseConf conf with
    | some su =>
      match (splitChar '|' steps).mapM (RL.parseStep su) with
      | some snaps => "|".intercalate (RL.runSteps su.conf {} snaps)
      | none => "bad-op"
    | none => "bad-op"
  | ["aq.run", cap, mb, items] =>
    match parseNat? cap, parseNat? mb, (listOf ';' items).mapM AQ.parseItem with
    | some cap, some mb, some items => AQ.runItems ⟨cap, mb⟩ items
    | _, _, _ => "bad-op"
  | ["mc.jump", key, n] =>
    match parseNat? key, parseNat? n with
    | some key, some n =>
      if key < 2 ^ 64 ∧ 1 ≤ n then
        match Memcached.jumpHashWith Memcached.realStep (UInt64.ofNat key) n with
        | some b => toString b
        | none => "none"
      else "bad-op"
    | _, _ => "bad-op"
  | ["mc.pick", listed, perm, keys] =>
    match parseServers listed, parseNats? ',' perm, parseKeys keys with
    | some l, some p, some ks =>
      match sortedOf l p with
      | some s => showSingle s ks ++ " " ++ showBatch s ks
      | none => "bad-op"
    | _, _, _ => "bad-op"
  | ["mc.two", listedA, permA, listedB, permB, keys] =>
    match parseServers listedA, parseNats? ',' permA, parseServers listedB, parseNats? ',' permB, parseKeys keys with
    | some la, some pa, some lb, some pb, some ks =>
      match sortedOf la pa, sortedOf lb pb with
      | some sa, some sb => showSingle sa ks ++ " " ++ showSingle sb ks
      | _, _ => "bad-op"
    | _, _, _, _, _ => "bad-op"
  | ["rules.match", ls, sets] =>
    match parseLabels ls, parseSets sets with
    | some ls, some sets => toString (Rules.codeMatches rulesFixed rulesFresh sets ls)
    | _, _ => "bad-op"
  | ["rules.rules", repl, sets, groups] =>
    match (listOf ',' repl).mapM hexString?, (listOf ';' sets).mapM parseSel, (listOf '|' groups).mapM parseGroup with
    | some repl, some sels, some gs =>
      match Rules.rulesRequest rulesFixed rulesFresh repl sels gs with
      | some out => joinWith "|" (out.map showGroup)
      | none => "err"
    | _, _, _ => "bad-op"
  | _ => "bad-op"

end Thanos.Driver.Misc
