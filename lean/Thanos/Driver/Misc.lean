import Thanos.Common.Parse
import Thanos.Model.Rules
import Thanos.Model.Memcached
/-
  Line-protocol driver of the `misc` family (C45 C46 C47 C48 C49).
  One request per line, one answer per line; every line is self-contained.

  C45
    rules.match <labels> <sets>                         -> true | false
    rules.rules <repl> <sets> <groups>                  -> groups (canonical) | -
      labels = lab{+lab} | -        lab = hexname=hexvalue=cls      cls = p|t|x|e|n (PClass)
      sets   = set{;set} | -        set = m{,m} | e (the empty set)
      m      = hexname:typ:hexvalue:tbl    typ = eq|ne|re|nre
               tbl = xhexv{+xhexv} | -   (the values of this op line — "" is a bare x — on which the anchored regex matches)
      repl   = hexname{,hexname} | -
      groups = group{|group} | -    group = hexfile/hexname{/rule}
      rule   = kind:hexname:hexquery:dur:state:lastEval:labels      kind = a|r
      answer: same group format, labels as hexname=hexvalue

  C49
    mc.jump <key> <n>                                   -> bucket | none          (jumpHash)
    mc.pick <listed> <perm> <keys>                      -> <single> <batch>
    mc.two  <listedA> <permA> <listedB> <permB> <keys>  -> <singleA> <singleB>
      listed = hexsrv{,hexsrv} | -     servers as passed to SetServers
      perm   = i{,i} | -               what natsort.Sort does to the lexically sorted list (input):
                                       final[k] = lexsorted[perm[k]]
      keys   = hexkey:hash{,hexkey:hash} | -       hash = xxhash64 of the key, decimal (input)
      single = per key the picked hexsrv, or err, joined by ","  (- for no keys)
      batch  = err | hexsrv=hexkey+hexkey{;…} sorted by server (a server without keys: hexsrv=-) | - (empty map)
-/
open Thanos Thanos.Parse

namespace Thanos.Driver.Misc

/-- which loop `matches` has now (tied by the regenerated fact `rulesMatchesReturns`,
    obligation `C45_code_loop_fact` in Props/C45.lean): the repaired one -/
def rulesFixed : Bool := true
/-- does `matches` parse every label value on a template of its own (tied by `rulesMatchesTemplateScope`) -/
def rulesFresh : Bool := true

def hexS (s : String) : String := hexEncode s.toUTF8.toList

def parseLabel (s : String) : Option Rules.Label :=
  match splitChar '=' s with
  | [n, v, t] => do
    let n ← hexString? n
    let v ← hexString? v
    let t ← match t with
      | "p" => some Rules.PClass.plain | "t" => some .templ | "x" => some .err
      | "e" => some .emptyText | "n" => some .emptyOther | _ => none
    pure { name := n, value := v, cls := t }
  | _ => none

def parseLabels (s : String) : Option (List Rules.Label) := (listOf '+' s).mapM parseLabel

def parseMatcher (s : String) : Option Rules.Matcher :=
  match splitChar ':' s with
  | [n, t, v, tbl] => do
    let n ← hexString? n
    let v ← hexString? v
    let tbl ← (listOf '+' tbl).mapM fun e =>
      match e.toList with
      | 'x' :: [] => some ""
      | 'x' :: rest => hexString? (String.ofList rest)
      | _ => none
    match t with
    | "eq" => pure { name := n, pred := fun x => x == v }
    | "ne" => pure { name := n, pred := fun x => x != v }
    | "re" => pure { name := n, pred := fun x => tbl.contains x }
    | "nre" => pure { name := n, pred := fun x => !tbl.contains x }
    | _ => none
  | _ => none

def parseSet (s : String) : Option (List Rules.Matcher) :=
  if s = "e" then some [] else (listOf ',' s).mapM parseMatcher

def parseSets (s : String) : Option (List (List Rules.Matcher)) := (listOf ';' s).mapM parseSet

def parseRule (s : String) : Option Rules.Rule :=
  match splitChar ':' s with
  | [k, n, q, d, st, le, ls] => do
    let k ← if k = "a" then some Rules.Kind.alert else if k = "r" then some Rules.Kind.recording else none
    let n ← hexString? n
    let q ← hexString? q
    let d ← parseInt? d
    let st ← parseNat? st
    let le ← parseInt? le
    let ls ← parseLabels ls
    pure { kind := k, name := n, query := q, dur := d, state := st, lastEval := le, labels := ls }
  | _ => none

def parseGroup (s : String) : Option Rules.Group :=
  match splitChar '/' s with
  | f :: n :: rs => do
    let f ← hexString? f
    let n ← hexString? n
    let rs ← rs.mapM parseRule
    pure { file := f, name := n, rules := rs }
  | _ => none

def showRule (r : Rules.Rule) : String :=
  let k := match r.kind with | .alert => "a" | .recording => "r"
  let ls := joinWith "+" (r.labels.map fun l => hexS l.name ++ "=" ++ hexS l.value)
  s!"{k}:{hexS r.name}:{hexS r.query}:{r.dur}:{r.state}:{r.lastEval}:{ls}"

def showGroup (g : Rules.Group) : String :=
  "/".intercalate (hexS g.file :: hexS g.name :: g.rules.map showRule)

/-! ### C49 -/

def parseKeys (s : String) : Option (List (String × UInt64)) :=
  (listOf ',' s).mapM fun t =>
    match splitChar ':' t with
    | [k, h] => do
      let _ ← hexDecode? k
      let h ← parseNat? h
      if h < 2 ^ 64 then pure (k, UInt64.ofNat h) else none
    | _ => none

def parseServers (s : String) : Option (List String) :=
  (listOf ',' s).mapM fun t => do let _ ← hexDecode? t; pure t

/-- the selector's address list: lexical sort (model) then the rearrangement natsort makes (input) -/
def sortedOf (listed : List String) (perm : List Nat) : Option (List String) :=
  Memcached.applyPerm perm (Memcached.canon listed)

def showSingle (sorted : List String) (keys : List (String × UInt64)) : String :=
  joinWith "," (keys.map fun k => match Memcached.pickServer Memcached.realStep sorted k.2 with
    | some s => s | none => "err")

def showBatch (sorted : List String) (keys : List (String × UInt64)) : String :=
  match Memcached.pickForKeys Memcached.realStep sorted keys with
  | none => "err"
  | some m =>
    let m := m.mergeSort (fun a b => !(b.1 < a.1))
    joinWith ";" (m.map fun e => e.1 ++ "=" ++ joinWith "+" (e.2.map (·.1)))

def handle : List String → String
  | ["mc.jump", key, n] =>
    match parseNat? key, parseNat? n with
    | some key, some n =>
      if key < 2 ^ 64 ∧ 1 ≤ n then
        match Memcached.jumpHashWith Memcached.realStep (UInt64.ofNat key) n with
        | some b => toString b
        | none => "none"
      else "bad-op"
    | _, _ => "bad-op"
  | ["mc.pick", listed, perm, keys] =>
    match parseServers listed, parseNats? ',' perm, parseKeys keys with
    | some l, some p, some ks =>
      match sortedOf l p with
      | some s => showSingle s ks ++ " " ++ showBatch s ks
      | none => "bad-op"
    | _, _, _ => "bad-op"
  | ["mc.two", listedA, permA, listedB, permB, keys] =>
    match parseServers listedA, parseNats? ',' permA, parseServers listedB, parseNats? ',' permB, parseKeys keys with
    | some la, some pa, some lb, some pb, some ks =>
      match sortedOf la pa, sortedOf lb pb with
      | some sa, some sb => showSingle sa ks ++ " " ++ showSingle sb ks
      | _, _ => "bad-op"
    | _, _, _, _, _ => "bad-op"
  | ["rules.match", ls, sets] =>
    match parseLabels ls, parseSets sets with
    | some ls, some sets => toString (Rules.codeMatches rulesFixed rulesFresh sets ls)
    | _, _ => "bad-op"
  | ["rules.rules", repl, sets, groups] =>
    match (listOf ',' repl).mapM hexString?, parseSets sets, (listOf '|' groups).mapM parseGroup with
    | some repl, some sets, some gs =>
      joinWith "|" ((Rules.rulesPipeline rulesFixed rulesFresh repl sets gs).map showGroup)
    | _, _, _ => "bad-op"
  | _ => "bad-op"

end Thanos.Driver.Misc
