import Thanos.Common.Parse
import Thanos.Model.AggrChunk
import Thanos.Model.Downsample
/-
  Line-protocol driver of the `downsample` family (C36–C39).
  One request per line, one answer per line; every line is self-contained.

  C39:  aggr.enc / aggr.get / aggr.rt                      (see harness/cmd/downsample/c39.go)
  C36–C38 (harness/cmd/downsample/ds.go has the same grammar):
    samples   = `-` | s,s,…          s = <t>:<v> | <t>:<v>*<n>@<step>   v = decimal integer | n (NaN) | s (stale NaN)
    list      = `-` | <t>:<v>,…
    chunk     = <mint>:<maxt>/<count list>/<sum list>/<min list>/<max list>/<counter list>
    chunks    = `-` | chunk|chunk|…
    ds.raw  <mode> <r> <nc> <samples>                 -> chunks | panic          (mode: auto | man; ignored here)
    ds.read <r> <nc> <samples>                        -> count;sum;min;max;counter lists read through the querier
    ds.readr <r> <nc> <mint> <maxt> <samples>         -> the same through the querier's series bounded to [mint, maxt]
    ds.aggr <mode> <r1> <nc1> <r2> <nc2> <samples>    -> chunks | invalid-range | hang | panic
    ds.ctr  <r1> <nc1> <r2> <nc2> <samples>           -> <level-1 counter read-back>;<level-2 counter read-back> | …
    ds.apply <list>|<list>|…                          -> <read-back list>           (ApplyCounterResetsSeriesIterator)
    ds.cs    <list>|<list>|…                          -> <read-back list>           (chunkSeriesIterator)
-/
open Thanos Thanos.Parse

namespace Thanos.Driver.Downsample
open Thanos.Downsample

def bytesToNat (bs : List UInt8) : List Nat := bs.map (·.toNat)
def natToBytes (ns : List Nat) : List UInt8 := ns.map UInt8.ofNat

/-- `nil` or `<enc>:<hexdata>` -/
def parseSub (s : String) : Option AggrChunk.Sub :=
  if s = "nil" then some none else
  match splitChar ':' s with
  | [e, d] => do
    let e ← parseNat? e
    let d ← hexDecode? d
    pure (some (e, bytesToNat d))
  | _ => none

def showRes : AggrChunk.Res → String
  | .ok e d => s!"ok {e} {hexEncode (natToBytes d)}"
  | .badenc => "badenc"
  | .notExist => "notexist"
  | .invalid => "invalid"

def parseVal (v : String) : Option (Option Int) :=
  if v = "n" ∨ v = "s" then some none else (parseInt? v).map some

/-- `<t>:<v>` or the run `<t>:<v>*<n>@<step>` -/
def parseRawItem (x : String) : Option (List Raw) :=
  match splitChar ':' x with
  | [t, v] => do
    let t ← parseInt? t
    match splitChar '*' v with
    | [v] => do
      let v ← parseVal v
      pure [(t, v)]
    | [v, run] =>
      match splitChar '@' run with
      | [n, step] => do
        let v ← parseVal v
        let n ← parseNat? n
        let step ← parseInt? step
        pure ((List.range n).map fun (k : Nat) => (t + Int.ofNat k * step, v))
      | _ => none
    | _ => none
  | _ => none

def parseRaw (s : String) : Option (List Raw) :=
  ((listOf ',' s).mapM parseRawItem).map List.flatten

def parsePts (s : String) : Option (List Pt) :=
  (listOf ',' s).mapM fun x =>
    match splitChar ':' x with
    | [t, v] => do
      let t ← parseInt? t
      let v ← parseInt? v
      pure (t, v)
    | _ => none

def parseChunkLists (s : String) : Option (List (List Pt)) :=
  (listOf '|' s).mapM parsePts

def showPts (l : List Pt) : String := joinWith "," (l.map fun p => s!"{p.1}:{p.2}")

def showChunk (c : Chunk) : String :=
  s!"{c.mint}:{c.maxt}/{showPts c.count}/{showPts c.sum}/{showPts c.min}/{showPts c.max}/{showPts c.counter}"

def showChunks (cs : List Chunk) : String := joinWith "|" (cs.map showChunk)

def showAggrRes : AggrRes → String
  | .ok cs => showChunks cs
  | .invalidRange => "invalid-range"
  | .hang => "hang"
  | .panic => "panic"

/-- how `downsampleAggrLoop` computes batchSize in the tree under check (regenerated fact
    `dsAggrBatchSize`, obligation `C38_source_facts` in Props/C38.lean) -/
def clampNow : Bool := aggrClampNow

def readBackR (mint maxt : Int) (cs : List Chunk) : String :=
  let cnt := boundedDrain mint maxt (chunkSeriesIter (cs.map (·.count)))
  let sum := boundedDrain mint maxt (chunkSeriesIter (cs.map (·.sum)))
  let mn := boundedDrain mint maxt (chunkSeriesIter (cs.map (·.min)))
  let mx := boundedDrain mint maxt (chunkSeriesIter (cs.map (·.max)))
  let ctr := boundedDrain mint maxt (applyResets (cs.map (·.counter))).1
  s!"{showPts cnt};{showPts sum};{showPts mn};{showPts mx};{showPts ctr}"

def readBack (cs : List Chunk) : String :=
  let cnt := chunkSeriesIter (cs.map (·.count))
  let sum := chunkSeriesIter (cs.map (·.sum))
  let mn := chunkSeriesIter (cs.map (·.min))
  let mx := chunkSeriesIter (cs.map (·.max))
  let ctr := (applyResets (cs.map (·.counter))).1
  s!"{showPts cnt};{showPts sum};{showPts mn};{showPts mx};{showPts ctr}"

def handleDs : List String → String
  | ["ds.raw", _, r, nc, ss] =>
    match parseInt? r, parseNat? nc, parseRaw ss with
    | some r, some nc, some data =>
      match downsampleRaw data r nc with
      | some cs => showChunks cs
      | none => "panic"
    | _, _, _ => "bad-op"
  | ["ds.read", r, nc, ss] =>
    match parseInt? r, parseNat? nc, parseRaw ss with
    | some r, some nc, some data =>
      match downsampleRaw data r nc with
      | some cs => readBack cs
      | none => "panic"
    | _, _, _ => "bad-op"
  | ["ds.readr", r, nc, mint, maxt, ss] =>
    match parseInt? r, parseNat? nc, parseInt? mint, parseInt? maxt, parseRaw ss with
    | some r, some nc, some mint, some maxt, some data =>
      match downsampleRaw data r nc with
      | some cs => readBackR mint maxt cs
      | none => "panic"
    | _, _, _, _, _ => "bad-op"
  | ["ds.aggr", _, r1, nc1, r2, nc2, ss] =>
    match parseInt? r1, parseNat? nc1, parseInt? r2, parseNat? nc2, parseRaw ss with
    | some r1, some nc1, some r2, some nc2, some data =>
      match downsampleRaw data r1 nc1 with
      | some cs => showAggrRes (downsampleAggrLoop clampNow cs r2 nc2)
      | none => "panic"
    | _, _, _, _, _ => "bad-op"
  | ["ds.ctr", r1, nc1, r2, nc2, ss] =>
    match parseInt? r1, parseNat? nc1, parseInt? r2, parseNat? nc2, parseRaw ss with
    | some r1, some nc1, some r2, some nc2, some data =>
      match downsampleRaw data r1 nc1 with
      | some cs =>
        let l1 := (applyResets (cs.map (·.counter))).1
        match downsampleAggrLoop clampNow cs r2 nc2 with
        | .ok cs2 => s!"{showPts l1};{showPts (applyResets (cs2.map (·.counter))).1}"
        | e => s!"{showPts l1};{showAggrRes e}"
      | none => "panic"
    | _, _, _, _, _ => "bad-op"
  | ["ds.apply", cl] =>
    match parseChunkLists cl with
    | some cs => showPts (applyResets cs).1
    | none => "bad-op"
  | ["ds.cs", cl] =>
    match parseChunkLists cl with
    | some cs => showPts (chunkSeriesIter cs)
    | none => "bad-op"
  | _ => "bad-op"

def handle : List String → String
  | "aggr.enc" :: subs =>
    match subs.mapM parseSub with
    | some cs => hexEncode (natToBytes (AggrChunk.encode cs))
    | none => "bad-op"
  | ["aggr.get", bytes, t] =>
    match hexDecode? bytes, parseNat? t with
    | some b, some t => showRes (AggrChunk.get false (bytesToNat b) t)
    | _, _ => "bad-op"
  | ["aggr.rt", s0, s1, s2, s3, s4, t] =>
    match [s0, s1, s2, s3, s4].mapM parseSub, parseNat? t with
    | some cs, some t => showRes (AggrChunk.get false (AggrChunk.encode cs) t)
    | _, _ => "bad-op"
  | toks => handleDs toks

end Thanos.Driver.Downsample
