import Thanos.Common.Parse
import Thanos.Model.AggrChunk
/-
  Line-protocol driver of the `downsample` family (C36–C39).
  One request per line, one answer per line; every line is self-contained.
-/
open Thanos Thanos.Parse

namespace Thanos.Driver.Downsample

def bytesToNat (bs : List UInt8) : List Nat := bs.map (·.toNat)
def natToBytes (ns : List Nat) : List UInt8 := ns.map UInt8.ofNat

/-- `nil` or `<enc>:<hexdata>` -/
def parseSub (s : String) : Option AggrChunk.Sub :=
  if s = "nil" then some none else
  match splitChar ':' s with
  | [e, d] => do
    let e ← parseNat? e
    let d ← hexDecode? d
    pure (some (e, bytesToNat d))
  | _ => none

def showRes : AggrChunk.Res → String
  | .ok e d => s!"ok {e} {hexEncode (natToBytes d)}"
  | .badenc => "badenc"
  | .notExist => "notexist"
  | .invalid => "invalid"

def handle : List String → String
  | "aggr.enc" :: subs =>
    match subs.mapM parseSub with
    | some cs => hexEncode (natToBytes (AggrChunk.encode cs))
    | none => "bad-op"
  | ["aggr.get", bytes, t] =>
    match hexDecode? bytes, parseNat? t with
    | some b, some t => showRes (AggrChunk.get false (bytesToNat b) t)
    | _, _ => "bad-op"
  | ["aggr.rt", s0, s1, s2, s3, s4, t] =>
    match [s0, s1, s2, s3, s4].mapM parseSub, parseNat? t with
    | some cs, some t => showRes (AggrChunk.get false (AggrChunk.encode cs) t)
    | _, _ => "bad-op"
  | _ => "bad-op"

end Thanos.Driver.Downsample
