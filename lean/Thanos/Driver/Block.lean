import Thanos.Common.Parse
import Thanos.Model.Bucket
import Thanos.Model.DedupFilter
import Thanos.Model.Retention
import Thanos.Model.CleanerHist
import Thanos.Model.Shipper
import Thanos.Model.CompactSync
/-
  Line-protocol driver of the `block` family (C28 C31 C32 C33 C35).
  One request per line, one answer per line; every line is self-contained.

  C28   blk.run <chunks> <index> <steps>
          chunks = <name>:<size>,… | -      index = <size>
          steps  = <proc>:<k>;…             proc ∈ up ship rep del mark nocomp ; k = crash budget | x
        answer: <status>[<mutating calls>] … => <listing>       (grammar in harness/cmd/block/c28.go)

  C31   dd.filter <metas>        metas = <ulid>:<group>:<level>:<src>,<src>,…;…   (ulid = <time> | <time>e<entropy>; sources `-` = none)
        ids in the answer = time * 1000 + entropy
        answer: kept=<ids ascending> dups=<ids ascending>

  C32   c32.ret <nowMs> <rets> <blocks>       rets = <res>:<durMs>:<shift>,…   blocks = <id>:<res>:<maxTimeMs>:<shift>;…
          answer: marked=<ids ascending>
        c32.clean <nowMs> <delayMs> <marks>   marks = <id>:<deletionTimeSec | ->;…
          answer: deleted=<ids ascending>
        c32.partial <nowMs> <markedIds> <partials>   partials = <id>:<ulidMs>:<lm>,<lm>,…:<iterFails 0|1>;…
          answer: deleted=<ids ascending>
        c32.hist <nowMs> <delayMs> <nblocks> <steps>   one long-lived filter + cleaner; blocks 1..nblocks (complete, unmarked)
          steps = m:<id>:<deletionTimeSec> | u:<id> | s (sync) | i (compactor iteration: sync + clean) ; …
          answer: i[<deleted ids>] … => <id>[:<markSec>] …          (remaining blocks with their marks)
        (times are absolute, around a nominal base; the Go side shifts them to the wall clock — `shift`
        fields are for the Go side only)

  C35   ship.run <cfg> <blocks> <steps>
          cfg    = <uploadCompacted 0|1><allowOutOfOrderUploads 0|1>
          blocks = <id>:<minT>:<maxT>:<level>:<numSamples>:<indexSize>:<seg>,<seg>,…;…   (sorted by minT, distinct)
          steps  = s:<k> | s:x (one Sync with crash budget) | t:<j> (one Sync whose j-th bucket call fails), each optionally
                   followed by @<n>:<v> (after n mutating calls of that Sync the dynamic labels callback returns v) |
                   rm (shipper file lost) | L:<v> (dynamic callback value) | SL:<v> (SetLabels) | N (new Shipper instance) ; …
        answer: <status>[<mutating calls>]file=<ids|none> … => b<id>@<label version of the bucket meta.json | ->{<listing>} …

  C33   c33.fault <layout> <lister> <call> <sync> <readKind> <n> <outcome>     (layout, lister, call, sync, n: for the Go side)
          readKind = listing | exists-meta | get-meta | get-deletion-mark | get-no-compact-mark
          outcome  = notfound | corrupt | badversion | failed | body0 | bodyhalf | bodylast (Get succeeds, the body breaks after 0 / half / all-but-one bytes)
        answer: sync=failed compact=err writes-after=0 | sync=ok compact=n/a writes-after=n/a
        c33.multi <layout> <lister> <conc> <call> <sync> <faults>     faults = <readKind>:<n>:<outcome>,…  (several reads of ONE sync)
        answer: as above
-/
open Thanos Thanos.Parse

namespace Thanos.Driver.Block
open Thanos.Bucket

-- ---------------------------------------------------------------- C28

def isJsonName (f : String) : Bool := f.endsWith ".json"

def showName (f : String) : String := if f = "" then "." else f

def showOp : Op → String
  | .put (_, f) (.data sz) => if isJsonName f then s!"put {showName f}" else s!"put {showName f} {sz}"
  | .put (_, f) (.metaJson _ _) => s!"put {showName f}"
  | .del (_, f) => s!"del {showName f}"

def showListing (s : Bucket) (n : Nat) : String :=
  let names := sortNames (namesOf s n)
  joinWith " " (names.map fun f =>
    match get s (n, f) with
    | some (.data sz) => if isJsonName f then f else s!"{f}:{sz}"
    | _ => f)

def parseChunks (s : String) : Option (List (String × Nat)) :=
  (listOf ',' s).mapM fun t =>
    match splitChar ':' t with
    | [name, sz] => do
      let sz ← parseNat? sz
      pure ("chunks/" ++ name, sz)
    | _ => none

def parseBudget (s : String) : Option (Option Nat) :=
  if s = "x" then some none else (parseNat? s).map some

def parseSteps (s : String) : Option (List (String × Option Nat)) :=
  (listOf ';' s).mapM fun t =>
    match splitChar ':' t with
    | [p, k] => do
      let k ← parseBudget k
      pure (p, k)
    | _ => none

/-- the script of one procedure run on block 0, from the bucket state at its start -/
def scriptOf (proc : String) (s : Bucket) (b : Block) : Option (List Call) :=
  match proc with
  | "up" => some (uploadScript codeUploadOrder 0 b)
  | "ship" => some (shipScript codeUploadOrder s 0 b)
  | "rep" => some (replicateScript codeReplicateOrder s 0 b)
  | "del" => some (deleteScript codeDeleteOrder s 0)
  | "mark" => some (markScript s 0 markName 0)
  | "nocomp" => some (markScript s 0 noCompactName 0)
  | _ => none

def runSteps (b : Block) : Bucket → List (String × Option Nat) → Option (List String × Bucket)
  | s, [] => some ([], s)
  | s, (p, k) :: rest => do
    let sc ← scriptOf p s b
    let r := exec k sc s
    let (outs, s') ← runSteps b r.bkt rest
    let st := if r.ok then "ok" else "err"
    pure (s!"{st}[{",".intercalate (r.trace.map showOp)}]" :: outs, s')

def blkRun (chunks index steps : String) : String :=
  match parseChunks chunks, parseNat? index, parseSteps steps with
  | some cs, some ix, some sts =>
    if sts.isEmpty then "bad-op" else
    match runSteps ⟨cs, ix⟩ [] sts with
    | some (outs, s) => " ".intercalate outs ++ " => " ++ showListing s 0
    | none => "bad-op"
  | _, _, _ => "bad-op"

-- ---------------------------------------------------------------- C31

def insertNat (x : Nat) : List Nat → List Nat
  | [] => [x]
  | y :: ys => if x ≤ y then x :: y :: ys else y :: insertNat x ys

def sortNats (xs : List Nat) : List Nat := xs.foldr insertNat []

def parseMeta (t : String) : Option DedupFilter.Meta :=
  match splitChar ':' t with
  | [i, g, lv, srcs] => do
    -- ULID token: <time> or <time>e<entropy> ; protocol number = time * 1000 + entropy
    let (t, e) ← match splitChar 'e' i with
      | [t] => (parseNat? t).map fun t => (t, 0)
      | [t, e] => do
        let t ← parseNat? t
        let e ← parseNat? e
        pure (t, e)
      | _ => none
    let g ← parseNat? g
    let lv ← parseNat? lv
    let ss ← parseNats? ',' srcs
    pure ⟨t * 1000 + e, t, e, g, lv, ss⟩
  | _ => none

def ddFilter (metas : String) : String :=
  match (listOf ';' metas).mapM parseMeta with
  | some ms =>
    let d := DedupFilter.dups ms
    let k := (DedupFilter.kept ms).map (·.id)
    s!"kept={showNats "," (sortNats k)} dups={showNats "," (sortNats d)}"
  | none => "bad-op"

-- ---------------------------------------------------------------- C32

def parseRet (t : String) : Option (Int × Int) :=
  match splitChar ':' t with
  | [r, d, _] => do
    let r ← parseInt? r
    let d ← parseInt? d
    pure (r, d * Retention.nsPerMs)
  | _ => none

def parseRBlock (t : String) : Option Retention.RBlock :=
  match splitChar ':' t with
  | [i, r, m, _] => do
    let i ← parseNat? i
    let r ← parseInt? r
    let m ← parseInt? m
    pure ⟨i, r, m⟩
  | _ => none

def c32Ret (now rets blocks : String) : String :=
  match parseInt? now, (listOf ',' rets).mapM parseRet, (listOf ';' blocks).mapM parseRBlock with
  | some now, some rets, some bs =>
    s!"marked={showNats "," (sortNats (Retention.retentionMarked Retention.codeMsPrecision (now * Retention.nsPerMs) rets bs))}"
  | _, _, _ => "bad-op"

/-- `<id>:-` is a block without deletion mark: never in the cleaner's map -/
def parseMark (t : String) : Option (Option Retention.Mark) :=
  match splitChar ':' t with
  | [i, d] => do
    let i ← parseNat? i
    if d = "-" then pure none else do
      let d ← parseInt? d
      pure (some ⟨i, d⟩)
  | _ => none

def c32Clean (now delay marks : String) : String :=
  match parseInt? now, parseInt? delay, (listOf ';' marks).mapM parseMark with
  | some now, some delay, some ms =>
    let ms := ms.filterMap id
    s!"deleted={showNats "," (sortNats (Retention.cleanerDeletes (now * Retention.nsPerMs) (delay * Retention.nsPerMs) ms))}"
  | _, _, _ => "bad-op"

def parsePartial (t : String) : Option Retention.Partial :=
  match splitChar ':' t with
  | [i, u, lms, f] => do
    let i ← parseNat? i
    let u ← parseInt? u
    let lms ← parseInts? ',' lms
    let f ← parseNat? f
    pure ⟨i, u, lms, f != 0⟩
  | _ => none

def c32Partial (now marked partials : String) : String :=
  match parseInt? now, parseNats? ',' marked, (listOf ';' partials).mapM parsePartial with
  | some now, some marked, some ps =>
    s!"deleted={showNats "," (sortNats (Retention.partialDeletes (now * Retention.nsPerMs) marked ps))}"
  | _, _, _ => "bad-op"

-- ---------------------------------------------------------------- C35

def showOpB : Op → String
  | .put (n, f) (.data sz) => if isJsonName f then s!"put {n}/{showName f}" else s!"put {n}/{showName f} {sz}"
  | .put (n, f) (.metaJson _ _) => s!"put {n}/{showName f}"
  | .del (n, f) => s!"del {n}/{showName f}"

def segName (i : Nat) : String :=
  let d := toString (i + 1)
  "chunks/" ++ String.ofList (List.replicate (6 - d.length) '0') ++ d

def parseLBlock (t : String) : Option Shipper.LBlock :=
  match splitChar ':' t with
  | [i, mn, mx, lv, ns, ix, segs] => do
    let i ← parseNat? i
    let mn ← parseInt? mn
    let mx ← parseInt? mx
    let lv ← parseNat? lv
    let ns ← parseNat? ns
    let ix ← parseNat? ix
    let segs ← parseNats? ',' segs
    pure ⟨i, mn, mx, lv, ns, ⟨(List.range segs.length).zip segs |>.map (fun p => (segName p.1, p.2)), ix⟩⟩
  | _ => none

def parseFlags (s : String) : Option (Bool × Bool) :=
  match s.toList with
  | [a, b] => if (a = '0' ∨ a = '1') ∧ (b = '0' ∨ b = '1') then some (a = '1', b = '1') else none
  | _ => none

inductive ShipStep where
  | sync (f : Shipper.Fault) (sw : Option (Nat × Nat))   -- sw: the dynamic label value switches during this Sync
  | rm
  | dyn (v : Nat)        -- L:<v>  the dynamic labels callback now returns v
  | setLabels (v : Nat)  -- SL:<v> Shipper.SetLabels on the running instance
  | restart              -- N      a new Shipper instance (dynamic callback again)

def parseSwitch (t : String) : Option (Nat × Nat) :=
  match splitChar ':' t with
  | [n, v] => do
    let n ← parseNat? n
    let v ← parseNat? v
    pure (n, v)
  | _ => none

def parseShipStep (t : String) : Option ShipStep :=
  if t = "rm" then some .rm else
  if t = "N" then some .restart else
  match splitChar '@' t with
  | [core] =>
    match splitChar ':' core with
    | ["s", k] => (parseBudget k).map fun b => .sync ⟨b, none⟩ none
    | ["t", j] => (parseNat? j).map fun j => .sync ⟨none, some j⟩ none
    | ["L", v] => (parseNat? v).map .dyn
    | ["SL", v] => (parseNat? v).map .setLabels
    | _ => none
  | [core, sw] => do
    let sw ← parseSwitch sw
    match splitChar ':' core with
    | ["s", k] => (parseBudget k).map fun b => .sync ⟨b, none⟩ (some sw)
    | ["t", j] => (parseNat? j).map fun j => .sync ⟨none, some j⟩ (some sw)
    | _ => none
  | _ => none

def showFile : Option (List Nat) → String
  | none => "none"
  | some ids => showNats "," ids

/-- `dyn`: value of the dynamic callback; `pinned`: label set installed by SetLabels on the instance -/
def runShip (uc ooo : Bool) (locals : List Shipper.LBlock) :
    Nat → Option Nat → Shipper.State → List ShipStep → List String × Shipper.State
  | _, _, st, [] => ([], st)
  | d, p, st, .rm :: rest =>
    let (outs, st') := runShip uc ooo locals d p ⟨st.bkt, none, st.lbl⟩ rest
    ("rm" :: outs, st')
  | _, p, st, .dyn v :: rest => runShip uc ooo locals v p st rest
  | d, _, st, .setLabels v :: rest => runShip uc ooo locals d (some v) st rest
  | d, _, st, .restart :: rest => runShip uc ooo locals d none st rest
  | d, p, st, .sync f sw :: rest =>
    let cfg : Shipper.Cfg := match p with
      | some v => ⟨uc, ooo, v, none⟩
      | none => ⟨uc, ooo, d, sw⟩
    let r := Shipper.sync cfg locals f st
    let d' := match sw with
      | some (n, v) => if n ≤ r.trace.length then v else d
      | none => d
    let (outs, st') := runShip uc ooo locals d' p r.st rest
    let status := if r.ok then "ok" else "err"
    (s!"{status}[{",".intercalate (r.trace.map showOpB)}]file={showFile r.st.file}" :: outs, st')

def showLbl (m : List (Nat × Nat)) (s : Bucket) (id : Nat) : String :=
  if (get s (id, metaName)).isSome then
    match Shipper.lookupL m id with
    | some v => toString v
    | none => "?"
  else "-"

def shipRun (cfg blocks steps : String) : String :=
  match parseFlags cfg, (listOf ';' blocks).mapM parseLBlock, (listOf ';' steps).mapM parseShipStep with
  | some (uc, ooo), some bs, some sts =>
    if sts.isEmpty then "bad-op" else
    let (outs, st) := runShip uc ooo bs 1 none ⟨[], none, []⟩ sts
    let listing := bs.map fun b => s!"b{b.id}@{showLbl st.lbl st.bkt b.id}\{{showListing st.bkt b.id}}"
    " ".intercalate outs ++ " => " ++ " ".intercalate listing
  | _, _, _ => "bad-op"

-- ---------------------------------------------------------------- C33

def parseReadKind : String → Option CompactSync.ReadKind
  | "listing" => some .listing
  | "exists-meta" => some .existsMeta
  | "get-meta" => some .getMeta
  | "get-deletion-mark" => some .getDeletionMark
  | "get-no-compact-mark" => some .getNoCompactMark
  | _ => none

def parseOutcome : String → Option CompactSync.Outcome
  | "notfound" => some .notFound
  | "corrupt" => some .corrupt
  | "badversion" => some .badVersion
  | "failed" => some .failed
  | "body0" => some .bodyError
  | "bodyhalf" => some .bodyError
  | "bodylast" => some .bodyError
  | _ => none

def c33Fault (kind outcome : String) : String :=
  match parseReadKind kind, parseOutcome outcome with
  | some k, some o =>
    -- every other read of the iteration succeeds; the writes are abstract (one token)
    let r := CompactSync.iteration [(k, o)] ["w"]
    if r.1 then s!"sync=failed compact=err writes-after={r.2.length}"
    else "sync=ok compact=n/a writes-after=n/a"
  | _, _ => "bad-op"

def parseFault (t : String) : Option (CompactSync.ReadKind × CompactSync.Outcome) :=
  match splitChar ':' t with
  | [k, _, o] => do
    let k ← parseReadKind k
    let o ← parseOutcome o
    pure (k, o)
  | _ => none

def c33Multi (faults : String) : String :=
  match (listOf ',' faults).mapM parseFault with
  | some fs =>
    if fs.isEmpty then "bad-op" else
    let r := CompactSync.iteration fs ["w"]
    if r.1 then s!"sync=failed compact=err writes-after={r.2.length}"
    else "sync=ok compact=n/a writes-after=n/a"
  | none => "bad-op"

def parseHistStep (t : String) : Option CleanerHist.Step :=
  match splitChar ':' t with
  | ["m", i, ts] => do
    let i ← parseNat? i
    let ts ← parseInt? ts
    pure (.mark i ts)
  | ["u", i] => (parseNat? i).map .unmark
  | ["s"] => some .sync
  | ["i"] => some .iterate
  | _ => none

def c32Hist (now delay nblocks steps : String) : String :=
  match parseInt? now, parseInt? delay, parseNat? nblocks, (listOf ';' steps).mapM parseHistStep with
  | some now, some delay, some n, some sts =>
    let init : CleanerHist.St := ⟨(List.range n).map fun i => (i + 1, none), []⟩
    let r := CleanerHist.run CleanerHist.codeReplace (now * Retention.nsPerMs) (delay * Retention.nsPerMs) init sts
    let its := r.2.map fun d => s!"i[{showNats "," (sortNats d)}]"
    let rest := r.1.blocks.map fun p => match p.2 with
      | some t => s!"{p.1}:{t}"
      | none => toString p.1
    joinWith " " its ++ " => " ++ joinWith " " rest
  | _, _, _, _ => "bad-op"

def handle : List String → String
  | ["blk.run", chunks, index, steps] => blkRun chunks index steps
  | ["c32.hist", now, delay, nblocks, steps] => c32Hist now delay nblocks steps
  | ["c33.multi", _, _, _, _, _, faults] => c33Multi faults
  | ["c33.fault", _, _, _, _, kind, _, outcome] => c33Fault kind outcome
  | ["ship.run", cfg, blocks, steps] => shipRun cfg blocks steps
  | ["c32.ret", now, rets, blocks] => c32Ret now rets blocks
  | ["c32.clean", now, delay, marks] => c32Clean now delay marks
  | ["c32.partial", now, marked, partials] => c32Partial now marked partials
  | ["dd.filter", metas] => ddFilter metas
  | _ => "bad-op"

end Thanos.Driver.Block
