import Thanos.Common.Parse
/-
  Line-protocol driver of the `block` family (C28 C31 C32 C33 C35).
  One request per line, one answer per line; every line is self-contained.
-/
open Thanos Thanos.Parse

namespace Thanos.Driver.Block

def handle : List String → String
  | _ => "bad-op"

end Thanos.Driver.Block
