import Thanos.Driver.Compact
-- executable root of `model_compact` (kept apart so that the library can import every driver)
def main : IO Unit := Thanos.Parse.runDriver Thanos.Driver.Compact.handle
