import Thanos.Driver.Receive
-- executable root of `model_receive` (kept apart so that the library can import every driver)
def main : IO Unit := Thanos.Parse.runDriver Thanos.Driver.Receive.handle
