import Thanos.Driver.Index
-- executable root of `model_index` (kept apart so that the library can import every driver)
def main : IO Unit := Thanos.Parse.runDriver Thanos.Driver.Index.handle
