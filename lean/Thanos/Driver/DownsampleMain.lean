import Thanos.Driver.Downsample
-- executable root of `model_downsample` (kept apart so that the library can import every driver)
def main : IO Unit := Thanos.Parse.runDriver Thanos.Driver.Downsample.handle
