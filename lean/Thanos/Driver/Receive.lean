import Thanos.Common.Parse
import Thanos.Model.Quorum
/-
  Line-protocol driver of the `receive` family (C22 C23 C24 C25 C26).
  One request per line, one answer per line; every line is self-contained.

  fan <entry> <rf> <rep> <placement> <scripts>                    (C22, C23)
      entry      h = HTTP receiveHTTP (answer: status code) | g = gRPC RemoteWrite (answer: code name)
      rf         replication factor (≥ 1)
      rep        replica header / field: 0 = not yet replicated, k > 0 = already replicated as replica k
      placement  series separated by `,`; per series the endpoint index of replica 0,1,… joined by `.`
      scripts    arrival orders separated by `/`; an order is `e:r:o` entries joined by `,`
                 (endpoint, replica, outcome); outcomes: k ok | c AlreadyExists | C errConflict |
                 o out-of-order sample | u gRPC Unavailable | U errUnavailable | n errNotReady |
                 N tsdb.ErrNotReady | x gRPC Internal | X plain error
      answer     <writes> <status>/<status>/…      writes = `e:r:id.id` sorted, joined by `,`
-/
open Thanos Thanos.Parse

namespace Thanos.Driver.Receive
open Thanos.Quorum

def parseOutcome : String → Option Outcome
  | "k" => some none
  | "c" => some (some kConflict)
  | "C" => some (some kConflict)
  | "o" => some (some kConflict)
  | "u" => some (some kGrpcUnavail)
  | "U" => some (some kUnavail)
  | "n" => some (some kNotReady)
  | "N" => some (some kNotReady)
  | "x" => some (some kOther)
  | "X" => some (some kOther)
  | _ => none

def parseEntry (s : String) : Option ((Nat × Nat) × Outcome) :=
  match splitChar ':' s with
  | [e, r, o] => do
    let e ← parseNat? e
    let r ← parseNat? r
    let o ← parseOutcome o
    pure ((e, r), o)
  | _ => none

def parseScript (s : String) : Option (List ((Nat × Nat) × Outcome)) := (listOf ',' s).mapM parseEntry

def parsePlacement (s : String) : Option (List (List Nat)) := (listOf ',' s).mapM (parseNats? '.')

/-- insertion sort of the writes by (endpoint, replica) -/
def insertWrite (w : (Nat × Nat) × List Nat) : Writes → Writes
  | [] => [w]
  | v :: vs => if w.1.1 < v.1.1 ∨ (w.1.1 = v.1.1 ∧ w.1.2 ≤ v.1.2) then w :: v :: vs else v :: insertWrite w vs

def showWrites (ws : Writes) : String :=
  joinWith "," ((ws.foldr insertWrite []).map fun w => s!"{w.1.1}:{w.1.2}:{showNats "." w.2}")

def showGrpc : GrpcCode → String
  | .ok => "ok"
  | .unavailable => "unavail"
  | .alreadyExists => "exists"
  | .invalidArgument => "invalid"
  | .internal => "internal"

def nodupKeys : List (Nat × Nat) → Bool
  | [] => true
  | k :: ks => !ks.contains k && nodupKeys ks

/-- `none` = ill-formed op: an arrival order must name every write exactly once (a write that is
    never answered would block the real handler until the forward timeout) -/
def showHandled (http : Bool) (script : List ((Nat × Nat) × Outcome)) : Handled → Option (String × String)
  | .badReplica => some ("-", if http then "400" else "invalid")
  | .hashringError => some ("-", if http then "500" else "internal")
  | .badScript => none
  | .done ws r =>
    if script.length = ws.length ∧ nodupKeys (script.map (·.1)) then
      some (showWrites ws, if http then toString (httpStatus r) else showGrpc (grpcCode r))
    else none

def fan (http : Bool) (rf rep : Nat) (pl : List (List Nat)) (scripts : List (List ((Nat × Nat) × Outcome))) : String :=
  match scripts.mapM (fun sc => showHandled http sc (Quorum.handle codeSel rf rep pl sc)) with
  | none => "bad-op"
  | some [] => "bad-op"
  | some ((w, st) :: rest) => w ++ " " ++ "/".intercalate (st :: rest.map (·.2))

def handle : List String → String
  | ["fan", entry, rf, rep, placement, scripts] =>
    match parseNat? rf, parseNat? rep, parsePlacement placement, (splitChar '/' scripts).mapM parseScript with
    | some rf, some rep, some pl, some scs =>
      if rf = 0 ∨ pl.isEmpty then "bad-op"
      else if entry = "h" then fan true rf rep pl scs
      else if entry = "g" then fan false rf rep pl scs
      else "bad-op"
    | _, _, _, _ => "bad-op"
  | _ => "bad-op"

end Thanos.Driver.Receive
