import Thanos.Common.Parse
import Thanos.Model.Quorum
import Thanos.Model.RWv2
import Thanos.Model.Gate
import Thanos.Model.GateId
import Thanos.Model.Capnp
/-
  Line-protocol driver of the `receive` family (C22 C23 C24 C25 C26).
  One request per line, one answer per line; every line is self-contained.

  fan <entry> <rf> <rep> <placement> <scripts>                    (C22, C23)
      entry      h = HTTP receiveHTTP (answer: status code) | g = gRPC RemoteWrite (answer: code name)
                 c = as h with the peers reached over Cap'n Proto (outcomes k o N x X; x, X arrive as Unavailable)
      rf         replication factor (≥ 1)
      rep        replica header / field: 0 = not yet replicated, k > 0 = already replicated as replica k
      placement  series separated by `,`; per series `[T@]e.e.e`: optional tenant index (non-decreasing) and
                 the endpoint index of replica 0,1,… joined by `.`
      scripts    arrival orders separated by `/`; an order is `e:r:o` entries joined by `,`
                 (endpoint, replica, outcome); outcomes: k ok | c AlreadyExists | C errConflict |
                 o out-of-order sample | u gRPC Unavailable | U errUnavailable | n errNotReady |
                 N tsdb.ErrNotReady | x gRPC Internal | X plain error
      answer     <writes> <status>/<status>/…      writes = `e:r:id.id` sorted, joined by `,`

  v2.tr <syms> <ts>*          translateV2ToV1                               (C26)
  v2.http <syms> <ts>*        the request through receiveHTTP, one peer that stores everything
      syms       `_` | sym(,sym)*            sym = `x` followed by the hex of the string
      ts         refs|samples|exemplars|hists|meta
      refs       `_` | nat(.nat)*
      samples    `_` | bits:ts:startTs (,…)               (bits = the float64 as an integer)
      exemplars  `_` | refs:bits:ts (,…)
      hists      `_` | cnt:sum:schema:zth:zcnt:nspans:ndeltas:ncounts:pspans:pdeltas:pcounts:hint:ts:custom:startTs (,…)
                 cnt = n | i<nat> | f<bits>; spans = `_` | <int>x<nat>(.…); deltas, counts, custom = `_` | n(.n)*
      meta       type:helpRef:unitRef
      answer     v2.tr:   ok <ts1>* | panic | invalid         ts1 = labels|samples|exemplars|hists,
                          labels = `_` | sym~sym(,…); exemplar labels joined by `.`
                 v2.http: <status> [<samples>/<histograms>/<exemplars> written headers] <ts1>*  | panic

  gate <entry> <cap> <steps>                                                       (C24)
      entry      h = receiveHTTP | o = receiveOTLPHTTP
      cap        write.global.max_concurrency (0 = no gate: the limiter keeps gate.NewNoop)
      steps      letters joined by `,`:  a  a request arrives (live context)
                                         x  a request arrives with a cancelled context — executed only
                                            while the gate is full (in-flight gauge ≥ cap), else skipped
                                         c  the context of the oldest request blocked at the gate is cancelled
                                         k  the context of the oldest running request is cancelled (client gone)
                                         f  the oldest request inside the write path completes
                                         r  the limits are reloaded (Limiter.loadConfig: a new gate object,
                                            same max_concurrency) while the requests above are in flight
      answer     per step `running.waiting.gauge.total` (all gates together; gauge/total of the stored gate; after the freed slots were taken by blocked requests),
                 joined by `,`, then ` p=<panics> max=<most requests of one configuration inside the write path at once>`

  gate.first <entries> <cap> <K> <reload>                                          (C24)
      K requests reach a freshly configured limiter at the same time (all of them are first arrivals: the
      limiter has not handed out its gate yet); entries = endpoint letters (h/o) used round robin;
      reload = 0: right after start-up | n>0: right after a limits reload to max_concurrency n (the K
      requests are admitted under the new configuration)
      answer     `running.waiting max=<most requests inside the write path at once>`

  capnp.rt (t<hex> <series>*)+                                                     (C25)
      a multi-tenant write request: tenant tokens `t`+hex, each followed by its series
      series     labels|samples|exemplars|hists      labels `_` | x<hex>~x<hex>(,…)   samples `_` | bits:ts(,…)
                 exemplars `_` | labels(`.`-joined):bits:ts(,…)
                 hists `_` | cnt:sum:schema:zth:zcnt:nspans:ndeltas:ncounts:pspans:pdeltas:pcounts:hint:ts:custom(,…)
      answer     <offsets `.`-joined | _> <symbol data hex> then per tenant `t<hex>` and its decoded series
                 labels|samples|exemplars|dhists,   dhist = I|F:hint:count:sum:schema:zth:zeroCount:pspans:nspans:pbuckets:nbuckets:custom:ts
                 or `panic` when the decoder panics
-/
open Thanos Thanos.Parse

namespace Thanos.Driver.Receive
open Thanos.Quorum

def parseOutcome : String → Option Outcome
  | "k" => some none
  | "c" => some (some kConflict)
  | "C" => some (some kConflict)
  | "o" => some (some kConflict)
  | "u" => some (some kGrpcUnavail)
  | "U" => some (some kUnavail)
  | "n" => some (some kNotReady)
  | "N" => some (some kNotReady)
  | "x" => some (some kOther)
  | "X" => some (some kOther)
  | _ => none

def parseEntry (s : String) : Option ((Nat × Nat) × Outcome) :=
  match splitChar ':' s with
  | [e, r, o] => do
    let e ← parseNat? e
    let r ← parseNat? r
    let o ← parseOutcome o
    pure ((e, r), o)
  | _ => none

def parseScript (s : String) : Option (List ((Nat × Nat) × Outcome)) := (listOf ',' s).mapM parseEntry

/-- a series of the placement: `[T@]e.e.e` (tenant index, endpoints of replica 0,1,…) -/
def parsePlacedSeries (s : String) : Option (Nat × List Nat) :=
  match splitChar '@' s with
  | [es] => (parseNats? '.' es).map fun l => (0, l)
  | [t, es] => do pure (← parseNat? t, ← parseNats? '.' es)
  | _ => none

def nonDecreasing : List Nat → Bool
  | a :: b :: rest => a ≤ b && nonDecreasing (b :: rest)
  | _ => true

/-- the placement; tenants only group the series of a request (they must not decrease along it and
    are at most 9), the fan-out counts per series whatever the tenant -/
def parsePlacement (s : String) : Option (List (List Nat)) := do
  let ss ← (listOf ',' s).mapM parsePlacedSeries
  if nonDecreasing (ss.map (·.1)) ∧ ss.all (·.1 ≤ 9) then pure (ss.map (·.2)) else none

/-- outcomes of the Cap'n Proto transport (entry `c`): the peer's storage rejects the sample (o),
    is not ready (N), or fails otherwise (x, X) — which `writecapnp.RemoteWriteClient` reports as
    `codes.Unavailable` -/
def parseCapnpOutcome : String → Option Outcome
  | "k" => some none
  | "o" => some (some kConflict)
  | "N" => some (some kGrpcUnavail)
  | "x" => some (some kGrpcUnavail)
  | "X" => some (some kGrpcUnavail)
  | _ => none

def parseCapnpEntry (s : String) : Option ((Nat × Nat) × Outcome) :=
  match splitChar ':' s with
  | [e, r, o] => do
    let e ← parseNat? e
    let r ← parseNat? r
    let o ← parseCapnpOutcome o
    pure ((e, r), o)
  | _ => none

def parseCapnpScript (s : String) : Option (List ((Nat × Nat) × Outcome)) := (listOf ',' s).mapM parseCapnpEntry

/-- insertion sort of the writes by (endpoint, replica) -/
def insertWrite (w : (Nat × Nat) × List Nat) : Writes → Writes
  | [] => [w]
  | v :: vs => if w.1.1 < v.1.1 ∨ (w.1.1 = v.1.1 ∧ w.1.2 ≤ v.1.2) then w :: v :: vs else v :: insertWrite w vs

def showWrites (ws : Writes) : String :=
  joinWith "," ((ws.foldr insertWrite []).map fun w => s!"{w.1.1}:{w.1.2}:{showNats "." w.2}")

def showGrpc : GrpcCode → String
  | .ok => "ok"
  | .unavailable => "unavail"
  | .alreadyExists => "exists"
  | .invalidArgument => "invalid"
  | .internal => "internal"

def nodupKeys : List (Nat × Nat) → Bool
  | [] => true
  | k :: ks => !ks.contains k && nodupKeys ks

/-- `none` = ill-formed op: an arrival order must name every write exactly once (a write that is
    never answered would block the real handler until the forward timeout) -/
def showHandled (http : Bool) (script : List ((Nat × Nat) × Outcome)) : Handled → Option (String × String)
  | .badReplica => some ("-", if http then "400" else "invalid")
  | .hashringError => some ("-", if http then "500" else "internal")
  | .badScript => none
  | .done ws r =>
    if script.length = ws.length ∧ nodupKeys (script.map (·.1)) then
      some (showWrites ws, if http then toString (httpStatus r) else showGrpc (grpcCode r))
    else none

def fan (http : Bool) (rf rep : Nat) (pl : List (List Nat)) (scripts : List (List ((Nat × Nat) × Outcome))) : String :=
  match scripts.mapM (fun sc => showHandled http sc (Quorum.handle codeSel rf rep pl sc)) with
  | none => "bad-op"
  | some [] => "bad-op"
  | some ((w, st) :: rest) => w ++ " " ++ "/".intercalate (st :: rest.map (·.2))

/-! ### C26 -/
section V2
open Thanos.RWv2

/-- list with `_` as the empty list -/
def listU (c : Char) (s : String) : List String := if s = "_" then [] else splitChar c s

def parseCnt (s : String) : Option Cnt :=
  match s.toList with
  | ['n'] => some .unset
  | 'i' :: rest => (parseNat? (String.ofList rest)).map Cnt.int
  | 'f' :: rest => (parseNat? (String.ofList rest)).map Cnt.float
  | _ => none

def parseSpan (s : String) : Option Span :=
  match splitChar 'x' s with
  | [o, l] => do pure ⟨← parseInt? o, ← parseNat? l⟩
  | _ => none

def natsU (s : String) : Option (List Nat) := (listU '.' s).mapM parseNat?
def intsU (s : String) : Option (List Int) := (listU '.' s).mapM parseInt?
def spansU (s : String) : Option (List Span) := (listU '.' s).mapM parseSpan

def parseHist2 (s : String) : Option Hist2 :=
  match splitChar ':' s with
  | [cnt, sum, schema, zth, zcnt, ns, nd, nc, ps, pd, pc, hint, ts, custom, st] => do
    let h : Hist := {
      count := ← parseCnt cnt, sum := ← parseNat? sum, schema := ← parseInt? schema,
      zeroThreshold := ← parseNat? zth, zeroCount := ← parseCnt zcnt,
      negSpans := ← spansU ns, negDeltas := ← intsU nd, negCounts := ← natsU nc,
      posSpans := ← spansU ps, posDeltas := ← intsU pd, posCounts := ← natsU pc,
      resetHint := ← parseInt? hint, timestamp := ← parseInt? ts, customValues := ← natsU custom }
    pure ⟨h, ← parseInt? st⟩
  | _ => none

def parseSample2 (s : String) : Option Sample2 :=
  match splitChar ':' s with
  | [v, t, st] => do pure ⟨← parseNat? v, ← parseInt? t, ← parseInt? st⟩
  | _ => none

def parseExemplar2 (s : String) : Option Exemplar2 :=
  match splitChar ':' s with
  | [r, v, t] => do pure ⟨← natsU r, ← parseNat? v, ← parseInt? t⟩
  | _ => none

def parseMeta (s : String) : Option Metadata :=
  match splitChar ':' s with
  | [a, b, c] => do pure ⟨← parseNat? a, ← parseNat? b, ← parseNat? c⟩
  | _ => none

def parseTS2 (s : String) : Option TS2 :=
  match splitChar '|' s with
  | [refs, samples, exemplars, hists, m] => do
    pure ⟨← natsU refs, ← (listU ',' samples).mapM parseSample2, ← (listU ',' exemplars).mapM parseExemplar2,
          ← (listU ',' hists).mapM parseHist2, ← parseMeta m⟩
  | _ => none

def parseSyms (s : String) : Option (List Sym) :=
  (listU ',' s).mapM fun t => if t.startsWith "x" then some t else none

def joinU (sep : String) (xs : List String) : String := if xs.isEmpty then "_" else sep.intercalate xs

def showCnt : Cnt → String
  | .unset => "n"
  | .int v => s!"i{v}"
  | .float b => s!"f{b}"

def showSpans (xs : List Span) : String := joinU "." (xs.map fun s => s!"{s.offset}x{s.length}")
def showNatsU (xs : List Nat) : String := joinU "." (xs.map toString)
def showIntsU (xs : List Int) : String := joinU "." (xs.map toString)

def showHist (h : Hist) : String :=
  ":".intercalate [showCnt h.count, toString h.sum, toString h.schema, toString h.zeroThreshold, showCnt h.zeroCount,
    showSpans h.negSpans, showIntsU h.negDeltas, showNatsU h.negCounts,
    showSpans h.posSpans, showIntsU h.posDeltas, showNatsU h.posCounts,
    toString h.resetHint, toString h.timestamp, showNatsU h.customValues]

def showLabels (sep : String) (ls : List (Sym × Sym)) : String := joinU sep (ls.map fun l => l.1 ++ "~" ++ l.2)

def showTS1 (t : TS1) : String :=
  "|".intercalate [showLabels "," t.labels,
    joinU "," (t.samples.map fun s => s!"{s.value}:{s.ts}"),
    joinU "," (t.exemplars.map fun e => s!"{showLabels "." e.labels}:{e.value}:{e.ts}"),
    joinU "," (t.hists.map showHist)]

def v2tr (syms : List Sym) (req : List TS2) : String :=
  match translate codeChecked syms req with
  | .error .panic => "panic"
  | .error .badRequest => "invalid"
  | .ok ts => " ".intercalate ("ok" :: ts.map showTS1)

/-- gogo's proto3 marshaller drops a scalar float field that compares equal to zero, so a request
    cannot carry −0.0 (bits 2^63) in `Sample.value`, `Exemplar.value`, `Histogram.sum` or
    `Histogram.zero_threshold` over the wire: such op lines are outside the HTTP op's domain -/
def negZero : Nat := 9223372036854775808

def carriesNegZero (req : List TS2) : Bool :=
  req.any fun t =>
    t.samples.any (·.value == negZero) || t.exemplars.any (·.value == negZero) ||
    t.hists.any (fun h => h.h.sum == negZero || h.h.zeroThreshold == negZero)

def v2http (syms : List Sym) (req : List TS2) : String :=
  if carriesNegZero req then "bad-op" else
  match handleV2 codeChecked syms req with
  | .panic => "panic"
  | .status c => toString c
  | .accepted ns nh ne ts => " ".intercalate ("200" :: s!"{ns}/{nh}/{ne}" :: ts.map showTS1)

end V2

/-! ### C24 -/
section GateOps
open Thanos.Gate

def parseStep : String → Option SEv
  | "a" => some .a
  | "x" => some .x
  | "c" => some .c
  | "k" => some .k
  | "f" => some .f
  | "r" => some .r
  | _ => none

/-- the scripted run over the limiter: start-up load, then the steps; the metrics are those of the
    gate that is stored now (a reload re-registers them for the new gate) -/
def gateRun (doneFirst relookup : Bool) (cap : Nat) (evs : List SEv) : String :=
  let l0 := lstep codeLazyGate doneFirst relookup (Lim.init cap) .load
  let (l, out) := evs.foldl (fun (acc : Lim × List String) e =>
    let l' := lscriptStep codeLazyGate doneFirst relookup acc.1 e
    let running := (l'.gates.map (·.st.running)).sum
    let waiting := (l'.gates.map (·.st.waiting)).sum
    let (gauge, total) := match l'.stored.bind (fun g => l'.gates[g]?) with
      | some r => (r.st.gauge, r.st.total)
      | none => (0, 0)
    (l', acc.2 ++ [s!"{running}.{waiting}.{gauge}.{total}"])) (l0, [])
  let panics := (l.gates.map (·.st.panics)).sum
  let mx := l.gates.foldl (fun m r => max m r.st.maxRunning) 0
  s!"{joinWith "," out} p={panics} max={mx}"

/-- K simultaneous first arrivals at the limiter of the code as it is (the arrivals are concurrent;
    the limiter hands every one of them the stored gate, so their order does not matter) -/
def gateFirst (cap k reload : Nat) : String :=
  let loads : List LEv := if reload = 0 then [.load] else [.load, .load]
  let c := if reload = 0 then cap else reload
  -- a reload changes the configured capacity: the model's limiter is created with the capacity in force
  let l := lrun codeLazyGate codeDoneFirstHTTP codeRelookupHTTP c (loads ++ List.replicate k .arrive)
  match l.stored.bind (fun g => l.gates[g]?) with
  | some r => s!"{r.st.running}.{r.st.waiting} max={r.st.maxRunning}"
  | none => "bad-op"

end GateOps

/-! ### C25 -/
section CapnpOps
open Thanos.Capnp

def parseStr (t : String) : Option Str :=
  match t.toList with
  | 'x' :: rest => if rest.isEmpty then some [] else (hexDecode? (String.ofList rest)).map (·.map (·.toNat))
  | _ => none

def showStr (s : Str) : String :=
  if s.isEmpty then "x" else "x" ++ hexEncode (s.map UInt8.ofNat)

def parseLabel (t : String) : Option (Str × Str) :=
  match splitChar '~' t with
  | [n, v] => do pure (← parseStr n, ← parseStr v)
  | _ => none

def parseCCnt (s : String) : Option Capnp.Cnt :=
  match s.toList with
  | ['n'] => some .unset
  | 'i' :: rest => (parseNat? (String.ofList rest)).map Capnp.Cnt.int
  | 'f' :: rest => (parseNat? (String.ofList rest)).map Capnp.Cnt.float
  | _ => none

def parseCSpan (s : String) : Option Capnp.Span :=
  match splitChar 'x' s with
  | [o, l] => do pure ⟨← parseInt? o, ← parseNat? l⟩
  | _ => none

def parsePHist (s : String) : Option PHist :=
  match splitChar ':' s with
  | [cnt, sum, schema, zth, zcnt, ns, nd, nc, ps, pd, pc, hint, ts, custom] => do
    pure { count := ← parseCCnt cnt, sum := ← parseNat? sum, schema := ← parseInt? schema,
           zeroThreshold := ← parseNat? zth, zeroCount := ← parseCCnt zcnt,
           negSpans := ← (listU '.' ns).mapM parseCSpan, negDeltas := ← intsU nd, negCounts := ← natsU nc,
           posSpans := ← (listU '.' ps).mapM parseCSpan, posDeltas := ← intsU pd, posCounts := ← natsU pc,
           resetHint := ← parseNat? hint, timestamp := ← parseInt? ts, customValues := ← natsU custom }
  | _ => none

def parsePExemplar (s : String) : Option PExemplar :=
  match splitChar ':' s with
  | [ls, v, t] => do pure ⟨← (listU '.' ls).mapM parseLabel, ← parseNat? v, ← parseInt? t⟩
  | _ => none

def parsePSample (s : String) : Option (Nat × Int) :=
  match splitChar ':' s with
  | [v, t] => do pure (← parseNat? v, ← parseInt? t)
  | _ => none

def parsePSeries (s : String) : Option PSeries :=
  match splitChar '|' s with
  | [ls, ss, es, hs] => do
    pure ⟨← (listU ',' ls).mapM parseLabel, ← (listU ',' ss).mapM parsePSample,
          ← (listU ',' hs).mapM parsePHist, ← (listU ',' es).mapM parsePExemplar⟩
  | _ => none

/-- tokens → (tenant token, its series tokens) -/
def splitTenants : List String → List (String × List String) → Option (List (String × List String))
  | [], acc => some acc.reverse
  | t :: rest, acc =>
    if t.startsWith "t" then splitTenants rest ((t, []) :: acc)
    else match acc with
      | [] => none
      | (n, ss) :: acc' => splitTenants rest ((n, ss ++ [t]) :: acc')

def parseTenant (p : String × List String) : Option (Str × List PSeries) :=
  match p.1.toList with
  | 't' :: hex => do
    let name : Str ← if hex.isEmpty then some [] else (hexDecode? (String.ofList hex)).map (·.map (·.toNat))
    pure (name, ← p.2.mapM parsePSeries)
  | _ => none

def parseTenants (toks : List String) : Option (List (Str × List PSeries)) := do
  (← splitTenants toks []).mapM parseTenant

def showCSpans (xs : List Capnp.Span) : String := joinU "." (xs.map fun s => s!"{s.offset}x{s.length}")
def showLbls (sep : String) (ls : List (Str × Str)) : String := joinU sep (ls.map fun l => showStr l.1 ++ "~" ++ showStr l.2)

def showDHist : DHist → String
  | .int hint c sum schema zth zc ps ns pb nb custom ts =>
    ":".intercalate ["I", toString hint, toString c, toString sum, toString schema, toString zth, toString zc,
      showCSpans ps, showCSpans ns, showIntsU pb, showIntsU nb, showNatsU custom, toString ts]
  | .float hint c sum schema zth zc ps ns pb nb custom ts =>
    ":".intercalate ["F", toString hint, toString c, toString sum, toString schema, toString zth, toString zc,
      showCSpans ps, showCSpans ns, showNatsU pb, showNatsU nb, showNatsU custom, toString ts]

def showDSeries (s : DSeries) : String :=
  "|".intercalate [showLbls "," s.labels,
    joinU "," (s.samples.map fun x => s!"{x.1}:{x.2}"),
    joinU "," (s.exemplars.map fun e => s!"{showLbls "." e.labels}:{e.value}:{e.ts}"),
    joinU "," (s.hists.map showDHist)]

def showTenantName (t : Str) : String := "t" ++ (if t.isEmpty then "" else hexEncode (t.map UInt8.ofNat))

def capnpRT (req : List (Str × List PSeries)) : String :=
  let m := encode req
  match decode codeStrictUnion m with
  | .error _ => "panic"
  | .ok ts =>
    " ".intercalate ([showNatsU m.offsets, hexEncode (m.data.map UInt8.ofNat)] ++
      ts.flatMap fun t => showTenantName t.1 :: t.2.map showDSeries)

end CapnpOps

def handle : List String → String
  | "capnp.rt" :: toks =>
    match parseTenants toks with
    | some req => if req.isEmpty then "bad-op" else capnpRT req
    | none => "bad-op"
  | ["gate.first", entries, cap, k, reload] =>
    match parseNat? cap, parseNat? k, parseNat? reload with
    | some cap, some k, some reload =>
      if cap = 0 ∨ k = 0 ∨ k > 8 ∨ entries.isEmpty ∨ !(entries.toList.all fun c => c = 'h' ∨ c = 'o') then "bad-op"
      else gateFirst cap k reload
    | _, _, _ => "bad-op"
  | ["gate", entry, cap, steps] =>
    match parseNat? cap, (listOf ',' steps).mapM parseStep with
    | some cap, some evs =>
      if evs.isEmpty then "bad-op"
      else if entry = "h" then gateRun Gate.codeDoneFirstHTTP Gate.codeRelookupHTTP cap evs
      else if entry = "o" then gateRun Gate.codeDoneFirstOTLP Gate.codeRelookupOTLP cap evs
      else "bad-op"
    | _, _ => "bad-op"
  | "v2.tr" :: syms :: tss =>
    match parseSyms syms, tss.mapM parseTS2 with
    | some syms, some req => v2tr syms req
    | _, _ => "bad-op"
  | "v2.http" :: syms :: tss =>
    match parseSyms syms, tss.mapM parseTS2 with
    | some syms, some req => v2http syms req
    | _, _ => "bad-op"
  | ["fan", entry, rf, rep, placement, scripts] =>
    match parseNat? rf, parseNat? rep, parsePlacement placement,
          (splitChar '/' scripts).mapM (if entry = "c" then parseCapnpScript else parseScript) with
    | some rf, some rep, some pl, some scs =>
      if rf = 0 ∨ pl.isEmpty then "bad-op"
      else if entry = "h" ∨ entry = "c" then fan true rf rep pl scs
      else if entry = "g" then fan false rf rep pl scs
      else "bad-op"
    | _, _, _, _ => "bad-op"
  | _ => "bad-op"

end Thanos.Driver.Receive
