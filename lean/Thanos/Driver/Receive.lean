import Thanos.Common.Parse
/-
  Line-protocol driver of the `receive` family (C22 C23 C24 C25 C26).
  One request per line, one answer per line; every line is self-contained.
-/
open Thanos Thanos.Parse

namespace Thanos.Driver.Receive

def handle : List String → String
  | _ => "bad-op"

end Thanos.Driver.Receive
