import Thanos.Driver.Block
-- executable root of `model_block` (kept apart so that the library can import every driver)
def main : IO Unit := Thanos.Parse.runDriver Thanos.Driver.Block.handle
