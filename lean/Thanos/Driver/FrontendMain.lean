import Thanos.Driver.Frontend
-- executable root of `model_frontend` (kept apart so that the library can import every driver)
def main : IO Unit := Thanos.Parse.runDriver Thanos.Driver.Frontend.handle
