import Thanos.Common.Parse
import Thanos.Model.Split
/-
  Line-protocol driver of the `frontend` family (C41 C42 C43 C44).
  One request per line, one answer per line; every line is self-contained.

  C41 ops (integers are decimal milliseconds):
    split.range  <start> <end> <step> <intervalMs>   -> ok s:e,s:e,… | ok - | panic
    split.labels|split.series <start> <end> <intervalMs>   -> ok s:e,s:e,… | ok -
    split.nib    <t> <step> <intervalMs>             -> <int> | panic
    split.align  <start> <end> <step>                -> <start'> <end'> | panic
-/
open Thanos Thanos.Parse

namespace Thanos.Driver.Frontend

def showPairs (l : List (Int × Int)) : String :=
  joinWith "," (l.map fun (a, b) => s!"{a}:{b}")

def showSplit : Split.Res (List (Int × Int)) → String
  | .ok l => "ok " ++ showPairs l
  | .panic => "panic"
  | .fuel => "fuel"

def handle3 (op a c d : String) : String :=
  if op = "split.nib" then
    match parseInt? a, parseInt? c, parseInt? d with
    | some t, some step, some iv =>
      match Split.nib t step iv with
      | some e => toString e
      | none => "panic"
    | _, _, _ => "bad-op"
  else if op = "split.align" then
    match parseInt? a, parseInt? c, parseInt? d with
    | some start, some stop, some step =>
      match Split.stepAlign start stop step with
      | some (s, e) => s!"{s} {e}"
      | none => "panic"
    | _, _, _ => "bad-op"
  else "bad-op"

def handle : List String → String
  | ["split.range", a, b, c, d] =>
    match parseInt? a, parseInt? b, parseInt? c, parseInt? d with
    | some start, some stop, some step, some iv =>
      -- protocol domain: negative steps/intervals are not compared (the Go loop need not terminate)
      if step < 0 ∨ iv < 0 then "bad-op" else showSplit (Split.split start stop step iv)
    | _, _, _, _ => "bad-op"
  | [op, a, b, d] =>
    if op = "split.labels" ∨ op = "split.series" then
      match parseInt? a, parseInt? b, parseInt? d with
      | some start, some stop, some dur =>
        if dur ≤ 0 then "bad-op" else showSplit (Split.splitLabels true start stop dur)
      | _, _, _ => "bad-op"
    else handle3 op a b d
  | _ => "bad-op"

end Thanos.Driver.Frontend
