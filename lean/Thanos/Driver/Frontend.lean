import Thanos.Common.Parse
import Thanos.Model.Split
import Thanos.Model.CacheKey
import Thanos.Model.ResultsCache
import Thanos.Model.Sharding
/-
  Line-protocol driver of the `frontend` family (C41 C42 C43 C44).
  One request per line, one answer per line; every line is self-contained.

  C41 ops (integers are decimal milliseconds):
    split.range  <start> <end> <step> <intervalMs>   -> ok s:e,s:e,… | ok - | panic
    split.labels|split.series <start> <end> <intervalMs>   -> ok s:e,s:e,… | ok -
    split.nib    <t> <step> <intervalMs>             -> <int> | panic
    split.align  <start> <end> <step>                -> <start'> <end'> | panic

  C43 ops (grammar in harness/cmd/frontend/c43.go):
    key.range RANGE | key.labels LABELS | key.series SERIES       -> <hex key> | panic | invalid | render-mismatch
    (key.url.labels / key.url.series / key.pair.url.*: the same requests, built by the real codec from a URL on the Go side;
     LABELS / SERIES carry the matcher text AND the matcher sets: render-mismatch = `Rendered text sets` fails)
    key.pair.range RANGE "|" RANGE  (also .labels, .series, .cross LABELS "|" SERIES)
                                                                  -> <hex key A> <hex key B> | panic | invalid
    key.tenant <tenant>                                           -> ok | invalid
    key.should <r|l|s> <dedup> <#storeMatchers> <disabled>        -> 0 | 1

  C42 op (grammar in harness/cmd/frontend/c42.go):
    cache.hist <align 0|1> <splitMs> <data> <reqs>   -> <resp>|<resp>|…
    cache.fresh <B> <splitMs> <poison|-> <data> <reqs with :loss 0|1|2|3>   -> <resp>|<resp>|…

  C44 ops (grammar in harness/cmd/frontend/c44.go):
    shard.analyze E                                            -> none | by:<l,l> | without:<l,l>
    shard.match <total> <by> <shardLabels> <series> <hash>     -> <indices>
-/
open Thanos Thanos.Parse

namespace Thanos.Driver.Frontend

def showPairs (l : List (Int × Int)) : String :=
  joinWith "," (l.map fun (a, b) => s!"{a}:{b}")

def showSplit : Split.Res (List (Int × Int)) → String
  | .ok l => "ok " ++ showPairs l
  | .panic => "panic"
  | .fuel => "fuel"


/-! ### C43 -/
section C43
open CacheKey

def pStr (t : String) : Option Str := (hexString? t).map String.toList

def pStrList (sep : Char) (t : String) : Option (List Str) :=
  (listOf sep t).mapM fun e => if e = "_" then some [] else pStr e

def pBool (t : String) : Option Bool :=
  if t = "0" then some false else if t = "1" then some true else none

def pShard (t : String) : Option (Option ShardInfo) :=
  if t = "-" then some none else
  match splitChar '/' t with
  | [a, b, c, d] => do
    let total ← parseInt? a
    let index ← parseInt? b
    let by_ ← pBool c
    let labels ← pStrList ';' d
    pure (some { total, index, by_, labels })
  | _ => none

def pRange : List String → Option RangeReq
  | [tn, q, st, step, split, msr, sh, lb, eng, pr, repl, an] => do
    pure { tenant := ← pStr tn, query := ← pStr q, start := ← parseInt? st, step := ← parseInt? step,
           splitMs := ← parseInt? split, msr := ← parseInt? msr, shard := ← pShard sh, lookback := ← parseInt? lb,
           engine := ← pStr eng, partialResp := ← pBool pr, replicas := ← pStrList ',' repl, analyze := ← pBool an }
  | _ => none

/-- `<hexname>.<op>.<hexvalue>` -/
def pMatcher (t : String) : Option Matcher :=
  match splitChar '.' t with
  | [n, o, v] => do
    let op ← parseNat? o
    if op > 3 then none else pure ⟨← pStr n, op, ← pStr v⟩
  | _ => none

/-- `set;set` with `set = m,m`; `-` = no selector -/
def pSets (t : String) : Option (List (List Matcher)) :=
  (listOf ';' t).mapM fun e => (listOf ',' e).mapM pMatcher

def pLabels : List String → Option (LabelsReq × List (List Matcher))
  | [tn, lb, _sels, text, sets, st, split, pr] => do
    pure ({ tenant := ← pStr tn, label := ← pStr lb, matchers := ← pStr text, start := ← parseInt? st,
            splitMs := ← parseInt? split, partialResp := ← pBool pr }, ← pSets sets)
  | _ => none

def pSeries : List String → Option (SeriesReq × List (List Matcher))
  | [tn, _sels, text, sets, st, split, pr, repl] => do
    pure ({ tenant := ← pStr tn, matchers := ← pStr text, start := ← parseInt? st, splitMs := ← parseInt? split,
            partialResp := ← pBool pr, replicas := ← pStrList ',' repl }, ← pSets sets)
  | _ => none

/-- what resultsCache.Do would use as key: tenant resolver first, then GenerateCacheKey -/
def keyAnswer (tenant : Str) (k : Option Str) : String :=
  if !tenantAccepted tenant then "invalid" else
  match k with
  | none => "panic"
  | some k => hexEncode (String.ofList k).toUTF8.toList

/-- the rendering hypothesis of `C43_labels_sets` / `C43_series_sets`, checked on the real text -/
def renderedAnswer (text : Str) (sets : List (List Matcher)) (ans : String) : String :=
  if Rendered text sets then ans else "render-mismatch"

def labelsAnswer (p : LabelsReq × List (List Matcher)) : String :=
  renderedAnswer p.1.matchers p.2 (keyAnswer p.1.tenant (labelsKey p.1))

def seriesAnswer (p : SeriesReq × List (List Matcher)) : String :=
  renderedAnswer p.1.matchers p.2 (keyAnswer p.1.tenant (seriesKey p.1))

def pairAnswer (a b : String) : String :=
  if a = "render-mismatch" ∨ b = "render-mismatch" then "render-mismatch"
  else if a = "panic" ∨ b = "panic" then "panic"
  else if a = "invalid" ∨ b = "invalid" then "invalid"
  else a ++ " " ++ b

def splitBar (l : List String) : Option (List String × List String) :=
  match l.span (· ≠ "|") with
  | (a, _ :: b) => some (a, b)
  | _ => none

def handleC43 : List String → String
  | "key.range" :: rest =>
    match pRange rest with
    | some r => keyAnswer r.tenant (rangeKey r)
    | none => "bad-op"
  | "key.labels" :: rest | "key.url.labels" :: rest =>
    match pLabels rest with
    | some r => labelsAnswer r
    | none => "bad-op"
  | "key.series" :: rest | "key.url.series" :: rest =>
    match pSeries rest with
    | some r => seriesAnswer r
    | none => "bad-op"
  | "key.pair.range" :: rest =>
    match splitBar rest with
    | some (a, b) =>
      match pRange a, pRange b with
      | some a, some b => pairAnswer (keyAnswer a.tenant (rangeKey a)) (keyAnswer b.tenant (rangeKey b))
      | _, _ => "bad-op"
    | none => "bad-op"
  | "key.pair.labels" :: rest | "key.pair.url.labels" :: rest =>
    match splitBar rest with
    | some (a, b) =>
      match pLabels a, pLabels b with
      | some a, some b => pairAnswer (labelsAnswer a) (labelsAnswer b)
      | _, _ => "bad-op"
    | none => "bad-op"
  | "key.pair.series" :: rest | "key.pair.url.series" :: rest =>
    match splitBar rest with
    | some (a, b) =>
      match pSeries a, pSeries b with
      | some a, some b => pairAnswer (seriesAnswer a) (seriesAnswer b)
      | _, _ => "bad-op"
    | none => "bad-op"
  | "key.pair.cross" :: rest =>
    match splitBar rest with
    | some (a, b) =>
      match pLabels a, pSeries b with
      | some a, some b => pairAnswer (labelsAnswer a) (seriesAnswer b)
      | _, _ => "bad-op"
    | none => "bad-op"
  | ["key.tenant", t] =>
    match pStr t with
    | some t => if tenantAccepted t then "ok" else "invalid"
    | none => "bad-op"
  | ["key.should", kind, d, n, dis] =>
    match pBool d, parseNat? n, pBool dis with
    | some d, some n, some dis =>
      if kind = "r" ∨ kind = "s" then (if shouldCache (some d) n dis then "1" else "0")
      else if kind = "l" then (if shouldCache none n dis then "1" else "0")
      else "bad-op"
    | _, _, _ => "bad-op"
  | _ => "bad-op"

end C43

/-! ### C42 -/
section C42
open ResultsCache

/-- `lo-hi` -/
def pInterval (t : String) : Option (Int × Int) :=
  match splitChar '-' t with
  | [a, b] => do pure (← parseInt? a, ← parseInt? b)
  | _ => none

/-- `<id>:<lo>-<hi>+<lo>-<hi>` -/
def pSeriesData (t : String) : Option (Nat × List (Int × Int)) :=
  match splitChar ':' t with
  | [a, b] => do
    let id ← parseNat? a
    let ivs ← (listOf '+' b).mapM pInterval
    if id > 9 then none else pure (id, ivs)
  | _ => none

def pReq (t : String) : Option Req :=
  match splitChar ':' t with
  | [a, b, c] => do
    let r : Req := ⟨← parseInt? a, ← parseInt? b, ← parseInt? c⟩
    if r.start < 0 ∨ r.stop < r.start ∨ r.step ≤ 0 ∨ r.start.tmod 1000 ≠ 0 ∨ r.stop.tmod 1000 ≠ 0 ∨ r.step.tmod 1000 ≠ 0
    then none else pure r
  | _ => none

/-- what the cache loses before a request: `0` nothing, `1` everything, `2` / `3` the keys with an
    even / odd split-interval index -/
def pLose (t : String) : Option (Key → Bool) :=
  if t = "0" then some fun _ => false
  else if t = "1" then some fun _ => true
  else if t = "2" then some fun k => k.idx % 2 == 0
  else if t = "3" then some fun k => k.idx % 2 == 1
  else none

/-- `<start>:<end>:<step>:<loss>` with steps that are multiples of one minute -/
def pFreshReq (t : String) : Option (Req × (Key → Bool)) :=
  match splitChar ':' t with
  | [a, b, c, f] => do
    let r : Req := ⟨← parseInt? a, ← parseInt? b, ← parseInt? c⟩
    let fl ← pLose f
    if r.start < 0 ∨ r.stop < r.start ∨ r.step ≤ 0 ∨ r.start.tmod 1000 ≠ 0 ∨ r.stop.tmod 1000 ≠ 0 ∨ r.step.tmod 60000 ≠ 0
    then none else pure (r, fl)
  | _ => none

/-- the harness's downstream: present inside one of the intervals, value `((t/1000)·(id+1) + id) mod 997` -/
def mkDown (data : List (Nat × List (Int × Int))) : Down :=
  { ids := sortLt (fun a b => a < b) (data.map (·.1)),
    f := fun id t =>
      match data.find? (·.1 = id) with
      | some (_, ivs) =>
        if ivs.any (fun iv => iv.1 ≤ t && t ≤ iv.2) then some (((t.tdiv 1000) * ((id : Int) + 1) + id).tmod 997) else none
      | none => none }

/-- one request through the chain, also listing the downstream calls (sorted: the real ones run
    in parallel) -/
def traceReq (cfg : Cfg) (env : Env) (D : Down) (align : Bool) (splitMs : Int) (c : Cache) (req : Req) : List Req :=
  if req.step = 0 then [] else
  let (s, e) := if align then (req.start.tdiv req.step * req.step, req.stop.tdiv req.step * req.step)
                else (req.start, req.stop)
  match Split.split s e req.step splitMs with
  | .ok parts =>
    (parts.foldl (fun (acc : List Req × Cache) p =>
      let r : Req := ⟨p.1, p.2, req.step⟩
      (acc.1 ++ downReqs cfg env splitMs acc.2 r, (doReq cfg env D splitMs acc.2 r).2)) ([], c)).1
  | _ => []

def reqLt (a b : Req) : Bool :=
  a.start < b.start || (a.start == b.start && (a.stop < b.stop || (a.stop == b.stop && a.step < b.step)))

def showCalls (rs : List Req) : String :=
  joinWith "," ((sortLt reqLt rs).map fun r => s!"{r.start}-{r.stop}-{r.step}")

/-- responses and downstream calls of a history -/
def traceHistory (cfg : Cfg) (D : Down) (align : Bool) (splitMs : Int) : Cache → List Step → List String
  | _, [] => []
  | c, s :: rs =>
    let c0 := evict s.lose c
    match frontend cfg s.env D align splitMs c0 s.req with
    | some (m, c') =>
      (joinWith ";" (m.map fun st => s!"{st.1}:" ++ joinWith "," (st.2.map fun x => s!"{x.t}={x.v}")) ++ "#" ++
        showCalls (traceReq cfg s.env D align splitMs c0 s.req)) :: traceHistory cfg D align splitMs c' rs
    | none => "err" :: traceHistory cfg D align splitMs c0 rs

def showMatrix (m : Matrix) : String :=
  joinWith ";" (m.map fun s => s!"{s.1}:" ++ joinWith "," (s.2.map fun x => s!"{x.t}={x.v}"))

def handleC42 : List String → String
  | ["cache.hist", al, sp, data, reqs] =>
    match pBool al, parseInt? sp, (listOf ';' data).mapM pSeriesData, (listOf ',' reqs).mapM pReq with
    | some align, some splitMs, some data, some reqs =>
      if splitMs ≤ 0 ∨ splitMs.tmod 1000 ≠ 0 ∨ reqs.isEmpty ∨ (data.map (·.1)).eraseDups.length ≠ data.length then "bad-op" else
      "|".intercalate (traceHistory liveCfg (mkDown data) align splitMs [] (reqs.map fun r => ⟨Env.far, fun _ => false, r⟩))
    | _, _, _, _ => "bad-op"
  | ["cache.fresh", b, sp, poison, data, reqs] =>
    let pz : Option (Option Int) := if poison = "-" then some none else (parseInt? poison).map some
    match parseInt? b, parseInt? sp, pz, (listOf ';' data).mapM pSeriesData, (listOf ',' reqs).mapM pFreshReq with
    | some B, some splitMs, some pz, some data, some reqs =>
      let badP : Bool := match pz with | some p => decide (p < 0) | none => false
      if B ≤ 0 ∨ B.tmod 60000 ≠ 0 ∨ splitMs ≤ 0 ∨ splitMs.tmod 1000 ≠ 0 ∨ reqs.isEmpty ∨
         (data.map (·.1)).eraseDups.length ≠ data.length ∨ badP = true then "bad-op" else
      let env : Env := ⟨B + 30000, fun r => match pz with | some p => r.start ≤ p && p ≤ r.stop | none => false⟩
      "|".intercalate (traceHistory liveCfg (mkDown data) true splitMs [] (reqs.map fun (r, fl) => ⟨env, fl, r⟩))
    | _, _, _, _, _ => "bad-op"
  | _ => "bad-op"

end C42

/-! ### C44 -/
section C44
open Sharding

def pS (t : String) : Option String := hexString? t

def pSList (t : String) : Option (List String) :=
  (listOf ',' t).mapM fun e => if e = "_" then some "" else pS e

/-- prefix-form expression parser; `fuel` bounds the recursion (tokens are consumed) -/
def pExpr : Nat → List String → Option (Expr × List String)
  | 0, _ => none
  | fuel + 1, toks =>
    match toks with
    | "sel" :: t :: rest => do pure (.sel (← pS t), rest)
    | "num" :: t :: rest => do pure (.num (← pS t), rest)
    | "str" :: t :: rest => do pure (.str (← pS t), rest)
    | "mat" :: t :: r :: rest => do pure (.mat (← pS t) (← pS r), rest)
    | "par" :: rest => do
      let (e, rest) ← pExpr fuel rest
      pure (.par e, rest)
    | "sub" :: rest => do
      let (e, rest) ← pExpr fuel rest
      match rest with
      | r :: rest => pure (.sub e (← pS r), rest)
      | [] => none
    | "agg" :: op :: mode :: labels :: np :: rest => do
      let op ← pS op
      let mode ← (if mode = "by" then some Mode.by_ else if mode = "without" then some Mode.without
                  else if mode = "none" then some Mode.none else none)
      let labels ← pSList labels
      if np = "1" then
        let (p, rest) ← pExpr fuel rest
        let (e, rest) ← pExpr fuel rest
        pure (.agg op mode labels (some p) e, rest)
      else if np = "0" then
        let (e, rest) ← pExpr fuel rest
        pure (.agg op mode labels none e, rest)
      else none
    | "bin" :: op :: m :: labels :: card :: incl :: bm :: rest => do
      let op ← pS op
      let m ← (if m = "on" then some Match.on else if m = "ignoring" then some Match.ignoring
               else if m = "none" then some Match.none else none)
      let labels ← pSList labels
      let _ ← pSList incl
      let _ ← pBool bm
      if card ≠ "none" ∧ card ≠ "left" ∧ card ≠ "right" then none else
      let (l, rest) ← pExpr fuel rest
      let (r, rest) ← pExpr fuel rest
      pure (.bin op m labels l r, rest)
    | "call" :: name :: na :: rest => do
      let name ← pS name
      let na ← parseNat? na
      if na > 6 then none else
      let (args, rest) ← pArgs fuel na rest
      pure (.call name args, rest)
    | _ => none
where
  pArgs (fuel : Nat) : Nat → List String → Option (List Expr × List String)
    | 0, rest => some ([], rest)
    | n + 1, rest => do
      let (e, rest) ← pExpr fuel rest
      let (es, rest) ← pArgs fuel n rest
      pure (e :: es, rest)

def sortStrings (l : List String) : List String :=
  ResultsCache.sortLt (fun a b => a < b) l

def showAnalysis (a : Analysis) : String :=
  if !isShardable a then "none" else
  let ls := (sortStrings (a.labels.getD [])).eraseDups
  (if a.by_ then "by:" else "without:") ++
    joinWith "," (ls.map fun l => if l = "" then "_" else hexEncode l.toUTF8.toList)

def pLset (t : String) : Option Labels :=
  (listOf ',' t).mapM fun kv =>
    match splitChar '=' kv with
    | [k, v] => do pure (← pS k, ← pS v)
    | _ => none

def handleC44 : List String → String
  | "shard.analyze" :: rest =>
    match pExpr (rest.length + 1) rest with
    | some (e, []) => showAnalysis (analyze e)
    | _ => "bad-op"
  | ["shard.match", total, by_, sl, series, hash] =>
    match parseNat? total, pBool by_, pSList sl, pLset series, parseNat? hash with
    | some total, some by_, some sl, some ls, some h =>
      if total < 1 ∨ total > 64 then "bad-op" else
      -- the series' labels are sorted by name on the Go side (labels.Labels); the hash of the projection is given
      joinWith "," (((shardIndices total).filter fun i => shardMatches (fun _ => h) total i sl by_ ls).map toString)
    | _, _, _, _, _ => "bad-op"
  | _ => "bad-op"

end C44

def handle3 (op a c d : String) : String :=
  if op = "split.nib" then
    match parseInt? a, parseInt? c, parseInt? d with
    | some t, some step, some iv =>
      match Split.nib t step iv with
      | some e => toString e
      | none => "panic"
    | _, _, _ => "bad-op"
  else if op = "split.align" then
    match parseInt? a, parseInt? c, parseInt? d with
    | some start, some stop, some step =>
      match Split.stepAlign start stop step with
      | some (s, e) => s!"{s} {e}"
      | none => "panic"
    | _, _, _ => "bad-op"
  else "bad-op"

def handle : List String → String
  | "cache.hist" :: rest => handleC42 ("cache.hist" :: rest)
  | "cache.fresh" :: rest => handleC42 ("cache.fresh" :: rest)
  | "shard.analyze" :: rest => handleC44 ("shard.analyze" :: rest)
  | "shard.match" :: rest => handleC44 ("shard.match" :: rest)
  | ["split.range", a, b, c, d] =>
    match parseInt? a, parseInt? b, parseInt? c, parseInt? d with
    | some start, some stop, some step, some iv =>
      -- protocol domain: negative steps/intervals are not compared (the Go loop need not terminate)
      if step < 0 ∨ iv < 0 then "bad-op" else showSplit (Split.split start stop step iv)
    | _, _, _, _ => "bad-op"
  | [op, a, b, d] =>
    if op = "split.labels" ∨ op = "split.series" then
      match parseInt? a, parseInt? b, parseInt? d with
      | some start, some stop, some dur =>
        if dur ≤ 0 then "bad-op" else showSplit (Split.splitLabels true start stop dur)
      | _, _, _ => "bad-op"
    else handle3 op a b d
  | l => handleC43 l

end Thanos.Driver.Frontend
