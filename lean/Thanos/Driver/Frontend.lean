import Thanos.Common.Parse
/-
  Line-protocol driver of the `frontend` family (C41 C42 C43 C44).
  One request per line, one answer per line; every line is self-contained.
-/
open Thanos Thanos.Parse

namespace Thanos.Driver.Frontend

def handle : List String → String
  | _ => "bad-op"

end Thanos.Driver.Frontend
