import Thanos.Driver.Stores
-- executable root of `model_stores` (kept apart so that the library can import every driver)
def main : IO Unit := Thanos.Parse.runDriver Thanos.Driver.Stores.handle
