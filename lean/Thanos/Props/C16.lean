import Thanos.Model.LazyReader
import Thanos.Generated.Facts
/-
  C16 — Lazy index headers stay correct under concurrent idle unloading.
-/
namespace Thanos.LazyReader

/-- C16 at full strength for the model: whatever threads there are (any number of readers,
    unloaders, probes) and whatever the schedule is, no call dereferences a nil reader, uses a
    closed header, or hands out an answer that is read after its header was closed. -/
def C16_full (recheckNil alias : Bool) : Prop :=
  ∀ (kinds : List Kind) (schedule : List Nat), (run recheckNil alias (init kinds) schedule).bad = false

/-- F16: while LabelValues returned strings that point into the mmapped header, one reader and
    one unloader suffice: the reader loads, answers and releases the read lock; the unloader
    closes the header; the caller then reads its answer. -/
theorem C16_alias_false : ¬ C16_full true true := by
  intro h
  have := h [.reader, .unloader true] [0, 0, 0, 0, 0, 0, 0, 0, 0, 1, 1, 1, 0]
  revert this
  decide

/-- without the re-check of `r.reader == nil` in `load`, an unload between the write unlock and
    the second read lock makes the caller dereference a nil reader -/
theorem C16_norecheck_false : ¬ C16_full false false := by
  intro h
  have := h [.reader, .unloader true] [0, 0, 0, 0, 0, 1, 1, 1, 0, 0, 0]
  revert this
  decide

end Thanos.LazyReader
