import Thanos.Model.LazyReader
import Thanos.Lemmas.LazyReader
import Thanos.Generated.Facts
/-
  C16 — Lazy index headers stay correct under concurrent idle unloading.

  The theorems quantify over every number and mix of threads (readers calling Reader methods,
  unloaders = unloadIfIdleSince / Close / the pool's closeIdleReaders, idle probes) and over every
  schedule (list of thread ids) of the lock skeleton of lazy_binary_reader.go.  The skeleton is the
  one the extractor finds in the source (facts below).
-/
namespace Thanos.LazyReader

/-- C16 at full strength for the model: whatever threads there are and whatever the schedule is,
    no call dereferences a nil reader, uses a closed header, or hands out an answer that is read
    after its header was closed.  A call ends with an answer of a header that was loaded and open
    during the whole call, or with the clean error errUnloadedWhileLoading. -/
def C16_full (recheckNil alias : Bool) : Prop :=
  ∀ (kinds : List Kind) (schedule : List Nat), (run recheckNil alias (init kinds) schedule).bad = false

/-- The code as it is now (load re-checks `r.reader == nil`; every answer is a value or a copy):
    holds for all thread sets and all schedules. -/
theorem C16_no_use_after_close : C16_full true false :=
  fun kinds schedule => (inv_run (inv_init kinds) schedule).bad

/-- reader/writer exclusion of the modelled RWMutex in every reachable state: the holder of the
    write lock (a loading reader or an unloader) is the only lock holder -/
theorem C16_rw_excl (kinds : List Kind) (schedule : List Nat) (i j : Nat) (ti tj : Thread)
    (hi : (run true false (init kinds) schedule).threads[i]? = some ti)
    (hj : (run true false (init kinds) schedule).threads[j]? = some tj) (hij : i ≠ j)
    (hw : holdsW ti.pc = true) : holdsW tj.pc = false ∧ holdsR tj.pc = false :=
  (inv_run (inv_init kinds) schedule).excl i j ti tj hi hj hij hw

/-- in every reachable state the loaded reader is not closed, and a thread inside
    `r.reader.X()` is using exactly the loaded reader -/
theorem C16_using_loaded (kinds : List Kind) (schedule : List Nat) (i : Nat) (t : Thread) (g : Nat)
    (hi : (run true false (init kinds) schedule).threads[i]? = some t) (hu : t.pc = .inUse g) :
    (run true false (init kinds) schedule).reader = some g ∧
    (run true false (init kinds) schedule).closed.contains g = false := by
  have hI := inv_run (inv_init kinds) schedule
  have hr := (hI.known i t hi).2.1 g hu
  exact ⟨hr, hI.shared.open_ g hr⟩

/-- F16: while LabelValues returned strings that point into the mmapped header, one reader and
    one unloader suffice: the reader loads, answers and releases the read lock; the unloader
    closes the header; the caller then reads its answer. -/
theorem C16_alias_false : ¬ C16_full true true := by
  intro h
  have := h [.reader, .unloader true] [0, 0, 0, 0, 0, 0, 0, 0, 0, 1, 1, 1, 0]
  revert this
  decide

/-- without the re-check of `r.reader == nil` in `load`, an unload between the write unlock and
    the second read lock makes the caller dereference a nil reader -/
theorem C16_norecheck_false : ¬ C16_full false false := by
  intro h
  have := h [.reader, .unloader true] [0, 0, 0, 0, 0, 1, 1, 1, 0, 0, 0]
  revert this
  decide

/-! ### regenerated facts: the lock skeleton in the source is the one modelled -/

/-- every Reader method: RLock, deferred RUnlock, load(), then the call on r.reader
    (PCs idle → rl1 → … → fast → inUse → idle) -/
theorem C16_method_skeleton_fact :
    Thanos.Facts.lazyMethodSkeletons =
      ["IndexVersion: RLock defer( RUnlock ) load use",
       "PostingsOffsets: RLock defer( RUnlock ) load use",
       "PostingsOffset: RLock defer( RUnlock ) load use",
       "LookupSymbol: RLock defer( RUnlock ) load use",
       "LabelValues: RLock defer( RUnlock ) load use",
       "LabelNames: RLock defer( RUnlock ) load use"] := by decide

/-- load(): first test (rl1), RUnlock (→ wantW), Lock (→ w), [deferred: Unlock (→ wantR2), RLock
    (→ recheck), the nil re-check], second test, NewBinaryReader, assignment (w → wDone) -/
theorem C16_load_skeleton_fact :
    Thanos.Facts.lazyLoadSkeleton =
      ["if(r.reader != nil)", "RUnlock", "Lock", "defer(", "Unlock", "RLock",
       "if(returnErr == nil && r.reader == nil)", ")", "if(r.reader != nil)", "NewBinaryReader",
       "reader=reader"] := by decide

/-- unloadIfIdleSince(): Lock (→ uW), deferred Unlock, nil test, Close, `r.reader = nil` (→ uDone) -/
theorem C16_unload_skeleton_fact :
    Thanos.Facts.lazyUnloadSkeleton =
      ["Lock", "defer(", "Unlock", ")", "if(r.reader == nil)", "Close", "reader=nil"] ∧
    Thanos.Facts.lazyIsIdleSkeleton = ["RLock", "RUnlock"] := by decide

/-- the one method whose BinaryReader result points into the mmapped header (LabelValues) does
    not hand that result out as it is (it returns copies): `alias = false` is the code -/
theorem C16_no_alias_fact :
    "LabelValues" ∉ Thanos.Facts.lazyDirectReturns ∧
    Thanos.Facts.lazyLabelValuesReturns = ["nil", "nil", "copyStrings(values)"] := by decide

/-! ### non-vacuity: the schedules of the theorems really reach the interesting states -/

-- a reader is unloaded between its write unlock and its second read lock: clean error, no use
example : (run true false (init [.reader, .unloader true]) [0, 0, 0, 0, 0, 1, 1, 1, 0, 0, 0, 0]).log
    = [(1, .unloaded 0), (0, .errUnloaded)] := by decide
-- an unloader is blocked while a reader holds the read lock, the reader answers
example : (run true false (init [.reader, .unloader true]) [0, 0, 0, 0, 0, 0, 1, 1, 1, 0, 0, 0]).log
    = [(0, .ok 0)] := by decide
-- reload after unload gives a new generation
example : (run true false (init [.reader, .unloader true])
    [0, 0, 0, 0, 0, 0, 0, 0, 0, 1, 1, 1, 0, 0, 0, 0, 0, 0, 0, 0, 0]).log
    = [(0, .ok 0), (1, .unloaded 0), (0, .ok 1)] := by decide

end Thanos.LazyReader
