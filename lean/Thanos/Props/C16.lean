import Thanos.Model.LazyReader
import Thanos.Lemmas.LazyReader
import Thanos.Lemmas.ReaderPool
import Thanos.Generated.Facts
/-
  C16 — Lazy index headers stay correct under concurrent idle unloading.

  The theorems quantify over every number and mix of threads (readers calling Reader methods,
  unloaders = unloadIfIdleSince / Close / the pool's closeIdleReaders, idle probes) and over every
  schedule (list of thread ids) of the lock skeleton of lazy_binary_reader.go.  The skeleton is the
  one the extractor finds in the source (facts below).
-/
namespace Thanos.LazyReader

/-- C16 at full strength for the model: whatever threads there are and whatever the schedule is,
    no call dereferences a nil reader, uses a closed header, or hands out an answer that is read
    after its header was closed.  A call ends with an answer of a header that was loaded and open
    during the whole call, or with the clean error errUnloadedWhileLoading. -/
def C16_full (recheckNil alias : Bool) : Prop :=
  ∀ (kinds : List Kind) (schedule : List Nat), (run recheckNil alias (init kinds) schedule).bad = false

/-- The code as it is now (load re-checks `r.reader == nil`; every answer is a value or a copy):
    holds for all thread sets and all schedules. -/
theorem C16_no_use_after_close : C16_full true false :=
  fun kinds schedule => (inv_run (inv_init kinds) schedule).bad

/-- reader/writer exclusion of the modelled RWMutex in every reachable state: the holder of the
    write lock (a loading reader or an unloader) is the only lock holder -/
theorem C16_rw_excl (kinds : List Kind) (schedule : List Nat) (i j : Nat) (ti tj : Thread)
    (hi : (run true false (init kinds) schedule).threads[i]? = some ti)
    (hj : (run true false (init kinds) schedule).threads[j]? = some tj) (hij : i ≠ j)
    (hw : holdsW ti.pc = true) : holdsW tj.pc = false ∧ holdsR tj.pc = false :=
  (inv_run (inv_init kinds) schedule).excl i j ti tj hi hj hij hw

/-- in every reachable state the loaded reader is not closed, and a thread inside
    `r.reader.X()` is using exactly the loaded reader -/
theorem C16_using_loaded (kinds : List Kind) (schedule : List Nat) (i : Nat) (t : Thread) (g : Nat)
    (hi : (run true false (init kinds) schedule).threads[i]? = some t) (hu : t.pc = .inUse g) :
    (run true false (init kinds) schedule).reader = some g ∧
    (run true false (init kinds) schedule).closed.contains g = false := by
  have hI := inv_run (inv_init kinds) schedule
  have hr := (hI.known i t hi).2.1 g hu
  exact ⟨hr, hI.shared.open_ g hr⟩

/-- F16: while LabelValues returned strings that point into the mmapped header, one reader and
    one unloader suffice: the reader loads, answers and releases the read lock; the unloader
    closes the header; the caller then reads its answer. -/
theorem C16_alias_false : ¬ C16_full true true := by
  intro h
  have := h [.reader, .unloader true] [0, 0, 0, 0, 0, 0, 0, 0, 0, 1, 1, 1, 0]
  revert this
  decide

/-- without the re-check of `r.reader == nil` in `load`, an unload between the write unlock and
    the second read lock makes the caller dereference a nil reader -/
theorem C16_norecheck_false : ¬ C16_full false false := by
  intro h
  have := h [.reader, .unloader true] [0, 0, 0, 0, 0, 1, 1, 1, 0, 0, 0]
  revert this
  decide

/-! ### load errors -/

/-- C16 with failing loads: whichever attempts of NewBinaryReader fail, whatever the threads and
    the schedule — nothing is dereferenced that is nil or closed; after a failed load there is no
    reader at all (no half-initialised reader is installed); and a thread that got past `load()`
    holds a loaded reader, so no call proceeds on a failed load: it ends with the load error. -/
theorem C16_load_errors (kinds : List Kind) (failAt : List Nat) (schedule : List Nat) :
    (run true false (initF kinds failAt) schedule).bad = false ∧
    ((run true false (initF kinds failAt) schedule).readerErr = true →
      (run true false (initF kinds failAt) schedule).reader = none) ∧
    ∀ (i : Nat) (t : Thread), (run true false (initF kinds failAt) schedule).threads[i]? = some t →
      (t.pc = .fast ∨ ∃ g, t.pc = .inUse g) →
      (run true false (initF kinds failAt) schedule).reader.isSome = true ∧
      (run true false (initF kinds failAt) schedule).readerErr = false := by
  have hI := inv_run (inv_initF kinds failAt) schedule
  refine ⟨hI.bad, hI.shared.errNil, ?_⟩
  intro i t hi hpc
  have hk := hI.known i t hi
  have hsome : (run true false (initF kinds failAt) schedule).reader.isSome = true := by
    rcases hpc with h | ⟨g, h⟩
    · exact hk.1 h
    · rw [hk.2.1 g h]; rfl
  refine ⟨hsome, ?_⟩
  cases he : (run true false (initF kinds failAt) schedule).readerErr with
  | false => rfl
  | true => rw [hI.shared.errNil he] at hsome; cases hsome

/-- a failed load is final: from a reachable state with `readerErr` set, whatever happens next,
    the error stays, NewBinaryReader is never attempted again (load counters frozen) and no reader
    appears — every later call is answered with the stored error -/
theorem C16_load_error_sticky (kinds : List Kind) (failAt : List Nat) (before after : List Nat)
    (h : (run true false (initF kinds failAt) before).readerErr = true) :
    (run true false (run true false (initF kinds failAt) before) after).readerErr = true ∧
    (run true false (run true false (initF kinds failAt) before) after).loads =
      (run true false (initF kinds failAt) before).loads ∧
    (run true false (run true false (initF kinds failAt) before) after).loadFails =
      (run true false (initF kinds failAt) before).loadFails ∧
    (run true false (run true false (initF kinds failAt) before) after).reader = none := by
  have hs := err_sticky_run true false after _ h
  have hI := inv_run (inv_run (inv_initF kinds failAt) before) after
  exact ⟨hs.1, hs.2.1, hs.2.2, hI.shared.errNil hs.1⟩

-- the first load fails: the loading call and the next one both end with the load error; one attempt
example : ((run true false (initF [.reader] [0]) [0, 0, 0, 0, 0, 0, 0, 0, 0]).log,
           (run true false (initF [.reader] [0]) [0, 0, 0, 0, 0, 0, 0, 0, 0]).loads,
           (run true false (initF [.reader] [0]) [0, 0, 0, 0, 0, 0, 0, 0, 0]).loadFails)
    = ([(0, .loadErr), (0, .loadErr)], 1, 1) := by decide
-- load, unload, then the reload (attempt 1) fails while a second reader waits for the write lock
example : (run true false (initF [.reader, .unloader true, .reader] [1])
    [0, 0, 0, 0, 0, 0, 0, 0, 0, 1, 1, 1, 0, 2, 0, 2, 0, 0, 0, 0, 0, 2, 2, 2, 2, 2]).log
    = [(0, .ok 0), (1, .unloaded 0), (0, .loadErr), (2, .loadErr)] := by decide

/-! ### the pool's set of tracked readers -/

open Thanos.ReaderPool in
/-- bookkeeping of ReaderPool.lazyReaders for every sequence of NewBinaryReader / Reader calls /
    Close / closeIdleReaders: the map has no duplicates and only holds readers the pool handed
    out; a reader is removed at most once (`removals` has no duplicates), a removed reader is not
    in the map, and — when the pool sweeps — every reader is either tracked or was removed:
    removed exactly once, by its Close. -/
theorem C16_pool_bookkeeping (tracking : Bool) (ops : List ReaderPool.Op) :
    ReaderPool.PInv (ReaderPool.run (ReaderPool.init tracking) ops) :=
  ReaderPool.pinv_run (ReaderPool.pinv_init tracking) ops

/-- Close removes the reader from the map, and it never comes back: after the Close of a reader
    the pool handed out, whatever happens next (further calls on it, which reload it; sweeps;
    other readers created and closed; a second Close), the map does not hold it -/
theorem C16_pool_close_final (tracking : Bool) (before after : List ReaderPool.Op) (i : Nat)
    (hex : i < (ReaderPool.run (ReaderPool.init tracking) before).readers.length) :
    i ∉ (ReaderPool.run (ReaderPool.step (ReaderPool.run (ReaderPool.init tracking) before) (.close i)) after).tracked := by
  cases tracking with
  | false =>
    have h0 := C16_pool_bookkeeping false before
    have h2 := ReaderPool.pinv_run (ReaderPool.pinv_step h0 (.close i)) after
    have := h2.off (by rw [ReaderPool.tracking_run, ReaderPool.tracking_step, ReaderPool.tracking_run]; rfl)
    rw [this.1]; simp
  | true =>
    have h0 := C16_pool_bookkeeping true before
    have h2 := ReaderPool.pinv_run (ReaderPool.pinv_step h0 (.close i)) after
    have hrec := ReaderPool.close_recorded h0 (by rw [ReaderPool.tracking_run]; rfl) i hex
    exact h2.disjoint i (ReaderPool.removals_mono_run after _ i hrec)

/-- closeIdleReaders removes nothing from the map; it unloads exactly the tracked readers that are
    loaded and were not used within the idle timeout — a reader used recently stays loaded, and a
    reader the pool no longer tracks (closed by its consumer, then used again against the contract)
    is never unloaded by a sweep -/
theorem C16_pool_sweep (p : ReaderPool.Pool) :
    (ReaderPool.step p .sweep).tracked = p.tracked ∧ (ReaderPool.step p .sweep).removals = p.removals ∧
    ∀ k r, p.readers[k]? = some r →
      (ReaderPool.step p .sweep).readers[k]? =
        some (if ReaderPool.idle p k r then { r with loaded := false } else r) := by
  refine ⟨rfl, rfl, ?_⟩
  intro k r hk
  have := ReaderPool.sweepFrom_get p 0 p.readers k r hk
  simpa [ReaderPool.step] using this

-- create two readers, use both, one ages, sweep: only the aged one is unloaded; both stay tracked;
-- closing the first removes it once, a second Close changes nothing
example : (ReaderPool.run (ReaderPool.init true) [.new, .new, .use 0, .use 1, .age 1, .sweep]).readers
    = [⟨true, true⟩, ⟨false, false⟩] := by decide
example : (ReaderPool.run (ReaderPool.init true) [.new, .new, .use 0, .use 1, .age 1, .sweep, .close 0, .close 0]).tracked
    = [1] := by decide
example : (ReaderPool.run (ReaderPool.init true) [.new, .new, .use 0, .close 0, .close 0, .use 0, .age 0, .sweep]).removals
    = [0] := by decide
-- a closed reader that is used again is reloaded and then never swept (documented contract: do not)
example : (ReaderPool.run (ReaderPool.init true) [.new, .close 0, .use 0, .age 0, .sweep]).readers
    = [⟨true, false⟩] := by decide

/-! ### regenerated facts: the lock skeleton in the source is the one modelled -/

/-- every Reader method: RLock, deferred RUnlock, load(), then the call on r.reader
    (PCs idle → rl1 → … → fast → inUse → idle) -/
theorem C16_method_skeleton_fact :
    Thanos.Facts.lazyMethodSkeletons =
      ["IndexVersion: RLock defer( RUnlock ) load use",
       "PostingsOffsets: RLock defer( RUnlock ) load use",
       "PostingsOffset: RLock defer( RUnlock ) load use",
       "LookupSymbol: RLock defer( RUnlock ) load use",
       "LabelValues: RLock defer( RUnlock ) load use",
       "LabelNames: RLock defer( RUnlock ) load use"] := by decide

/-- load(): first test (rl1), RUnlock (→ wantW), Lock (→ w), [deferred: Unlock (→ wantR2), RLock
    (→ recheck), the nil re-check], second test, NewBinaryReader, assignment (w → wDone) -/
theorem C16_load_skeleton_fact :
    Thanos.Facts.lazyLoadSkeleton =
      ["if(r.reader != nil)", "RUnlock", "Lock", "defer(", "Unlock", "RLock",
       "if(returnErr == nil && r.reader == nil)", ")", "if(r.reader != nil)", "NewBinaryReader",
       "reader=reader"] := by decide

/-- unloadIfIdleSince(): Lock (→ uW), deferred Unlock, nil test, Close, `r.reader = nil` (→ uDone) -/
theorem C16_unload_skeleton_fact :
    Thanos.Facts.lazyUnloadSkeleton =
      ["Lock", "defer(", "Unlock", ")", "if(r.reader == nil)", "Close", "reader=nil"] ∧
    Thanos.Facts.lazyIsIdleSkeleton = ["RLock", "RUnlock"] := by decide

/-- the one method whose BinaryReader result points into the mmapped header (LabelValues) does
    not hand that result out as it is (it returns copies): `alias = false` is the code -/
theorem C16_no_alias_fact :
    "LabelValues" ∉ Thanos.Facts.lazyDirectReturns ∧
    Thanos.Facts.lazyLabelValuesReturns = ["nil", "nil", "copyStrings(values)"] := by decide

/-- load(): both tests are made twice (before and under the write lock), a failed NewBinaryReader
    stores the error and installs no reader, a successful one installs the reader -/
theorem C16_load_error_fact :
    Thanos.Facts.lazyLoadStmts =
      ["if:r.reader != nil {", "return nil", "}", "if:r.readerErr != nil {", "return r.readerErr", "}",
       "if:r.reader != nil {", "return nil", "}", "if:r.readerErr != nil {", "return r.readerErr", "}",
       "reader, err := NewBinaryReader(r.ctx, r.logger, r.bkt, r.dir, r.id, r.postingOffsetsInMemSampling, r.binaryReaderMetrics)",
       "if:err != nil {", "r.metrics.loadFailedCount.Inc()", "r.readerErr = err",
       "return errors.Wrapf(err, \"lazy load index-header for block %s\", r.id)", "}",
       "r.reader = reader", "return nil"] := by rfl

/-- the pool: readers are put into the map only when the pool sweeps; the sweep unloads the idle
    ones and deletes nothing; the only delete is onLazyReaderClosed, which Close defers -/
theorem C16_pool_fact :
    Thanos.Facts.poolTrackingStmts =
      ["NewBinaryReader: if:p.lazyReaderEnabled && p.lazyReaderIdleTimeout > 0 {",
       "NewBinaryReader: p.lazyReaders[reader.(*LazyBinaryReader)] = struct{}{}",
       "closeIdleReaders: range:_,r in p.getIdleReadersSince(idleTimeoutAgo) {",
       "closeIdleReaders: if:err := r.unloadIfIdleSince(idleTimeoutAgo); err != nil && !errors.Is(err, errNotIdle) {",
       "getIdleReadersSince: range:r,unknown in p.lazyReaders {",
       "getIdleReadersSince: if:r.isIdleSince(ts) {",
       "onLazyReaderClosed: delete(p.lazyReaders, r)"] ∧
    Thanos.Facts.lazyCloseStmts =
      ["if:r.onClosed != nil {", "defer r.onClosed(r)", "}", "return r.unloadIfIdleSince(0)"] := by decide

/-! ### non-vacuity: the schedules of the theorems really reach the interesting states -/

-- a reader is unloaded between its write unlock and its second read lock: clean error, no use
example : (run true false (init [.reader, .unloader true]) [0, 0, 0, 0, 0, 1, 1, 1, 0, 0, 0, 0]).log
    = [(1, .unloaded 0), (0, .errUnloaded)] := by decide
-- an unloader is blocked while a reader holds the read lock, the reader answers
example : (run true false (init [.reader, .unloader true]) [0, 0, 0, 0, 0, 0, 1, 1, 1, 0, 0, 0]).log
    = [(0, .ok 0)] := by decide
-- reload after unload gives a new generation
example : (run true false (init [.reader, .unloader true])
    [0, 0, 0, 0, 0, 0, 0, 0, 0, 1, 1, 1, 0, 0, 0, 0, 0, 0, 0, 0, 0]).log
    = [(0, .ok 0), (1, .unloaded 0), (0, .ok 1)] := by decide

end Thanos.LazyReader
