import Thanos.Model.AlertQueue
import Thanos.Generated.Facts
/-
  C46 — The alert queue is a bounded FIFO that never loses a wake-up.

  All theorems are invariants of `Reach c`: every state reachable by any interleaving of any
  number of pushers and poppers (the skeleton of Push/Pop: Push atomic under the mutex; Pop =
  channel receive outside the mutex, then the body under it).
-/
namespace Thanos.AlertQueue

variable {α : Type}

theorem pushQueue_length (cap : Nat) (queue kept : List α) (h : queue.length ≤ cap) :
    (pushQueue cap queue kept).length ≤ cap := by
  unfold pushQueue
  generalize ha : (if kept.length > cap then kept.drop (kept.length - cap) else kept) = alerts
  have hal : alerts.length ≤ cap := by
    subst ha
    split
    · simp only [List.length_drop]; omega
    · omega
  simp only [List.length_append]
  split
  · simp only [List.length_drop]; omega
  · omega

/-- a push only ever discards the OLDEST alerts: the new queue is a suffix of old queue ++ kept -/
theorem push_drops_oldest (cap : Nat) (queue kept : List α) :
    ∃ dropped, queue ++ kept = dropped ++ pushQueue cap queue kept := by
  unfold pushQueue
  by_cases h1 : kept.length > cap
  · by_cases h2 : queue.length + (kept.drop (kept.length - cap)).length > cap
    · refine ⟨queue.take (queue.length + (kept.drop (kept.length - cap)).length - cap) ++
        kept.take (kept.length - cap), ?_⟩
      simp only [h1, h2, if_true]
      -- queue = take d2 ++ drop d2; kept = take d1 ++ drop d1; and drop d2 queue = [] here
      have hlen : (kept.drop (kept.length - cap)).length = cap := by simp only [List.length_drop]; omega
      have hd : queue.drop (queue.length + (kept.drop (kept.length - cap)).length - cap) = [] := by
        apply List.drop_eq_nil_of_le; omega
      have ht : queue.take (queue.length + (kept.drop (kept.length - cap)).length - cap) = queue := by
        apply List.take_of_length_le; omega
      rw [hd, ht]
      simp [List.take_append_drop]
    · refine ⟨kept.take (kept.length - cap), ?_⟩
      simp only [h1, h2, if_true, if_false]
      -- queue must be empty here (cap alerts already fill the queue)
      have hlen : (kept.drop (kept.length - cap)).length = cap := by simp only [List.length_drop]; omega
      have hq : queue = [] := by
        apply List.eq_nil_of_length_eq_zero; omega
      subst hq
      simp [List.take_append_drop]
  · by_cases h2 : queue.length + kept.length > cap
    · refine ⟨queue.take (queue.length + kept.length - cap), ?_⟩
      simp only [h1, h2, if_true, if_false]
      rw [← List.append_assoc, List.take_append_drop]
    · exact ⟨[], by simp [h1, h2]⟩

/-- the invariant carried through every interleaving -/
structure Inv (c : Cfg) (s : State α) : Prop where
  cap : s.queue.length ≤ c.cap
  wake : s.queue ≠ [] → s.token = true ∨ 0 < s.holding
  fifo : ∃ pre, s.hist = pre ++ s.queue ∧ s.out.Sublist pre

theorem inv_init (c : Cfg) : Inv c (init : State α) :=
  ⟨by simp [init], by simp [init], ⟨[], by simp [init], by simp [init]⟩⟩

theorem inv_push (c : Cfg) (s : State α) (kept : List α) (h : Inv c s) : Inv c (push c s kept) := by
  unfold push
  by_cases he : kept.isEmpty
  · simpa [he] using h
  · simp only [he, Bool.false_eq_true, if_false]
    refine ⟨pushQueue_length c.cap s.queue kept h.cap, fun _ => Or.inl rfl, ?_⟩
    obtain ⟨pre, hh, hs⟩ := h.fifo
    obtain ⟨dropped, hd⟩ := push_drops_oldest c.cap s.queue kept
    refine ⟨pre ++ dropped, ?_, hs.trans (List.sublist_append_left pre dropped)⟩
    simp only
    rw [hh, List.append_assoc, hd, List.append_assoc]

theorem inv_take (c : Cfg) (s s' : State α) (h : Inv c s) (ht : take s = some s') : Inv c s' := by
  unfold take at ht
  by_cases hk : s.token
  · simp only [hk, if_true, Option.some.injEq] at ht
    subst ht
    exact ⟨h.cap, fun _ => Or.inr (Nat.succ_pos _), h.fifo⟩
  · simp [hk] at ht

theorem inv_pop (c : Cfg) (s s' : State α) (b : List α) (h : Inv c s) (hp : pop c s = some (b, s')) :
    Inv c s' := by
  unfold pop at hp
  by_cases hh : s.holding = 0
  · simp [hh] at hp
  · simp only [hh, if_false, Option.some.injEq, Prod.mk.injEq] at hp
    obtain ⟨rfl, rfl⟩ := hp
    refine ⟨?_, ?_, ?_⟩
    · simp only [List.length_drop]
      have := h.cap
      omega
    · intro hne
      left
      simp only
      have : (List.drop c.maxBatch s.queue).isEmpty = false := by
        cases hd : List.drop c.maxBatch s.queue with
        | nil => exact absurd hd hne
        | cons _ _ => rfl
      simp [this]
    · obtain ⟨pre, hh', hs⟩ := h.fifo
      refine ⟨pre ++ s.queue.take c.maxBatch, ?_, List.Sublist.append hs (List.Sublist.refl _)⟩
      simp only
      rw [hh', List.append_assoc, List.take_append_drop]

theorem inv_reach (c : Cfg) (s : State α) (h : Reach c s) : Inv c s := by
  induction h with
  | init => exact inv_init c
  | push kept _ ih => exact inv_push c _ kept ih
  | take _ ht ih => exact inv_take c _ _ ih ht
  | pop _ hp ih => exact inv_pop c _ _ _ ih hp

/-- **bounded**: in every reachable state the queue holds at most `capacity` alerts -/
theorem C46_cap (c : Cfg) (s : State α) (h : Reach c s) : s.queue.length ≤ c.cap := (inv_reach c s h).cap

/-- **batches**: every batch a pop body returns has at most `maxBatchSize` alerts -/
theorem C46_batch (c : Cfg) (s s' : State α) (b : List α) (hp : pop c s = some (b, s')) :
    b.length ≤ c.maxBatch := by
  unfold pop at hp
  by_cases hh : s.holding = 0
  · simp [hh] at hp
  · simp only [hh, if_false, Option.some.injEq, Prod.mk.injEq] at hp
    obtain ⟨rfl, _⟩ := hp
    simp only [List.length_take]
    omega

/-- **FIFO**: the queue is always the tail end of everything pushed (and kept by relabelling), and
    the alerts popped so far are, in order, a subsequence of what came before that tail — so
    alerts leave in push order, nothing is duplicated or invented, and whatever is missing was cut
    off at the old end (`push_drops_oldest`). -/
theorem C46_fifo (c : Cfg) (s : State α) (h : Reach c s) :
    ∃ pre, s.hist = pre ++ s.queue ∧ s.out.Sublist pre := (inv_reach c s h).fifo

/-- **no lost wake-up**: whenever alerts are queued, the channel holds a token or some popper has
    received one and is on its way to the pop body — so a popper waiting on the channel is always
    served while alerts are queued; it can never sleep on a non-empty queue with nobody coming. -/
theorem C46_wakeup (c : Cfg) (s : State α) (h : Reach c s) (hne : s.queue ≠ []) :
    s.token = true ∨ 0 < s.holding := (inv_reach c s h).wake hne

/-- … and a popper that finds its way to the body with alerts still left afterwards re-arms the
    token itself (the `if len(q.queue) > 0` send of Pop). -/
theorem C46_rearm (c : Cfg) (s s' : State α) (b : List α) (hp : pop c s = some (b, s')) (hne : s'.queue ≠ []) :
    s'.token = true := by
  unfold pop at hp
  by_cases hh : s.holding = 0
  · simp [hh] at hp
  · simp only [hh, if_false, Option.some.injEq, Prod.mk.injEq] at hp
    obtain ⟨_, rfl⟩ := hp
    simp only at hne ⊢
    have : (List.drop c.maxBatch s.queue).isEmpty = false := by
      cases hd : List.drop c.maxBatch s.queue with
      | nil => exact absurd hd hne
      | cons _ _ => rfl
    simp [this]

/-- **no loss below capacity**: a push that fits (queue + kept ≤ capacity) appends all kept alerts and
    drops nothing — truncation happens only on overflow (`push_drops_oldest`). -/
theorem C46_no_drop_under_cap (c : Cfg) (s : State α) (kept : List α)
    (h : s.queue.length + kept.length ≤ c.cap) : (push c s kept).queue = s.queue ++ kept := by
  unfold push pushQueue
  by_cases he : kept.isEmpty
  · simp at he; simp [he]
  · have h1 : ¬ kept.length > c.cap := by omega
    have h2 : ¬ s.queue.length + kept.length > c.cap := by omega
    have he' : kept ≠ [] := by simpa using he
    simp [h1, h2, he']

/-- **pop conserves**: a pop body moves exactly its batch — the front of the queue — to the output;
    popped ++ queued is unchanged, so `Pop` itself never loses, duplicates or reorders an alert. -/
theorem C46_pop_conserves (c : Cfg) (s s' : State α) (b : List α) (hp : pop c s = some (b, s')) :
    s'.out ++ s'.queue = s.out ++ s.queue ∧ s'.out = s.out ++ b ∧ s.queue = b ++ s'.queue ∧ s'.hist = s.hist := by
  unfold pop at hp
  by_cases hh : s.holding = 0
  · simp [hh] at hp
  · simp only [hh, if_false, Option.some.injEq, Prod.mk.injEq] at hp
    obtain ⟨rfl, rfl⟩ := hp
    simp [List.append_assoc, List.take_append_drop]
-- non-vacuity: two fitting pushes keep everything
example : (push ⟨4, 2⟩ (push ⟨4, 2⟩ (init : State Nat) [1, 2]) [3]).queue = [1, 2, 3] := by decide

/-- Without the send in `Push` the wake-up clause is false: one push, and the queue is non-empty
    with no token and nobody holding (the seeded change "morec send removed from Push"). -/
theorem C46_wakeup_needs_push_send :
    let s : State Nat := { (init : State Nat) with queue := [1], hist := [1] }
    s.queue ≠ [] ∧ ¬ (s.token = true ∨ 0 < s.holding) := by decide

/-- A Pop body that is NOT one step — cut the batch under the mutex, unlock, and only then, having seen
    the queue empty, take a pending token out of the channel — loses a wake-up when a whole Push fits
    in between: push [1]; receive; cut (queue empty); push [2] (token set); discard the token ⇒ alert 2
    is queued, no token, nobody inside Pop.  (The independently seeded change C46-a; the replay item
    `K` parks a Pop at that point on the real queue.) -/
theorem C46_split_pop_loses_wakeup :
    let c : Cfg := ⟨10, 10⟩
    let s1 := push c (init : State Nat) [1]
    let s2 := { s1 with token := false, holding := 1 }                       -- receive
    let s3 := { s2 with queue := [], out := [1], holding := 0 }              -- cut the batch, unlock
    let s4 := push c s3 [2]                                                   -- a whole Push
    let s5 := { s4 with token := false }                                      -- discard the token
    s5.queue ≠ [] ∧ ¬ (s5.token = true ∨ 0 < s5.holding) := by decide

/-- Regenerated obligations: the synchronisation skeleton of the two methods, in source order —
    Pop receives from `morec` (or `termc`) BEFORE it locks and re-arms under the lock only when
    alerts are left; Push returns early on an empty list before locking and again after
    relabelling, and otherwise ends with the non-blocking send under the lock. -/
theorem C46_pop_skeleton : Thanos.Facts.alertQueuePopSkeleton =
    ["select{recv termc|recv q.morec}", "return", "q.mtx.Lock", "defer q.mtx.Unlock", "if len(q.queue) > 0",
     "select{send q.morec|default}", "return"] := by decide

theorem C46_push_skeleton : Thanos.Facts.alertQueuePushSkeleton =
    ["if len(alerts) == 0", "return", "q.mtx.Lock", "defer q.mtx.Unlock", "if len(alerts) == 0", "return",
     "if d := len(alerts) - q.capacity; d > 0", "if d := (len(q.queue) + len(alerts)) - q.capacity; d > 0",
     "select{send q.morec|default}"] := by decide

-- non-vacuity: a concrete interleaving — push 3, a popper receives, another push arrives before
-- its body runs, the body pops 2 and re-arms
example : Reach ⟨4, 2⟩ (push ⟨4, 2⟩ (init : State Nat) [1, 2, 3]) := Reach.push _ Reach.init
example : take (push ⟨4, 2⟩ (init : State Nat) [1, 2, 3]) =
    some { queue := [1, 2, 3], token := false, holding := 1, hist := [1, 2, 3], out := [] } := by decide
example : (pop ⟨4, 2⟩ ({ queue := [2, 3, 4, 5], token := true, holding := 1, hist := [1, 2, 3, 4, 5], out := [] } : State Nat)).map (·.1)
    = some [2, 3] := by decide
example : pushQueue 4 [1, 2, 3] [4, 5] = [2, 3, 4, 5] := by decide
example : pushQueue 2 [1] [4, 5, 6] = [5, 6] := by decide

end Thanos.AlertQueue
