import Thanos.Model.StoreSpec
import Thanos.Lemmas.StoreSpec
import Thanos.Props.C08
import Thanos.Generated.Facts
/-
  C07 — Label name/value APIs cover every label seen by Series.

  "For the same selectors and time range, every label name and every value of a label that appears on a
   series returned by a store's Series call is also returned by that store's label-names and
   label-values calls, including external labels and excluding labels requested to be dropped as
   replica labels."

  Specification level (partial): the theorems are about `Model/StoreSpec.lean` — `tsdbSeries` /
  `tsdbLabelNames` / `tsdbLabelValues` and `bucketSeries` / `bucketLabelNames` / `bucketLabelValues` — for all
  stores, selectors, ranges and replica-label lists.  The real TSDBStore and BucketStore are compared with
  these functions (equality of answers, not just inclusion) on generated blocks on every run, and the
  inclusion itself is evaluated on the implementation by the oracle.
-/
namespace Thanos.StoreSpec
open Thanos.Labels

/-- legal stored data: label sets strictly sorted, no empty values, every series has a label -/
structure WFBlock (b : Block) : Prop where
  ext_sorted : StrictSorted b.ext
  ext_ne : NoEmpty b.ext
  lset_sorted : ∀ s ∈ b.series, StrictSorted s.lset
  lset_ne : ∀ s ∈ b.series, NoEmpty s.lset
  lset_nonempty : ∀ s ∈ b.series, s.lset ≠ []

/-- where a served label comes from -/
theorem served_label (R : List Nat) (ext raw : Labels) (l : Label)
    (he : StrictSorted ext) (hne : NoEmpty ext) (hr : NoEmpty raw) (hs : StrictSorted raw)
    (hl : l ∈ serveTSDB R ext raw) :
    R.contains l.1 = false ∧ l.2 ≠ 0 ∧
      (lookup ext l.1 = some l.2 ∨ (lookup ext l.1 = none ∧ lookup raw l.1 = some l.2)) := by
  have h1 := mem_lookup _ (C08_sorted_tsdb R ext raw hr hs) l hl
  rw [C08_labels_tsdb R ext raw l.1 he hne hr] at h1
  unfold expected at h1
  cases hR : R.contains l.1 with
  | true => rw [hR] at h1; simp at h1
  | false =>
    rw [hR] at h1
    simp only [Bool.false_eq_true, if_false] at h1
    refine ⟨rfl, ?_, ?_⟩
    · intro h0
      cases he' : lookup ext l.1 with
      | some v =>
        simp only [he'] at h1
        simp at h1
        exact lookup_ne_zero ext hne l.1 (by rw [he', h1, h0])
      | none =>
        simp only [he'] at h1
        exact lookup_ne_zero raw hr l.1 (by rw [h1, h0])
    · cases he' : lookup ext l.1 with
      | some v =>
        simp only [he'] at h1
        exact Or.inl h1
      | none =>
        simp only [he'] at h1
        exact Or.inr ⟨rfl, h1⟩

/-! ### TSDB store -/

theorem C07_names_tsdb (db : Block) (r : Req) (es : List Entry) (wf : WFBlock db)
    (h : tsdbSeries db r = .ok es) : ∀ e ∈ es, ∀ l ∈ e.1, l.1 ∈ tsdbLabelNames db r := by
  intro e he l hl
  unfold tsdbSeries at h
  unfold tsdbLabelNames
  cases hf : filterExt db.ext r.matchers with
  | none => rw [hf] at h; simp at h; subst h; simp at he
  | some ms =>
    rw [hf] at h
    cases ms with
    | nil => simp at h
    | cons m ms' =>
      simp only [Res.ok.injEq] at h
      subst h
      obtain ⟨s, hs, hm, _, hee⟩ := (mem_selectSeries _ _ _ _ _ e).mp he
      subst hee
      obtain ⟨hR, _, hsrc⟩ := served_label r.without db.ext s.lset l wf.ext_sorted wf.ext_ne
        (wf.lset_ne s hs) (wf.lset_sorted s hs) hl
      have hsf : s ∈ db.series.filter (fun s => matchesAll (m :: ms') s.lset) := List.mem_filter.mpr ⟨hs, hm⟩
      -- the querier's names are not empty: the series itself has a label
      have hres : (canonNats (allNames (db.series.filter fun s => matchesAll (m :: ms') s.lset))).isEmpty = false := by
        cases hl0 : s.lset with
        | nil => exact absurd hl0 (wf.lset_nonempty s hs)
        | cons x xs =>
          have : x.1 ∈ canonNats (allNames (db.series.filter fun s => matchesAll (m :: ms') s.lset)) := by
            rw [mem_canonNats]
            unfold allNames
            rw [List.mem_flatMap]
            exact ⟨s, hsf, by rw [hl0]; simp⟩
          cases hc : canonNats (allNames (db.series.filter fun s => matchesAll (m :: ms') s.lset)) with
          | nil => rw [hc] at this; simp at this
          | cons _ _ => simp
      simp only [hres, Bool.false_eq_true, if_false]
      rw [List.mem_append]
      rcases hsrc with hext | ⟨_, hraw⟩
      · right
        unfold extNames
        rw [List.mem_filter]
        exact ⟨lookup_some_mem_names _ _ _ hext, by rw [hR]; rfl⟩
      · left
        rw [mem_canonNats]
        unfold allNames
        rw [List.mem_flatMap]
        exact ⟨s, hsf, lookup_some_mem_names _ _ _ hraw⟩

theorem C07_values_tsdb (db : Block) (r : Req) (es : List Entry) (wf : WFBlock db)
    (h : tsdbSeries db r = .ok es) : ∀ e ∈ es, ∀ l ∈ e.1, l.2 ∈ tsdbLabelValues db r l.1 := by
  intro e he l hl
  unfold tsdbSeries at h
  unfold tsdbLabelValues
  cases hf : filterExt db.ext r.matchers with
  | none => rw [hf] at h; simp at h; subst h; simp at he
  | some ms =>
    rw [hf] at h
    cases ms with
    | nil => simp at h
    | cons m ms' =>
      simp only [Res.ok.injEq] at h
      subst h
      obtain ⟨s, hs, hm, hc, hee⟩ := (mem_selectSeries _ _ _ _ _ e).mp he
      subst hee
      obtain ⟨hR, hv0, hsrc⟩ := served_label r.without db.ext s.lset l wf.ext_sorted wf.ext_ne
        (wf.lset_ne s hs) (wf.lset_sorted s hs) hl
      simp only [hR, Bool.false_eq_true, if_false]
      rcases hsrc with hext | ⟨hnone, hraw⟩
      · have hg : Labels.get db.ext l.1 = l.2 := get_of_lookup _ _ _ hext
        have hne : (Labels.get db.ext l.1 != 0) = true := by rw [hg]; simpa using hv0
        simp only [hne, if_true, List.isEmpty_cons, Bool.false_eq_true, if_false]
        have hany : (db.series.any fun s => matchesAll (m :: ms') s.lset && !(chunksForTime s.chunks r.mint r.maxt).isEmpty) = true := by
          rw [List.any_eq_true]
          exact ⟨s, hs, by simp [hm, hc]⟩
        simp [hany, hg]
      · have hg : Labels.get db.ext l.1 = 0 := by simp [Labels.get, hnone]
        have hne : (Labels.get db.ext l.1 != 0) = false := by rw [hg]; rfl
        simp only [hne, Bool.false_eq_true, if_false]
        unfold allValues
        rw [List.mem_filterMap]
        exact ⟨s, List.mem_filter.mpr ⟨hs, hm⟩, hraw⟩

/-! ### store gateway -/

theorem C07_names_bucket (blocks : List Block) (r : Req) :
    ∀ e ∈ bucketSeries blocks r, ∀ l ∈ e.1, l.1 ∈ bucketLabelNames blocks r := by
  intro e he l hl
  unfold bucketSeries at he
  unfold bucketLabelNames
  obtain ⟨b, hb0, heb⟩ := List.mem_flatMap.mp he
  have hb := mem_selected blocks r b hb0
  rw [List.mem_flatMap]
  refine ⟨b, hb, ?_⟩
  unfold blockSeries at heb
  unfold blockLabelNames
  cases hf : filterExt b.ext r.matchers with
  | none => rw [hf] at heb; simp at heb
  | some ms =>
    rw [hf] at heb
    cases ms with
    | nil => simp at heb
    | cons m ms' =>
      simp only at heb ⊢
      rw [List.mem_flatMap]
      exact ⟨e, heb, List.mem_map.mpr ⟨l, hl, rfl⟩⟩

/-- the two completions agree on legal data, so facts about `serveTSDB` carry over -/
theorem served_label_bucket (R : List Nat) (ext raw : Labels) (l : Label)
    (he : StrictSorted ext) (hne : NoEmpty ext) (hr : NoEmpty raw) (hs : StrictSorted raw)
    (hl : l ∈ serveBucket R ext raw) :
    R.contains l.1 = false ∧ l.2 ≠ 0 ∧
      (lookup ext l.1 = some l.2 ∨ (lookup ext l.1 = none ∧ lookup raw l.1 = some l.2)) := by
  rw [← C08_labels_same R ext raw he hne hr hs] at hl
  exact served_label R ext raw l he hne hr hs hl

theorem C07_values_bucket (blocks : List Block) (r : Req) (wf : ∀ b ∈ blocks, WFBlock b) :
    ∀ e ∈ bucketSeries blocks r, ∀ l ∈ e.1, l.2 ∈ bucketLabelValues blocks r l.1 := by
  intro e he l hl
  unfold bucketSeries at he
  obtain ⟨b, hb0, heb⟩ := List.mem_flatMap.mp he
  have hb := mem_selected blocks r b hb0
  have hbm : b ∈ blocks := (List.mem_filter.mp hb).1
  have wfb := wf b hbm
  unfold blockSeries at heb
  cases hf : filterExt b.ext r.matchers with
  | none => rw [hf] at heb; simp at heb
  | some ms =>
    rw [hf] at heb
    cases ms with
    | nil => simp at heb
    | cons m ms' =>
      simp only at heb
      obtain ⟨s, hs, hm, hc, hee⟩ := (mem_selectSeries _ _ _ _ _ e).mp heb
      subst hee
      obtain ⟨hR, hv0, hsrc⟩ := served_label_bucket r.without b.ext s.lset l wfb.ext_sorted wfb.ext_ne
        (wfb.lset_ne s hs) (wfb.lset_sorted s hs) hl
      unfold bucketLabelValues
      simp only [hR, Bool.false_eq_true, if_false]
      rw [List.mem_flatMap]
      refine ⟨b, hb, ?_⟩
      unfold blockLabelValues
      simp only [hf, List.isEmpty_cons]
      -- the matchers LabelValues uses: the residual ones, possibly with `l != ""`
      have hms : ∀ ms2, (ms2 = m :: ms' ∨ (ms2 = (m :: ms') ++ [nonEmpty l.1] ∧ lookup b.ext l.1 = none)) →
          l.2 ∈ ((selectSeries (serveBucket [] b.ext) ms2 b.series r.mint r.maxt).map (fun e => Labels.get e.1 l.1)).filter (· != 0) := by
        intro ms2 hms2
        rw [List.mem_filter]
        refine ⟨?_, by simpa using hv0⟩
        rw [List.mem_map]
        refine ⟨(serveBucket [] b.ext s.lset, chunksForTime s.chunks r.mint r.maxt), ?_, ?_⟩
        · rw [mem_selectSeries]
          refine ⟨s, hs, ?_, hc, rfl⟩
          rcases hms2 with rfl | ⟨rfl, hnone⟩
          · exact hm
          · unfold matchesAll at hm ⊢
            rw [List.all_append, hm]
            rcases hsrc with hext | ⟨_, hraw⟩
            · rw [hnone] at hext; simp at hext
            · have : Labels.get s.lset l.1 = l.2 := get_of_lookup _ _ _ hraw
              simp [nonEmpty, Matcher.ok, this, hv0]
        · -- the label value on the series as LabelValues sees it (nothing dropped)
          simp only
          have hlk : lookup (serveBucket [] b.ext s.lset) l.1 = some l.2 := by
            rw [C08_labels_bucket [] b.ext s.lset l.1 wfb.ext_sorted wfb.ext_ne (wfb.lset_ne s hs) (wfb.lset_sorted s hs)]
            unfold expected
            rcases hsrc with hext | ⟨hnone, hraw⟩
            · simp [hext]
            · simp [hnone, hraw]
          exact get_of_lookup _ _ _ hlk
      by_cases hcond : (!r.nameEq && !false && !(hasName b.ext l.1)) = true
      · simp only [hcond, if_true]
        have hnone : lookup b.ext l.1 = none := by
          simp only [Bool.and_eq_true, Bool.not_eq_true', hasName] at hcond
          cases hlk : lookup b.ext l.1 with
          | none => rfl
          | some v => simp [hlk] at hcond
        have : ((m :: ms') ++ [nonEmpty l.1]).isEmpty = false := by simp
        simp only [this, Bool.false_eq_true, if_false]
        exact hms _ (Or.inr ⟨rfl, hnone⟩)
      · simp only [hcond, if_false, List.isEmpty_cons, Bool.false_eq_true]
        exact hms _ (Or.inl rfl)

/-! ### the two block filters: closed query interval against half-open block ranges, on both calls -/

/-- what `getFor` keeps of one resolution level (`MaxTime <= mint` skips, `MinTime > maxt` ends the scan) is the
    predicate `overlapsClosedInterval` of the label calls: a block whose MinTime equals the end of the range, or
    whose MaxTime − 1 equals its start, is looked at by Series and by the label calls alike -/
theorem overlap_predicates_agree (b : Block) (mint maxt : Int) :
    blockOverlaps b mint maxt = (!(decide (b.maxt ≤ mint)) && !(decide (b.mint > maxt))) := by
  unfold blockOverlaps
  by_cases h1 : b.mint ≤ maxt <;> by_cases h2 : mint < b.maxt <;> simp [h1, h2] <;> omega

/-- regenerated facts: both predicates as the sources have them -/
theorem C07_fact_overlap :
    Thanos.Facts.storesOverlapsClosedInterval = "b.meta.MinTime <= maxt && mint < b.meta.MaxTime"
    ∧ (Thanos.Facts.storesGetForConds.drop 2).take 2 = ["b.meta.MaxTime <= mint", "b.meta.MinTime > maxt"] := by decide

/-! ### the label calls look at every overlapping block, whatever its resolution -/

/-- the label calls do not read the resolution of a block: re-labelling the resolutions changes no answer -/
theorem labelNames_ignore_resolution (blocks : List Block) (f : Block → Int) (r : Req) :
    bucketLabelNames (blocks.map fun b => { b with res := f b }) r = bucketLabelNames blocks r := by
  unfold bucketLabelNames
  induction blocks with
  | nil => rfl
  | cons b bs ih =>
    simp only [List.map_cons, List.filter_cons]
    have h1 : blockOverlaps { b with res := f b } r.mint r.maxt = blockOverlaps b r.mint r.maxt := rfl
    rw [h1]
    split
    · simp only [List.flatMap_cons, ih]
      rfl
    · exact ih

theorem labelValues_ignore_resolution (blocks : List Block) (f : Block → Int) (r : Req) (l : Nat) :
    bucketLabelValues (blocks.map fun b => { b with res := f b }) r l = bucketLabelValues blocks r l := by
  unfold bucketLabelValues
  split
  · rfl
  · induction blocks with
    | nil => rfl
    | cons b bs ih =>
      simp only [List.map_cons, List.filter_cons]
      have h1 : blockOverlaps { b with res := f b } r.mint r.maxt = blockOverlaps b r.mint r.maxt := rfl
      rw [h1]
      split
      · simp only [List.flatMap_cons, ih]
        rfl
      · exact ih

/-- … while Series reads the blocks `getFor` selects for the maximum resolution of the request — downsampled
    blocks included, also when no raw block covers their range — and these are among the blocks the label calls
    look at (`mem_selected`): that is why `C07_names_bucket` / `C07_values_bucket` hold for stores of all three
    resolutions.  Regenerated fact: the block loops of both label calls skip a block only for the time range,
    the block matchers of the hints and contradicted external labels — there is no resolution test. -/
theorem C07_fact_label_block_filter :
    Thanos.Facts.storesLabelNamesBlockFilter =
      ["!b.overlapsClosedInterval(req.Start, req.End)",
       "len(reqBlockMatchers) > 0 && !b.matchRelabelLabels(reqBlockMatchers)", "!ok"]
    ∧ Thanos.Facts.storesLabelValuesBlockFilter =
      ["!b.overlapsClosedInterval(req.Start, req.End)",
       "len(reqBlockMatchers) > 0 && !b.matchRelabelLabels(reqBlockMatchers)", "!ok"] := by decide

-- non-vacuity: an old range present only as a 5m block: Series at max resolution 5m serves its series, and the
-- label calls list its names although no raw block is there
def oldOnly5m : List Block :=
  [⟨[(5, 9)], 0, 100, [⟨[(1, 8), (7, 6)], [⟨10, 20, 1⟩]⟩], 300000⟩, ⟨[(5, 9)], 100, 200, [⟨[(1, 7)], [⟨110, 120, 2⟩]⟩], 0⟩]
example : (bucketSeries oldOnly5m ⟨0, 300, [⟨1, false, [7, 8]⟩], [], false, false, 300000⟩).map (·.1) =
    [[(1, 8), (5, 9), (7, 6)], [(1, 7), (5, 9)]] := by decide
example : canonNats (bucketLabelNames oldOnly5m ⟨0, 300, [⟨1, false, [7, 8]⟩], [], false, false, 300000⟩) = [1, 5, 7] := by decide

/-! ### external labels replaced at run time: every call reads the current set -/

/-- after `SetExtLset` each of the three calls answers as a store created with the new external labels would -/
theorem series_reads_current_ext (db : Block) (ext : Labels) (r : Req) :
    ((TStore.new db).setExt ext).series r = tsdbSeries { db with ext := ext } r := rfl

theorem labelNames_reads_current_ext (db : Block) (ext : Labels) (r : Req) :
    ((TStore.new db).setExt ext).labelNames r = tsdbLabelNames { db with ext := ext } r := rfl

theorem labelValues_reads_current_ext (db : Block) (ext : Labels) (r : Req) (l : Nat) :
    ((TStore.new db).setExt ext).labelValues r l = tsdbLabelValues { db with ext := ext } r l := rfl

/-- C07 for the TSDB store in every state: after any sequence of external-label updates the label calls cover
    what Series returns (the current external labels must be a legal label set) -/
theorem C07_tsdb_after_updates (db : Block) (updates : List Labels) (r : Req) (es : List Entry)
    (wf : WFBlock (updates.foldl TStore.setExt (TStore.new db)).view)
    (h : (updates.foldl TStore.setExt (TStore.new db)).series r = .ok es) :
    ∀ e ∈ es, ∀ l ∈ e.1,
      l.1 ∈ (updates.foldl TStore.setExt (TStore.new db)).labelNames r ∧
      l.2 ∈ (updates.foldl TStore.setExt (TStore.new db)).labelValues r l.1 := by
  intro e he l hl
  exact ⟨C07_names_tsdb _ r es wf h e he l hl, C07_values_tsdb _ r es wf h e he l hl⟩

/-- regenerated facts: `TSDBStore` has no field that could hold a derived copy of the external labels besides
    `extLsetAsLabelSets`, and the three calls read the current set (through `getExtLset` / the field) -/
theorem C07_fact_single_ext_copy :
    Thanos.Facts.storesTSDBStoreFields =
      ["logger", "db", "component", "buffers", "maxBytesPerFrame", "matcherCache", "extLsetAsLabelSets",
       "startStoreFilterUpdate", "storeFilter", "mtx", "close", "storepb.UnimplementedStoreServer"]
    ∧ Thanos.Facts.storesTSDBStoreExtReads =
      ["Series: getExtLset x1, extLsetAsLabelSets x1", "LabelNames: getExtLset x2, extLsetAsLabelSets x0",
       "LabelValues: getExtLset x2, extLsetAsLabelSets x0"] := by decide

/-! ### the proxy in front of several stores -/

theorem mem_proxyNames (clients : List Client) (r : Req) (c : Client) (n : Nat)
    (hc : c ∈ clients) (hm : clientMatches c r = true) (hn : n ∈ clientNames c r) :
    n ∈ proxyLabelNames clients r := by
  unfold proxyLabelNames
  simp only
  rw [mem_mergeSlices _ _ _ (Nat.le_refl _)]
  refine ⟨clientNamesAnswer c r, List.mem_map.mpr ⟨c, List.mem_filter.mpr ⟨hc, hm⟩, rfl⟩, ?_⟩
  unfold clientNamesAnswer
  split
  · exact (mem_sortNatsDup _ n).mpr hn
  · exact (mem_canonNats _ n).mpr hn

theorem mem_proxyValues (clients : List Client) (r : Req) (l : Nat) (c : Client) (v : Nat)
    (hc : c ∈ clients) (hm : clientMatches c r = true) (hv : v ∈ clientValues c r l) :
    v ∈ proxyLabelValues clients r l := by
  unfold proxyLabelValues
  simp only
  rw [mem_mergeSlices _ _ _ (Nat.le_refl _)]
  refine ⟨clientValuesAnswer c r l, List.mem_map.mpr ⟨c, List.mem_filter.mpr ⟨hc, hm⟩, rfl⟩, ?_⟩
  exact (mem_canonNats _ v).mpr hv

/-- where an entry of the proxy's Series answer comes from -/
theorem proxySeries_mem (clients : List Client) (r : Req) (es : List Entry) (h : proxySeries clients r = .ok es) :
    ∀ e ∈ es, ∃ c ∈ clients, clientMatches c r = true ∧ e ∈ clientEntries c r := by
  unfold proxySeries at h
  split at h
  · simp at h
  · simp only at h
    split at h
    · simp at h
    · simp only [PRes.ok.injEq] at h
      subst h
      intro e he
      obtain ⟨c, hc, hec⟩ := List.mem_flatMap.mp he
      have := List.mem_filter.mp hc
      exact ⟨c, this.1, this.2, hec⟩

/-- C07 through the proxy, label names: for every set of stores behind it (TSDB stores and store gateways, any
    advertised label sets and time ranges) -/
theorem C07_names_proxy (clients : List Client) (r : Req) (es : List Entry)
    (wf : ∀ c ∈ clients, ∀ b ∈ c.blocks, WFBlock b) (h : proxySeries clients r = .ok es) :
    ∀ e ∈ es, ∀ l ∈ e.1, l.1 ∈ proxyLabelNames clients r := by
  intro e he l hl
  obtain ⟨c, hc, hm, hec⟩ := proxySeries_mem clients r es h e he
  apply mem_proxyNames clients r c l.1 hc hm
  unfold clientEntries clientSeries at hec
  unfold clientNames
  cases ht : c.tsdb with
  | true =>
    simp only [ht, if_true] at hec ⊢
    cases hb : c.blocks with
    | nil => rw [hb] at hec; simp at hec
    | cons db rest =>
      rw [hb] at hec
      simp only at hec ⊢
      cases hs : tsdbSeries db r with
      | invalid => rw [hs] at hec; simp at hec
      | ok es' =>
        rw [hs] at hec
        exact C07_names_tsdb db r es' (wf c hc db (by rw [hb]; simp)) hs e hec l hl
  | false =>
    simp only [ht, Bool.false_eq_true, if_false] at hec ⊢
    exact C07_names_bucket c.blocks r e hec l hl

/-- C07 through the proxy, label values -/
theorem C07_values_proxy (clients : List Client) (r : Req) (es : List Entry)
    (wf : ∀ c ∈ clients, ∀ b ∈ c.blocks, WFBlock b) (h : proxySeries clients r = .ok es) :
    ∀ e ∈ es, ∀ l ∈ e.1, l.2 ∈ proxyLabelValues clients r l.1 := by
  intro e he l hl
  obtain ⟨c, hc, hm, hec⟩ := proxySeries_mem clients r es h e he
  apply mem_proxyValues clients r l.1 c l.2 hc hm
  unfold clientEntries clientSeries at hec
  unfold clientValues
  cases ht : c.tsdb with
  | true =>
    simp only [ht, if_true] at hec ⊢
    cases hb : c.blocks with
    | nil => rw [hb] at hec; simp at hec
    | cons db rest =>
      rw [hb] at hec
      simp only at hec ⊢
      cases hs : tsdbSeries db r with
      | invalid => rw [hs] at hec; simp at hec
      | ok es' =>
        rw [hs] at hec
        exact C07_values_tsdb db r es' (wf c hc db (by rw [hb]; simp)) hs e hec l hl
  | false =>
    simp only [ht, Bool.false_eq_true, if_false] at hec ⊢
    exact C07_values_bucket c.blocks r (fun b hb => wf c hc b hb) e hec l hl

/-! ### non-vacuity -/

def exampleDB : Block :=
  ⟨[(5, 9), (9, 3)], 0, 100,
   [⟨[(1, 8), (5, 1), (7, 6)], [⟨10, 20, 1⟩, ⟨30, 40, 2⟩]⟩, ⟨[(1, 7), (9, 6)], [⟨50, 60, 3⟩]⟩], 0⟩

def exampleReq : Req := ⟨0, 45, [⟨1, false, [7, 8]⟩, ⟨5, false, [9]⟩], [9], false, false, 0⟩

example : (match tsdbSeries exampleDB exampleReq with
    | .ok es => es.map (fun e => (e.1, e.2.map (·.id)))
    | .invalid => []) = [([(1, 8), (5, 9), (7, 6)], [1, 2])] := by decide
example : sortNatsDup (tsdbLabelNames exampleDB exampleReq) = [1, 5, 5, 7, 9] := by decide
example : tsdbLabelValues exampleDB exampleReq 5 = [9] := by decide
example : tsdbLabelValues exampleDB exampleReq 9 = [] := by decide
example : canonNats (bucketLabelNames [exampleDB] exampleReq) = [1, 5, 7] := by decide
-- the proxy in front of the TSDB store and the store gateway of the same block: the repeated name of the TSDB store stays
example : proxyLabelNames (standardClients [exampleDB]) exampleReq = [1, 5, 5, 7, 9] := by decide
example : (match proxySeries (standardClients [exampleDB]) exampleReq with | .ok es => es.length | _ => 0) = 2 := by decide

end Thanos.StoreSpec
