import Thanos.Model.CompactSync
import Thanos.Generated.Facts
/-
  C33 — The compactor does nothing destructive on an incomplete view.

  Honest level: the model is a SPECIFICATION (Model/CompactSync.lean): an iteration is "sync,
  then — unless the sync failed — the writes".  `C33_no_writes` is therefore true by construction;
  the content of this file is
   * the classification table `breaksSync` — exactly which read outcomes the code treats as
     "the view is incomplete" — proved to contain every FAILED read (`C33_failed_read_breaks`),
     so that `C33_main`: any failed read in a sync ⇒ the iteration performs no write;
   * the regenerated facts that pin the table to the sources (the `switch` over the cause of a
     loadMeta error, the two tolerated marker errors of each marker filter, `return` right after
     a failed `SyncMetas` and before cleaning / garbage collection / grouping);
  and the assurance for the *implementation* comes from the fault enumeration on the real
  BucketCompactor (harness/cmd/block/c33.go): every read of every metadata sync of two Compact
  calls is made to fail, and no mutating bucket call may follow.
-/
namespace Thanos.CompactSync

/-- by construction: a failed sync means no writes in that iteration -/
theorem C33_no_writes {W : Type} (reads : List (ReadKind × Outcome)) (writes : List W)
    (h : syncFails reads = true) : iteration reads writes = (true, []) := by
  simp [iteration, h]

/-- every read that FAILS (any kind) makes the view incomplete -/
theorem C33_failed_read_breaks (k : ReadKind) (o : Outcome) (h : readFailed k o = true) :
    breaksSync k o = true := by
  cases k <;> cases o <;> simp_all [readFailed, breaksSync]

/-- **C33**: if reading any block's metadata or markers (or the listing) fails in a sync, the
    compactor neither compacts, marks nor deletes anything in that iteration. -/
theorem C33_main {W : Type} (reads : List (ReadKind × Outcome)) (writes : List W)
    (h : ∃ r ∈ reads, readFailed r.1 r.2 = true) : (iteration reads writes).2 = [] := by
  obtain ⟨r, hr, hf⟩ := h
  have : syncFails reads = true := List.any_eq_true.mpr ⟨r, hr, C33_failed_read_breaks r.1 r.2 hf⟩
  simp [iteration, this]

/-- the complete classification, as a table: the outcomes that do NOT break a sync are exactly
    "ok" and, for meta.json and the two markers, "not found" and "not valid JSON" -/
theorem C33_classify (k : ReadKind) (o : Outcome) :
    breaksSync k o = false ↔
      (o = .ok ∨ ((k = .getMeta ∨ k = .getDeletionMark ∨ k = .getNoCompactMark) ∧ (o = .notFound ∨ o = .corrupt))) := by
  cases k <;> cases o <;> simp [breaksSync]

/-- a sync all of whose reads end well (or with a tolerated "partial block / no marker" answer)
    does not fail: the compactor is not blocked by partial uploads -/
theorem C33_tolerated_sync_ok (reads : List (ReadKind × Outcome))
    (h : ∀ r ∈ reads, breaksSync r.1 r.2 = false) : syncFails reads = false := by
  simp only [syncFails, List.any_eq_false]
  intro r hr
  simp [h r hr]

/-- a body that breaks while it is read is a FAILED read, for every kind of read, and breaks the
    sync — it must never be mistaken for "the object is corrupt" (= partial upload) -/
theorem C33_body_error_breaks (k : ReadKind) :
    readFailed k .bodyError = true ∧ breaksSync k .bodyError = true := by
  cases k <;> simp [readFailed, breaksSync]

-- ---------------------------------------------------------------- regenerated facts

/-- loadMeta reads the whole body first (an I/O error is returned as a plain "read meta file"
    error) and only then decodes it (only a decode error means "corrupted") … -/
theorem C33_fact_loadMetaBody : Thanos.Facts.loadMetaBodyCalls = ["io.ReadAll", "json.Unmarshal"] := by decide
theorem C33_fact_loadMetaReadErr :
    Thanos.Facts.loadMetaReadErrAction = "err != nil => return nil, errors.Wrapf(err, \"read meta file: %v\", metaFile)" := by decide
/-- … and so does ReadMarker for the deletion / no-compact marks -/
theorem C33_fact_readMarkerBody : Thanos.Facts.readMarkerBodyCalls = ["io.ReadAll", "json.Unmarshal"] := by decide

/-- fetchMetadata: not-found and corrupted meta.json make the block partial, every other cause
    of a loadMeta error is counted in metaErrs … -/
theorem C33_fact_metaErrCases : Thanos.Facts.fetchMetaErrCases =
    ["default:metaErrs", "ErrorSyncMetaNotFound:partial", "ErrorSyncMetaCorrupted:partial"] := by decide
/-- … and a non-empty metaErrs is reported as an error ("incomplete view") by fetch -/
theorem C33_fact_incomplete : Thanos.Facts.fetchIncompleteCond = "len(resp.metaErrs) > 0" := by decide
theorem C33_fact_loadMeta : Thanos.Facts.loadMetaConds =
    ["f.bkt.IsObjNotFoundErr(err)", "m.Version != metadata.TSDBVersion1"] := by decide
/-- both marker filters tolerate exactly "marker not found" and "marker does not unmarshal" -/
theorem C33_fact_deletionTolerated : Thanos.Facts.deletionFilterTolerated =
    ["errors.Cause(err) == metadata.ErrorMarkerNotFound", "errors.Cause(err) == metadata.ErrorUnmarshalMarker"] := by decide
theorem C33_fact_noCompactTolerated : Thanos.Facts.noCompactFilterTolerated =
    ["errors.Cause(err) == metadata.ErrorMarkerNotFound", "errors.Cause(err) == metadata.ErrorUnmarshalMarker"] := by decide
/-- Compact syncs first and returns on a sync error before it cleans, garbage-collects or groups -/
theorem C33_fact_callOrder : Thanos.Facts.compactCallOrder =
    ["c.sy.SyncMetas", "c.blocksCleaner.DeleteMarkedBlocks", "c.sy.GarbageCollect", "c.grouper.Groups"] := by decide
theorem C33_fact_syncErrAction :
    Thanos.Facts.compactSyncErrAction = "err != nil => return errors.Wrap(err, \"sync\")" := by decide
theorem C33_fact_syncMetasErrAction :
    Thanos.Facts.syncMetasErrAction = "err != nil => return retry(err)" := by decide

-- ---------------------------------------------------------------- non-vacuity

-- a sync with a partial upload, an absent marker and ONE failed deletion-mark read: no writes
example : iteration [(.listing, .ok), (.getMeta, .notFound), (.getDeletionMark, .notFound),
    (.getDeletionMark, .failed), (.getNoCompactMark, .ok)] ["delete A", "upload B"] = (true, []) := by decide
-- the same sync without the failure lets the compactor work
example : iteration [(.getMeta, .bodyError)] ["delete A"] = (true, []) := by decide
example : iteration [(.listing, .ok), (.getMeta, .notFound), (.getDeletionMark, .notFound),
    (.getNoCompactMark, .corrupt)] ["delete A", "upload B"] = (false, ["delete A", "upload B"]) := by decide

end Thanos.CompactSync
