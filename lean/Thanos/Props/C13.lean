import Thanos.Model.CacheKeys
import Thanos.Lemmas.CacheKeys
import Thanos.Generated.Facts
/-
  C13 — Cache keys never conflate different cached items.

  Index cache (memcached backend): `CacheKey.String` for postings / expanded postings / series.
  Matchers conversion cache: `cacheKey`.
  `hash` (base64url ∘ blake2b-256) and `quote` (strconv.Quote) are parameters; what is needed of
  them is a hypothesis: `hash` injective with ':'-free images, `quote` a prefix code starting
  with '"'.  The Go side re-checks both hypotheses on every generated case.
-/
namespace Thanos.CacheKeys

/-- images of the hash contain no ':' (base64url alphabet) -/
def HashNoColon (hash : Str → Str) : Prop := ∀ s, cColon ∉ hash s

/-- how keys are built at every construction site: the block is a ULID string (no ':'), and
    series keys are built with an empty compression field (memcached.go: `CacheKey{…, ""}`) -/
def WF (k : CacheKey) : Prop :=
  cColon ∉ k.block ∧ (∀ id, k.item = .series id → k.compression = [])

/-- label names of postings items contain no ':' (true of legacy names `[a-zA-Z_][a-zA-Z0-9_]*`,
    not of UTF-8 names) -/
def NameNoColon (k : CacheKey) : Prop :=
  ∀ n v, k.item = .postings n v → cColon ∉ n

/-- C13 for the index cache at full strength: different items never share a key string. -/
def C13_index_full : Prop :=
  ∀ (hash quote : Str → Str), Function.Injective hash → HashNoColon hash → QuoteCode quote →
    ∀ k1 k2 : CacheKey, WF k1 → WF k2 →
      keyString hash quote k1 = keyString hash quote k2 → k1 = k2

/-- C13 for the matchers conversion cache at full strength, for a key function `key`. -/
def C13_matcher_full (key : Matcher → Str) : Prop := ∀ m1 m2 : Matcher, key m1 = key m2 → m1 = m2

/-- the whole property for the code as it is now -/
def C13_full : Prop := C13_index_full ∧ C13_matcher_full matcherKey

/-! ### the part that fails: postings keys (F13a) -/

private def hashW (s : Str) : Str := s.map (· + 59)
private def quoteW (s : Str) : Str := cQuote :: (s.map (· + 35) ++ [cQuote])

private theorem map_add_inj (k : Nat) : ∀ (a b : Str), a.map (· + k) = b.map (· + k) → a = b
  | [], [], _ => rfl
  | [], _ :: _, h => by simp at h
  | _ :: _, [], h => by simp at h
  | x :: a, y :: b, h => by
    simp only [List.map_cons, List.cons.injEq] at h
    have := map_add_inj k a b h.2
    have : x = y := by omega
    simp [*]

private theorem hashW_inj : Function.Injective hashW := fun a b h => map_add_inj 59 a b h

private theorem hashW_nocolon : HashNoColon hashW := by
  intro s h
  simp only [hashW, List.mem_map, cColon] at h
  obtain ⟨a, _, ha⟩ := h
  omega

private theorem quoteW_code : QuoteCode quoteW := by
  constructor
  · intro s; exact ⟨_, rfl⟩
  · intro a b r s h
    simp only [quoteW, List.cons_append, List.cons.injEq, true_and, List.append_assoc] at h
    have := span_unique (fun c => c ≠ cQuote) (a.map (· + 35)) (b.map (· + 35)) _ _
      (by intro c hc; simp only [List.mem_map] at hc; obtain ⟨x, _, rfl⟩ := hc; simp [cQuote])
      (by intro c hc; simp only [List.mem_map] at hc; obtain ⟨x, _, rfl⟩ := hc; simp [cQuote])
      (by intro c hc; simp at hc; simp [hc]) (by intro c hc; simp at hc; simp [hc]) h
    refine ⟨map_add_inj 35 a b this.1, ?_⟩
    simpa using this.2

/-- F13a: postings for the label ("a:b","c") and for ("a","b:c") get the same key (both hash the
    string "a:b:c"), whatever the hash function is. -/
theorem C13_postings_collision (hash quote : Str → Str) (block comp : Str) :
    keyString hash quote ⟨block, .postings [97, 58, 98] [99], comp⟩ =
    keyString hash quote ⟨block, .postings [97] [98, 58, 99], comp⟩ := by
  simp [keyString, cColon]

theorem C13_index_full_false : ¬ C13_index_full := by
  intro h
  have := h hashW quoteW hashW_inj hashW_nocolon quoteW_code
    ⟨[48], .postings [97, 58, 98] [99], []⟩ ⟨[48], .postings [97] [98, 58, 99], []⟩
    (by constructor <;> simp [cColon]) (by constructor <;> simp [cColon])
    (C13_postings_collision _ _ _ _)
  simp at this

theorem C13_full_false : ¬ C13_full := fun h => C13_index_full_false h.1

/-! ### what holds -/

private theorem body_split {hash : Str → Str} (hc : HashNoColon hash) {b1 b2 x1 x2 c1 c2 : Str}
    (hb1 : cColon ∉ b1) (hb2 : cColon ∉ b2)
    (h : b1 ++ cColon :: hash x1 ++ compSuffix c1 = b2 ++ cColon :: hash x2 ++ compSuffix c2) :
    b1 = b2 ∧ hash x1 = hash x2 ∧ c1 = c2 := by
  have h' : b1 ++ cColon :: (hash x1 ++ compSuffix c1) = b2 ++ cColon :: (hash x2 ++ compSuffix c2) := by
    simpa using h
  obtain ⟨hb, hrest⟩ := split_colon hb1 hb2 h'
  have := span_unique (fun c => c ≠ cColon) (hash x1) (hash x2) _ _
    (fun c hcm hcc => hc x1 (hcc ▸ hcm)) (fun c hcm hcc => hc x2 (hcc ▸ hcm))
    (compSuffix_head c1) (compSuffix_head c2) hrest
  exact ⟨hb, this.1, compSuffix_inj this.2⟩

/-- The index-cache keys are injective on all items whose postings label names contain no ':'.
    This covers: postings keys (legacy names), expanded-postings keys (all matcher lists, all
    names and values — `Matcher.String` quotes what is not a legacy name), series keys, keys of
    different kinds, blocks and compression schemes. -/
theorem C13_index_partial (hash quote : Str → Str) (hi : Function.Injective hash)
    (hc : HashNoColon hash) (hq : QuoteCode quote) (k1 k2 : CacheKey) (w1 : WF k1) (w2 : WF k2)
    (n1 : NameNoColon k1) (n2 : NameNoColon k2)
    (h : keyString hash quote k1 = keyString hash quote k2) : k1 = k2 := by
  obtain ⟨b1, i1, c1⟩ := k1
  obtain ⟨b2, i2, c2⟩ := k2
  obtain ⟨hb1, hs1⟩ := w1
  obtain ⟨hb2, hs2⟩ := w2
  simp only at hb1 hb2 hs1 hs2
  cases i1 with
  | postings a1 v1 =>
    cases i2 with
    | postings a2 v2 =>
      simp only [keyString, List.cons_append, List.nil_append, List.cons.injEq, true_and] at h
      obtain ⟨hb, hh, hcmp⟩ := body_split hc hb1 hb2 (by simpa using h)
      have hpre := hi hh
      obtain ⟨ha, hv⟩ := split_colon (n1 a1 v1 rfl) (n2 a2 v2 rfl) hpre
      subst hb; subst hcmp; subst ha; subst hv; rfl
    | expanded ms2 => simp [keyString] at h
    | series id2 => simp [keyString] at h
  | expanded ms1 =>
    cases i2 with
    | postings a2 v2 => simp [keyString] at h
    | expanded ms2 =>
      simp only [keyString, List.cons_append, List.nil_append, List.cons.injEq, true_and] at h
      obtain ⟨hb, hh, hcmp⟩ := body_split hc hb1 hb2 (by simpa using h)
      have := labelMatchersToString_inj hq ms1 ms2 (hi hh)
      subst hb; subst hcmp; subst this; rfl
    | series id2 => simp [keyString] at h
  | series id1 =>
    cases i2 with
    | postings a2 v2 => simp [keyString] at h
    | expanded ms2 => simp [keyString] at h
    | series id2 =>
      simp only [keyString, List.cons_append, List.nil_append, List.cons.injEq, true_and] at h
      obtain ⟨hb, hd⟩ := split_colon hb1 hb2 h
      have := decimal_inj id1 id2 hd
      have e1 := hs1 id1 rfl
      have e2 := hs2 id2 rfl
      subst hb; subst this; subst e1; subst e2; rfl

/-- expanded-postings keys alone, at full strength (no restriction on names or values) -/
theorem C13_expanded (hash quote : Str → Str) (hi : Function.Injective hash)
    (hc : HashNoColon hash) (hq : QuoteCode quote) (b1 b2 c1 c2 : Str) (ms1 ms2 : List Matcher)
    (hb1 : cColon ∉ b1) (hb2 : cColon ∉ b2)
    (h : keyString hash quote ⟨b1, .expanded ms1, c1⟩ = keyString hash quote ⟨b2, .expanded ms2, c2⟩) :
    b1 = b2 ∧ ms1 = ms2 ∧ c1 = c2 := by
  have := C13_index_partial hash quote hi hc hq ⟨b1, .expanded ms1, c1⟩ ⟨b2, .expanded ms2, c2⟩
    ⟨hb1, by intro id h; simp at h⟩ ⟨hb2, by intro id h; simp at h⟩
    (by intro n v h; simp at h) (by intro n v h; simp at h) h
  simp only [CacheKey.mk.injEq, Item.expanded.injEq] at this
  exact this

/-- `LabelMatchersToString` itself is injective -/
theorem C13_matchers_string (quote : Str → Str) (hq : QuoteCode quote) (ms1 ms2 : List Matcher)
    (h : labelMatchersToString quote ms1 = labelMatchersToString quote ms2) : ms1 = ms2 :=
  labelMatchersToString_inj hq ms1 ms2 h

/-! ### matchers conversion cache -/

/-- F13b: the key as it was before the repair (`name ++ operator ++ value`) conflates
    `a="~b"` with `a=~"b"` (both "a=~b") and `a!="~b"` with `a!~"b"`. -/
theorem C13_matcher_old_false : ¬ C13_matcher_full matcherKeyOld := by
  intro h
  have := h ⟨.eq, [97], [126, 98]⟩ ⟨.re, [97], [98]⟩ (by decide)
  simp at this

private theorem type_colon_unique (t1 t2 : MatchType) (v1 v2 : Str)
    (h : t1.str ++ cColon :: v1 = t2.str ++ cColon :: v2) : t1 = t2 ∧ v1 = v2 := by
  cases t1 <;> cases t2 <;> simp_all [MatchType.str, cColon, cEq, cBang, cTilde]

/-- The repaired key (`len(name) ':' name operator ':' value`) is injective on all matchers:
    no hypothesis on names, values or types. -/
theorem C13_matcher : C13_matcher_full matcherKey := by
  intro m1 m2 h
  obtain ⟨t1, n1, v1⟩ := m1
  obtain ⟨t2, n2, v2⟩ := m2
  simp only [matcherKey] at h
  have h' : decimal n1.length ++ cColon :: (n1 ++ (t1.str ++ cColon :: v1)) =
      decimal n2.length ++ cColon :: (n2 ++ (t2.str ++ cColon :: v2)) := by simpa using h
  obtain ⟨hd, hrest⟩ := split_colon
    (fun hm => decimal_no_colon _ _ hm rfl) (fun hm => decimal_no_colon _ _ hm rfl) h'
  have hl := decimal_inj _ _ hd
  have h2 := List.append_inj hrest hl
  obtain ⟨ht, hv⟩ := type_colon_unique t1 t2 v1 v2 h2.2
  rw [h2.1, ht, hv]

/-! ### regenerated facts: the formats in the source are the ones modelled -/

theorem C13_postings_preimage_fact :
    Thanos.Facts.postingsKeyPreimage = "lbl.Name + \":\" + lbl.Value" ∧
    Thanos.Facts.labelMatchersWrites = ["lbl.String()", "';'"] := by decide

theorem C13_matcher_key_fact :
    Thanos.Facts.matcherKeyWrites =
      ["nameLen", "':'", "m.GetName()", "typeStr", "':'", "m.GetValue()"] ∧
    Thanos.Facts.matcherKeyNameLen = "strconv.Itoa(len(m.GetName()))" := by
  decide

/-! ### the in-flight key of the matchers cache (singleflight) -/

/-- every entry of the LRU cache was stored under the key of its own matcher -/
def MHonest (lruKey : Matcher → Str) (c : MCache) : Prop := ∀ k x, c.lookup k = some x → k = lruKey x

private theorem lookup_filter_ne (c : MCache) (k k' : Str) (x : Matcher)
    (h : (c.filter fun e => e.1 != k).lookup k' = some x) : c.lookup k' = some x := by
  induction c with
  | nil => simp at h
  | cons e rest ih =>
    obtain ⟨ek, ex⟩ := e
    by_cases hk : ek = k
    · subst hk
      have hf : (((ek, ex) :: rest).filter fun e => e.1 != ek) = rest.filter fun e => e.1 != ek := by
        simp [List.filter]
      rw [hf] at h
      have hr := ih h
      -- k' cannot be ek: the filtered list has no entry with that key
      by_cases hk' : k' = ek
      · subst hk'
        exfalso
        clear ih hr hf
        induction rest with
        | nil => simp at h
        | cons e2 r2 ih2 =>
          obtain ⟨e2k, e2x⟩ := e2
          by_cases h2 : e2k = k'
          · subst h2
            have : (((e2k, e2x) :: r2).filter fun e => e.1 != e2k) = r2.filter fun e => e.1 != e2k := by
              simp [List.filter]
            rw [this] at h; exact ih2 h
          · have hne : (e2k != k') = true := by simpa using h2
            have : (((e2k, e2x) :: r2).filter fun e => e.1 != k') = (e2k, e2x) :: r2.filter fun e => e.1 != k' := by
              simp [List.filter, hne]
            rw [this] at h
            have hb : (k' == e2k) = false := by simpa using fun hh : k' = e2k => h2 hh.symm
            simp only [List.lookup, hb] at h
            exact ih2 h
      · have hb : (k' == ek) = false := by simpa using hk'
        simp only [List.lookup, hb]; exact hr
    · have hne : (ek != k) = true := by simpa using hk
      have hf : (((ek, ex) :: rest).filter fun e => e.1 != k) = (ek, ex) :: rest.filter fun e => e.1 != k := by
        simp [List.filter, hne]
      rw [hf] at h
      by_cases hb : (k' == ek) = true
      · simp only [List.lookup, hb] at h ⊢; exact h
      · have hb' : (k' == ek) = false := by simpa using hb
        simp only [List.lookup, hb'] at h ⊢; exact ih h

/-- C13 for everything that makes two lookups of the matchers cache share a result: if the LRU key
    and the singleflight key are both injective, then in every history of flights (any overlap of
    callers, any evictions) every caller is answered with the conversion of its own matcher. -/
theorem C13_inflight_of_injective (lruKey sfKey : Matcher → Str)
    (hl : ∀ a b, lruKey a = lruKey b → a = b) (hs : ∀ a b, sfKey a = sfKey b → a = b) :
    ∀ (es : List MEvent) (c : MCache), MHonest lruKey c → FlightsOK sfKey es →
      ∀ p ∈ runFlights lruKey c es, p.2 = p.1 := by
  intro es
  induction es with
  | nil => intro c _ _ p hp; simp [runFlights] at hp
  | cons e es ih =>
    intro c hc hok p hp
    cases e with
    | evict k =>
      simp only [runFlights] at hp
      exact ih _ (fun k' x h => hc k' x (lookup_filter_ne c k k' x h)) hok p hp
    | flight l fs =>
      simp only [FlightsOK] at hok
      simp only [runFlights, List.mem_append] at hp
      -- what the leader computes is the leader's own matcher, and the cache stays honest
      have hres : (leaderResult lruKey c l).1 = l ∧ MHonest lruKey (leaderResult lruKey c l).2 := by
        unfold leaderResult
        cases hlk : c.lookup (lruKey l) with
        | some x => exact ⟨(hl _ _ (hc _ x hlk)).symm, hc⟩
        | none =>
          refine ⟨rfl, ?_⟩
          intro k x hk
          by_cases hb : (k == lruKey l) = true
          · simp only [List.lookup, hb, Option.some.injEq] at hk
            subst hk; simpa using hb
          · have hb' : (k == lruKey l) = false := by simpa using hb
            simp only [List.lookup, hb'] at hk
            exact hc k x hk
      rcases hp with hp | hp
      · simp only [flight, List.mem_map] at hp
        obtain ⟨m, hm, rfl⟩ := hp
        simp only [hres.1]
        rcases List.mem_cons.mp hm with rfl | hm
        · rfl
        · exact (hs _ _ (hok.1 m hm)).symm
      · exact ih _ hres.2 hok.2 p hp

/-- the code as it is: both keys are `cacheKey(m)` (fact below), which is injective -/
theorem C13_inflight (es : List MEvent) (h : FlightsOK matcherKey es) :
    ∀ p ∈ runFlights matcherKey [] es, p.2 = p.1 :=
  C13_inflight_of_injective matcherKey matcherKey C13_matcher C13_matcher es []
    (fun k x hk => by simp at hk) h

/-- a singleflight key that is only the value string ("one compilation per pattern") is wrong
    although the LRU key is untouched: `a=~"x"` and `b!~"x"` missing the cache at the same time
    share one flight, and the second caller gets the first caller's matcher -/
theorem C13_inflight_value_false :
    ∃ es, FlightsOK (fun m => m.value) es ∧ ∃ p ∈ runFlights matcherKey [] es, p.2 ≠ p.1 :=
  ⟨[.flight ⟨.re, [97], [120]⟩ [⟨.nre, [98], [120]⟩]], by simp [FlightsOK],
   (⟨.nre, [98], [120]⟩, ⟨.re, [97], [120]⟩), by simp [runFlights, flight, leaderResult], by decide⟩

/-- regenerated fact: in GetOrSet the key is `cacheKey(m)`, and that same `key` is the argument of
    the singleflight call and of every LRU access, in this order -/
theorem C13_matcher_sharing_fact :
    Thanos.Facts.matcherSharingKeys =
      ["key=cacheKey(m)", "c.sf.Do(key)", "c.cache.Get(key)", "c.cache.Add(key)"] := by decide

/-! ### non-vacuity -/

-- the hypotheses on hash/quote are satisfiable (so `C13_index_partial` is not vacuous) …
example : ∃ hash quote, Function.Injective hash ∧ HashNoColon hash ∧ QuoteCode quote :=
  ⟨hashW, quoteW, hashW_inj, hashW_nocolon, quoteW_code⟩
-- … and a key with separators in a *value* and a quoted UTF-8 name meets WF and NameNoColon
example : WF ⟨[48, 49], .postings [97] [58, 59, 61], [100]⟩ ∧
    NameNoColon ⟨[48, 49], .postings [97] [58, 59, 61], [100]⟩ := by
  refine ⟨⟨by simp [cColon], by intro id h; simp at h⟩, ?_⟩
  intro n v h
  simp only [Item.postings.injEq] at h
  obtain ⟨rfl, _⟩ := h
  simp [cColon]
-- the matcher witness pair really is a pair of different matchers with different new keys
example : matcherKey ⟨.eq, [97], [126, 98]⟩ ≠ matcherKey ⟨.re, [97], [98]⟩ := by decide
example : matcherKeyOld ⟨.eq, [97], [126, 98]⟩ = matcherKeyOld ⟨.re, [97], [98]⟩ := by decide
example : matcherKey ⟨.re, [97, 98, 99], [120]⟩ = [51, 58, 97, 98, 99, 61, 126, 58, 120] := by decide
-- a name that must be quoted, and one that must not
example : shouldQuoteName [97, 58, 98] = true ∧ shouldQuoteName [95, 97, 57] = false ∧
    shouldQuoteName [57, 97] = true ∧ shouldQuoteName [] = true := by decide

end Thanos.CacheKeys
