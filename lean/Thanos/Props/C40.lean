import Thanos.Model.ChunkMerge
import Thanos.Generated.Facts
/-
  C40 — Offline deduplication of downsampled chunks keeps every aggregate sample.
-/
namespace Thanos.Dedup

def tsOf (l : List Sample) : List Int := l.map (·.t)

/-- strictly increasing -/
def incr : List Int → Bool
  | a :: b :: rest => decide (a < b) && incr (b :: rest)
  | _ => true

/-- a well-formed downsampled chunk: all five aggregates, `sum/min/max` on the count's
    timestamps, the counter on the count's timestamps plus its last one repeated; count
    timestamps strictly increasing from `mint ≥ 1` to `maxt` -/
def chunkWF (c : AggrChk) : Bool :=
  match c.aggr with
  | [some cnt, some s, some mn, some mx, some ctr] =>
    incr (tsOf cnt) && (tsOf cnt).head? == some c.mint && (tsOf cnt).getLast? == some c.maxt &&
    decide (0 < c.mint) &&
    tsOf s == tsOf cnt && tsOf mn == tsOf cnt && tsOf mx == tsOf cnt && tsOf ctr == tsOf cnt ++ [c.maxt]
  | _ => false

/-- chunks of one series are ordered and disjoint -/
def chunksOrdered : List AggrChk → Bool
  | a :: b :: rest => decide (a.maxt < b.mint) && chunksOrdered (b :: rest)
  | _ => true

def seriesWF (s : List AggrChk) : Bool := !s.isEmpty && s.all chunkWF && chunksOrdered s

/-- the property on one output chunk: every aggregate has a sample at each timestamp at which
    the count aggregate has one -/
def chunkComplete (c : AggrChk) : Bool :=
  match c.aggr with
  | [some cnt, a1, a2, a3, a4] =>
    [a1, a2, a3, a4].all fun a =>
      match a with
      | some l => (tsOf cnt).all fun t => (tsOf l).contains t
      | none => false
  | _ => false

/-- C40 at full strength for the `toChunk` selected by `chunkFixed` and chunks of `split` samples -/
def C40_full (chunkFixed : Bool) (split : Nat) : Prop :=
  ∀ (series : List (List AggrChk)), series.all seriesWF = true →
    ∀ out, chunkMerge true chunkFixed split series = some out → out.all chunkComplete = true

/-! ### F40: the pinned `toChunk` loses the first sample of every window but the first -/

/-- `n` aggregated samples on the grid `t0, t0+step, …` in one chunk -/
def gridChunk (t0 step : Int) (n : Nat) : AggrChk :=
  let ts := (List.range n).map fun (i : Nat) => t0 + step * (Int.ofNat i)
  let mk := fun (v : Int) => ts.map fun t => (⟨t, v⟩ : Sample)
  let last := t0 + step * ((n : Int) - 1)
  { mint := t0, maxt := last,
    aggr := [some (mk 1), some (mk 2), some (mk 3), some (mk 4), some (mk 5 ++ [⟨last, 5⟩])] }

/-- two overlapping series of one 122-sample chunk each, half a step apart -/
def f40Witness : List (List AggrChk) := [[gridChunk 1000 1000 122], [gridChunk 1500 1000 122]]

def aggrLens (r : Option (List AggrChk)) : Option (List (List (Option Nat))) :=
  r.map fun cs => cs.map fun c => c.aggr.map fun a => a.map List.length

example : f40Witness.all seriesWF = true := by decide

set_option maxRecDepth 100000 in
/-- the merge has 122 count samples, cut into windows of 120 and 2; the second output chunk has
    2 count samples but only 1 sum/min/max sample -/
theorem C40_witness_lens : aggrLens (chunkMerge true false 120 f40Witness) =
    some [[some 120, some 120, some 120, some 120, some 121], [some 2, some 1, some 1, some 1, some 2]] := by
  decide

set_option maxRecDepth 100000 in
/-- … so that second chunk violates the property -/
theorem C40_witness_incomplete :
    (chunkMerge true false 120 f40Witness).map (fun out => out.all chunkComplete) = some false := by
  decide

theorem C40_full_orig_false : ¬ C40_full false 120 := by
  intro h
  have w := C40_witness_incomplete
  cases hm : chunkMerge true false 120 f40Witness with
  | none => rw [hm] at w; simp at w
  | some out =>
    have hall := h f40Witness (by decide) out hm
    rw [hm] at w
    simp only [Option.map_some, Option.some.injEq] at w
    rw [hall] at w
    exact Bool.noConfusion w

/-! ### the repaired `toChunk` on the same witness -/

set_option maxRecDepth 100000 in
theorem C40_witness_fixed : aggrLens (chunkMerge true true 120 f40Witness) =
    some [[some 120, some 120, some 120, some 120, some 121], [some 2, some 2, some 2, some 2, some 3]] := by
  decide

/-! ### regenerated facts: the source has the loop the model (`toChunkFixed`) transliterates -/

theorem C40_fact_loop : Thanos.Facts.aggrToChunkLoop =
    "valType := it.Seek(minTime); valType != chunkenc.ValNone && it.AtT() <= maxTime; valType = it.Next()" := by
  decide

theorem C40_fact_finish :
    Thanos.Facts.aggrToChunkEmptyTest = "lastT == 0 && lastV == 0" ∧
    Thanos.Facts.aggrToChunkCounterArgs = ["lastT, lastV", "lastT, lastV"] := by decide

end Thanos.Dedup
