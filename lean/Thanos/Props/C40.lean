import Thanos.Model.ChunkMerge
import Thanos.Lemmas.ChunkMerge
import Thanos.Lemmas.ChunkHeap
import Thanos.Lemmas.ChunkFuel
import Thanos.Generated.Facts
/-
  C40 — Offline deduplication of downsampled chunks keeps every aggregate sample.
-/
namespace Thanos.Dedup

/-- C40 at full strength for the `toChunk` selected by `chunkFixed` and chunks of `split` samples -/
def C40_full (chunkFixed : Bool) (split : Nat) : Prop :=
  ∀ (series : List (List AggrChk)), series.all seriesWF = true →
    ∀ out, chunkMerge true chunkFixed split series = some out → out.all chunkComplete = true

/-! ### F40: the pinned `toChunk` loses the first sample of every window but the first -/

/-- `n` aggregated samples on the grid `t0, t0+step, …` in one chunk -/
def gridChunk (t0 step : Int) (n : Nat) : AggrChk :=
  let ts := (List.range n).map fun (i : Nat) => t0 + step * (Int.ofNat i)
  let mk := fun (v : Int) => ts.map fun t => (⟨t, v⟩ : Sample)
  let last := t0 + step * ((n : Int) - 1)
  { mint := t0, maxt := last,
    aggr := [some (mk 1), some (mk 2), some (mk 3), some (mk 4), some (mk 5 ++ [⟨last, 5⟩])] }

/-- two overlapping series of one 122-sample chunk each, half a step apart -/
def f40Witness : List (List AggrChk) := [[gridChunk 1000 1000 122], [gridChunk 1500 1000 122]]

def aggrLens (r : Option (List AggrChk)) : Option (List (List (Option Nat))) :=
  r.map fun cs => cs.map fun c => c.aggr.map fun a => a.map List.length

example : f40Witness.all seriesWF = true := by decide

set_option maxRecDepth 100000 in
/-- the merge has 122 count samples, cut into windows of 120 and 2; the second output chunk has
    2 count samples but only 1 sum/min/max sample -/
theorem C40_witness_lens : aggrLens (chunkMerge true false 120 f40Witness) =
    some [[some 120, some 120, some 120, some 120, some 121], [some 2, some 1, some 1, some 1, some 2]] := by
  decide

set_option maxRecDepth 100000 in
/-- … so that second chunk violates the property -/
theorem C40_witness_incomplete :
    (chunkMerge true false 120 f40Witness).map (fun out => out.all chunkComplete) = some false := by
  decide

theorem C40_full_orig_false : ¬ C40_full false 120 := by
  intro h
  have w := C40_witness_incomplete
  cases hm : chunkMerge true false 120 f40Witness with
  | none => rw [hm] at w; simp at w
  | some out =>
    have hall := h f40Witness (by decide) out hm
    rw [hm] at w
    simp only [Option.map_some, Option.some.injEq] at w
    rw [hall] at w
    exact Bool.noConfusion w

/-! ### the repaired `toChunk` on the same witness -/

set_option maxRecDepth 100000 in
theorem C40_witness_fixed : aggrLens (chunkMerge true true 120 f40Witness) =
    some [[some 120, some 120, some 120, some 120, some 121], [some 2, some 2, some 2, some 2, some 3]] := by
  decide

/-! ### C40 for the repaired `toChunk` -/

/-- **Well-formedness is preserved.**  Merging well-formed downsampled series (any number of
    series, any chunk cuts, any chunk size `split ≥ 1`) yields only well-formed chunks: in every
    output chunk `sum`, `min`, `max` have exactly the count's timestamps and the counter has them
    plus its last sample once more — whether the chunk passed through unchanged, came out of
    `aggrChunkIterator`, or was merged again with later chunks. -/
theorem C40_wf_preserved (split : Nat) (hsp : 0 < split) (series : List (List AggrChk))
    (hwf : series.all seriesWF = true) (out : List AggrChk)
    (hm : chunkMerge true true split series = some out) : ∀ c ∈ out, chunkWF c = true := by
  unfold chunkMerge at hm
  apply dcDrain_wf hsp _ _ out _ hm
  -- the initial heap holds the input chunks
  have key : ∀ (ss : List (List AggrChk)) (h : List ChunkIt), HeapAll (fun c => chunkWF c = true) h →
      (∀ s ∈ ss, ∀ c ∈ s, chunkWF c = true) →
      HeapAll (fun c => chunkWF c = true) (ss.foldl (fun h s => if s.isEmpty then h else hpush h s) h) := by
    intro ss
    induction ss with
    | nil => intro h hh _; exact hh
    | cons s ss ih =>
      intro h hh hs
      simp only [List.foldl_cons]
      apply ih
      · split
        · exact hh
        · exact hpush_all hh (hs s (by simp))
      · exact fun s' hs' => hs s' (by simp [hs'])
  apply key series [] (by intro it hit; simp at hit)
  intro s hs c hc
  have := List.all_eq_true.mp hwf s hs
  simp only [seriesWF, Bool.and_eq_true] at this
  exact List.all_eq_true.mp this.1.2 c hc

/-- **C40 holds for the repaired code**, for every chunk size `split ≥ 1` (Prometheus uses 120). -/
theorem C40_fixed (split : Nat) (hsp : 0 < split) : C40_full true split := by
  intro series hwf out hm
  apply List.all_eq_true.mpr
  intro c hc
  exact complete_of_wf (C40_wf_preserved split hsp series hwf out hm c hc)

/-- a well-formed chunk's count samples are among the samples `totalSamples` counts -/
theorem cnt_le_samples {c : AggrChk} (h : chunkWF c = true) :
    cnt c ≤ (c.aggr.map fun a => (a.map List.length).getD 0).sum := by
  unfold chunkWF at h
  split at h
  · rename_i l0 l1 l2 l3 l4 he
    simp only [cnt, agg, AggrChk.get, he]
    simp
  · cases h

/-- **The repaired merger terminates and never panics on well-formed input**: the model's fuel for
    the outer drain loop (`totalSamples + heapChunks + 2`) always suffices, because every `Next`
    removes at least one count sample from the heap.  Together with `C40_wf_preserved` this makes
    the C40 statement unconditional: the output EXISTS and every chunk of it is complete. -/
theorem C40_fixed_total (split : Nat) (hsp : 0 < split) (series : List (List AggrChk))
    (hwf : series.all seriesWF = true) :
    ∃ out, chunkMerge true true split series = some out ∧ out.all chunkComplete = true := by
  have hs : ∀ s ∈ series, ∀ c ∈ s, chunkWF c = true := by
    intro s hs c hc
    have := List.all_eq_true.mp hwf s hs
    simp only [seriesWF, Bool.and_eq_true] at this
    exact List.all_eq_true.mp this.1.2 c hc
  have key : ∀ (ss : List (List AggrChk)) (h : List ChunkIt), HeapAll (fun c => chunkWF c = true) h →
      NE h → (∀ s ∈ ss, ∀ c ∈ s, chunkWF c = true) →
      HeapAll (fun c => chunkWF c = true) (ss.foldl (fun h s => if s.isEmpty then h else hpush h s) h) ∧
      NE (ss.foldl (fun h s => if s.isEmpty then h else hpush h s) h) ∧
      cntHeap (ss.foldl (fun h s => if s.isEmpty then h else hpush h s) h) ≤ cntHeap h + totalSamples ss := by
    intro ss
    induction ss with
    | nil => intro h hh hn _; exact ⟨hh, hn, by simp [totalSamples]⟩
    | cons s ss ih =>
      intro h hh hn hs
      simp only [List.foldl_cons]
      have hs' : ∀ s' ∈ ss, ∀ c ∈ s', chunkWF c = true := fun s' hs' => hs s' (by simp [hs'])
      have hle : cntIt s ≤ (s.map fun c => ((c.aggr.map fun a => (a.map List.length).getD 0).sum)).sum := by
        have : ∀ (l : List AggrChk), (∀ c ∈ l, chunkWF c = true) →
            cntIt l ≤ (l.map fun c => ((c.aggr.map fun a => (a.map List.length).getD 0).sum)).sum := by
          intro l
          induction l with
          | nil => intro _; simp [cntIt]
          | cons c l ihl =>
            intro hl
            have h1 := cnt_le_samples (hl c (by simp))
            have h2 := ihl (fun c' hc' => hl c' (by simp [hc']))
            rw [cntIt_cons]
            simp only [List.map_cons, List.sum_cons]
            omega
        exact this s (hs s (by simp))
      have hts : totalSamples (s :: ss) =
          (s.map fun c => ((c.aggr.map fun a => (a.map List.length).getD 0).sum)).sum + totalSamples ss := by
        simp [totalSamples]
      split
      · obtain ⟨i1, i2, i3⟩ := ih h hh hn hs'
        exact ⟨i1, i2, by omega⟩
      · rename_i hse
        obtain ⟨i1, i2, i3⟩ := ih (hpush h s) (hpush_all hh (hs s (by simp)))
          (by
            intro x hx
            rcases hpush_mem hx with h3 | h3
            · exact hn x h3
            · subst h3; intro he; rw [he] at hse; simp at hse) hs'
        rw [hpush_cnt] at i3
        exact ⟨i1, i2, by omega⟩
  obtain ⟨k1, k2, k3⟩ := key series [] (by intro it hit; simp at hit) (by intro it hit; simp at hit) hs
  have hc0 : cntHeap [] = 0 := rfl
  obtain ⟨out, ho⟩ := dcDrain_total hsp
    (totalSamples series + heapChunks (series.foldl (fun h s => if s.isEmpty then h else hpush h s) []) + 2)
    _ k1 k2 (by omega)
  exact ⟨out, ho, C40_fixed split hsp series hwf out ho⟩

/-! ### regenerated facts: the source has the loop the model (`toChunkFixed`) transliterates -/

theorem C40_fact_loop : Thanos.Facts.aggrToChunkLoop =
    "valType := it.Seek(minTime); valType != chunkenc.ValNone && it.AtT() <= maxTime; valType = it.Next()" := by
  decide

theorem C40_fact_finish :
    Thanos.Facts.aggrToChunkEmptyTest = "lastT == 0 && lastV == 0" ∧
    Thanos.Facts.aggrToChunkCounterArgs = ["lastT, lastV", "lastT, lastV"] := by decide

end Thanos.Dedup
