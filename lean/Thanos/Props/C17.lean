import Thanos.Model.Pool
import Thanos.Lemmas.Pool
import Thanos.Generated.Facts
/-
  C17 — Pooled buffers are released exactly once and pool budgets hold.

  (a) The shard-matcher buffers of `ProxyStore` (`sync.Pool`).  A request takes one buffer per
      queried store (`ShardInfo.Matcher`) and every response set is closed by the loser tree when
      its stream ends *and* again by the deferred `Close` of `ProxyStore.Series`; a `ShardMatcher`
      puts its buffer back in `Close`.  The theorem is over **all** event sequences of
      `Matcher`/`Close` calls — any number of concurrent requests, any interleaving, any number of
      `Close` calls per matcher, any choice the `sync.Pool` makes when it hands out a buffer.
  (b) `pool.BucketedPool`: all scripts of `Get`/`Put` with arbitrary sizes, budgets and pool choices.

  `idem` / `fixed` select the code before (`false`) and after (`true`) the repair; the model the
  driver runs against `/repo` follows the code that is there (see `Driver/Proxy.lean`).
-/
namespace Thanos.Pool

/-! ### (a) exactly-once release / unique owner -/

/-- C17(a) at full strength: after any sequence of `Matcher`/`Close` calls no buffer is used by two
    live matchers and no buffer sits twice in the pool -/
def C17_owner_full (idem : Bool) : Prop :=
  ∀ evs : List Ev, (liveBufs (run idem PState.init evs)).Nodup ∧ (run idem PState.init evs).free.Nodup

/-- With an idempotent `ShardMatcher.Close` the property holds for every schedule. -/
theorem C17_owner : C17_owner_full true := by
  intro evs
  have := inv_run evs inv_init
  exact ⟨this.liveNodup, this.freeNodup⟩

/-- … and a buffer that is in use is never inside the pool (so nobody else can be handed it). -/
theorem C17_owner_not_pooled (evs : List Ev) :
    ∀ b ∈ liveBufs (run true PState.init evs), b ∉ (run true PState.init evs).free :=
  (inv_run evs inv_init).disjoint

/-- The code as it was (`Close` puts every time): one request over one store whose response set is
    closed by the loser tree and by the deferred `Close`, followed by two requests — both get
    buffer 0. -/
theorem C17_owner_unfixed_false : ¬ C17_owner_full false := by
  intro h
  have := (h [.opn 0 none, .cls 0, .cls 0, .opn 1 (some 0), .opn 2 (some 0)]).1
  revert this
  decide

/-- the matchers closed by the events of a schedule, in order -/
def closesOf (evs : List Ev) : List Nat := evs.filterMap (fun e => match e with | .cls m => some m | _ => none)

/-- the matchers opened by the events of a schedule, in order -/
def opensOf (evs : List Ev) : List Nat := evs.filterMap (fun e => match e with | .opn m _ => some m | _ => none)

theorem closeHeld_same (m : Nat) : ∀ (held : List Held),
    (∀ h ∈ held, h.closed = true → h.matcher ≠ m) → closeHeld false m held = closeHeld true m held
  | [], _ => rfl
  | h :: r, hyp => by
    unfold closeHeld
    by_cases hm : h.matcher = m
    · have hc : h.closed = false := by
        cases hh : h.closed with
        | false => rfl
        | true => exact absurd hm (hyp h (by simp) hh)
      simp [hm, hc]
    · simp only [hm, if_false]
      rw [closeHeld_same m r (fun x hx => hyp x (List.mem_cons_of_mem _ hx))]

theorem closeHeld_closed (idem : Bool) (m : Nat) : ∀ (held : List Held) (x : Held),
    x ∈ (closeHeld idem m held).1 → x.closed = true → x.matcher = m ∨ (x ∈ held)
  | [], x, hx, _ => by simp [closeHeld] at hx
  | h :: r, x, hx, hc => by
    unfold closeHeld at hx
    by_cases hm : h.matcher = m
    · simp only [hm, if_true] at hx
      split at hx
      · exact Or.inr hx
      · simp only [List.mem_cons] at hx
        rcases hx with rfl | hx
        · exact Or.inl rfl
        · exact Or.inr (List.mem_cons_of_mem _ hx)
    · simp only [hm, if_false, List.mem_cons] at hx
      rcases hx with rfl | hx
      · exact Or.inr (by simp)
      · rcases closeHeld_closed idem m r x hx hc with h' | h'
        · exact Or.inl h'
        · exact Or.inr (List.mem_cons_of_mem _ h')

/-- as long as no matcher is closed twice the two versions of `Close` behave identically -/
theorem run_false_eq_true : ∀ (evs : List Ev) (s : PState),
    (closesOf evs).Nodup → (∀ h ∈ s.held, h.closed = true → h.matcher ∉ closesOf evs) →
    run false s evs = run true s evs
  | [], _, _, _ => rfl
  | .opn m pick :: r, s, hn, hyp => by
    simp only [run, List.foldl_cons]
    have hstep : step false s (.opn m pick) = step true s (.opn m pick) := by
      cases pick <;> simp [step]
    rw [hstep]
    apply run_false_eq_true r _ (by simpa [closesOf] using hn)
    intro h hh hc
    have hcl : closesOf (Ev.opn m pick :: r) = closesOf r := by simp [closesOf]
    rw [← hcl]
    -- a freshly opened matcher is not closed; everything else was held before
    cases pick with
    | none =>
      simp only [step, List.mem_cons] at hh
      rcases hh with rfl | hh
      · simp at hc
      · exact hyp h hh hc
    | some k =>
      simp only [step] at hh
      split at hh <;>
      · simp only [List.mem_cons] at hh
        rcases hh with rfl | hh
        · simp at hc
        · exact hyp h hh hc
  | .cls m :: r, s, hn, hyp => by
    simp only [run, List.foldl_cons]
    have hcl : closesOf (Ev.cls m :: r) = m :: closesOf r := by simp [closesOf]
    rw [hcl] at hn hyp
    have hn' := List.nodup_cons.mp hn
    have hsame : closeHeld false m s.held = closeHeld true m s.held :=
      closeHeld_same m s.held (fun h hh hc hm => hyp h hh hc (by simp [hm]))
    have hstep : step false s (.cls m) = step true s (.cls m) := by
      simp only [step, hsame]
    rw [hstep]
    apply run_false_eq_true r _ hn'.2
    intro h hh hc
    simp only [step] at hh
    rcases closeHeld_closed true m s.held h hh hc with hm | hold
    · rw [hm]; exact hn'.1
    · intro hmem
      exact hyp h hold hc (List.mem_cons_of_mem _ hmem)

/-- What the code as it was does guarantee: a schedule in which no matcher is closed twice. -/
theorem C17_owner_unfixed_partial (evs : List Ev) (h : (closesOf evs).Nodup) :
    (liveBufs (run false PState.init evs)).Nodup ∧ (run false PState.init evs).free.Nodup := by
  rw [run_false_eq_true evs PState.init h (by intro h hh; simp [PState.init] at hh)]
  exact C17_owner evs

/-! ### (b) BucketedPool budget -/

def BAns.used : BAns → Nat
  | .got _ u => u
  | .put u => u

/-- C17(b), budget: at no point of any script are more bytes checked out than `maxTotal` -/
def C17_budget_full (fixed : Bool) : Prop :=
  ∀ (min max num den maxTotal : Nat) (p : BPool) (ops : List BOp),
    BPool.new min max num den maxTotal = some p → maxTotal > 0 →
    ∀ a ∈ p.runScript fixed [] ops, a.used ≤ maxTotal

theorem runScript_budget : ∀ (ops : List BOp) (p : BPool) (got : List (Option Nat)),
    BInv p → p.maxTotal > 0 → ∀ a ∈ p.runScript true got ops, a.used ≤ p.maxTotal
  | [], _, _, _, _ => by simp [BPool.runScript]
  | .get sz ch :: r, p, got, inv, hm => by
    intro a ha
    unfold BPool.runScript at ha
    have inv' := binv_get_fixed inv sz ch
    have hmt := get_maxTotal true p sz ch
    simp only [List.mem_cons] at ha
    rcases ha with rfl | ha
    · have := inv'.budget (by rw [hmt]; exact hm)
      simpa [BAns.used, hmt] using this
    · have := runScript_budget r _ _ inv' (by rw [hmt]; exact hm) a ha
      rwa [hmt] at this
  | .putGot k :: r, p, got, inv, hm => by
    intro a ha
    unfold BPool.runScript at ha
    split at ha
    · rename_i c _
      have inv' := binv_put inv c
      simp only [List.mem_cons] at ha
      rcases ha with rfl | ha
      · have := inv'.budget (by rw [put_maxTotal]; exact hm)
        simpa [BAns.used, put_maxTotal] using this
      · have := runScript_budget r _ _ inv' (by rw [put_maxTotal]; exact hm) a ha
        rwa [put_maxTotal] at this
    · simp only [List.mem_cons] at ha
      rcases ha with rfl | ha
      · exact inv.budget hm
      · exact runScript_budget r p got inv hm a ha
  | .putCap c :: r, p, got, inv, hm => by
    intro a ha
    unfold BPool.runScript at ha
    have inv' := binv_put inv c
    simp only [List.mem_cons] at ha
    rcases ha with rfl | ha
    · have := inv'.budget (by rw [put_maxTotal]; exact hm)
      simpa [BAns.used, put_maxTotal] using this
    · have := runScript_budget r _ _ inv' (by rw [put_maxTotal]; exact hm) a ha
      rwa [put_maxTotal] at this

/-- The repaired `Get` (budget tested with the bucket size that will be charged) never exceeds the
    budget — for every script, including foreign / grown slices put into the pool and double puts,
    and whatever the per-bucket `sync.Pool`s hand back. -/
theorem C17_budget : C17_budget_full true := by
  intro min max num den maxTotal p ops hnew hm a ha
  simp only [BPool.new, Option.map_eq_some_iff] at hnew
  obtain ⟨sizes, _, rfl⟩ := hnew
  have inv : BInv { buckets := sizes.map (fun s => (s, ([] : List Nat))), maxTotal := maxTotal, used := 0 } := by
    refine ⟨fun _ => Nat.zero_le _, ?_⟩
    intro x hx c hc
    simp only [List.mem_map] at hx
    obtain ⟨s, _, rfl⟩ := hx
    simp at hc
  exact runScript_budget ops _ [] inv hm a ha

/-- The code as it was: `NewBucketedPool(16, 1024, 2, 100)`, `Get(65)` passes the test with 65 and
    is charged the 128-byte bucket. -/
theorem C17_budget_unfixed_false : ¬ C17_budget_full false := by
  intro h
  have := h 16 1024 2 1 100 _ [.get 65 none] rfl (by decide) (.got (.ok 128) 128) (by decide)
  revert this
  decide

/-! ### (b) usage returns to zero -/

/-- disciplined use: `get`, or return the i-th buffer that is currently checked out, unchanged -/
inductive DOp where
  | get (sz : Nat) (choice : Option Nat)
  | ret (i : Nat)

def discStep (fixed : Bool) (st : BPool × List Nat) : DOp → BPool × List Nat
  | .get sz ch =>
    match st.1.get fixed sz ch with
    | (p', .ok c) => (p', c :: st.2)
    | (p', _) => (p', st.2)
  | .ret i =>
    match st.2[i]? with
    | some c => (st.1.put c, st.2.eraseIdx i)
    | none => st

def discRun (fixed : Bool) (st : BPool × List Nat) (ops : List DOp) : BPool × List Nat :=
  ops.foldl (discStep fixed) st

theorem get_used (fixed : Bool) (p : BPool) (sz : Nat) (ch : Option Nat) :
    (∃ c, (p.get fixed sz ch).2 = .ok c ∧ (p.get fixed sz ch).1.used = p.used + c) ∨
    ((∀ c, (p.get fixed sz ch).2 ≠ .ok c) ∧ (p.get fixed sz ch).1.used = p.used) := by
  unfold BPool.get
  split
  · right; simp
  · split
    · split
      · right; simp
      · split
        · left; exact ⟨_, rfl, rfl⟩
        · split
          · left; exact ⟨_, rfl, rfl⟩
          · right; simp
    · split
      · right; simp
      · left; exact ⟨_, rfl, rfl⟩

theorem sum_eraseIdx : ∀ (l : List Nat) (i c : Nat), l[i]? = some c → (l.eraseIdx i).sum + c = l.sum
  | [], _, _, h => by simp at h
  | a :: r, 0, c, h => by simp at h; subst h; simp; omega
  | a :: r, i + 1, c, h => by
    simp only [List.getElem?_cons_succ] at h
    have := sum_eraseIdx r i c h
    simp only [List.eraseIdx_cons_succ, List.sum_cons]
    omega

theorem discStep_used (fixed : Bool) (st : BPool × List Nat) (op : DOp)
    (h : st.1.used = st.2.sum) : (discStep fixed st op).1.used = (discStep fixed st op).2.sum := by
  cases op with
  | get sz ch =>
    simp only [discStep]
    rcases get_used fixed st.1 sz ch with ⟨c, h1, h2⟩ | ⟨h1, h2⟩
    · generalize hg : st.1.get fixed sz ch = g at h1 h2
      obtain ⟨p', res⟩ := g
      simp only at h1 h2
      subst h1
      simp only [List.sum_cons, h2, h]
      omega
    · generalize hg : st.1.get fixed sz ch = g at h1 h2
      obtain ⟨p', res⟩ := g
      simp only at h1 h2
      cases res with
      | ok c => exact absurd rfl (h1 c)
      | exhausted => simpa [h2] using h
      | badChoice => simpa [h2] using h
  | ret i =>
    simp only [discStep]
    cases hi : st.2[i]? with
    | none => simpa using h
    | some c =>
      have hs := sum_eraseIdx st.2 i c hi
      simp only [BPool.put]
      split <;> omega

/-- **C17(b), zero.**  With disciplined use (every buffer that was got is put back unchanged, at
    most once) `UsedBytes()` equals the sum of the capacities that are checked out — before and
    after the repair — hence it is zero once every buffer is back. -/
theorem C17_zero (fixed : Bool) : ∀ (ops : List DOp) (st : BPool × List Nat),
    st.1.used = st.2.sum → (discRun fixed st ops).1.used = (discRun fixed st ops).2.sum
  | [], _, h => h
  | op :: r, st, h => C17_zero fixed r _ (discStep_used fixed st op h)

theorem C17_zero_all_returned (fixed : Bool) (p : BPool) (ops : List DOp) (h0 : p.used = 0)
    (hall : (discRun fixed (p, []) ops).2 = []) : (discRun fixed (p, []) ops).1.used = 0 := by
  have := C17_zero fixed ops (p, []) (by simpa using h0)
  rw [this, hall]; rfl

/-! ### regenerated facts: the skeleton the model follows -/

/-- `ShardMatcher.Close`: inside `if s.buffers != nil` the buffer is put and the pool reference is
    dropped, which is what makes the second `Close` a no-op (`closeHeld true`).  (Before the repair
    the body was just the `Put`: `closeHeld false`, `C17_owner_unfixed_false`.) -/
theorem C17_fact_close :
    Thanos.Facts.shardMatcherCloseBody = ["s.buffers.Put(s.buf)", "s.buffers = nil"] := by decide

/-- who closes a response set: the loser-tree callback and the deferred call in `Series`; each
    response set's `Close` closes its shard matcher once — so a matcher sees up to two `Close`
    calls, which the theorems cover (any number) -/
theorem C17_fact_close_sites :
    Thanos.Facts.proxyCloseSites = ["tree:s.Close", "series:defer respSet.Close", "lazy:l.shardMatcher.Close", "eager:l.shardMatcher.Close"] := by decide

/-- `BucketedPool.Get`: the budget tests in source order — with the bucket size inside the bucket
    loop, with the requested size only for the oversize allocation (`BPool.get true`).  (Before the
    repair: one test with `sz` ahead of the loop, `C17_budget_unfixed_false`.) -/
theorem C17_fact_budget :
    Thanos.Facts.bucketedPoolBudgetTests =
      ["p.maxTotal > 0 && p.usedTotal+uint64(bktSize) > p.maxTotal", "p.maxTotal > 0 && p.usedTotal+uint64(sz) > p.maxTotal"] := by decide

/-! ### non-vacuity -/

-- a realistic schedule: two concurrent requests over two stores each, every response set closed
-- twice, then a third request that reuses pooled buffers
example : let evs := [Ev.opn 0 none, .opn 1 none, .opn 2 none, .cls 0, .opn 3 none, .cls 1, .cls 0, .cls 1,
                      .cls 2, .cls 3, .cls 3, .cls 2, .opn 4 (some 0), .opn 5 (some 0)]
    (run true PState.init evs).free.length = 2 ∧ (liveBufs (run true PState.init evs)).length = 2 := by decide
-- the same schedule with the old Close: the pool holds duplicates
example : (run false PState.init [Ev.opn 0 none, .cls 0, .cls 0]).free = [0, 0] := by decide
-- BucketedPool: the repaired Get refuses what would break the budget, and accounting returns to 0
example : (BPool.new 16 1024 2 1 100).map (fun p => (p.get true 65 none).2) = some .exhausted := by decide
example : (BPool.new 16 1024 2 1 100).map (fun p => (p.get true 64 none).2) = some (.ok 64) := by decide
example : (BPool.new 10 100 2 1 1000).map (fun p =>
    (discRun true (p, []) [.get 40 none, .get 19 none, .ret 0, .get 1000 none, .ret 1, .ret 0]).1.used) = some 0 := by decide

end Thanos.Pool
