import Thanos.Lemmas.Downsample
import Thanos.Lemmas.DownsampleRaw
import Thanos.Lemmas.DownsampleAggrLoop
import Thanos.Generated.Facts
/-
  C36 — Raw downsampling aggregates are exact.
  Model: Model/Downsample.lean (transliteration of DownsampleRaw / downsampleRawLoop /
  downsampleBatch / floatAggregator / aggrChunkBuilder and of query.chunkSeriesIterator);
  specification: Model/DownsampleSpec.lean (`runs` = grouping by window).
  Domain of the theorems: timestamps strictly increasing (int64), resolution > 0, values finite
  floats (|v| ≤ MaxFloat64), numChunks ≥ 1.  Negative timestamps: the code as found lost samples
  there (F36: truncating `%` in `currentWindow`, −1 as "no window yet"; corpus/C36/negative-timestamps.ops);
  it was repaired in /repo (8e950d955), the model follows, and the C36 theorems now hold for all
  int64 timestamps (`RawIn`, `C36_full_holds`); `C36_truncating_window_false` keeps the old defect.
-/
namespace Thanos.Downsample

/-- projecting the emitted snapshots to one aggregate -/
theorem specEmit_map {β : Type} (lastT : Int) (f : Agg → β) (F : List Int → β) :
    ∀ (gs : List (Int × List Pt)) (hist : List Int),
      (∀ g ∈ gs, ∀ hist, f (snap hist (g.2.map (·.2))) = F (g.2.map (·.2))) →
      (specEmit lastT gs hist).map (fun e => (e.1, f e.2)) =
        gs.map (fun g => (min g.1 lastT, F (g.2.map (·.2))))
  | [], _, _ => rfl
  | (w, g) :: gs, hist, h => by
    simp only [specEmit, List.map_cons]
    rw [h (w, g) (by simp) hist, specEmit_map lastT f F gs _ (fun g' hg' => h g' (List.mem_cons_of_mem _ hg'))]

/-- **Per-window exactness of one batch** (`downsampleFloatBatch`).  For a time-ordered batch the
    count / sum / min / max sub-chunks hold one sample per window run `g` of the batch, at
    `min(window end, last timestamp of the batch)`, with value `|g|`, `Σ g`, `min g`, `max g`. -/
theorem C36_batch (r : Int) (hr : 0 < r) (batch : List Pt) (lastT lv : Int)
    (hlast : batch.getLast? = some (lastT, lv)) (h0 : ∀ p ∈ batch, minInt64 < p.1) (hs : Sorted batch)
    (hfin : ∀ p ∈ batch, Finite p.2) :
    ∃ c, floatBatch batch r = some c ∧
      c.count = (runs r batch).map (fun g => (min g.1 lastT, (g.2.length : Int))) ∧
      c.sum = (runs r batch).map (fun g => (min g.1 lastT, (g.2.map (·.2)).sum)) ∧
      c.min.map (fun p => (p.1, some p.2)) = (runs r batch).map (fun g => (min g.1 lastT, (g.2.map (·.2)).min?)) ∧
      c.max.map (fun p => (p.1, some p.2)) = (runs r batch).map (fun g => (min g.1 lastT, (g.2.map (·.2)).max?)) := by
  have hs' : batch.Pairwise (fun a b => a.1 ≤ b.1) := hs.imp (fun h => Int.le_of_lt h)
  have hb := downsampleBatch_runs r hr batch lastT lv hlast h0 hs'
  have hne : batch ≠ [] := by intro h; simp [h] at hlast
  obtain ⟨first, hfirst⟩ : ∃ f, batch.head? = some f := by
    cases batch with
    | nil => exact absurd rfl hne
    | cons p _ => exact ⟨p, rfl⟩
  -- every run is non-empty and made of finite values
  have hrun : ∀ g ∈ runs r batch, ∃ v vs, g.2.map (·.2) = v :: vs ∧ Finite v := by
    intro g hg
    have hn := runs_ne_nil r batch g hg
    cases hg2 : g.2 with
    | nil => exact absurd hg2 hn
    | cons p ps =>
      refine ⟨p.2, ps.map (·.2), by simp, ?_⟩
      apply hfin
      have : p ∈ (runs r batch).flatMap (·.2) := List.mem_flatMap.mpr ⟨g, hg, by rw [hg2]; simp⟩
      rwa [runs_flatten] at this
  have hfb : ∃ c, floatBatch batch r = some c ∧
      c.count = (specEmit lastT (runs r batch) []).map (fun e => (e.1, (e.2.count : Int))) ∧
      c.sum = (specEmit lastT (runs r batch) []).map (fun e => (e.1, e.2.sum)) ∧
      c.min = (specEmit lastT (runs r batch) []).map (fun e => (e.1, e.2.min)) ∧
      c.max = (specEmit lastT (runs r batch) []).map (fun e => (e.1, e.2.max)) := by
    simp only [floatBatch, hfirst, hlast, hb]
    exact ⟨_, rfl, rfl, rfl, rfl, rfl⟩
  obtain ⟨c, hc, h1, h2, h3, h4⟩ := hfb
  refine ⟨c, hc, ?_, ?_, ?_, ?_⟩
  · rw [h1]
    have := specEmit_map lastT (fun a => (a.count : Int)) (fun vs => (vs.length : Int)) (runs r batch) []
      (fun g _ hist => by simp [snap_count])
    simpa using this
  · rw [h2]
    exact specEmit_map lastT (fun a => a.sum) (fun vs => vs.sum) _ _ (fun g _ hist => by simp [snap_sum])
  · rw [h3, List.map_map]
    exact specEmit_map lastT (fun a => some a.min) (fun vs => vs.min?) _ _ (fun g hg hist => by
      obtain ⟨v, vs, hv, hf⟩ := hrun g hg
      rw [hv]; exact snap_min hist v vs hf.2)
  · rw [h4, List.map_map]
    exact specEmit_map lastT (fun a => some a.max) (fun vs => vs.max?) _ _ (fun g hg hist => by
      obtain ⟨v, vs, hv, hf⟩ := hrun g hg
      rw [hv]; exact snap_max hist v vs hf.1)

/-- the specification side of `C36_batch`: for time-ordered samples the run with window end `w`
    is the set of samples whose window ends at `w`, and every window occurs exactly once -/
theorem C36_runs_spec (r : Int) (hr : 0 < r) (l : List Pt) (hs : Sorted l) :
    (runs r l).flatMap (·.2) = l ∧
    (runs r l).Pairwise (fun a b => a.1 < b.1) ∧
    ∀ g ∈ runs r l, g.2 ≠ [] ∧ g.2 = l.filter (fun p => currentWindow p.1 r = g.1) := by
  have hs' : l.Pairwise (fun a b => a.1 ≤ b.1) := hs.imp (fun h => Int.le_of_lt h)
  exact ⟨runs_flatten r l, runs_keys_sorted r hr l hs',
    fun g hg => ⟨runs_ne_nil r l g hg, runs_eq_filter r hr l hs' g hg⟩⟩

/-- the window end is the last millisecond of the window `[w − r + 1, w]` that contains `t` -/
theorem C36_window (t r : Int) (hr : 0 < r) :
    t ≤ currentWindow t r ∧ currentWindow t r < t + r ∧ (currentWindow t r + 1) % r = 0 :=
  ⟨currentWindow_ge hr, currentWindow_lt hr, currentWindow_aligned hr⟩

/-! ### the whole series -/

/-- last timestamp of a (non-empty) batch -/
def lastT (b : List Pt) : Int := match b.getLast? with | some p => p.1 | none => 0

/-- the non-NaN batches DownsampleRaw cuts the series into for `numChunks = nc` -/
def batchesOf (r : Int) (nc : Nat) (data : List Raw) : List (List Pt) :=
  ptBatches r (data.length / nc + 1) data.length data

/-- the hypotheses of the whole-series theorems of C36: strictly increasing int64 timestamps
    (strictly between MinInt64 and MaxInt64, negative ones included), finite values -/
structure RawIn (data : List Raw) : Prop where
  sorted : SortedRaw data
  lower : ∀ p ∈ data, minInt64 < p.1
  bounded : ∀ p ∈ data, p.1 < maxInt64
  finite : ∀ p ∈ dropNaN data, Finite p.2

/-- … and with timestamps ≥ 0, which the second level (C38, C37) needs: expandXorChunkIterator
    and ApplyCounterResetsSeriesIterator start their `lastT` at 0 -/
structure RawOK (data : List Raw) : Prop where
  sorted : SortedRaw data
  nonneg : ∀ p ∈ data, 0 ≤ p.1
  bounded : ∀ p ∈ data, p.1 < maxInt64
  finite : ∀ p ∈ dropNaN data, Finite p.2

theorem RawOK.toIn {data : List Raw} (ok : RawOK data) : RawIn data :=
  ⟨ok.sorted, fun p hp => by have := ok.nonneg p hp; have := minInt64_val; omega, ok.bounded, ok.finite⟩

theorem batch_facts {r : Int} {nc : Nat} {data : List Raw} (ok : RawIn data)
    (hflat : (batchesOf r nc data).flatten = dropNaN data) (hne : ∀ b ∈ batchesOf r nc data, b ≠ []) :
    ∀ b ∈ batchesOf r nc data, Sorted b ∧ (∀ p ∈ b, minInt64 < p.1) ∧ (∀ p ∈ b, p.1 < maxInt64) ∧ (∀ p ∈ b, Finite p.2) ∧
      ∃ t0 v0 lt lv, b.head? = some (t0, v0) ∧ b.getLast? = some (lt, lv) ∧ lastT b = lt := by
  intro b hb
  have hsub : ∀ p ∈ b, p ∈ dropNaN data := fun p hp => hflat ▸ List.mem_flatten.mpr ⟨b, hb, hp⟩
  have hsorted : Sorted (batchesOf r nc data).flatten := hflat ▸ sorted_dropNaN ok.sorted
  refine ⟨(List.pairwise_flatten.mp hsorted).1 b hb, fun p hp => ok.lower _ (mem_dropNaN (hsub p hp)),
    fun p hp => ok.bounded _ (mem_dropNaN (hsub p hp)), fun p hp => ok.finite p (hsub p hp), ?_⟩
  have := hne b hb
  cases b with
  | nil => exact absurd rfl this
  | cons p ps =>
    cases hl : (p :: ps).getLast? with
    | none => simp at hl
    | some l => exact ⟨p.1, p.2, l.1, l.2, rfl, rfl, by simp [lastT, hl]⟩

/-- **C36, per window, for the whole series.**  DownsampleRaw cuts the non-NaN samples into
    non-empty batches that never split a window (`Aligned`), so the window runs of the series are
    the window runs of the batches; it produces one chunk per batch, and the count / sum / min /
    max sub-chunks of the chunks, concatenated, hold for every window run `g` of every batch `b`
    one sample at `min(window end, last timestamp of b)` with `|g|`, `Σ g`, `min g`, `max g`. -/
theorem C36_windows (r : Int) (hr : 0 < r) (data : List Raw) (nc : Nat) (hnc : 0 < nc) (ok : RawIn data) :
    ∃ chunks, downsampleRaw data r nc = some chunks ∧
      let bs := batchesOf r nc data
      bs.flatten = dropNaN data ∧ (∀ b ∈ bs, b ≠ []) ∧ Aligned r bs ∧
      bs.flatMap (runs r) = runs r (dropNaN data) ∧
      chunks.length = bs.length ∧
      chunks.flatMap (·.count) = bs.flatMap (fun b => (runs r b).map fun g => (min g.1 (lastT b), (g.2.length : Int))) ∧
      chunks.flatMap (·.sum) = bs.flatMap (fun b => (runs r b).map fun g => (min g.1 (lastT b), (g.2.map (·.2)).sum)) ∧
      chunks.flatMap (fun c => c.min.map fun p => (p.1, some p.2)) =
        bs.flatMap (fun b => (runs r b).map fun g => (min g.1 (lastT b), (g.2.map (·.2)).min?)) ∧
      chunks.flatMap (fun c => c.max.map fun p => (p.1, some p.2)) =
        bs.flatMap (fun b => (runs r b).map fun g => (min g.1 (lastT b), (g.2.map (·.2)).max?)) := by
  obtain ⟨chunks, hc, hflat, hne, hal, hmap⟩ := downsampleRaw_batches r hr data nc hnc ok.sorted
  have hbf := batch_facts (r := r) (nc := nc) ok hflat hne
  -- per batch: C36_batch
  have hper : ∀ b ∈ batchesOf r nc data, ∀ c, floatBatch b r = some c →
      c.count = (runs r b).map (fun g => (min g.1 (lastT b), (g.2.length : Int))) ∧
      c.sum = (runs r b).map (fun g => (min g.1 (lastT b), (g.2.map (·.2)).sum)) ∧
      c.min.map (fun p => (p.1, some p.2)) = (runs r b).map (fun g => (min g.1 (lastT b), (g.2.map (·.2)).min?)) ∧
      c.max.map (fun p => (p.1, some p.2)) = (runs r b).map (fun g => (min g.1 (lastT b), (g.2.map (·.2)).max?)) := by
    intro b hb c hfc
    obtain ⟨hs, h0, _, hf, t0, v0, lt, lv, _, hl, hlt⟩ := hbf b hb
    obtain ⟨c', hc', h1, h2, h3, h4⟩ := C36_batch r hr b lt lv hl h0 hs hf
    rw [hfc] at hc'
    cases hc'
    rw [hlt]
    exact ⟨h1, h2, h3, h4⟩
  refine ⟨chunks, hc, hflat, hne, hal, (runs_flatten_aligned r _ hal hne ▸ hflat ▸ rfl), ?_, ?_, ?_, ?_, ?_⟩
  · have := congrArg List.length hmap
    simpa [batchesOf] using this
  · exact flatMap_of_map_some _ _ _ _ _ hmap (fun b hb c h => (hper b hb c h).1)
  · exact flatMap_of_map_some _ _ _ _ _ hmap (fun b hb c h => (hper b hb c h).2.1)
  · exact flatMap_of_map_some _ _ _ _ _ hmap (fun b hb c h => (hper b hb c h).2.2.1)
  · exact flatMap_of_map_some _ _ _ _ _ hmap (fun b hb c h => (hper b hb c h).2.2.2)

/-- **C36, values, independent of the batching**: the concatenated count (sum, min, max)
    sub-chunks carry, in order, `|g|` (`Σ g`, `min g`, `max g`) for the window runs `g` of the
    non-NaN samples of the whole series — with `C36_runs_spec`: for every window that contains a
    non-NaN sample exactly one output sample, aggregating exactly the samples of that window. -/
theorem C36_values (r : Int) (hr : 0 < r) (data : List Raw) (nc : Nat) (hnc : 0 < nc) (ok : RawIn data) :
    ∃ chunks, downsampleRaw data r nc = some chunks ∧
      (chunks.flatMap (·.count)).map (·.2) = (runs r (dropNaN data)).map (fun g => (g.2.length : Int)) ∧
      (chunks.flatMap (·.sum)).map (·.2) = (runs r (dropNaN data)).map (fun g => (g.2.map (·.2)).sum) ∧
      (chunks.flatMap (·.min)).map (fun p => some p.2) = (runs r (dropNaN data)).map (fun g => (g.2.map (·.2)).min?) ∧
      (chunks.flatMap (·.max)).map (fun p => some p.2) = (runs r (dropNaN data)).map (fun g => (g.2.map (·.2)).max?) := by
  obtain ⟨chunks, hc, _, _, _, hruns, _, h1, h2, h3, h4⟩ := C36_windows r hr data nc hnc ok
  refine ⟨chunks, hc, ?_, ?_, ?_, ?_⟩
  · rw [h1, flatMap_runs_values, hruns]
  · rw [h2, flatMap_runs_values, hruns]
  · have : (chunks.flatMap (·.min)).map (fun p => some p.2) =
        (chunks.flatMap (fun c => c.min.map fun p => (p.1, some p.2))).map (·.2) := by
      simp [List.map_flatMap, List.map_map, Function.comp_def]
    rw [this, h3, flatMap_runs_values, hruns]
  · have : (chunks.flatMap (·.max)).map (fun p => some p.2) =
        (chunks.flatMap (fun c => c.max.map fun p => (p.1, some p.2))).map (·.2) := by
      simp [List.map_flatMap, List.map_map, Function.comp_def]
    rw [this, h4, flatMap_runs_values, hruns]

/-- **C36, totals**: Σ count = number of non-NaN raw samples, Σ sum = Σ of their values -/
theorem C36_totals (r : Int) (hr : 0 < r) (data : List Raw) (nc : Nat) (hnc : 0 < nc) (ok : RawIn data) :
    ∃ chunks, downsampleRaw data r nc = some chunks ∧
      ((chunks.flatMap (·.count)).map (·.2)).sum = ((dropNaN data).length : Int) ∧
      ((chunks.flatMap (·.sum)).map (·.2)).sum = ((dropNaN data).map (·.2)).sum := by
  obtain ⟨chunks, hc, h1, h2, _, _⟩ := C36_values r hr data nc hnc ok
  refine ⟨chunks, hc, ?_, ?_⟩
  · rw [h1, sum_lengths, runs_flatten]
  · rw [h2, sum_sums, runs_flatten]

/-- **C36, overall minimum and maximum**: the least sample of the min aggregate is the least
    non-NaN raw value, the greatest sample of the max aggregate the greatest -/
theorem C36_minmax (r : Int) (hr : 0 < r) (data : List Raw) (nc : Nat) (hnc : 0 < nc) (ok : RawIn data) :
    ∃ chunks, downsampleRaw data r nc = some chunks ∧
      ((chunks.flatMap (·.min)).map (·.2)).min? = ((dropNaN data).map (·.2)).min? ∧
      ((chunks.flatMap (·.max)).map (·.2)).max? = ((dropNaN data).map (·.2)).max? := by
  obtain ⟨chunks, hc, _, _, h3, h4⟩ := C36_values r hr data nc hnc ok
  refine ⟨chunks, hc, ?_, ?_⟩
  · apply min?_eq_of_foldl_all
    intro M
    have := foldl_min_groups (runs r (dropNaN data)) ((chunks.flatMap (·.min)).map (·.2)) M
      (by simpa [List.map_map, Function.comp_def] using h3)
    rw [this, runs_flatten]
  · apply max?_eq_of_foldl_all
    intro M
    have := foldl_max_groups (runs r (dropNaN data)) ((chunks.flatMap (·.max)).map (·.2)) M
      (by simpa [List.map_map, Function.comp_def] using h4)
    rw [this, runs_flatten]

/-- what `floatBatch_shape` says about a chunk `c` made from batch `b` -/
theorem chunk_shape {r : Int} (hr : 0 < r) {nc : Nat} {data : List Raw} (ok : RawIn data)
    (hflat : (batchesOf r nc data).flatten = dropNaN data) (hne : ∀ b ∈ batchesOf r nc data, b ≠ [])
    (b : List Pt) (hb : b ∈ batchesOf r nc data) (c : Chunk) (hfc : floatBatch b r = some c) :
    ∃ ts t0 v0, b.head? = some (t0, v0) ∧ c.count.map (·.1) = ts ∧ c.sum.map (·.1) = ts ∧ c.min.map (·.1) = ts ∧
      c.max.map (·.1) = ts ∧ ts.Pairwise (· < ·) ∧ (∀ t ∈ ts, t0 ≤ t ∧ t ≤ lastT b) ∧ ts.getLast? = some (lastT b) ∧
      ts.head? = some c.mint ∧ c.maxt = lastT b := by
  obtain ⟨hs, h0, hb64, _, t0, v0, lt, lv, hh, hl, hlt⟩ := batch_facts (r := r) (nc := nc) ok hflat hne b hb
  obtain ⟨c', ts, hc', p1, p2, p3, p4, p5, p6, p7, p8, p9, _⟩ :=
    floatBatch_shape r hr b t0 v0 lt lv hh hl h0 hs (hb64 _ (List.mem_of_getLast? hl))
  rw [hfc] at hc'
  cases hc'
  rw [hlt]
  exact ⟨ts, t0, v0, hh, p1, p2, p3, p4, p5, p6, p7, p8, p9⟩

/-- **C36, chunk layout**: in every chunk the four aggregates carry the same strictly increasing
    timestamps, `[MinTime, MaxTime]` is [first, last] of them, and consecutive chunks do not
    overlap (`MaxTime` of a chunk < `MinTime` of every later one). -/
theorem C36_chunks_ordered (r : Int) (hr : 0 < r) (data : List Raw) (nc : Nat) (hnc : 0 < nc) (ok : RawIn data) :
    ∃ chunks, downsampleRaw data r nc = some chunks ∧
      (∀ c ∈ chunks, ∃ ts, c.count.map (·.1) = ts ∧ c.sum.map (·.1) = ts ∧ c.min.map (·.1) = ts ∧ c.max.map (·.1) = ts ∧
        ts.Pairwise (· < ·) ∧ ts.head? = some c.mint ∧ ts.getLast? = some c.maxt) ∧
      chunks.Pairwise (fun c1 c2 => c1.maxt < c2.mint) := by
  obtain ⟨chunks, hc, hflat, hne, _, hmap⟩ := downsampleRaw_batches r hr data nc hnc ok.sorted
  have hshape := chunk_shape hr (nc := nc) ok hflat hne
  refine ⟨chunks, hc, ?_, ?_⟩
  · refine forall_of_map_some (fun b => floatBatch b r) (fun c => ∃ ts, c.count.map (·.1) = ts ∧ c.sum.map (·.1) = ts ∧
        c.min.map (·.1) = ts ∧ c.max.map (·.1) = ts ∧ ts.Pairwise (· < ·) ∧ ts.head? = some c.mint ∧
        ts.getLast? = some c.maxt) _ _ hmap ?_
    intro b hb c hfc
    obtain ⟨ts, _, _, _, p1, p2, p3, p4, p5, _, p7, p8, p9⟩ := hshape b hb c hfc
    exact ⟨ts, p1, p2, p3, p4, p5, p8, p9 ▸ p7⟩
  · have hsorted : Sorted (batchesOf r nc data).flatten := hflat ▸ sorted_dropNaN ok.sorted
    refine pairwise_of_map_some _ _ _ _ _ hmap (List.pairwise_flatten.mp hsorted).2 ?_
    intro b1 hb1 b2 hb2 c1 c2 hlt h1 h2
    obtain ⟨_, _, _, _, _, _, _, _, _, _, _, _, q9⟩ := hshape b1 hb1 c1 h1
    obtain ⟨ts2, t0, v0, hh2, _, _, _, _, _, p6, _, p8, _⟩ := hshape b2 hb2 c2 h2
    -- the last sample of b1 is before the first of b2, which is at most c2.mint
    have hl1 : ∃ lv, (lastT b1, lv) ∈ b1 := by
      obtain ⟨_, _, _, _, _, _, lt, lv, _, hl, hlt'⟩ := batch_facts (r := r) (nc := nc) ok hflat hne b1 hb1
      exact ⟨lv, hlt' ▸ List.mem_of_getLast? hl⟩
    obtain ⟨lv, hl1⟩ := hl1
    have hmem2 : (t0, v0) ∈ b2 := by
      cases b2 with
      | nil => simp at hh2
      | cons p ps => simp at hh2; rw [← hh2]; simp
    have h12 := hlt _ hl1 _ hmem2
    have hmint : t0 ≤ c2.mint := (p6 c2.mint (List.mem_of_mem_head? p8)).1
    simp only at h12
    omega

/-- **C36, read-back**: reading the count (sum, min, max) aggregate of the produced chunks through
    the querier's chunk iterator returns exactly the concatenation of the sub-chunks — i.e. the
    window samples of `C36_windows`. -/
theorem C36_readback (r : Int) (hr : 0 < r) (data : List Raw) (nc : Nat) (hnc : 0 < nc) (ok : RawIn data) :
    ∃ chunks, downsampleRaw data r nc = some chunks ∧
      chunkSeriesIter (chunks.map (·.count)) = chunks.flatMap (·.count) ∧
      chunkSeriesIter (chunks.map (·.sum)) = chunks.flatMap (·.sum) ∧
      chunkSeriesIter (chunks.map (·.min)) = chunks.flatMap (·.min) ∧
      chunkSeriesIter (chunks.map (·.max)) = chunks.flatMap (·.max) := by
  obtain ⟨chunks, hc, hsh, hord⟩ := C36_chunks_ordered r hr data nc hnc ok
  -- generic: a selector whose timestamps are those of the chunk
  have key : ∀ (sel : Chunk → List Pt), (∀ c ∈ chunks, ∃ ts, (sel c).map (·.1) = ts ∧ ts.head? = some c.mint ∧
      ts.getLast? = some c.maxt) → chunkSeriesIter (chunks.map sel) = chunks.flatMap sel := by
    intro sel hsel
    rw [chunkSeriesIter_ordered, List.flatMap_def]
    · intro l hl
      obtain ⟨c, hcm, rfl⟩ := List.mem_map.mp hl
      obtain ⟨ts, h1, h2, _⟩ := hsel c hcm
      intro he
      rw [he] at h1
      rw [← h1] at h2
      simp at h2
    · rw [List.pairwise_map]
      refine hord.imp_of_mem ?_
      intro c1 c2 hc1 hc2 hlt
      obtain ⟨ts1, e1, _, l1⟩ := hsel c1 hc1
      obtain ⟨ts2, e2, f2, _⟩ := hsel c2 hc2
      rw [← e1, List.getLast?_map] at l1
      rw [← e2, List.head?_map] at f2
      cases hl : (sel c1).getLast? with
      | none => rw [hl] at l1; simp at l1
      | some p =>
        cases hh : (sel c2).head? with
        | none => rw [hh] at f2; simp at f2
        | some q =>
          rw [hl] at l1; rw [hh] at f2
          simp only [Option.map_some, Option.some.injEq] at l1 f2
          simp only [chunkAtT, hl]
          omega
  refine ⟨chunks, hc, key _ ?_, key _ ?_, key _ ?_, key _ ?_⟩
  · intro c hcm; obtain ⟨ts, p1, p2, p3, p4, _, p6, p7⟩ := hsh c hcm; exact ⟨ts, p1, p6, p7⟩
  · intro c hcm; obtain ⟨ts, p1, p2, p3, p4, _, p6, p7⟩ := hsh c hcm; exact ⟨ts, p2, p6, p7⟩
  · intro c hcm; obtain ⟨ts, p1, p2, p3, p4, _, p6, p7⟩ := hsh c hcm; exact ⟨ts, p3, p6, p7⟩
  · intro c hcm; obtain ⟨ts, p1, p2, p3, p4, _, p6, p7⟩ := hsh c hcm; exact ⟨ts, p4, p6, p7⟩

/-- **C36, well-formedness of the result** (what re-downsampling, C38, relies on): per chunk the
    four aggregates are non-empty and share their timestamps, min/max values are finite; over the
    series the timestamps strictly increase, are ≥ 0 and below MaxInt64. -/
theorem C36_wellformed (r : Int) (hr : 0 < r) (data : List Raw) (nc : Nat) (hnc : 0 < nc) (ok : RawOK data) :
    ∃ chunks, downsampleRaw data r nc = some chunks ∧ WFChunks chunks := by
  obtain ⟨chunks, hc, hflat, hne, _, hmap⟩ := downsampleRaw_batches r hr data nc hnc ok.sorted
  obtain ⟨chunks', hc', hsh, hord⟩ := C36_chunks_ordered r hr data nc hnc ok.toIn
  rw [hc] at hc'; cases hc'
  have hshape := chunk_shape hr (nc := nc) ok.toIn hflat hne
  have hbf := batch_facts (r := r) (nc := nc) ok.toIn hflat hne
  -- bounds of every timestamp of a chunk
  have hrange : ∀ c ∈ chunks, ∀ t ∈ c.count.map (·.1), 0 ≤ t ∧ t < maxInt64 := by
    refine forall_of_map_some (fun b => floatBatch b r) (fun c => ∀ t ∈ c.count.map (·.1), 0 ≤ t ∧ t < maxInt64) _ _ hmap ?_
    intro b hb c hfc t ht
    obtain ⟨ts, t0, v0, hh, p1, _, _, _, _, p6, _, _, _⟩ := hshape b hb c hfc
    obtain ⟨_, h0, h64, _, _, _, lt, lv, _, hl, hlt⟩ := hbf b hb
    have hb6 := p6 t (p1 ▸ ht)
    have h1 : 0 ≤ t0 := by
      have hm : (t0, v0) ∈ b := List.mem_of_mem_head? (by rw [hh]; rfl)
      have : (t0, v0) ∈ dropNaN data := hflat ▸ List.mem_flatten.mpr ⟨b, hb, hm⟩
      exact nonneg_dropNaN ok.nonneg _ this
    have h2 : lastT b < maxInt64 := hlt ▸ h64 _ (List.mem_of_getLast? hl)
    omega
  refine ⟨chunks, hc, ⟨?_, ?_, ?_⟩⟩
  · refine forall_of_map_some (fun b => floatBatch b r) WFChunk _ _ hmap ?_
    intro b hb c hfc
    obtain ⟨ts, t0, v0, hh, p1, p2, p3, p4, _, _, _, p8, _⟩ := hshape b hb c hfc
    obtain ⟨hs, h0, _, hf, _, _, lt, lv, _, hl, hlt⟩ := hbf b hb
    obtain ⟨c', hc', _, _, h3, h4⟩ := C36_batch r hr b lt lv hl h0 hs hf
    rw [hfc] at hc'; cases hc'
    have hfinrun : ∀ g ∈ runs r b, ∀ q ∈ g.2, Finite q.2 := by
      intro g hg q hq
      apply hf
      have : q ∈ (runs r b).flatMap (·.2) := List.mem_flatMap.mpr ⟨g, hg, hq⟩
      rwa [runs_flatten] at this
    refine ⟨?_, p2.trans p1.symm, p3.trans p1.symm, p4.trans p1.symm, ?_, ?_⟩
    · intro he
      rw [he] at p1
      rw [← p1] at p8
      simp at p8
    · intro p hp
      have : (p.1, some p.2) ∈ c.min.map (fun p => (p.1, some p.2)) := List.mem_map.mpr ⟨p, hp, rfl⟩
      rw [h3] at this
      obtain ⟨g, hg, hge⟩ := List.mem_map.mp this
      simp only [Prod.mk.injEq] at hge
      have hm := List.min?_mem hge.2
      obtain ⟨q, hq, hqv⟩ := List.mem_map.mp hm
      rw [← hqv]; exact (hfinrun g hg q hq).2
    · intro p hp
      have : (p.1, some p.2) ∈ c.max.map (fun p => (p.1, some p.2)) := List.mem_map.mpr ⟨p, hp, rfl⟩
      rw [h4] at this
      obtain ⟨g, hg, hge⟩ := List.mem_map.mp this
      simp only [Prod.mk.injEq] at hge
      have hm := List.max?_mem hge.2
      obtain ⟨q, hq, hqv⟩ := List.mem_map.mp hm
      rw [← hqv]; exact (hfinrun g hg q hq).1
  · rw [List.flatMap_def, List.map_flatten, List.pairwise_flatten]
    constructor
    · intro l hl
      simp only [List.map_map, List.mem_map, Function.comp_apply] at hl
      obtain ⟨c, hcm, rfl⟩ := hl
      obtain ⟨ts, p1, _, _, _, p5, _, _⟩ := hsh c hcm
      rw [p1]; exact p5
    · rw [List.pairwise_map, List.pairwise_map]
      refine hord.imp_of_mem ?_
      intro c1 c2 hc1 hc2 hlt x hx y hy
      obtain ⟨ts1, e1, _, _, _, s1, hh1, hl1⟩ := hsh c1 hc1
      obtain ⟨ts2, e2, _, _, _, s2, hh2, hl2⟩ := hsh c2 hc2
      have b1 := (sorted_bounds ts1 _ _ s1 hh1 hl1 x (e1 ▸ hx)).2
      have b2 := (sorted_bounds ts2 _ _ s2 hh2 hl2 y (e2 ▸ hy)).1
      omega
  · intro t ht
    obtain ⟨p, hp, rfl⟩ := List.mem_map.mp ht
    obtain ⟨c, hcm, hpc⟩ := List.mem_flatMap.mp hp
    exact hrange c hcm p.1 (List.mem_map.mpr ⟨p, hpc, rfl⟩)

/-- **C36, read-back over any range.**  Reading the count (sum, min, max) aggregate through the
    querier's series bounded to `[mint, maxt]` (chunkSeriesIterator over ALL chunks of the series,
    wrapped by the bounded iterator) returns exactly the samples of the concatenated sub-chunks —
    the window aggregates of `C36_windows` — whose timestamp lies in `[mint, maxt]`, both ends
    inclusive, for every `mint`, `maxt` (chunk boundaries, point ranges, empty ranges included). -/
theorem C36_readback_range (r : Int) (hr : 0 < r) (data : List Raw) (nc : Nat) (hnc : 0 < nc) (ok : RawOK data)
    (mint maxt : Int) :
    ∃ chunks, downsampleRaw data r nc = some chunks ∧
      boundedDrain mint maxt (chunkSeriesIter (chunks.map (·.count))) =
        (chunks.flatMap (·.count)).filter (fun p => mint ≤ p.1 ∧ p.1 ≤ maxt) ∧
      boundedDrain mint maxt (chunkSeriesIter (chunks.map (·.sum))) =
        (chunks.flatMap (·.sum)).filter (fun p => mint ≤ p.1 ∧ p.1 ≤ maxt) ∧
      boundedDrain mint maxt (chunkSeriesIter (chunks.map (·.min))) =
        (chunks.flatMap (·.min)).filter (fun p => mint ≤ p.1 ∧ p.1 ≤ maxt) ∧
      boundedDrain mint maxt (chunkSeriesIter (chunks.map (·.max))) =
        (chunks.flatMap (·.max)).filter (fun p => mint ≤ p.1 ∧ p.1 ≤ maxt) := by
  obtain ⟨chunks, hc, r1, r2, r3, r4⟩ := C36_readback r hr data nc hnc ok.toIn
  obtain ⟨chunks', hc', hwf⟩ := C36_wellformed r hr data nc hnc ok
  rw [hc] at hc'; cases hc'
  have hsorted : ∀ (sel : Chunk → List Pt), (∀ c ∈ chunks, (sel c).map (·.1) = c.count.map (·.1)) →
      Sorted (chunks.flatMap sel) := by
    intro sel hsel
    unfold Sorted
    have := hwf.sorted
    rw [← flatMap_ts_eq sel chunks hsel] at this
    exact List.pairwise_map.mp this
  refine ⟨chunks, hc, ?_, ?_, ?_, ?_⟩
  · rw [r1]; exact boundedDrain_sorted mint maxt _ (hsorted _ (fun _ _ => rfl))
  · rw [r2]; exact boundedDrain_sorted mint maxt _ (hsorted _ (fun c hc => (hwf.each c hc).sumT))
  · rw [r3]; exact boundedDrain_sorted mint maxt _ (hsorted _ (fun c hc => (hwf.each c hc).minT))
  · rw [r4]; exact boundedDrain_sorted mint maxt _ (hsorted _ (fun c hc => (hwf.each c hc).maxT))

/-- Regenerated obligations about the querier's series: every loop of `chunkSeries.Iterator` that
    builds the per-chunk iterators ranges over all chunks of the series (no trimming: the model's
    `chunkSeriesIter` gets every chunk), and the result is wrapped by the bounded iterator with the
    series' `mint`, `maxt`. -/
theorem C36_querier_facts :
    Thanos.Facts.dsQuerierChunkLoops = ["range s.chunks", "range s.chunks", "range s.chunks", "range s.chunks",
      "range s.chunks", "range s.chunks"] ∧
    Thanos.Facts.dsQuerierBounded = ["dedup.NewBoundedSeriesIterator(sit, s.mint, s.maxt)",
      "dedup.NewBoundedSeriesIterator(sit, s.mint, s.maxt)"] :=
  ⟨by decide, rfl⟩

/-- int64: for timestamps and resolutions below 2^62 every intermediate value of `currentWindow`
    (and `lastT + 1` in the readers) stays inside int64, so the `Int` model and the Go code agree -/
theorem C36_no_overflow (t r : Int) (ht : 0 ≤ t) (ht' : t < 2 ^ 62) (hr : 0 < r) (hr' : r < 2 ^ 62) :
    0 ≤ t % r ∧ 0 ≤ t - t % r ∧ t - t % r + r ≤ maxInt64 ∧ 0 ≤ currentWindow t r ∧ currentWindow t r < maxInt64 ∧
      t + 1 ≤ maxInt64 := by
  have h1 := Int.emod_nonneg t (show r ≠ 0 by omega)
  have h2 := Int.emod_lt_of_pos t hr
  have h3 : t % r ≤ t := by
    have h4 := Int.emod_add_mul_ediv t r
    have h5 : 0 ≤ r * (t / r) := Int.mul_nonneg (by omega) (Int.ediv_nonneg ht (by omega))
    omega
  have hcw := currentWindow_eq (t := t) hr
  have hm : maxInt64 = 2 ^ 63 - 1 := maxInt64_eq
  refine ⟨h1, by omega, by omega, by omega, by omega, by omega⟩

/-! ### full strength: all strictly increasing series, timestamps before 1970 included -/

/-- C36 (its totals part) for all strictly increasing int64 series, negative timestamps included -/
def C36_full : Prop :=
  ∀ (r : Int) (data : List Raw) (nc : Nat), 0 < r → 0 < nc → SortedRaw data →
    (∀ p ∈ data, minInt64 < p.1 ∧ p.1 < maxInt64) → (∀ p ∈ dropNaN data, Finite p.2) →
    ∃ chunks, downsampleRaw data r nc = some chunks ∧
      ((chunks.flatMap (·.count)).map (·.2)).sum = ((dropNaN data).length : Int)

/-- Since the repair of F36 (floored remainder in `currentWindow`, `math.MinInt64` as "no window
    yet") the property holds at full strength — and so do the window-level statements
    `C36_windows` … `C36_readback`, whose hypothesis `RawIn` admits negative timestamps. -/
theorem C36_full_holds : C36_full := by
  intro r data nc hr hnc hs hb hf
  obtain ⟨chunks, hc, h1, _⟩ := C36_totals r hr data nc hnc ⟨hs, fun p hp => (hb p hp).1, fun p hp => (hb p hp).2, hf⟩
  exact ⟨chunks, hc, h1⟩

/-- F36, before the repair: `currentWindow` with Go's truncating `%` puts the timestamp −5
    (resolution 50) into the window that ends at 49 — the window of the timestamp 3 — instead of
    the window [−50, −1]; together with `nextT = -1` as "no window yet" this made DownsampleRaw
    lose samples before the epoch (corpus/C36/negative-timestamps.ops). -/
theorem C36_truncating_window_false :
    ¬ (∀ t r : Int, 0 < r → t ≤ currentWindowTrunc t r ∧ currentWindowTrunc t r < t + r) := by
  intro h
  have := (h (-5) 50 (by decide)).2
  revert this
  decide

-- after the repair the two samples at −5 and 3 are both counted, in their own windows
example : (downsampleRaw [(-5, some 7), (3, some 9)] 50 1).map (fun cs => cs.map (·.count)) =
    some [[(-1, 1), (3, 1)]] := by decide

/-- Regenerated obligations: the conditions and expressions of the source that the model
    transliterates (a change of any of them breaks this theorem at `lake build` time). -/
theorem C36_source_facts :
    Thanos.Facts.dsCurrentWindowRem = "t % r" ∧ Thanos.Facts.dsCurrentWindowConds = ["m < 0"] ∧
    Thanos.Facts.dsCurrentWindow = "t - m + r - 1" ∧
    Thanos.Facts.dsBatchNextTInit = "int64(math.MinInt64)" ∧
    Thanos.Facts.dsBatchConds = ["s.t > nextT", "nextT != math.MinInt64", "aggr.processedSamples() > 0"] ∧
    Thanos.Facts.dsBatchNextT = "min( currentWindow(s.t, resolution), lastT)" ∧
    Thanos.Facts.dsRawBatchSize = "(len(data) / numChunks) + 1" ∧
    Thanos.Facts.dsRawLoops = ["len(data) > 0", "j < len(data) && data[j].t <= curW", "range data[:j]"] ∧
    Thanos.Facts.dsRawCurW = "currentWindow(data[j-1].t, resolution)" ∧
    Thanos.Facts.dsAggregatorAddConds = ["a.total > 0", "s.v < a.last", "s.v < a.min", "s.v > a.max"] := by
  decide

/-- Regenerated obligations about the entry points, i.e. how the modelled functions are composed:
    DownsampleRaw hands `downsampleFloatBatch` itself to the loop and that function gives
    `downsampleBatch` a fresh `&floatAggregator{}` per batch (the model's `floatBatch` starts from
    `Agg.zero`); the block-level `Downsample()` calls DownsampleRaw for a raw series only when the
    chunk encoding changes and once after the loop over the series' chunks — never on a partial
    buffer (the model's `downsampleRaw` gets the whole series). -/
theorem C36_entry_facts :
    Thanos.Facts.dsRawBatchFn = ["downsampleHistogramBatch", "downsampleFloatBatch"] ∧
    Thanos.Facts.dsFloatBatchAggr = ["&floatAggregator{}"] ∧
    Thanos.Facts.dsFloatBatchCalls = ["newAggrChunkBuilder", "Append", "downsampleBatch", "Append", "encode"] ∧
    Thanos.Facts.dsDownsampleRawCalls =
      ["for postings.Next() > if origMeta.Thanos.Downsample.Resolution == 0 > for range chks > if cutNewChunk(c.Chunk.Encoding(), prevEnc)",
       "for postings.Next() > if origMeta.Thanos.Downsample.Resolution == 0",
       "for postings.Next() > else-of origMeta.Thanos.Downsample.Resolution == 0 > for range chks > else-of c.Chunk.NumSamples() == 0"] :=
  ⟨by decide, by decide, by decide, rfl⟩

-- non-vacuity: the batch of TestDownsampleCounterBoundaryReset's first chunk and a two-window batch
example : floatBatch [(10, 1), (20, 3), (30, 5)] 50 =
    some { mint := 30, maxt := 30, count := [(30, 3)], sum := [(30, 9)], min := [(30, 1)], max := [(30, 5)],
           counter := [(10, 1), (30, 5), (30, 5)] } := by decide
example : runs 50 [(10, 1), (20, 3), (60, 5), (70, 2)] = [(49, [(10, 1), (20, 3)]), (99, [(60, 5), (70, 2)])] := by decide
example : (floatBatch [(10, 1), (20, 3), (60, 5), (70, 2)] 50).map (·.sum) = some [(49, 4), (70, 7)] := by decide
example : Sorted [(10, 1), (20, 3), (60, 5), (70, 2)] := by simp [Sorted]
example : Finite 5 := by decide
-- the whole-series hypotheses are met by a series with a NaN, a window-end sample and a gap …
example : RawOK [(1, some 1), (2, none), (49, some 3), (50, some 2), (260, some 9)] := by
  refine ⟨by simp [SortedRaw], by decide, by decide, by decide⟩
-- … on which two chunks are produced for numChunks = 2 (batch size 3, extended to the window end)
example : (downsampleRaw [(1, some 1), (2, none), (49, some 3), (50, some 2), (260, some 9)] 50 2).map
    (fun cs => cs.map (·.sum)) = some [[(49, 4)], [(99, 2), (260, 9)]] := by decide
example : batchesOf 50 2 [(1, some 1), (2, none), (49, some 3), (50, some 2), (260, some 9)] =
    [[(1, 1), (49, 3)], [(50, 2), (260, 9)]] := by decide

end Thanos.Downsample
