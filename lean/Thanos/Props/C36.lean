import Thanos.Lemmas.Downsample
import Thanos.Generated.Facts
/-
  C36 — Raw downsampling aggregates are exact.
  Model: Model/Downsample.lean (transliteration of DownsampleRaw / downsampleRawLoop /
  downsampleBatch / floatAggregator / aggrChunkBuilder and of query.chunkSeriesIterator);
  specification: Model/DownsampleSpec.lean (`runs` = grouping by window).
  Domain of the theorems: timestamps ≥ 0 and strictly increasing, resolution > 0, values finite
  floats (|v| ≤ MaxFloat64), numChunks ≥ 1.  Negative timestamps are outside: `currentWindow`
  uses Go's truncating `%` and the loop uses −1 as "no window yet".
-/
namespace Thanos.Downsample

/-- projecting the emitted snapshots to one aggregate -/
theorem specEmit_map {β : Type} (lastT : Int) (f : Agg → β) (F : List Int → β) :
    ∀ (gs : List (Int × List Pt)) (hist : List Int),
      (∀ g ∈ gs, ∀ hist, f (snap hist (g.2.map (·.2))) = F (g.2.map (·.2))) →
      (specEmit lastT gs hist).map (fun e => (e.1, f e.2)) =
        gs.map (fun g => (min g.1 lastT, F (g.2.map (·.2))))
  | [], _, _ => rfl
  | (w, g) :: gs, hist, h => by
    simp only [specEmit, List.map_cons]
    rw [h (w, g) (by simp) hist, specEmit_map lastT f F gs _ (fun g' hg' => h g' (List.mem_cons_of_mem _ hg'))]

/-- **Per-window exactness of one batch** (`downsampleFloatBatch`).  For a time-ordered batch the
    count / sum / min / max sub-chunks hold one sample per window run `g` of the batch, at
    `min(window end, last timestamp of the batch)`, with value `|g|`, `Σ g`, `min g`, `max g`. -/
theorem C36_batch (r : Int) (hr : 0 < r) (batch : List Pt) (lastT lv : Int)
    (hlast : batch.getLast? = some (lastT, lv)) (h0 : ∀ p ∈ batch, 0 ≤ p.1) (hs : Sorted batch)
    (hfin : ∀ p ∈ batch, Finite p.2) :
    ∃ c, floatBatch batch r = some c ∧
      c.count = (runs r batch).map (fun g => (min g.1 lastT, (g.2.length : Int))) ∧
      c.sum = (runs r batch).map (fun g => (min g.1 lastT, (g.2.map (·.2)).sum)) ∧
      c.min.map (fun p => (p.1, some p.2)) = (runs r batch).map (fun g => (min g.1 lastT, (g.2.map (·.2)).min?)) ∧
      c.max.map (fun p => (p.1, some p.2)) = (runs r batch).map (fun g => (min g.1 lastT, (g.2.map (·.2)).max?)) := by
  have hs' : batch.Pairwise (fun a b => a.1 ≤ b.1) := hs.imp (fun h => Int.le_of_lt h)
  have hb := downsampleBatch_runs r hr batch lastT lv hlast h0 hs'
  have hne : batch ≠ [] := by intro h; simp [h] at hlast
  obtain ⟨first, hfirst⟩ : ∃ f, batch.head? = some f := by
    cases batch with
    | nil => exact absurd rfl hne
    | cons p _ => exact ⟨p, rfl⟩
  -- every run is non-empty and made of finite values
  have hrun : ∀ g ∈ runs r batch, ∃ v vs, g.2.map (·.2) = v :: vs ∧ Finite v := by
    intro g hg
    have hn := runs_ne_nil r batch g hg
    cases hg2 : g.2 with
    | nil => exact absurd hg2 hn
    | cons p ps =>
      refine ⟨p.2, ps.map (·.2), by simp, ?_⟩
      apply hfin
      have : p ∈ (runs r batch).flatMap (·.2) := List.mem_flatMap.mpr ⟨g, hg, by rw [hg2]; simp⟩
      rwa [runs_flatten] at this
  have hfb : ∃ c, floatBatch batch r = some c ∧
      c.count = (specEmit lastT (runs r batch) []).map (fun e => (e.1, (e.2.count : Int))) ∧
      c.sum = (specEmit lastT (runs r batch) []).map (fun e => (e.1, e.2.sum)) ∧
      c.min = (specEmit lastT (runs r batch) []).map (fun e => (e.1, e.2.min)) ∧
      c.max = (specEmit lastT (runs r batch) []).map (fun e => (e.1, e.2.max)) := by
    simp only [floatBatch, hfirst, hlast, hb]
    exact ⟨_, rfl, rfl, rfl, rfl, rfl⟩
  obtain ⟨c, hc, h1, h2, h3, h4⟩ := hfb
  refine ⟨c, hc, ?_, ?_, ?_, ?_⟩
  · rw [h1]
    have := specEmit_map lastT (fun a => (a.count : Int)) (fun vs => (vs.length : Int)) (runs r batch) []
      (fun g _ hist => by simp [snap_count])
    simpa using this
  · rw [h2]
    exact specEmit_map lastT (fun a => a.sum) (fun vs => vs.sum) _ _ (fun g _ hist => by simp [snap_sum])
  · rw [h3, List.map_map]
    exact specEmit_map lastT (fun a => some a.min) (fun vs => vs.min?) _ _ (fun g hg hist => by
      obtain ⟨v, vs, hv, hf⟩ := hrun g hg
      rw [hv]; exact snap_min hist v vs hf.2)
  · rw [h4, List.map_map]
    exact specEmit_map lastT (fun a => some a.max) (fun vs => vs.max?) _ _ (fun g hg hist => by
      obtain ⟨v, vs, hv, hf⟩ := hrun g hg
      rw [hv]; exact snap_max hist v vs hf.1)

/-- the specification side of `C36_batch`: for time-ordered samples the run with window end `w`
    is the set of samples whose window ends at `w`, and every window occurs exactly once -/
theorem C36_runs_spec (r : Int) (hr : 0 < r) (l : List Pt) (h0 : ∀ p ∈ l, 0 ≤ p.1) (hs : Sorted l) :
    (runs r l).flatMap (·.2) = l ∧
    (runs r l).Pairwise (fun a b => a.1 < b.1) ∧
    ∀ g ∈ runs r l, g.2 ≠ [] ∧ g.2 = l.filter (fun p => currentWindow p.1 r = g.1) := by
  have hs' : l.Pairwise (fun a b => a.1 ≤ b.1) := hs.imp (fun h => Int.le_of_lt h)
  exact ⟨runs_flatten r l, runs_keys_sorted r hr l h0 hs',
    fun g hg => ⟨runs_ne_nil r l g hg, runs_eq_filter r hr l h0 hs' g hg⟩⟩

/-- the window end is the last millisecond of the window `[w − r + 1, w]` that contains `t` -/
theorem C36_window (t r : Int) (ht : 0 ≤ t) (hr : 0 < r) :
    t ≤ currentWindow t r ∧ currentWindow t r < t + r ∧ (currentWindow t r + 1) % r = 0 :=
  ⟨currentWindow_ge ht hr, currentWindow_lt ht hr, currentWindow_aligned ht hr⟩

/-- Regenerated obligations: the conditions and expressions of the source that the model
    transliterates (a change of any of them breaks this theorem at `lake build` time). -/
theorem C36_source_facts :
    Thanos.Facts.dsCurrentWindow = "t - (t % r) + r - 1" ∧
    Thanos.Facts.dsBatchConds = ["s.t > nextT", "nextT != -1", "aggr.processedSamples() > 0"] ∧
    Thanos.Facts.dsBatchNextT = "min( currentWindow(s.t, resolution), lastT)" ∧
    Thanos.Facts.dsRawBatchSize = "(len(data) / numChunks) + 1" ∧
    Thanos.Facts.dsRawLoops = ["len(data) > 0", "j < len(data) && data[j].t <= curW", "range data[:j]"] ∧
    Thanos.Facts.dsRawCurW = "currentWindow(data[j-1].t, resolution)" ∧
    Thanos.Facts.dsAggregatorAddConds = ["a.total > 0", "s.v < a.last", "s.v < a.min", "s.v > a.max"] := by
  decide

-- non-vacuity: the batch of TestDownsampleCounterBoundaryReset's first chunk and a two-window batch
example : floatBatch [(10, 1), (20, 3), (30, 5)] 50 =
    some { mint := 30, maxt := 30, count := [(30, 3)], sum := [(30, 9)], min := [(30, 1)], max := [(30, 5)],
           counter := [(10, 1), (30, 5), (30, 5)] } := by decide
example : runs 50 [(10, 1), (20, 3), (60, 5), (70, 2)] = [(49, [(10, 1), (20, 3)]), (99, [(60, 5), (70, 2)])] := by decide
example : (floatBatch [(10, 1), (20, 3), (60, 5), (70, 2)] 50).map (·.sum) = some [(49, 4), (70, 7)] := by decide
example : Sorted [(10, 1), (20, 3), (60, 5), (70, 2)] := by simp [Sorted]
example : Finite 5 := by decide

end Thanos.Downsample
