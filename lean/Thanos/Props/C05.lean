import Thanos.Model.Prune
import Thanos.Lemmas.Prune
import Thanos.Generated.Facts
/-
  C05 — Store pruning never skips a store that holds matching data.

  The model (`Model/Prune.lean`) transliterates `storeMatches`, `LabelSetsMatch`,
  `matchesExternalLabels`, `matchingStores` and the head of `ProxyStore.Series`.  A store serves
  `extend raw e` for its raw series `raw` and one of its advertised label sets `e`
  (`ExtendSortedLabels`: external labels override); a series is selected when every matcher accepts
  `get lbls name` ("" for an absent label) and one sample lies in the query range.
  All theorems are for every matcher list (every regex acceptance predicate), every number of
  label sets / stores / series.
-/
namespace Thanos.Prune

/-- the advertised time range bounds the store's data — the store's side of the contract
    (checked by the harness on the generated stores) -/
def Contract (c : Client) (raw : List Series) : Prop :=
  ∀ s ∈ raw, ∀ t ∈ s.ts, c.mint ≤ t ∧ t ≤ c.maxt

/-- the series carries the (non-empty) labels `sel` -/
def Carries (ls sel : Labels) : Prop := ∀ n, get sel n ≠ "" → get ls n = get sel n

/-! ### external label sets -/

/-- If `LabelSetsMatch` says no, then no series served under any of the advertised label sets is
    selected by the matchers — including empty-value and negative matchers, for any raw labels. -/
theorem C05_sound_labels (ms : List Matcher) (sets : List Labels)
    (h : labelSetsMatch ms sets = false) :
    ∀ e ∈ sets, WF e → ∀ raw : Labels, matchAll ms (extend raw e) = false := by
  intro e he wf raw
  simp only [labelSetsMatch, Bool.or_eq_false_iff, List.any_eq_false] at h
  have hrej : lsetRejects ms e = true := by
    have := h.2 e he
    simpa using this
  simp only [lsetRejects, List.any_eq_true, Bool.and_eq_true] at hrej
  obtain ⟨m, hm, hhas, hno⟩ := hrej
  simp only [matchAll, List.all_eq_false]
  refine ⟨m, hm, ?_⟩
  rw [get_extend_of_has e raw m.name wf hhas]
  simpa using hno

theorem storeMatchDebug_cases (c : Client) (dbg : List (List Matcher)) :
    storeMatchDebug c dbg = .ok ∨ storeMatchDebug c dbg = .localStore ∨ storeMatchDebug c dbg = .addr := by
  unfold storeMatchDebug
  split
  · exact Or.inl rfl
  · split
    · exact Or.inr (Or.inl rfl)
    · split
      · exact Or.inl rfl
      · exact Or.inr (Or.inr rfl)

/-- `storeMatches` answers "time" exactly when the ranges are disjoint … -/
theorem storeMatches_time_iff (dbg : List (List Matcher)) (c : Client) (mint maxt : Int) (ms : List Matcher) :
    storeMatches dbg c mint maxt ms = .time ↔ (mint > c.maxt ∨ maxt < c.mint) := by
  unfold storeMatches
  by_cases ht : mint > c.maxt ∨ maxt < c.mint
  · simp [ht]
  · simp only [ht, if_false, iff_false]
    rcases storeMatchDebug_cases c dbg with h | h | h <;> rw [h] <;> simp
    split
    · simp
    · split <;> simp

/-- … and "external labels" only when `LabelSetsMatch` said no. -/
theorem storeMatches_extlabels (dbg : List (List Matcher)) (c : Client) (mint maxt : Int) (ms : List Matcher)
    (h : storeMatches dbg c mint maxt ms = .extlabels) : labelSetsMatch ms c.extSets = false := by
  unfold storeMatches at h
  by_cases ht : mint > c.maxt ∨ maxt < c.mint
  · simp [ht] at h
  · simp only [ht, if_false] at h
    rcases storeMatchDebug_cases c dbg with hd | hd | hd <;> rw [hd] at h <;> simp at h
    cases hl : labelSetsMatch ms c.extSets with
    | false => rfl
    | true =>
      simp only [hl] at h
      split at h <;> simp at h

/-- A store that advertises no label set is never skipped because of labels. -/
theorem C05_no_labels (dbg : List (List Matcher)) (c : Client) (mint maxt : Int) (ms : List Matcher)
    (h : c.extSets = []) : storeMatches dbg c mint maxt ms ≠ .extlabels := by
  intro he
  have := storeMatches_extlabels dbg c mint maxt ms he
  simp [labelSetsMatch, h] at this

/-- The converse direction that keeps pruning honest: a label set that no matcher rejects is never
    pruned (so `LabelSetsMatch = false` means *every* set is rejected by some matcher). -/
theorem labelSetsMatch_of_accepting (ms : List Matcher) (sets : List Labels) (e : Labels)
    (he : e ∈ sets) (h : lsetRejects ms e = false) : labelSetsMatch ms sets = true := by
  simp only [labelSetsMatch, Bool.or_eq_true, List.any_eq_true]
  exact Or.inr ⟨e, he, by simp [h]⟩

/-! ### time range -/

theorem C05_sound_time (c : Client) (mint maxt : Int) (ts : List Int)
    (hq : mint > c.maxt ∨ maxt < c.mint) (hc : ∀ t ∈ ts, c.mint ≤ t ∧ t ≤ c.maxt) :
    ts.any (fun t => decide (mint ≤ t) && decide (t ≤ maxt)) = false := by
  simp only [List.any_eq_false, Bool.and_eq_true, decide_eq_true_eq, not_and]
  intro t ht h1
  have := hc t ht
  omega

/-! ### the store-level statement -/

/-- **C05.** A store that `storeMatches` skips because of its advertised time range or its external
    labels serves no series that the query selects. -/
theorem C05_sound (dbg : List (List Matcher)) (c : Client) (mint maxt : Int) (ms : List Matcher)
    (raw : List Series)
    (hskip : storeMatches dbg c mint maxt ms = .time ∨ storeMatches dbg c mint maxt ms = .extlabels)
    (wf : ∀ e ∈ c.extSets, WF e) (hc : Contract c raw) :
    ∀ s ∈ served c raw, selects ms mint maxt s = false := by
  intro s hs
  -- every served series keeps the time stamps of a raw series
  have hts : ∀ t ∈ s.ts, c.mint ≤ t ∧ t ≤ c.maxt := by
    unfold served at hs
    split at hs
    · exact hc s hs
    · simp only [List.mem_flatMap, List.mem_map] at hs
      obtain ⟨e, _, r, hr, rfl⟩ := hs
      exact hc r hr
  rcases hskip with hskip | hskip
  · have htime := (storeMatches_time_iff dbg c mint maxt ms).mp hskip
    simp [selects, C05_sound_time c mint maxt s.ts htime hts]
  · have hl := storeMatches_extlabels dbg c mint maxt ms hskip
    have hne : c.extSets.isEmpty = false := by
      cases hh : c.extSets.isEmpty with
      | false => rfl
      | true => simp [labelSetsMatch, hh] at hl
    unfold served at hs
    simp only [hne] at hs
    simp only [Bool.false_eq_true, if_false, List.mem_flatMap, List.mem_map] at hs
    obtain ⟨e, he, r, _, rfl⟩ := hs
    simp [selects, C05_sound_labels ms c.extSets hl e he (wf e he) r.lbls]

/-! ### the proxy's own selector labels (`matchesExternalLabels`) -/

theorem extLoop_sound (sel : Labels) (ls : Labels) (hcar : Carries ls sel) :
    ∀ (ms : List Matcher),
      (extLoop sel ms = none → matchAll ms ls = false) ∧
      (∀ kept, extLoop sel ms = some kept → matchAll kept ls = matchAll ms ls)
  | [] => by simp [extLoop, matchAll]
  | tm :: rest => by
    have ih := extLoop_sound sel ls hcar rest
    unfold extLoop
    by_cases hev : get sel tm.name = ""
    · simp only [hev, if_true]
      constructor
      · intro h
        have : extLoop sel rest = none := by
          cases hr : extLoop sel rest <;> simp [hr] at h ⊢
        have := ih.1 this
        simp only [matchAll, List.all_cons, Bool.and_eq_false_iff]
        exact Or.inr this
      · intro kept h
        cases hr : extLoop sel rest with
        | none => simp [hr] at h
        | some k =>
          simp only [hr, Option.map_some, Option.some.injEq] at h
          subst h
          have := ih.2 k hr
          simp only [matchAll, List.all_cons] at this ⊢
          rw [this]
    · have hget : get ls tm.name = get sel tm.name := hcar _ hev
      simp only [hev, if_false]
      by_cases hm : tm.matches (get sel tm.name) = true
      · simp only [hm, Bool.not_true, Bool.false_eq_true, if_false]
        constructor
        · intro h
          have := ih.1 h
          simp only [matchAll, List.all_cons, Bool.and_eq_false_iff]
          exact Or.inr this
        · intro kept h
          have := ih.2 kept h
          simp only [matchAll, List.all_cons, hget, hm, Bool.true_and] at this ⊢
          exact this
      · have hm' : tm.matches (get sel tm.name) = false := by simpa using hm
        simp only [hm', Bool.not_false, if_true]
        constructor
        · intro _
          simp [matchAll, hget, hm']
        · intro kept h; simp at h

/-- `matchesExternalLabels` against labels that every series of the component carries:
    "no match" is only answered when no such series is selected, and the matchers that are
    dropped do not change which of those series are selected. -/
theorem matchesExternalLabels_sound (ms : List Matcher) (sel ls : Labels) (hcar : Carries ls sel) :
    (matchesExternalLabels ms sel = none → matchAll ms ls = false) ∧
    (∀ kept, matchesExternalLabels ms sel = some kept → matchAll kept ls = matchAll ms ls) := by
  unfold matchesExternalLabels
  split
  · simp
  · exact extLoop_sound sel ls hcar ms

/-! ### end to end: the head of `ProxyStore.Series` -/

/-- a reason to skip a store that is outside C05 (debug store matchers, the store's own filter) -/
def otherReason (r : Reason) : Prop := r = .localStore ∨ r = .addr ∨ r = .filter

/-- **C05, end to end.**  Whatever `ProxyStore.Series` decides: a store holding a series that
    carries the proxy's selector labels and is selected by the request's matchers within the
    requested time range is sent the request (with matchers that still select that series), unless
    it was excluded by the debug store matchers or its own filter, or the request was rejected as a
    whole (no matcher left / no store at all with partial response disabled). -/
theorem C05_series_sound (sel : Labels) (abort : Bool) (dbg : List (List Matcher))
    (cs : List Client) (mint maxt : Int) (ms : List Matcher)
    (i : Nat) (c : Client) (raw : List Series) (s : Series)
    (hi : cs[i]? = some c) (wf : ∀ e ∈ c.extSets, WF e) (hc : Contract c raw)
    (hs : s ∈ served c raw) (hcar : Carries s.lbls sel) (hsel : selects ms mint maxt s = true) :
    match seriesDecision sel abort dbg cs mint maxt ms with
    | .nomatch => False
    | .invalid => True
    | .unavailable => True
    | .queried idx kept =>
        (i ∈ idx ∨ otherReason (storeMatches dbg c mint maxt kept)) ∧ selects kept mint maxt s = true := by
  unfold seriesDecision
  have hme := matchesExternalLabels_sound ms sel s.lbls hcar
  have hall : matchAll ms s.lbls = true := by
    simp only [selects, Bool.and_eq_true] at hsel; exact hsel.1
  cases hk : matchesExternalLabels ms sel with
  | none =>
    have := hme.1 hk
    rw [hall] at this; simp at this
  | some kept =>
    simp only
    by_cases h1 : kept.isEmpty = true
    · simp [h1]
    · by_cases h2 : (cs.isEmpty && abort) = true
      · simp [h1, h2]
      · simp only [h1, h2]
        have hkept : selects kept mint maxt s = true := by
          simp only [selects, Bool.and_eq_true] at hsel ⊢
          exact ⟨by rw [hme.2 kept hk]; exact hall, hsel.2⟩
        refine ⟨?_, hkept⟩
        cases hr : storeMatches dbg c mint maxt kept with
        | ok => exact Or.inl (mem_matchingStores.mpr ⟨c, hi, hr⟩)
        | time =>
          have := C05_sound dbg c mint maxt kept raw (Or.inl hr) wf hc s hs
          rw [hkept] at this; simp at this
        | extlabels =>
          have := C05_sound dbg c mint maxt kept raw (Or.inr hr) wf hc s hs
          rw [hkept] at this; simp at this
        | localStore => exact Or.inr (Or.inl rfl)
        | addr => exact Or.inr (Or.inr (Or.inl rfl))
        | filter => exact Or.inr (Or.inr (Or.inr rfl))

/-! ### with a TSDB selector (`--selector.relabel-config`): `TSDBSelector`, the union of the matched
  label sets in `matchingStores`, `MatchersForLabelSets` -/

/-- a store whose label sets the selector keeps at least partly takes part -/
theorem matchLabelSets_of_kept (sel : Selector) (sets : List Labels) (e : Labels) (he : e ∈ sets)
    (hk : sel.isNil = true ∨ sel.keep e = true) :
    (matchLabelSets sel sets).1 = true ∧ (sel.isNil = false → e ∈ (matchLabelSets sel sets).2) := by
  unfold matchLabelSets
  rcases hk with hk | hk
  · simp [hk]
  · have hne : sets.isEmpty = false := by cases sets <;> simp_all
    cases hn : sel.isNil with
    | true => simp
    | false =>
      have hmem : e ∈ sets.filter sel.keep := List.mem_filter.mpr ⟨he, hk⟩
      have : (sets.filter sel.keep).isEmpty = false := by
        cases hf : sets.filter sel.keep with
        | nil => rw [hf] at hmem; simp at hmem
        | cons _ _ => rfl
      simp [hne, this, hmem]

theorem matchLabelSets_sub (sel : Selector) (sets : List Labels) :
    ∀ e ∈ (matchLabelSets sel sets).2, e ∈ sets := by
  unfold matchLabelSets
  split
  · simp
  · intro e he; exact (List.mem_filter.mp he).1

theorem matchLabelSets_nil (sel : Selector) (sets : List Labels) (h : sel.isNil = true) :
    (matchLabelSets sel sets).2 = [] := by
  simp [matchLabelSets, h]

/-- **C05 with a TSDB selector, end to end.**  A store holding a series that is served under a label
    set the selector keeps, carries the proxy's selector labels and is selected by the request within
    the requested time range is sent the request — with the request's forwarded matchers *and* the
    matchers generated for the union of the selected label sets still selecting that series — unless it
    was excluded by the debug store matchers or its own filter (or the request was rejected as a whole).
    `hclash`: the series has no label of its own under an external-label name its label set lacks
    (external label names are a namespace of their own). -/
theorem C05_selector_sound (sel : Selector) (selLabels : Labels) (abort : Bool) (dbg : List (List Matcher))
    (cs : List Client) (mint maxt : Int) (ms : List Matcher)
    (i : Nat) (c : Client) (raw : List Series) (r : Series) (e : Labels)
    (hi : cs[i]? = some c) (wf : ∀ e ∈ c.extSets, WF e) (hc : Contract c raw) (hr : r ∈ raw)
    (he : e ∈ c.extSets) (hkeep : sel.isNil = true ∨ sel.keep e = true)
    (hcar : Carries (extend r.lbls e) selLabels)
    (hsel : selects ms mint maxt { r with lbls := extend r.lbls e } = true)
    (hclash : ∀ n ∈ labelNames (cs.flatMap (·.extSets)), has e n = false → get (extend r.lbls e) n = "") :
    match seriesDecisionSel sel selLabels abort dbg cs mint maxt ms with
    | .nomatch => False
    | .invalid => True
    | .unavailable => True
    | .queried idx kept extra =>
        (i ∈ idx ∧ selects (kept ++ extra) mint maxt { r with lbls := extend r.lbls e } = true) ∨
        otherReason (storeMatches dbg c mint maxt kept) := by
  unfold seriesDecisionSel
  have hs : ({ r with lbls := extend r.lbls e } : Series) ∈ served c raw := by
    unfold served
    have hne : c.extSets.isEmpty = false := by cases h : c.extSets <;> simp_all
    simp only [hne, Bool.false_eq_true, if_false, List.mem_flatMap, List.mem_map]
    exact ⟨e, he, r, hr, rfl⟩
  have hme := matchesExternalLabels_sound ms selLabels (extend r.lbls e) hcar
  have hall : matchAll ms (extend r.lbls e) = true := by
    simp only [selects, Bool.and_eq_true] at hsel; exact hsel.1
  cases hk : matchesExternalLabels ms selLabels with
  | none =>
    have := hme.1 hk
    rw [hall] at this; simp at this
  | some kept =>
    simp only
    by_cases h1 : kept.isEmpty = true
    · simp [h1]
    · by_cases h2 : (cs.isEmpty && abort) = true
      · simp [h1, h2]
      · simp only [h1, h2]
        have hspec := selStores_spec sel dbg mint maxt kept cs 0 i
        generalize selStores sel dbg mint maxt kept 0 cs = st at hspec
        obtain ⟨idx, union⟩ := st
        simp only at hspec ⊢
        have hkept : selects kept mint maxt { r with lbls := extend r.lbls e } = true := by
          simp only [selects, Bool.and_eq_true] at hsel ⊢
          exact ⟨by rw [hme.2 kept hk]; exact hall, hsel.2⟩
        have hml := matchLabelSets_of_kept sel c.extSets e he hkeep
        cases hr' : storeMatches dbg c mint maxt kept with
        | ok =>
          left
          have hidx : i ∈ idx := hspec.1.mpr ⟨c, Nat.zero_le _, by simpa using hi, hml.1, hr'⟩
          refine ⟨hidx, ?_⟩
          simp only [selects, Bool.and_eq_true] at hkept ⊢
          refine ⟨?_, hkept.2⟩
          rw [matchAll_append, hkept.1, Bool.true_and]
          cases hn : sel.isNil with
          | true =>
            -- the default selector adds no matcher
            have : union = [] := by
              cases hu : union with
              | nil => rfl
              | cons x _ =>
                obtain ⟨c', _, hx⟩ := hspec.2.2 x (by rw [hu]; simp)
                rw [matchLabelSets_nil sel _ hn] at hx; simp at hx
            rw [this]; simp [matchersForLabelSets, labelNames, matchAll]
          | false =>
            have heu : e ∈ union := hspec.2.1 c (Nat.zero_le _) (by simpa using hi) hidx e (hml.2 hn)
            apply matchAll_matchersForLabelSets union e heu
            · intro n hh; exact get_extend_of_has e r.lbls n (wf e he) hh
            · intro n hn' hh
              apply hclash n _ hh
              obtain ⟨ls, hls, hhas⟩ := mem_labelNames.mp hn'
              obtain ⟨c', hc', hx⟩ := hspec.2.2 ls hls
              exact mem_labelNames.mpr ⟨ls, List.mem_flatMap.mpr ⟨c', hc', matchLabelSets_sub sel _ ls hx⟩, hhas⟩
        | time =>
          have := C05_sound dbg c mint maxt kept raw (Or.inl hr') wf hc _ hs
          rw [hkept] at this; simp at this
        | extlabels =>
          have := C05_sound dbg c mint maxt kept raw (Or.inr hr') wf hc _ hs
          rw [hkept] at this; simp at this
        | localStore => exact Or.inr (Or.inl hr')
        | addr => exact Or.inr (Or.inr (Or.inl hr'))
        | filter => exact Or.inr (Or.inr (Or.inr hr'))

/-! ### regenerated facts: the conditions in the sources are the ones the model transliterates -/

/-- `storeMatches`: `if mint > c.maxt ∨ maxt < c.mint then .time` -/
theorem C05_fact_time : Thanos.Facts.pruneTimeCond = "mint > storeMaxTime || maxt < storeMinTime" := by decide
/-- `LabelSetsMatch`: `has ls m.name && !(m.matches (get ls m.name))` in `lsetRejects` -/
theorem C05_fact_label : Thanos.Facts.pruneLabelCond = "ls.Has(m.Name) && !m.Matches(lv)" := by decide
/-- `LabelSetsMatch`: `sets.isEmpty ||` -/
theorem C05_fact_empty : Thanos.Facts.pruneEmptySetsCond = "len(lset) == 0" := by decide
/-- `matchesExternalLabels`: `if ev = "" then keep` / `else if !(tm.matches ev) then none` in `extLoop` -/
theorem C05_fact_ext : Thanos.Facts.pruneExtAgnosticCond = "extValue == \"\"" ∧
    Thanos.Facts.pruneExtRejectCond = "!tm.Matches(extValue)" := by decide

/-- TSDB selector: `MatchLabelSets` has the single early return of `matchLabelSets`, every matched
    label set of a selected store enters the union (`selStores`), values are quoted (`selMatcher`) -/
theorem C05_fact_selector :
    Thanos.Facts.selMatchLabelSetsConds = ["sr.relabelConfig == nil || len(labelSets) == 0"] ∧
    Thanos.Facts.selValueInsert = ["labelNameValues[l.Name][regexp.QuoteMeta(l.Value)] = struct{}{}"] ∧
    Thanos.Facts.selUnionAppend = ["storeLabelSets = append(storeLabelSets, extraMatchers...)"] := ⟨rfl, rfl, rfl⟩

/-! ### non-vacuity: concrete stores, matchers and decisions -/

private def mEq (n v : String) : Matcher := { ty := .eq, name := n, value := v, acc := fun _ => false }
private def mNeq (n v : String) : Matcher := { ty := .neq, name := n, value := v, acc := fun _ => false }
private def mRe (n : String) (acc : String → Bool) : Matcher := { ty := .re, name := n, value := "", acc := acc }

private def stA : Client :=
  { mint := 0, maxt := 100, filterOK := true, isLocal := false, addr := "s0",
    extSets := [[("cluster", "eu"), ("replica", "r1")], [("cluster", "us")]] }

-- skipped because of labels: both label sets are rejected (hypotheses of `C05_sound_labels` are met) …
example : labelSetsMatch [mEq "cluster" "ap"] stA.extSets = false := by decide
example : storeMatches [] stA 10 20 [mEq "cluster" "ap"] = .extlabels := by decide
-- … skipped because of time …
example : storeMatches [] stA 101 200 [mEq "cluster" "eu"] = .time := by decide
-- … and not skipped: empty-value and negative matchers on labels the store does not advertise
example : storeMatches [] stA 10 20 [mEq "job" "", mNeq "cluster" "us", mRe "replica" (fun v => v = "r1" ∨ v = "")] = .ok := by decide
-- a served series really is the raw series with the external labels overriding
example : get (extend [("cluster", "raw"), ("job", "api")] [("cluster", "eu"), ("replica", "r1")]) "cluster" = "eu" := by decide
example : ∀ e ∈ stA.extSets, WF e := by
  intro e he; simp [stA] at he; rcases he with rfl | rfl <;> simp [WF]
-- selector labels: a matcher on a selector label is validated and dropped
example : (matchesExternalLabels [mEq "region" "x", mEq "job" "api"] [("region", "x")]).map (·.length) = some 1 := by decide
example : (matchesExternalLabels [mEq "region" "y", mEq "job" "api"] [("region", "x")]).isNone = true := by decide
-- end to end: store 1 is skipped by time, store 0 is asked
example : (match seriesDecision [] true [] [stA, { stA with mint := 500, maxt := 600 }] 10 20 [mEq "cluster" "eu"] with
    | .queried idx _ => idx | _ => [99]) = [0] := by decide

-- TSDB selector: store 0 = {tenant="a+b"} fully kept, store 1 = {tenant="b1"} kept / {tenant="b2"} dropped:
-- both are asked, with tenant=~"a\\+b|b1" (quoted) — the situation `C05_selector_sound` is about
private def selEx : Selector := { isNil := false, keep := fun ls => !(get ls "tenant" = "b2") }
private def stT (vs : List String) : Client :=
  { mint := 0, maxt := 100, filterOK := true, isLocal := false, addr := "s", extSets := vs.map (fun v => [("tenant", v)]) }
example : (match seriesDecisionSel selEx [] false [] [stT ["a+b"], stT ["b1", "b2"]] 0 50 [mEq "job" "x"] with
    | .queried idx _ extra => (idx, extra.map (fun m => (m.name, m.value))) | _ => ([], [])) = ([0, 1], [("tenant", "a\\+b|b1")]) := by decide
example : (selMatcher [[("tenant", "a+b")], [("tenant", "b1")]] "tenant").matches "a+b" = true := by decide

end Thanos.Prune
