import Thanos.Model.Planner
import Thanos.Lemmas.Planner
import Thanos.Generated.Facts
/-
  C30 — Compaction planning is safe and converges.

  "A compaction plan names blocks of one group that are at least two (or a single block with many
   tombstones), never includes blocks marked no-compact, and, for non-overlapping aligned blocks,
   never includes the newest block and always fits into one configured time range.  Repeatedly
   planning and applying plans ends after finitely many steps with non-overlapping blocks no longer
   than the largest range."

  The model (`Model/Planner.lean`) transliterates pkg/compact/planner.go.  `plan … = some r` means
  the Go code returns the plan `r`; `none` is a Go panic (no blocks, no ranges, a zero range).
-/
namespace Thanos.Planner

/-- the input has no overlapping blocks: in min-time order every block ends before the next starts -/
def NonOverlapping (ms : List Meta) : Prop := ms.Pairwise (fun a b => a.max ≤ b.min)

instance (ms : List Meta) : Decidable (NonOverlapping ms) := by unfold NonOverlapping; infer_instance

/-! ## Clause 1–3: what a plan consists of (all inputs, overlapping or not) -/

/-- a single-block plan is only made for a block of at least the middle range with > 5 % tombstones -/
def TombstonePlan (ranges : List Int) (r : List Meta) : Prop :=
  ∃ b, r = [b] ∧ manyTombstones b = true ∧ ∃ mid, ranges[ranges.length / 2]? = some mid ∧ mid ≤ b.max - b.min

theorem plan_spec (ranges : List Int) (excl : Excl) (ms r : List Meta)
    (h : plan ranges excl ms = some r) :
    r.Sublist ms ∧ (∀ b ∈ r, excl b.id = false) ∧ (r = [] ∨ 2 ≤ r.length ∨ TombstonePlan ranges r) := by
  unfold plan at h
  simp only at h
  split at h
  · -- the overlap branch
    rename_i hov
    simp only [Option.some.injEq] at h
    subst h
    have hsub := selectOverlapping_sublist (notExcluded excl ms)
    refine ⟨hsub.trans (List.filter_sublist), ?_, ?_⟩
    · intro b hb
      have := hsub.subset hb
      simp [notExcluded, List.mem_filter] at this
      exact this.2
    · rcases selectOverlapping_length (notExcluded excl ms) with h0 | h2
      · exact Or.inl h0
      · exact Or.inr (Or.inl h2)
  · split at h
    · simp at h
    · rename_i last hlast
      split at h
      · simp at h
      · rename_i r' hr'
        split at h
        · -- the range branch
          simp only [Option.some.injEq] at h
          subst h
          rcases selectMetas_spec ranges excl _ _ hr' with h0 | ⟨a, b, c⟩
          · exact ⟨by simp [h0], by simp [h0], Or.inl h0⟩
          · exact ⟨a.trans (List.dropLast_sublist ms), c, Or.inr (Or.inl b)⟩
        · -- the tombstone branch
          rcases tombScan_spec ranges _ r h with h0 | ⟨b, hb, rfl, ht, hm⟩
          · exact ⟨by simp [h0], by simp [h0], Or.inl h0⟩
          · have hb' : b ∈ notExcluded excl ms := by
              have hb2 := List.mem_reverse.mp hb
              split at hb2
              · exact hb2
              · exact (List.dropLast_sublist _).subset hb2
            have hbm : b ∈ ms ∧ excl b.id = false := by
              simpa [notExcluded, List.mem_filter] using hb'
            refine ⟨List.singleton_sublist.mpr hbm.1, ?_, Or.inr (Or.inr ⟨b, rfl, ht, hm⟩)⟩
            intro c hc
            simp at hc
            subst hc
            exact hbm.2

/-- C30, clause "blocks of one group": every planned block is one of the given blocks (in the
    given order, none twice) -/
theorem C30_subset (ranges : List Int) (excl : Excl) (ms r : List Meta)
    (h : plan ranges excl ms = some r) : r.Sublist ms := (plan_spec ranges excl ms r h).1

/-- C30, clause "never includes blocks marked no-compact" -/
theorem C30_no_excluded (ranges : List Int) (excl : Excl) (ms r : List Meta)
    (h : plan ranges excl ms = some r) : ∀ b ∈ r, excl b.id = false := (plan_spec ranges excl ms r h).2.1

/-- C30, clause "at least two, or a single block with many tombstones" -/
theorem C30_size (ranges : List Int) (excl : Excl) (ms r : List Meta)
    (h : plan ranges excl ms = some r) (hne : r ≠ []) : 2 ≤ r.length ∨ TombstonePlan ranges r := by
  rcases (plan_spec ranges excl ms r h).2.2 with h0 | h'
  · exact absurd h0 hne
  · exact h'

/-! ## Clause 4: the newest block of a non-overlapping group is never planned -/

theorem overlapGo_nil_of_pairwise : ∀ (rest : List Meta) (g : Int) (p : Meta),
    (∀ b ∈ rest, g ≤ b.min) → NonOverlapping rest → overlapGo g p false rest = []
  | [], _, _, _, _ => by simp [overlapGo]
  | m :: rest, g, p, hg, hp => by
    unfold overlapGo
    have hm : ¬ m.min < g := by have := hg m (by simp); omega
    simp only [hm, if_false, Bool.false_eq_true]
    have hp' := List.pairwise_cons.mp hp
    apply overlapGo_nil_of_pairwise rest _ m _ hp'.2
    intro b hb
    have h1 := hg b (List.mem_cons_of_mem _ hb)
    have h2 := hp'.1 b hb
    split <;> omega

theorem selectOverlapping_nil_of_nonOverlapping (ms : List Meta) (h : NonOverlapping ms) :
    selectOverlapping ms = [] := by
  cases ms with
  | nil => rfl
  | cons m rest =>
    have hp := List.pairwise_cons.mp h
    exact overlapGo_nil_of_pairwise rest m.max m hp.1 hp.2

theorem nonOverlapping_notExcluded (excl : Excl) (ms : List Meta) (h : NonOverlapping ms) :
    NonOverlapping (notExcluded excl ms) :=
  List.Pairwise.sublist List.filter_sublist h

theorem dropLast_filter_sublist (p : Meta → Bool) (ms : List Meta) (last : Meta)
    (hl : ms.getLast? = some last) :
    (if p last then (ms.filter p).dropLast else ms.filter p).Sublist ms.dropLast := by
  obtain ⟨init, rfl⟩ := List.getLast?_eq_some_iff.mp hl
  simp only [List.filter_append, List.dropLast_concat]
  by_cases hp : p last = true
  · simp [hp]
  · simp [hp]

/-- C30, clause "never includes the newest block" — for every non-overlapping group (aligned or
    not, with or without no-compact marks): the plan is drawn from the blocks before the newest. -/
theorem C30_newest (ranges : List Int) (excl : Excl) (ms r : List Meta)
    (hno : NonOverlapping ms) (h : plan ranges excl ms = some r) : r.Sublist ms.dropLast := by
  have hov : selectOverlapping (notExcluded excl ms) = [] :=
    selectOverlapping_nil_of_nonOverlapping _ (nonOverlapping_notExcluded excl ms hno)
  unfold plan at h
  simp only [hov, List.isEmpty_nil, Bool.not_true, Bool.false_eq_true, if_false] at h
  split at h
  · simp at h
  · rename_i last hlast
    split at h
    · simp at h
    · rename_i r' hr'
      split at h
      · simp only [Option.some.injEq] at h
        subst h
        rcases selectMetas_spec ranges excl _ _ hr' with h0 | ⟨a, _, _⟩
        · simp [h0]
        · exact a
      · rcases tombScan_spec ranges _ r h with h0 | ⟨b, hb, rfl, _, _⟩
        · simp [h0]
        · have hb2 := List.mem_reverse.mp hb
          have hsub := dropLast_filter_sublist (fun m => !excl m.id) ms last hlast
          have : b ∈ ms.dropLast := by
            apply hsub.subset
            unfold notExcluded at hb2
            cases he : excl last.id <;> simp [he] at hb2 ⊢ <;> exact hb2
          exact List.singleton_sublist.mpr this

/-! ## The last clause as literally stated is false: F30 -/

/-- the blocks a plan/apply run ends with, when it reaches a fixpoint -/
def finalOf : Outcome → Option (List Meta)
  | .fixpoint _ f => some f
  | _ => none

def maxRange : List Int → Int
  | [] => 0
  | r :: rs => if r > maxRange rs then r else maxRange rs

/-- "…ends with non-overlapping blocks no longer than the largest range", for every group sorted by
    min time — the statement at full strength. -/
def C30_final_full : Prop :=
  ∀ (ranges : List Int) (excl : Excl) (ms final : List Meta) (fuel newId : Nat),
    ms.Pairwise (fun a b => a.min ≤ b.min) →
    finalOf (iterate ranges excl fuel newId ms) = some final →
    NonOverlapping final ∧ ∀ b ∈ final, b.max - b.min ≤ maxRange ranges

def f30Blocks : List Meta :=
  [ { id := 1, min := 0,   max := 100, failed := false, tomb := 0, series := 0, isize := 1, res := 0 },
    { id := 2, min := 50,  max := 150, failed := false, tomb := 0, series := 0, isize := 1, res := 0 },
    { id := 3, min := 300, max := 400, failed := false, tomb := 0, series := 0, isize := 1, res := 0 } ]

/-- F30: with the configured range [100], the overlapping blocks [0,100) and [50,150) are merged
    into [0,150), longer than the largest range: merging overlapping blocks necessarily spans
    their union. -/
theorem C30_final_full_false : ¬ C30_final_full := by
  intro h
  have := h [100] (fun _ => false) f30Blocks
    [ { id := 7, min := 0, max := 150, failed := false, tomb := 0, series := 0, isize := 0, res := 0 },
      { id := 3, min := 300, max := 400, failed := false, tomb := 0, series := 0, isize := 1, res := 0 } ]
    5 7 (by decide) (by decide)
  have h2 := this.2 { id := 7, min := 0, max := 150, failed := false, tomb := 0, series := 0, isize := 0, res := 0 } (by simp)
  revert h2
  decide

/-- the second way the literal clause fails: a no-compact block that overlaps another block is
    never planned, so the overlap stays -/
theorem C30_final_overlap_excluded :
    finalOf (iterate [100, 300] (fun i => i = 2) 5 7 f30Blocks) = some f30Blocks ∧ ¬ NonOverlapping f30Blocks := by
  decide

/-! non-vacuity -/
example : plan [20, 60, 180] (fun _ => false)
    [ { id := 1, min := 0,  max := 20, failed := false, tomb := 0, series := 0, isize := 1, res := 0 },
      { id := 2, min := 20, max := 40, failed := false, tomb := 0, series := 0, isize := 1, res := 0 },
      { id := 3, min := 40, max := 60, failed := false, tomb := 0, series := 0, isize := 1, res := 0 },
      { id := 4, min := 60, max := 80, failed := false, tomb := 0, series := 0, isize := 1, res := 0 } ]
    = some
    [ { id := 1, min := 0,  max := 20, failed := false, tomb := 0, series := 0, isize := 1, res := 0 },
      { id := 2, min := 20, max := 40, failed := false, tomb := 0, series := 0, isize := 1, res := 0 },
      { id := 3, min := 40, max := 60, failed := false, tomb := 0, series := 0, isize := 1, res := 0 } ] := by decide

example : NonOverlapping f30Blocks.tail := by decide
example : plan [100] (fun _ => false) f30Blocks = some (f30Blocks.take 2) := by decide
-- a single-block (tombstone) plan exists
example : plan [20, 60] (fun _ => false)
    [ { id := 1, min := 0,  max := 60, failed := false, tomb := 9, series := 100, isize := 1, res := 0 },
      { id := 2, min := 60, max := 80, failed := false, tomb := 0, series := 0, isize := 1, res := 0 } ]
    = some [ { id := 1, min := 0,  max := 60, failed := false, tomb := 9, series := 100, isize := 1, res := 0 } ] := by decide

/-! ## Regenerated facts: the conditions of planner.go the model transliterates -/

/-- `manyTombstones` is this test (exact for counts below 2^40) and `tombScan`'s length test -/
theorem C30_fact_tombstone :
    Thanos.Facts.plannerTombstoneCond = "float64(meta.Stats.NumTombstones)/float64(meta.Stats.NumSeries+1) > 0.05" ∧
    Thanos.Facts.plannerTombstoneMinRange = "meta.MaxTime-meta.MinTime < p.ranges[len(p.ranges)/2]" := by decide

/-- `plan` looks for overlaps first, then for a range -/
theorem C30_fact_order : Thanos.Facts.plannerPlanCalls = ["selectOverlappingMetas", "selectMetas"] := by decide

/-- the tests of `pickPart`, `overlapGo`, `split`/`rangeStart` -/
theorem C30_fact_select :
    Thanos.Facts.plannerSelectFreshCond = "maxt-mint != iv && maxt > highTime" ∧
    Thanos.Facts.plannerSelectFailedCond = "m.Compaction.Failed" ∧
    Thanos.Facts.plannerOverlapCond = "m.MinTime < globalMaxt" ∧
    Thanos.Facts.plannerSplitFitCond = "m.MaxTime > t0+tr" ∧
    Thanos.Facts.plannerSplitSignCond = "m.MinTime >= 0" := by decide

/-- the tests of `sizeScan` and `vertPlan` -/
theorem C30_fact_filters :
    Thanos.Facts.plannerSizeLimitCond = "totalIndexBytes >= int64(float64(t.totalMaxIndexSizeBytes)*0.85)" ∧
    Thanos.Facts.plannerVerticalResCond = "m.Thanos.Downsample.Resolution == 0" := by decide

end Thanos.Planner
