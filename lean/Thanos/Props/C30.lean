import Thanos.Model.Planner
import Thanos.Lemmas.Planner
import Thanos.Generated.Facts
/-
  C30 — Compaction planning is safe and converges.

  "A compaction plan names blocks of one group that are at least two (or a single block with many
   tombstones), never includes blocks marked no-compact, and, for non-overlapping aligned blocks,
   never includes the newest block and always fits into one configured time range.  Repeatedly
   planning and applying plans ends after finitely many steps with non-overlapping blocks no longer
   than the largest range."

  The model (`Model/Planner.lean`) transliterates pkg/compact/planner.go.  `plan … = some r` means
  the Go code returns the plan `r`; `none` is a Go panic (no blocks, no ranges, a zero range).
-/
namespace Thanos.Planner

/-- the input has no overlapping blocks: in min-time order every block ends before the next starts -/
def NonOverlapping (ms : List Meta) : Prop := ms.Pairwise (fun a b => a.max ≤ b.min)

instance (ms : List Meta) : Decidable (NonOverlapping ms) := by unfold NonOverlapping; infer_instance

/-! ## Clause 1–3: what a plan consists of (all inputs, overlapping or not) -/

/-- a single-block plan is only made for a block of at least the middle range with > 5 % tombstones -/
def TombstonePlan (ranges : List Int) (r : List Meta) : Prop :=
  ∃ b, r = [b] ∧ manyTombstones b = true ∧ ∃ mid, ranges[ranges.length / 2]? = some mid ∧ mid ≤ b.max - b.min

theorem plan_spec (ranges : List Int) (excl : Excl) (ms r : List Meta)
    (h : plan ranges excl ms = some r) :
    r.Sublist ms ∧ (∀ b ∈ r, excl b.id = false) ∧ (r = [] ∨ 2 ≤ r.length ∨ TombstonePlan ranges r) := by
  unfold plan at h
  simp only at h
  split at h
  · -- the overlap branch
    rename_i hov
    simp only [Option.some.injEq] at h
    subst h
    have hsub := selectOverlapping_sublist (notExcluded excl ms)
    refine ⟨hsub.trans (List.filter_sublist), ?_, ?_⟩
    · intro b hb
      have := hsub.subset hb
      simp [notExcluded, List.mem_filter] at this
      exact this.2
    · rcases selectOverlapping_length (notExcluded excl ms) with h0 | h2
      · exact Or.inl h0
      · exact Or.inr (Or.inl h2)
  · split at h
    · simp at h
    · rename_i last hlast
      split at h
      · simp at h
      · rename_i r' hr'
        split at h
        · -- the range branch
          simp only [Option.some.injEq] at h
          subst h
          rcases selectMetas_spec ranges excl _ _ hr' with h0 | ⟨a, b, c⟩
          · exact ⟨by simp [h0], by simp [h0], Or.inl h0⟩
          · exact ⟨a.trans (List.dropLast_sublist ms), c, Or.inr (Or.inl b)⟩
        · -- the tombstone branch
          rcases tombScan_spec ranges _ r h with h0 | ⟨b, hb, rfl, ht, hm⟩
          · exact ⟨by simp [h0], by simp [h0], Or.inl h0⟩
          · have hb' : b ∈ notExcluded excl ms := by
              have hb2 := List.mem_reverse.mp hb
              split at hb2
              · exact hb2
              · exact (List.dropLast_sublist _).subset hb2
            have hbm : b ∈ ms ∧ excl b.id = false := by
              simpa [notExcluded, List.mem_filter] using hb'
            refine ⟨List.singleton_sublist.mpr hbm.1, ?_, Or.inr (Or.inr ⟨b, rfl, ht, hm⟩)⟩
            intro c hc
            simp at hc
            subst hc
            exact hbm.2

/-- C30, clause "blocks of one group": every planned block is one of the given blocks (in the
    given order, none twice) -/
theorem C30_subset (ranges : List Int) (excl : Excl) (ms r : List Meta)
    (h : plan ranges excl ms = some r) : r.Sublist ms := (plan_spec ranges excl ms r h).1

/-- C30, clause "never includes blocks marked no-compact" -/
theorem C30_no_excluded (ranges : List Int) (excl : Excl) (ms r : List Meta)
    (h : plan ranges excl ms = some r) : ∀ b ∈ r, excl b.id = false := (plan_spec ranges excl ms r h).2.1

/-- C30, clause "at least two, or a single block with many tombstones" -/
theorem C30_size (ranges : List Int) (excl : Excl) (ms r : List Meta)
    (h : plan ranges excl ms = some r) (hne : r ≠ []) : 2 ≤ r.length ∨ TombstonePlan ranges r := by
  rcases (plan_spec ranges excl ms r h).2.2 with h0 | h'
  · exact absurd h0 hne
  · exact h'

/-! ## Clause 4: the newest block of a non-overlapping group is never planned -/

theorem overlapGo_nil_of_pairwise : ∀ (rest : List Meta) (g : Int) (p : Meta),
    (∀ b ∈ rest, g ≤ b.min) → NonOverlapping rest → overlapGo g p false rest = []
  | [], _, _, _, _ => by simp [overlapGo]
  | m :: rest, g, p, hg, hp => by
    unfold overlapGo
    have hm : ¬ m.min < g := by have := hg m (by simp); omega
    simp only [hm, if_false, Bool.false_eq_true]
    have hp' := List.pairwise_cons.mp hp
    apply overlapGo_nil_of_pairwise rest _ m _ hp'.2
    intro b hb
    have h1 := hg b (List.mem_cons_of_mem _ hb)
    have h2 := hp'.1 b hb
    split <;> omega

theorem selectOverlapping_nil_of_nonOverlapping (ms : List Meta) (h : NonOverlapping ms) :
    selectOverlapping ms = [] := by
  cases ms with
  | nil => rfl
  | cons m rest =>
    have hp := List.pairwise_cons.mp h
    exact overlapGo_nil_of_pairwise rest m.max m hp.1 hp.2

theorem nonOverlapping_notExcluded (excl : Excl) (ms : List Meta) (h : NonOverlapping ms) :
    NonOverlapping (notExcluded excl ms) :=
  List.Pairwise.sublist List.filter_sublist h

theorem dropLast_filter_sublist (p : Meta → Bool) (ms : List Meta) (last : Meta)
    (hl : ms.getLast? = some last) :
    (if p last then (ms.filter p).dropLast else ms.filter p).Sublist ms.dropLast := by
  obtain ⟨init, rfl⟩ := List.getLast?_eq_some_iff.mp hl
  simp only [List.filter_append, List.dropLast_concat]
  by_cases hp : p last = true
  · simp [hp]
  · simp [hp]

/-- C30, clause "never includes the newest block" — for every non-overlapping group (aligned or
    not, with or without no-compact marks): the plan is drawn from the blocks before the newest. -/
theorem C30_newest (ranges : List Int) (excl : Excl) (ms r : List Meta)
    (hno : NonOverlapping ms) (h : plan ranges excl ms = some r) : r.Sublist ms.dropLast := by
  have hov : selectOverlapping (notExcluded excl ms) = [] :=
    selectOverlapping_nil_of_nonOverlapping _ (nonOverlapping_notExcluded excl ms hno)
  unfold plan at h
  simp only [hov, List.isEmpty_nil, Bool.not_true, Bool.false_eq_true, if_false] at h
  split at h
  · simp at h
  · rename_i last hlast
    split at h
    · simp at h
    · rename_i r' hr'
      split at h
      · simp only [Option.some.injEq] at h
        subst h
        rcases selectMetas_spec ranges excl _ _ hr' with h0 | ⟨a, _, _⟩
        · simp [h0]
        · exact a
      · rcases tombScan_spec ranges _ r h with h0 | ⟨b, hb, rfl, _, _⟩
        · simp [h0]
        · have hb2 := List.mem_reverse.mp hb
          have hsub := dropLast_filter_sublist (fun m => !excl m.id) ms last hlast
          have : b ∈ ms.dropLast := by
            apply hsub.subset
            unfold notExcluded at hb2
            cases he : excl last.id <;> simp [he] at hb2 ⊢ <;> exact hb2
          exact List.singleton_sublist.mpr this


/-! ## Clause 5: a multi-block plan over non-overlapping blocks fits one aligned configured range -/

/-- C30, clause "always fits into one configured time range" — stronger than stated: alignment of the
    input is not needed, only that the planner did not take the overlap branch (which holds for every
    non-overlapping group, see `C30_one_range_nonOverlapping`), that the input is ordered by min time
    (`Planner.Plan`'s precondition) and that the ranges are positive. -/
theorem C30_one_range (ranges : List Int) (excl : Excl) (ms r : List Meta)
    (hpos : ∀ iv ∈ ranges.tail, 0 < iv) (hs : SortedByMin ms)
    (hov : selectOverlapping (notExcluded excl ms) = [])
    (h : plan ranges excl ms = some r) (h2 : 2 ≤ r.length) :
    ∃ iv ∈ ranges.tail, ∃ k : Int, ∀ b ∈ r, iv * k ≤ b.min ∧ b.max ≤ iv * k + iv := by
  unfold plan at h
  simp only [hov, List.isEmpty_nil, Bool.not_true, Bool.false_eq_true, if_false] at h
  split at h
  · simp at h
  · split at h
    · simp at h
    · rename_i r' hr'
      split at h
      · rename_i hne
        simp only [Option.some.injEq] at h
        subst h
        have hne' : r' ≠ [] := by intro h0; simp [h0] at hne
        obtain ⟨iv, hiv, p, hp, hsub⟩ := selectMetas_from_part ranges excl _ _ hr' hne'
        have hsd : SortedByMin ms.dropLast := List.Pairwise.sublist (List.dropLast_sublist ms) hs
        obtain ⟨k, hk⟩ := splitByRange_fits ms.dropLast iv (hpos iv hiv) hsd p hp
        exact ⟨iv, hiv, k, fun b hb => hk b (hsub.subset hb)⟩
      · rcases tombScan_spec ranges _ r h with h0 | ⟨b, _, rfl, _, _⟩
        · simp [h0] at h2
        · simp at h2

theorem C30_one_range_nonOverlapping (ranges : List Int) (excl : Excl) (ms r : List Meta)
    (hpos : ∀ iv ∈ ranges.tail, 0 < iv) (hs : SortedByMin ms) (hno : NonOverlapping ms)
    (h : plan ranges excl ms = some r) (h2 : 2 ≤ r.length) :
    ∃ iv ∈ ranges.tail, ∃ k : Int, ∀ b ∈ r, iv * k ≤ b.min ∧ b.max ≤ iv * k + iv :=
  C30_one_range ranges excl ms r hpos hs
    (selectOverlapping_nil_of_nonOverlapping _ (nonOverlapping_notExcluded excl ms hno)) h h2

/-! ## Convergence: plan / apply reaches a fixpoint within `|blocks| + |blocks with many tombstones|` rounds -/

def outOfFuel : Outcome → Bool
  | .outOfFuel _ _ => true
  | _ => false

theorem iterate_terminates (ranges : List Int) (excl : Excl) : ∀ (fuel newId : Nat) (ms : List Meta),
    measure ms < fuel → outOfFuel (iterate ranges excl fuel newId ms) = false
  | 0, _, _, h => by omega
  | fuel + 1, newId, ms, h => by
    unfold iterate
    split
    · rfl
    · rfl
    · rename_i p hnil hplan
      have hspec := plan_spec ranges excl ms p hplan
      have hp : 2 ≤ p.length ∨ ∃ b, p = [b] ∧ manyTombstones b = true := by
        rcases hspec.2.2 with h0 | h2 | ⟨b, hb, ht, _⟩
        · exact absurd h0 (by intro h0; exact hnil h0)
        · exact Or.inl h2
        · exact Or.inr ⟨b, hb, ht⟩
      have hm := applyPlan_measure newId p ms hspec.1 hp
      have ih := iterate_terminates ranges excl fuel (newId + 1) (applyPlan newId p ms) (by omega)
      split <;> simp_all [outOfFuel]

/-- C30, "repeatedly planning and applying plans ends after finitely many steps": for every group
    (overlapping or not, any marks, any ranges) at most 2·n rounds. -/
theorem C30_terminates (ranges : List Int) (excl : Excl) (newId : Nat) (ms : List Meta) :
    outOfFuel (iterate ranges excl (2 * ms.length + 1) newId ms) = false := by
  apply iterate_terminates
  have := List.countP_le_length (p := manyTombstones) (l := ms)
  unfold measure
  omega

/-! ## The two wrapping planners -/

/-- `largeTotalIndexSizeFilter.plan`: the returned plan contains no block that was excluded before
    the call or marked by it -/
theorem sizePlan_spec (ranges : List Int) (limit : Int) : ∀ (fuel : Nat) (excl : Excl) (marked : List Nat)
    (ms p : List Meta) (mk : List Nat), (∀ i ∈ marked, excl i = true) →
    sizePlan ranges limit fuel excl marked ms = .ok p mk →
    (∀ b ∈ p, excl b.id = false ∧ b.id ∉ mk) ∧ (∀ i ∈ marked, i ∈ mk)
  | 0, _, _, _, _, _, _, h => by simp [sizePlan] at h
  | fuel + 1, excl, marked, ms, p, mk, hm, h => by
    unfold sizePlan at h
    split at h
    · simp at h
    · rename_i p' hplan
      split at h
      · simp only [SizeOutcome.ok.injEq] at h
        obtain ⟨rfl, rfl⟩ := h
        refine ⟨fun b hb => ?_, fun i hi => hi⟩
        have hex := C30_no_excluded ranges excl ms p' hplan b hb
        refine ⟨hex, fun hin => ?_⟩
        have := hm b.id hin
        simp [hex] at this
      · rename_i big hbig
        have ih := sizePlan_spec ranges limit fuel (fun i => i = big.id || excl i) (marked ++ [big.id]) ms p mk
          (by
            intro i hi
            rcases List.mem_append.mp hi with hi | hi
            · simp [hm i hi]
            · simp at hi; simp [hi]) h
        refine ⟨fun b hb => ?_, fun i hi => ih.2 i (List.mem_append_left _ hi)⟩
        have := ih.1 b hb
        simp only [Bool.or_eq_false_iff, decide_eq_false_iff_not] at this
        exact ⟨this.1.2, this.2⟩


/-! ### the loops of the two wrapping planners terminate -/

def sizeOutOfFuel : SizeOutcome → Bool
  | .outOfFuel => true
  | _ => false

theorem sizePlan_terminates (ranges : List Int) (limit : Int) : ∀ (fuel : Nat) (excl : Excl) (marked : List Nat)
    (ms : List Meta), free excl ms < fuel → sizeOutOfFuel (sizePlan ranges limit fuel excl marked ms) = false
  | 0, _, _, _, h => by omega
  | fuel + 1, excl, marked, ms, h => by
    unfold sizePlan
    split
    · rfl
    · rename_i p hplan
      split
      · rfl
      · rename_i b hb
        have hbp : b ∈ p := by
          rcases sizeScan_mem limit p 0 none none b hb with h' | h'
          · exact h'
          · simp at h'
        have hbm : b ∈ ms := (C30_subset ranges excl ms p hplan).subset hbp
        have hbe := C30_no_excluded ranges excl ms p hplan b hbp
        have := free_lt_of_mark excl ms b hbm hbe
        exact sizePlan_terminates ranges limit fuel _ _ ms (by omega)

/-- `filter_loop_terminates`: the loop of `largeTotalIndexSizeFilter.plan` ends after at most one round
    per block of the group — every round marks a block of the current plan, which was not excluded
    before (C30_no_excluded), so the set of excluded blocks of the group grows strictly. -/
theorem filter_loop_terminates (ranges : List Int) (limit : Int) (excl : Excl) (marked : List Nat) (ms : List Meta) :
    sizeOutOfFuel (sizePlan ranges limit (ms.length + 1) excl marked ms) = false := by
  apply sizePlan_terminates
  have := List.countP_le_length (p := fun m : Meta => !excl m.id) (l := ms)
  unfold free
  omega

theorem sizePlan_sublist (ranges : List Int) (limit : Int) : ∀ (fuel : Nat) (excl : Excl) (marked : List Nat)
    (ms p : List Meta) (mk : List Nat), sizePlan ranges limit fuel excl marked ms = .ok p mk → p.Sublist ms
  | 0, _, _, _, _, _, h => by simp [sizePlan] at h
  | fuel + 1, excl, marked, ms, p, mk, h => by
    unfold sizePlan at h
    split at h
    · simp at h
    · rename_i p' hplan
      split at h
      · simp only [SizeOutcome.ok.injEq] at h
        obtain ⟨rfl, _⟩ := h
        exact C30_subset ranges excl ms _ hplan
      · exact sizePlan_sublist ranges limit fuel _ _ ms p mk h

/-- the loop of `verticalCompactionDownsampleFilter.Plan` ends as well (repaired or not): every
    round marks at least one not yet excluded block of the group -/
theorem vert_loop_terminates (carry : Bool) (ranges : List Int) (limit : Int) (base : Excl) :
    ∀ (fuel : Nat) (extra marked : List Nat) (ms : List Meta),
      free (fun i => extra.contains i || base i) ms < fuel →
      sizeOutOfFuel (vertPlan carry ranges limit base fuel extra marked ms) = false
  | 0, _, _, _, h => by omega
  | fuel + 1, extra, marked, ms, h => by
    unfold vertPlan
    split
    · rename_i hsz
      have := filter_loop_terminates ranges limit (fun i => extra.contains i || base i) [] ms
      rw [hsz] at this
      exact absurd this (by simp [sizeOutOfFuel])
    · rfl
    · rename_i p mk hsz
      simp only
      split
      · rfl
      · split
        · rfl
        · rename_i hdown
          -- some downsampled block of the plan gets marked now; it was not excluded before
          have hne : (p.filter (fun m => m.res != 0)) ≠ [] := by
            intro h0; simp [h0] at hdown
          obtain ⟨b, hbf⟩ := List.exists_mem_of_ne_nil _ hne
          have hbp : b ∈ p := (List.mem_filter.mp hbf).1
          have hbm : b ∈ ms := (sizePlan_sublist ranges limit _ _ [] ms p mk hsz).subset hbp
          have hbe := ((sizePlan_spec ranges limit _ _ [] ms p mk (by simp) hsz).1 b hbp).1
          apply vert_loop_terminates carry ranges limit base fuel _ _ ms
          have hlt : free (fun i => ((if carry then extra ++ mk else extra) ++
              (p.filter (fun m => m.res != 0)).map (·.id)).contains i || base i) ms <
              free (fun i => extra.contains i || base i) ms := by
            unfold free
            apply countP_lt_of_imp' _ _ ms b
            · intro w _ hw
              simp only [Bool.not_eq_true', Bool.or_eq_false_iff, List.contains_eq_mem,
                decide_eq_false_iff_not, List.mem_append, not_or] at hw ⊢
              refine ⟨?_, hw.2⟩
              have := hw.1.1
              split at this
              · simp only [List.mem_append, not_or] at this; exact this.1
              · exact this
            · exact hbm
            · simpa using hbe
            · simp only [Bool.not_eq_false', Bool.or_eq_true, List.contains_eq_mem, decide_eq_true_eq, List.mem_append]
              exact Or.inl (Or.inr (List.mem_map.mpr ⟨b, hbf, rfl⟩))
          omega

theorem C30_vert_terminates (carry : Bool) (ranges : List Int) (limit : Int) (base : Excl) (ms : List Meta) :
    sizeOutOfFuel (vertPlan carry ranges limit base (ms.length + 1) [] [] ms) = false := by
  apply vert_loop_terminates
  have := List.countP_le_length (p := fun m : Meta => !(fun i => ([] : List Nat).contains i || base i) m.id) (l := ms)
  unfold free
  omega

/-- `verticalCompactionDownsampleFilter.Plan` (repaired): the returned plan contains no block marked
    no-compact — neither one known to the planner, nor one marked during this very call. -/
theorem vertPlan_spec (ranges : List Int) (limit : Int) (base : Excl) : ∀ (fuel : Nat) (extra marked : List Nat)
    (ms p : List Meta) (mk : List Nat), (∀ i ∈ marked, i ∈ extra) →
    vertPlan true ranges limit base fuel extra marked ms = .ok p mk →
    ∀ b ∈ p, base b.id = false ∧ b.id ∉ mk
  | 0, _, _, _, _, _, _, h => by simp [vertPlan] at h
  | fuel + 1, extra, marked, ms, p, mk, hm, h => by
    unfold vertPlan at h
    split at h
    · simp at h
    · simp at h
    · rename_i p' mk' hsz
      have hs := sizePlan_spec ranges limit _ _ [] ms p' mk' (by simp) hsz
      have hdone : ∀ b ∈ p', base b.id = false ∧ b.id ∉ marked ++ mk' := by
        intro b hb
        have := (hs.1 b hb)
        simp only [Bool.or_eq_false_iff] at this
        refine ⟨this.1.2, fun hin => ?_⟩
        rcases List.mem_append.mp hin with hin | hin
        · have := this.1.1
          simp [hm b.id hin] at this
        · exact this.2 hin
      simp only [if_true] at h
      split at h
      · simp only [SizeOutcome.ok.injEq] at h
        obtain ⟨rfl, rfl⟩ := h
        exact hdone
      · split at h
        · simp only [SizeOutcome.ok.injEq] at h
          obtain ⟨rfl, rfl⟩ := h
          exact hdone
        · refine vertPlan_spec ranges limit base fuel _ _ ms p mk ?_ h
          intro i hi
          simp only [List.mem_append] at hi ⊢
          rcases hi with (hi | hi) | hi
          · exact Or.inl (Or.inl (hm i hi))
          · exact Or.inl (Or.inr hi)
          · exact Or.inr hi

/-- C30 "never includes blocks marked no-compact" for the planner as configured with vertical
    compaction: nothing returned is marked, before or by the call. -/
theorem C30_vert_no_marked (ranges : List Int) (limit : Int) (base : Excl) (ms p : List Meta) (mk : List Nat)
    (h : vertPlan true ranges limit base (ms.length + 1) [] [] ms = .ok p mk) :
    ∀ b ∈ p, base b.id = false ∧ b.id ∉ mk :=
  vertPlan_spec ranges limit base _ [] [] ms p mk (by simp) h

def vertWitness : List Meta :=
  [ { id := 1, min := 0,  max := 20,  failed := false, tomb := 0, series := 0, isize := 10,  res := 300000 },
    { id := 2, min := 20, max := 40,  failed := false, tomb := 0, series := 0, isize := 100, res := 300000 },
    { id := 3, min := 25, max := 35,  failed := false, tomb := 0, series := 0, isize := 10,  res := 300000 },
    { id := 4, min := 30, max := 38,  failed := false, tomb := 0, series := 0, isize := 10,  res := 300000 },
    { id := 5, min := 60, max := 80,  failed := false, tomb := 0, series := 0, isize := 10,  res := 300000 },
    { id := 6, min := 80, max := 100, failed := false, tomb := 0, series := 0, isize := 10,  res := 300000 } ]

/-- The loop as originally written (`carry = false`) forgot the size filter's marks between rounds:
    block 2 is marked in round 1 and planned in round 2. -/
theorem C30_vert_forget_false :
    ¬ (∀ (ranges : List Int) (limit : Int) (base : Excl) (ms p : List Meta) (mk : List Nat),
        vertPlan false ranges limit base (ms.length + 1) [] [] ms = .ok p mk → ∀ b ∈ p, b.id ∉ mk) := by
  intro h
  have := h [20, 60] 115 (fun _ => false) vertWitness (vertWitness.take 2) [2, 3, 4] (by decide)
    (vertWitness[1]) (by decide)
  revert this
  decide

/-- on the same input the repaired loop returns no plan at all (block 1 alone is left) -/
example : vertPlan true [20, 60] 115 (fun _ => false) (vertWitness.length + 1) [] [] vertWitness = .ok [] [2, 3, 4] := by
  decide

/-! ## The last clause as literally stated is false: F30 -/

/-- the blocks a plan/apply run ends with, when it reaches a fixpoint -/
def finalOf : Outcome → Option (List Meta)
  | .fixpoint _ f => some f
  | _ => none

def maxRange : List Int → Int
  | [] => 0
  | r :: rs => if r > maxRange rs then r else maxRange rs

/-- "…ends with non-overlapping blocks no longer than the largest range", for every group sorted by
    min time — the statement at full strength. -/
def C30_final_full : Prop :=
  ∀ (ranges : List Int) (excl : Excl) (ms final : List Meta) (fuel newId : Nat),
    ms.Pairwise (fun a b => a.min ≤ b.min) →
    finalOf (iterate ranges excl fuel newId ms) = some final →
    NonOverlapping final ∧ ∀ b ∈ final, b.max - b.min ≤ maxRange ranges

def f30Blocks : List Meta :=
  [ { id := 1, min := 0,   max := 100, failed := false, tomb := 0, series := 0, isize := 1, res := 0 },
    { id := 2, min := 50,  max := 150, failed := false, tomb := 0, series := 0, isize := 1, res := 0 },
    { id := 3, min := 300, max := 400, failed := false, tomb := 0, series := 0, isize := 1, res := 0 } ]

/-- F30: with the configured range [100], the overlapping blocks [0,100) and [50,150) are merged
    into [0,150), longer than the largest range: merging overlapping blocks necessarily spans
    their union. -/
theorem C30_final_full_false : ¬ C30_final_full := by
  intro h
  have := h [100] (fun _ => false) f30Blocks
    [ { id := 7, min := 0, max := 150, failed := false, tomb := 0, series := 0, isize := 0, res := 0 },
      { id := 3, min := 300, max := 400, failed := false, tomb := 0, series := 0, isize := 1, res := 0 } ]
    5 7 (by decide) (by decide)
  have h2 := this.2 { id := 7, min := 0, max := 150, failed := false, tomb := 0, series := 0, isize := 0, res := 0 } (by simp)
  revert h2
  decide

/-- the second way the literal clause fails: a no-compact block that overlaps another block is
    never planned, so the overlap stays -/
theorem C30_final_overlap_excluded :
    finalOf (iterate [100, 300] (fun i => i = 2) 5 7 f30Blocks) = some f30Blocks ∧ ¬ NonOverlapping f30Blocks := by
  decide


/-! ## The last clause where it does hold: non-overlapping inputs -/

/-- what the last clause promises of a group: no overlaps, blocks are proper intervals, none longer than `R` -/
structure Good (R : Int) (ms : List Meta) : Prop where
  nonOverlap : NonOverlapping ms
  wf : ∀ b ∈ ms, b.min < b.max
  short : ∀ b ∈ ms, b.max - b.min ≤ R

theorem Good.sorted {R : Int} {ms : List Meta} (h : Good R ms) : SortedByMin ms := by
  have hw := h.wf
  have hn := h.nonOverlap
  unfold SortedByMin
  unfold NonOverlapping at hn
  induction ms with
  | nil => simp
  | cons m ms ih =>
    have hp := List.pairwise_cons.mp hn
    refine List.pairwise_cons.mpr ⟨?_, ih ⟨hp.2, fun b hb => hw b (List.mem_cons_of_mem _ hb),
      fun b hb => h.short b (List.mem_cons_of_mem _ hb)⟩ (fun b hb => hw b (List.mem_cons_of_mem _ hb)) hp.2⟩
    intro b hb
    have := hp.1 b hb
    have := hw m (by simp)
    omega

theorem mem_maxRange : ∀ {ranges : List Int} {iv : Int}, iv ∈ ranges → iv ≤ maxRange ranges
  | r :: rs, iv, h => by
    unfold maxRange
    rcases List.mem_cons.mp h with rfl | h
    · split <;> omega
    · have := mem_maxRange h
      split <;> omega

theorem insert_nonOverlapping (b : Meta) (hb : b.min < b.max) : ∀ (l : List Meta), NonOverlapping l →
    (∀ c ∈ l, c.min < c.max) → (∀ c ∈ l, c.max ≤ b.min ∨ b.max ≤ c.min) → NonOverlapping (insertByMin b l)
  | [], _, _, _ => by simp [insertByMin, NonOverlapping]
  | m :: l, hn, hw, hd => by
    have hp := List.pairwise_cons.mp hn
    unfold insertByMin
    by_cases hlt : b.min < m.min
    · simp only [hlt, if_true]
      refine List.pairwise_cons.mpr ⟨?_, hn⟩
      have hm : b.max ≤ m.min := by
        rcases hd m (by simp) with h | h
        · have := hw m (by simp); omega
        · exact h
      intro x hx
      rcases List.mem_cons.mp hx with rfl | hx
      · exact hm
      · have := hp.1 x hx
        have := hw m (by simp)
        omega
    · simp only [hlt, if_false]
      refine List.pairwise_cons.mpr ⟨?_, insert_nonOverlapping b hb l hp.2
        (fun c hc => hw c (List.mem_cons_of_mem _ hc)) (fun c hc => hd c (List.mem_cons_of_mem _ hc))⟩
      intro y hy
      rcases mem_insertByMin.mp hy with rfl | hy
      · rcases hd m (by simp) with h | h
        · exact h
        · omega
      · exact hp.1 y hy

/-- replacing a contiguous piece of a good group by its hull keeps the group good -/
theorem apply_good (R : Int) (newId : Nat) (p ms pre suf : List Meta) (hms : ms = pre ++ p ++ suf)
    (hne : p ≠ []) (hg : Good R ms) (hlen : (hull newId p).max - (hull newId p).min ≤ R) :
    Good R (applyPlan newId p ms) := by
  obtain ⟨m0, p', rfl⟩ : ∃ m0 p', p = m0 :: p' := by
    cases p with
    | nil => exact absurd rfl hne
    | cons a l => exact ⟨a, l, rfl⟩
  obtain ⟨⟨a, ha, hmin⟩, ⟨z, hz, hmax⟩, hlo, hhi⟩ := hull_spec newId m0 p'
  have hpm : ∀ b ∈ m0 :: p', b ∈ ms := by
    intro b hb; rw [hms]; simp only [List.mem_append]; exact Or.inl (Or.inr hb)
  have hHwf : (hull newId (m0 :: p')).min < (hull newId (m0 :: p')).max := by
    have := hg.wf m0 (hpm m0 (by simp)); omega
  have hsub : (ms.filter (fun m => !((m0 :: p').any (fun q => q.id = m.id)))).Sublist ms := List.filter_sublist
  have hno := hg.nonOverlap
  unfold NonOverlapping at hno
  rw [hms, List.pairwise_append, List.pairwise_append] at hno
  obtain ⟨⟨_, _, hpre_p⟩, _, hall_suf⟩ := hno
  have hdis : ∀ c ∈ ms.filter (fun m => !((m0 :: p').any (fun q => q.id = m.id))),
      c.max ≤ (hull newId (m0 :: p')).min ∨ (hull newId (m0 :: p')).max ≤ c.min := by
    intro c hc
    obtain ⟨hcm, hck⟩ := List.mem_filter.mp hc
    rw [hms] at hcm
    simp only [List.mem_append] at hcm
    rcases hcm with (hc1 | hc2) | hc3
    · left; rw [hmin]; exact hpre_p c hc1 a ha
    · exfalso
      simp only [Bool.not_eq_true', List.any_eq_false, decide_eq_true_eq] at hck
      exact hck c hc2 rfl
    · right; rw [hmax]; exact hall_suf z (List.mem_append_right _ hz) c hc3
  unfold applyPlan
  refine ⟨?_, ?_, ?_⟩
  · exact insert_nonOverlapping _ hHwf _ (List.Pairwise.sublist hsub hg.nonOverlap)
      (fun c hc => hg.wf c (hsub.subset hc)) hdis
  · intro b hb
    rcases mem_insertByMin.mp hb with rfl | hb
    · exact hHwf
    · exact hg.wf b (hsub.subset hb)
  · intro b hb
    rcases mem_insertByMin.mp hb with rfl | hb
    · exact hlen
    · exact hg.short b (hsub.subset hb)

/-- outside the overlap branch a non-empty plan is a contiguous piece of the group -/
theorem plan_infix (ranges : List Int) (excl : Excl) (ms r : List Meta)
    (hov : selectOverlapping (notExcluded excl ms) = []) (h : plan ranges excl ms = some r) (hne : r ≠ []) :
    Infix r ms := by
  have hsub := (plan_spec ranges excl ms r h).1
  unfold plan at h
  simp only [hov, List.isEmpty_nil, Bool.not_true, Bool.false_eq_true, if_false] at h
  split at h
  · simp at h
  · split at h
    · simp at h
    · rename_i r' hr'
      split at h
      · simp only [Option.some.injEq] at h
        subst h
        exact infix_dropLast (selectMetas_infix ranges excl _ _ hr' hne)
      · rcases tombScan_spec ranges _ r h with h0 | ⟨b, _, rfl, _, _⟩
        · exact absurd h0 hne
        · have hb : b ∈ ms := hsub.subset (by simp)
          obtain ⟨s, t, hst⟩ := List.append_of_mem hb
          exact ⟨s, t, by simp [hst]⟩

theorem step_good (ranges : List Int) (excl : Excl) (newId : Nat) (ms p : List Meta)
    (hpos : ∀ iv ∈ ranges.tail, 0 < iv) (hg : Good (maxRange ranges) ms)
    (h : plan ranges excl ms = some p) (hne : p ≠ []) : Good (maxRange ranges) (applyPlan newId p ms) := by
  have hov : selectOverlapping (notExcluded excl ms) = [] :=
    selectOverlapping_nil_of_nonOverlapping _ (nonOverlapping_notExcluded excl ms hg.nonOverlap)
  obtain ⟨pre, suf, hms⟩ := plan_infix ranges excl ms p hov h hne
  refine apply_good _ newId p ms pre suf hms hne hg ?_
  obtain ⟨m0, p', rfl⟩ : ∃ m0 p', p = m0 :: p' := by
    cases p with
    | nil => exact absurd rfl hne
    | cons a l => exact ⟨a, l, rfl⟩
  obtain ⟨⟨a, ha, hmin⟩, ⟨z, hz, hmax⟩, _, _⟩ := hull_spec newId m0 p'
  rcases C30_size ranges excl ms _ h hne with h2 | ⟨b, hb, _, _⟩
  · obtain ⟨iv, hiv, k, hk⟩ := C30_one_range ranges excl ms _ hpos hg.sorted hov h h2
    have h1 := (hk a ha).1
    have h3 := (hk z hz).2
    have h4 := mem_maxRange (List.mem_of_mem_tail hiv)
    omega
  · simp only [List.cons.injEq] at hb
    obtain ⟨rfl, rfl⟩ := hb
    have hm : m0 ∈ ms := (plan_spec ranges excl ms _ h).1.subset (by simp)
    have := hg.short m0 hm
    simp [hull, minOf, maxOf]
    exact this

theorem iterate_good (ranges : List Int) (excl : Excl) (hpos : ∀ iv ∈ ranges.tail, 0 < iv) :
    ∀ (fuel newId : Nat) (ms final : List Meta), Good (maxRange ranges) ms →
      finalOf (iterate ranges excl fuel newId ms) = some final → Good (maxRange ranges) final
  | 0, _, _, _, _, h => by simp [iterate, finalOf] at h
  | fuel + 1, newId, ms, final, hg, h => by
    unfold iterate at h
    split at h
    · simp [finalOf] at h
    · simp only [finalOf, Option.some.injEq] at h
      subst h; exact hg
    · rename_i p hnil hplan
      have hstep := step_good ranges excl newId ms p hpos hg hplan (by intro h0; exact hnil h0)
      have ih := iterate_good ranges excl hpos fuel (newId + 1) (applyPlan newId p ms) final hstep
      split at h
      · rename_i ps f heq
        simp only [finalOf, Option.some.injEq] at h
        subst h
        exact ih (by simp [heq, finalOf])
      · simp [finalOf] at h
      · simp [finalOf] at h

/-- C30, last clause, where it holds: a group of non-overlapping proper blocks none of which is longer
    than the largest range ends — whatever no-compact marks, failed compactions, tombstones, alignment —
    with non-overlapping blocks no longer than the largest range. -/
theorem C30_final_partial (ranges : List Int) (excl : Excl) (ms final : List Meta) (fuel newId : Nat)
    (hpos : ∀ iv ∈ ranges.tail, 0 < iv)
    (hno : NonOverlapping ms) (hwf : ∀ b ∈ ms, b.min < b.max) (hshort : ∀ b ∈ ms, b.max - b.min ≤ maxRange ranges)
    (h : finalOf (iterate ranges excl fuel newId ms) = some final) :
    NonOverlapping final ∧ ∀ b ∈ final, b.max - b.min ≤ maxRange ranges := by
  have := iterate_good ranges excl hpos fuel newId ms final ⟨hno, hwf, hshort⟩ h
  exact ⟨this.nonOverlap, this.short⟩

/-! non-vacuity -/
example : plan [20, 60, 180] (fun _ => false)
    [ { id := 1, min := 0,  max := 20, failed := false, tomb := 0, series := 0, isize := 1, res := 0 },
      { id := 2, min := 20, max := 40, failed := false, tomb := 0, series := 0, isize := 1, res := 0 },
      { id := 3, min := 40, max := 60, failed := false, tomb := 0, series := 0, isize := 1, res := 0 },
      { id := 4, min := 60, max := 80, failed := false, tomb := 0, series := 0, isize := 1, res := 0 } ]
    = some
    [ { id := 1, min := 0,  max := 20, failed := false, tomb := 0, series := 0, isize := 1, res := 0 },
      { id := 2, min := 20, max := 40, failed := false, tomb := 0, series := 0, isize := 1, res := 0 },
      { id := 3, min := 40, max := 60, failed := false, tomb := 0, series := 0, isize := 1, res := 0 } ] := by decide

example : NonOverlapping f30Blocks.tail := by decide
example : plan [100] (fun _ => false) f30Blocks = some (f30Blocks.take 2) := by decide
-- a single-block (tombstone) plan exists
example : plan [20, 60] (fun _ => false)
    [ { id := 1, min := 0,  max := 60, failed := false, tomb := 9, series := 100, isize := 1, res := 0 },
      { id := 2, min := 60, max := 80, failed := false, tomb := 0, series := 0, isize := 1, res := 0 } ]
    = some [ { id := 1, min := 0,  max := 60, failed := false, tomb := 9, series := 100, isize := 1, res := 0 } ] := by decide

/-! non-vacuity of the partial theorem: a good group that takes two rounds (a range plan, then nothing) -/
example : let ms : List Meta :=
    [ { id := 1, min := -40, max := -20, failed := false, tomb := 0, series := 0, isize := 1, res := 0 },
      { id := 2, min := -20, max := 0,  failed := false, tomb := 0, series := 0, isize := 1, res := 0 },
      { id := 3, min := 0,   max := 20, failed := false, tomb := 0, series := 0, isize := 1, res := 0 },
      { id := 4, min := 60,  max := 80, failed := false, tomb := 0, series := 0, isize := 1, res := 0 } ]
    NonOverlapping ms ∧ (∀ b ∈ ms, b.min < b.max) ∧ (∀ b ∈ ms, b.max - b.min ≤ maxRange [20, 60]) ∧
    (finalOf (iterate [20, 60] (fun _ => false) 9 7 ms)).map (fun f => f.map (fun b => (b.id, b.min, b.max)))
      = some [(7, -40, 0), (3, 0, 20), (4, 60, 80)] := by decide

/-! ## Regenerated facts: the conditions of planner.go the model transliterates -/

/-- `manyTombstones` is this test (exact for counts below 2^40) and `tombScan`'s length test -/
theorem C30_fact_tombstone :
    Thanos.Facts.plannerTombstoneCond = "float64(meta.Stats.NumTombstones)/float64(meta.Stats.NumSeries+1) > 0.05" ∧
    Thanos.Facts.plannerTombstoneMinRange = "meta.MaxTime-meta.MinTime < p.ranges[len(p.ranges)/2]" := by decide

/-- `plan` looks for overlaps first, then for a range -/
theorem C30_fact_order : Thanos.Facts.plannerPlanCalls = ["selectOverlappingMetas", "selectMetas"] := by decide

/-- the tests of `pickPart`, `overlapGo`, `split`/`rangeStart` -/
theorem C30_fact_select :
    Thanos.Facts.plannerSelectFreshCond = "maxt-mint != iv && maxt > highTime" ∧
    Thanos.Facts.plannerSelectFailedCond = "m.Compaction.Failed" ∧
    Thanos.Facts.plannerOverlapCond = "m.MinTime < globalMaxt" ∧
    Thanos.Facts.plannerSplitFitCond = "m.MaxTime > t0+tr" ∧
    Thanos.Facts.plannerSplitSignCond = "m.MinTime >= 0" := by decide

/-- the tests of `sizeScan` and `vertPlan` -/
theorem C30_fact_filters :
    Thanos.Facts.plannerSizeLimitCond = "totalIndexBytes >= int64(float64(t.totalMaxIndexSizeBytes)*0.85)" ∧
    Thanos.Facts.plannerVerticalResCond = "m.Thanos.Downsample.Resolution == 0" := by decide

end Thanos.Planner
