import Thanos.Model.Sharding
import Thanos.Generated.Facts
/-
  C44 — Sharded query execution returns the unsharded result.

  Part 1 (this section): the shard function is a partition of the series and is constant on
  series that agree on the sharding projection — for every hash function, shard count and label
  set.  Part 2: the analyzer (`analyze`, a transliteration of `QueryAnalyzer.Analyze`) and
  fragment soundness.
-/
namespace Thanos.Sharding

/-! ### every series belongs to exactly one shard -/

/-- **shard_partition**: with `total ≥ 1` shards, exactly one shard index accepts a series. -/
theorem shard_partition (hash : Labels → Nat) (total : Nat) (ht : 0 < total) (K : List String) (by_ : Bool)
    (ls : Labels) :
    ∃ i, i < total ∧ shardMatches hash total i K by_ ls = true ∧
      ∀ j, shardMatches hash total j K by_ ls = true → j = i := by
  refine ⟨hash (projection K by_ ls) % total, Nat.mod_lt _ ht, by simp [shardMatches], ?_⟩
  intro j hj
  simp [shardMatches] at hj
  exact hj.symm

/-- the requests `shardQuery` builds cover exactly the indices `0 … n-1` -/
theorem shardIndices_spec (n i : Nat) : i ∈ shardIndices n ↔ i < n := by simp [shardIndices]

/-- every series is answered by exactly one of the `n` sharded requests -/
theorem C44_exactly_one (hash : Labels → Nat) (n : Nat) (hn : 0 < n) (K : List String) (by_ : Bool) (ls : Labels) :
    ((shardIndices n).filter fun i => shardMatches hash n i K by_ ls).length = 1 := by
  have h : (shardIndices n).filter (fun i => shardMatches hash n i K by_ ls) = [hash (projection K by_ ls) % n] := by
    unfold shardIndices shardMatches
    have hlt := Nat.mod_lt (hash (projection K by_ ls)) hn
    generalize hash (projection K by_ ls) % n = m at *
    induction n with
    | zero => omega
    | succ k ih =>
      rw [List.range_succ, List.filter_append]
      by_cases hm : m = k
      · subst hm
        have : (List.range m).filter (fun i => m == i) = [] := by
          apply List.filter_eq_nil_iff.mpr
          intro a ha; simp at ha; simp; omega
        simp [this]
      · have hk : m < k := by omega
        have : ([k].filter fun i => m == i) = [] := by simp; omega
        rw [this, List.append_nil]
        rcases Nat.eq_zero_or_pos k with h0 | hpos
        · omega
        · exact ih hpos hk
  rw [h]; rfl

/-! ### series that agree on the sharding labels belong to the same shard -/

/-- **shard_cong**: the shard depends on the projection only. -/
theorem shard_cong (hash : Labels → Nat) (total i : Nat) (K : List String) (by_ : Bool) (l1 l2 : Labels)
    (h : projection K by_ l1 = projection K by_ l2) :
    shardMatches hash total i K by_ l1 = shardMatches hash total i K by_ l2 := by
  simp [shardMatches, h]

/-- by-mode: the projection keeps exactly the labels named in `K` … -/
theorem projection_by (K : List String) (ls : Labels) :
    projection K true ls = ls.filter fun l => K.contains l.1 := by
  unfold projection shardByLabel
  congr 1; funext l; cases K.contains l.1 <;> simp

/-- … without-mode: exactly the others. -/
theorem projection_without (K : List String) (ls : Labels) :
    projection K false ls = ls.filter fun l => !K.contains l.1 := by
  unfold projection shardByLabel
  congr 1; funext l; cases K.contains l.1 <;> simp

example : projection ["a"] true [("__name__", "m"), ("a", "1"), ("b", "x")] = [("a", "1")] := by decide
example : projection ["a"] false [("__name__", "m"), ("a", "1"), ("b", "x")] = [("__name__", "m"), ("b", "x")] := by decide
example : shardMatches (fun l => l.length + 4) 3 2 ["a"] true [("__name__", "m"), ("a", "1")] = true := by decide

/-! ### the analyzer on concrete queries (what it decides, incl. the nil / empty distinction) -/

private def up : Expr := .sel "up"

-- sum by (a) (up): shard by a
example : analyze (.agg "sum" .by_ ["a"] none up) = ⟨some ["a"], true⟩ := by decide
-- sum (up): empty non-nil label list — not shardable
example : isShardable (analyze (.agg "sum" .none [] none up)) = false := by decide
-- up + on() up: `on()` yields an empty non-nil list, which disables sharding for the whole query
example : isShardable (analyze (.bin "+" .on [] (.agg "sum" .by_ ["a"] none up) up)) = false := by decide
-- sum by (a, b) (x) / ignoring (b) sum by (a, b) (y): by a
example : analyze (.bin "/" .ignoring ["b"] (.agg "sum" .by_ ["a", "b"] none up) (.agg "sum" .by_ ["a", "b"] none up))
    = ⟨some ["a"], true⟩ := by decide
-- histogram_quantile(0.9, sum by (le, a) (x)): by a
example : analyze (.call "histogram_quantile" [.num "0.9", .agg "sum" .by_ ["le", "a"] none up]) = ⟨some ["a"], true⟩ := by decide
-- absent(...) / scalar(...): never sharded
example : analyze (.agg "sum" .by_ ["a"] none (.call "absent" [up])) = nonShardable := by decide
-- label_replace target removed from the by labels
example : isShardable (analyze (.agg "sum" .by_ ["dst"] none (.call "label_replace" [up, .str "dst", .str "$1", .str "a", .str "(.*)"]))) = false := by
  decide
-- vector op scalar has no vector matching
example : analyze (.bin "*" .none [] (.agg "sum" .by_ ["a"] none up) (.num "2")) = ⟨some ["a"], true⟩ := by decide
-- F44a: `sum without (a) (…)` shards on every label except `a` — the metric name included
example : analyze (.agg "sum" .without ["a"] none (.sel "{__name__=~\"m0|m1\"}")) = ⟨some ["a"], false⟩ := by decide

-- count_values writes its own label: dynamic since the repair (`analyze`), a sharding label before (`analyzeWith false`)
example : isShardable (analyze (.agg "count_values" .by_ ["a"] (some (.str "a")) (.sel "m0"))) = false := by decide
example : analyzeWith false (.agg "count_values" .by_ ["a"] (some (.str "a")) (.sel "m0")) = ⟨some ["a"], true⟩ := by decide
example : analyze (.agg "count_values" .by_ ["a", "b"] (some (.str "a")) (.sel "m0")) = ⟨some ["b"], true⟩ := by decide

/-! ### regenerated obligations -/

/-- the analyzer's callback (incl. the count_values case of the repair), scopeToLabels and
    IsShardable read as transliterated -/
theorem C44_fact_analyzer :
    Thanos.Facts.analyzeBody =
      ["expr, err := extpromql.ParseExpr(query)",
       "if err != nil {",
       "return nonShardableQuery(), err",
       "}",
       "var ( analysis QueryAnalysis dynamicLabels []string )",
       "isShardable := true",
       "parser.Inspect(expr, func(node parser.Node, nodes []parser.Node) error { switch n := node.(type) { case *parser.Call: if n.Func != nil { switch n.Func.Name { case \"label_join\", \"label_replace\": dstLabel := stringFromArg(n.Args[1]) dynamicLabels = append(dynamicLabels, dstLabel) case \"absent_over_time\", \"absent\", \"scalar\": isShardable = false return errNotShardable case \"histogram_quantile\": analysis = analysis.scopeToLabels([]string{\"le\"}, false) } } case *parser.BinaryExpr: if n.VectorMatching != nil { shardingLabels := n.VectorMatching.MatchingLabels if !n.VectorMatching.On { shardingLabels = append(shardingLabels, model.MetricNameLabel) } analysis = analysis.scopeToLabels(shardingLabels, n.VectorMatching.On) } case *parser.AggregateExpr: shardingLabels := make([]string, 0) if len(n.Grouping) > 0 { shardingLabels = n.Grouping } analysis = analysis.scopeToLabels(shardingLabels, !n.Without) if n.Op == parser.COUNT_VALUES { dynamicLabels = append(dynamicLabels, stringFromArg(n.Param)) } } return nil })",
       "if !isShardable {",
       "return nonShardableQuery(), nil",
       "}",
       "if len(dynamicLabels) > 0 {",
       "analysis = analysis.scopeToLabels(dynamicLabels, false)",
       "}",
       "return analysis, nil"] ∧
    Thanos.Facts.scopeToLabelsBody =
      ["if q.shardingLabels == nil {",
       "return QueryAnalysis{ shardBy: by, shardingLabels: labels, }",
       "}",
       "if q.shardBy && by {",
       "return QueryAnalysis{ shardBy: true, shardingLabels: intersect(q.shardingLabels, labels), }",
       "}",
       "if !q.shardBy && !by {",
       "return QueryAnalysis{ shardBy: false, shardingLabels: union(q.shardingLabels, labels), }",
       "}",
       "labelsBy, labelsWithout := q.shardingLabels, labels",
       "if !q.shardBy {",
       "labelsBy, labelsWithout = labelsWithout, labelsBy",
       "}",
       "return QueryAnalysis{ shardBy: true, shardingLabels: without(labelsBy, labelsWithout), }"] ∧
    Thanos.Facts.isShardableBody =
      ["return len(q.shardingLabels) > 0"] :=
  ⟨rfl, rfl, rfl⟩

theorem C44_fact_matcher :
    Thanos.Facts.matchesZLabelsBody =
      ["if s == nil || !s.isSharded {",
       "return true",
       "}",
       "*s.buf = (*s.buf)[:0]",
       "for _, lbl := range zLabels {",
       "if shardByLabel(s.shardingLabelset, lbl, s.by) {",
       "*s.buf = append(*s.buf, lbl.Name...)",
       "*s.buf = append(*s.buf, sep[0])",
       "*s.buf = append(*s.buf, lbl.Value...)",
       "*s.buf = append(*s.buf, sep[0])",
       "}",
       "}",
       "hash := xxhash.Sum64(*s.buf)",
       "return hash%uint64(s.totalShards) == uint64(s.shardIndex)"] ∧
    Thanos.Facts.shardByLabelBody =
      ["_, shardHasLabel := labelSet[zlabel.Name]",
       "if groupingBy && shardHasLabel {",
       "return true",
       "}",
       "groupingWithout := !groupingBy",
       "if groupingWithout && !shardHasLabel {",
       "return true",
       "}",
       "return false"] ∧
    Thanos.Facts.shardQueryBody =
      ["tr, ok := r.(ShardedRequest)",
       "if !ok {",
       "return []queryrange.Request{r}",
       "}",
       "reqs := make([]queryrange.Request, s.numShards)",
       "for i := 0; i < s.numShards; i++ {",
       "reqs[i] = tr.WithShardInfo(&storepb.ShardInfo{ TotalShards: int64(s.numShards), ShardIndex: int64(i), By: analysis.ShardBy(), Labels: analysis.ShardingLabels(), })",
       "}",
       "return reqs"] :=
  ⟨rfl, rfl, rfl⟩

end Thanos.Sharding
