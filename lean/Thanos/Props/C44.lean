import Thanos.Model.Sharding
import Thanos.Model.ShardEval
import Thanos.Lemmas.ShardEval
import Thanos.Generated.Facts
/-
  C44 — Sharded query execution returns the unsharded result.

  Part 1 (this section): the shard function is a partition of the series and is constant on
  series that agree on the sharding projection — for every hash function, shard count and label
  set.  Part 2: the analyzer (`analyze`, a transliteration of `QueryAnalyzer.Analyze`) and
  fragment soundness.
-/
namespace Thanos.Sharding

/-! ### every series belongs to exactly one shard -/

/-- **shard_partition**: with `total ≥ 1` shards, exactly one shard index accepts a series. -/
theorem shard_partition (hash : Labels → Nat) (total : Nat) (ht : 0 < total) (K : List String) (by_ : Bool)
    (ls : Labels) :
    ∃ i, i < total ∧ shardMatches hash total i K by_ ls = true ∧
      ∀ j, shardMatches hash total j K by_ ls = true → j = i := by
  refine ⟨hash (projection K by_ ls) % total, Nat.mod_lt _ ht, by simp [shardMatches], ?_⟩
  intro j hj
  simp [shardMatches] at hj
  exact hj.symm

/-- the requests `shardQuery` builds cover exactly the indices `0 … n-1` -/
theorem shardIndices_spec (n i : Nat) : i ∈ shardIndices n ↔ i < n := by simp [shardIndices]

/-- every series is answered by exactly one of the `n` sharded requests -/
theorem C44_exactly_one (hash : Labels → Nat) (n : Nat) (hn : 0 < n) (K : List String) (by_ : Bool) (ls : Labels) :
    ((shardIndices n).filter fun i => shardMatches hash n i K by_ ls).length = 1 := by
  have h : (shardIndices n).filter (fun i => shardMatches hash n i K by_ ls) = [hash (projection K by_ ls) % n] := by
    unfold shardIndices shardMatches
    have hlt := Nat.mod_lt (hash (projection K by_ ls)) hn
    generalize hash (projection K by_ ls) % n = m at *
    induction n with
    | zero => omega
    | succ k ih =>
      rw [List.range_succ, List.filter_append]
      by_cases hm : m = k
      · subst hm
        have : (List.range m).filter (fun i => m == i) = [] := by
          apply List.filter_eq_nil_iff.mpr
          intro a ha; simp at ha; simp; omega
        simp [this]
      · have hk : m < k := by omega
        have : ([k].filter fun i => m == i) = [] := by simp; omega
        rw [this, List.append_nil]
        rcases Nat.eq_zero_or_pos k with h0 | hpos
        · omega
        · exact ih hpos hk
  rw [h]; rfl

/-! ### series that agree on the sharding labels belong to the same shard -/

/-- **shard_cong**: the shard depends on the projection only. -/
theorem shard_cong (hash : Labels → Nat) (total i : Nat) (K : List String) (by_ : Bool) (l1 l2 : Labels)
    (h : projection K by_ l1 = projection K by_ l2) :
    shardMatches hash total i K by_ l1 = shardMatches hash total i K by_ l2 := by
  simp [shardMatches, h]

/-- by-mode: the projection keeps exactly the labels named in `K` … -/
theorem projection_by (K : List String) (ls : Labels) :
    projection K true ls = ls.filter fun l => K.contains l.1 := by
  unfold projection shardByLabel
  congr 1; funext l; cases K.contains l.1 <;> simp

/-- … without-mode: exactly the others. -/
theorem projection_without (K : List String) (ls : Labels) :
    projection K false ls = ls.filter fun l => !K.contains l.1 := by
  unfold projection shardByLabel
  congr 1; funext l; cases K.contains l.1 <;> simp

example : projection ["a"] true [("__name__", "m"), ("a", "1"), ("b", "x")] = [("a", "1")] := by decide
example : projection ["a"] false [("__name__", "m"), ("a", "1"), ("b", "x")] = [("__name__", "m"), ("b", "x")] := by decide
example : shardMatches (fun l => l.length + 4) 3 2 ["a"] true [("__name__", "m"), ("a", "1")] = true := by decide

/-! ### the analyzer on concrete queries (what it decides, incl. the nil / empty distinction) -/

private def up : Expr := .sel "up"

-- sum by (a) (up): shard by a
example : analyze (.agg "sum" .by_ ["a"] none up) = ⟨some ["a"], true⟩ := by decide
-- sum (up): empty non-nil label list — not shardable
example : isShardable (analyze (.agg "sum" .none [] none up)) = false := by decide
-- up + on() up: `on()` yields an empty non-nil list, which disables sharding for the whole query
example : isShardable (analyze (.bin "+" .on [] (.agg "sum" .by_ ["a"] none up) up)) = false := by decide
-- sum by (a, b) (x) / ignoring (b) sum by (a, b) (y): by a
example : analyze (.bin "/" .ignoring ["b"] (.agg "sum" .by_ ["a", "b"] none up) (.agg "sum" .by_ ["a", "b"] none up))
    = ⟨some ["a"], true⟩ := by decide
-- histogram_quantile(0.9, sum by (le, a) (x)): by a
example : analyze (.call "histogram_quantile" [.num "0.9", .agg "sum" .by_ ["le", "a"] none up]) = ⟨some ["a"], true⟩ := by decide
-- absent(...) / scalar(...): never sharded
example : analyze (.agg "sum" .by_ ["a"] none (.call "absent" [up])) = nonShardable := by decide
-- label_replace target removed from the by labels
example : isShardable (analyze (.agg "sum" .by_ ["dst"] none (.call "label_replace" [up, .str "dst", .str "$1", .str "a", .str "(.*)"]))) = false := by
  decide
-- vector op scalar has no vector matching
example : analyze (.bin "*" .none [] (.agg "sum" .by_ ["a"] none up) (.num "2")) = ⟨some ["a"], true⟩ := by decide
-- F44a: `sum without (a) (…)` shards on every label except `a` — the metric name included
example : analyze (.agg "sum" .without ["a"] none (.sel "{__name__=~\"m0|m1\"}")) = ⟨some ["a"], false⟩ := by decide

-- count_values writes its own label: dynamic since the repair (`analyze`), a sharding label before (`analyzeWith false`)
example : isShardable (analyze (.agg "count_values" .by_ ["a"] (some (.str "a")) (.sel "m0"))) = false := by decide
example : analyzeWith false (.agg "count_values" .by_ ["a"] (some (.str "a")) (.sel "m0")) = ⟨some ["a"], true⟩ := by decide
example : analyze (.agg "count_values" .by_ ["a", "b"] (some (.str "a")) (.sel "m0")) = ⟨some ["b"], true⟩ := by decide


/-! ### Part 2: sharded evaluation of the fragment equals unsharded evaluation

  Fragment (`FExpr`, Lemmas/ShardEval.lean): selectors, pointwise functions and filters (with or
  without dropping the metric name), aggregations `by (L)` / `without (L)` with ANY operator,
  one-to-one vector matching `on (L)` / `ignoring (L)` (arithmetic, comparison filters, `and`,
  `unless`, `or`), many-to-one matching with `group_left (inc)` / `group_right (inc)`,
  `histogram_quantile`, `label_replace` / `label_join` (dynamic labels), range functions over matrix
  selectors and functions over subqueries (evaluation over time-indexed inputs), selecting
  aggregations (`topk`, `bottomk`, `limitk`, `limit_ratio`: any rule `keep` that picks members of
  the group) and `count_values` (one output per distinct value, the value written to a label),
  nested to any depth.  `FExpr.toExpr` is what the analyzer sees, `FExpr.toV` what the engine
  computes (spec-level semantics at one timestamp, `eval`). -/

/-- abstract form: if no node changes the shard of a series, evaluating on each shard and
    concatenating is a permutation of evaluating once, and (second part) a series label set comes
    out of one shard only — so `MergeResponse`, which merges by label set, is a plain union. -/
theorem C44_compat_sound (sh : Labels → Nat) (e : VExpr) (hc : Compat sh e) (S : TVec) (t : Int) (n : Nat)
    (hn : ∀ t' s, s ∈ S t' → sh s.1 < n) :
    ((shardIndices n).flatMap fun i => eval e (shardOfT sh i S) t).Perm (eval e S t) ∧
    ∀ i j x y, x ∈ eval e (shardOfT sh i S) t → y ∈ eval e (shardOfT sh j S) t → x.1 = y.1 → i = j := by
  constructor
  · have h1 : ((shardIndices n).flatMap fun i => eval e (shardOfT sh i S) t) =
        ((List.range n).flatMap fun i => shardOf sh i (eval e S t)) := by
      unfold shardIndices
      congr 1; funext i
      exact eval_shard sh i e hc S t
    rw [h1]
    refine (perm_shards sh (eval e S t) n).trans (List.Perm.of_eq ?_)
    apply List.filter_eq_self.mpr
    intro x hx
    obtain ⟨t', y, hy, hxy⟩ := eval_shard_of_input sh e hc S t x hx
    simp [hxy, hn t' y hy]
  · intro i j x y hx hy hxy
    rw [eval_shard sh i e hc S t] at hx
    rw [eval_shard sh j e hc S t] at hy
    have hi : sh x.1 = i := by simpa [shardOf] using (List.mem_filter.mp hx).2
    have hj : sh y.1 = j := by simpa [shardOf] using (List.mem_filter.mp hy).2
    rw [← hi, ← hj, hxy]

/-- what the stores hand to shard `i` of `total` at every timestamp -/
def shardInput (hash : Labels → Nat) (total i : Nat) (K : List String) (by_ : Bool) (S : TVec) : TVec :=
  fun t => (S t).filter fun s => shardMatches hash total i K by_ s.1

/-- C44 for the fragment at full strength: whatever labels the analyzer chooses. -/
def C44_fragment_full : Prop :=
  ∀ (hash : Labels → Nat) (total : Nat) (e : FExpr) (K : List String) (by_ : Bool) (S : TVec) (t : Int),
    0 < total → e.WF → analyze e.toExpr = ⟨some K, by_⟩ → K ≠ [] →
    ((shardIndices total).flatMap fun i => eval e.toV (shardInput hash total i K by_ S) t).Perm (eval e.toV S t)

/-- **C44_sound** (fragment): when the analyzer shards a fragment query by `K` and the metric
    name is treated consistently (`NameSafe`: not among `by` labels, among `without` labels),
    then for every hash function, shard count, time-indexed series set, evaluation timestamp,
    aggregation operators and nesting depth the concatenation of the per-shard results is a
    permutation of the unsharded result, and no label set is produced by two shards. -/
theorem C44_sound (hash : Labels → Nat) (total : Nat) (e : FExpr) (K : List String) (by_ : Bool) (S : TVec) (t : Int)
    (ht : 0 < total) (hwf : e.WF) (ha : analyze e.toExpr = ⟨some K, by_⟩) (hname : NameSafe K by_) :
    ((shardIndices total).flatMap fun i => eval e.toV (shardInput hash total i K by_ S) t).Perm (eval e.toV S t) ∧
    ∀ i j x y, x ∈ eval e.toV (shardInput hash total i K by_ S) t →
      y ∈ eval e.toV (shardInput hash total j K by_ S) t → x.1 = y.1 → i = j := by
  have hall : ScopeInv ⟨some K, by_⟩ e.allScopes := by
    have := scopeInv_fold e.allScopes ⟨none, false⟩ [] rfl
    rw [← foldScopes, ← analyze_fragment e hwf, ha] at this
    simpa using this
  have hinv : ScopeInv ⟨some K, by_⟩ e.scopes :=
    scopeInv_sub hall (fun sc hsc => by simp [FExpr.allScopes, hsc])
  have hc := compat_of_scoped hash total K by_ e (scoped_of_inv K by_ hname e hwf (dyns_not_hashed hall) hinv)
  have hshard : ∀ i, shardInput hash total i K by_ S = shardOfT (shReal hash total K by_) i S := by
    intro i
    funext t'
    unfold shardInput shardOfT shardOf shReal shardMatches
    apply List.filter_congr
    intro s _
    by_cases h : hash (projection K by_ s.1) % total = i <;> simp [h]
  simp only [hshard]
  exact C44_compat_sound _ _ hc S t total (fun _ s _ => Nat.mod_lt _ ht)

/-- `sum without (a) (sel)` over the two series m0{a="1"} = 1 and m1{a="2"} = 2 -/
private def wq : FExpr := .aggWithout "sum" ["a"] List.sum (.sel "{__name__=~\"m0|m1\"}" fun _ => true)
private def wS : Vec := [([("__name__", "m0"), ("a", "1")], 1), ([("__name__", "m1"), ("a", "2")], 2)]
private def wHash : Labels → Nat := fun l => if l = [("__name__", "m0")] then 0 else 1

/-- F44a: without `NameSafe` the statement is false — the analyzer shards
    `sum without (a) ({__name__=~"m0|m1"})` on every label but `a`, the metric name included, so
    the two series of the single group `{}` may be sent to different shards: two partial sums
    `{} = 1`, `{} = 2` instead of `{} = 3`. -/
theorem C44_fragment_full_false : ¬ C44_fragment_full := by
  intro h
  have := (h wHash 2 wq ["a"] false (fun _ => wS) 0 (by decide) (by simp [wq, FExpr.WF]) (by decide) (by decide)).length_eq
  revert this
  decide


/-- … and in `by` mode: `sum by (__name__, a) (abs (sel))` — `abs` drops the metric name, the
    analyzer still shards by it -/
private def bq : FExpr := .aggBy "sum" ["__name__", "a"] List.sum (.fn "abs" true some (.sel "{__name__=~\"m0|m1\"}" fun _ => true))
private def bS : Vec := [([("__name__", "m0"), ("a", "1")], 1), ([("__name__", "m1"), ("a", "1")], 2)]
private def bHash : Labels → Nat := fun l => if l = [("__name__", "m0"), ("a", "1")] then 0 else 1

theorem C44_fragment_full_false_by :
    analyze bq.toExpr = ⟨some ["__name__", "a"], true⟩ ∧
    ¬ ((shardIndices 2).flatMap fun i => eval bq.toV (shardInput bHash 2 i ["__name__", "a"] true fun _ => bS) 0).Perm
      (eval bq.toV (fun _ => bS) 0) := by
  refine ⟨by decide, fun h => ?_⟩
  have := h.length_eq
  revert this
  decide

/-- F44b: the `count_values` fix (`eaea30e3e`) is necessary — with the analyzer as it was
    (`analyzeWith false`: the label written by `count_values` is not treated as dynamic),
    `sum by (a) (count_values without () ("a", m0))` is sharded by `a` although `count_values`
    overwrites `a`: two series with the same value land in different shards and the outer sum
    comes out as two partial results `{a="5"} = 1` instead of `{a="5"} = 2`. -/
private def cq : FExpr := .aggBy "sum" ["a"] List.sum (.countValues false [] "a" (.sel "m0" fun _ => true))
private def cS : Vec := [([("__name__", "m0"), ("a", "1")], 5), ([("__name__", "m0"), ("a", "2")], 5)]
private def cHash : Labels → Nat := fun l => if l = [("a", "1")] then 0 else 1

theorem C44_countValues_unfixed_false :
    analyzeWith false cq.toExpr = ⟨some ["a"], true⟩ ∧ NameSafe ["a"] true ∧
    isShardable (analyze cq.toExpr) = false ∧
    ¬ ((shardIndices 2).flatMap fun i => eval cq.toV (shardInput cHash 2 i ["a"] true fun _ => cS) 0).Perm
      (eval cq.toV (fun _ => cS) 0) := by
  refine ⟨by decide, by simp [NameSafe], by decide, fun h => ?_⟩
  have := h.length_eq
  revert this
  decide

-- non-vacuity of C44_sound: a nested by-aggregation that the analyzer shards by `a`
example : analyze (FExpr.aggBy "max" ["a"] (fun _ => 0) (.fn "abs" true some (.aggBy "sum" ["a", "b"] List.sum (.sel "m0" fun _ => true)))).toExpr
    = ⟨some ["a"], true⟩ := by decide
example : NameSafe ["a"] true := by simp [NameSafe]
-- vector matching: sum by (a) (m0) / on (a) sum by (a, b) (m1) is sharded by a; m0 + ignoring (b) m1 without b and the name
example : analyze (FExpr.bin "/" true ["a"] true (fun x y => y.map (x + ·))
      (.aggBy "sum" ["a"] List.sum (.sel "m0" fun _ => true)) (.aggBy "sum" ["a", "b"] List.sum (.sel "m1" fun _ => true))).toExpr
    = ⟨some ["a"], true⟩ := by decide
example : analyze (FExpr.bin "+" false ["b"] true (fun x y => y.map (x + ·)) (.sel "m0" fun _ => true) (.sel "m1" fun _ => true)).toExpr
    = ⟨some ["b", "__name__"], false⟩ := by decide
example : NameSafe ["b", "__name__"] false := by simp [NameSafe]
-- histogram_quantile(0.9, sum by (le, a) (…)) is sharded by a; label_replace's target is taken out of the by labels
example : analyze (FExpr.histQ "0.9" (fun _ => 0) (.aggBy "sum" ["le", "a"] List.sum (.sel "h_bucket" fun _ => true))).toExpr
    = ⟨some ["a"], true⟩ := by decide
example : analyze (FExpr.aggBy "sum" ["a", "dst"] List.sum
      (.labelFn "label_replace" "dst" ["$1", "a", "(.*)"] (fun _ => some "x") (.sel "m0" fun _ => true))).toExpr
    = ⟨some ["a"], true⟩ := by decide
-- many-to-one: m0 * on (a) group_left (pod) m1 is sharded by a
example : analyze (FExpr.binMany "*" true ["a"] ["pod"] true (fun x y => some (x * y)) (.sel "m0" fun _ => true) (.sel "m1" fun _ => true)).toExpr
    = ⟨some ["a"], true⟩ := by decide
-- max_over_time((sum by (a) (rate(m0[1m])))[10m:1m]) is sharded by a
example : analyze (FExpr.subq "max_over_time" "10m:1m" true (fun t => [t - 60, t]) (fun _ => 0)
      (.aggBy "sum" ["a"] List.sum (.rangeFn "rate" "m0" "1m" (fun _ => true) true (fun t => [t - 60, t]) (fun _ => 0)))).toExpr
    = ⟨some ["a"], true⟩ := by decide
-- topk by (a) (2, m0) and count_values by (a) ("v", m0) are sharded by a
example : analyze (FExpr.aggSel "topk" true ["a"] "2" (fun _ _ => true) (.sel "m0" fun _ => true)).toExpr
    = ⟨some ["a"], true⟩ := by decide
example : analyze (FExpr.countValues true ["a"] "v" (.sel "m0" fun _ => true)).toExpr = ⟨some ["a"], true⟩ := by decide
-- sum by (a, v) (count_values by (a, b) ("v", m0)): the written label `v` is not hashed
example : analyze (FExpr.aggBy "sum" ["a", "v"] List.sum (.countValues true ["a", "b"] "v" (.sel "m0" fun _ => true))).toExpr
    = ⟨some ["a"], true⟩ := by decide
-- … and a without-query made safe by an explicit `__name__`
example : analyze (FExpr.aggWithout "sum" ["a", "__name__"] List.sum (.sel "m0" fun _ => true)).toExpr = ⟨some ["a", "__name__"], false⟩ := by decide
example : NameSafe ["a", "__name__"] false := by simp [NameSafe]

/-! ### regenerated obligations -/

/-- the analyzer's callback (incl. the count_values case of the repair), scopeToLabels and
    IsShardable read as transliterated -/
theorem C44_fact_analyzer :
    Thanos.Facts.analyzeBody =
      ["expr, err := extpromql.ParseExpr(query)",
       "if err != nil {",
       "return nonShardableQuery(), err",
       "}",
       "var ( analysis QueryAnalysis dynamicLabels []string )",
       "isShardable := true",
       "parser.Inspect(expr, func(node parser.Node, nodes []parser.Node) error { switch n := node.(type) { case *parser.Call: if n.Func != nil { switch n.Func.Name { case \"label_join\", \"label_replace\": dstLabel := stringFromArg(n.Args[1]) dynamicLabels = append(dynamicLabels, dstLabel) case \"absent_over_time\", \"absent\", \"scalar\": isShardable = false return errNotShardable case \"histogram_quantile\": analysis = analysis.scopeToLabels([]string{\"le\"}, false) } } case *parser.BinaryExpr: if n.VectorMatching != nil { shardingLabels := n.VectorMatching.MatchingLabels if !n.VectorMatching.On { shardingLabels = append(shardingLabels, model.MetricNameLabel) } analysis = analysis.scopeToLabels(shardingLabels, n.VectorMatching.On) } case *parser.AggregateExpr: shardingLabels := make([]string, 0) if len(n.Grouping) > 0 { shardingLabels = n.Grouping } analysis = analysis.scopeToLabels(shardingLabels, !n.Without) if n.Op == parser.COUNT_VALUES { dynamicLabels = append(dynamicLabels, stringFromArg(n.Param)) } } return nil })",
       "if !isShardable {",
       "return nonShardableQuery(), nil",
       "}",
       "if len(dynamicLabels) > 0 {",
       "analysis = analysis.scopeToLabels(dynamicLabels, false)",
       "}",
       "return analysis, nil"] ∧
    Thanos.Facts.scopeToLabelsBody =
      ["if q.shardingLabels == nil {",
       "return QueryAnalysis{ shardBy: by, shardingLabels: labels, }",
       "}",
       "if q.shardBy && by {",
       "return QueryAnalysis{ shardBy: true, shardingLabels: intersect(q.shardingLabels, labels), }",
       "}",
       "if !q.shardBy && !by {",
       "return QueryAnalysis{ shardBy: false, shardingLabels: union(q.shardingLabels, labels), }",
       "}",
       "labelsBy, labelsWithout := q.shardingLabels, labels",
       "if !q.shardBy {",
       "labelsBy, labelsWithout = labelsWithout, labelsBy",
       "}",
       "return QueryAnalysis{ shardBy: true, shardingLabels: without(labelsBy, labelsWithout), }"] ∧
    Thanos.Facts.isShardableBody =
      ["return len(q.shardingLabels) > 0"] :=
  ⟨rfl, rfl, rfl⟩

theorem C44_fact_matcher :
    Thanos.Facts.matchesZLabelsBody =
      ["if s == nil || !s.isSharded {",
       "return true",
       "}",
       "*s.buf = (*s.buf)[:0]",
       "for _, lbl := range zLabels {",
       "if shardByLabel(s.shardingLabelset, lbl, s.by) {",
       "*s.buf = append(*s.buf, lbl.Name...)",
       "*s.buf = append(*s.buf, sep[0])",
       "*s.buf = append(*s.buf, lbl.Value...)",
       "*s.buf = append(*s.buf, sep[0])",
       "}",
       "}",
       "hash := xxhash.Sum64(*s.buf)",
       "return hash%uint64(s.totalShards) == uint64(s.shardIndex)"] ∧
    Thanos.Facts.shardByLabelBody =
      ["_, shardHasLabel := labelSet[zlabel.Name]",
       "if groupingBy && shardHasLabel {",
       "return true",
       "}",
       "groupingWithout := !groupingBy",
       "if groupingWithout && !shardHasLabel {",
       "return true",
       "}",
       "return false"] ∧
    Thanos.Facts.shardQueryBody =
      ["tr, ok := r.(ShardedRequest)",
       "if !ok {",
       "return []queryrange.Request{r}",
       "}",
       "reqs := make([]queryrange.Request, s.numShards)",
       "for i := 0; i < s.numShards; i++ {",
       "reqs[i] = tr.WithShardInfo(&storepb.ShardInfo{ TotalShards: int64(s.numShards), ShardIndex: int64(i), By: analysis.ShardBy(), Labels: analysis.ShardingLabels(), })",
       "}",
       "return reqs"] :=
  ⟨rfl, rfl, rfl⟩

end Thanos.Sharding
