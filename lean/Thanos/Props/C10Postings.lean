import Thanos.Model.Postings
import Thanos.Lemmas.Postings
/-
  C10 (code-level kernel) — the posting-group algebra of the store gateway is sound:
  `toPostingGroup`, `mergeKeys`, `matchersToPostingGroups` and the set algebra of
  `ExpandedPostings` / `mergeFetchedPostings` select exactly the series whose stored labels satisfy
  every matcher (an absent label counts as the empty value).

  What a matcher answers is a hypothesis (`Consistent`): the few facts about Prometheus matchers the code
  relies on — `.*` matches everything, `SetMatches()` lists exactly the accepted values of a set matcher,
  `=`/`!=` compare with `Value`, an empty pattern accepts exactly the empty string, `.+` exactly the
  non-empty ones — over the values that can occur (the empty value and the label's values in the block).
-/
namespace Thanos.Postings

/-- does the series (stored labels `get`) survive this group alone -/
def groupSelects (g : Group) (get : Nat → Nat) : Bool :=
  if g.addAll then !(g.removeKeys.any (inPostings get g.name)) else g.addKeys.any (inPostings get g.name)

structure WFGroup (g : Group) : Prop where
  add_sorted : SortedKeys g.addKeys
  rem_sorted : SortedKeys g.removeKeys
  addAll_no_adds : g.addAll = true → g.addKeys = []
  add_no_rems : g.addAll = false → g.removeKeys = []

/-- the values a series can have under a label whose values in the block are `vals` -/
def InUniverse (vals : List Nat) (v : Nat) : Prop := v = 0 ∨ v ∈ vals

structure Consistent (vals : List Nat) (m : PMatcher) : Prop where
  dotStar2 : m.typ = 2 → m.dotStar = true → ∀ v, InUniverse vals v → m.accepts v = true
  dotStar3 : m.typ = 3 → m.dotStar = true → ∀ v, InUniverse vals v → m.accepts v = false
  set3 : m.typ = 3 → m.setMatches.isEmpty = false → ∀ v, InUniverse vals v → m.accepts v = !(m.setMatches.contains v)
  set2 : m.typ = 2 → m.setMatches.isEmpty = false → ∀ v, InUniverse vals v → m.accepts v = m.setMatches.contains v
  eq : m.typ = 0 → ∀ v, InUniverse vals v → m.accepts v = (v == m.value)
  neq : m.typ = 1 → ∀ v, InUniverse vals v → m.accepts v = (v != m.value)
  emptyPos : m.emptyPat = true → (m.typ = 0 ∨ m.typ = 2) → ∀ v, InUniverse vals v → m.accepts v = (v == 0)
  emptyNeg : m.emptyPat = true → (m.typ = 1 ∨ m.typ = 3) → ∀ v, InUniverse vals v → m.accepts v = (v != 0)
  plus2 : m.typ = 2 → m.dotPlus = true → ∀ v, InUniverse vals v → m.accepts v = (v != 0)
  plus3 : m.typ = 3 → m.dotPlus = true → ∀ v, InUniverse vals v → m.accepts v = (v == 0)
  set_nodup : m.setMatches.Nodup

theorem any_inPostings (get : Nat → Nat) (n : Nat) : ∀ (keys : List Nat),
    keys.any (inPostings get n) = (get n != 0 && keys.contains (get n))
  | [] => by simp
  | k :: ks => by
    rw [List.any_cons, any_inPostings get n ks]
    unfold inPostings
    by_cases h0 : get n = 0
    · by_cases hk : k = 0 <;> simp [h0, hk]
      intro h; exact hk h.symm
    · by_cases hk : get n = k
      · subst hk; simp [h0]
      · have hk' : ¬ k = get n := fun e => hk e.symm
        simp [h0, hk]

theorem contains_sortKeys (l : List Nat) (v : Nat) : (sortKeys l).contains v = l.contains v := by
  have := mem_sortKeys l v
  by_cases h : v ∈ l
  · simp [h, this.mpr h]
  · have h' : v ∉ sortKeys l := fun hm => h (this.mp hm)
    simp [h, h']

theorem contains_filter (p : Nat → Bool) (l : List Nat) (v : Nat) : (l.filter p).contains v = (l.contains v && p v) := by
  by_cases h : v ∈ l
  · by_cases hp : p v = true
    · have : v ∈ l.filter p := List.mem_filter.mpr ⟨h, hp⟩
      simp [h, hp, this]
    · have : v ∉ l.filter p := fun hm => hp (List.mem_filter.mp hm).2
      simp [h, hp, this]
  · have : v ∉ l.filter p := fun hm => h (List.mem_filter.mp hm).1
    simp [h, this]

/-- `toPostingGroup` keeps exactly the series the matcher accepts -/
theorem toPostingGroup_sound (vals : List Nat) (m : PMatcher) (hc : Consistent vals m) (get : Nat → Nat)
    (hu : InUniverse vals (get m.name)) (h0 : 0 ∉ vals) :
    groupSelects (toPostingGroup vals m) get = m.accepts (get m.name) := by
  have hu0 : InUniverse vals 0 := Or.inl rfl
  have hv : get m.name ≠ 0 → get m.name ∈ vals := by
    intro hne
    rcases hu with h | h
    · exact absurd h hne
    · exact h
  have hb : get m.name ≠ 0 → (get m.name != 0) = true ∧ (get m.name == 0) = false := by
    intro h; simp [h]
  unfold toPostingGroup
  split
  next h => simp [groupSelects, hc.dotStar2 h.1 h.2 _ hu]
  split
  next _ h => simp [groupSelects, hc.dotStar3 h.1 h.2 _ hu]
  split
  next _ _ hacc0 =>
    split
    next h =>
      have hs : m.setMatches.isEmpty = false := by simpa using h.2
      simp only [groupSelects, if_true, any_inPostings, contains_sortKeys, hc.set3 h.1 hs _ hu]
      by_cases hz : get m.name = 0
      · have := hc.set3 h.1 hs 0 hu0
        rw [hacc0] at this
        simp [hz] at this ⊢
        simpa using this
      · simp [hz]
    split
    next _ h =>
      simp only [groupSelects, if_true, any_inPostings, hc.neq h _ hu]
      by_cases hz : get m.name = 0
      · have := hc.neq h 0 hu0
        rw [hacc0] at this
        simp [hz] at this ⊢
        intro e; exact this e
      · by_cases he : get m.name = m.value
        · simp [hz, he]
          rw [← he]; exact hz
        · simp [hz, he]
    split
    next _ _ h =>
      simp only [groupSelects, if_true, any_inPostings, hc.emptyPos h.1 h.2 _ hu]
      by_cases hz : get m.name = 0
      · simp [hz]
      · simp [hv hz, (hb hz).1, (hb hz).2]
    split
    next _ _ _ h =>
      simp only [groupSelects, if_true, any_inPostings, hc.plus3 h.1 h.2 _ hu]
      by_cases hz : get m.name = 0
      · simp [hz]
      · simp [hv hz, (hb hz).1, (hb hz).2]
    · simp only [groupSelects, if_true, any_inPostings, contains_filter]
      by_cases hz : get m.name = 0
      · simp [hz, hacc0]
      · simp [hv hz, (hb hz).1, (hb hz).2]
  next _ _ hacc0 =>
    have hacc0' : m.accepts 0 = false := by simpa using hacc0
    split
    next h =>
      have hs : m.setMatches.isEmpty = false := by simpa using h.2
      simp only [groupSelects, Bool.false_eq_true, if_false, any_inPostings, contains_sortKeys, hc.set2 h.1 hs _ hu]
      by_cases hz : get m.name = 0
      · have := hc.set2 h.1 hs 0 hu0
        rw [hacc0'] at this
        simp [hz] at this ⊢
        simpa using this
      · simp [hz]
    split
    next _ h =>
      simp only [groupSelects, Bool.false_eq_true, if_false, any_inPostings, hc.eq h _ hu]
      by_cases hz : get m.name = 0
      · have := hc.eq h 0 hu0
        rw [hacc0'] at this
        simp [hz] at this ⊢
        intro e; exact this e
      · by_cases he : get m.name = m.value
        · simp [hz, he]
          rw [← he]; exact hz
        · simp [hz, he]
    split
    next _ _ h =>
      simp only [groupSelects, Bool.false_eq_true, if_false, any_inPostings, hc.emptyNeg h.1 h.2 _ hu]
      by_cases hz : get m.name = 0
      · simp [hz]
      · simp [hv hz, (hb hz).1, (hb hz).2]
    split
    next _ _ _ h =>
      simp only [groupSelects, Bool.false_eq_true, if_false, any_inPostings, hc.plus2 h.1 h.2 _ hu]
      by_cases hz : get m.name = 0
      · simp [hz]
      · simp [hv hz, (hb hz).1, (hb hz).2]
    · simp only [groupSelects, Bool.false_eq_true, if_false, any_inPostings, contains_filter]
      by_cases hz : get m.name = 0
      · simp [hz, hacc0']
      · simp [hv hz, (hb hz).1, (hb hz).2]

/-- sorted strictly ascending label values without the empty value: what `LabelValues` of a block returns -/
def ValsOK (vals : List Nat) : Prop := SortedKeys vals ∧ 0 ∉ vals

theorem toPostingGroup_wf (vals : List Nat) (m : PMatcher) (hv : ValsOK vals) (hc : Consistent vals m) :
    WFGroup (toPostingGroup vals m) ∧ (toPostingGroup vals m).name = m.name := by
  have hnil : SortedKeys ([] : List Nat) := by simp [SortedKeys]
  have hone : ∀ x : Nat, SortedKeys [x] := by intro x; simp [SortedKeys]
  have hset := sortKeys_sorted m.setMatches hc.set_nodup
  have hfil : ∀ p : Nat → Bool, SortedKeys (vals.filter p) := fun p => List.Pairwise.filter p hv.1
  unfold toPostingGroup
  repeat' split
  all_goals
    refine ⟨⟨?_, ?_, ?_, ?_⟩, rfl⟩ <;> first | assumption | exact hnil | exact hone _ | exact hv.1 | exact hfil _ | simp

/-- `mergeKeys` of two groups of one label keeps the series both keep -/
theorem mergeKeys_sound (a b : Group) (ha : WFGroup a) (hb : WFGroup b) (hn : a.name = b.name) (get : Nat → Nat) :
    groupSelects (mergeKeys a b) get = (groupSelects a get && groupSelects b get) ∧
      WFGroup (mergeKeys a b) ∧ (mergeKeys a b).name = a.name := by
  have hnil : SortedKeys ([] : List Nat) := by simp [SortedKeys]
  unfold mergeKeys
  cases haa : a.addAll <;> cases hba : b.addAll
  · -- both add
    simp only [Bool.false_eq_true, and_self, or_self, if_false]
    refine ⟨?_, ⟨?_, ?_, ?_, ?_⟩, by first | rfl | trivial⟩
    · simp only [groupSelects, haa, hba, Bool.false_eq_true, if_false, any_inPostings, hn]
      have := mem_intersectKeys a.addKeys b.addKeys (get b.name) ha.add_sorted hb.add_sorted
      by_cases h1 : get b.name ∈ a.addKeys <;> by_cases h2 : get b.name ∈ b.addKeys <;>
        simp [h1, h2, this]
    · exact List.Pairwise.sublist (intersectKeys_sublist _ _) ha.add_sorted
    · exact ha.rem_sorted
    · intro h; simp [haa] at h
    · intro _; exact ha.add_no_rems haa
  · -- a adds, b is all-minus
    simp only [Bool.false_eq_true, false_and, false_or, if_false, if_true]
    refine ⟨?_, ⟨?_, hnil, ?_, ?_⟩, by first | rfl | trivial⟩
    · simp only [groupSelects, haa, hba, Bool.false_eq_true, if_false, if_true, any_inPostings, hn]
      have := mem_subtractKeys a.addKeys b.removeKeys (get b.name) ha.add_sorted hb.rem_sorted
      by_cases h1 : get b.name ∈ a.addKeys <;> by_cases h2 : get b.name ∈ b.removeKeys <;>
        by_cases h3 : get b.name = 0 <;> simp [h1, h2, h3, this]
    · exact List.Pairwise.sublist (subtractKeys_sublist _ _) ha.add_sorted
    · intro h; simp at h
    · intro _; rfl
  · -- a is all-minus, b adds
    simp only [Bool.false_eq_true, and_false, or_false, if_false, if_true]
    refine ⟨?_, ⟨?_, hnil, ?_, ?_⟩, by first | rfl | trivial⟩
    · simp only [groupSelects, haa, hba, Bool.false_eq_true, if_false, if_true, any_inPostings, hn]
      have := mem_subtractKeys b.addKeys a.removeKeys (get b.name) hb.add_sorted ha.rem_sorted
      by_cases h1 : get b.name ∈ b.addKeys <;> by_cases h2 : get b.name ∈ a.removeKeys <;>
        by_cases h3 : get b.name = 0 <;> simp [h1, h2, h3, this]
    · exact List.Pairwise.sublist (subtractKeys_sublist _ _) hb.add_sorted
    · intro h; simp at h
    · intro _; rfl
  · -- both all-minus: the removals add up
    simp only [and_self, if_true]
    have hmem : ∀ (r : List Nat), (∀ x, x ∈ r ↔ x ∈ a.removeKeys ∨ x ∈ b.removeKeys) →
        (!(get b.name != 0 && r.contains (get b.name))) =
          ((!(get b.name != 0 && a.removeKeys.contains (get b.name))) && !(get b.name != 0 && b.removeKeys.contains (get b.name))) := by
      intro r hr
      have := hr (get b.name)
      by_cases h1 : get b.name ∈ a.removeKeys <;> by_cases h2 : get b.name ∈ b.removeKeys <;>
        by_cases h3 : get b.name = 0 <;> simp [h1, h2, h3, this]
    split
    next he =>
      have he' : a.removeKeys = [] := by simpa using he
      refine ⟨?_, ⟨ha.add_sorted, hb.rem_sorted, ?_, ?_⟩, rfl⟩
      · simp only [groupSelects, haa, hba, if_true, any_inPostings, hn]
        apply hmem
        intro x; simp [he']
      · intro _; exact ha.addAll_no_adds haa
      · intro h; simp [haa] at h
    next he =>
      split
      next he2 =>
        have he2' : b.removeKeys = [] := by simpa using he2
        refine ⟨?_, ha, rfl⟩
        simp only [groupSelects, haa, hba, if_true, any_inPostings, hn]
        apply hmem
        intro x; simp [he2']
      next he2 =>
        refine ⟨?_, ⟨ha.add_sorted, unionKeys_sorted _ _ ha.rem_sorted hb.rem_sorted, ?_, ?_⟩, rfl⟩
        · simp only [groupSelects, haa, hba, if_true, any_inPostings, hn]
          apply hmem
          intro x; exact mem_unionKeys _ _ x
        · intro _; exact ha.addAll_no_adds haa
        · intro h; simp [haa] at h

theorem empty_selects_none (g : Group) (h : g.empty = true) (get : Nat → Nat) : groupSelects g get = false := by
  unfold Group.empty at h
  simp only [Bool.and_eq_true, Bool.not_eq_true', List.isEmpty_iff] at h
  simp [groupSelects, h.1, h.2]

def accSelects (acc : Option Group) (get : Nat → Nat) : Bool :=
  match acc with
  | none => true
  | some a => groupSelects a get

/-- what `mergeAll` must return for the accumulated group `acc` and the remaining matchers `ms` of label `n` -/
def MergeSpec (acc : Option Group) (ms : List PMatcher) (n : Nat) (get : Nat → Nat) : Option (Option Group) → Prop
  | some (some g) =>
      groupSelects g get = (accSelects acc get && ms.all (fun m => m.accepts (get n))) ∧
        WFGroup g ∧ g.name = n ∧ g.empty = false
  | some none => acc = none ∧ ms = []
  | none => (accSelects acc get && ms.all (fun m => m.accepts (get n))) = false

/-- the matchers of one label name, merged in any order: the merged group keeps exactly the series all of them
    accept; "adds nothing" is only reported when no series can satisfy them all -/
theorem mergeAll_sound (vals : List Nat) (hv : ValsOK vals) (n : Nat) (get : Nat → Nat) (hu : InUniverse vals (get n)) :
    ∀ (ms : List PMatcher) (acc : Option Group),
      (∀ m ∈ ms, m.name = n ∧ Consistent vals m) →
      (∀ a, acc = some a → WFGroup a ∧ a.name = n ∧ a.empty = false) →
      MergeSpec acc ms n get (mergeAll vals acc ms)
  | [], acc, _, hacc => by
    simp only [mergeAll]
    cases acc with
    | none => simp [MergeSpec]
    | some a =>
      obtain ⟨h1, h2, h3⟩ := hacc a rfl
      simp [MergeSpec, accSelects, h1, h2, h3]
  | m :: ms, acc, hms, hacc => by
    obtain ⟨hmn, hmc⟩ := hms m (by simp)
    have hms' : ∀ m' ∈ ms, m'.name = n ∧ Consistent vals m' := fun m' h => hms m' (List.mem_cons_of_mem _ h)
    have hsound := toPostingGroup_sound vals m hmc get (by rw [hmn]; exact hu) hv.2
    obtain ⟨hwf, hname⟩ := toPostingGroup_wf vals m hv hmc
    rw [hmn] at hsound
    by_cases hempty : (toPostingGroup vals m).empty = true
    · -- this matcher alone accepts no series
      have hres : mergeAll vals acc (m :: ms) = none := by simp [mergeAll, hempty]
      rw [hres]
      have := empty_selects_none _ hempty get
      rw [this] at hsound
      simp [MergeSpec, List.all_cons, ← hsound]
    · have hne' : (toPostingGroup vals m).empty = false := by simpa using hempty
      -- the merged group and what it selects
      have key : ∃ merged, merged = mergeStep acc (toPostingGroup vals m) ∧
          groupSelects merged get = (accSelects acc get && m.accepts (get n)) ∧ WFGroup merged ∧ merged.name = n := by
        cases acc with
        | none => exact ⟨_, rfl, by simp [mergeStep, accSelects, hsound], by simpa [mergeStep] using hwf,
            by simp only [mergeStep]; rw [hname, hmn]⟩
        | some a =>
          obtain ⟨h1, h2, _⟩ := hacc a rfl
          obtain ⟨k1, k2, k3⟩ := mergeKeys_sound a (toPostingGroup vals m) h1 hwf (by rw [h2, hname, hmn]) get
          exact ⟨_, rfl, by simp [mergeStep, accSelects, k1, hsound], by simpa [mergeStep] using k2,
            by simp only [mergeStep]; rw [k3, h2]⟩
      obtain ⟨merged, hmdef, hmsel, hmwf, hmname⟩ := key
      by_cases hme : merged.empty = true
      · have hres : mergeAll vals acc (m :: ms) = none := by
          simp only [mergeAll, hne', Bool.false_eq_true, if_false, ← hmdef, hme, if_true]
        rw [hres]
        have := empty_selects_none _ hme get
        rw [this] at hmsel
        simp only [MergeSpec, List.all_cons, ← Bool.and_assoc, ← hmsel]
        simp
      · have hmne' : merged.empty = false := by simpa using hme
        have hres : mergeAll vals acc (m :: ms) = mergeAll vals (some merged) ms := by
          simp only [mergeAll, hne', Bool.false_eq_true, if_false, ← hmdef, hmne']
        rw [hres]
        have ih := mergeAll_sound vals hv n get hu ms (some merged) hms'
          (by intro a ha; simp at ha; subst ha; exact ⟨hmwf, hmname, hmne'⟩)
        cases hr : mergeAll vals (some merged) ms with
        | none =>
          rw [hr] at ih
          simp only [MergeSpec] at ih ⊢
          rw [List.all_cons, ← Bool.and_assoc, ← hmsel]
          simpa [accSelects] using ih
        | some og =>
          rw [hr] at ih
          cases og with
          | none => simp [MergeSpec] at ih
          | some g =>
            simp only [MergeSpec] at ih ⊢
            obtain ⟨i1, i2, i3, i4⟩ := ih
            refine ⟨?_, i2, i3, i4⟩
            rw [i1, List.all_cons, ← Bool.and_assoc, ← hmsel]
            simp [accSelects]

/-! ### all label names together -/

theorem mem_distinctNames : ∀ (l : List PMatcher) (n : Nat), n ∈ distinctNames l ↔ ∃ m ∈ l, m.name = n
  | [], n => by simp [distinctNames]
  | m :: ms, n => by
    simp only [distinctNames, List.mem_cons, List.mem_filter, mem_distinctNames ms n]
    constructor
    · rintro (h | ⟨⟨m', hm', hn⟩, _⟩)
      · exact ⟨m, Or.inl rfl, h.symm⟩
      · exact ⟨m', Or.inr hm', hn⟩
    · rintro ⟨m', hm' | hm', hn⟩
      · subst hm'; exact Or.inl hn.symm
      · by_cases he : n = m.name
        · exact Or.inl he
        · exact Or.inr ⟨⟨m', hm', hn⟩, by simpa using he⟩

/-- grouping by label name loses no matcher and adds none -/
theorem all_by_name (l : List PMatcher) (P : PMatcher → Bool) :
    (distinctNames l).all (fun n => (l.filter (·.name == n)).all P) = l.all P := by
  rw [Bool.eq_iff_iff]
  simp only [List.all_eq_true, List.mem_filter, beq_iff_eq]
  constructor
  · intro h m hm
    exact h m.name ((mem_distinctNames l m.name).mpr ⟨m, hm, rfl⟩) m ⟨hm, rfl⟩
  · intro h n _ m hm
    exact h m hm.1

theorem all_insertGroup (g : Group) (P : Group → Bool) : ∀ (l : List Group), (insertGroup g l).all P = (P g && l.all P)
  | [] => by simp [insertGroup]
  | h :: hs => by
    simp only [insertGroup]
    split
    · simp
    · simp only [List.all_cons, all_insertGroup g P hs]
      cases P g <;> cases P h <;> simp

theorem mem_insertGroup (g : Group) : ∀ (l : List Group) (x : Group), x ∈ insertGroup g l ↔ x = g ∨ x ∈ l
  | [], x => by simp [insertGroup]
  | h :: hs, x => by
    simp only [insertGroup]
    split
    · simp
    · simp only [List.mem_cons, mem_insertGroup g hs x]
      constructor
      · rintro (h1 | h1 | h1)
        · exact Or.inr (Or.inl h1)
        · exact Or.inl h1
        · exact Or.inr (Or.inr h1)
      · rintro (h1 | h1 | h1)
        · exact Or.inr (Or.inl h1)
        · exact Or.inl h1
        · exact Or.inr (Or.inr h1)

theorem all_congr' {α : Type} {f g : α → Bool} : ∀ {l : List α}, (∀ a ∈ l, f a = g a) → l.all f = l.all g
  | [], _ => rfl
  | a :: l, h => by
    simp only [List.all_cons]
    rw [h a (by simp), all_congr' (fun x hx => h x (List.mem_cons_of_mem _ hx))]

theorem any_congr' {α : Type} {f g : α → Bool} : ∀ {l : List α}, (∀ a ∈ l, f a = g a) → l.any f = l.any g
  | [], _ => rfl
  | a :: l, h => by
    simp only [List.any_cons]
    rw [h a (by simp), any_congr' (fun x hx => h x (List.mem_cons_of_mem _ hx))]

theorem all_filter {α : Type} (p f : α → Bool) : ∀ (l : List α), (l.filter p).all f = l.all (fun a => !p a || f a)
  | [] => rfl
  | a :: l => by
    simp only [List.filter_cons, List.all_cons]
    cases hp : p a <;> simp [all_filter p f l]

theorem any_filter {α : Type} (p f : α → Bool) : ∀ (l : List α), (l.filter p).any f = l.any (fun a => p a && f a)
  | [] => rfl
  | a :: l => by
    simp only [List.filter_cons, List.any_cons]
    cases hp : p a <;> simp [any_filter p f l]

/-- a group adds keys and removes none, or is all-minus and adds none -/
def Kind (g : Group) : Prop :=
  (g.addAll = true ∧ g.addKeys = []) ∨ (g.addAll = false ∧ g.removeKeys = [] ∧ g.addKeys ≠ [])

theorem all_groupSelects (get : Nat → Nat) : ∀ (gs : List Group), (∀ g ∈ gs, Kind g) →
    gs.all (groupSelects · get) =
      (gs.all (fun g => g.addKeys.isEmpty || g.addKeys.any (inPostings get g.name)) &&
        !(gs.any fun g => g.removeKeys.any (inPostings get g.name)))
  | [], _ => rfl
  | g :: gs, hk => by
    have ih := all_groupSelects get gs (fun x hx => hk x (List.mem_cons_of_mem _ hx))
    simp only [List.all_cons, List.any_cons, ih]
    rcases hk g (by simp) with ⟨ha, he⟩ | ⟨ha, hr, hne⟩
    · simp only [groupSelects, ha, if_true, he, List.isEmpty_nil, Bool.true_or, Bool.true_and, List.any_nil]
      cases g.removeKeys.any (inPostings get g.name) <;> simp
    · have : g.addKeys.isEmpty = false := by simpa using hne
      simp only [groupSelects, ha, Bool.false_eq_true, if_false, hr, List.any_nil, Bool.false_or, this]
      cases g.addKeys.any (inPostings get g.name) <;> simp

/-- the set algebra of `ExpandedPostings` / `mergeFetchedPostings` over well-formed, non-empty groups keeps the
    series every group keeps -/
theorem selects_eq_all (groups : List Group) (get : Nat → Nat) (hne : groups ≠ [])
    (hwf : ∀ g ∈ groups, WFGroup g ∧ g.empty = false) :
    selects groups get = groups.all (groupSelects · get) := by
  have hkind : ∀ g ∈ groups, Kind g := by
    intro g hg
    obtain ⟨w, he⟩ := hwf g hg
    cases ha : g.addAll with
    | true => exact Or.inl ⟨ha, w.addAll_no_adds ha⟩
    | false =>
      refine Or.inr ⟨ha, w.add_no_rems ha, ?_⟩
      intro hnil
      simp [Group.empty, ha, hnil] at he
  rw [all_groupSelects get groups hkind]
  unfold selects
  simp only
  -- the keyed / add filters do not change the two quantifications
  have hA : ((groups.filter fun g => !(g.addKeys.isEmpty && g.removeKeys.isEmpty)).filter fun g => !g.addKeys.isEmpty).all
      (fun g => g.addKeys.any (inPostings get g.name)) =
      groups.all (fun g => g.addKeys.isEmpty || g.addKeys.any (inPostings get g.name)) := by
    rw [all_filter, all_filter]
    apply all_congr'
    intro g _
    cases g.addKeys.isEmpty <;> cases g.removeKeys.isEmpty <;> simp
  have hR : (groups.filter fun g => !(g.addKeys.isEmpty && g.removeKeys.isEmpty)).any
      (fun g => g.removeKeys.any (inPostings get g.name)) =
      groups.any (fun g => g.removeKeys.any (inPostings get g.name)) := by
    rw [any_filter]
    apply any_congr'
    intro g _
    cases hr : g.removeKeys with
    | nil => simp
    | cons x xs => simp
  rw [hA, hR]
  -- without any add group every group is all-minus: the all-postings list is requested, and the add clause is void
  cases hadds : groups.any (fun g => !g.addKeys.isEmpty) with
  | true => simp
  | false =>
    simp only [Bool.false_eq_true, if_false]
    have hall : groups.all (fun g => g.addKeys.isEmpty || g.addKeys.any (inPostings get g.name)) = true := by
      rw [List.all_eq_true]
      intro g hg
      have := List.any_eq_false.mp hadds g hg
      simp at this
      simp [this]
    have hreq : groups.any (·.addAll) = true := by
      cases groups with
      | nil => exact absurd rfl hne
      | cons g gs =>
        rcases hkind g (by simp) with ⟨ha, _⟩ | ⟨_, _, hk⟩
        · simp [ha]
        · have := List.any_eq_false.mp hadds g (by simp)
          simp at this
          exact absurd this hk
    rw [hall, hreq]

theorem dedup_subset : ∀ (l : List PMatcher) (m : PMatcher), m ∈ dedupMatchers l → m ∈ l
  | [], m, h => by simp [dedupMatchers] at h
  | x :: xs, m, h => by
    simp only [dedupMatchers] at h
    split at h
    · exact List.mem_cons_of_mem _ (dedup_subset xs m h)
    · rcases List.mem_cons.mp h with rfl | h'
      · simp
      · exact List.mem_cons_of_mem _ (dedup_subset xs m h')

theorem dedup_ne_nil : ∀ (l : List PMatcher), l ≠ [] → dedupMatchers l ≠ []
  | [], h => absurd rfl h
  | x :: xs, _ => by
    simp only [dedupMatchers]
    split
    next hany =>
      apply dedup_ne_nil xs
      intro e; rw [e] at hany; simp at hany
    · simp

/-- identical matchers (same name, type and pattern) answer alike, so dropping repeats changes nothing -/
theorem dedup_all (P : PMatcher → Bool) : ∀ (l : List PMatcher),
    (∀ a ∈ l, ∀ b ∈ l, sameMatcher a b = true → P a = P b) → (dedupMatchers l).all P = l.all P
  | [], _ => by simp [dedupMatchers]
  | x :: xs, h => by
    have ih := dedup_all P xs (fun a ha b hb => h a (List.mem_cons_of_mem _ ha) b (List.mem_cons_of_mem _ hb))
    simp only [dedupMatchers]
    split
    next hany =>
      rw [ih, List.all_cons]
      obtain ⟨y, hy, hs⟩ := List.any_eq_true.mp hany
      have hxy := h x (by simp) y (List.mem_cons_of_mem _ hy) hs
      cases hp : P x with
      | true => simp
      | false =>
        rw [hp] at hxy
        simp only [Bool.false_and]
        rw [List.all_eq_false]
        exact ⟨y, hy, by simp [← hxy]⟩
    · rw [List.all_cons, List.all_cons, ih]

/-- **posting groups are sound**: for every list of matchers (any number per label, repeats allowed) the
    groups `matchersToPostingGroups` builds, evaluated as `ExpandedPostings` evaluates them, keep exactly the
    series whose stored labels every matcher accepts; "no postings" (`nil`) is reported only when no series
    can qualify -/
theorem postingGroups_sound (lvals : Nat → List Nat) (ms : List PMatcher) (get : Nat → Nat)
    (hv : ∀ n, ValsOK (lvals n)) (hc : ∀ m ∈ ms, Consistent (lvals m.name) m)
    (hu : ∀ n, InUniverse (lvals n) (get n))
    (hsame : ∀ a ∈ ms, ∀ b ∈ ms, sameMatcher a b = true → a.ok = b.ok) (hne : ms ≠ []) :
    (match matchersToPostingGroups lvals ms with
     | some groups => selects groups get
     | none => false) = ms.all (fun m => m.accepts (get m.name)) := by
  let P : PMatcher → Bool := fun m => m.accepts (get m.name)
  have hP : (dedupMatchers ms).all P = ms.all P := by
    apply dedup_all
    intro a ha b hb hs
    have hok := hsame a ha b hb hs
    have hn : a.name = b.name := by
      unfold sameMatcher at hs
      simp only [Bool.and_eq_true, beq_iff_eq] at hs
      exact hs.1.1
    simp only [P, PMatcher.accepts, hok, hn]
  have hdc : ∀ m ∈ dedupMatchers ms, Consistent (lvals m.name) m := fun m hm => hc m (dedup_subset ms m hm)
  -- the loop over the label names
  have hgo : ∀ (ns : List Nat), (∀ n ∈ ns, ∃ m ∈ dedupMatchers ms, m.name = n) →
      match matchersToPostingGroups.go lvals (dedupMatchers ms) ns with
      | some gs => gs.all (groupSelects · get) = ns.all (fun n => ((dedupMatchers ms).filter (·.name == n)).all P) ∧
          (∀ g ∈ gs, WFGroup g ∧ g.empty = false) ∧ (ns ≠ [] → gs ≠ [])
      | none => ns.all (fun n => ((dedupMatchers ms).filter (·.name == n)).all P) = false := by
    intro ns
    induction ns with
    | nil => intro _; simp [matchersToPostingGroups.go]
    | cons n ns ih =>
      intro hns
      have ih' := ih (fun k hk => hns k (List.mem_cons_of_mem _ hk))
      have hspec := mergeAll_sound (lvals n) (hv n) n get (hu n) ((dedupMatchers ms).filter (·.name == n)) none
        (by
          intro m hm
          have hm' := List.mem_filter.mp hm
          have hn : m.name = n := by simpa using hm'.2
          exact ⟨hn, by rw [← hn]; exact hdc m hm'.1⟩)
        (by intro a ha; simp at ha)
      have hPall : (((dedupMatchers ms).filter (·.name == n)).all fun m => m.accepts (get n)) =
          ((dedupMatchers ms).filter (·.name == n)).all P := by
        apply all_congr'
        intro m hm
        have hn : m.name = n := by simpa using (List.mem_filter.mp hm).2
        simp [P, hn]
      simp only [matchersToPostingGroups.go]
      cases hr : mergeAll (lvals n) none ((dedupMatchers ms).filter (·.name == n)) with
      | none =>
        rw [hr] at hspec
        simp only [MergeSpec, accSelects, Bool.true_and] at hspec
        simp only [List.all_cons]
        rw [← hPall, hspec]
        simp
      | some og =>
        rw [hr] at hspec
        cases og with
        | none =>
          -- impossible: some matcher has this name
          simp only [MergeSpec] at hspec
          obtain ⟨m, hm, hn⟩ := hns n (by simp)
          have : m ∈ (dedupMatchers ms).filter (·.name == n) := List.mem_filter.mpr ⟨hm, by simpa using hn⟩
          rw [hspec.2] at this
          simp at this
        | some g =>
          simp only [MergeSpec, accSelects, Bool.true_and] at hspec
          obtain ⟨s1, s2, _, s4⟩ := hspec
          cases hrest : matchersToPostingGroups.go lvals (dedupMatchers ms) ns with
          | none =>
            rw [hrest] at ih'
            simp only [Option.map_none, List.all_cons]
            simp only at ih'
            rw [ih']
            simp
          | some gs =>
            rw [hrest] at ih'
            simp only [Option.map_some] at ih' ⊢
            obtain ⟨i1, i2, _⟩ := ih'
            refine ⟨?_, ?_, ?_⟩
            · rw [all_insertGroup, List.all_cons, i1, s1, hPall]
            · intro x hx
              rcases (mem_insertGroup g gs x).mp hx with rfl | hx'
              · exact ⟨s2, s4⟩
              · exact i2 x hx'
            · intro _ e
              have : g ∈ insertGroup g gs := (mem_insertGroup g gs g).mpr (Or.inl rfl)
              rw [e] at this
              simp at this
  have hnames := hgo (distinctNames (dedupMatchers ms)) (fun n hn => (mem_distinctNames _ n).mp hn)
  have hdn : distinctNames (dedupMatchers ms) ≠ [] := by
    have := dedup_ne_nil ms hne
    cases hd : dedupMatchers ms with
    | nil => exact absurd hd this
    | cons x xs => simp [distinctNames]
  unfold matchersToPostingGroups
  simp only
  cases hr : matchersToPostingGroups.go lvals (dedupMatchers ms) (distinctNames (dedupMatchers ms)) with
  | none =>
    rw [hr] at hnames
    simp only at hnames ⊢
    rw [all_by_name] at hnames
    rw [← hP]
    exact hnames.symm
  | some gs =>
    rw [hr] at hnames
    simp only at hnames ⊢
    obtain ⟨h1, h2, h3⟩ := hnames
    rw [selects_eq_all gs get (h3 hdn) h2, h1, all_by_name, hP]

end Thanos.Postings
