import Thanos.Model.DedupFilter
import Thanos.Lemmas.DedupFilter
import Thanos.Generated.Facts
/-
  C31 — Only blocks fully covered by another block are hidden as duplicates.

  For every listing of blocks with distinct ULIDs (any number of blocks, groups, any source
  lists — also empty ones and ones with repeated entries):
   * `C31_hidden_covered`: a hidden block has a *kept* block of the *same group* whose sources
     include all of its sources;
   * `C31_cover`: every source of every block is a source of some kept block;
   * `C31_perm`: the set of hidden blocks does not depend on the listing order (Go map order,
     `sort.Slice` instability) — because the comparator, with the full ULID order (time, then
     entropy) as last tie-break, is a total order (`sort_unique`); `C31_time_only_order_dependent`
     shows that a tie-break on the timestamp alone loses this;
   * `C31_concurrency`: groups are filtered independently and the hidden set is the union over
     groups, whatever way the groups are distributed over workers and in whatever order their
     results arrive.
  The model is a transliteration of `Filter` / `filterGroup` / `contains`.
-/
namespace Thanos.DedupFilter

theorem mem_groupMetas {metas : List Meta} {g : Nat} {m : Meta} :
    m ∈ groupMetas metas g ↔ m ∈ metas ∧ m.group = g := by
  simp [groupMetas]

theorem distinct_groupMetas {metas : List Meta} (h : DistinctIds metas) (g : Nat) :
    DistinctIds (groupMetas metas g) := by
  unfold DistinctIds groupMetas at *
  exact h.sublist ((List.filter_sublist (l := metas)).map _)

theorem mem_groupsOf : ∀ {metas : List Meta} {g : Nat}, g ∈ groupsOf metas ↔ ∃ m ∈ metas, m.group = g
  | [], g => by simp [groupsOf]
  | m :: ms, g => by
    simp only [groupsOf, List.mem_cons, List.mem_filter, mem_groupsOf (metas := ms), decide_eq_true_eq]
    constructor
    · rintro (h | ⟨⟨m', hm', e⟩, _⟩)
      · exact ⟨m, Or.inl rfl, h.symm⟩
      · exact ⟨m', Or.inr hm', e⟩
    · rintro ⟨m', h | h, e⟩
      · subst h; exact Or.inl e.symm
      · by_cases hg : g = m.group
        · exact Or.inl hg
        · exact Or.inr ⟨⟨m', h, e⟩, hg⟩

/-- what one group's run of `filterGroup` guarantees -/
theorem filterGroup_spec {g : List Meta} (hd : DistinctIds g) :
    (∀ d ∈ (filterGroup g).2, ∃ c ∈ g, c.id = d ∧
        ∃ p ∈ g, p.id ∉ (filterGroup g).2 ∧ ∀ a ∈ c.sources, a ∈ p.sources) ∧
    (∀ c ∈ g, c.id ∉ (filterGroup g).2 ∨ c.id ∈ (filterGroup g).2) := by
  obtain ⟨h1, h2, _, _, _⟩ := childLoop_spec (sortMetas g) [] []
  have hdis := childLoop_disjoint (sortMetas g) [] [] (by
    have := distinct_perm (sortMetas_perm g).symm hd
    simpa [DistinctIds] using this) (by simp)
  refine ⟨?_, fun c _ => by by_cases h : c.id ∈ (filterGroup g).2 <;> simp [h]⟩
  intro d hdm
  rcases h2 d hdm with h | ⟨c, hc, e, p, hp, hcon⟩
  · simp at h
  · refine ⟨c, mem_sortMetas.mp hc, e, p, ?_, hdis p hp, (contains_iff _ _).mp hcon⟩
    rcases h1 p hp with h | h
    · simp at h
    · exact mem_sortMetas.mp h

theorem mem_dups {metas : List Meta} {d : Nat} :
    d ∈ dups metas ↔ ∃ g, (∃ m ∈ metas, m.group = g) ∧ d ∈ (filterGroup (groupMetas metas g)).2 := by
  simp only [dups, dupsIn, List.mem_flatMap, mem_groupsOf]

/-- a duplicate id of group `g` belongs to a block of group `g` -/
theorem dup_in_group {metas : List Meta} (hd : DistinctIds metas) {g d : Nat}
    (h : d ∈ (filterGroup (groupMetas metas g)).2) : ∃ c ∈ metas, c.group = g ∧ c.id = d := by
  obtain ⟨c, hc, e, _⟩ := (filterGroup_spec (distinct_groupMetas hd g)).1 d h
  exact ⟨c, (mem_groupMetas.mp hc).1, (mem_groupMetas.mp hc).2, e⟩

/-- **C31 (1)**: a hidden block is covered by a kept block of its own compaction group. -/
theorem C31_hidden_covered (metas : List Meta) (hd : DistinctIds metas) (b : Meta) (hb : b ∈ metas)
    (hhid : b.id ∈ dups metas) :
    ∃ p ∈ metas, p.id ∉ dups metas ∧ p.group = b.group ∧ ∀ a ∈ b.sources, a ∈ p.sources := by
  obtain ⟨g, _, hdg⟩ := mem_dups.mp hhid
  obtain ⟨c, hc, e, p, hp, hpk, hsub⟩ := (filterGroup_spec (distinct_groupMetas hd g)).1 b.id hdg
  have hcb : c = b := id_inj hd (mem_groupMetas.mp hc).1 hb e
  subst hcb
  refine ⟨p, (mem_groupMetas.mp hp).1, ?_, ?_, hsub⟩
  · intro hpd
    obtain ⟨g', _, hdg'⟩ := mem_dups.mp hpd
    obtain ⟨c', hc', hg', e'⟩ := dup_in_group hd hdg'
    have : c' = p := id_inj hd hc' (mem_groupMetas.mp hp).1 e'
    subst this
    have : g' = g := by rw [← hg', (mem_groupMetas.mp hp).2]
    subst this
    exact hpk hdg'
  · rw [(mem_groupMetas.mp hp).2, (mem_groupMetas.mp hc).2]

/-- **C31 (2)**: the kept blocks together still cover every source. -/
theorem C31_cover (metas : List Meta) (hd : DistinctIds metas) (m : Meta) (hm : m ∈ metas)
    (x : Nat) (hx : x ∈ m.sources) : ∃ p ∈ kept metas, x ∈ p.sources := by
  by_cases h : m.id ∈ dups metas
  · obtain ⟨p, hp, hk, _, hsub⟩ := C31_hidden_covered metas hd m hm h
    exact ⟨p, by simp [kept, hp, hk], hsub x hx⟩
  · exact ⟨m, by simp [kept, hm, h], hx⟩

/-- every block is either kept or hidden, never both, and nothing else appears -/
theorem C31_partition (metas : List Meta) (m : Meta) :
    m ∈ kept metas ↔ m ∈ metas ∧ m.id ∉ dups metas := by
  simp [kept]

theorem C31_dups_are_blocks (metas : List Meta) (hd : DistinctIds metas) (d : Nat) (h : d ∈ dups metas) :
    ∃ m ∈ metas, m.id = d := by
  obtain ⟨g, _, hdg⟩ := mem_dups.mp h
  obtain ⟨c, hc, _, e⟩ := dup_in_group hd hdg
  exact ⟨c, hc, e⟩

/-- **C31 (3)**: the outcome does not depend on the listing order. -/
theorem C31_perm (metas metas' : List Meta) (p : metas.Perm metas') (hd : DistinctIds metas)
    (hk : KeyInj metas) (d : Nat) :
    d ∈ dups metas ↔ d ∈ dups metas' := by
  have key : ∀ g, filterGroup (groupMetas metas g) = filterGroup (groupMetas metas' g) := by
    intro g
    unfold filterGroup
    have : sortMetas (groupMetas metas g) = sortMetas (groupMetas metas' g) :=
      sort_unique (p.filter _) (distinct_groupMetas hd g)
        (fun a ha b hb => hk a (mem_groupMetas.mp ha).1 b (mem_groupMetas.mp hb).1)
    rw [this]
  simp only [mem_dups, key]
  constructor
  · rintro ⟨g, ⟨m, hm, e⟩, h⟩; exact ⟨g, ⟨m, p.mem_iff.mp hm, e⟩, h⟩
  · rintro ⟨g, ⟨m, hm, e⟩, h⟩; exact ⟨g, ⟨m, p.mem_iff.mpr hm, e⟩, h⟩

theorem C31_perm_kept (metas metas' : List Meta) (p : metas.Perm metas') (hd : DistinctIds metas)
    (hk : KeyInj metas) (m : Meta) :
    m ∈ kept metas ↔ m ∈ kept metas' := by
  rw [C31_partition, C31_partition, p.mem_iff, C31_perm metas metas' p hd hk]

theorem dupsIn_flatten (metas : List Meta) : ∀ ws : List (List Nat),
    dupsIn metas ws.flatten = ws.flatMap (dupsIn metas)
  | [] => rfl
  | w :: ws => by
    simp only [List.flatten_cons, List.flatMap_cons, ← dupsIn_flatten metas ws]
    simp [dupsIn, List.flatMap_append]

/-- **C31 (4)**: filter concurrency cannot matter.  Whatever way the groups are dealt to workers
    (`ws` = the groups each worker handled, in the order it handled them) and in whatever order
    the per-group results arrive, the hidden ids are a permutation of the sequential result. -/
theorem C31_concurrency (metas : List Meta) (ws : List (List Nat))
    (h : ws.flatten.Perm (groupsOf metas)) : (ws.flatMap (dupsIn metas)).Perm (dups metas) := by
  rw [← dupsIn_flatten]
  exact List.Perm.flatMap_right _ h

/-- … and a group's result depends on the blocks of that group only. -/
theorem C31_group_independent (metas extra : List Meta) (g : Nat) (h : ∀ m ∈ extra, m.group ≠ g) :
    filterGroup (groupMetas (metas ++ extra) g) = filterGroup (groupMetas metas g) := by
  have : groupMetas (metas ++ extra) g = groupMetas metas g := by
    simp only [groupMetas, List.filter_append]
    have : extra.filter (fun m => decide (m.group = g)) = [] := by
      simp only [List.filter_eq_nil_iff, decide_eq_true_eq]
      exact h
    simp [this]
  rw [this]

/-- swapping the arguments of `contains` (a seeded change of DESIGN §11) hides a block that is
    not covered: the property statement is not vacuous about the direction of the test -/
theorem C31_swapped_contains_false :
    ¬ (∀ a ∈ ([1, 2, 3] : List Nat), a ∈ ([1] : List Nat)) ∧ contains [1, 2, 3] [1] = true ∧
      contains [1] [1, 2, 3] = false := by decide

/-- **Why the tie-break must be the full ULID order**: with a tie-break on the ULID's timestamp
    alone (`lessT`), two blocks of one group with the same sources and level whose ULIDs differ
    only in entropy compare equal, the comparator is not a total order, and which of the two is
    hidden depends on the order in which the listing (a Go map) hands them over. -/
theorem C31_time_only_order_dependent :
    let a : Meta := ⟨5001, 5, 1, 0, 1, [10, 11]⟩
    let b : Meta := ⟨5002, 5, 2, 0, 1, [10, 11]⟩
    [a, b].Perm [b, a] ∧ DistinctIds [a, b] ∧ KeyInj [a, b] ∧
      dupsT [a, b] = [5001] ∧ dupsT [b, a] = [5002] ∧
      dups [a, b] = [5002] ∧ dups [b, a] = [5002] := by
  refine ⟨List.Perm.swap _ _ _, by unfold DistinctIds; decide, ?_, by decide, by decide, by decide, by decide⟩
  intro x hx y hy
  simp only [List.mem_cons, List.mem_nil_iff, or_false] at hx hy
  rcases hx with rfl | rfl <;> rcases hy with rfl | rfl <;> simp

-- ---------------------------------------------------------------- regenerated facts

/-- `filterGroup` asks `contains(parentSources, childSources)` … -/
theorem C31_fact_containsArgs : Thanos.Facts.dedupContainsArgs = "parentSources, childSources" := by decide
/-- … and `contains(s1, s2)` ranges over `s2` outside (∀) and `s1` inside (∃): s2 ⊆ s1 -/
theorem C31_fact_containsSig : Thanos.Facts.dedupContainsSig = "s1, s2" := by decide
theorem C31_fact_containsLoops :
    Thanos.Facts.dedupContainsLoops = "outer range s2; inner range s1" := by decide
/-- the comparator: equal source counts ⇒ higher level first, then ULID ascending; else more sources first -/
theorem C31_fact_sortLess : Thanos.Facts.dedupSortLess =
    ["ilvl > jlvl", "metaSlice[i].ULID.Compare(metaSlice[j].ULID) < 0", "ilen-jlen > 0", "if ilen == jlen"] := by decide
/-- … and inside the equal-count branch the level decides before the ULID -/
theorem C31_fact_sortLevel : Thanos.Facts.dedupSortLevelCond = "ilvl != jlvl" := by decide

-- non-vacuity: a chain 1 ⊂ 2 ⊂ 3 in one group plus an equal-sources pair in another
def exMetas : List Meta :=
  [⟨3, 3, 0, 0, 2, [10, 11, 12, 13]⟩, ⟨1, 1, 0, 0, 1, [10, 11]⟩, ⟨2, 2, 0, 0, 1, [12, 13]⟩, ⟨4, 4, 0, 1, 1, [10, 11]⟩,
   ⟨5, 4, 7, 1, 1, [11, 10]⟩, ⟨6, 6, 0, 0, 1, [13, 14]⟩, ⟨7, 7, 0, 2, 1, [20]⟩, ⟨8, 8, 0, 2, 2, [20]⟩]

example : DistinctIds exMetas := by unfold DistinctIds; decide
example : dups exMetas = [1, 2, 5, 7] := by decide   -- 8 (level 2) hides its parent 7 although 7 < 8
example : (kept exMetas).map (·.id) = [3, 4, 6, 8] := by decide

end Thanos.DedupFilter
