import Thanos.Model.Limiter
import Thanos.Model.StoreSpec
import Thanos.Generated.Facts
/-
  C09 — Series request limits are enforced.

  "A Series call that succeeds never returns more series than the configured series limit or more
   chunks than the configured chunk limit, and a request that would exceed a limit fails with a
   resource-exhausted error instead of returning truncated data silently."

  Code level (transliteration, unbounded): `Limiter.Reserve` — granted reservations never sum above the
  limit, a sum above the limit is refused whatever the order in which goroutines reach the counter, and
  once refused always refused.  Specification level: what `BucketStore.Series` reserves per block (expanded
  postings; chunk metas in range of the served series) bounds what the merged answer holds, so a granted
  request is within both limits and is the complete answer.  The real store is compared with the
  specification on every run (lazy expanded postings off: reservations are determined by the data; on: the
  oracle's interval relation).
-/
namespace Thanos.Limiter

/-- all reservations of a run were granted -/
def allGranted (l : Limiter) (ns : List Nat) : Bool := (run l ns).all id

theorem run_disabled : ∀ (r : Nat) (ns : List Nat), (run ⟨0, r⟩ ns).all id = true
  | _, [] => rfl
  | r, n :: ns => by
    simp only [run, reserve, List.all_cons, id]
    simpa using run_disabled r ns

theorem allGranted_iff (L : Nat) (hL : L ≠ 0) : ∀ (ns : List Nat) (r : Nat),
    allGranted ⟨L, r⟩ ns = true ↔ (ns = [] ∨ r + ns.sum ≤ L)
  | [], r => by simp [allGranted, run]
  | n :: ns, r => by
    have ih := allGranted_iff L hL ns (r + n)
    unfold allGranted at ih ⊢
    simp only [run, reserve, hL, if_false, List.all_cons, id, Bool.and_eq_true, decide_eq_true_eq, List.sum_cons]
    rw [ih]
    constructor
    · rintro ⟨h1, h2 | h2⟩
      · subst h2; right; simpa using h1
      · right; omega
    · rintro (h | h)
      · simp at h
      · refine ⟨by omega, ?_⟩
        by_cases hn : ns = []
        · exact Or.inl hn
        · right; omega

/-- all reservations granted (limit enabled) ⇒ their sum is within the limit -/
theorem C09_limiter_sound (L : Nat) (hL : L ≠ 0) (ns : List Nat) (h : allGranted (new L) ns = true) :
    ns.sum ≤ L := by
  rcases (allGranted_iff L hL ns 0).mp h with h | h
  · subst h; simp
  · omega

/-- a sum above the limit ⇒ some reservation is refused -/
theorem C09_limiter_complete (L : Nat) (hL : L ≠ 0) (ns : List Nat) (h : ns.sum > L) :
    allGranted (new L) ns = false := by
  cases hg : allGranted (new L) ns with
  | false => rfl
  | true =>
    have := C09_limiter_sound L hL ns hg
    omega

/-- whether a request passes does not depend on the order in which its reservations reach the counter -/
theorem C09_limiter_order (L : Nat) (ns ms : List Nat) (h : ns.Perm ms) :
    allGranted (new L) ns = allGranted (new L) ms := by
  by_cases hL : L = 0
  · subst hL
    simp [allGranted, new, run_disabled]
  · have hs := h.sum_nat
    have hnil : ns = [] ↔ ms = [] := by
      constructor
      · intro e; subst e; exact h.symm.eq_nil
      · intro e; subst e; exact h.eq_nil
    have h1 := allGranted_iff L hL ns 0
    have h2 := allGranted_iff L hL ms 0
    cases hg : allGranted (new L) ns with
    | true =>
      symm
      apply h2.mpr
      rcases h1.mp hg with e | e
      · exact Or.inl (hnil.mp e)
      · right; omega
    | false =>
      symm
      cases hm : allGranted (new L) ms with
      | false => rfl
      | true =>
        have : allGranted (new L) ns = true := by
          apply h1.mpr
          rcases h2.mp hm with e | e
          · exact Or.inl (hnil.mpr e)
          · right; omega
        rw [this] at hg
        exact absurd hg (by simp)

/-- once the counter is above the limit every later reservation is refused (the counter only grows) -/
theorem run_above (L : Nat) (hL : L ≠ 0) : ∀ (ns : List Nat) (r : Nat), r > L → ∀ b ∈ run ⟨L, r⟩ ns, b = false
  | [], _, _, b, hb => by simp [run] at hb
  | n :: ns, r, hr, b, hb => by
    simp only [run, reserve, hL, if_false, List.mem_cons] at hb
    rcases hb with rfl | hb
    · simp; omega
    · exact run_above L hL ns (r + n) (by omega) b hb

theorem C09_limiter_monotone (L : Nat) (hL : L ≠ 0) : ∀ (ns : List Nat) (r : Nat) (i j : Nat),
    i ≤ j → (run ⟨L, r⟩ ns)[i]? = some false → ∀ b, (run ⟨L, r⟩ ns)[j]? = some b → b = false
  | [], _, i, j, _, h, _, _ => by simp [run] at h
  | n :: ns, r, 0, j, _, h, b, hb => by
    simp only [run, reserve, hL, if_false, List.getElem?_cons_zero, Option.some.injEq, decide_eq_false_iff_not] at h
    have hmem : b ∈ run ⟨L, r⟩ (n :: ns) := List.mem_of_getElem? hb
    simp only [run, reserve, hL, if_false, List.mem_cons] at hmem
    rcases hmem with rfl | hmem
    · simp; omega
    · exact run_above L hL ns (r + n) (by omega) b hmem
  | n :: ns, r, i + 1, 0, hij, _, _, _ => by omega
  | n :: ns, r, i + 1, j + 1, hij, h, b, hb => by
    simp only [run, reserve, hL, if_false, List.getElem?_cons_succ] at h hb
    exact C09_limiter_monotone L hL ns (r + n) i j (by omega) h b hb

/-- limit 0 disables the limiter -/
theorem C09_limiter_disabled (ns : List Nat) : allGranted (new 0) ns = true := run_disabled 0 ns

end Thanos.Limiter

namespace Thanos.StoreSpec
open Thanos.Labels

/-! ### what is reserved bounds what is returned -/

theorem insertNat_length (x : Nat) : ∀ (l : List Nat), (insertNat x l).length ≤ l.length + 1
  | [] => by simp [insertNat]
  | y :: ys => by
    simp only [insertNat]
    split
    · simp
    · split
      · simp
      · have := insertNat_length x ys
        simp; omega

theorem canonNats_length : ∀ (l : List Nat), (canonNats l).length ≤ l.length
  | [] => by simp [canonNats]
  | x :: xs => by
    have ih := canonNats_length xs
    simp only [canonNats, List.foldr] at ih ⊢
    have := insertNat_length x (List.foldr insertNat [] xs)
    simp; omega

def total (c : List (Labels × List Nat)) : Nat := (c.map (fun e => e.2.length)).sum

theorem insertEntry_bounds (l : Labels) (ids : List Nat) : ∀ (c : List (Labels × List Nat)),
    (insertEntry l ids c).length ≤ c.length + 1 ∧ total (insertEntry l ids c) ≤ total c + ids.length
  | [] => by
    have := canonNats_length ids
    simp [insertEntry, total]; omega
  | (k, js) :: rest => by
    simp only [insertEntry]
    split
    · have := canonNats_length ids
      simp [total]; omega
    · split
      · have := canonNats_length (ids ++ js)
        simp [total] at this ⊢; omega
      · have ih := insertEntry_bounds l ids rest
        simp [total] at ih ⊢; omega

theorem canonSeries_bounds : ∀ (es : List Entry),
    (canonSeries es).length ≤ es.length ∧ total (canonSeries es) ≤ (es.map (fun e => e.2.length)).sum
  | [] => by simp [canonSeries, total]
  | e :: es => by
    have ih := canonSeries_bounds es
    simp only [canonSeries, List.foldr] at ih ⊢
    have := insertEntry_bounds e.1 (e.2.map (·.id)) (List.foldr (fun e acc => insertEntry e.1 (e.2.map (·.id)) acc) [] es)
    simp at this ⊢; omega

theorem filterMap_le_filter {α β : Type} (f : α → Option β) (p : α → Bool) (h : ∀ a b, f a = some b → p a = true) :
    ∀ (l : List α), (l.filterMap f).length ≤ (l.filter p).length
  | [] => by simp
  | a :: l => by
    have ih := filterMap_le_filter f p h l
    simp only [List.filterMap_cons, List.filter_cons]
    cases hf : f a with
    | none => simp only; split <;> simp <;> omega
    | some b => simp [h a b hf]; omega

theorem blockSeries_le_reserved (R : List Nat) (b : Block) (r : Req) :
    (blockSeries R b r).length ≤ blockSeriesReserved b r := by
  unfold blockSeries blockSeriesReserved
  split
  · simp
  · simp
  · next ms _ =>
    unfold selectSeries
    apply filterMap_le_filter
    intro s e hs
    split at hs
    · assumption
    · simp at hs

theorem sum_map_le {α : Type} (f g : α → Nat) (h : ∀ a, f a ≤ g a) : ∀ (l : List α), (l.map f).sum ≤ (l.map g).sum
  | [] => by simp
  | a :: l => by
    have := sum_map_le f g h l
    have := h a
    simp; omega

theorem sum_map_flatMap {α β : Type} (f : α → List β) (g : β → Nat) : ∀ (l : List α),
    ((l.flatMap f).map g).sum = (l.map (fun a => ((f a).map g).sum)).sum
  | [] => by simp
  | a :: l => by
    have := sum_map_flatMap f g l
    simp [this]

/-- the merged answer has at most as many series as were reserved … -/
theorem series_le_reserved (blocks : List Block) (r : Req) :
    countSeries (bucketSeries blocks r) ≤ seriesReserved blocks r := by
  unfold countSeries seriesReserved bucketSeries
  have h1 := (canonSeries_bounds ((selected blocks r).flatMap (blockSeries r.without · r))).1
  rw [List.length_flatMap] at h1
  have h2 := sum_map_le (fun b => (blockSeries r.without b r).length) (fun b => blockSeriesReserved b r)
    (fun b => blockSeries_le_reserved r.without b r) (selected blocks r)
  omega

/-- … and at most as many chunks -/
theorem chunks_le_reserved (blocks : List Block) (r : Req) (hs : r.skipChunks = false) :
    countChunks (bucketSeries blocks r) ≤ chunksReserved blocks r := by
  unfold countChunks chunksReserved bucketSeries
  have h1 := (canonSeries_bounds ((selected blocks r).flatMap (blockSeries r.without · r))).2
  unfold total at h1
  rw [sum_map_flatMap] at h1
  have : ∀ b : Block, blockChunksReserved r.without b r = ((blockSeries r.without b r).map (fun e => e.2.length)).sum := by
    intro b; simp [blockChunksReserved, hs]
  simp only [this]
  exact h1

/-- on every path that emits series — eager or lazily expanded postings per block, chunks skipped or not — what
    the series limiter was charged bounds the series of the answer (no hypothesis on `r.skipChunks`) -/
theorem series_le_reserved_mode (lazy : Block → Bool) (blocks : List Block) (r : Req) :
    countSeries (bucketSeries blocks r) ≤ seriesReservedMode lazy blocks r := by
  unfold countSeries seriesReservedMode bucketSeries
  have h1 := (canonSeries_bounds ((selected blocks r).flatMap (blockSeries r.without · r))).1
  rw [List.length_flatMap] at h1
  have h2 := sum_map_le (fun b => (blockSeries r.without b r).length)
    (fun b => blockSeriesReservedMode (lazy b) r.without b r)
    (fun b => by
      unfold blockSeriesReservedMode
      split
      · exact Nat.le_refl _
      · exact blockSeries_le_reserved r.without b r) (selected blocks r)
  omega

/-- so a request the series limiter granted is within the series limit, whichever blocks were expanded lazily
    and whether or not the request skips chunks -/
theorem C09_series_any_path (sl : Nat) (hsl : sl ≠ 0) (lazy : Block → Bool) (blocks : List Block) (r : Req)
    (hgranted : Limiter.allGranted (Limiter.new sl)
      ((selected blocks r).map (fun b => blockSeriesReservedMode (lazy b) r.without b r)) = true) :
    countSeries (bucketSeries blocks r) ≤ sl := by
  have := Limiter.C09_limiter_sound sl hsl _ hgranted
  have := series_le_reserved_mode lazy blocks r
  unfold seriesReservedMode at this
  omega

/-- C09 in the specification: a request that is granted is within both limits and is the complete answer;
    a request is refused only when a reservation sum exceeds its limit -/
theorem C09_spec (sl cl : Nat) (blocks : List Block) (r : Req) (hs : r.skipChunks = false) :
    (∀ es, bucketSeriesLimited sl cl blocks r = .ok es →
      es = bucketSeries blocks r ∧ (sl ≠ 0 → countSeries es ≤ sl) ∧ (cl ≠ 0 → countChunks es ≤ cl)) ∧
    (bucketSeriesLimited sl cl blocks r = .exhausted →
      (sl ≠ 0 ∧ seriesReserved blocks r > sl) ∨ (cl ≠ 0 ∧ chunksReserved blocks r > cl)) := by
  unfold bucketSeriesLimited
  constructor
  · intro es h
    split at h
    · simp at h
    · next h1 =>
      split at h
      · simp at h
      · next h2 =>
        simp at h
        subst h
        refine ⟨rfl, ?_, ?_⟩
        · intro hsl
          have := series_le_reserved blocks r
          have : ¬ seriesReserved blocks r > sl := fun hgt => h1 ⟨hsl, hgt⟩
          omega
        · intro hcl
          have := chunks_le_reserved blocks r hs
          have : ¬ chunksReserved blocks r > cl := fun hgt => h2 ⟨hcl, hgt⟩
          omega
  · intro h
    split at h
    · next h1 => exact Or.inl h1
    · split at h
      · next h2 => exact Or.inr h2
      · simp at h

/-- the decision of `bucketSeriesLimited` is the decision of the real limiters fed with the per-block
    reservations in any order: it only depends on the sums (`C09_limiter_order`, `allGranted_iff`) -/
theorem C09_spec_is_limiter (sl : Nat) (blocks : List Block) (r : Req) :
    Limiter.allGranted (Limiter.new sl) ((selected blocks r).map (blockSeriesReserved · r)) = true ↔
      ¬ (sl ≠ 0 ∧ seriesReserved blocks r > sl) := by
  by_cases hsl : sl = 0
  · subst hsl
    simp [Limiter.C09_limiter_disabled]
  · have hiff := Limiter.allGranted_iff sl hsl ((selected blocks r).map (blockSeriesReserved · r)) 0
    unfold Limiter.new
    rw [hiff]
    unfold seriesReserved
    constructor
    · rintro (h | h)
      · rw [h]; simp
      · omega
    · intro h
      right
      have : ¬ ((selected blocks r).map (blockSeriesReserved · r)).sum > sl := fun hgt => h ⟨hsl, hgt⟩
      omega

end Thanos.StoreSpec

namespace Thanos.Props.C09
open Thanos.Limiter

/-! ### regenerated facts: limiter errors surface as ResourceExhausted -/

theorem C09_fact_codes :
    Thanos.Facts.storesLimitErrorCodes = ["int(codes.ResourceExhausted)", "int(codes.ResourceExhausted)", "int(codes.ResourceExhausted)"]
    ∧ Thanos.Facts.storesWarnCodeCond = "strings.Contains(warn, \"rpc error: code = ResourceExhausted\")"
    ∧ Thanos.Facts.storesLimiterCond = "reserved := l.reserved.Add(num); reserved > l.limit" := by decide

/-- regenerated facts: in `nextBatch` a series is counted (`seriesMatched++`) before the skip-chunks shortcut
    appends it, and after the loop the reservation of lazily expanded postings comes before everything else —
    no return precedes it, in particular none for requests that skip chunks -/
theorem C09_fact_reserve_on_every_path :
    Thanos.Facts.storesNextBatchTail =
      ["if lazyExpandedPosting { if b.seriesLimiter.Reserve }", "if !b.skipChunks { if b.chunkr.load }", "return"]
    ∧ Thanos.Facts.storesNextBatchLoop =
      ["if b.ctx.Err", "hasMatchedChunks := b.indexr.LoadSeriesForTime", "if err != nil { return }",
       "if !lazyExpandedPosting && !hasMatchedChunks { continue }", "if b.indexr.LookupLabelsSymbols",
       "b.lset = b.b.Labels", "loop", "if lazyExpandedPosting { b.expandedPostings = append }",
       "if !hasMatchedChunks { continue }", "completeLabelset := labelpb.ExtendSortedLabels",
       "if b.extLsetToRemove != nil { completeLabelset = rmLabels }",
       "if !b.shardMatcher.MatchesLabels(completeLabelset) { continue }", "seriesMatched++",
       "if b.seriesLimit > 0 && seriesMatched > b.seriesLimit { b.hasMorePostings =; break }", "s :=",
       "if b.skipChunks { b.entries = append; continue }", "s.refs = make", "s.chks = make", "loop",
       "if b.chunksLimiter.Reserve", "b.entries = append"] := by decide

/-! ### which error a refused reservation surfaces as -/

/-- where a limit is enforced: inside the store gateway (`blockSeriesClient`), or by the `limitedStoreServer`
    wrapper that sidecar, ruler, receive and querier put around their store (`--store.limits.request-series`) -/
inductive Enforcer where
  | gateway
  | limitedServer
  deriving DecidableEq, Repr

/-- what `limitedServer.Send` returns when a limiter refuses carries the ResourceExhausted status: it is a
    `limitError`, whose `GRPCStatus()` is ResourceExhausted (string prefix tests do not reduce in the kernel:
    the accepted forms are listed) -/
def limitedSendSurfaces (sendErrors : List String) (limitErrorStatus : String) : Bool :=
  sendErrors.all (fun s =>
    s == "limitError{errors.Wrapf(err, \"failed to send series\")}" ||
    s == "limitError{errors.Wrapf(err, \"failed to send samples\")}") &&
  !sendErrors.isEmpty &&
  limitErrorStatus == "status.New(codes.ResourceExhausted, e.Error())"

/-- does every limit error of the enforcer carry the ResourceExhausted status (read off the sources) -/
def surfacesAsResourceExhausted : Enforcer → Bool
  | .gateway => Thanos.Facts.storesLimitErrorCodes.all (· == "int(codes.ResourceExhausted)") &&
      !Thanos.Facts.storesLimitErrorCodes.isEmpty
  | .limitedServer => limitedSendSurfaces Thanos.Facts.storesLimitedSendErrors Thanos.Facts.storesLimitErrorStatus

/-- C09 "fails with a resource-exhausted error", for every place a limit is enforced -/
def C09_code_full : Prop := ∀ e : Enforcer, surfacesAsResourceExhausted e = true

/-- holds of the code as it is now (repaired by /repo `fix: limitedStoreServer answers a violated limit with the
    ResourceExhausted status`) -/
theorem C09_code : C09_code_full := by
  intro e
  cases e <;> decide

/-- before the repair `limitedServer.Send` returned `errors.Wrapf(err, "failed to send series")`: a plain error,
    which reached the client as Unknown -/
theorem C09_code_unrepaired_false :
    limitedSendSurfaces ["errors.Wrapf(err, \"failed to send series\")", "errors.Wrapf(err, \"failed to send samples\")"]
      "unknown" = false := by decide

/-! ### non-vacuity -/
example : run (new 10) [3, 4, 3, 1, 0] = [true, true, true, false, false] := by decide
example : allGranted (new 10) [3, 4, 3] = true := by decide
example : allGranted (new 10) [4, 3, 3] = true := by decide
example : allGranted (new 9) [3, 4, 3] = false := by decide
example : run (new 0) [100, 100] = [true, true] := by decide

end Thanos.Props.C09
