import Thanos.Model.Merge
import Thanos.Lemmas.Chain
import Thanos.Lemmas.Proxy
import Thanos.Props.C03
import Thanos.Generated.Facts
/-
  C06 — Partial-response strategy is honoured under store failures.

  Model: `proxySeriesWith merge` of `Model/Merge.lean` — the fan-out loop (a failing `Series()` call:
  warning + continue, or return the error), the receivers (a failing / timed-out `Recv` becomes a
  warning frame at that point of the stream), the k-way merge (parameter), the response
  deduplicator, the response loop (`Aborted` on a warning under the abort strategy) and the batching
  server.  A store is its scripted frame list plus its failure point: `openErr`, `recvErr k`
  (the Recv after k delivered frames fails), `hang k` (… never returns; the frame timeout cancels it).

  The theorems hold for every `merge` that neither loses nor invents responses (`MergeMem`) — all
  they need of the loser tree, which has it (`losertree_refines`, Props/C03; `C06_*_tree` below) — for any number of stores, any subset failing at any point, lazy and
  eager retrieval, any batch size, with and without deduplication, sharded or not.  `Limit = 0`
  (a limit may legitimately cut the stream before the failure is seen).
-/
namespace Thanos.Merge

/-- the store fails while it is being read: its scripted failure point lies within (or right at
    the end of) its stream -/
def FailsInStream (st : Store) : Prop :=
  (∃ k, st.failure = .recvErr k ∧ k ≤ st.frames.length) ∨ (∃ k, st.failure = .hang k ∧ k ≤ st.frames.length)

/-- the warning a store that fails in its stream is reported with -/
def failureMsg (st : Store) : Bytes :=
  match st.failure with
  | .hang _ => st.timeoutMsg
  | _ => st.recvMsg

/-- a failure inside the stream becomes a warning response of that store, whatever the retrieval
    strategy (lazy / eager / eager with re-sort) -/
theorem failure_reaches_merge (lazy sharded : Bool) (without : List Bytes) (st : Store)
    (h : FailsInStream st) : .warning (failureMsg st) ∈ respSet lazy sharded without st := by
  apply mem_respSet_nonSeries _ _ _ _ _ _ rfl
  rcases h with ⟨k, hf, hk⟩ | ⟨k, hf, hk⟩
  · have := recvLoop_recvErr (sharded && !st.supportsSharding) st k hf st.frames 0 (Nat.zero_le _) (by omega)
    simpa [failureMsg, hf] using this
  · have := recvLoop_hang (sharded && !st.supportsSharding) st k hf st.frames 0 (Nat.zero_le _) (by omega)
    simpa [failureMsg, hf] using this

/-! ### abort strategy -/

/-- **C06, abort.**  If a queried store fails — its `Series()` call, or a `Recv` at any point of
    its stream, or by timing out — a request with the abort strategy does not succeed. -/
theorem C06_abort (merge : List (List Frame) → List Frame) (hm : MergeMem merge)
    (rq : Request) (stores : List Store) (hab : rq.abort = true) (hlim : rq.limit = 0)
    (st : Store) (hst : st ∈ stores)
    (hfail : st.openErr = true ∨ (FailsInStream st ∧ failureMsg st ≠ [])) :
    (proxySeriesWith merge rq stores).2 ≠ .ok := by
  unfold proxySeriesWith
  split
  · simp
  · have hfo := fanOut_abort rq hab stores
    generalize hfan : fanOut rq stores = fo at hfo
    obtain ⟨ow, sets, failed⟩ := fo
    simp only at hfo ⊢
    cases failed with
    | true => simp
    | false =>
      simp only [Bool.false_eq_true, if_false]
      -- nobody failed to open, so `st` fails in its stream
      have hnoopen : ¬ ∃ s ∈ stores, s.openErr = true := by
        intro h; have := hfo.1.mpr h; simp at this
      rcases hfail with ho | ⟨hfs, hne⟩
      · exact absurd ⟨st, hst, ho⟩ hnoopen
      · have hset := hfo.2 rfl st hst
        have hw : Frame.warning (failureMsg st) ∈ merge sets :=
          (hm sets _).mpr ⟨_, hset, failure_reaches_merge _ _ _ st hfs⟩
        have hresp : ∃ m, m ≠ [] ∧ Frame.warning m ∈ (if rq.dedup then dedup rq.fixedDedup (merge sets) else merge sets) := by
          refine ⟨failureMsg st, hne, ?_⟩
          split
          · exact dedupGo_nonSeries _ _ _ _ _ (Or.inr ⟨hw, rfl⟩)
          · exact hw
        have := respLoop_abort _ 0 hresp
        rw [hlim, hab]
        generalize respLoop 0 true 0 (if rq.dedup then dedup rq.fixedDedup (merge sets) else merge sets) = rl at this
        obtain ⟨sent, status⟩ := rl
        simp only at this
        subst this
        simp

/-! ### warn strategy -/

/-- **C06, warn: the call succeeds** — whatever fails. -/
theorem C06_warn_ok (merge : List (List Frame) → List Frame) (rq : Request) (stores : List Store)
    (hab : rq.abort = false) (hlim : rq.limit = 0) :
    (proxySeriesWith merge rq stores).2 = .ok := by
  unfold proxySeriesWith
  simp only [hab, Bool.and_false, Bool.false_eq_true, if_false]
  have hfo := fanOut_warn rq hab stores
  generalize fanOut rq stores = fo at hfo
  obtain ⟨ow, sets, failed⟩ := fo
  simp only at hfo ⊢
  rw [hfo.1]
  simp only [Bool.false_eq_true, if_false, hlim, respLoop_warn]

/-- **C06, warn: every failed store is reported.**  A store whose `Series()` call fails is
    reported with its open warning, a store that fails inside its stream with its receive /
    timeout warning — in the answer the client gets. -/
theorem C06_warn_reported (merge : List (List Frame) → List Frame) (hm : MergeMem merge)
    (rq : Request) (stores : List Store) (hab : rq.abort = false) (hlim : rq.limit = 0)
    (st : Store) (hst : st ∈ stores) :
    (st.openErr = true → .warning st.openMsg ∈ (proxySeriesWith merge rq stores).1) ∧
    (st.openErr = false → FailsInStream st → .warning (failureMsg st) ∈ (proxySeriesWith merge rq stores).1) := by
  rw [proxy_warn_eq merge rq stores hab hlim]
  have hfo := fanOut_warn rq hab stores
  constructor
  · intro ho
    apply mem_serverOut_nonSeries _ _ _ _ _ rfl
    exact List.mem_append_left _ (hfo.2.1 st hst ho)
  · intro ho hfs
    apply mem_serverOut_nonSeries _ _ _ _ _ rfl
    apply List.mem_append_right
    have hw : Frame.warning (failureMsg st) ∈ merge (fanOut rq stores).2.1 :=
      (hm _ _).mpr ⟨_, hfo.2.2.1 st hst ho, failure_reaches_merge _ _ _ st hfs⟩
    split
    · exact dedupGo_nonSeries _ _ _ _ _ (Or.inr ⟨hw, rfl⟩)
    · exact hw

/-- **C06, warn: nothing a store delivered is lost.**  Every series response that reaches the
    merge from any store that opened (in particular from every store that did not fail; and from a
    failing store, everything it sent before failing) is in the answer: with deduplication as part
    of a merged series that compares equal in labels and — when the chunk keys tell the chunks of
    that label set apart — carries each of its chunks; without deduplication verbatim. -/
theorem C06_warn_complete (merge : List (List Frame) → List Frame) (hm : MergeMem merge)
    (rq : Request) (stores : List Store) (hab : rq.abort = false) (hlim : rq.limit = 0)
    (st : Store) (hst : st ∈ stores) (ho : st.openErr = false)
    (s : Series) (hs : .series s ∈ respSet rq.lazy rq.sharded rq.without st) :
    if rq.dedup then
      ∃ f r, chain rq.fixedDedup f r ∈ flatten (proxySeriesWith merge rq stores).1 ∧ s ∈ f :: r ∧
        (∀ x ∈ r, cmpLabels f.lbls x.lbls = .eq) ∧
        (rq.fixedDedup = true → KeyInj ((f :: r).flatMap (·.chunks)) → Populated ((f :: r).flatMap (·.chunks)) →
          ∀ c ∈ s.chunks, c ∈ (chain rq.fixedDedup f r).chunks)
    else s ∈ flatten (proxySeriesWith merge rq stores).1 := by
  have hfo := fanOut_warn rq hab stores
  have hsets := fanOut_sets_noBatch rq stores
  have hmergeNB : ∀ f ∈ merge (fanOut rq stores).2.1, ∀ ss, f ≠ .batch ss := by
    intro f hf
    obtain ⟨set, hset, hfs⟩ := (hm _ _).mp hf
    exact hsets set hset f hfs
  have hsm : Frame.series s ∈ merge (fanOut rq stores).2.1 :=
    (hm _ _).mpr ⟨_, hfo.2.2.1 st hst ho, hs⟩
  have hflat : ∀ resps : List Frame, (∀ f ∈ resps, ∀ ss, f ≠ .batch ss) →
      flatten (serverOut rq.batchSize true ((fanOut rq stores).1 ++ resps)) = seriesOf resps := by
    intro resps hnb
    rw [C03_batch_independent]
    · rw [seriesOf_append, seriesOf_nonSeries _ (fun x hx => by
        obtain ⟨m, rfl⟩ := hfo.2.2.2 x hx; rfl)]; rfl
    · intro f hf ss
      simp only [List.mem_append] at hf
      rcases hf with hf | hf
      · intro heq; subst heq
        obtain ⟨m, hm'⟩ := hfo.2.2.2 _ hf
        cases hm'
      · exact hnb f hf ss
  rw [proxy_warn_eq merge rq stores hab hlim]
  cases hd : rq.dedup with
  | false =>
    simp only [Bool.false_eq_true, if_false]
    rw [hflat _ hmergeNB]
    exact mem_seriesOf.mpr hsm
  | true =>
    simp only [if_true]
    have hnb : ∀ f ∈ dedup rq.fixedDedup (merge (fanOut rq stores).2.1), ∀ ss, f ≠ .batch ss :=
      dedup_noBatch _ _ none [] hmergeNB (by simp)
    rw [hflat _ hnb]
    obtain ⟨f, r, hmem, hsf, hr⟩ := dedupGo_series rq.fixedDedup (merge (fanOut rq stores).2.1) none [] s
      (by intro f r h; simp at h) (Or.inl (mem_seriesOf.mpr hsm))
    refine ⟨f, r, mem_seriesOf.mpr hmem, hsf, hr, ?_⟩
    intro hfix hinj hpop c hc
    rw [hfix]
    have := (C03_chunks f r hinj hpop).2.2.1 c
    apply this.mpr
    simp only [List.mem_flatMap]
    exact ⟨s, hsf, hc⟩

/-! ### the same for the merge the proxy really uses (`losertree_refines`, Props/C03) -/

theorem C06_abort_tree (rq : Request) (stores : List Store) (hab : rq.abort = true) (hlim : rq.limit = 0)
    (st : Store) (hst : st ∈ stores)
    (hfail : st.openErr = true ∨ (FailsInStream st ∧ failureMsg st ≠ [])) :
    (proxySeries rq stores).2 ≠ .ok :=
  C06_abort treeMerge (mergeMem_of_spec losertree_refines) rq stores hab hlim st hst hfail

theorem C06_warn_tree (rq : Request) (stores : List Store) (hab : rq.abort = false) (hlim : rq.limit = 0)
    (st : Store) (hst : st ∈ stores) :
    (proxySeries rq stores).2 = .ok ∧
    (st.openErr = true → .warning st.openMsg ∈ (proxySeries rq stores).1) ∧
    (st.openErr = false → FailsInStream st → .warning (failureMsg st) ∈ (proxySeries rq stores).1) :=
  ⟨C06_warn_ok treeMerge rq stores hab hlim,
   C06_warn_reported treeMerge (mergeMem_of_spec losertree_refines) rq stores hab hlim st hst⟩

/-! ### which errors end a stream: the error-kind dimension

  A failing `Recv` returns an error value; the receivers end the stream cleanly iff that value *is*
  io.EOF (`isEnd`, fact `recvEndOfStreamTests`).  Every other error — plain, gRPC status, context
  deadline, io.ErrUnexpectedEOF, an error that wraps io.EOF or claims `Is(io.EOF)` — is a failure and
  is reported / aborts.  `Store.seen` applies the test; the driver runs `proxySeriesSeen` /
  `selectFnSeen`. -/

/-- the store's scripted Recv failure is not io.EOF itself -/
def NotEnd (st : Store) : Prop := ∀ k, st.failure = .recvErr k → isEnd st.recvError = false

theorem seen_of_notEnd (st : Store) (h : NotEnd st) : st.seen = st := by
  unfold Store.seen Store.seenWith
  split
  · next k hf => simp [h k hf]
  · rfl

/-- in particular: an error that only has io.EOF in its chain (`%w`, custom `Is`) is not the end -/
theorem notEnd_of_not_identical (st : Store) (h : st.recvError.isEOF = false) : NotEnd st := fun _ _ => h

/-- **C06 over all error kinds.**  Whatever error value the failing call returns, as long as a
    failing Recv does not return io.EOF itself: abort ⇒ the request fails, warn ⇒ it succeeds and
    the store's warning is in the answer. -/
theorem C06_errkind (rq : Request) (stores : List Store) (hlim : rq.limit = 0) (st : Store) (hst : st ∈ stores)
    (hne : NotEnd st) :
    (rq.abort = true → (st.openErr = true ∨ (FailsInStream st ∧ failureMsg st ≠ [])) →
      (proxySeriesSeen rq stores).2 ≠ .ok) ∧
    (rq.abort = false →
      (proxySeriesSeen rq stores).2 = .ok ∧
      (st.openErr = true → .warning st.openMsg ∈ (proxySeriesSeen rq stores).1) ∧
      (st.openErr = false → FailsInStream st → .warning (failureMsg st) ∈ (proxySeriesSeen rq stores).1)) := by
  have hmem : st ∈ stores.map Store.seen := List.mem_map.2 ⟨st, hst, seen_of_notEnd st hne⟩
  exact ⟨fun hab hf => C06_abort_tree rq _ hab hlim st hmem hf, fun hab => C06_warn_tree rq _ hab hlim st hmem⟩

/-- Why the end test must be identity: with `errors.Is(err, io.EOF)` as the test
    (`seenWith (·.chainEOF)`), a store whose second Recv fails with an error wrapping io.EOF is taken
    for complete — an abort request succeeds on truncated data. -/
theorem C06_errorsIs_false :
    ¬ (∀ (rq : Request) (stores : List Store) (st : Store), rq.abort = true → rq.limit = 0 → st ∈ stores →
        FailsInStream st → failureMsg st ≠ [] → st.recvError.isEOF = false →
        (proxySeries rq (stores.map (Store.seenWith (·.chainEOF)))).2 ≠ .ok) := by
  intro h
  have := h { fixedDedup := true, lazy := true, batchSize := 0, limit := 0, abort := true, dedup := true, sharded := false, without := [] }
    [{ supportsSharding := true, supportsWithout := true, openErr := false, failure := .recvErr 1,
       frames := [(.series ⟨[([98], [1])], []⟩, true), (.series ⟨[([98], [2])], []⟩, true)],
       recvMsg := [114], timeoutMsg := [116], openMsg := [111], recvError := { isEOF := false, chainEOF := true } }]
    { supportsSharding := true, supportsWithout := true, openErr := false, failure := .recvErr 1,
       frames := [(.series ⟨[([98], [1])], []⟩, true), (.series ⟨[([98], [2])], []⟩, true)],
       recvMsg := [114], timeoutMsg := [116], openMsg := [111], recvError := { isEOF := false, chainEOF := true } }
    rfl rfl (by simp) (Or.inl ⟨1, rfl, by decide⟩) (by decide) rfl
  revert this
  decide

/-- the end test in the sources: both receivers compare the error with io.EOF by identity, and
    nowhere else is a Recv error tested against io.EOF -/
theorem C06_fact_end_test :
    Thanos.Facts.recvEndOfStreamTests = ["lazy:err == io.EOF", "eager:err == io.EOF"] := rfl

/-! ### one level up: the querier (`querier.selectFn`) — what the user of the Query API sees -/

theorem mem_collect_warning (fs : List Frame) (m : Bytes) (hm : m ≠ []) (h : Frame.warning m ∈ fs) :
    m ∈ (collectAnswer fs).2 := by
  simp only [collectAnswer, List.mem_filterMap]
  refine ⟨_, h, ?_⟩
  have : m.isEmpty = false := by cases m <;> simp_all
  simp [this]

/-- **C06 at the querier, warn strategy.**  Whatever fails — including when *every* store fails or
    the healthy ones return nothing, so that the merged result has no series at all — `Select`
    succeeds and its annotations contain the warning of each failed store. -/
theorem C06_querier_warn (merge : List (List Frame) → List Frame) (hm : MergeMem merge)
    (rq : Request) (stores : List Store) (hab : rq.abort = false) (hlim : rq.limit = 0)
    (st : Store) (hst : st ∈ stores) :
    (selectFnWith false merge rq stores).failed = false ∧
    (st.openErr = true → st.openMsg ≠ [] → st.openMsg ∈ (selectFnWith false merge rq stores).warnings) ∧
    (st.openErr = false → FailsInStream st → failureMsg st ≠ [] →
      failureMsg st ∈ (selectFnWith false merge rq stores).warnings) := by
  have hok := C06_warn_ok merge rq stores hab hlim
  have hrep := C06_warn_reported merge hm rq stores hab hlim st hst
  unfold selectFnWith
  generalize proxySeriesWith merge rq stores = r at hok hrep
  obtain ⟨out, oc⟩ := r
  simp only at hok hrep
  subst hok
  simp only [Bool.false_and, Bool.false_eq_true, if_false]
  exact ⟨trivial, fun ho hne => mem_collect_warning out _ hne (hrep.1 ho),
    fun ho hf hne => mem_collect_warning out _ hne (hrep.2 ho hf)⟩

/-- **C06 at the querier, abort strategy.**  If a queried store fails, `Select` fails. -/
theorem C06_querier_abort (merge : List (List Frame) → List Frame) (hm : MergeMem merge)
    (rq : Request) (stores : List Store) (hab : rq.abort = true) (hlim : rq.limit = 0)
    (st : Store) (hst : st ∈ stores)
    (hfail : st.openErr = true ∨ (FailsInStream st ∧ failureMsg st ≠ [])) (d : Bool) :
    (selectFnWith d merge rq stores).failed = true := by
  have h := C06_abort merge hm rq stores hab hlim st hst hfail
  unfold selectFnWith
  generalize proxySeriesWith merge rq stores = r at h
  obtain ⟨out, oc⟩ := r
  cases oc <;> simp_all

/-- the same for the querier as it is (`selectFn` = no fast path, loser-tree merge) -/
theorem C06_querier_tree (rq : Request) (stores : List Store) (hlim : rq.limit = 0) (st : Store) (hst : st ∈ stores) :
    (rq.abort = false →
      (selectFn rq stores).failed = false ∧
      (st.openErr = true → st.openMsg ≠ [] → st.openMsg ∈ (selectFn rq stores).warnings) ∧
      (st.openErr = false → FailsInStream st → failureMsg st ≠ [] → failureMsg st ∈ (selectFn rq stores).warnings)) ∧
    (rq.abort = true → (st.openErr = true ∨ (FailsInStream st ∧ failureMsg st ≠ [])) →
      (selectFn rq stores).failed = true) :=
  ⟨fun hab => C06_querier_warn treeMerge (mergeMem_of_spec losertree_refines) rq stores hab hlim st hst,
   fun hab hf => C06_querier_abort treeMerge (mergeMem_of_spec losertree_refines) rq stores hab hlim st hst hf false⟩

/-- the same at the querier -/
theorem C06_errkind_querier (rq : Request) (stores : List Store) (hlim : rq.limit = 0) (st : Store) (hst : st ∈ stores)
    (hne : NotEnd st) :
    (rq.abort = false →
      (selectFnSeen rq stores).failed = false ∧
      (st.openErr = true → st.openMsg ≠ [] → st.openMsg ∈ (selectFnSeen rq stores).warnings) ∧
      (st.openErr = false → FailsInStream st → failureMsg st ≠ [] → failureMsg st ∈ (selectFnSeen rq stores).warnings)) ∧
    (rq.abort = true → (st.openErr = true ∨ (FailsInStream st ∧ failureMsg st ≠ [])) →
      (selectFnSeen rq stores).failed = true) :=
  C06_querier_tree rq _ hlim st (List.mem_map.2 ⟨st, hst, seen_of_notEnd st hne⟩)

/-- Why "the warnings are read on every successful path" is an obligation: a variant of `selectFn`
    that returns an empty series set before reading them loses the warning of a store that fails
    before its first series (one store, Recv fails at once, warn strategy). -/
theorem C06_querier_fastpath_false :
    ¬ (∀ (rq : Request) (stores : List Store) (st : Store), rq.abort = false → rq.limit = 0 → st ∈ stores →
        st.openErr = false → FailsInStream st → failureMsg st ≠ [] →
        failureMsg st ∈ (selectFnWith true treeMerge rq stores).warnings) := by
  intro h
  have := h { fixedDedup := true, lazy := true, batchSize := 0, limit := 0, abort := false, dedup := true, sharded := false, without := [] }
    [{ supportsSharding := true, supportsWithout := true, openErr := false, failure := .recvErr 0, frames := [],
       recvMsg := [114], timeoutMsg := [116], openMsg := [111] }]
    { supportsSharding := true, supportsWithout := true, openErr := false, failure := .recvErr 0, frames := [],
      recvMsg := [114], timeoutMsg := [116], openMsg := [111] }
    rfl rfl (by simp) rfl (Or.inl ⟨0, rfl, by simp⟩) (by decide)
  revert this
  decide

/-- `selectFn` in the sources: the two successful returns both carry `warns` (directly, or through
    `set`, which is built with `warns`), and `warns` is the collected `resp.warnings` -/
theorem C06_fact_querier :
    Thanos.Facts.selectFnSuccessReturns =
      ["NewPromSeriesSet( newStoreSeriesSet(resp.seriesSet), q.mint, q.maxt, aggrs, warns, )",
       "dedup.NewSeriesSet(set, hints.Func, q.deduplicationFunc)"] ∧
    Thanos.Facts.selectFnWarns = ["warns := annotations.New().Merge(resp.warnings)",
       "set := NewPromSeriesSet( dedup.NewOverlapSplit(newStoreSeriesSet(resp.seriesSet)), q.mint, q.maxt, aggrs, warns, )"] ∧
    Thanos.Facts.seriesServerWarning = "r.GetWarning() != \"\"" := ⟨rfl, rfl, rfl⟩

/-! ### regenerated facts: the strategy tests in the sources -/

/-- the fan-out loop continues after a failing `Series()` call only under the warn strategy, and
    the response loop returns `Aborted` on a warning under the abort strategy (`fanOut`, `respLoop`) -/
theorem C06_fact_strategy :
    Thanos.Facts.proxyOpenErrContinueCond = "!r.PartialResponseDisabled && r.PartialResponseStrategy != storepb.PartialResponseStrategy_ABORT" ∧
    Thanos.Facts.proxyAbortOnWarningCond = "resp.GetWarning() != \"\" && (r.PartialResponseDisabled || r.PartialResponseStrategy == storepb.PartialResponseStrategy_ABORT)" := ⟨rfl, rfl⟩

/-- a failing `Recv` is turned into a warning response by both receivers (`failAt` in `recvLoop`) -/
theorem C06_fact_recv_warning :
    Thanos.Facts.recvErrorToWarning = ["lazy:l.rb.append(storepb.NewWarnSeriesResponse(rerr))", "eager:l.bufferedResponses = append(l.bufferedResponses, storepb.NewWarnSeriesResponse(rerr))"] := rfl

/-! ### non-vacuity -/

private def okStore (fs : List (Frame × Bool)) : Store :=
  { supportsSharding := true, supportsWithout := true, openErr := false, failure := .none, frames := fs,
    recvMsg := [114], timeoutMsg := [116], openMsg := [111] }
private def ser (b : Nat) : Frame := .series ⟨[([98], [b])], []⟩
private def rqW : Request := { fixedDedup := true, lazy := true, batchSize := 0, limit := 0, abort := false, dedup := true, sharded := false, without := [] }

-- the hypotheses of C06_abort / C06_warn_reported are met by concrete stores …
example : FailsInStream { okStore [(ser 1, true), (ser 2, true)] with failure := .recvErr 1 } := by
  left; exact ⟨1, rfl, by decide⟩
-- … and the model run shows what the theorems say: store 1 fails after one frame, store 2 at open
example : proxySeries rqW [okStore [(ser 1, true), (ser 3, true)],
      { okStore [(ser 2, true), (ser 4, true)] with failure := .recvErr 1 },
      { okStore [] with openErr := true }]
    = ([.warning [111], ser 1, .warning [114], ser 2, ser 3], .ok) := by decide
example : (proxySeries { rqW with abort := true } [okStore [(ser 1, true)],
      { okStore [(ser 2, true)] with failure := .hang 0 }]).2 = .aborted := by decide
example : (proxySeries { rqW with abort := true } [okStore [(ser 1, true)], { okStore [] with openErr := true }]).2
    = .openFailed := by decide

-- the querier level, zero-series case: both stores fail before their first series; the warn strategy
-- still succeeds with both warnings, the abort strategy fails
example : (selectFn rqW [{ okStore [(ser 1, true)] with failure := .recvErr 0 }, { okStore [] with openErr := true }]).warnings
    = [[111], [114]] := by decide
example : (selectFn rqW [{ okStore [(ser 1, true)] with failure := .recvErr 0 }, { okStore [] with openErr := true }]).series = [] := by decide
example : (selectFn { rqW with abort := true } [{ okStore [(ser 1, true)] with failure := .hang 0 }]).failed = true := by decide

-- error kinds: a Recv that returns io.EOF itself after one frame is a (short) healthy stream; an error
-- that merely wraps io.EOF is a failure like any other
example : (proxySeriesSeen rqW [{ okStore [(ser 1, true), (ser 2, true)] with failure := .recvErr 1, recvError := { isEOF := true, chainEOF := true } }])
    = proxySeries rqW [okStore [(ser 1, true)]] := by decide
example : (selectFnSeen rqW [{ okStore [(ser 1, true), (ser 2, true)] with failure := .recvErr 1, recvError := { isEOF := false, chainEOF := true } }]).warnings
    = [[114]] := by decide
example : (proxySeriesSeen { rqW with abort := true } [{ okStore [(ser 1, true), (ser 2, true)] with failure := .recvErr 1, recvError := { isEOF := false, chainEOF := true } }]).2
    = .aborted := by decide

end Thanos.Merge
