import Thanos.Model.CachingBucket
import Thanos.Model.CachingBucketOps
import Thanos.Lemmas.CachingBucket
import Thanos.Generated.Facts
/-
  C14 — Caching bucket is transparent for immutable objects.

  Range reads (cachedGetRange / fetchMissingSubranges / mergeRanges / subrangesReader) are a
  transliteration; the theorems are about every object, subrange size, sub-request limit, read
  buffer size and every honest cache (any subset of what was stored: losses and evictions).
-/
namespace Thanos.CachingBucket

/-- an honest cache returns, for a subrange key, nothing or the object's bytes of that range -/
def Honest (obj : Bytes) (cache : Nat → Nat → Option Bytes) : Prop :=
  ∀ a b bs, cache a b = some bs → bs = slice obj a b

/-- C14 for range reads at full strength: for every object, subrange size, sub-request limit,
    honest cache (any losses), read-buffer size, offset and length, the bytes served are the
    bytes the wrapped bucket serves. -/
def C14_getRange_full (guard : Bool) : Prop :=
  ∀ (obj : Bytes) (S maxSub : Nat) (cache : Nat → Nat → Option Bytes) (p off len : Nat),
    S ≥ 1 → p ≥ 1 → len ≥ 1 → Honest obj cache →
    (getRange guard obj S maxSub cache p off len).out = .ok (bucketGetRange obj off len)

/-- the core: a request that starts inside the object (with or without the guard) is served
    transparently, and what it stores into the cache are true subranges under their exact keys -/
theorem getRange_inside (guard : Bool) (obj : Bytes) (S maxSub : Nat) (cache : Nat → Nat → Option Bytes)
    (p off len : Nat) (hS : S ≥ 1) (hp : p ≥ 1) (hlen : len ≥ 1) (hon : Honest obj cache)
    (hoff : ¬ off ≥ obj.length) :
    (getRange guard obj S maxSub cache p off len).out = .ok (bucketGetRange obj off len) ∧
    StoresHonest obj (getRange guard obj S maxSub cache p off len).stores := by
  unfold getRange
  simp only [hoff, and_false, if_false]
  have hS' : 0 < S := hS
  -- the aligned window of the request
  have hR := @roundup_spec (min (off + len) obj.length) S hS'
  simp only at hR
  obtain ⟨hEd, hEle, hElt⟩ := hR
  have hSd := rounddown_dvd off S
  have hSle := rounddown_le off S
  generalize hend : (min (off + len) obj.length / S * S + if min (off + len) obj.length % S > 0 then S else 0) = endR at *
  generalize hstart : off / S * S = startR at *
  generalize hep : min (off + len) obj.length = endPos at *
  have hep1 : off < endPos := by omega
  have hep2 : endPos ≤ obj.length := by omega
  have hlt : startR < endR := by omega
  have hnp : ¬ (endR < startR) := by omega
  simp only [hnp, if_false]
  have hge : startR + S ≤ endR := aligned_step hSd hEd hlt
  -- the last subrange of the request
  have hrd : endR > obj.length → obj.length / S * S = endR - S := by
    intro hgt
    have a1 : endR - S ≤ obj.length / S * S :=
      le_rounddown hS' (Nat.dvd_sub hEd (Nat.dvd_refl S)) (by omega)
    have a2 : obj.length / S * S + S ≤ endR :=
      aligned_step (rounddown_dvd _ S) hEd (by have := rounddown_le obj.length S; omega)
    omega
  have G : Geom S obj.length startR endR
      (if endR > obj.length then ((obj.length / S * S : Nat) : Int) else (endR : Int) - S)
      (if endR > obj.length then obj.length - obj.length / S * S else S) := by
    refine ⟨hS', hSd, hEd, by omega, ?_, ?_, by omega⟩
    · by_cases hgt : endR > obj.length
      · simp only [hgt, if_true]; have := hrd hgt; omega
      · simp only [hgt, if_false]
    · by_cases hgt : endR > obj.length
      · simp only [hgt, if_true]; have := hrd hgt; omega
      · simp only [hgt, if_false]; omega
  generalize (if endR > obj.length then ((obj.length / S * S : Nat) : Int) else (endR : Int) - S) = lastOff at *
  generalize (if endR > obj.length then obj.length - obj.length / S * S else S) = lastLen at *
  -- the cache hits are honest
  generalize hh0 : List.filterMap (fun o => Option.map (fun b => (o, b)) (cache o (min (o + S) obj.length)))
    (offsets S startR endR) = hits0
  have hgood0 : GoodHits obj S hits0 := by
    intro o b hob
    rw [← hh0, List.mem_filterMap] at hob
    obtain ⟨o', _, ho'⟩ := hob
    cases hc : cache o' (min (o' + S) obj.length) with
    | none => simp [hc] at ho'
    | some b' =>
      simp only [hc, Option.map_some, Option.some.injEq, Prod.mk.injEq] at ho'
      obtain ⟨rfl, rfl⟩ := ho'
      exact hon _ _ _ hc
  have hmem0 : ∀ o, o ∈ offsets S startR endR → (cache o (min (o + S) obj.length)).isSome = true →
      (hits0.lookup o).isSome = true := by
    intro o ho hc
    cases hcv : cache o (min (o + S) obj.length) with
    | none => rw [hcv] at hc; cases hc
    | some b =>
      apply lookup_isSome_of_mem _ o b
      rw [← hh0, List.mem_filterMap]
      exact ⟨o, ho, by simp [hcv]⟩
  -- after the fetch phase every subrange of the window is there
  have key : ∃ f, (if hits0.length < (offsets S startR endR).length then
        fetchAll obj S lastOff lastLen
          (mergeUntil maxSub (endR + 2) S (mergeRanges 0
            (List.map (fun o => ({ start := o, stop := o + S } : Rng))
              (List.filter (fun o => (List.lookup o hits0).isNone) (offsets S startR endR)))))
          { hits := hits0, reads := [], stores := [] }
      else Except.ok { hits := hits0, reads := [], stores := [] }) = .ok f ∧
      Complete obj S startR endR f.hits ∧ StoresHonest obj f.stores := by
    have finish : ∀ f : Fetched, GoodHits obj S f.hits →
        (∀ o, startR ≤ o → o < endR → S ∣ o → (f.hits.lookup o).isSome = true) →
        Complete obj S startR endR f.hits := by
      intro f hg hs o h1 h2 h3
      have := hs o h1 h2 h3
      cases hl : f.hits.lookup o with
      | none => rw [hl] at this; cases this
      | some b => rw [hg o b (lookup_mem _ _ _ hl)]
    split
    · -- some subranges are missing: merge and fetch
      have hch0 := missing_chain hS' (fun o => (List.lookup o hits0).isNone) (endR - startR) startR endR hSd hEd
      obtain ⟨c1, c2⟩ := mergeRanges_chain (limit := 0) _ hch0
      obtain ⟨d1, d2⟩ := mergeUntil_chain (maxSub := maxSub) (endR + 2) S _ c1
      obtain ⟨f, hf1, hf2, hf5, hf3, hf4⟩ := fetchAll_ok obj G _ ⟨hits0, [], []⟩
        (fun m hm => by have := Chain.mem d1 hm; exact ⟨this.2.1, this.2.2.1, this.2.2.2.1, this.2.2.2.2⟩)
        hgood0 (by intro e he; simp at he)
      refine ⟨f, hf1, finish f hf2 ?_, hf5⟩
      intro o h1 h2 h3
      cases hl : (List.lookup o hits0).isSome with
      | true => exact hf3 o hl
      | false =>
        have hmiss : covered (List.map (fun o => ({ start := o, stop := o + S } : Rng))
            (List.filter (fun o => (List.lookup o hits0).isNone) (offsets S startR endR))) o := by
          refine ⟨⟨o, o + S⟩, ?_, Nat.le_refl _, by simp only; omega⟩
          apply List.mem_map.mpr
          refine ⟨o, List.mem_filter.mpr ⟨(mem_offsets hS' hSd).mpr ⟨h1, h2, h3⟩, ?_⟩, rfl⟩
          cases hv : List.lookup o hits0 with
          | none => rfl
          | some v => rw [hv] at hl; cases hl
        obtain ⟨m, hm, hm1, hm2⟩ := d2 o (c2 o hmiss)
        have hmv := Chain.mem d1 hm
        exact hf4 m hm o ((mem_offsets hS' hmv.2.2.2.1).mpr ⟨hm1, hm2, h3⟩)
    · -- everything was in the cache
      rename_i hfull
      refine ⟨⟨hits0, [], []⟩, rfl, finish _ hgood0 ?_, by intro e he; simp at he⟩
      intro o h1 h2 h3
      have ho := (mem_offsets hS' hSd).mpr ⟨h1, h2, h3⟩
      apply hmem0 o ho
      have := filterMap_full (fun o => Option.map (fun b => (o, b)) (cache o (min (o + S) obj.length)))
        (offsets S startR endR) (by rw [hh0]; omega) o ho
      cases hc : cache o (min (o + S) obj.length) with
      | none => simp [hc] at this
      | some b => rfl
  obtain ⟨f, hf, hcomp, hsto⟩ := key
  rw [hf]
  simp only
  refine ⟨?_, hsto⟩
  have hfuel : endPos - off + 1 ≤ ((endPos : Int) - (off : Int)).toNat + 1 := by omega
  rw [readAll_correct obj hS' hp f.hits hSd hcomp _ off endPos hSle (by omega) hEle hep2 hfuel]
  rw [bucketGetRange_eq, hep]

/-- C14, range reads, the code as it is now: transparent for ALL offsets and lengths (a request
    starting at or past the end of the object is answered by the wrapped bucket itself). -/
theorem C14_getRange : C14_getRange_full true := by
  intro obj S maxSub cache p off len hS hp hlen hon
  by_cases hoff : off ≥ obj.length
  · unfold getRange
    simp [hoff]
  · exact (getRange_inside true obj S maxSub cache p off len hS hp hlen hon hoff).1

/-- F14: the code as it was panics for an offset beyond the object (10-byte object, subrange
    size 16, GetRange(100, 5)), where the wrapped bucket returns an empty reader. -/
theorem C14_unguarded_false : ¬ C14_getRange_full false := by
  intro h
  have := h [0, 1, 2, 3, 4, 5, 6, 7, 8, 9] 16 0 (fun _ _ => none) 512 100 5
    (by decide) (by decide) (by decide) (by intro a b bs h; simp at h)
  have hp : (getRange false [0, 1, 2, 3, 4, 5, 6, 7, 8, 9] 16 0 (fun _ _ => none) 512 100 5).out
      = .error .panic := by rfl
  rw [hp] at this
  cases this

/-- … and was transparent exactly for requests that start inside the object. -/
theorem C14_unguarded_partial (obj : Bytes) (S maxSub : Nat) (cache : Nat → Nat → Option Bytes)
    (p off len : Nat) (hS : S ≥ 1) (hp : p ≥ 1) (hlen : len ≥ 1) (hon : Honest obj cache)
    (hoff : off < obj.length) :
    (getRange false obj S maxSub cache p off len).out = .ok (bucketGetRange obj off len) :=
  (getRange_inside false obj S maxSub cache p off len hS hp hlen hon (by omega)).1

/-- what a read stores into the cache is honest: under the key `(start, end)` exactly `obj[start:end]` -/
theorem C14_stores_honest (obj : Bytes) (S maxSub : Nat) (cache : Nat → Nat → Option Bytes)
    (p off len : Nat) (hS : S ≥ 1) (hp : p ≥ 1) (hlen : len ≥ 1) (hon : Honest obj cache) :
    StoresHonest obj (getRange true obj S maxSub cache p off len).stores := by
  by_cases hoff : off ≥ obj.length
  · unfold getRange
    simp only [hoff, and_self, if_true]
    intro e he
    simp at he
  · exact (getRange_inside true obj S maxSub cache p off len hS hp hlen hon hoff).2

/-! ### histories of reads with a lossy cache -/

structure Read where
  off : Nat
  len : Nat
  p : Nat

/-- all that the caching bucket ever stored -/
abbrev Entries := List ((Nat × Nat) × Bytes)

/-- what the cache answers in one Fetch: any part of what was stored (entries may have been lost,
    evicted, or simply not returned this time) -/
def SubView (entries : Entries) (view : Nat → Nat → Option Bytes) : Prop :=
  ∀ a b bs, view a b = some bs → ((a, b), bs) ∈ entries

/-- run a history: every read sees some sub-view of the entries stored so far -/
def runHistory (obj : Bytes) (S maxSub : Nat) :
    List (Read × (Nat → Nat → Option Bytes)) → Entries → List (Except Err Bytes)
  | [], _ => []
  | (r, view) :: rest, entries =>
    let res := getRange true obj S maxSub view r.p r.off r.len
    res.out :: runHistory obj S maxSub rest (entries ++ res.stores)

/-- the history is well formed: lengths and buffers are positive, every view is a sub-view of the
    entries at that point of the run -/
def HistOK (obj : Bytes) (S maxSub : Nat) :
    List (Read × (Nat → Nat → Option Bytes)) → Entries → Prop
  | [], _ => True
  | (r, view) :: rest, entries =>
    r.len ≥ 1 ∧ r.p ≥ 1 ∧ SubView entries view ∧
      HistOK obj S maxSub rest (entries ++ (getRange true obj S maxSub view r.p r.off r.len).stores)

/-- C14 for histories: whatever was read before and whatever the cache lost in between, every
    read of the history returns the bytes of the wrapped bucket. -/
theorem C14_history (obj : Bytes) (S maxSub : Nat) (hS : S ≥ 1) :
    ∀ (h : List (Read × (Nat → Nat → Option Bytes))) (entries : Entries),
      StoresHonest obj entries → HistOK obj S maxSub h entries →
      runHistory obj S maxSub h entries = h.map fun rv => .ok (bucketGetRange obj rv.1.off rv.1.len)
  | [], _, _, _ => rfl
  | (r, view) :: rest, entries, he, ⟨h1, h2, h3, h4⟩ => by
    have hon : Honest obj view := by
      intro a b bs hv
      exact he _ (h3 a b bs hv)
    have hout := C14_getRange obj S maxSub view r.p r.off r.len hS h2 h1 hon
    have hst := C14_stores_honest obj S maxSub view r.p r.off r.len hS h2 h1 hon
    have he' : StoresHonest obj (entries ++ (getRange true obj S maxSub view r.p r.off r.len).stores) := by
      intro e hm
      rcases List.mem_append.mp hm with h | h
      · exact he e h
      · exact hst e h
    simp only [runHistory, List.map_cons, hout]
    rw [C14_history obj S maxSub hS rest _ he' h4]

/-! ### full reads, existence, attributes, listings -/

/-- the per-verb cache entries are honest: they say what the wrapped bucket says -/
structure OpsHonest (obj : Option Bytes) (listing : List Nat) (c : OpsCache) : Prop where
  content : ∀ b, c.content = some b → obj = some b
  exist : ∀ e, c.exist = some e → e = obj.isSome
  attrs : ∀ n, c.attrs = some n → ∃ b, obj = some b ∧ n = b.length
  iter : ∀ l, c.iter = some l → l = listing

theorem opsHonest_empty (obj : Option Bytes) (listing : List Nat) : OpsHonest obj listing .empty :=
  ⟨by simp [OpsCache.empty], by simp [OpsCache.empty], by simp [OpsCache.empty], by simp [OpsCache.empty]⟩

/-- Get through the caching bucket = Get on the wrapped bucket (present or absent object, any way
    of consuming the reader, any size limit, whatever the cache returns of its entries), and the
    cache stays honest. -/
theorem C14_get (obj : Option Bytes) (listing : List Nat) (maxSize : Nat) (mode : ReadMode)
    (seeContent seeExist : Bool) (c : OpsCache) (h : OpsHonest obj listing c) :
    (opGet obj maxSize mode seeContent seeExist c).ans = bucketGet obj mode ∧
    OpsHonest obj listing (opGet obj maxSize mode seeContent seeExist c).cache := by
  unfold opGet
  cases hc : (if seeContent = true then c.content else none) with
  | some b =>
    have hb : c.content = some b := by
      cases seeContent <;> simp_all
    have := h.content b hb
    subst this
    exact ⟨rfl, h⟩
  | none =>
    simp only
    cases obj with
    | none =>
      -- absent object: a cached "exists" entry can only say false
      have hstore : OpsHonest none listing { c with exist := some false } :=
        ⟨h.content, by intro e he; simp at he; simp [← he], h.attrs, h.iter⟩
      cases he : (if seeExist = true then c.exist else none) with
      | none => exact ⟨rfl, hstore⟩
      | some e =>
        cases e with
        | false => exact ⟨rfl, h⟩
        | true => exact ⟨rfl, hstore⟩
    | some b =>
      have hstore : OpsHonest (some b) listing
          (if mode = ReadMode.full ∧ b.length ≤ maxSize then
            { content := some b, exist := some true, attrs := c.attrs, iter := c.iter }
           else { content := c.content, exist := some true, attrs := c.attrs, iter := c.iter }) := by
        by_cases hcond : mode = ReadMode.full ∧ b.length ≤ maxSize
        · simp only [hcond, and_self, if_true]
          exact ⟨by intro b' hb'; simp at hb'; simp [hb'], by intro e he; simp at he; simp [← he],
            h.attrs, h.iter⟩
        · simp only [hcond, if_false]
          exact ⟨h.content, by intro e he; simp at he; simp [← he], h.attrs, h.iter⟩
      cases he : (if seeExist = true then c.exist else none) with
      | none => exact ⟨rfl, hstore⟩
      | some e =>
        have heb : c.exist = some e := by cases seeExist <;> simp_all
        have hev := h.exist e heb
        cases e with
        | false => simp at hev
        | true => exact ⟨rfl, hstore⟩

/-- the content of an object enters the cache only by a complete read of an object that fits -/
theorem C14_get_full_only (obj : Option Bytes) (maxSize : Nat) (mode : ReadMode)
    (seeContent seeExist : Bool) (c : OpsCache) (b : Bytes)
    (h : (opGet obj maxSize mode seeContent seeExist c).cache.content = some b) :
    c.content = some b ∨ (mode = .full ∧ b.length ≤ maxSize ∧ obj = some b) := by
  unfold opGet at h
  split at h
  · exact Or.inl h
  · split at h
    · exact Or.inl h
    · cases obj with
      | none => exact Or.inl h
      | some b' =>
        simp only at h
        split at h
        · rename_i hcond
          simp only [Option.some.injEq] at h
          subst h
          exact Or.inr ⟨hcond.1, hcond.2, rfl⟩
        · exact Or.inl h

theorem C14_exists (obj : Option Bytes) (listing : List Nat) (seeExist : Bool) (c : OpsCache)
    (h : OpsHonest obj listing c) :
    (opExists obj seeExist c).ans = .bool obj.isSome ∧ OpsHonest obj listing (opExists obj seeExist c).cache := by
  unfold opExists
  cases he : (if seeExist = true then c.exist else none) with
  | some e =>
    have heb : c.exist = some e := by cases seeExist <;> simp_all
    have := h.exist e heb
    subst this
    exact ⟨rfl, h⟩
  | none =>
    exact ⟨rfl, ⟨h.content, by intro e he'; simp at he'; exact he'.symm, h.attrs, h.iter⟩⟩

theorem C14_attributes (obj : Option Bytes) (listing : List Nat) (seeAttrs : Bool) (c : OpsCache)
    (h : OpsHonest obj listing c) :
    (opAttributes obj seeAttrs c).ans = bucketAttributes obj ∧
    OpsHonest obj listing (opAttributes obj seeAttrs c).cache := by
  unfold opAttributes
  cases ha : (if seeAttrs = true then c.attrs else none) with
  | some n =>
    have hab : c.attrs = some n := by cases seeAttrs <;> simp_all
    obtain ⟨b, hb, hn⟩ := h.attrs n hab
    subst hb; subst hn
    exact ⟨rfl, h⟩
  | none =>
    cases obj with
    | none => exact ⟨rfl, h⟩
    | some b =>
      exact ⟨rfl, ⟨h.content, h.exist, by intro n hn; simp at hn; exact ⟨b, rfl, hn.symm⟩, h.iter⟩⟩

theorem C14_iter (obj : Option Bytes) (listing : List Nat) (seeIter : Bool) (c : OpsCache)
    (h : OpsHonest obj listing c) :
    (opIter listing seeIter c).ans = .names listing ∧ OpsHonest obj listing (opIter listing seeIter c).cache := by
  unfold opIter
  cases hi : (if seeIter = true then c.iter else none) with
  | some l =>
    have hib : c.iter = some l := by cases seeIter <;> simp_all
    have := h.iter l hib
    subst this
    exact ⟨rfl, h⟩
  | none =>
    exact ⟨rfl, ⟨h.content, h.exist, h.attrs, by intro l hl; simp at hl; exact hl.symm⟩⟩

/-! ### regenerated facts -/

/-- the guard in the source is the one of `getRange true`; ranges are merged when the gap is at
    most `limit`; the merge loop starts at the subrange size and doubles; a fetched subrange is
    kept (and stored) only when the key is not in `hits` yet -/
theorem C14_source_facts :
    Thanos.Facts.cachedGetRangeGuard = "offset >= attrs.Size" ∧
    Thanos.Facts.mergeRangesCond = "(input[ix].start - input[last].end) <= limit" ∧
    Thanos.Facts.mergeUntilLoop =
      "limit := cfg.SubrangeSize; cfg.MaxSubRequests > 0 && len(missing) > cfg.MaxSubRequests; limit = limit * 2" ∧
    Thanos.Facts.subrangeStoreCond = "_, ok := hits[key]; !ok" ∧
    Thanos.Facts.lastSubrangeConds =
      ["if:offset >= attrs.Size", "if:offset+length > attrs.Size", "if:endRange > attrs.Size",
       "if:lastSubrangeOffset >= m.end", "if:off == lastSubrangeOffset"] := by decide

/-! ### non-vacuity -/

-- an 18-byte object, subrange size 4, a cache that holds the 2nd and 4th subrange: the read is
-- served from two cache hits and two bucket reads (merged with limit 0) and returns obj[1:17)
example : (getRange true (List.range 18) 4 0
    (fun a b => if (a, b) = (4, 8) ∨ (a, b) = (12, 16) then some (slice (List.range 18) a b) else none)
    3 1 16).out = .ok (List.range 17 |>.drop 1) := by rfl
example : (getRange true (List.range 18) 4 0
    (fun a b => if (a, b) = (4, 8) ∨ (a, b) = (12, 16) then some (slice (List.range 18) a b) else none)
    3 1 16).reads = [(0, 4), (8, 4), (16, 4)] := by rfl
-- with at most one sub-request the three missing ranges are merged into one
example : (getRange true (List.range 18) 4 1
    (fun a b => if (a, b) = (4, 8) ∨ (a, b) = (12, 16) then some (slice (List.range 18) a b) else none)
    3 1 16).reads = [(0, 20)] := by rfl
example : Honest (List.range 18)
    (fun a b => if (a, b) = (4, 8) ∨ (a, b) = (12, 16) then some (slice (List.range 18) a b) else none) := by
  intro a b bs h
  simp only at h
  split at h
  · simp only [Option.some.injEq] at h; exact h.symm
  · cases h

end Thanos.CachingBucket
