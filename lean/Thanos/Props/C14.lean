import Thanos.Model.CachingBucket
import Thanos.Model.CachingBucketOps
import Thanos.Lemmas.CachingBucket
import Thanos.Lemmas.BucketKey
import Thanos.Lemmas.CachingBucketOps
import Thanos.Generated.Facts
/-
  C14 — Caching bucket is transparent for immutable objects.

  Range reads (cachedGetRange / fetchMissingSubranges / mergeRanges / subrangesReader) are a
  transliteration; the theorems are about every object, subrange size, sub-request limit, read
  buffer size and every honest cache (any subset of what was stored: losses and evictions).
-/
namespace Thanos.CachingBucket

/-- an honest cache returns, for a subrange key, nothing or the object's bytes of that range -/
def Honest (obj : Bytes) (cache : Nat → Nat → Option Bytes) : Prop :=
  ∀ a b bs, cache a b = some bs → bs = slice obj a b

/-- C14 for range reads at full strength: for every object, subrange size, sub-request limit,
    honest cache (any losses), read-buffer size, offset and length, the bytes served are the
    bytes the wrapped bucket serves. -/
def C14_getRange_full (guard : Bool) : Prop :=
  ∀ (obj : Bytes) (S maxSub : Nat) (cache : Nat → Nat → Option Bytes) (p off len : Nat),
    S ≥ 1 → p ≥ 1 → len ≥ 1 → Honest obj cache →
    (getRange guard obj S maxSub cache p off len).out = .ok (bucketGetRange obj off len)

/-- the core: a request that starts inside the object (with or without the guard) is served
    transparently, and what it stores into the cache are true subranges under their exact keys -/
theorem getRange_inside (guard : Bool) (obj : Bytes) (S maxSub : Nat) (cache : Nat → Nat → Option Bytes)
    (p off len : Nat) (hS : S ≥ 1) (hp : p ≥ 1) (hlen : len ≥ 1) (hon : Honest obj cache)
    (hoff : ¬ off ≥ obj.length) :
    (getRange guard obj S maxSub cache p off len).out = .ok (bucketGetRange obj off len) ∧
    StoresHonest obj (getRange guard obj S maxSub cache p off len).stores := by
  unfold getRange
  simp only [hoff, and_false, if_false]
  have hS' : 0 < S := hS
  -- the aligned window of the request
  have hR := @roundup_spec (min (off + len) obj.length) S hS'
  simp only at hR
  obtain ⟨hEd, hEle, hElt⟩ := hR
  have hSd := rounddown_dvd off S
  have hSle := rounddown_le off S
  generalize hend : (min (off + len) obj.length / S * S + if min (off + len) obj.length % S > 0 then S else 0) = endR at *
  generalize hstart : off / S * S = startR at *
  generalize hep : min (off + len) obj.length = endPos at *
  have hep1 : off < endPos := by omega
  have hep2 : endPos ≤ obj.length := by omega
  have hlt : startR < endR := by omega
  have hnp : ¬ (endR < startR) := by omega
  simp only [hnp, if_false]
  have hge : startR + S ≤ endR := aligned_step hSd hEd hlt
  -- the last subrange of the request
  have hrd : endR > obj.length → obj.length / S * S = endR - S := by
    intro hgt
    have a1 : endR - S ≤ obj.length / S * S :=
      le_rounddown hS' (Nat.dvd_sub hEd (Nat.dvd_refl S)) (by omega)
    have a2 : obj.length / S * S + S ≤ endR :=
      aligned_step (rounddown_dvd _ S) hEd (by have := rounddown_le obj.length S; omega)
    omega
  have G : Geom S obj.length startR endR
      (if endR > obj.length then ((obj.length / S * S : Nat) : Int) else (endR : Int) - S)
      (if endR > obj.length then obj.length - obj.length / S * S else S) := by
    refine ⟨hS', hSd, hEd, by omega, ?_, ?_, by omega⟩
    · by_cases hgt : endR > obj.length
      · simp only [hgt, if_true]; have := hrd hgt; omega
      · simp only [hgt, if_false]
    · by_cases hgt : endR > obj.length
      · simp only [hgt, if_true]; have := hrd hgt; omega
      · simp only [hgt, if_false]; omega
  generalize (if endR > obj.length then ((obj.length / S * S : Nat) : Int) else (endR : Int) - S) = lastOff at *
  generalize (if endR > obj.length then obj.length - obj.length / S * S else S) = lastLen at *
  -- the cache hits are honest
  generalize hh0 : List.filterMap (fun o => Option.map (fun b => (o, b)) (cache o (min (o + S) obj.length)))
    (offsets S startR endR) = hits0
  have hgood0 : GoodHits obj S hits0 := by
    intro o b hob
    rw [← hh0, List.mem_filterMap] at hob
    obtain ⟨o', _, ho'⟩ := hob
    cases hc : cache o' (min (o' + S) obj.length) with
    | none => simp [hc] at ho'
    | some b' =>
      simp only [hc, Option.map_some, Option.some.injEq, Prod.mk.injEq] at ho'
      obtain ⟨rfl, rfl⟩ := ho'
      exact hon _ _ _ hc
  have hmem0 : ∀ o, o ∈ offsets S startR endR → (cache o (min (o + S) obj.length)).isSome = true →
      (hits0.lookup o).isSome = true := by
    intro o ho hc
    cases hcv : cache o (min (o + S) obj.length) with
    | none => rw [hcv] at hc; cases hc
    | some b =>
      apply lookup_isSome_of_mem _ o b
      rw [← hh0, List.mem_filterMap]
      exact ⟨o, ho, by simp [hcv]⟩
  -- after the fetch phase every subrange of the window is there
  have key : ∃ f, (if hits0.length < (offsets S startR endR).length then
        fetchAll obj S lastOff lastLen
          (mergeUntil maxSub (endR + 2) S (mergeRanges 0
            (List.map (fun o => ({ start := o, stop := o + S } : Rng))
              (List.filter (fun o => (List.lookup o hits0).isNone) (offsets S startR endR)))))
          { hits := hits0, reads := [], stores := [] }
      else Except.ok { hits := hits0, reads := [], stores := [] }) = .ok f ∧
      Complete obj S startR endR f.hits ∧ StoresHonest obj f.stores := by
    have finish : ∀ f : Fetched, GoodHits obj S f.hits →
        (∀ o, startR ≤ o → o < endR → S ∣ o → (f.hits.lookup o).isSome = true) →
        Complete obj S startR endR f.hits := by
      intro f hg hs o h1 h2 h3
      have := hs o h1 h2 h3
      cases hl : f.hits.lookup o with
      | none => rw [hl] at this; cases this
      | some b => rw [hg o b (lookup_mem _ _ _ hl)]
    split
    · -- some subranges are missing: merge and fetch
      have hch0 := missing_chain hS' (fun o => (List.lookup o hits0).isNone) (endR - startR) startR endR hSd hEd
      obtain ⟨c1, c2⟩ := mergeRanges_chain (limit := 0) _ hch0
      obtain ⟨d1, d2⟩ := mergeUntil_chain (maxSub := maxSub) (endR + 2) S _ c1
      obtain ⟨f, hf1, hf2, hf5, hf3, hf4⟩ := fetchAll_ok obj G _ ⟨hits0, [], []⟩
        (fun m hm => by have := Chain.mem d1 hm; exact ⟨this.2.1, this.2.2.1, this.2.2.2.1, this.2.2.2.2⟩)
        hgood0 (by intro e he; simp at he)
      refine ⟨f, hf1, finish f hf2 ?_, hf5⟩
      intro o h1 h2 h3
      cases hl : (List.lookup o hits0).isSome with
      | true => exact hf3 o hl
      | false =>
        have hmiss : covered (List.map (fun o => ({ start := o, stop := o + S } : Rng))
            (List.filter (fun o => (List.lookup o hits0).isNone) (offsets S startR endR))) o := by
          refine ⟨⟨o, o + S⟩, ?_, Nat.le_refl _, by simp only; omega⟩
          apply List.mem_map.mpr
          refine ⟨o, List.mem_filter.mpr ⟨(mem_offsets hS' hSd).mpr ⟨h1, h2, h3⟩, ?_⟩, rfl⟩
          cases hv : List.lookup o hits0 with
          | none => rfl
          | some v => rw [hv] at hl; cases hl
        obtain ⟨m, hm, hm1, hm2⟩ := d2 o (c2 o hmiss)
        have hmv := Chain.mem d1 hm
        exact hf4 m hm o ((mem_offsets hS' hmv.2.2.2.1).mpr ⟨hm1, hm2, h3⟩)
    · -- everything was in the cache
      rename_i hfull
      refine ⟨⟨hits0, [], []⟩, rfl, finish _ hgood0 ?_, by intro e he; simp at he⟩
      intro o h1 h2 h3
      have ho := (mem_offsets hS' hSd).mpr ⟨h1, h2, h3⟩
      apply hmem0 o ho
      have := filterMap_full (fun o => Option.map (fun b => (o, b)) (cache o (min (o + S) obj.length)))
        (offsets S startR endR) (by rw [hh0]; omega) o ho
      cases hc : cache o (min (o + S) obj.length) with
      | none => simp [hc] at this
      | some b => rfl
  obtain ⟨f, hf, hcomp, hsto⟩ := key
  rw [hf]
  simp only
  refine ⟨?_, hsto⟩
  have hfuel : endPos - off + 1 ≤ ((endPos : Int) - (off : Int)).toNat + 1 := by omega
  rw [readAll_correct obj hS' hp f.hits hSd hcomp _ off endPos hSle (by omega) hEle hep2 hfuel]
  rw [bucketGetRange_eq, hep]

/-- C14, range reads, the code as it is now: transparent for ALL offsets and lengths (a request
    starting at or past the end of the object is answered by the wrapped bucket itself). -/
theorem C14_getRange : C14_getRange_full true := by
  intro obj S maxSub cache p off len hS hp hlen hon
  by_cases hoff : off ≥ obj.length
  · unfold getRange
    simp [hoff]
  · exact (getRange_inside true obj S maxSub cache p off len hS hp hlen hon hoff).1

/-- F14: the code as it was panics for an offset beyond the object (10-byte object, subrange
    size 16, GetRange(100, 5)), where the wrapped bucket returns an empty reader. -/
theorem C14_unguarded_false : ¬ C14_getRange_full false := by
  intro h
  have := h [0, 1, 2, 3, 4, 5, 6, 7, 8, 9] 16 0 (fun _ _ => none) 512 100 5
    (by decide) (by decide) (by decide) (by intro a b bs h; simp at h)
  have hp : (getRange false [0, 1, 2, 3, 4, 5, 6, 7, 8, 9] 16 0 (fun _ _ => none) 512 100 5).out
      = .error .panic := by rfl
  rw [hp] at this
  cases this

/-- … and was transparent exactly for requests that start inside the object. -/
theorem C14_unguarded_partial (obj : Bytes) (S maxSub : Nat) (cache : Nat → Nat → Option Bytes)
    (p off len : Nat) (hS : S ≥ 1) (hp : p ≥ 1) (hlen : len ≥ 1) (hon : Honest obj cache)
    (hoff : off < obj.length) :
    (getRange false obj S maxSub cache p off len).out = .ok (bucketGetRange obj off len) :=
  (getRange_inside false obj S maxSub cache p off len hS hp hlen hon (by omega)).1

/-- what a read stores into the cache is honest: under the key `(start, end)` exactly `obj[start:end]` -/
theorem C14_stores_honest (obj : Bytes) (S maxSub : Nat) (cache : Nat → Nat → Option Bytes)
    (p off len : Nat) (hS : S ≥ 1) (hp : p ≥ 1) (hlen : len ≥ 1) (hon : Honest obj cache) :
    StoresHonest obj (getRange true obj S maxSub cache p off len).stores := by
  by_cases hoff : off ≥ obj.length
  · unfold getRange
    simp only [hoff, and_self, if_true]
    intro e he
    simp at he
  · exact (getRange_inside true obj S maxSub cache p off len hS hp hlen hon hoff).2

/-! ### histories of reads with a lossy cache -/

structure Read where
  off : Nat
  len : Nat
  p : Nat

/-- all that the caching bucket ever stored -/
abbrev Entries := List ((Nat × Nat) × Bytes)

/-- what the cache answers in one Fetch: any part of what was stored (entries may have been lost,
    evicted, or simply not returned this time) -/
def SubView (entries : Entries) (view : Nat → Nat → Option Bytes) : Prop :=
  ∀ a b bs, view a b = some bs → ((a, b), bs) ∈ entries

/-- run a history: every read sees some sub-view of the entries stored so far -/
def runHistory (obj : Bytes) (S maxSub : Nat) :
    List (Read × (Nat → Nat → Option Bytes)) → Entries → List (Except Err Bytes)
  | [], _ => []
  | (r, view) :: rest, entries =>
    let res := getRange true obj S maxSub view r.p r.off r.len
    res.out :: runHistory obj S maxSub rest (entries ++ res.stores)

/-- the history is well formed: lengths and buffers are positive, every view is a sub-view of the
    entries at that point of the run -/
def HistOK (obj : Bytes) (S maxSub : Nat) :
    List (Read × (Nat → Nat → Option Bytes)) → Entries → Prop
  | [], _ => True
  | (r, view) :: rest, entries =>
    r.len ≥ 1 ∧ r.p ≥ 1 ∧ SubView entries view ∧
      HistOK obj S maxSub rest (entries ++ (getRange true obj S maxSub view r.p r.off r.len).stores)

/-- C14 for histories: whatever was read before and whatever the cache lost in between, every
    read of the history returns the bytes of the wrapped bucket. -/
theorem C14_history (obj : Bytes) (S maxSub : Nat) (hS : S ≥ 1) :
    ∀ (h : List (Read × (Nat → Nat → Option Bytes))) (entries : Entries),
      StoresHonest obj entries → HistOK obj S maxSub h entries →
      runHistory obj S maxSub h entries = h.map fun rv => .ok (bucketGetRange obj rv.1.off rv.1.len)
  | [], _, _, _ => rfl
  | (r, view) :: rest, entries, he, ⟨h1, h2, h3, h4⟩ => by
    have hon : Honest obj view := by
      intro a b bs hv
      exact (he _ (h3 a b bs hv)).2
    have hout := C14_getRange obj S maxSub view r.p r.off r.len hS h2 h1 hon
    have hst := C14_stores_honest obj S maxSub view r.p r.off r.len hS h2 h1 hon
    have he' : StoresHonest obj (entries ++ (getRange true obj S maxSub view r.p r.off r.len).stores) := by
      intro e hm
      rcases List.mem_append.mp hm with h | h
      · exact he e h
      · exact hst e h
    simp only [runHistory, List.map_cons, hout]
    rw [C14_history obj S maxSub hS rest _ he' h4]

/-! ### every verb over one cache keyed by `BucketCacheKey.String` -/

open Thanos.CacheKeys in
/-- cachedAttributes: the size is the object's size, and what is stored is honest -/
theorem kAttrs_ok (w : World) (name : Str) (view : Str → Option Val) (c : KCache)
    (hc : HonestK w c) (hv : SubViewK c view) :
    (kAttrs w name view).1 = (w.obj name).map (·.length) ∧ HonestK w (kAttrs w name view).2.2 := by
  unfold kAttrs
  have wk := wfb_plain w.hash .attrs name (by simp) (by simp) (by simp)
  simp only
  cases hsz : asSize (view (keyOf .attrs name 0 0 [])) with
  | some n =>
    have ht := view_truth hc hv _ wk _ (asSize_some hsz)
    simp only [truth] at ht
    cases ho : w.obj name with
    | none => simp [ho] at ht
    | some b =>
      simp only [ho, Option.map_some, Option.some.injEq, Val.size.injEq] at ht
      subst ht
      exact ⟨rfl, honestK_nil w⟩
  | none =>
    simp only
    cases ho : w.obj name with
    | none => exact ⟨rfl, honestK_nil w⟩
    | some b =>
      refine ⟨rfl, ?_⟩
      intro ks v hm
      simp only [List.mem_singleton, Prod.mk.injEq] at hm
      obtain ⟨rfl, rfl⟩ := hm
      exact ⟨_, wk, rfl, by simp [truth, ho]⟩

open Thanos.CacheKeys in
theorem C14_k_attributes (w : World) (name : Str) (view : Str → Option Val) (c : KCache)
    (hc : HonestK w c) (hv : SubViewK c view) :
    (kAttributes w name view).ans = bAttributes w name ∧ HonestK w (c ++ (kAttributes w name view).stores) := by
  obtain ⟨h1, h2⟩ := kAttrs_ok w name view c hc hv
  unfold kAttributes bAttributes
  cases hk : kAttrs w name view with
  | mk sz rest =>
    obtain ⟨calls, st⟩ := rest
    rw [hk] at h1 h2
    simp only at h1 h2
    cases ho : w.obj name with
    | none =>
      rw [ho] at h1; simp only [Option.map_none] at h1; subst h1
      exact ⟨rfl, honestK_append hc h2⟩
    | some b =>
      rw [ho] at h1; simp only [Option.map_some] at h1; subst h1
      exact ⟨rfl, honestK_append hc h2⟩

open Thanos.CacheKeys in
/-- GetRange through the caching bucket, with the cache addressed by key strings -/
theorem C14_k_getRange (w : World) (S maxSub p : Nat) (name : Str) (off len : Nat)
    (view : Str → Option Val) (c : KCache) (hS : S ≥ 1) (hp : p ≥ 1) (hlen : len ≥ 1)
    (hc : HonestK w c) (hv : SubViewK c view) :
    (kGetRange w S maxSub p name off len view).ans = bGetRange w name off len ∧
    HonestK w (c ++ (kGetRange w S maxSub p name off len view).stores) := by
  obtain ⟨h1, h2⟩ := kAttrs_ok w name view c hc hv
  unfold kGetRange bGetRange
  cases hk : kAttrs w name view with
  | mk sz rest =>
    obtain ⟨calls, st⟩ := rest
    rw [hk] at h1 h2
    simp only at h1 h2
    cases ho : w.obj name with
    | none =>
      rw [ho] at h1; simp only [Option.map_none] at h1; subst h1
      exact ⟨rfl, honestK_append hc h2⟩
    | some b =>
      rw [ho] at h1; simp only [Option.map_some] at h1; subst h1
      simp only
      -- the subrange cache seen through the key strings is honest
      have hon : Honest b (fun a e => if a < e then asBytes (view (keyOf .subrange name a e [])) else none) := by
        intro a e bs hcache
        by_cases hae : a < e
        · simp only [hae, if_true] at hcache
          have ht := view_truth hc hv _ (wfb_subrange w.hash name a e hae) _ (asBytes_some hcache)
          simpa [truth, ho] using ht.symm
        · simp [hae] at hcache
      have hout := C14_getRange b S maxSub _ p off len hS hp hlen hon
      have hst := C14_stores_honest b S maxSub _ p off len hS hp hlen hon
      simp only [hout]
      refine ⟨trivial, honestK_append hc (honestK_append h2 ?_)⟩
      intro ks v hm
      simp only [List.mem_map] at hm
      obtain ⟨e, he, heq⟩ := hm
      simp only [Prod.mk.injEq] at heq
      obtain ⟨rfl, rfl⟩ := heq
      obtain ⟨hlt, hdata⟩ := hst e he
      exact ⟨_, wfb_subrange w.hash name e.1.1 e.1.2 hlt, rfl, by simp [truth, ho, hdata]⟩

open Thanos.CacheKeys in
/-- Get (whole, partial or exact reads; present or absent object; any size limit) -/
theorem C14_k_get (w : World) (maxSize : Nat) (name : Str) (mode : ReadMode)
    (view : Str → Option Val) (c : KCache) (hc : HonestK w c) (hv : SubViewK c view) :
    (kGet w maxSize name mode view).ans = bGet w name mode ∧
    HonestK w (c ++ (kGet w maxSize name mode view).stores) := by
  have wc := wfb_plain w.hash .content name (by simp) (by simp) (by simp)
  have we := wfb_plain w.hash .exists_ name (by simp) (by simp) (by simp)
  -- what a miss stores is honest
  have hmiss : ∀ b, w.obj name = some b →
      HonestK w ((keyOf .exists_ name 0 0 [], .flag true) ::
        (if mode = ReadMode.full ∧ b.length ≤ maxSize then [(keyOf .content name 0 0 [], .bytes b)] else [])) := by
    intro b ho ks v hm
    simp only [List.mem_cons] at hm
    rcases hm with hm | hm
    · simp only [Prod.mk.injEq] at hm
      obtain ⟨rfl, rfl⟩ := hm
      exact ⟨_, we, rfl, by simp [truth, ho]⟩
    · split at hm
      · simp only [List.mem_singleton, Prod.mk.injEq] at hm
        obtain ⟨rfl, rfl⟩ := hm
        exact ⟨_, wc, rfl, by simp [truth, ho]⟩
      · simp at hm
  have habsent : w.obj name = none → HonestK w [(keyOf .exists_ name 0 0 [], .flag false)] := by
    intro ho ks v hm
    simp only [List.mem_singleton, Prod.mk.injEq] at hm
    obtain ⟨rfl, rfl⟩ := hm
    exact ⟨_, we, rfl, by simp [truth, ho]⟩
  unfold kGet bGet
  simp only
  cases hvc : asBytes (view (keyOf .content name 0 0 [])) with
  | some b =>
    have ht := view_truth hc hv _ wc _ (asBytes_some hvc)
    simp only [truth] at ht
    cases ho : w.obj name with
    | none => simp [ho] at ht
    | some b' =>
      simp only [ho, Option.map_some, Option.some.injEq, Val.bytes.injEq] at ht
      subst ht
      exact ⟨rfl, by simpa using hc⟩
  | none =>
    simp only
    cases hve : asFlag (view (keyOf .exists_ name 0 0 [])) with
    | some e =>
      have ht := view_truth hc hv _ we _ (asFlag_some hve)
      simp only [truth, Option.some.injEq, Val.flag.injEq] at ht
      cases ho : w.obj name with
      | none =>
        rw [ho] at ht; simp only [Option.isSome_none] at ht; subst ht
        exact ⟨rfl, by simpa using hc⟩
      | some b =>
        rw [ho] at ht; simp only [Option.isSome_some] at ht; subst ht
        exact ⟨rfl, honestK_append hc (hmiss b ho)⟩
    | none =>
      simp only
      cases ho : w.obj name with
      | none => exact ⟨rfl, honestK_append hc (habsent ho)⟩
      | some b => exact ⟨rfl, honestK_append hc (hmiss b ho)⟩

open Thanos.CacheKeys in
/-- the content of an object enters the cache only by a complete read of an object that fits -/
theorem C14_k_get_full_only (w : World) (maxSize : Nat) (name : Str) (mode : ReadMode)
    (view : Str → Option Val) (b : Bytes)
    (h : (keyOf .content name 0 0 [], Val.bytes b) ∈ (kGet w maxSize name mode view).stores) :
    mode = .full ∧ b.length ≤ maxSize ∧ w.obj name = some b := by
  unfold kGet at h
  simp only at h
  cases hvc : asBytes (view (keyOf .content name 0 0 [])) with
  | some b' => simp [hvc] at h
  | none =>
    simp only [hvc] at h
    cases ho : w.obj name with
    | none =>
      cases hve : asFlag (view (keyOf .exists_ name 0 0 [])) with
      | none => simp [hve, ho] at h
      | some e => cases e <;> simp [hve, ho] at h
    | some b' =>
      have hcore : (keyOf .content name 0 0 [], Val.bytes b) ∈
          ((keyOf .exists_ name 0 0 [], Val.flag true) ::
            (if mode = ReadMode.full ∧ b'.length ≤ maxSize then [(keyOf .content name 0 0 [], Val.bytes b')] else [])) := by
        cases hve : asFlag (view (keyOf .exists_ name 0 0 [])) with
        | none => simpa [hve, ho] using h
        | some e => cases e <;> simp [hve, ho] at h ⊢ <;> exact h
      simp only [List.mem_cons, Prod.mk.injEq] at hcore
      rcases hcore with ⟨_, hbad⟩ | hcore
      · cases hbad
      · split at hcore
        · rename_i hcond
          simp only [List.mem_singleton, Prod.mk.injEq, Val.bytes.injEq] at hcore
          exact ⟨hcond.1, by rw [hcore.2]; exact hcond.2, by rw [hcore.2]⟩
        · simp at hcore

open Thanos.CacheKeys in
theorem C14_k_exists (w : World) (name : Str) (view : Str → Option Val) (c : KCache)
    (hc : HonestK w c) (hv : SubViewK c view) :
    (kExists w name view).ans = .bool (w.obj name).isSome ∧ HonestK w (c ++ (kExists w name view).stores) := by
  have we := wfb_plain w.hash .exists_ name (by simp) (by simp) (by simp)
  unfold kExists
  simp only
  cases hve : asFlag (view (keyOf .exists_ name 0 0 [])) with
  | some e =>
    have ht := view_truth hc hv _ we _ (asFlag_some hve)
    simp only [truth, Option.some.injEq, Val.flag.injEq] at ht
    subst ht
    exact ⟨rfl, by simpa using hc⟩
  | none =>
    refine ⟨rfl, honestK_append hc ?_⟩
    intro ks v hm
    simp only [List.mem_singleton, Prod.mk.injEq] at hm
    obtain ⟨rfl, rfl⟩ := hm
    exact ⟨_, we, rfl, by simp [truth]⟩

open Thanos.CacheKeys in
/-- Iter, recursive or not: the listing of the wrapped bucket for that directory and that flavour
    — the two flavours have different keys, so one never answers for the other -/
theorem C14_k_iter (w : World) (dir : Str) (recursive : Bool) (view : Str → Option Val) (c : KCache)
    (hc : HonestK w c) (hv : SubViewK c view) :
    (kIter w dir recursive view).ans = .names (w.list dir recursive) ∧
    HonestK w (c ++ (kIter w dir recursive view).stores) := by
  have wi := wfb_iter w.hash dir recursive
  have htruth : truth w ⟨if recursive then .iterRecursive else .iter, dir, 0, 0, w.hash⟩ =
      some (.names (w.list dir recursive)) := by
    cases recursive <;> simp [truth]
  unfold kIter
  simp only
  cases hvi : asNames (view (keyOf (if recursive then .iterRecursive else .iter) dir 0 0 w.hash)) with
  | some l =>
    have ht := view_truth hc hv _ wi _ (asNames_some hvi)
    rw [htruth] at ht
    simp only [Option.some.injEq, Val.names.injEq] at ht
    subst ht
    exact ⟨rfl, by simpa using hc⟩
  | none =>
    refine ⟨rfl, honestK_append hc ?_⟩
    intro ks v hm
    simp only [List.mem_singleton, Prod.mk.injEq] at hm
    obtain ⟨rfl, rfl⟩ := hm
    exact ⟨_, wi, rfl, htruth⟩

/-- the history of views is well formed: every view shows part of what is stored at that point,
    lengths and read buffers are positive -/
def KHistOK (w : World) (cfg : Cfg) : List (KOp × (Thanos.CacheKeys.Str → Option Val)) → KCache → Prop
  | [], _ => True
  | (op, view) :: rest, c =>
    SubViewK c view ∧
    (∀ name off len p, op = .getRange name off len p → len ≥ 1 ∧ p ≥ 1) ∧
    KHistOK w cfg rest (c ++ (kStep w cfg op view).stores)

/-- **C14 for histories of every verb**: range reads, full / partial reads, existence, attributes,
    recursive and non-recursive listings, on present and absent objects of any names, interleaved
    in any order, through a cache that loses or evicts entries at will — every answer is the
    answer of the wrapped bucket. -/
theorem C14_k_history (w : World) (cfg : Cfg) (hS : cfg.S ≥ 1) :
    ∀ (h : List (KOp × (Thanos.CacheKeys.Str → Option Val))) (c : KCache), HonestK w c → KHistOK w cfg h c →
      kRun w cfg h c = h.map fun ov => bStep w ov.1
  | [], _, _, _ => rfl
  | (op, view) :: rest, c, hc, ⟨hv, hpos, hrest⟩ => by
    have hstep : (kStep w cfg op view).ans = bStep w op ∧ HonestK w (c ++ (kStep w cfg op view).stores) := by
      cases op with
      | getRange name off len p =>
        obtain ⟨h1, h2⟩ := hpos name off len p rfl
        exact C14_k_getRange w cfg.S cfg.maxSub p name off len view c hS h2 h1 hc hv
      | get name mode => exact C14_k_get w cfg.maxGet name mode view c hc hv
      | exists_ name => exact C14_k_exists w name view c hc hv
      | attributes name => exact C14_k_attributes w name view c hc hv
      | iter dir recursive => exact C14_k_iter w dir recursive view c hc hv
    simp only [kRun, List.map_cons, hstep.1]
    rw [C14_k_history w cfg hS rest _ hstep.2 hrest]

/-- the seeded defect in one sentence: with one key for both flavours of Iter, a cached
    non-recursive listing answers a recursive one -/
example : Thanos.CacheKeys.bucketKeyString ⟨.iter, [97], 0, 0, [104]⟩ ≠
    Thanos.CacheKeys.bucketKeyString ⟨.iterRecursive, [97], 0, 0, [104]⟩ := by decide

/-! ### the cache keys of the caching bucket -/

/-- `BucketCacheKey.String` is injective on the keys the caching bucket builds (any object names,
    also names containing ':'): two different (verb, name, range) never share a key, so the cache
    cannot answer one of them with the other's data. -/
theorem C14_bucket_key_inj (H : Thanos.CacheKeys.Str) (k1 k2 : Thanos.CacheKeys.BucketKey)
    (w1 : Thanos.CacheKeys.WFB H k1) (w2 : Thanos.CacheKeys.WFB H k2)
    (h : Thanos.CacheKeys.bucketKeyString k1 = Thanos.CacheKeys.bucketKeyString k2) : k1 = k2 :=
  Thanos.CacheKeys.bucketKey_inj H k1 k2 w1 w2 h

example : Thanos.CacheKeys.bucketKeyString ⟨.subrange, [97, 58, 49], 16, 32, []⟩ =
    [115, 117, 98, 114, 97, 110, 103, 101, 58, 97, 58, 49, 58, 49, 54, 58, 51, 50] := by decide

/-! ### regenerated facts -/

/-- the guard in the source is the one of `getRange true`; ranges are merged when the gap is at
    most `limit`; the merge loop starts at the subrange size and doubles; a fetched subrange is
    kept (and stored) only when the key is not in `hits` yet; Iter computes its cache key AFTER the
    verb was adjusted for recursive listings (as `kIter` does) -/
theorem C14_source_facts :
    Thanos.Facts.cachedGetRangeGuard = "offset >= attrs.Size" ∧
    Thanos.Facts.mergeRangesCond = "(input[ix].start - input[last].end) <= limit" ∧
    Thanos.Facts.mergeUntilLoop =
      "limit := cfg.SubrangeSize; cfg.MaxSubRequests > 0 && len(missing) > cfg.MaxSubRequests; limit = limit * 2" ∧
    Thanos.Facts.iterKeyOrder = ["verb=cachekey.IterRecursiveVerb", "key=iterVerb.String()"] ∧
    Thanos.Facts.subrangeStoreCond = "_, ok := hits[key]; !ok" ∧
    Thanos.Facts.lastSubrangeConds =
      ["if:offset >= attrs.Size", "if:offset+length > attrs.Size", "if:endRange > attrs.Size",
       "if:lastSubrangeOffset >= m.end", "if:off == lastSubrangeOffset"] := by decide

/-! ### non-vacuity -/

-- an 18-byte object, subrange size 4, a cache that holds the 2nd and 4th subrange: the read is
-- served from two cache hits and two bucket reads (merged with limit 0) and returns obj[1:17)
example : (getRange true (List.range 18) 4 0
    (fun a b => if (a, b) = (4, 8) ∨ (a, b) = (12, 16) then some (slice (List.range 18) a b) else none)
    3 1 16).out = .ok (List.range 17 |>.drop 1) := by rfl
example : (getRange true (List.range 18) 4 0
    (fun a b => if (a, b) = (4, 8) ∨ (a, b) = (12, 16) then some (slice (List.range 18) a b) else none)
    3 1 16).reads = [(0, 4), (8, 4), (16, 4)] := by rfl
-- with at most one sub-request the three missing ranges are merged into one
example : (getRange true (List.range 18) 4 1
    (fun a b => if (a, b) = (4, 8) ∨ (a, b) = (12, 16) then some (slice (List.range 18) a b) else none)
    3 1 16).reads = [(0, 20)] := by rfl
example : Honest (List.range 18)
    (fun a b => if (a, b) = (4, 8) ∨ (a, b) = (12, 16) then some (slice (List.range 18) a b) else none) := by
  intro a b bs h
  simp only at h
  split at h
  · simp only [Option.some.injEq] at h; exact h.symm
  · cases h

end Thanos.CachingBucket
