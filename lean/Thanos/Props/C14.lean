import Thanos.Model.CachingBucket
import Thanos.Generated.Facts
/-
  C14 — Caching bucket is transparent for immutable objects.
-/
namespace Thanos.CachingBucket

/-- an honest cache returns, for a subrange key, nothing or the object's bytes of that range -/
def Honest (obj : Bytes) (cache : Nat → Nat → Option Bytes) : Prop :=
  ∀ a b bs, cache a b = some bs → bs = slice obj a b

/-- C14 for range reads at full strength: for every object, subrange size, sub-request limit,
    honest cache (any losses), read-buffer size, offset and length, the bytes served are the
    bytes the wrapped bucket serves. -/
def C14_getRange_full (guard : Bool) : Prop :=
  ∀ (obj : Bytes) (S maxSub : Nat) (cache : Nat → Nat → Option Bytes) (p off len : Nat),
    S ≥ 1 → p ≥ 1 → len ≥ 1 → Honest obj cache →
    (getRange guard obj S maxSub cache p off len).out = .ok (bucketGetRange obj off len)

/-- F14: the code as it was panics for an offset beyond the object (10-byte object, subrange
    size 16, GetRange(100, 5)), where the wrapped bucket returns an empty reader. -/
theorem C14_unguarded_false : ¬ C14_getRange_full false := by
  intro h
  have := h [0, 1, 2, 3, 4, 5, 6, 7, 8, 9] 16 0 (fun _ _ => none) 512 100 5
    (by decide) (by decide) (by decide) (by intro a b bs h; simp at h)
  have hp : (getRange false [0, 1, 2, 3, 4, 5, 6, 7, 8, 9] 16 0 (fun _ _ => none) 512 100 5).out
      = .error .panic := by rfl
  rw [hp] at this
  cases this

end Thanos.CachingBucket
