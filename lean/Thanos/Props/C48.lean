import Thanos.Model.Rewrite
import Thanos.Lemmas.Rewrite
import Thanos.Generated.Facts
/-
  C48 — Bucket rewrite deletes exactly the requested data.

  `specSeries` / `rewriteSpec` is the specification; `codeSeries skipEmpty` / `rewriteCode` follows
  modifiers.go chunk by chunk (`skipEmpty = false`: the chunk iterator as it was, which ends a
  series silently at a chunk emptied by several intervals; `true`: after the repair).
-/
namespace Thanos.Rewrite

/-- a block as the TSDB holds it: chunks not empty with increasing timestamps, intervals of the
    requests well formed (mint ≤ maxt) -/
def BlockWF (block : List Series) : Prop := ∀ s ∈ block, ∀ c ∈ s.chunks, ChunkWF c
def ReqsWF (reqs : List Request) : Prop := ∀ r ∈ reqs, ∀ i ∈ r.intervals, i.WF

/-! ### the specification has the property -/

/-- **keep**: a sample of a series survives when no matching request asks for the whole series and
    no interval of a matching request contains its timestamp (in particular: when no request
    matches the series at all). -/
theorem C48_keep (reqs : List Request) (s : Series) (c : Chunk) (x : Sample) (hc : c ∈ s.chunks) (hx : x ∈ c)
    (hwhole : ∀ r ∈ reqs, reqMatches s.labels r = true → r.intervals ≠ [])
    (hout : ∀ r ∈ reqs, reqMatches s.labels r = true → ∀ i ∈ r.intervals, ¬ (i.mint ≤ x.1 ∧ x.1 ≤ i.maxt)) :
    ∃ s', specSeries reqs s = some s' ∧ s'.labels = s.labels ∧ ∃ c' ∈ s'.chunks, x ∈ c' := by
  have hw : wholeSeries reqs s.labels = false := by
    simp only [wholeSeries, Bool.eq_false_iff, ne_eq, List.any_eq_true, not_exists, not_and]
    intro r hr
    have := List.mem_filter.mp hr
    have := hwhole r this.1 this.2
    cases h : r.intervals <;> simp_all
  have hcov : covered (requested reqs s.labels) x.1 = false := by
    rw [Bool.eq_false_iff]
    intro h
    obtain ⟨i, hi, h1⟩ := (covered_iff _ _).mp h
    simp only [requested, List.mem_flatMap] at hi
    obtain ⟨r, hr, hir⟩ := hi
    have := List.mem_filter.mp hr
    exact hout r this.1 this.2 i hir h1
  have hmem : x ∈ c.filter (fun y => !covered (requested reqs s.labels) y.1) := by
    simp [List.mem_filter, hx, hcov]
  have hcs : (c.filter fun y => !covered (requested reqs s.labels) y.1) ∈
      (s.chunks.map fun c => c.filter fun y => !covered (requested reqs s.labels) y.1).filter (!·.isEmpty) := by
    refine List.mem_filter.mpr ⟨List.mem_map.mpr ⟨c, hc, rfl⟩, ?_⟩
    cases hf : c.filter (fun y => !covered (requested reqs s.labels) y.1) with
    | nil => rw [hf] at hmem; simp at hmem
    | cons _ _ => simp
  unfold specSeries
  simp only [hw, Bool.false_eq_true, if_false]
  have hne : ((s.chunks.map fun c => c.filter fun y => !covered (requested reqs s.labels) y.1).filter (!·.isEmpty)).isEmpty = false := by
    cases hl : (s.chunks.map fun c => c.filter fun y => !covered (requested reqs s.labels) y.1).filter (!·.isEmpty) with
    | nil => rw [hl] at hcs; simp at hcs
    | cons _ _ => simp
  simp only [hne, Bool.false_eq_true, if_false]
  exact ⟨_, rfl, rfl, _, hcs, hmem⟩

/-- **remove**: when a request matches a series (every matcher's label is present and matches), the
    series is gone if the request has no intervals, and otherwise no sample with a timestamp in
    one of its intervals is left. -/
theorem C48_remove (reqs : List Request) (s : Series) (r : Request) (hr : r ∈ reqs)
    (hm : reqMatches s.labels r = true) :
    (r.intervals = [] → specSeries reqs s = none) ∧
    (∀ s', specSeries reqs s = some s' → ∀ c' ∈ s'.chunks, ∀ x ∈ c', ∀ i ∈ r.intervals,
        ¬ (i.mint ≤ x.1 ∧ x.1 ≤ i.maxt)) := by
  constructor
  · intro he
    have : wholeSeries reqs s.labels = true := by
      simp only [wholeSeries, List.any_eq_true]
      exact ⟨r, List.mem_filter.mpr ⟨hr, hm⟩, by simp [he]⟩
    simp [specSeries, this]
  · intro s' hs' c' hc' x hx i hi hin
    unfold specSeries at hs'
    by_cases hw : wholeSeries reqs s.labels = true
    · simp [hw] at hs'
    · simp only [hw, Bool.false_eq_true, if_false] at hs'
      split at hs'
      · simp at hs'
      · simp only [Option.some.injEq] at hs'
        subst hs'
        simp only [List.mem_filter, List.mem_map] at hc'
        obtain ⟨⟨c, _, rfl⟩, _⟩ := hc'
        have := (List.mem_filter.mp hx).2
        have hcov : covered (requested reqs s.labels) x.1 = true := by
          refine (covered_iff _ _).mpr ⟨i, ?_, hin⟩
          simp only [requested, List.mem_flatMap]
          exact ⟨r, List.mem_filter.mpr ⟨hr, hm⟩, hi⟩
        simp [hcov] at this

/-- nothing is invented: every sample left was a sample of the series, in the same chunk order -/
theorem C48_no_new (reqs : List Request) (s s' : Series) (h : specSeries reqs s = some s') :
    s'.labels = s.labels ∧ ∀ c' ∈ s'.chunks, ∃ c ∈ s.chunks, c'.Sublist c := by
  unfold specSeries at h
  split at h
  · simp at h
  · dsimp only at h
    split at h
    · simp at h
    · simp only [Option.some.injEq] at h
      subst h
      refine ⟨rfl, ?_⟩
      intro c' hc'
      simp only [List.mem_filter, List.mem_map] at hc'
      obtain ⟨⟨c, hc, rfl⟩, _⟩ := hc'
      exact ⟨c, hc, List.filter_sublist⟩

/-! ### the code refines the specification -/

theorem filterMap_congr' {α β : Type} {f g : α → Option β} : ∀ (l : List α), (∀ x ∈ l, f x = g x) →
    l.filterMap f = l.filterMap g
  | [], _ => rfl
  | a :: l, h => by
    simp only [List.filterMap_cons, h a (by simp)]
    rw [filterMap_congr' l (fun x hx => h x (by simp [hx]))]

theorem covered_merged (reqs : List Request) (hw : ReqsWF reqs) (l : LSet) (t : Int) :
    covered (mergedIntervals reqs l) t = covered (requested reqs l) t := by
  have hwf : ∀ i ∈ requested reqs l, i.WF := by
    intro i hi
    simp only [requested, List.mem_flatMap] at hi
    obtain ⟨r, hr, hir⟩ := hi
    exact hw r (List.mem_filter.mp hr).1 i hir
  have := covered_foldl_addIv t (requested reqs l) [] hwf (by simp)
  rw [Bool.eq_iff_iff]
  unfold mergedIntervals
  rw [this]
  simp [covered]

/-- **The repaired code is the specification**, series by series, for every well-formed block and
    every list of requests (any number of series, chunks, samples, requests, intervals). -/
theorem C48_code_eq_spec (reqs : List Request) (hr : ReqsWF reqs) (block : List Series) (hb : BlockWF block) :
    rewriteCode true reqs block = rewriteSpec reqs block := by
  unfold rewriteCode rewriteSpec
  apply filterMap_congr'
  intro s hs
  unfold codeSeries specSeries
  by_cases hw : wholeSeries reqs s.labels = true
  · simp [hw]
  · simp only [hw, Bool.false_eq_true, if_false]
    rw [codeChunks_eq_spec _ _ (hb s hs)]
    have : specChunks (mergedIntervals reqs s.labels) s.chunks =
        (s.chunks.map fun c => c.filter fun x => !covered (requested reqs s.labels) x.1).filter (!·.isEmpty) := by
      unfold specChunks
      congr 1
      apply List.map_congr_left
      intro c _
      apply List.filter_congr
      intro x _
      rw [covered_merged reqs hr]
    rw [this]

/-- C48 for the code selected by `skipEmpty`, at full strength: it computes the specification -/
def C48_full (skipEmpty : Bool) : Prop :=
  ∀ (reqs : List Request) (block : List Series), ReqsWF reqs → BlockWF block →
    rewriteCode skipEmpty reqs block = rewriteSpec reqs block

theorem C48_fixed : C48_full true := fun reqs block hr hb => C48_code_eq_spec reqs hr block hb

/-- As the chunk iterator was, the property is false: series {a="1"} with chunks [1, 10] and
    [20, 30], delete [0,2] and [9,11] ⇒ the first chunk loses both samples although neither interval
    covers it, the iteration ends there without an error, and the samples 20 and 30 — outside
    every requested interval — are gone with the whole series. -/
theorem C48_full_false : ¬ C48_full false := by
  intro h
  have := h [⟨[⟨"a", fun v => v == "1"⟩], [⟨0, 2⟩, ⟨9, 11⟩]⟩]
    [⟨[("a", "1")], [[(1, 1), (10, 10)], [(20, 20), (30, 30)]]⟩]
    (by intro r hr i hi; simp at hr; subst hr; simp at hi; rcases hi with rfl | rfl <;> (unfold Interval.WF; decide))
    (by
      intro s hs c hc
      simp at hs; subst hs
      simp at hc
      rcases hc with rfl | rfl <;> exact ⟨by simp, by decide⟩)
  revert this
  decide

/-- the shortcut "the chunk lies inside one interval ⇒ drop it without decoding" is sound: every
    sample of such a chunk is requested -/
theorem subrange_shortcut_sound (ivs : List Interval) (c : Chunk) (hc : ChunkWF c) (mn mx : Int)
    (hmn : chunkMin c = some mn) (hmx : chunkMax c = some mx)
    (h : ivs.any (fun i => i.has mn && i.has mx) = true) : ∀ x ∈ c, covered ivs x.1 = true := by
  intro x hx
  obtain ⟨mn', mx', h1, h2, hb⟩ := chunk_bounds c hc
  rw [hmn] at h1; rw [hmx] at h2
  cases h1; cases h2
  obtain ⟨i, hi, h⟩ := List.any_eq_true.mp h
  simp only [Bool.and_eq_true, has_iff] at h
  have := hb x hx
  exact (covered_iff ivs x.1).mpr ⟨i, hi, by omega, by omega⟩

/-! ### native histogram chunks -/

/-- when the encoding-aware chunk loop does not panic, it computes — encodings aside — what the
    float loop computes (hence the specification's chunks) -/
theorem codeChunksK_ok (ivs : List Interval) : ∀ (kcs out : List KChunk), codeChunksK ivs kcs = some out →
    out.map (·.2) = codeChunks true ivs (kcs.map (·.2)) := by
  intro kcs
  induction kcs with
  | nil => intro out h; simp [codeChunksK] at h; subst h; simp [codeChunks]
  | cons kc kcs ih =>
    intro out h
    obtain ⟨hist, c⟩ := kc
    unfold codeChunksK at h
    simp only [List.map_cons]
    unfold codeChunks
    cases hmn : chunkMin c with
    | none => simp only [hmn] at h ⊢; exact ih out h
    | some mn =>
      cases hmx : chunkMax c with
      | none => simp only [hmn, hmx] at h ⊢; exact ih out h
      | some mx =>
        simp only [hmn, hmx] at h ⊢
        split at h
        · rename_i hsub; simp only [hsub, if_true]; exact ih out h
        · rename_i hsub
          simp only [hsub, if_false]
          split at h
          · rename_i hov
            simp only [hov, if_true]
            cases hr : codeChunksK ivs kcs with
            | none => simp [hr] at h
            | some rest =>
              simp only [hr, Option.map_some, Option.some.injEq] at h
              subst h
              simp [ih rest hr]
          · rename_i hov
            simp only [hov, if_false]
            split at h
            · rename_i hemp; simp only [hemp, if_true]; exact ih out h
            · rename_i hemp
              simp only [hemp, if_false]
              split at h
              · cases h
              · cases hr : codeChunksK ivs kcs with
                | none => simp [hr] at h
                | some rest =>
                  simp only [hr, Option.map_some, Option.some.injEq] at h
                  subst h
                  simp [ih rest hr]

/-- float chunks never make the loop panic -/
theorem codeChunksK_float (ivs : List Interval) : ∀ (kcs : List KChunk), (∀ kc ∈ kcs, kc.1 = false) →
    ∃ out, codeChunksK ivs kcs = some out := by
  intro kcs
  induction kcs with
  | nil => intro _; exact ⟨[], rfl⟩
  | cons kc kcs ih =>
    intro hf
    obtain ⟨hist, c⟩ := kc
    have hh : hist = false := hf (hist, c) (by simp)
    subst hh
    obtain ⟨rest, hr⟩ := ih (fun k hk => hf k (by simp [hk]))
    unfold codeChunksK
    cases chunkMin c <;> cases chunkMax c <;> simp only [hr] <;> (try exact ⟨rest, rfl⟩)
    split
    · exact ⟨rest, rfl⟩
    · split
      · exact ⟨_, rfl⟩
      · split
        · exact ⟨rest, rfl⟩
        · simp

/-- C48 for blocks with native histogram chunks, at full strength: the rewrite does not panic -/
def C48_hist_full : Prop :=
  ∀ (reqs : List Request) (block : List KSeries), ReqsWF reqs → (rewriteCodeK reqs block).isSome = true

/-- … is false: a histogram chunk [1, 10] with the interval [0, 2] has to be re-encoded, and
    `delChunkSeriesIterator.Next` calls `At()` on a histogram iterator (known limitation, the
    iterator carries a TODO for native histograms). -/
theorem C48_hist_full_false : ¬ C48_hist_full := by
  intro h
  have := h [⟨[⟨"a", fun v => v == "1"⟩], [⟨0, 2⟩]⟩] [⟨[("a", "1")], [(true, [(1, 1), (10, 10)])]⟩]
    (by intro r hr i hi; simp at hr; subst hr; simp at hi; subst hi; unfold Interval.WF; decide)
  revert this
  decide

/-- … and whenever the rewrite of a block with histogram chunks does not panic, every series it
    writes is — encodings aside — what the float rewrite writes (hence the specification's). -/
theorem C48_hist_partial (reqs : List Request) (s : KSeries) (r : Option KSeries)
    (h : codeSeriesK reqs s = some r) : r.map (·.erase) = codeSeries true reqs s.erase := by
  unfold codeSeriesK at h
  unfold codeSeries
  simp only [KSeries.erase]
  split at h
  · rename_i hw; simp only [Option.some.injEq] at h; subst h; simp [hw]
  · rename_i hw
    simp only [hw, Bool.false_eq_true, if_false]
    cases hc : codeChunksK (mergedIntervals reqs s.labels) s.chunks with
    | none => simp [hc] at h
    | some cs =>
      simp only [hc, Option.some.injEq] at h
      subst h
      have := codeChunksK_ok _ _ _ hc
      simp only [← this]
      cases cs with
      | nil => simp
      | cons _ _ => simp [KSeries.erase]

/-- Regenerated obligation: what `delChunkSeriesIterator.Next` does when the deleted iterator of a
    chunk yields no sample: it goes on with the next chunk (`Driver/Misc.lean: rwSkipEmpty = true`,
    so `C48_fixed` is the theorem about the code as it is now; before the repair the branch ended
    in `return false` with a nil error). -/
theorem C48_empty_chunk_fact : Thanos.Facts.rewriteEmptyChunkAction = "continue" := by decide

-- non-vacuity
example : rewriteSpec [⟨[⟨"a", fun v => v == "1"⟩], [⟨0, 2⟩, ⟨9, 11⟩]⟩]
    [⟨[("a", "1")], [[(1, 1), (10, 10)], [(20, 20), (30, 30)]]⟩] =
    [⟨[("a", "1")], [[(20, 20), (30, 30)]]⟩] := by decide
example : rewriteCode false [⟨[⟨"a", fun v => v == "1"⟩], [⟨0, 2⟩, ⟨9, 11⟩]⟩]
    [⟨[("a", "1")], [[(1, 1), (10, 10)], [(20, 20), (30, 30)]]⟩] = [] := by decide
example : reqMatches [("a", "1")] ⟨[⟨"b", fun v => v != "x"⟩], []⟩ = false := by decide
example : addIv ⟨3, 4⟩ [⟨1, 2⟩, ⟨6, 7⟩] = [⟨1, 4⟩, ⟨6, 7⟩] := by decide
example : codeChunksK [⟨0, 12⟩] [(true, [(1, 1), (10, 10)]), (false, [(20, 20)])] = some [(false, [(20, 20)])] := by decide
example : codeChunksK [⟨0, 2⟩] [(true, [(1, 1), (10, 10)])] = none := by decide

end Thanos.Rewrite
