import Thanos.Model.Gate
import Thanos.Generated.Facts
/-
  C24 — The remote-write concurrency gate is never exceeded.

  "With a maximum write concurrency configured, no more than that many remote-write requests are
  processed at the same time, also when clients give up while waiting for a slot, and waiting
  requests never crash the receiver."

  The model (Model/Gate.lean) is the token bookkeeping of the gate (buffered channel, in-flight
  gauge) driven by the skeleton of the two HTTP entry points; the theorems quantify over every
  schedule of arrivals, acquisitions, cancellations while waiting and completions (any list of
  events, any capacity).  What the theorems hinge on in the source — whether the deferred `Done`
  is registered before or after the error check of `Start` — is a regenerated fact.
-/
namespace Thanos.Gate

/-- C24 at full strength for the skeleton selected by `doneFirst`: after every schedule (hence
    after every prefix of every schedule) at most `cap` requests are inside the write path, the
    high-water mark never exceeded `cap`, and `gate.Done` never panicked. -/
def C24_full (doneFirst : Bool) : Prop := ∀ (cap : Nat) (evs : List Ev), Safe (run doneFirst cap evs)

/-- the invariant of the repaired skeleton: tokens = running requests = gauge -/
def Inv (s : St) : Prop :=
  s.held = s.running ∧ s.held ≤ s.cap ∧ s.maxRunning ≤ s.cap ∧ s.panics = 0 ∧ s.gauge = (s.held : Int)

theorem inv_init (cap : Nat) : Inv (St.init cap) := by simp [Inv, St.init]

theorem inv_enter {s : St} (h : Inv s) (hlt : s.held < s.cap) : Inv (enter s) := by
  obtain ⟨h1, h2, h3, h4, h5⟩ := h
  refine ⟨?_, ?_, ?_, ?_, ?_⟩
  · simp only [enter]; omega
  · simp only [enter]; omega
  · simp only [enter]; exact Nat.max_le.mpr ⟨h3, by omega⟩
  · simp only [enter]; exact h4
  · simp only [enter]; omega

theorem inv_step {s : St} (h : Inv s) (e : Ev) : Inv (step false s e) := by
  have h' := h
  obtain ⟨h1, h2, h3, h4, h5⟩ := h
  cases e with
  | arrive =>
    simp only [step]
    split
    · exact inv_enter h' (by assumption)
    · exact ⟨h1, h2, h3, h4, h5⟩
  | arriveCancelled => simpa [step] using h'
  | acquire =>
    simp only [step]
    split
    · rename_i hc
      exact inv_enter (s := { s with waiting := s.waiting - 1 }) ⟨h1, h2, h3, h4, h5⟩ hc.2
    · exact h'
  | cancel =>
    simp only [step]
    split
    · exact h'
    · exact ⟨h1, h2, h3, h4, h5⟩
  | finish =>
    simp only [step]
    split
    · exact h'
    · rename_i hr
      have hpos : s.held > 0 := by omega
      simp only [done, hpos, if_true]
      refine ⟨by simp only; omega, by simp only; omega, h3, h4, ?_⟩
      simp only; omega

theorem inv_run (cap : Nat) (evs : List Ev) : Inv (run false cap evs) := by
  unfold run
  generalize hs : St.init cap = s
  have hi : Inv s := hs ▸ inv_init cap
  clear hs
  induction evs generalizing s with
  | nil => exact hi
  | cons e evs ih => exact ih (step false s e) (inv_step hi e)

/-- the capacity never changes -/
theorem run_cap (df : Bool) (cap : Nat) (evs : List Ev) : (run df cap evs).cap = cap := by
  unfold run
  have : ∀ (s : St), (evs.foldl (step df) s).cap = s.cap := by
    induction evs with
    | nil => intro s; rfl
    | cons e evs ih =>
      intro s
      simp only [List.foldl_cons, ih]
      cases e <;> simp only [step, enter, done] <;> (repeat' split) <;> rfl
  simpa [St.init] using this (St.init cap)

/-- **C24 for the repaired skeleton** (`Start`, error check, `defer Done`): every capacity, every
    number of requests, every interleaving of arrivals, acquisitions, cancellations while waiting
    (also arrivals whose context is already done) and completions. -/
theorem C24_fixed : C24_full false := by
  intro cap evs
  obtain ⟨h1, h2, h3, h4, _⟩ := inv_run cap evs
  exact ⟨by omega, h3, h4⟩

/-- moreover the in-flight gauge is exact -/
theorem C24_fixed_gauge (cap : Nat) (evs : List Ev) :
    (run false cap evs).gauge = ((run false cap evs).running : Int) := by
  obtain ⟨h1, _, _, _, h5⟩ := inv_run cap evs
  rw [h5, h1]

/-- **The skeleton with `defer Done()` before the error check violates C24**: capacity 1, A is
    running, B waits, B's client gives up ⇒ B's deferred Done frees A's slot ⇒ C starts while A
    runs; and: A running, X arrives with a dead context while the gate is full, A completes ⇒
    `gate.Done: more operations done than started`. -/
theorem C24_doneFirst_exceeds : (run true 1 [.arrive, .arrive, .cancel, .arrive]).running = 2 := by decide

theorem C24_doneFirst_panics : (run true 1 [.arrive, .arriveCancelled, .finish]).panics = 1 := by decide

theorem C24_full_false : ¬ C24_full true := by
  intro h
  have := (h 1 [.arrive, .arrive, .cancel, .arrive]).1
  revert this
  decide

/-- … and is safe exactly on the schedules in which no Start fails -/
def noFailedStart : List Ev → Bool
  | [] => true
  | .cancel :: _ => false
  | .arriveCancelled :: _ => false
  | _ :: es => noFailedStart es

theorem step_eq_of_noFail (s : St) (e : Ev) (h : e ≠ .cancel ∧ e ≠ .arriveCancelled) :
    step true s e = step false s e := by
  cases e <;> simp_all [step]

theorem C24_partial (cap : Nat) (evs : List Ev) (h : noFailedStart evs = true) : Safe (run true cap evs) := by
  have : run true cap evs = run false cap evs := by
    unfold run
    generalize St.init cap = s
    induction evs generalizing s with
    | nil => rfl
    | cons e evs ih =>
      have he : e ≠ .cancel ∧ e ≠ .arriveCancelled := by
        cases e <;> simp_all [noFailedStart]
      have ht : noFailedStart evs = true := by
        cases e <;> simp_all [noFailedStart]
      simp only [List.foldl_cons, step_eq_of_noFail s e he]
      exact ih ht (step false s e)
  rw [this]
  exact C24_fixed cap evs

/-! ### the scripted runs of the harness are schedules of the model -/

theorem wake_is_run (df : Bool) : ∀ (fuel : Nat) (s : St), ∃ evs : List Ev, wake df fuel s = evs.foldl (step df) s
  | 0, s => ⟨[], rfl⟩
  | fuel + 1, s => by
    simp only [wake]
    split
    · obtain ⟨evs, h⟩ := wake_is_run df fuel (step df s .acquire)
      exact ⟨Ev.acquire :: evs, by simpa using h⟩
    · exact ⟨[], rfl⟩

theorem script_is_run (df : Bool) (evs : List Ev) :
    ∀ (s : St), ∃ evs' : List Ev, evs.foldl (scriptStep' df) s = evs'.foldl (step df) s := by
  induction evs with
  | nil => intro s; exact ⟨[], rfl⟩
  | cons e evs ih =>
    intro s
    simp only [List.foldl_cons]
    obtain ⟨rest, hrest⟩ := ih (scriptStep' df s e)
    rw [hrest]
    simp only [scriptStep']
    split
    · exact ⟨rest, rfl⟩
    · simp only [scriptStep]
      obtain ⟨ws, hws⟩ := wake_is_run df (step df s e).waiting (step df s e)
      exact ⟨e :: ws ++ rest, by simp [List.foldl_append, hws]⟩

/-- every state the scripted runs (the ops executed against the real handler) can show is Safe
    under the repaired skeleton -/
theorem C24_fixed_scripts (cap : Nat) (evs : List Ev) : Safe (evs.foldl (scriptStep' false) (St.init cap)) := by
  obtain ⟨evs', h⟩ := script_is_run false evs (St.init cap)
  rw [h]
  exact C24_fixed cap evs'

/-- C24 holds of both entry points as they are now -/
theorem C24_holds : C24_full codeDoneFirstHTTP ∧ C24_full codeDoneFirstOTLP := ⟨C24_fixed, C24_fixed⟩

/-! ### tie to the source -/

def doneFirstOfSkeleton : List String → Option Bool
  | ["Start", "deferDone", "checkErr"] => some true
  | ["Start", "checkErr", "deferDone"] => some false
  | _ => none

/-- Regenerated obligations: the order of `writeGate.Start`, `defer writeGate.Done()` and the error
    check in the two handlers is the one the model (and the compiled driver) uses. -/
theorem C24_skeleton_fact_http : doneFirstOfSkeleton Thanos.Facts.receiveHTTPGate = some codeDoneFirstHTTP := by decide
theorem C24_skeleton_fact_otlp : doneFirstOfSkeleton Thanos.Facts.receiveOTLPHTTPGate = some codeDoneFirstOTLP := by decide

/-! ### non-vacuity -/

-- capacity 2, five requests: two run, two wait, one waiter gives up, one completes, a waiter
-- takes the freed slot, a request with a dead context comes and goes
example : run false 2 [.arrive, .arrive, .arrive, .arrive, .cancel, .finish, .acquire, .arriveCancelled]
    = ⟨2, 2, 2, 0, 2, 0, 2⟩ := by decide
example : (run true 2 [.arrive, .arrive, .arrive, .arrive, .cancel, .finish, .acquire, .arriveCancelled]).panics = 0 ∧
    (run true 2 [.arrive, .arrive, .arrive, .arrive, .cancel, .acquire, .acquire]).running = 3 := by decide

end Thanos.Gate
