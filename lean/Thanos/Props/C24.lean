import Thanos.Model.Gate
import Thanos.Model.GateId
import Thanos.Lemmas.GateId
import Thanos.Generated.Facts
/-
  C24 — The remote-write concurrency gate is never exceeded.

  "With a maximum write concurrency configured, no more than that many remote-write requests are
  processed at the same time, also when clients give up while waiting for a slot, and waiting
  requests never crash the receiver."

  The model (Model/Gate.lean) is the token bookkeeping of the gate (buffered channel, in-flight
  gauge) driven by the skeleton of the two HTTP entry points; the theorems quantify over every
  schedule of arrivals, acquisitions, cancellations while waiting and completions (any list of
  events, any capacity).  What the theorems hinge on in the source — whether the deferred `Done`
  is registered before or after the error check of `Start` — is a regenerated fact.
-/
namespace Thanos.Gate

/-- C24 at full strength for the skeleton selected by `doneFirst`: after every schedule (hence
    after every prefix of every schedule) at most `cap` requests are inside the write path, the
    high-water mark never exceeded `cap`, and `gate.Done` never panicked. -/
def C24_full (doneFirst : Bool) : Prop := ∀ (cap : Nat) (evs : List Ev), Safe (run doneFirst cap evs)

/-- the invariant of the repaired skeleton: with a gate, tokens = running requests = gauge; without
    one (cap = 0) nothing is held, nobody waits, no metric moves -/
def Inv (s : St) : Prop :=
  s.panics = 0 ∧
  (1 ≤ s.cap → s.held = s.running ∧ s.held ≤ s.cap ∧ s.maxRunning ≤ s.cap ∧ s.gauge = (s.held : Int)) ∧
  (s.cap = 0 → s.held = 0 ∧ s.waiting = 0 ∧ s.gauge = 0 ∧ s.total = 0)

theorem inv_init (cap : Nat) : Inv (St.init cap) := by simp [Inv, St.init]

theorem inv_noop {t : St} (hcap : t.cap = 0) (h : t.held = 0 ∧ t.waiting = 0 ∧ t.gauge = 0 ∧ t.total = 0)
    (hp : t.panics = 0) : Inv t :=
  ⟨hp, fun hc => by omega, fun _ => h⟩

theorem inv_enter {s : St} (h : Inv s) (hlt : s.held < s.cap) : Inv (enter s) := by
  obtain ⟨h4, hg, _⟩ := h
  have hc : 1 ≤ s.cap := by omega
  obtain ⟨h1, h2, h3, h5⟩ := hg hc
  refine ⟨h4, fun _ => ⟨?_, ?_, ?_, ?_⟩, fun h0 => by simp only [enter] at h0; omega⟩
  · simp only [enter]; omega
  · simp only [enter]; omega
  · simp only [enter]; exact Nat.max_le.mpr ⟨h3, by omega⟩
  · simp only [enter]; omega

theorem inv_step {s : St} (h : Inv s) (e : Ev) : Inv (step false s e) := by
  have h' := h
  obtain ⟨h4, hg, hn⟩ := h
  by_cases hc0 : s.cap = 0
  · -- no gate
    obtain ⟨n1, n2, n3, n4⟩ := hn hc0
    cases e with
    | arrive =>
      simp only [step, hc0, if_true]
      exact inv_noop (by simp [enterNoop, hc0]) (by simp [enterNoop, n1, n2, n3, n4]) (by simp [enterNoop, h4])
    | arriveCancelled =>
      simp only [step, hc0, if_true]
      exact inv_noop (by simp [enterNoop, hc0]) (by simp [enterNoop, n1, n2, n3, n4]) (by simp [enterNoop, h4])
    | acquire => simp only [step, n2]; simpa using h'
    | cancel => simp only [step, n2]; simpa using h'
    | cancelRunning => exact h'
    | finish =>
      simp only [step, hc0, if_true]
      split
      · exact h'
      · exact inv_noop (by simp [hc0]) (by simp [n1, n2, n3, n4]) (by simp [h4])
  · have hc : 1 ≤ s.cap := by omega
    obtain ⟨h1, h2, h3, h5⟩ := hg hc
    have inv_tot : Inv { s with total := s.total + 1 } :=
      ⟨h4, fun _ => ⟨h1, h2, h3, h5⟩, fun h0 => absurd h0 hc0⟩
    cases e with
    | arrive =>
      simp only [step, hc0, if_false]
      split
      · exact inv_enter inv_tot (by assumption)
      · exact ⟨h4, fun _ => ⟨h1, h2, h3, h5⟩, fun h0 => absurd h0 hc0⟩
    | arriveCancelled =>
      simp only [step, hc0, if_false]
      exact inv_tot
    | acquire =>
      simp only [step]
      split
      · rename_i hcnd
        exact inv_enter (s := { s with waiting := s.waiting - 1 })
          ⟨h4, fun _ => ⟨h1, h2, h3, h5⟩, fun h0 => absurd h0 hc0⟩ hcnd.2
      · exact h'
    | cancel =>
      simp only [step]
      split
      · exact h'
      · exact ⟨h4, fun _ => ⟨h1, h2, h3, h5⟩, fun h0 => absurd h0 hc0⟩
    | cancelRunning => exact h'
    | finish =>
      simp only [step, hc0, if_false]
      split
      · exact h'
      · rename_i hr
        have hpos : s.held > 0 := by omega
        simp only [done, hpos, if_true]
        refine ⟨h4, fun _ => ⟨by simp only; omega, by simp only; omega, h3, ?_⟩, fun h0 => absurd h0 hc0⟩
        simp only; omega

theorem inv_run (cap : Nat) (evs : List Ev) : Inv (run false cap evs) := by
  unfold run
  generalize hs : St.init cap = s
  have hi : Inv s := hs ▸ inv_init cap
  clear hs
  induction evs generalizing s with
  | nil => exact hi
  | cons e evs ih => exact ih (step false s e) (inv_step hi e)

/-- the capacity never changes -/
theorem run_cap (df : Bool) (cap : Nat) (evs : List Ev) : (run df cap evs).cap = cap := by
  unfold run
  have : ∀ (s : St), (evs.foldl (step df) s).cap = s.cap := by
    induction evs with
    | nil => intro s; rfl
    | cons e evs ih =>
      intro s
      simp only [List.foldl_cons, ih]
      cases e <;> simp only [step, enter, enterNoop, done] <;> (repeat' split) <;> rfl
  simpa [St.init] using this (St.init cap)

/-- **C24 for the repaired skeleton** (`Start`, error check, `defer Done`): every capacity, every
    number of requests, every interleaving of arrivals, acquisitions, cancellations while waiting
    (also arrivals whose context is already done) and completions. -/
theorem C24_fixed : C24_full false := by
  intro cap evs
  obtain ⟨h4, hg, _⟩ := inv_run cap evs
  exact ⟨fun hc => by obtain ⟨h1, h2, h3, _⟩ := hg hc; exact ⟨by omega, h3⟩, h4⟩

/-- moreover the in-flight gauge is exact -/
theorem C24_fixed_gauge (cap : Nat) (evs : List Ev) (hc : 1 ≤ cap) :
    (run false cap evs).gauge = ((run false cap evs).running : Int) := by
  obtain ⟨_, hg, _⟩ := inv_run cap evs
  obtain ⟨h1, _, _, h5⟩ := hg (by rw [run_cap]; exact hc)
  rw [h5, h1]

/-- without a configured limit (`max_concurrency` 0: the limiter keeps `gate.NewNoop()`) nothing
    is ever held, nobody ever waits, and nothing panics -/
theorem C24_noop (evs : List Ev) :
    (run false 0 evs).waiting = 0 ∧ (run false 0 evs).held = 0 ∧ (run false 0 evs).panics = 0 := by
  obtain ⟨h4, _, hn⟩ := inv_run 0 evs
  obtain ⟨n1, n2, _, _⟩ := hn (run_cap false 0 evs)
  exact ⟨n2, n1, h4⟩

/-- **The skeleton with `defer Done()` before the error check violates C24**: capacity 1, A is
    running, B waits, B's client gives up ⇒ B's deferred Done frees A's slot ⇒ C starts while A
    runs; and: A running, X arrives with a dead context while the gate is full, A completes ⇒
    `gate.Done: more operations done than started`. -/
theorem C24_doneFirst_exceeds : (run true 1 [.arrive, .arrive, .cancel, .arrive]).running = 2 := by decide

theorem C24_doneFirst_panics : (run true 1 [.arrive, .arriveCancelled, .finish]).panics = 1 := by decide

theorem C24_full_false : ¬ C24_full true := by
  intro h
  have := ((h 1 [.arrive, .arrive, .cancel, .arrive]).1 (by decide)).1
  revert this
  decide

/-- … and is safe exactly on the schedules in which no Start fails -/
def noFailedStart : List Ev → Bool
  | [] => true
  | .cancel :: _ => false
  | .arriveCancelled :: _ => false
  | _ :: es => noFailedStart es

theorem step_eq_of_noFail (s : St) (e : Ev) (h : e ≠ .cancel ∧ e ≠ .arriveCancelled) :
    step true s e = step false s e := by
  cases e <;> simp_all [step]

theorem C24_partial (cap : Nat) (evs : List Ev) (h : noFailedStart evs = true) : Safe (run true cap evs) := by
  have : run true cap evs = run false cap evs := by
    unfold run
    generalize St.init cap = s
    induction evs generalizing s with
    | nil => rfl
    | cons e evs ih =>
      have he : e ≠ .cancel ∧ e ≠ .arriveCancelled := by
        cases e <;> simp_all [noFailedStart]
      have ht : noFailedStart evs = true := by
        cases e <;> simp_all [noFailedStart]
      simp only [List.foldl_cons, step_eq_of_noFail s e he]
      exact ih ht (step false s e)
  rw [this]
  exact C24_fixed cap evs

/-! ### the scripted runs of the harness are schedules of the model -/

theorem wake_is_run (df : Bool) : ∀ (fuel : Nat) (s : St), ∃ evs : List Ev, wake df fuel s = evs.foldl (step df) s
  | 0, s => ⟨[], rfl⟩
  | fuel + 1, s => by
    simp only [wake]
    split
    · obtain ⟨evs, h⟩ := wake_is_run df fuel (step df s .acquire)
      exact ⟨Ev.acquire :: evs, by simpa using h⟩
    · exact ⟨[], rfl⟩

theorem script_is_run (df : Bool) (evs : List Ev) :
    ∀ (s : St), ∃ evs' : List Ev, evs.foldl (scriptStep' df) s = evs'.foldl (step df) s := by
  induction evs with
  | nil => intro s; exact ⟨[], rfl⟩
  | cons e evs ih =>
    intro s
    simp only [List.foldl_cons]
    obtain ⟨rest, hrest⟩ := ih (scriptStep' df s e)
    rw [hrest]
    simp only [scriptStep']
    split
    · exact ⟨rest, rfl⟩
    · simp only [scriptStep]
      obtain ⟨ws, hws⟩ := wake_is_run df (step df s e).waiting (step df s e)
      exact ⟨e :: ws ++ rest, by simp [List.foldl_append, hws]⟩

/-- every state the scripted runs (the ops executed against the real handler) can show is Safe
    under the repaired skeleton -/
theorem C24_fixed_scripts (cap : Nat) (evs : List Ev) : Safe (evs.foldl (scriptStep' false) (St.init cap)) := by
  obtain ⟨evs', h⟩ := script_is_run false evs (St.init cap)
  rw [h]
  exact C24_fixed cap evs'

/-- C24 holds of both entry points as they are now -/
theorem C24_holds : C24_full codeDoneFirstHTTP ∧ C24_full codeDoneFirstOTLP := ⟨C24_fixed, C24_fixed⟩

/-! ### the gate has an identity: one gate per loaded configuration -/

/-- C24 over the limiter: whatever the schedule of configuration loads, arrivals and handler
    events, the requests admitted under one configuration are bounded by its `max_concurrency`
    (they all went through the same gate), every gate is Safe, and no two gates belong to the same
    configuration epoch. -/
def C24_limiter_full (lazy doneFirst : Bool) : Prop :=
  ∀ (cap : Nat) (evs : List LEv), 1 ≤ cap →
    let l := lrun lazy doneFirst false cap evs
    (∀ ep, runningIn l ep ≤ cap) ∧ (∀ r, r ∈ l.gates → Safe r.st) ∧
    (∀ (i j : Nat) (ri rj : GateRec), l.gates[i]? = some ri → l.gates[j]? = some rj → ri.epoch = rj.epoch → i = j)

def LInv (l : Lim) : Prop :=
  WFE 0 l.gates ∧ l.gates.length = l.epoch ∧ l.builders = 0 ∧
  (∀ r, r ∈ l.gates → Inv r.st ∧ r.st.cap = l.cap)

theorem linv_stepGate {l : Lim} (h : LInv l) (g : Nat) (e : Ev) :
    LInv { l with gates := stepGate false l.gates g e } := by
  obtain ⟨h1, h2, h3, h4⟩ := h
  unfold stepGate
  cases hg : l.gates[g]? with
  | none => exact ⟨h1, h2, h3, h4⟩
  | some r =>
    have hr : r ∈ l.gates := List.mem_of_getElem? hg
    refine ⟨wfe_set h1 g r _ hg rfl, by simpa using h2, h3, ?_⟩
    intro x hx
    rcases List.mem_or_eq_of_mem_set hx with hx | rfl
    · exact h4 x hx
    · exact ⟨inv_step (h4 r hr).1 e, by simp only [step_cap]; exact (h4 r hr).2⟩

theorem linv_step {l : Lim} (h : LInv l) (e : LEv) : LInv (lstep false false false l e) := by
  have h' := h
  obtain ⟨h1, h2, h3, h4⟩ := h
  cases e with
  | load =>
    simp only [lstep, Bool.false_eq_true, if_false]
    refine ⟨?_, by simp [h2], h3, ?_⟩
    · have := wfe_append h1 (St.init l.cap)
      simpa [h2] using this
    · intro r hr
      rcases List.mem_append.mp hr with hr | hr
      · exact h4 r hr
      · simp only [List.mem_singleton] at hr
        subst hr
        exact ⟨inv_init l.cap, rfl⟩
  | arrive =>
    simp only [lstep]
    cases hs : l.stored with
    | none => simpa using h'
    | some g => exact linv_stepGate h' g .arrive
  | arriveDead =>
    simp only [lstep]
    cases hs : l.stored with
    | none => simpa using h'
    | some g => exact linv_stepGate h' g .arriveCancelled
  | build => simpa [lstep] using h'
  | on g e =>
    simp only [lstep, Bool.false_eq_true, false_and, if_false]
    split
    · exact h'
    · exact linv_stepGate h' g e

theorem linv_run (cap : Nat) (evs : List LEv) : LInv (lrun false false false cap evs) := by
  unfold lrun
  have hi : LInv (Lim.init cap) := ⟨trivial, rfl, rfl, fun r hr => by simp [Lim.init] at hr⟩
  generalize Lim.init cap = l at hi
  induction evs generalizing l with
  | nil => exact hi
  | cons e evs ih => exact ih _ (linv_step hi e)

theorem lrun_cap (lazy df rl : Bool) (cap : Nat) (evs : List LEv) : (lrun lazy df rl cap evs).cap = cap := by
  unfold lrun
  have : ∀ (l : Lim), (evs.foldl (lstep lazy df rl) l).cap = l.cap := by
    induction evs with
    | nil => intro l; rfl
    | cons e evs ih =>
      intro l
      simp only [List.foldl_cons, ih]
      cases e <;> simp only [lstep] <;> (repeat' split) <;> rfl
  simpa [Lim.init] using this (Lim.init cap)

theorem wfe_getElem {base : Nat} {gs : List GateRec} (h : WFE base gs) {i : Nat} {r : GateRec}
    (hi : gs[i]? = some r) : r.epoch = base + i + 1 := by
  induction gs generalizing base i with
  | nil => simp at hi
  | cons g gs ih =>
    obtain ⟨h1, h2⟩ := h
    cases i with
    | zero => simp at hi; subst hi; omega
    | succ i => simp at hi; have := ih h2 hi; omega

/-- **C24 over the limiter as the code has it** (the gate is built by `loadConfig` under the lock,
    `WriteGate()` returns the stored field) with the repaired handler skeleton. -/
theorem C24_limiter_fixed : C24_limiter_full false false := by
  intro cap evs hc
  obtain ⟨h1, h2, h3, h4⟩ := linv_run cap evs
  have hcap := lrun_cap false false false cap evs
  have hsafe : ∀ r, r ∈ (lrun false false false cap evs).gates → Safe r.st ∧ r.st.running ≤ cap := by
    intro r hr
    obtain ⟨⟨p, hg, _⟩, hrc⟩ := h4 r hr
    rw [hcap] at hrc
    obtain ⟨a, b, c, _⟩ := hg (by omega)
    exact ⟨⟨fun _ => ⟨by omega, c⟩, p⟩, by omega⟩
  refine ⟨fun ep => (sum_epoch_le ep 0 _ h1 (fun r hr => (hsafe r hr).2)).1, fun r hr => (hsafe r hr).1, ?_⟩
  intro i j ri rj hi hj he
  have := wfe_getElem h1 hi
  have := wfe_getElem h1 hj
  omega

/-- **A limiter that builds the gate lazily in `WriteGate()` without re-checking violates C24**
    although handlers and gates are untouched: max_concurrency 1, the configuration is loaded, two
    requests find no gate, each builds its own and passes it — two requests of one configuration
    inside the write path, in two gates of the same epoch. -/
theorem C24_lazy_exceeds :
    runningIn (lrun true false false 1 [.load, .arrive, .arrive, .build, .build]) 1 = 2 ∧
    ((lrun true false false 1 [.load, .arrive, .arrive, .build, .build]).gates.map (·.epoch)) = [1, 1] := by decide

theorem C24_limiter_lazy_false : ¬ C24_limiter_full true false := by
  intro h
  have := (h 1 [.load, .arrive, .arrive, .build, .build] (by decide)).1 1
  revert this
  decide

/-- blocked Starts taking free slots keep the invariant -/
theorem inv_wake : ∀ (n : Nat) (s : St), Inv s → Inv (wake false n s)
  | 0, _, h => h
  | n + 1, s, h => by
    simp only [wake]
    split
    · exact inv_wake n _ (inv_step h .acquire)
    · exact h

theorem wake_cap (df : Bool) : ∀ (n : Nat) (s : St), (wake df n s).cap = s.cap
  | 0, _ => rfl
  | n + 1, s => by
    simp only [wake]
    split
    · rw [wake_cap df n, step_cap]
    · rfl

theorem wfe_wakeAll {base : Nat} {gs : List GateRec} (h : WFE base gs) : WFE base (wakeAll false gs) := by
  induction gs generalizing base with
  | nil => exact h
  | cons g gs ih => exact ⟨h.1, ih h.2⟩

theorem linv_wakeAll {l : Lim} (h : LInv l) : LInv { l with gates := wakeAll false l.gates } := by
  obtain ⟨h1, h2, h3, h4⟩ := h
  refine ⟨wfe_wakeAll h1, by simpa [wakeAll] using h2, h3, ?_⟩
  intro r hr
  simp only [wakeAll, List.mem_map] at hr
  obtain ⟨r0, hr0, rfl⟩ := hr
  exact ⟨inv_wake _ _ (h4 r0 hr0).1, by simp only [wake_cap]; exact (h4 r0 hr0).2⟩

/-- the scripted runs executed against the real limiter and handlers (arrivals, dead arrivals,
    cancellations, completions and RELOADS while requests are in flight) keep the invariant -/
theorem linv_script (cap : Nat) (evs : List SEv) :
    LInv (evs.foldl (lscriptStep false false false) (Lim.init cap)) := by
  have hi : LInv (Lim.init cap) := ⟨trivial, rfl, rfl, fun r hr => by simp [Lim.init] at hr⟩
  generalize Lim.init cap = l at hi
  induction evs generalizing l with
  | nil => exact hi
  | cons e evs ih =>
    apply ih
    unfold lscriptStep
    apply linv_wakeAll
    cases e with
    | a => exact linv_step hi .arrive
    | x =>
      simp only
      split
      · split
        · exact hi
        · exact linv_step hi .arriveDead
      · exact hi
    | c =>
      simp only
      split
      · exact linv_step hi _
      · exact hi
    | k => exact hi
    | f =>
      simp only
      split
      · exact linv_step hi _
      · exact hi
    | r => exact linv_step hi .load

/-- **A handler that looks the gate up again for `Done` violates C24 across a limits reload**
    although limiter, gates and the Start/Done balance are untouched: cap 1 — a request is
    running, the limits are reloaded (new gate object), the request completes and releases a slot
    of the NEW, empty gate ⇒ `gate.Done: more operations done than started`; and if the new gate is
    occupied, the stray Done frees that request's slot: a third request is admitted while the
    second still runs (two requests of one configuration at cap 1). -/
theorem C24_relookup_panics :
    ((lrun false false true 1 [.load, .arrive, .load, .on 0 .finish]).gates.map (·.st.panics)) = [0, 1] := by decide

theorem C24_relookup_exceeds :
    runningIn (lrun false false true 1 [.load, .arrive, .load, .arrive, .on 0 .finish, .arrive]) 2 = 2 := by decide

/-- with the gate kept (the code as it is) the same schedules are harmless -/
example : ((lrun false false false 1 [.load, .arrive, .load, .on 0 .finish]).gates.map (·.st.panics)) = [0, 0] ∧
    runningIn (lrun false false false 1 [.load, .arrive, .load, .arrive, .on 0 .finish, .arrive]) 2 = 1 := by decide

/-- the limiter of the code as it is -/
theorem C24_limiter_holds : C24_limiter_full codeLazyGate codeDoneFirstHTTP := C24_limiter_fixed

/-! ### tie to the source -/

def doneFirstOfSkeleton : List String → Option Bool
  | ["Start", "deferDone", "checkErr"] => some true
  | ["Start", "checkErr", "deferDone"] => some false
  | _ => none

/-- Regenerated obligations: the order of `writeGate.Start`, `defer writeGate.Done()` and the error
    check in the two handlers is the one the model (and the compiled driver) uses. -/
theorem C24_skeleton_fact_http : doneFirstOfSkeleton Thanos.Facts.receiveHTTPGate = some codeDoneFirstHTTP := by decide
theorem C24_skeleton_fact_otlp : doneFirstOfSkeleton Thanos.Facts.receiveOTLPHTTPGate = some codeDoneFirstOTLP := by decide

/-- Regenerated obligations about the parts of the model that are not the handler skeleton:
    each handler calls Start once and Done once (so every return path after the gate — answer,
    forward timeout, error — releases exactly once); `gate.New` uses the noop gate exactly for
    `maxConcurrent <= 0` and the limiter builds a gate exactly for `max_concurrency > 0`, starting
    from `gate.NewNoop()`; the noop gate calls nothing; the in-flight wrapper increments after a
    successful inner Start and decrements before the inner Done; the total wrapper counts before
    the inner Start; the wrappers are stacked Duration(Total(InFlight(gate))). -/
theorem C24_gate_facts :
    Thanos.Facts.receiveHTTPGateCalls = ["writeGate.Start", "writeGate.Done"] ∧
    Thanos.Facts.receiveOTLPHTTPGateCalls = ["writeGate.Start", "writeGate.Done"] ∧
    Thanos.Facts.gateNewNoopCond = "maxConcurrent <= 0" ∧
    Thanos.Facts.limiterGateCond = "maxWriteConcurrency > 0" ∧
    Thanos.Facts.limiterDefaultGate = ["gate.NewNoop"] ∧
    Thanos.Facts.gateNoopCalls = [] ∧
    Thanos.Facts.gateInFlightStart = ["Start", "Inc"] ∧
    Thanos.Facts.gateInFlightDone = ["Dec", "Done"] ∧
    Thanos.Facts.gateTotalStart = ["Inc", "Start"] ∧
    Thanos.Facts.gateNewWrappers = ["InstrumentGateDuration", "InstrumentGateTotal", "InstrumentGateInFlight"] := by
  refine ⟨?_, ?_, ?_, ?_, ?_, ?_, ?_, ?_, ?_, ?_⟩ <;> decide

/-- Regenerated obligation: how the limiter hands out the gate.  The gate is constructed in
    `loadConfig` only, after `l.Lock()` (with the deferred unlock); the field is assigned at
    construction (`NewLimiter`: the noop gate) and in `loadConfig` only; `WriteGate()` takes the read
    lock and returns the stored field — it constructs nothing and tests nothing.  Anything else
    (e.g. a lazily built gate) is not the limiter of `C24_limiter_holds`. -/
def lazyOfFacts (builtIn assignedIn body loadSeq : List String) : Option Bool :=
  if builtIn = ["loadConfig"] ∧ assignedIn = ["NewLimiter", "loadConfig"] ∧
     body = ["l.RLock()", "defer l.RUnlock()", "return l.writeGate"] ∧
     loadSeq = ["l.Lock", "l.Unlock", "gate.New"] then some false else none

theorem C24_limiter_fact :
    lazyOfFacts Thanos.Facts.limiterGateBuiltIn Thanos.Facts.limiterGateAssignedIn
      Thanos.Facts.limiterWriteGateBody Thanos.Facts.limiterLoadConfigSeq = some codeLazyGate := by decide

/-- Regenerated obligation: both handlers look the gate up exactly once
    (`writeGate := h.Limiter.WriteGate()`) and call `Start` and the deferred `Done` on that value. -/
theorem C24_lookup_fact :
    Thanos.Facts.receiveHTTPGateLookup = ["writeGate := h.Limiter.WriteGate()"] ∧
    Thanos.Facts.receiveOTLPHTTPGateLookup = ["writeGate := h.Limiter.WriteGate()"] ∧
    Thanos.Facts.receiveHTTPGateCalls = ["writeGate.Start", "writeGate.Done"] ∧
    Thanos.Facts.receiveOTLPHTTPGateCalls = ["writeGate.Start", "writeGate.Done"] := by
  refine ⟨?_, ?_, ?_, ?_⟩ <;> decide

/-! ### non-vacuity -/

-- capacity 2, five requests: two run, two wait, one waiter gives up, one completes, a waiter
-- takes the freed slot, a request with a dead context comes and goes
example : run false 2 [.arrive, .arrive, .arrive, .arrive, .cancel, .cancelRunning, .finish, .acquire, .arriveCancelled]
    = ⟨2, 2, 2, 0, 2, 5, 0, 2⟩ := by decide
example : run false 0 [.arrive, .arriveCancelled, .arrive, .finish] = ⟨0, 0, 2, 0, 0, 0, 0, 3⟩ := by decide
example : (run true 2 [.arrive, .arrive, .arrive, .arrive, .cancel, .finish, .acquire, .arriveCancelled]).panics = 0 ∧
    (run true 2 [.arrive, .arrive, .arrive, .arrive, .cancel, .acquire, .acquire]).running = 3 := by decide

-- the limiter: start-up load, three arrivals at capacity 2, a reload, two more arrivals, one of the first completes
example : (lrun false false false 2 [.load, .arrive, .arrive, .arrive, .load, .arrive, .on 0 .finish, .on 0 .acquire, .arrive]).gates.map
    (fun r => (r.epoch, r.st.running, r.st.waiting)) = [(1, 2, 0), (2, 2, 0)] := by decide

end Thanos.Gate
