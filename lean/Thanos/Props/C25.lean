import Thanos.Model.Capnp
import Thanos.Lemmas.Capnp
import Thanos.Lemmas.CapnpOrder
import Thanos.Generated.Facts
/-
  C25 — Cap'n Proto replication encoding is lossless.

  "Encoding a multi-tenant write request for Cap'n Proto replication and decoding it on the peer
  yields, per tenant, the same series with the same labels, float samples, native histograms and
  exemplars."

  "The same" is measured against the protobuf replication path: what `Writer.Write` hands to the
  appender for a prompb.TimeSeries (labels, samples and exemplars as they are; histograms through
  prompb.HistogramProtoToHistogram / FloatHistogramProtoToFloatHistogram).
-/
namespace Thanos.Capnp

/-! ### what the protobuf path hands to the appender -/

/-- `HistogramProtoToHistogram` / `FloatHistogramProtoToFloatHistogram`: the count member decides
    the kind; `GetCountInt`, `GetZeroCountInt`, `GetZeroCountFloat` give 0 for another member -/
def expectHist (h : PHist) : DHist :=
  match h.count with
  | .float c =>
    .float h.resetHint c h.sum h.schema h.zeroThreshold (match h.zeroCount with | .float z => z | _ => 0)
      h.posSpans h.negSpans h.posCounts h.negCounts h.customValues h.timestamp
  | .int c =>
    .int h.resetHint c h.sum h.schema h.zeroThreshold (match h.zeroCount with | .int z => z | _ => 0)
      h.posSpans h.negSpans h.posDeltas h.negDeltas h.customValues h.timestamp
  | .unset =>
    .int h.resetHint 0 h.sum h.schema h.zeroThreshold (match h.zeroCount with | .int z => z | _ => 0)
      h.posSpans h.negSpans h.posDeltas h.negDeltas h.customValues h.timestamp

def expectSeries (s : PSeries) : DSeries := ⟨s.labels, s.samples, s.hists.map expectHist, s.exemplars⟩

def expect (req : List (Str × List PSeries)) : List (Str × List DSeries) :=
  req.map fun t => (t.1, t.2.map expectSeries)

/-- count and zero count of one kind (both float, or neither) -/
def sameKind (h : PHist) : Bool :=
  match h.count, h.zeroCount with
  | .float _, .float _ => true
  | .float _, _ => false
  | _, .float _ => false
  | _, _ => true

/-- the histograms for which the round trip holds: no custom bucket values; and, for the decoder
    before the repair of the union accessors (`strict`), count and zero count of one kind -/
def histOK (strict : Bool) (h : PHist) : Bool :=
  h.customValues.isEmpty && (!strict || sameKind h)

def ReqOK (strict : Bool) (req : List (Str × List PSeries)) : Prop :=
  ∀ t, t ∈ req → ∀ s, s ∈ t.2 → ∀ h, h ∈ s.hists → histOK strict h = true

/-- C25 at full strength: every request round-trips to what the protobuf path delivers -/
def C25_full (strict : Bool) : Prop :=
  ∀ (req : List (Str × List PSeries)), decode strict (encode req) = .ok (expect req)

/-! ### the symbol table -/

/-- interning: whatever sequence of strings is added (shared or distinct, empty, of any byte
    length), the decoder's table holds each added string at the index `AddEntry` returned, also
    after any number of later additions -/
theorem intern_index (b : Builder) (h : WF b) (s : Str) (later : List Str) :
    let b1 := (addEntry b s).1
    let bN := later.foldl (fun b x => (addEntry b x).1) b1
    (decodeSymbols (marshalSymbols bN).1 (marshalSymbols bN).2)[(addEntry b s).2]? = some s := by
  intro b1 bN
  have ⟨w1, _, g1⟩ := addEntry_spec b s h
  have key : ∀ (l : List Str) (b' : Builder), WF b' → (syms b')[(addEntry b s).2]? = some s →
      WF (l.foldl (fun b x => (addEntry b x).1) b') ∧
      (syms (l.foldl (fun b x => (addEntry b x).1) b'))[(addEntry b s).2]? = some s := by
    intro l
    induction l with
    | nil => intro b' w g; exact ⟨w, g⟩
    | cons x l ih =>
      intro b' w g
      obtain ⟨w', ⟨ext, hx⟩, _⟩ := addEntry_spec b' x w
      exact ih (addEntry b' x).1 w' (by rw [hx]; exact getElem?_append_some g _)
  obtain ⟨wN, gN⟩ := key later b1 w1 g1
  rw [decode_marshal_symbols bN wN]
  exact gN

/-- every table built by `AddEntry` calls is well formed -/
theorem wf_of_adds (ss : List Str) : WF (ss.foldl (fun b x => (addEntry b x).1) Builder.empty) := by
  have : ∀ (l : List Str) (b : Builder), WF b → WF (l.foldl (fun b x => (addEntry b x).1) b) := by
    intro l
    induction l with
    | nil => intro b h; exact h
    | cons x l ih => intro b h; exact ih _ (addEntry_spec b x h).1
  exact this ss _ wf_empty

/-- `marshalSymbols` ranges over a Go map: for **every** order in which the runtime may visit the
    entries (every permutation), the loop writes the same offsets and the same data buffer. -/
theorem C25_symbols_any_order (ss : List Str) (order : List Entry) :
    let b := ss.foldl (fun b x => (addEntry b x).1) Builder.empty
    order.Perm b.entries → marshalSymbolsIn order b.entries.length b.size = marshalSymbols b :=
  fun hp => marshalSymbols_any_order _ (wf_of_adds ss) order hp

/-! ### the message -/

theorem readHistogram_marshal (strict : Bool) (h : PHist) (hok : histOK strict h = true) :
    readHistogram strict (marshalHistogram h) = .ok (expectHist h) := by
  obtain ⟨c, sum, schema, zth, zc, ns, nd, nc, ps, pd, pc, hint, ts, custom⟩ := h
  simp only [histOK, Bool.and_eq_true, List.isEmpty_iff] at hok
  obtain ⟨hc, hk⟩ := hok
  subst hc
  cases strict <;> cases c <;> cases zc <;>
    simp_all [readHistogram, zeroCountAs, marshalHistogram, marshalU, expectHist, sameKind]

theorem marshalSeries_spec (strict : Bool) (s : PSeries) (b : Builder) (h : WF b)
    (hok : ∀ x, x ∈ s.hists → histOK strict x = true) :
    WF (marshalSeries b s).1 ∧ (∃ ext, syms (marshalSeries b s).1 = syms b ++ ext) ∧
    ∀ ext2, readSeries strict (syms (marshalSeries b s).1 ++ ext2) (marshalSeries b s).2 = .ok (expectSeries s) := by
  obtain ⟨w1, ⟨e1, x1⟩, g1⟩ := marshalLabels_spec s.labels b h
  obtain ⟨w2, ⟨e2, x2⟩, g2⟩ := marshalExemplars_spec s.exemplars (marshalLabels b s.labels).1 w1
  simp only [marshalSeries]
  refine ⟨w2, ⟨e1 ++ e2, by rw [x2, x1]; simp⟩, ?_⟩
  intro ext2
  have hl := g1 (e2 ++ ext2)
  rw [← List.append_assoc, ← x2] at hl
  have hh := mapE_map_ok marshalHistogram (readHistogram strict) expectHist s.hists
    (fun x hx => readHistogram_marshal strict x (hok x hx))
  simp only [readSeries, hl, hh, g2 ext2, expectSeries]

theorem marshalSeriesList_spec (strict : Bool) : ∀ (ss : List PSeries) (b : Builder), WF b →
    (∀ s, s ∈ ss → ∀ x, x ∈ s.hists → histOK strict x = true) →
    WF (marshalSeriesList b ss).1 ∧ (∃ ext, syms (marshalSeriesList b ss).1 = syms b ++ ext) ∧
    ∀ ext2, mapE (readSeries strict (syms (marshalSeriesList b ss).1 ++ ext2)) (marshalSeriesList b ss).2 = .ok (ss.map expectSeries)
  | [], b, h, _ => ⟨h, ⟨[], by simp [marshalSeriesList]⟩, fun _ => rfl⟩
  | s :: ss, b, h, hok => by
    obtain ⟨w1, ⟨e1, x1⟩, g1⟩ := marshalSeries_spec strict s b h (hok s (by simp))
    obtain ⟨w2, ⟨e2, x2⟩, g2⟩ := marshalSeriesList_spec strict ss (marshalSeries b s).1 w1 (fun s' hs' => hok s' (by simp [hs']))
    simp only [marshalSeriesList]
    refine ⟨w2, ⟨e1 ++ e2, by rw [x2, x1]; simp⟩, ?_⟩
    intro ext2
    have hs := g1 (e2 ++ ext2)
    rw [← List.append_assoc, ← x2] at hs
    simp only [mapE, hs, g2 ext2, List.map_cons]

theorem marshalTenants_spec (strict : Bool) : ∀ (req : List (Str × List PSeries)) (b : Builder), WF b → ReqOK strict req →
    WF (marshalTenants b req).1 ∧ (∃ ext, syms (marshalTenants b req).1 = syms b ++ ext) ∧
    ∀ ext2, mapE (decodeTenant strict (syms (marshalTenants b req).1 ++ ext2)) (marshalTenants b req).2 = .ok (expect req)
  | [], b, h, _ => ⟨h, ⟨[], by simp [marshalTenants]⟩, fun _ => rfl⟩
  | (t, ss) :: ts, b, h, hok => by
    obtain ⟨w1, ⟨e1, x1⟩, g1⟩ := marshalSeriesList_spec strict ss b h (fun s hs => hok (t, ss) (by simp) s hs)
    obtain ⟨w2, ⟨e2, x2⟩, g2⟩ := marshalTenants_spec strict ts (marshalSeriesList b ss).1 w1 (fun t' ht' => hok t' (by simp [ht']))
    simp only [marshalTenants]
    refine ⟨w2, ⟨e1 ++ e2, by rw [x2, x1]; simp⟩, ?_⟩
    intro ext2
    have hs := g1 (e2 ++ ext2)
    rw [← List.append_assoc, ← x2] at hs
    simp only [mapE, decodeTenant, hs, g2 ext2, expect, List.map_cons]

/-- **The round trip.**  For every multi-tenant request — any number of tenants and series, any
    label strings (shared or distinct symbols, empty strings, any byte lengths), any samples,
    exemplars and native histograms without custom bucket values (for the decoder before the
    repair also: count and zero count of one kind), empty lists included — decoding the encoded
    request gives, per tenant, exactly the series the protobuf path delivers. -/
theorem C25_roundtrip (strict : Bool) (req : List (Str × List PSeries)) (hok : ReqOK strict req) :
    decode strict (encode req) = .ok (expect req) := by
  obtain ⟨w, _, g⟩ := marshalTenants_spec strict req Builder.empty wf_empty hok
  simp only [decode, encode]
  rw [decode_marshal_symbols _ w]
  simpa using g []

/-- the strongest statement that holds of the code as it is now: everything but custom bucket values -/
theorem C25_partial (req : List (Str × List PSeries))
    (hok : ∀ t, t ∈ req → ∀ s, s ∈ t.2 → ∀ h, h ∈ s.hists → h.customValues = []) :
    decode codeStrictUnion (encode req) = .ok (expect req) :=
  C25_roundtrip false req (fun t ht s hs h hh => by simp [histOK, hok t ht s hs h hh])

private def customReq : List (Str × List PSeries) :=
  [([116], [⟨[], [], [⟨.int 5, 1, -53, 0, .int 0, [], [], [], [⟨1, 1⟩], [], [7], 1, 5, [9, 8]⟩], []⟩])]

private def mixedReq : List (Str × List PSeries) :=
  [([116], [⟨[], [], [⟨.float 5, 1, 3, 0, .int 0, [], [], [], [⟨1, 1⟩], [], [7], 1, 5, []⟩], []⟩])]

/-- **Custom bucket values are lost** (F25): the schema has no field for them. -/
theorem C25_custom_values_lost :
    decode codeStrictUnion (encode customReq) =
      .ok [([116], [⟨[], [], [.int 1 5 1 (-53) 0 0 [⟨1, 1⟩] [] [] [] [] 5], []⟩])] := rfl

/-- hence C25 at full strength is false of the code as it is -/
theorem C25_full_false : ¬ C25_full codeStrictUnion := by
  intro h
  have := h customReq
  rw [C25_custom_values_lost] at this
  have := Except.ok.inj this
  revert this
  decide

/-- Before the repair of the union accessors, a float histogram whose zero count is not a float
    made the peer's decoder panic (`Which() != zeroCountFloat`), while the protobuf path reads a
    zero count of 0; the repaired decoder agrees with the protobuf path. -/
theorem C25_mixed_kinds_strict_fail : decode true (encode mixedReq) = .error .wrongUnionMember := rfl

theorem C25_mixed_kinds_fixed : decode false (encode mixedReq) = .ok (expect mixedReq) := rfl

/-! ### tie to the source -/

/-- Regenerated obligation: the capnp Histogram struct has every field of prompb.Histogram except
    `CustomValues` (the known finding F25: adding the field needs the capnp compiler), and
    `marshalHistogram` sets every member of it. -/
theorem C25_fields_fact :
    (Thanos.Facts.v1MessageFields.filter fun f =>
        (f == "Histogram.Count" || f == "Histogram.CustomValues" || f == "Histogram.NegativeCounts" ||
         f == "Histogram.NegativeDeltas" || f == "Histogram.NegativeSpans" || f == "Histogram.PositiveCounts" ||
         f == "Histogram.PositiveDeltas" || f == "Histogram.PositiveSpans" || f == "Histogram.ResetHint" ||
         f == "Histogram.Schema" || f == "Histogram.Sum" || f == "Histogram.Timestamp" ||
         f == "Histogram.ZeroCount" || f == "Histogram.ZeroThreshold") &&
        !Thanos.Facts.capnpHistogramFields.contains f) = ["Histogram.CustomValues"] ∧
    Thanos.Facts.capnpMarshalHistogramSets =
      ["CountFloat", "CountInt", "NegativeCounts", "NegativeDeltas", "NegativeSpans", "PositiveCounts",
       "PositiveDeltas", "PositiveSpans", "ResetHint", "Schema", "Sum", "Timestamp", "ZeroCountFloat",
       "ZeroCountInt", "ZeroThreshold"] := by
  constructor <;> decide

/-- Regenerated obligation: the zero count is read through the helpers that test the member
    first (`zeroCountInt`, `zeroCountFloat`), not through the bare generated accessors. -/
def strictOfFact : List String → Option Bool
  | ["zeroCountInt(src)", "zeroCountFloat(src)"] => some false
  | ["src.ZeroCount().ZeroCountInt()", "src.ZeroCount().ZeroCountFloat()"] => some true
  | _ => none

theorem C25_union_fact : strictOfFact Thanos.Facts.capnpReadZeroCount = some codeStrictUnion := by decide

/-! ### non-vacuity -/

private def exReq : List (Str × List PSeries) :=
  [([116, 49], [⟨[([97], [98]), ([99], [97])], [(7, 1000)],
      [⟨.int 3, 1, -2, 0, .int 0, [], [], [], [⟨1, 2⟩, ⟨-1, 1⟩], [1, 2], [], 0, 1000, []⟩],
      [⟨[([97], [100])], 9, 5⟩]⟩]),
   ([], [⟨[([98], [])], [], [⟨.float 5, 1, 3, 0, .float 0, [], [], [], [⟨1, 1⟩], [], [7], 1, 5, []⟩], []⟩])]

example : ReqOK true exReq := by
  intro t ht s hs h hh
  simp [exReq] at ht
  rcases ht with rfl | rfl <;> simp at hs <;> subst hs <;> simp at hh <;> subst hh <;> decide

example : (encode exReq).offsets = [1, 2, 3, 4, 4] ∧ (encode exReq).data = [97, 98, 99, 100] := by decide
example : decode codeStrictUnion (encode exReq) = .ok (expect exReq) := rfl

end Thanos.Capnp
