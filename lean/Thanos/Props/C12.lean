import Thanos.Model.PostingsCodec
import Thanos.Lemmas.PostingsCodec
import Thanos.Generated.Facts
/-
  C12 — Cached posting-list encodings decode to the original list.

  Both cache codecs ("dvs": one snappy block, "dss": framed snappy stream) store the same
  diff+uvarint payload.  Snappy/s2 is third party: the theorems are stated on the payload, and
  what is assumed of the compression layer is the hypothesis `chunks.flatten = bs` ("the payloads
  of the stream's data chunks, in order, concatenate to the bytes that were written") — for
  *every* way the library may have cut the payload into chunks, including cuts inside a varint
  and empty chunks.  The harness extracts the real chunking of every generated case.
-/
namespace Thanos.PostingsCodec

/-- the list handed to the encoder: sorted (equal neighbours allowed), entries below 2^64 -/
abbrev SortedRefs (l : List Nat) : Prop := Nondec 0 l

/-- sorted lists are always encoded … -/
theorem C12_encode_accepts_sorted (l : List Nat) (h : SortedRefs l) : ∃ bs, encode l = some bs :=
  encodeFrom_some_of_nondec l 0 h

/-- … and unsorted ones are rejected ("postings entries must be in increasing order") -/
theorem C12_encode_rejects_unsorted (l : List Nat) (hb : ∀ v ∈ l, v < M64) (h : ¬ SortedRefs l) :
    encode l = none := by
  cases he : encode l with
  | none => rfl
  | some bs => exact absurd (sorted_of_encodeFrom_some l 0 bs he hb) h

private theorem streamInv0 {l bs : List Nat} {chunks : List (List Nat)} (hs : SortedRefs l)
    (he : encode l = some bs) (hc : chunks.flatten = bs) : StreamInv ⟨0, [], chunks⟩ ⟨0, l⟩ :=
  ⟨rfl, hs, by simp [M64], by simpa [hc, encode] using he⟩

private theorem plainInv0 {l bs : List Nat} (hs : SortedRefs l) (he : encode l = some bs) :
    PlainInv ⟨0, bs, false⟩ ⟨0, l⟩ :=
  ⟨rfl, rfl, hs, by simp [M64], he⟩

/-- Round trip, streamed codec: whatever the chunk boundaries of the snappy stream are (a varint
    split across chunks is reassembled), decoding gives back the list.  No bound on the length. -/
theorem C12_roundtrip_streamed (l bs : List Nat) (chunks : List (List Nat)) (hs : SortedRefs l)
    (he : encode l = some bs) (hc : chunks.flatten = bs) : decodeStream chunks = l := by
  have hinv := streamInv0 hs he hc
  have hsz := stream_sim.size_ok _ _ hinv
  exact drain_sim stream_sim l _ 0 _ hinv (by simp only [streamOps] at hsz ⊢; omega)

/-- Round trip, plain codec. -/
theorem C12_roundtrip_plain (l bs : List Nat) (hs : SortedRefs l) (he : encode l = some bs) :
    decodePlain bs = l := by
  have hinv := plainInv0 hs he
  have hsz := plain_sim.size_ok _ _ hinv
  exact drain_sim plain_sim l _ 0 _ hinv (by simp only [plainOps] at hsz ⊢; omega)

/-- Seeking/stepping in the decoded list behaves as in the original list: every script of
    Next/Seek calls yields the same results and the same `At()` values (streamed codec, any
    chunking). -/
theorem C12_seek_streamed (l bs : List Nat) (chunks : List (List Nat)) (hs : SortedRefs l)
    (he : encode l = some bs) (hc : chunks.flatten = bs) (ops : List Op) :
    runG streamOps ops ⟨0, [], chunks⟩ = Ref.run ops ⟨0, l⟩ :=
  run_sim stream_sim ops _ _ (streamInv0 hs he hc)

/-- … and for the plain codec. -/
theorem C12_seek_plain (l bs : List Nat) (hs : SortedRefs l) (he : encode l = some bs)
    (ops : List Op) : runG plainOps ops ⟨0, bs, false⟩ = Ref.run ops ⟨0, l⟩ :=
  run_sim plain_sim ops _ _ (plainInv0 hs he)

/-- the chunking chosen by the compression library is unobservable -/
theorem C12_chunking_irrelevant (l bs : List Nat) (c1 c2 : List (List Nat)) (hs : SortedRefs l)
    (he : encode l = some bs) (h1 : c1.flatten = bs) (h2 : c2.flatten = bs) (ops : List Op) :
    runG streamOps ops ⟨0, [], c1⟩ = runG streamOps ops ⟨0, [], c2⟩ := by
  rw [C12_seek_streamed l bs c1 hs he h1, C12_seek_streamed l bs c2 hs he h2]

/-- a decoded plain iterator never reports an error on what the encoder wrote -/
theorem C12_plain_no_error (l bs : List Nat) (hs : SortedRefs l) (he : encode l = some bs) :
    (plainOps.next ⟨0, bs, false⟩).2.err = false := by
  have h := next_sim plain_sim _ _ (plainInv0 hs he)
  exact h.2.2.1

/-! ### regenerated facts: the order test of the encoders and the guards of Seek -/

theorem C12_order_test_fact :
    Thanos.Facts.postingsEncodeOrderTest = "v < prev" ∧
    Thanos.Facts.postingsStreamedEncodeOrderTest = "v < prev" := by decide

theorem C12_seek_guard_fact :
    Thanos.Facts.postingsSeekGuard = "it.cur >= x" ∧
    Thanos.Facts.postingsStreamedSeekGuard = "it.curSeries >= x" := by decide

/-- the streamed codec writes through `snappy.NewBufferedWriter` (s2 in snappy-compatible mode,
    no `WriterPadding`): its output has identifier, compressed and uncompressed chunks only, so the
    decoder's refusal of padding chunks (type 0xfe) is unreachable from the encoders — the harness
    checks the chunk types of every real encoding -/
theorem C12_writer_fact : Thanos.Facts.snappyStreamWriterCtor = "snappy.NewBufferedWriter(nil)" := by decide

/-! ### non-vacuity -/

-- a list with a duplicate, a two-byte diff and a large gap; its payload cut inside the two-byte
-- varint and with an empty chunk
example : SortedRefs [3, 3, 300, 2 ^ 40] := by simp [Nondec, M64]
example : encode [3, 3, 300, 2 ^ 40] = some [3, 0, 169, 2, 212, 253, 255, 255, 255, 31] := by decide
example : decodeStream [[3, 0, 169], [], [2, 212, 253], [255, 255, 255, 31]] = [3, 3, 300, 2 ^ 40] := by
  decide
example : runG streamOps [.seek 4, .next, .seek 2, .next, .next]
    ⟨0, [], [[3, 0, 169], [], [2, 212, 253], [255, 255, 255, 31]]⟩ =
    [some 300, some (2 ^ 40), some (2 ^ 40), none, none] := by decide
example : encode [5, 3] = none := by decide
-- a cut-off varint at the end of a malformed payload: streamed Next just ends, plain Next sets the error
example : (plainOps.next ⟨0, [129], false⟩).2.err = true := by decide
example : (streamOps.next ⟨0, [129], []⟩).1 = false := by decide

end Thanos.PostingsCodec
