import Thanos.Model.Merge
import Thanos.Lemmas.Chain
import Thanos.Lemmas.Order
import Thanos.Lemmas.Proxy
import Thanos.Lemmas.DedupOnce
import Thanos.Lemmas.KMerge
import Thanos.Lemmas.SortSpec
import Thanos.Lemmas.LoserTreeFrames
import Thanos.Lemmas.Ring
import Thanos.Lemmas.ChunkOrder
import Thanos.Generated.Facts
/-
  C03 — StoreAPI fan-out merge returns each series once, sorted, with all chunks.

  Model: `Model/Merge.lean` (receivers, `sortWithoutLabels`, loser-tree `less`, the response
  deduplicator, `chainSeriesAndRemIdenticalChunks`, the batching server, the response loop) and
  `Model/LoserTree.lean` (pkg/losertree).  `fixed` selects `chainSeriesAndRemIdenticalChunks` before
  (`false`) / after (`true`) the repair of the chunk map key.
-/
namespace Thanos.Merge

/-! ### chunks of one merged series (`chainSeriesAndRemIdenticalChunks`) -/

/-- the chunk hashes tell the chunks apart (xxhash is not modelled: injectivity on the chunks at
    hand is the hypothesis; the harness skips its oracle when a generated case has a collision) -/
def KeyInj (cs : List Chunk) : Prop := ∀ c ∈ cs, ∀ d ∈ cs, keyOf c = keyOf d → c = d

/-- every chunk has some populated field -/
def Populated (cs : List Chunk) : Prop := ∀ c ∈ cs, keyOf c ≠ []

/-- C03, chunk part, at full strength: the merged series carries exactly the distinct chunks the
    stores returned for it — each once — ordered by (MinTime, MaxTime), under the first label set -/
def C03_chunks_full (fixed : Bool) : Prop :=
  ∀ (first : Series) (rest : List Series),
    let all := (first :: rest).flatMap (·.chunks)
    KeyInj all → Populated all →
      (chain fixed first rest).lbls = first.lbls ∧
      (chain fixed first rest).chunks.Nodup ∧
      (∀ c, c ∈ (chain fixed first rest).chunks ↔ c ∈ all) ∧
      (chain fixed first rest).chunks.Pairwise timeLe

theorem chain_lbls (fixed : Bool) (first : Series) (rest : List Series) :
    (chain fixed first rest).lbls = first.lbls := by
  unfold chain
  simp only
  split <;> rfl

/-- The repaired deduplicator (one map key per chunk, made of all populated fields). -/
theorem C03_chunks : C03_chunks_full true := by
  intro first rest all hinj hpop
  refine ⟨chain_lbls true first rest, ?_⟩
  have hv := foldKeyed_values keyOf all hinj hpop
  unfold chain
  simp only
  rw [dedupMap_fixed]
  by_cases hm : (foldKeyed keyOf [] ((first :: rest).flatMap (·.chunks))).isEmpty = true
  · -- nothing in the map: no store sent a chunk
    simp only [hm, if_true]
    have hnil : foldKeyed keyOf [] ((first :: rest).flatMap (·.chunks)) = [] := List.isEmpty_iff.mp hm
    have hall : ∀ c, c ∉ all := by
      intro c hc
      have := (hv.2 c).mpr hc
      rw [show foldKeyed keyOf [] all = [] from hnil] at this
      simp at this
    have hfirst : first.chunks = [] := by
      cases hf : first.chunks with
      | nil => rfl
      | cons c r =>
        exfalso
        apply hall c
        show c ∈ (first :: rest).flatMap (·.chunks)
        simp [hf]
    rw [hfirst]
    refine ⟨List.nodup_nil, ?_, List.Pairwise.nil⟩
    intro c
    simp only [List.not_mem_nil, false_iff]
    exact hall c
  · simp only [hm, if_false, Bool.false_eq_true]
    have hp := sortChunks_perm ((foldKeyed keyOf [] ((first :: rest).flatMap (·.chunks))).map (·.2))
    refine ⟨?_, ?_, sortChunks_sorted _⟩
    · exact hp.nodup_iff.mpr hv.1
    · intro c
      rw [hp.mem_iff]
      exact hv.2 c

/-- The code as it was keeps an aggregated chunk once per populated field: the same chunk
    (Count + Sum populated) delivered by two stores comes out twice. -/
theorem C03_chunks_unfixed_false : ¬ C03_chunks_full false := by
  intro h
  let a : Chunk := { mint := 0, maxt := 10, raw := none, count := some ⟨0, [1, 1], 11⟩,
                     sum := some ⟨0, [2, 2], 22⟩, min := none, max := none, counter := none }
  have := (h { lbls := [], chunks := [a] } [{ lbls := [], chunks := [a] }]
    (by intro c hc d hd _; simp at hc hd; rw [hc, hd])
    (by intro c hc; simp at hc; rw [hc]; decide)).2.1
  revert this
  decide

/-- … and loses a chunk all of whose field hashes already are keys of *other* chunks: with
    B = (Count x, Max y) before A = (Count x), A is dropped although it is a different chunk. -/
theorem C03_chunks_unfixed_loses :
    ∃ (first : Series) (rest : List Series) (c : Chunk),
      KeyInj ((first :: rest).flatMap (·.chunks)) ∧ Populated ((first :: rest).flatMap (·.chunks)) ∧
      c ∈ (first :: rest).flatMap (·.chunks) ∧ c ∉ (chain false first rest).chunks := by
  let a : Chunk := { mint := 60, maxt := 75, raw := none, count := some ⟨0, [1, 1], 11⟩,
                     sum := none, min := none, max := none, counter := none }
  let b : Chunk := { mint := 40, maxt := 40, raw := none, count := some ⟨0, [1, 1], 11⟩,
                     sum := none, min := none, max := some ⟨2, [3, 3], 33⟩, counter := none }
  refine ⟨{ lbls := [], chunks := [b] }, [{ lbls := [], chunks := [a] }], a, ?_, ?_, by decide, by decide⟩
  · intro c hc d hd hk
    simp at hc hd
    rcases hc with rfl | rfl <;> rcases hd with rfl | rfl <;> first | rfl | (revert hk; decide)
  · intro c hc
    simp at hc
    rcases hc with rfl | rfl <;> decide

/-- What the code as it was does guarantee: for chunks with exactly one populated field (raw
    chunks, or a single requested aggregate) whose hashes tell them apart, the same conclusion. -/
theorem C03_chunks_unfixed_partial (first : Series) (rest : List Series)
    (hs : SingleField ((first :: rest).flatMap (·.chunks)))
    (hinj : ∀ c ∈ (first :: rest).flatMap (·.chunks), ∀ d ∈ (first :: rest).flatMap (·.chunks), key1 c = key1 d → c = d) :
    (chain false first rest).chunks.Nodup ∧
    (∀ c, c ∈ (chain false first rest).chunks ↔ c ∈ (first :: rest).flatMap (·.chunks)) ∧
    (chain false first rest).chunks.Pairwise timeLe := by
  have hpop : ∀ c ∈ (first :: rest).flatMap (·.chunks), key1 c ≠ [] := by
    intro c hc
    obtain ⟨i, f, hf⟩ := hs c hc
    simp [key1, hf]
  have hv := foldKeyed_values key1 _ hinj hpop
  have hmap : dedupMap false ((first :: rest).flatMap (·.chunks)) = foldKeyed key1 [] ((first :: rest).flatMap (·.chunks)) := by
    simp only [dedupMap, Bool.false_eq_true, if_false]
    exact dedupMap_unfixed_single _ [] hs
  unfold chain
  simp only
  rw [hmap]
  by_cases hm : (foldKeyed key1 [] ((first :: rest).flatMap (·.chunks))).isEmpty = true
  · simp only [hm, if_true]
    have hnil : foldKeyed key1 [] ((first :: rest).flatMap (·.chunks)) = [] := List.isEmpty_iff.mp hm
    have hall : ∀ c, c ∉ (first :: rest).flatMap (·.chunks) := by
      intro c hc
      have := (hv.2 c).mpr hc
      rw [hnil] at this
      simp at this
    have hfirst : first.chunks = [] := by
      cases hf : first.chunks with
      | nil => rfl
      | cons c r =>
        exfalso
        apply hall c
        simp [hf]
    rw [hfirst]
    refine ⟨List.nodup_nil, ?_, List.Pairwise.nil⟩
    intro c
    simp only [List.not_mem_nil, false_iff]
    exact hall c
  · simp only [hm, if_false, Bool.false_eq_true]
    have hp := sortChunks_perm ((foldKeyed key1 [] ((first :: rest).flatMap (·.chunks))).map (·.2))
    refine ⟨hp.nodup_iff.mpr hv.1, ?_, sortChunks_sorted _⟩
    intro c
    rw [hp.mem_iff]
    exact hv.2 c

/-! ### response batching (`batchableServer`) -/

/-- no batch frames: what the merge hands to `srv.Send` (receivers unpack batches) -/
def NoBatch (fs : List Frame) : Prop := ∀ f ∈ fs, ∀ ss, f ≠ .batch ss

theorem flatten_cons_series (s : Series) (fs : List Frame) : flatten (.series s :: fs) = s :: flatten fs := by
  simp [flatten]

theorem flatten_cons_batch (ss : List Series) (fs : List Frame) : flatten (.batch ss :: fs) = ss ++ flatten fs := by
  simp [flatten]

theorem rebatch_flatten (n : Nat) : ∀ (fs : List Frame) (pend : List Series), NoBatch fs →
    flatten (rebatch n true pend fs) = pend ++ seriesOf fs
  | [], pend, _ => by
    unfold rebatch
    cases pend with
    | nil => simp [flatten, seriesOf]
    | cons a r => simp [flatten, seriesOf]
  | .series s :: rest, pend, h => by
    have h' : NoBatch rest := fun f hf => h f (List.mem_cons_of_mem _ hf)
    unfold rebatch
    simp only
    split
    · rw [flatten_cons_batch, rebatch_flatten n rest [] h']
      simp [seriesOf]
    · rw [rebatch_flatten n rest _ h']
      simp [seriesOf]
  | .warning m :: rest, pend, h => by
    have h' : NoBatch rest := fun f hf => h f (List.mem_cons_of_mem _ hf)
    unfold rebatch
    cases pend with
    | nil =>
      have := rebatch_flatten n rest [] h'
      simpa [flatten, seriesOf] using this
    | cons a r =>
      have := rebatch_flatten n rest [] h'
      simp only [flatten, seriesOf] at this ⊢
      simp [this]
  | .hints m :: rest, pend, h => by
    have h' : NoBatch rest := fun f hf => h f (List.mem_cons_of_mem _ hf)
    unfold rebatch
    cases pend with
    | nil =>
      have := rebatch_flatten n rest [] h'
      simpa [flatten, seriesOf] using this
    | cons a r =>
      have := rebatch_flatten n rest [] h'
      simp only [flatten, seriesOf] at this ⊢
      simp [this]
  | .batch ss :: rest, pend, h => absurd rfl (h (.batch ss) (by simp) ss)

theorem flatten_noBatch : ∀ (fs : List Frame), NoBatch fs → flatten fs = seriesOf fs
  | [], _ => by simp [flatten, seriesOf]
  | f :: rest, h => by
    have h' : NoBatch rest := fun g hg => h g (List.mem_cons_of_mem _ hg)
    have ih := flatten_noBatch rest h'
    cases f with
    | series s => simp only [flatten, seriesOf] at ih ⊢; simp [ih]
    | warning m => simp only [flatten, seriesOf] at ih ⊢; simp [ih]
    | hints m => simp only [flatten, seriesOf] at ih ⊢; simp [ih]
    | batch ss => exact absurd rfl (h (.batch ss) (by simp) ss)

/-- **Batch size independence.**  Whatever `ResponseBatchSize` is, a client that unpacks the
    batches reads the same series in the same order as without batching (and nothing is left in
    the server's buffer: the final `Flush`). -/
theorem C03_batch_independent (batchSize : Nat) (sent : List Frame) (h : NoBatch sent) :
    flatten (serverOut batchSize true sent) = seriesOf sent := by
  unfold serverOut
  split
  · exact flatten_noBatch sent h
  · simpa using rebatch_flatten batchSize sent [] h

/-- batches are never larger than the batch size (n ≥ 1) and never empty -/
theorem rebatch_sizes (n : Nat) (hn : 1 ≤ n) : ∀ (fs : List Frame) (pend : List Series),
    NoBatch fs → pend.length < n →
    ∀ ss, .batch ss ∈ rebatch n true pend fs → 1 ≤ ss.length ∧ ss.length ≤ n
  | [], pend, _, hp, ss, hmem => by
    unfold rebatch at hmem
    cases pend with
    | nil => simp at hmem
    | cons a r =>
      simp at hmem
      subst hmem
      simp at hp ⊢
      omega
  | .series s :: rest, pend, h, hp, ss, hmem => by
    have h' : NoBatch rest := fun f hf => h f (List.mem_cons_of_mem _ hf)
    unfold rebatch at hmem
    simp only at hmem
    split at hmem
    · simp only [List.mem_cons, Frame.batch.injEq] at hmem
      rcases hmem with rfl | hmem
      · simp at *; omega
      · exact rebatch_sizes n hn rest [] h' (by simp; omega) ss hmem
    · rename_i hlt
      exact rebatch_sizes n hn rest _ h' (by simp at hlt ⊢; omega) ss hmem
  | .warning m :: rest, pend, h, hp, ss, hmem => by
    have h' : NoBatch rest := fun f hf => h f (List.mem_cons_of_mem _ hf)
    unfold rebatch at hmem
    simp only [List.mem_append, List.mem_cons] at hmem
    rcases hmem with hmem | hmem | hmem
    · cases pend with
      | nil => simp at hmem
      | cons a r => simp at hmem; subst hmem; simp at hp ⊢; omega
    · cases hmem
    · exact rebatch_sizes n hn rest [] h' (by simp; omega) ss hmem
  | .hints m :: rest, pend, h, hp, ss, hmem => by
    have h' : NoBatch rest := fun f hf => h f (List.mem_cons_of_mem _ hf)
    unfold rebatch at hmem
    simp only [List.mem_append, List.mem_cons] at hmem
    rcases hmem with hmem | hmem | hmem
    · cases pend with
      | nil => simp at hmem
      | cons a r => simp at hmem; subst hmem; simp at hp ⊢; omega
    · cases hmem
    · exact rebatch_sizes n hn rest [] h' (by simp; omega) ss hmem
  | .batch b :: rest, pend, h, _, _, _ => absurd rfl (h (.batch b) (by simp) b)

/-! ### end to end: sorted, each label set once, exactly the delivered chunks

  The k-way merge enters as a parameter with the specification `MergeSpec` (`IsKMerge`,
  `Lemmas/KMerge.lean`): the merged stream is built by repeatedly taking a head that no other head
  has to precede.  That pkg/losertree meets it is `losertree_refines` below. -/

def MergeSpec (merge : List (List Frame) → List Frame) : Prop := ∀ sets, IsKMerge sets (merge sets)

theorem mergeMem_of_spec {merge : List (List Frame) → List Frame} (h : MergeSpec merge) : MergeMem merge :=
  fun sets x => (h sets).mem x

/-- the StoreAPI contract ("Series has to be sorted") for the stores that are read in the order
    they send; stores that are re-sorted by the proxy need nothing -/
def StoresSorted (rq : Request) (stores : List Store) : Prop :=
  ∀ st ∈ stores, ReadInOrder rq st = true → (storeSeries st.frames).Pairwise (fun a b => lblLe a.lbls b.lbls)

/-- a series response that reaches the merge from a store that opened -/
def Delivered (rq : Request) (stores : List Store) (s : Series) : Prop :=
  ∃ st ∈ stores, st.openErr = false ∧ Frame.series s ∈ respSet rq.lazy rq.sharded rq.without st

/-- what a client reads (batches unpacked) under the warn strategy without limit: the series of the
    (deduplicated) merged stream, whatever the batch size -/
theorem flatten_proxy_warn (merge : List (List Frame) → List Frame) (hm : MergeMem merge)
    (rq : Request) (stores : List Store) (hab : rq.abort = false) (hlim : rq.limit = 0) :
    flatten (proxySeriesWith merge rq stores).1 =
      seriesOf (if rq.dedup then dedup rq.fixedDedup (merge (fanOut rq stores).2.1) else merge (fanOut rq stores).2.1) := by
  have hfo := fanOut_warn rq hab stores
  have hmergeNB : ∀ f ∈ merge (fanOut rq stores).2.1, ∀ ss, f ≠ .batch ss := by
    intro f hf
    obtain ⟨set, hset, hfs⟩ := (hm _ _).mp hf
    exact fanOut_sets_noBatch rq stores set hset f hfs
  have hnb : ∀ f ∈ (if rq.dedup then dedup rq.fixedDedup (merge (fanOut rq stores).2.1) else merge (fanOut rq stores).2.1),
      ∀ ss, f ≠ .batch ss := by
    split
    · exact dedup_noBatch _ _ none [] hmergeNB (by simp)
    · exact hmergeNB
  rw [proxy_warn_eq merge rq stores hab hlim, C03_batch_independent]
  · rw [seriesOf_append, seriesOf_nonSeries _ (fun x hx => by
      obtain ⟨m, rfl⟩ := hfo.2.2.2 x hx; rfl)]; rfl
  · intro f hf ss
    simp only [List.mem_append] at hf
    rcases hf with hf | hf
    · intro heq; subst heq
      obtain ⟨m, hm'⟩ := hfo.2.2.2 _ hf
      cases hm'
    · exact hnb f hf ss

/-- **C03, sorted and once.**  For any number of stores that each stream label-sorted series
    (split over frames, batched, duplicated across stores, warnings / hints interleaved, some of
    them failing mid-stream), lazy or eager retrieval, any buffer and batch size, with or without
    replica-label removal and re-sort: the proxied answer lists the series strictly increasing by
    labels — sorted, each label set once. -/
theorem C03_sorted_once (merge : List (List Frame) → List Frame) (hm : MergeSpec merge)
    (rq : Request) (stores : List Store) (hab : rq.abort = false) (hlim : rq.limit = 0)
    (hd : rq.dedup = true) (hs : StoresSorted rq stores) :
    (flatten (proxySeriesWith merge rq stores).1).Pairwise (fun a b => cmpLabels a.lbls b.lbls = .lt) := by
  rw [flatten_proxy_warn merge (mergeMem_of_spec hm) rq stores hab hlim]
  simp only [hd, if_true]
  have hsets : ∀ set ∈ (fanOut rq stores).2.1, StreamSorted set := by
    intro set hset
    obtain ⟨st, hst, _, rfl⟩ := fanOut_sets_from rq stores set hset
    exact respSet_sorted rq st (hs st hst)
  have := (hm (fanOut rq stores).2.1).sorted hsets
  exact (dedupGo_sorted rq.fixedDedup _ none [] (by intro x hx; simp at hx) this (by intro f r h; simp at h)).1

/-- **C03, exactly the delivered chunks.**  With the repaired deduplicator and chunk keys that tell
    the delivered chunks apart: (a) every delivered series is represented by an answer series with
    the same labels that carries all of its chunks; (b) every answer series has the labels of a
    delivered series, and its chunks are without repetition, ordered by (MinTime, MaxTime), and each
    of them was delivered by some store for these labels. -/
theorem C03_exact (merge : List (List Frame) → List Frame) (hm : MergeMem merge)
    (rq : Request) (stores : List Store) (hab : rq.abort = false) (hlim : rq.limit = 0)
    (hd : rq.dedup = true) (hfix : rq.fixedDedup = true)
    (hkeys : ∀ ss : List Series, (∀ s ∈ ss, Delivered rq stores s) →
      KeyInj (ss.flatMap (·.chunks)) ∧ Populated (ss.flatMap (·.chunks))) :
    (∀ s, Delivered rq stores s → ∃ o ∈ flatten (proxySeriesWith merge rq stores).1,
        cmpLabels o.lbls s.lbls = .eq ∧ ∀ c ∈ s.chunks, c ∈ o.chunks) ∧
    (∀ o ∈ flatten (proxySeriesWith merge rq stores).1,
        o.chunks.Nodup ∧ o.chunks.Pairwise timeLe ∧
        (∃ s, Delivered rq stores s ∧ o.lbls = s.lbls) ∧
        (∀ c ∈ o.chunks, ∃ s, Delivered rq stores s ∧ cmpLabels o.lbls s.lbls = .eq ∧ c ∈ s.chunks)) := by
  rw [flatten_proxy_warn merge hm rq stores hab hlim]
  simp only [hd, if_true, hfix]
  have hfo := fanOut_warn rq hab stores
  have hdel : ∀ x, x ∈ seriesOf (merge (fanOut rq stores).2.1) → Delivered rq stores x := by
    intro x hx
    obtain ⟨set, hset, hxs⟩ := (hm _ _).mp (mem_seriesOf.mp hx)
    obtain ⟨st, hst, ho, rfl⟩ := fanOut_sets_from rq stores set hset
    exact ⟨st, hst, ho, hxs⟩
  constructor
  · rintro s ⟨st, hst, ho, hs⟩
    have hsm : s ∈ seriesOf (merge (fanOut rq stores).2.1) :=
      mem_seriesOf.mpr ((hm _ _).mpr ⟨_, hfo.2.2.1 st hst ho, hs⟩)
    obtain ⟨f, r, hmem, hsf, hr, hprov⟩ := dedupGo_series' true (merge (fanOut rq stores).2.1) none [] s
      (by intro f r h; simp at h) (Or.inl hsm)
    refine ⟨chain true f r, mem_seriesOf.mpr hmem, ?_, ?_⟩
    · rw [chain_lbls]
      simp only [List.mem_cons] at hsf
      rcases hsf with rfl | hsf
      · exact cmpLabels_refl _
      · exact hr s hsf
    · have hk := hkeys (f :: r) (by
        intro x hx
        rcases hprov x hx with h | ⟨_, _, h, _⟩
        · exact hdel x h
        · simp at h)
      intro c hc
      exact ((C03_chunks f r hk.1 hk.2).2.2.1 c).mpr (by
        simp only [List.mem_flatMap]; exact ⟨s, hsf, hc⟩)
  · intro o ho
    obtain ⟨f, r, rfl, hmem, hr⟩ := dedupGo_groups true (merge (fanOut rq stores).2.1) none []
      (by intro x hx; simp at hx) (by intro f r h; simp at h) o ho
    have hall : ∀ x ∈ f :: r, Delivered rq stores x := by
      intro x hx
      rcases hmem x hx with h | ⟨_, _, h, _⟩
      · exact hdel x h
      · simp at h
    have hk := hkeys (f :: r) hall
    obtain ⟨hl, hnd, hiff, hsorted⟩ := C03_chunks f r hk.1 hk.2
    refine ⟨hnd, hsorted, ⟨f, hall f (by simp), hl⟩, ?_⟩
    intro c hc
    obtain ⟨x, hx, hcx⟩ := List.mem_flatMap.mp ((hiff c).mp hc)
    refine ⟨x, hall x hx, ?_, hcx⟩
    rw [hl]
    simp only [List.mem_cons] at hx
    rcases hx with rfl | hx
    · exact cmpLabels_refl _
    · exact hr x hx

theorem fanOut_batch (rq : Request) (b : Nat) : ∀ stores : List Store,
    fanOut { rq with batchSize := b } stores = fanOut rq stores
  | [] => rfl
  | st :: rest => by
    unfold fanOut
    rw [fanOut_batch rq b rest]

/-- **Configuration independence (batch size).**  Two requests that differ only in
    `ResponseBatchSize` give a client that unpacks batches the very same list of series. -/
theorem C03_batch_size_independent (merge : List (List Frame) → List Frame) (hm : MergeMem merge)
    (rq : Request) (b1 b2 : Nat) (stores : List Store) (hab : rq.abort = false) (hlim : rq.limit = 0) :
    flatten (proxySeriesWith merge { rq with batchSize := b1 } stores).1 =
    flatten (proxySeriesWith merge { rq with batchSize := b2 } stores).1 := by
  have h1 := flatten_proxy_warn merge hm { rq with batchSize := b1 } stores hab hlim
  have h2 := flatten_proxy_warn merge hm { rq with batchSize := b2 } stores hab hlim
  rw [h1, h2]
  simp only [fanOut_batch]

/-- **Configuration independence (retrieval strategy).**  Lazy and eager retrieval deliver the same
    series responses to the merge (eager only permutes a store's responses), so `C03_sorted_once`
    and `C03_exact` describe the answer of both in the same terms; the lazy buffer size does not
    occur in the model at all (the ring buffer is a FIFO). -/
theorem C03_delivered_lazy_eager (rq : Request) (stores : List Store) (s : Series) :
    Delivered { rq with lazy := true } stores s ↔ Delivered { rq with lazy := false } stores s := by
  have key : ∀ st : Store, Frame.series s ∈ respSet true rq.sharded rq.without st ↔
      Frame.series s ∈ respSet false rq.sharded rq.without st := by
    intro st
    unfold respSet
    simp only [Bool.true_and, Bool.false_and, Bool.false_eq_true, if_false]
    split
    · rename_i h
      have hnr : (!st.supportsWithout && !rq.without.isEmpty) = false := by
        cases h1 : (!st.supportsWithout && !rq.without.isEmpty) with
        | false => rfl
        | true => simp [h1] at h
      simp only [hnr, Bool.false_eq_true, if_false]
      unfold sortWithoutLabels
      rw [(goInsertionSort_perm _).mem_iff]
      simp only [List.isEmpty_nil, if_true]
      constructor
      · intro hm
        exact List.mem_map.mpr ⟨_, hm, rfl⟩
      · intro hm
        obtain ⟨g, hg, hgs⟩ := List.mem_map.mp hm
        cases g <;> simp_all
    · rfl
  constructor
  · rintro ⟨st, hst, ho, h⟩; exact ⟨st, hst, ho, (key st).mp h⟩
  · rintro ⟨st, hst, ho, h⟩; exact ⟨st, hst, ho, (key st).mpr h⟩

/-- **The loser tree refines the k-way merge.**  pkg/losertree as transliterated in
    `Model/LoserTree.lean` (`New`, `moveNext`, `initialize`/`playGame`, `Next`, `replayGames`), with the
    comparator of `NewProxyResponseLoserTree`, delivers a k-way merge (`IsKMerge`) of the response
    sets — for any number of stores and any stream lengths.  Proof: `Lemmas/LoserTree*.lean`
    (tournament invariant with a ghost "winner of the subtree" function; `playGame` establishes it,
    `replayGames` restores it after the winner's leaf advanced; the comparator refines the total
    preorder "non-series first, series by labels, exhausted last" although it is not a strict weak
    order on warnings/hints). -/
theorem losertree_refines : MergeSpec treeMerge := treeMerge_isKMerge

/-- `C03_sorted_once` for the model the driver runs against the real `ProxyStore.Series` -/
theorem C03_sorted_once_tree (rq : Request) (stores : List Store) (hab : rq.abort = false)
    (hlim : rq.limit = 0) (hd : rq.dedup = true) (hs : StoresSorted rq stores) :
    (flatten (proxySeries rq stores).1).Pairwise (fun a b => cmpLabels a.lbls b.lbls = .lt) :=
  C03_sorted_once treeMerge losertree_refines rq stores hab hlim hd hs

/-- `C03_exact` for the model the driver runs -/
theorem C03_exact_tree (rq : Request) (stores : List Store) (hab : rq.abort = false) (hlim : rq.limit = 0)
    (hd : rq.dedup = true) (hfix : rq.fixedDedup = true)
    (hkeys : ∀ ss : List Series, (∀ s ∈ ss, Delivered rq stores s) →
      KeyInj (ss.flatMap (·.chunks)) ∧ Populated (ss.flatMap (·.chunks))) :
    (∀ s, Delivered rq stores s → ∃ o ∈ flatten (proxySeries rq stores).1,
        cmpLabels o.lbls s.lbls = .eq ∧ ∀ c ∈ s.chunks, c ∈ o.chunks) ∧
    (∀ o ∈ flatten (proxySeries rq stores).1,
        o.chunks.Nodup ∧ o.chunks.Pairwise timeLe ∧
        (∃ s, Delivered rq stores s ∧ o.lbls = s.lbls) ∧
        (∀ c ∈ o.chunks, ∃ s, Delivered rq stores s ∧ cmpLabels o.lbls s.lbls = .eq ∧ c ∈ s.chunks)) :=
  C03_exact treeMerge (mergeMem_of_spec losertree_refines) rq stores hab hlim hd hfix hkeys

/-! ### literal configuration independence

  With the full order of `AggrChunk.Compare` (`Lemmas/ChunkOrder.lean`: a lexicographic product of
  lawful comparisons, so the sorted chunk list is determined by its set) the answer a client reads
  is *literally the same list* for lazy and eager retrieval and any batch size (the buffer size is
  covered by `C03_ring_fifo`). -/

theorem mem_respSet_lazy_eager (sharded : Bool) (without : List Bytes) (st : Store) (s : Series) :
    Frame.series s ∈ respSet true sharded without st ↔ Frame.series s ∈ respSet false sharded without st := by
  unfold respSet
  simp only [Bool.true_and, Bool.false_and, Bool.false_eq_true, if_false]
  split
  · rename_i h
    have hnr : (!st.supportsWithout && !without.isEmpty) = false := by
      cases h1 : (!st.supportsWithout && !without.isEmpty) with
      | false => rfl
      | true => simp [h1] at h
    simp only [hnr, Bool.false_eq_true, if_false]
    unfold sortWithoutLabels
    rw [(goInsertionSort_perm _).mem_iff]
    simp only [List.isEmpty_nil, if_true]
    constructor
    · intro hm
      exact List.mem_map.mpr ⟨_, hm, rfl⟩
    · intro hm
      obtain ⟨g, hg, hgs⟩ := List.mem_map.mp hm
      cases g <;> simp_all
  · rfl

theorem delivered_congr (rq1 rq2 : Request) (hs : rq1.sharded = rq2.sharded) (hw : rq1.without = rq2.without)
    (stores : List Store) (s : Series) : Delivered rq1 stores s → Delivered rq2 stores s := by
  rintro ⟨st, hst, ho, h⟩
  refine ⟨st, hst, ho, ?_⟩
  rw [← hs, ← hw]
  cases h1 : rq1.lazy <;> cases h2 : rq2.lazy <;> rw [h1] at h
  · exact h
  · exact (mem_respSet_lazy_eager _ _ st s).mpr h
  · exact (mem_respSet_lazy_eager _ _ st s).mp h
  · exact h

theorem pairwise_lt_member_unique : ∀ (l : List Series),
    l.Pairwise (fun a b => cmpLabels a.lbls b.lbls = .lt) → ∀ a ∈ l, ∀ b ∈ l,
    cmpLabels a.lbls b.lbls = .eq → a = b
  | [], _, a, ha, _, _, _ => by simp at ha
  | x :: r, h, a, ha, b, hb, he => by
    have hc := List.pairwise_cons.mp h
    simp only [List.mem_cons] at ha hb
    rcases ha with rfl | ha <;> rcases hb with rfl | hb
    · rfl
    · have := hc.1 b hb; rw [he] at this; simp at this
    · have := hc.1 a ha
      have hgt := (cmpLabels_swap _ _).mp this
      rw [he] at hgt; simp at hgt
    · exact pairwise_lt_member_unique r hc.2 a ha b hb he

theorem sortedSeries_unique : ∀ (l1 l2 : List Series),
    l1.Pairwise (fun a b => cmpLabels a.lbls b.lbls = .lt) →
    l2.Pairwise (fun a b => cmpLabels a.lbls b.lbls = .lt) → (∀ x, x ∈ l1 ↔ x ∈ l2) → l1 = l2
  | [], [], _, _, _ => rfl
  | [], b :: l2, _, _, hm => by have := (hm b).mpr (by simp); simp at this
  | a :: l1, [], _, _, hm => by have := (hm a).mp (by simp); simp at this
  | a :: l1, b :: l2, h1, h2, hm => by
    have h1c := List.pairwise_cons.mp h1
    have h2c := List.pairwise_cons.mp h2
    have hirr : ∀ x : Series, cmpLabels x.lbls x.lbls ≠ .lt := fun x => by rw [cmpLabels_refl]; simp
    have hab : a = b := by
      have ha2 : a ∈ b :: l2 := (hm a).mp (by simp)
      have hb1 : b ∈ a :: l1 := (hm b).mpr (by simp)
      simp only [List.mem_cons] at ha2 hb1
      rcases ha2 with h | ha2
      · exact h
      · rcases hb1 with h | hb1
        · exact h.symm
        · have hlt1 := h1c.1 b hb1
          have hlt2 := h2c.1 a ha2
          have := (cmpLabels_swap _ _).mp hlt2
          rw [hlt1] at this; simp at this
    subst hab
    congr 1
    apply sortedSeries_unique l1 l2 h1c.2 h2c.2
    intro x
    constructor
    · intro hx
      have := (hm x).mp (List.mem_cons_of_mem _ hx)
      simp only [List.mem_cons] at this
      rcases this with rfl | h
      · exact absurd (h1c.1 x hx) (hirr x)
      · exact h
    · intro hx
      have := (hm x).mpr (List.mem_cons_of_mem _ hx)
      simp only [List.mem_cons] at this
      rcases this with rfl | h
      · exact absurd (h2c.1 x hx) (hirr x)
      · exact h

/-- the chunk list of a merged series is sorted by the *full* order of `AggrChunk.Compare` -/
theorem chain_sortedFull (fixed : Bool) (first : Series) (rest : List Series)
    (hpop : ∀ c ∈ (first :: rest).flatMap (·.chunks), (dedupMap fixed ((first :: rest).flatMap (·.chunks))).isEmpty = false) :
    (chain fixed first rest).chunks.Pairwise chunkLe := by
  unfold chain
  simp only
  split
  · rename_i hm
    cases hf : first.chunks with
    | nil => exact List.Pairwise.nil
    | cons c r =>
      have := hpop c (by simp [hf])
      rw [hm] at this; simp at this
  · exact sortChunks_sortedFull _

/-- every answer series carries its chunks in the full `Compare` order -/
theorem C03_chunks_sortedFull (merge : List (List Frame) → List Frame) (hm : MergeMem merge)
    (rq : Request) (stores : List Store) (hab : rq.abort = false) (hlim : rq.limit = 0)
    (hd : rq.dedup = true) (hfix : rq.fixedDedup = true)
    (hkeys : ∀ ss : List Series, (∀ s ∈ ss, Delivered rq stores s) →
      KeyInj (ss.flatMap (·.chunks)) ∧ Populated (ss.flatMap (·.chunks))) :
    ∀ o ∈ flatten (proxySeriesWith merge rq stores).1, o.chunks.Pairwise chunkLe := by
  rw [flatten_proxy_warn merge hm rq stores hab hlim]
  simp only [hd, if_true, hfix]
  intro o ho
  obtain ⟨f, r, rfl, hmem, _⟩ := dedupGo_groups true (merge (fanOut rq stores).2.1) none []
    (by intro x hx; simp at hx) (by intro f r h; simp at h) o ho
  have hall : ∀ x ∈ f :: r, Delivered rq stores x := by
    intro x hx
    rcases hmem x hx with h | ⟨_, _, h, _⟩
    · obtain ⟨set, hset, hxs⟩ := (hm _ _).mp (mem_seriesOf.mp h)
      obtain ⟨st, hst, ho', rfl⟩ := fanOut_sets_from rq stores set hset
      exact ⟨st, hst, ho', hxs⟩
    · simp at h
  have hk := hkeys (f :: r) hall
  apply chain_sortedFull
  intro c hc
  -- a populated chunk makes the map non-empty
  have hv := foldKeyed_values keyOf _ hk.1 hk.2
  rw [dedupMap_fixed]
  cases hE : (foldKeyed keyOf [] ((f :: r).flatMap (·.chunks))).isEmpty with
  | false => rfl
  | true =>
    have hnil : foldKeyed keyOf [] ((f :: r).flatMap (·.chunks)) = [] := List.isEmpty_iff.mp hE
    have := (hv.2 c).mpr hc
    rw [hnil] at this; simp at this

/-- a chunk some store delivered -/
def DeliveredChunk (rq : Request) (stores : List Store) (c : Chunk) : Prop :=
  ∃ s, Delivered rq stores s ∧ c ∈ s.chunks

/-- **C03, configuration independence, literally.**  Two requests that differ only in the retrieval
    strategy and the response batch size are answered with the very same list of series — same
    order, same labels, same chunk lists — provided the delivered chunks are told apart by their
    keys (`KeyInj`) and by their visible content (`ckey`: equal time range, encodings and data ⇒
    equal hashes, i.e. the hash is a function of the data). -/
theorem C03_config_independent (merge : List (List Frame) → List Frame) (hm : MergeSpec merge)
    (rq1 rq2 : Request) (stores : List Store)
    (hab1 : rq1.abort = false) (hlim1 : rq1.limit = 0) (hd1 : rq1.dedup = true) (hfix1 : rq1.fixedDedup = true)
    (hab2 : rq2.abort = false) (hlim2 : rq2.limit = 0) (hd2 : rq2.dedup = true) (hfix2 : rq2.fixedDedup = true)
    (hsh : rq1.sharded = rq2.sharded) (hwo : rq1.without = rq2.without)
    (hs1 : StoresSorted rq1 stores) (hs2 : StoresSorted rq2 stores)
    (hkeys : ∀ ss : List Series, (∀ s ∈ ss, Delivered rq1 stores s) →
      KeyInj (ss.flatMap (·.chunks)) ∧ Populated (ss.flatMap (·.chunks)))
    (hvis : ∀ c d, DeliveredChunk rq1 stores c → DeliveredChunk rq1 stores d → ckey c = ckey d → c = d) :
    flatten (proxySeriesWith merge rq1 stores).1 = flatten (proxySeriesWith merge rq2 stores).1 := by
  have hmm := mergeMem_of_spec hm
  have d12 := delivered_congr rq1 rq2 hsh hwo stores
  have d21 := delivered_congr rq2 rq1 hsh.symm hwo.symm stores
  have hkeys2 : ∀ ss : List Series, (∀ s ∈ ss, Delivered rq2 stores s) →
      KeyInj (ss.flatMap (·.chunks)) ∧ Populated (ss.flatMap (·.chunks)) :=
    fun ss h => hkeys ss (fun s hs => d21 s (h s hs))
  have so1 := C03_sorted_once merge hm rq1 stores hab1 hlim1 hd1 hs1
  have so2 := C03_sorted_once merge hm rq2 stores hab2 hlim2 hd2 hs2
  have ex1 := C03_exact merge hmm rq1 stores hab1 hlim1 hd1 hfix1 hkeys
  have ex2 := C03_exact merge hmm rq2 stores hab2 hlim2 hd2 hfix2 hkeys2
  have sf1 := C03_chunks_sortedFull merge hmm rq1 stores hab1 hlim1 hd1 hfix1 hkeys
  have sf2 := C03_chunks_sortedFull merge hmm rq2 stores hab2 hlim2 hd2 hfix2 hkeys2
  generalize flatten (proxySeriesWith merge rq1 stores).1 = out1 at *
  generalize flatten (proxySeriesWith merge rq2 stores).1 = out2 at *
  -- one direction, stated symmetrically
  have half : ∀ (rqa rqb : Request) (outa outb : List Series),
      (∀ s, Delivered rqa stores s → Delivered rqb stores s) →
      (∀ s, Delivered rqb stores s → Delivered rqa stores s) →
      (∀ c d, DeliveredChunk rqa stores c → DeliveredChunk rqa stores d → ckey c = ckey d → c = d) →
      outa.Pairwise (fun a b => cmpLabels a.lbls b.lbls = .lt) →
      outb.Pairwise (fun a b => cmpLabels a.lbls b.lbls = .lt) →
      ((∀ s, Delivered rqa stores s → ∃ o ∈ outa, cmpLabels o.lbls s.lbls = .eq ∧ ∀ c ∈ s.chunks, c ∈ o.chunks) ∧
       (∀ o ∈ outa, o.chunks.Nodup ∧ o.chunks.Pairwise timeLe ∧ (∃ s, Delivered rqa stores s ∧ o.lbls = s.lbls) ∧
         (∀ c ∈ o.chunks, ∃ s, Delivered rqa stores s ∧ cmpLabels o.lbls s.lbls = .eq ∧ c ∈ s.chunks))) →
      ((∀ s, Delivered rqb stores s → ∃ o ∈ outb, cmpLabels o.lbls s.lbls = .eq ∧ ∀ c ∈ s.chunks, c ∈ o.chunks) ∧
       (∀ o ∈ outb, o.chunks.Nodup ∧ o.chunks.Pairwise timeLe ∧ (∃ s, Delivered rqb stores s ∧ o.lbls = s.lbls) ∧
         (∀ c ∈ o.chunks, ∃ s, Delivered rqb stores s ∧ cmpLabels o.lbls s.lbls = .eq ∧ c ∈ s.chunks))) →
      (∀ o ∈ outa, o.chunks.Pairwise chunkLe) → (∀ o ∈ outb, o.chunks.Pairwise chunkLe) →
      ∀ o ∈ outa, o ∈ outb := by
    intro rqa rqb outa outb dab dba hv soa sob exa exb sfa sfb oa hoa
    obtain ⟨hnda, _, ⟨s, hsd, hsl⟩, hfrom⟩ := exa.2 oa hoa
    obtain ⟨ob, hob, hobl, _⟩ := exb.1 s (dab s hsd)
    have hlbl : ob.lbls = oa.lbls := by rw [cmpLabels_eq hobl, hsl]
    obtain ⟨hndb, _, _, hfromb⟩ := exb.2 ob hob
    have hmem : ∀ c, c ∈ oa.chunks ↔ c ∈ ob.chunks := by
      intro c
      constructor
      · intro hc
        obtain ⟨s', hs'd, hs'l, hcs'⟩ := hfrom c hc
        obtain ⟨ob', hob', hob'l, hall⟩ := exb.1 s' (dab s' hs'd)
        have : ob' = ob := by
          apply pairwise_lt_member_unique outb sob ob' hob' ob hob
          rw [cmpLabels_eq hob'l, ← cmpLabels_eq hs'l, hlbl]; exact cmpLabels_refl _
        rw [← this]; exact hall c hcs'
      · intro hc
        obtain ⟨s', hs'd, hs'l, hcs'⟩ := hfromb c hc
        obtain ⟨oa', hoa', hoa'l, hall⟩ := exa.1 s' (dba s' hs'd)
        have : oa' = oa := by
          apply pairwise_lt_member_unique outa soa oa' hoa' oa hoa
          rw [cmpLabels_eq hoa'l, ← cmpLabels_eq hs'l, hlbl]; exact cmpLabels_refl _
        rw [← this]; exact hall c hcs'
    have hchunks : oa.chunks = ob.chunks := by
      apply sorted_unique _ _ (sfa oa hoa) (sfb ob hob) hnda hndb hmem
      intro c hc d hd hk
      obtain ⟨sc, hscd, _, hcsc⟩ := hfrom c hc
      obtain ⟨sd, hsdd, _, hdsd⟩ := hfrom d hd
      exact hv c d ⟨sc, hscd, hcsc⟩ ⟨sd, hsdd, hdsd⟩ hk
    have : oa = ob := by
      cases oa; cases ob
      simp only at hlbl hchunks
      rw [hlbl, hchunks]
    rw [this]; exact hob
  apply sortedSeries_unique out1 out2 so1 so2
  intro x
  constructor
  · exact half rq1 rq2 out1 out2 d12 d21 hvis so1 so2 ex1 ex2 sf1 sf2 x
  · refine half rq2 rq1 out2 out1 d21 d12 ?_ so2 so1 ex2 ex1 sf2 sf1 x
    rintro c d ⟨sc, hsc, hc⟩ ⟨sd, hsd, hd⟩ hk
    exact hvis c d ⟨sc, d21 sc hsc, hc⟩ ⟨sd, d21 sd hsd, hd⟩ hk

/-- … for the merge the proxy uses -/
theorem C03_config_independent_tree (rq1 rq2 : Request) (stores : List Store)
    (hab1 : rq1.abort = false) (hlim1 : rq1.limit = 0) (hd1 : rq1.dedup = true) (hfix1 : rq1.fixedDedup = true)
    (hab2 : rq2.abort = false) (hlim2 : rq2.limit = 0) (hd2 : rq2.dedup = true) (hfix2 : rq2.fixedDedup = true)
    (hsh : rq1.sharded = rq2.sharded) (hwo : rq1.without = rq2.without)
    (hs1 : StoresSorted rq1 stores) (hs2 : StoresSorted rq2 stores)
    (hkeys : ∀ ss : List Series, (∀ s ∈ ss, Delivered rq1 stores s) →
      KeyInj (ss.flatMap (·.chunks)) ∧ Populated (ss.flatMap (·.chunks)))
    (hvis : ∀ c d, DeliveredChunk rq1 stores c → DeliveredChunk rq1 stores d → ckey c = ckey d → c = d) :
    flatten (proxySeries rq1 stores).1 = flatten (proxySeries rq2 stores).1 :=
  C03_config_independent treeMerge losertree_refines rq1 rq2 stores hab1 hlim1 hd1 hfix1 hab2 hlim2 hd2 hfix2
    hsh hwo hs1 hs2 hkeys hvis

/-! ### the lazy buffer -/

/-- **Any lazy buffer size.**  The ring buffer between a lazy receiver and the merge
    (`lazyRetrievalMaxBufferedResponses` slots) is a FIFO queue of that capacity under every
    interleaving of producer and consumer steps (a producer step on a full buffer / a consumer step
    on an empty one is not enabled: the goroutine waits on the condition variable).  Hence a lazy
    response set hands the merge the store's responses in arrival order whatever the buffer size —
    the reason the buffer size does not occur in `respSet`. -/
theorem C03_ring_fifo {α : Type} (maxBuffered : Nat) (ops : List (Ring.Op α)) :
    (Ring.run (Ring.Ring.new maxBuffered) ops).1 = (Ring.runQueue maxBuffered [] ops).1 := by
  have := (Ring.run_refines (maxBuffered + 1) ops (Ring.Ring.new maxBuffered) [] (Ring.rep_new maxBuffered)).1
  simpa using this

/-! ### why the re-sort after stripping replica labels is unconditional

  A store that cannot strip replica labels streams its series in `labels.Compare` order *with*
  the replica label.  "Dropping a label that every series carries with the same value keeps the
  order" is the lemma an optimisation that skips the sort for a constant replica value would
  need.  It is false: `rmLabels` is not monotone for `labels.Compare`, because a proper-prefix pair
  is ordered by the *name* that follows the common prefix — `{job, path, replica}` comes before
  `{job, replica}` (path < replica) but `{job}` comes before `{job, path}`. -/

private def lJob : Bytes × Bytes := ([106, 111, 98], [97, 112, 105])          -- job="api"
private def lPath : Bytes × Bytes := ([112, 97, 116, 104], [47, 120])         -- path="/x"
private def lReplica : Bytes × Bytes := ([114, 101, 112, 108, 105, 99, 97], [114, 49])  -- replica="r1"
private def lZone : Bytes × Bytes := ([122, 111, 110, 101], [97])             -- zone="a"

/-- refutation of the monotonicity lemma, for a single replica label with a constant value -/
theorem rmLabels_not_monotone :
    ¬ (∀ (a b : Labels) (names : List Bytes),
        (∀ n ∈ names, a.lookup n ≠ none ∧ a.lookup n = b.lookup n) →
        cmpLabels a b = .lt → cmpLabels (rmLabels a names) (rmLabels b names) ≠ .gt) := by
  intro h
  have := h [lJob, lPath, lReplica] [lJob, lReplica] [lReplica.1] (by decide) (by decide)
  revert this
  decide

/-- when the extra label sorts *after* the replica label the pair keeps its order — the shape of
    the label sets, not the replica value, decides -/
example : cmpLabels [lJob, lReplica] [lJob, lReplica, lZone] = .lt ∧
    cmpLabels (rmLabels [lJob, lReplica] [lReplica.1]) (rmLabels [lJob, lReplica, lZone] [lReplica.1]) = .lt := by decide

/-- the model's `sortWithoutLabels` on the witness: the stream arrives in store order and leaves
    re-ordered; stripping alone would hand an unsorted stream to the merge -/
theorem sortWithoutLabels_reorders_constant_replica :
    sortWithoutLabels [.series ⟨[lJob, lPath, lReplica], []⟩, .series ⟨[lJob, lReplica], []⟩] [lReplica.1]
      = [.series ⟨[lJob], []⟩, .series ⟨[lJob, lPath], []⟩] ∧
    cmpLabels (rmLabels [lJob, lPath, lReplica] [lReplica.1]) (rmLabels [lJob, lReplica] [lReplica.1]) = .gt := by decide

/-! ### regenerated facts -/

/-- the order in which `chainSeriesAndRemIdenticalChunks` walks the fields (`dedupFields`) -/
theorem C03_fact_field_order :
    Thanos.Facts.chainFieldOrder = ["chk.Raw", "chk.Count", "chk.Max", "chk.Min", "chk.Sum", "chk.Counter"] := by decide

/-- the comparator handed to `sort.Slice` (`chunkBefore`) -/
theorem C03_fact_sort : Thanos.Facts.chainSortLess = "finalChunks[i].Compare(finalChunks[j]) > 0" := by decide

/-- `batchableServer.Send` flushes at `len(b.series) >= b.batchSize` (`rebatch`) and the response
    loop of `Series` stops at `r.Limit > 0 && i > int(r.Limit)` (`respLoop`) -/
theorem C03_fact_batch_limit :
    Thanos.Facts.batchFlushCond = "len(b.series) >= b.batchSize" ∧
    Thanos.Facts.seriesLimitCond = "r.Limit > 0 && i > int(r.Limit)" := by decide

/-- `sortWithoutLabels` in the sources: the strip loop, then `sort.Slice`, nothing else at top level
    and no return statement outside the comparator — the sort is unconditional -/
theorem C03_fact_resort_unconditional :
    Thanos.Facts.sortWithoutLabelsShape = ["range set", "call sort.Slice"] ∧
    Thanos.Facts.sortWithoutLabelsReturns = "0" := ⟨rfl, rfl⟩

/-! ### non-vacuity -/

private def rawChunk (mint maxt : Int) (d h : Nat) : Chunk :=
  { mint := mint, maxt := maxt, raw := some ⟨0, [d, d], h⟩, count := none, sum := none, min := none, max := none, counter := none }

-- three stores deliver overlapping chunk sets of one series; hypotheses of C03_chunks are met
example : (chain true ⟨[([97], [49])], [rawChunk 10 20 1 101, rawChunk 0 5 2 102]⟩
    [⟨[([97], [49])], [rawChunk 10 20 1 101]⟩, ⟨[([97], [49])], [rawChunk 30 40 3 103, rawChunk 0 5 2 102]⟩]).chunks
    = [rawChunk 0 5 2 102, rawChunk 10 20 1 101, rawChunk 30 40 3 103] := by decide
example : flatten (serverOut 2 true [.series ⟨[], []⟩, .warning [1], .series ⟨[], []⟩, .series ⟨[], []⟩, .series ⟨[], []⟩])
    = [⟨[], []⟩, ⟨[], []⟩, ⟨[], []⟩, ⟨[], []⟩] := by decide
example : serverOut 2 true [.series ⟨[], []⟩, .warning [1], .series ⟨[], []⟩, .series ⟨[], []⟩, .series ⟨[], []⟩]
    = [.batch [⟨[], []⟩], .warning [1], .batch [⟨[], []⟩, ⟨[], []⟩], .batch [⟨[], []⟩]] := by decide

-- the loser tree on three concrete response sets (a failing store's warning at the end of its
-- stream, duplicates across stores): what `losertree_refines` talks about
private def sr (b : Nat) (cs : List Chunk) : Frame := .series ⟨[([98], [b])], cs⟩
example : treeMerge [[sr 1 [], sr 3 []], [sr 2 [], .warning [7]], [sr 1 [], sr 4 []]]
    = [sr 1 [], sr 1 [], sr 2 [], .warning [7], sr 3 [], sr 4 []] := by decide
-- end to end: three stores, one of them unsorted but re-sorted by the proxy because it cannot strip the
-- replica label "a" (= [97]); the hypotheses of `C03_sorted_once_tree` are met and the answer is what it says
private def stOK (sw : Bool) (fs : List Frame) : Store :=
  { supportsSharding := true, supportsWithout := sw, openErr := false, failure := .none,
    frames := fs.map (·, true), recvMsg := [1], timeoutMsg := [2], openMsg := [3] }
private def rq0 : Request :=
  { fixedDedup := true, lazy := true, batchSize := 2, limit := 0, abort := false, dedup := true, sharded := false, without := [[97]] }
private def storesEx : List Store :=
  [stOK true [sr 1 [rawChunk 0 5 1 101], sr 3 []],
   stOK false [.series ⟨[([97], [49]), ([98], [2])], []⟩, .series ⟨[([97], [50]), ([98], [1])], [rawChunk 10 20 2 102, rawChunk 0 5 1 101]⟩],
   stOK true [.batch [⟨[([98], [2])], [rawChunk 0 5 3 103]⟩, ⟨[([98], [3])], []⟩]]]
example : flatten (proxySeries rq0 storesEx).1
    = [⟨[([98], [1])], [rawChunk 0 5 1 101, rawChunk 10 20 2 102]⟩, ⟨[([98], [2])], [rawChunk 0 5 3 103]⟩, ⟨[([98], [3])], []⟩] := by decide
example : StoresSorted rq0 storesEx := by
  intro st hst hro
  simp only [storesEx, List.mem_cons, List.mem_nil_iff, or_false] at hst
  rcases hst with rfl | rfl | rfl
  · simp [storeSeries, stOK, sr, lblLe]; decide
  · simp [ReadInOrder, stOK, rq0] at hro
  · simp [storeSeries, stOK, lblLe]; decide

-- configuration independence on the concrete stores above: eager retrieval with batches of 64
-- gives literally the list lazy retrieval with batches of 2 gives
example : flatten (proxySeries { rq0 with lazy := false, batchSize := 64 } storesEx).1
    = flatten (proxySeries rq0 storesEx).1 := by decide

end Thanos.Merge
