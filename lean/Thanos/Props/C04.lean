import Thanos.Model.ReadPath
import Thanos.Lemmas.ReadPath
import Thanos.Lemmas.FirstFit
import Thanos.Lemmas.TrackM
import Thanos.Generated.Facts
/-
  C04 — Deduplicated queries return each logical series once with replica data.

  Spec-level composition (`Model/ReadPath.lean`): the proxy is represented by its specification
  (chunks of all replicas of a logical series chained, identical ones dropped, sorted), the
  querier side (`overlapSplit`, `chunkSeriesIterator`, `boundedSeriesIterator`, penalty
  deduplication) is transliterated.
-/
namespace Thanos.Dedup

def inQuery (qmint qmaxt : Int) (x : Sample) : Bool := decide (qmint ≤ x.t) && decide (x.t ≤ qmaxt)

/-- the chunk is a non-empty contiguous cut of the sample sequence `S` -/
def CutOf (S : List Sample) (c : RChunk) : Prop := c.samples ≠ [] ∧ c.samples <:+: S

/-- every replica of the logical series holds exactly the samples `S`, cut into chunks in any
    way (chunks of one replica may overlap in time) and placed on any stores -/
def IdenticalReplicas (S : List Sample) (l : RSeries) : Prop :=
  l.reps ≠ [] ∧ ∀ r ∈ l.reps, (∀ c ∈ r.chunks, CutOf S c) ∧ ∀ x ∈ S, ∃ c ∈ r.chunks, x ∈ c.samples

/-- the chunks of every replica are pairwise disjoint in time -/
def DisjointCuts (l : RSeries) : Prop :=
  ∀ r ∈ l.reps, r.chunks.Pairwise fun c d => c.samples = d.samples ∨ c.maxt < d.mint ∨ d.maxt < c.mint

/-- C04 (dedup on) at full strength: identical replicas ⇒ the deduplicated series, inside the
    query range, is exactly `S` inside the query range (`SelectHints` are hints: the returned
    series may also carry samples of `S` outside the range). -/
def C04_dedup_on : Prop :=
  ∀ (l : RSeries) (S : List Sample) (qmint qmaxt : Int),
    SSorted S → (∀ x ∈ S, 1 ≤ x.t) → IdenticalReplicas S l →
    ∀ out, selectDedup true qmint qmaxt l = some out →
      ∃ o, out = some o ∧ o.filter (inQuery qmint qmaxt) = S.filter (inQuery qmint qmaxt)

/-- the part of C04 that is expected to hold: replicas whose own chunks do not overlap in time -/
def C04_dedup_on_partial : Prop :=
  ∀ (l : RSeries) (S : List Sample) (qmint qmaxt : Int),
    SSorted S → (∀ x ∈ S, 1 ≤ x.t) → IdenticalReplicas S l → DisjointCuts l →
    ∀ out, selectDedup true qmint qmaxt l = some out →
      ∃ o, out = some o ∧ o.filter (inQuery qmint qmaxt) = S.filter (inQuery qmint qmaxt)

/-- C04 (dedup off): a replica whose chunks are cuts of `S` (overlapping or not, on any stores) is
    returned with exactly the samples of `S` in the query range -/
def C04_dedup_off : Prop :=
  ∀ (r : RReplica) (S : List Sample) (qmint qmaxt : Int),
    SSorted S → (∀ x ∈ S, 1 ≤ x.t) → (∀ c ∈ r.chunks, CutOf S c) → (∀ x ∈ S, ∃ c ∈ r.chunks, x ∈ c.samples) →
    ∀ out, selectRaw qmint qmaxt r = some out →
      ∃ o, out = some o ∧ o.filter (inQuery qmint qmaxt) = S.filter (inQuery qmint qmaxt)

/-! ### proved building blocks of the composition

  `C04_dedup_on_partial` and `C04_dedup_off` are stated above for ARBITRARY query ranges; both are
  theorems (`C04_dedup_on_partial_holds`, `C04_dedup_off_holds` below), with the stores' range
  filter in the model.  `boundedSeriesIterator` as a side of the dedup node is not list-like (its
  `Seek` does not enforce `maxt`: a sample beyond `maxt` can be returned, and a target beyond
  `maxt` answers `ValNone` without moving); it is list-like *up to `maxt`* (`Lemmas/TrackM.lean`),
  which is what the statement — equality inside the range — needs. -/

/-- `dedup.NewOverlapSplit` partitions the chunks into non-empty, time-ordered, non-overlapping rows -/
theorem C04_overlapSplit_partition (cs : List RChunk) :
    (∀ row ∈ overlapSplit cs, RowOK row ∧ row ≠ []) ∧ (overlapSplit cs).flatten.Perm cs :=
  overlapSplit_partition cs

/-- `query.chunkSeriesIterator` (Next and Seek calling each other, transliterated with fuel) over a row
    of non-empty chunks yields the first chunk and then, from every later chunk, the samples after
    the last one yielded; it is list-like (`cs_listLike`), i.e. fit to be a side of the dedup node -/
theorem C04_chunkIter_union (c : List Sample) (cs : List (List Sample)) (hc : ChunkOK c)
    (hcs : ∀ d ∈ cs, ChunkOK d) : drain (csIt c cs) = unionFrom 0 (c :: cs) :=
  cs_drain c cs hc hcs

/-- … which is strictly increasing when each chunk is time-sorted -/
theorem C04_chunkIter_increasing (c : List Sample) (cs : List (List Sample)) (hc : ChunkOK c)
    (hcs : ∀ d ∈ cs, ChunkOK d) (hs : ∀ d ∈ c :: cs, SSorted d) : SSorted (drain (csIt c cs)) := by
  rw [cs_drain c cs hc hcs]
  exact (unionFrom_sorted hs).1

/-- … and is just the concatenation of the chunks on a row without overlaps (a virtual replica) -/
theorem C04_row_concat (c : List Sample) (cs : List (List Sample)) (hc : ChunkOK c)
    (hcs : ∀ d ∈ cs, ChunkOK d) (hs : ∀ d ∈ c :: cs, SSorted d) (hd : RowDisjoint (c :: cs)) :
    drain (csIt c cs) = (c :: cs).flatten := by
  rw [cs_drain c cs hc hcs]
  apply unionFrom_disjoint
  · intro d hd'
    rcases List.mem_cons.mp hd' with rfl | hd'
    · exact ⟨hc.1, hs _ (by simp)⟩
    · exact ⟨(hcs d hd').1, hs d (by simp [hd'])⟩
  · exact hd
  · intro d hd' x hx
    simp at hd'; subst hd'
    have := hc.2 x hx; omega

example : drain (csIt [⟨10, 1⟩, ⟨20, 2⟩, ⟨30, 3⟩] [[⟨20, 2⟩, ⟨30, 3⟩, ⟨40, 4⟩], [⟨35, 9⟩, ⟨50, 5⟩]])
    = [⟨10, 1⟩, ⟨20, 2⟩, ⟨30, 3⟩, ⟨40, 4⟩, ⟨50, 5⟩] := by decide

/-- `mapM` over rows that all succeed, keeping what each result is good for -/
theorem mapM_rows {f : List RChunk → Option AnyIt} {g : List RChunk → List Sample}
    {G : AnyIt → List Sample → Prop} :
    ∀ (rows : List (List RChunk)), (∀ row ∈ rows, ∃ it, f row = some it ∧ G it (g row)) →
    ∃ ps : List (AnyIt × List Sample), rows.mapM f = some (ps.map (·.1)) ∧ ps.map (·.2) = rows.map g ∧
      ps.length = rows.length ∧ ∀ p ∈ ps, G p.1 p.2 := by
  intro rows
  induction rows with
  | nil => intro _; exact ⟨[], rfl, rfl, rfl, by simp⟩
  | cons row rows ih =>
    intro h
    obtain ⟨it, hit, hg⟩ := h row (by simp)
    obtain ⟨ps, h1, h2, h3, h4⟩ := ih (fun r hr => h r (by simp [hr]))
    refine ⟨(it, g row) :: ps, ?_, by simp [h2], by simp [h3], ?_⟩
    · simp [List.mapM_cons, hit, h1]
    · intro p hp
      rcases List.mem_cons.mp hp with rfl | hp
      · exact hg
      · exact h4 p hp

/-- **The querier side is a pure function** (for a query range that covers the chunks it gets):
    `overlapSplit`, `chunkSeriesIterator`, `boundedSeriesIterator` and the penalty iterators
    together compute the left fold of the pure penalty merge `pm2` over the rows' unions — no
    panic, no sample lost to loop fuel.  The F04 loss and the partial property are therefore
    statements about `pm2` and `overlapSplit` alone. -/
theorem C04_select_refines (l : RSeries) (qmint qmaxt : Int)
    (hne : proxyChunks qmint qmaxt (l.reps.flatMap (·.chunks)) ≠ [])
    (hok : ∀ c ∈ proxyChunks qmint qmaxt (l.reps.flatMap (·.chunks)),
      ChunkOK c.samples ∧ ∀ x ∈ c.samples, qmint ≤ x.t ∧ x.t ≤ qmaxt) :
    selectDedup true qmint qmaxt l = some (some (pmFoldL
      ((overlapSplit (proxyChunks qmint qmaxt (l.reps.flatMap (·.chunks)))).map
        fun row => unionFrom 0 (row.map (·.samples))))) := by
  unfold selectDedup
  generalize hcs : proxyChunks qmint qmaxt (l.reps.flatMap (·.chunks)) = cs at hne hok
  have hemp : cs.isEmpty = false := by
    cases cs with
    | nil => exact absurd rfl hne
    | cons _ _ => rfl
  simp only [hemp, Bool.false_eq_true, if_false]
  obtain ⟨hrows, hperm⟩ := overlapSplit_partition cs
  -- every row gives a good iterator
  have hrow : ∀ row ∈ overlapSplit cs, ∃ it,
      chunkSeriesIt qmint qmaxt (row.map (·.samples)) = some it ∧
      GoodN it (unionFrom 0 (row.map (·.samples))) := by
    intro row hr
    obtain ⟨_, hrne⟩ := hrows row hr
    have hmem : ∀ c ∈ row, c ∈ cs := fun c hc =>
      hperm.subset (List.mem_flatten.mpr ⟨row, hr, hc⟩)
    cases row with
    | nil => exact absurd rfl hrne
    | cons c row' =>
      simp only [List.map_cons]
      apply chunkSeriesIt_good
      · exact (hok c (hmem c (by simp))).1
      · intro d hd
        obtain ⟨c', hc', rfl⟩ := List.mem_map.mp hd
        exact (hok c' (hmem c' (by simp [hc']))).1
      · intro d hd x hx
        rcases List.mem_cons.mp hd with rfl | hd
        · exact (hok c (hmem c (by simp))).2 x hx
        · obtain ⟨c', hc', rfl⟩ := List.mem_map.mp hd
          exact (hok c' (hmem c' (by simp [hc']))).2 x hx
  obtain ⟨ps, h1, h2, h3, h4⟩ := mapM_rows (f := fun row => chunkSeriesIt qmint qmaxt (row.map (·.samples)))
    (g := fun row => unionFrom 0 (row.map (·.samples))) (overlapSplit cs) hrow
  have hpsne : ps ≠ [] := by
    intro he
    rw [he] at h3
    have : overlapSplit cs = [] := List.length_eq_zero_iff.mp h3.symm
    rw [this] at hperm
    exact hne (List.Perm.eq_nil (hperm.symm))
  obtain ⟨it, hit, hg⟩ := foldIts_good ps hpsne h4
  simp only [h1, hit, drainChecked_goodN hg, h2]

/-- **The querier side for ANY query range.**  Read with `Next`, the deduplicated series is the
    pure penalty merge of the rows' windows `takeLe qmaxt (dropLt qmint (union of the row))`,
    followed only by samples beyond `qmaxt` (the leak of `boundedSeriesIterator.Seek`).  No
    panic, no sample lost to loop fuel. -/
theorem C04_select_refines_anyrange (l : RSeries) (qmint qmaxt : Int) (hM : minT ≤ qmaxt)
    (hne : proxyChunks qmint qmaxt (l.reps.flatMap (·.chunks)) ≠ [])
    (hok : ∀ c ∈ proxyChunks qmint qmaxt (l.reps.flatMap (·.chunks)), ChunkOK c.samples ∧ SSorted c.samples) :
    ∃ extra, selectDedup true qmint qmaxt l = some (some (pmFoldL
      ((overlapSplit (proxyChunks qmint qmaxt (l.reps.flatMap (·.chunks)))).map
        fun row => rowWindow qmint qmaxt (row.map (·.samples))) ++ extra)) ∧ ∀ x ∈ extra, qmaxt < x.t := by
  unfold selectDedup
  generalize hcs : proxyChunks qmint qmaxt (l.reps.flatMap (·.chunks)) = cs at hne hok
  have hemp : cs.isEmpty = false := by
    cases cs with
    | nil => exact absurd rfl hne
    | cons _ _ => rfl
  simp only [hemp, Bool.false_eq_true, if_false]
  obtain ⟨hrows, hperm⟩ := overlapSplit_partition cs
  have hrow : ∀ row ∈ overlapSplit cs, ∃ it,
      chunkSeriesIt qmint qmaxt (row.map (·.samples)) = some it ∧
      GoodD it qmaxt (rowWindow qmint qmaxt (row.map (·.samples))) := by
    intro row hr
    obtain ⟨_, hrne⟩ := hrows row hr
    have hmem : ∀ c ∈ row, c ∈ cs := fun c hc =>
      hperm.subset (List.mem_flatten.mpr ⟨row, hr, hc⟩)
    cases row with
    | nil => exact absurd rfl hrne
    | cons c row' =>
      simp only [List.map_cons]
      apply row_goodD
      · exact (hok c (hmem c (by simp))).1
      · intro d hd
        obtain ⟨c', hc', rfl⟩ := List.mem_map.mp hd
        exact (hok c' (hmem c' (by simp [hc']))).1
      · intro d hd
        rcases List.mem_cons.mp hd with rfl | hd
        · exact (hok c (hmem c (by simp))).2
        · obtain ⟨c', hc', rfl⟩ := List.mem_map.mp hd
          exact (hok c' (hmem c' (by simp [hc']))).2
  obtain ⟨ps, h1, h2, h3, h4⟩ := mapM_rows (f := fun row => chunkSeriesIt qmint qmaxt (row.map (·.samples)))
    (g := fun row => rowWindow qmint qmaxt (row.map (·.samples))) (G := fun it L => GoodD it qmaxt L)
    (overlapSplit cs) hrow
  have hpsne : ps ≠ [] := by
    intro he
    rw [he] at h3
    have : overlapSplit cs = [] := List.length_eq_zero_iff.mp h3.symm
    rw [this] at hperm
    exact hne (List.Perm.eq_nil (hperm.symm))
  obtain ⟨it, hit, ⟨_, extra, hdr, hex⟩⟩ := foldIts_goodD hM ps hpsne h4
  refine ⟨extra, ?_, hex⟩
  simp only [h1, hit, hdr, h2]

/-! ### the partial property for a query range that covers the series -/

/-- two chunks of one replica with disjoint cuts: equal, or one entirely before the other -/
theorem disjoint_pair {l : RSeries} (hdj : DisjointCuts l) {r : RReplica} (hr : r ∈ l.reps)
    {c d : RChunk} (hc : c ∈ r.chunks) (hd : d ∈ r.chunks) :
    c.samples = d.samples ∨ c.maxt < d.mint ∨ d.maxt < c.mint := by
  have hp := hdj r hr
  apply List.Pairwise.forall_of_forall_of_flip (R := fun c d =>
    c.samples = d.samples ∨ c.maxt < d.mint ∨ d.maxt < c.mint) (fun x _ => Or.inl rfl) hp ?_ hc hd
  exact hp.imp (fun h => by
    rcases h with h | h | h
    · exact Or.inl h.symm
    · exact Or.inr (Or.inr h)
    · exact Or.inr (Or.inl h))

/-- **After every chunk end a chunk begins** (and one begins at the start of `S`): this is what
    contiguous, per-replica disjoint cuts of identical replicas give the first-fit argument. -/
theorem succ_of_replicas {l : RSeries} {S : List Sample} (hS : SSorted S)
    (hid : IdenticalReplicas S l) (hdj : DisjointCuts l) (cs : List RChunk)
    (hsub : ∀ c ∈ cs, c ∈ l.reps.flatMap (·.chunks))
    (hcomp : ∀ d ∈ l.reps.flatMap (·.chunks), ∃ d' ∈ cs, d'.samples = d.samples) :
    ∀ P Q, S = P ++ Q → Q ≠ [] → (P = [] ∨ ∃ c ∈ cs, c.samples <:+ P) →
      ∃ d ∈ cs, d.samples ≠ [] ∧ d.samples <+: Q := by
  intro P Q hPQ hQ hbd
  obtain ⟨y, Q', rfl⟩ : ∃ y Q', Q = y :: Q' := by
    cases Q with
    | nil => exact absurd rfl hQ
    | cons y Q' => exact ⟨y, Q', rfl⟩
  have hyS : y ∈ S := by rw [hPQ]; simp
  have hSs : SSorted (P ++ y :: Q') := by rw [← hPQ]; exact hS
  -- the replica to look at, and (if P ≠ []) its chunk c that ends P
  have hrep : ∃ r ∈ l.reps, (P = [] ∨ ∃ c ∈ r.chunks, c.samples ≠ [] ∧ c.samples <:+ P) := by
    rcases hbd with hP | ⟨c, hc, hcP⟩
    · obtain ⟨r, hr⟩ : ∃ r, r ∈ l.reps := by
        cases hreps : l.reps with
        | nil => exact absurd hreps hid.1
        | cons r _ => exact ⟨r, by simp⟩
      exact ⟨r, hr, Or.inl hP⟩
    · obtain ⟨r, hr, hcr⟩ := List.mem_flatMap.mp (hsub c hc)
      exact ⟨r, hr, Or.inr ⟨c, hcr, ((hid.2 r hr).1 c hcr).1, hcP⟩⟩
  obtain ⟨r, hr, hrc⟩ := hrep
  obtain ⟨d, hd, hyd⟩ := (hid.2 r hr).2 y hyS
  obtain ⟨hdne, hdinf⟩ := (hid.2 r hr).1 d hd
  obtain ⟨z, dr, hz⟩ : ∃ z dr, d.samples = z :: dr := by
    cases hds : d.samples with
    | nil => exact absurd hds hdne
    | cons z dr => exact ⟨z, dr, rfl⟩
  -- d starts after P
  have hafter : ∀ a ∈ P, a.t < z.t := by
    intro a ha
    refine Classical.byContradiction fun hcon => ?_
    have hza : z.t ≤ a.t := by omega
    rcases hrc with hP | ⟨c, hcr, hcne, hcP⟩
    · rw [hP] at ha; simp at ha
    · -- w = the last sample of P = the last sample of c
      obtain ⟨cx, cr, hcx⟩ : ∃ cx cr, c.samples = cx :: cr := by
        cases hcs : c.samples with
        | nil => exact absurd hcs hcne
        | cons cx cr => exact ⟨cx, cr, rfl⟩
      have hlast : (cx :: cr).getLast? = some (cr.getLast?.getD cx) := getLast?_cons_getD cr cx
      let w := cr.getLast?.getD cx
      have hwc : w ∈ c.samples := by rw [hcx]; exact List.mem_of_getLast? hlast
      have hwP : w ∈ P := hcP.subset hwc
      have hPs : SSorted P := List.Pairwise.sublist (List.sublist_append_left P _) hSs
      -- a ≤ w
      have haw : a.t ≤ w.t := by
        obtain ⟨p0, hp0⟩ := hcP
        rw [← hp0, hcx] at ha hPs
        rcases List.mem_append.mp ha with ha | ha
        · have := ssorted_append_lt hPs a ha w (List.mem_of_getLast? hlast)
          omega
        · exact le_lastOf (List.Pairwise.sublist (List.sublist_append_right p0 _) hPs) a ha
      have hwy : w.t < y.t := ssorted_append_lt hSs w hwP y (by simp)
      have hwS : w ∈ S := by rw [hPQ]; exact List.mem_append_left _ hwP
      have hwd : w ∈ d.samples := infix_contig hS hdinf (z := z) (y := y) (by rw [hz]; simp) hyd hwS
        (by omega) (by omega)
      have hcinf := ((hid.2 r hr).1 c hcr).2
      rcases disjoint_pair hdj hr hcr hd with h | h | h
      · -- same samples: then y ∈ c ⊆ P, but y is in Q
        have hyP : y ∈ P := hcP.subset (by rw [h]; exact hyd)
        have := ssorted_append_lt hSs y hyP y (by simp)
        omega
      · have h1 := (mem_chunk_bounds hS hcinf hwc).2
        have h2 := (mem_chunk_bounds hS hdinf hwd).1
        omega
      · have h1 := (mem_chunk_bounds hS hcinf hwc).1
        have h2 := (mem_chunk_bounds hS hdinf hwd).2
        omega
  -- hence d is a cut of Q, and since it holds the head of Q, a prefix of it
  have hdQ : d.samples <:+: y :: Q' := infix_right hz (by rw [← hPQ]; exact hdinf) hafter
  obtain ⟨u, v, huv⟩ := hdQ
  have hu : u = [] := by
    cases u with
    | nil => rfl
    | cons y' u' =>
      exfalso
      have hyy : y' = y := by simp at huv; exact huv.1
      have hQs : SSorted (y :: Q') := List.Pairwise.sublist (List.sublist_append_right P _) hSs
      rw [← huv] at hQs
      have : SSorted ((y' :: u') ++ (d.samples ++ v)) := by simpa using hQs
      have := ssorted_append_lt this y' (by simp) y (List.mem_append_left _ hyd)
      rw [hyy] at this
      omega
  subst hu
  obtain ⟨d', hd', hds'⟩ := hcomp d (List.mem_flatMap.mpr ⟨r, hr, hd⟩)
  refine ⟨d', hd', by rw [hds']; exact hdne, ?_⟩
  rw [hds']
  exact ⟨v, by simpa using huv⟩

/-- **C04, dedup on, the part that holds** (for a query range that covers the series).  Every
    replica holds the same samples `S`, cut into chunks in any way and placed on any stores, but
    without time-overlapping chunks *inside* a replica: the deduplicated query returns exactly `S`.
    (Route: the querier side is the pure fold `C04_select_refines`; row 0 of first-fit is gap-free
    and equals `S` (`firstFit_row0`); every other row is a sub-sequence of `S`; the penalty merge
    of `S` with sub-sequences of `S` is `S` (`pm2_sublist`).) -/
theorem C04_dedup_on_partial_fullrange (l : RSeries) (S : List Sample) (qmint qmaxt : Int)
    (hS : SSorted S) (hpos : ∀ x ∈ S, 1 ≤ x.t) (hSne : S ≠ [])
    (hid : IdenticalReplicas S l) (hdj : DisjointCuts l)
    (hrange : ∀ x ∈ S, qmint ≤ x.t ∧ x.t ≤ qmaxt) :
    selectDedup true qmint qmaxt l = some (some S) := by
  -- all chunks are non-empty cuts of S …
  have hallcut : ∀ c ∈ l.reps.flatMap (·.chunks), c.samples ≠ [] ∧ c.samples <:+: S := by
    intro c hc
    obtain ⟨r, hr, hcr⟩ := List.mem_flatMap.mp hc
    exact (hid.2 r hr).1 c hcr
  -- … all of them overlap the query range, so the stores send them all
  have hfilter : (l.reps.flatMap (·.chunks)).filter (inRange qmint qmaxt) = l.reps.flatMap (·.chunks) := by
    apply List.filter_eq_self.mpr
    intro c hc
    obtain ⟨hne, hinf⟩ := hallcut c hc
    obtain ⟨a, ha⟩ : ∃ a, a ∈ c.samples := by
      cases hcs : c.samples with
      | nil => exact absurd hcs hne
      | cons a _ => exact ⟨a, by simp⟩
    have hb := mem_chunk_bounds hS hinf ha
    have hr := hrange a (hinf.subset ha)
    simp only [inRange, Bool.and_eq_true, decide_eq_true_eq]
    omega
  have hcsdef : proxyChunks qmint qmaxt (l.reps.flatMap (·.chunks)) =
      sortChunks (dedupContent (l.reps.flatMap (·.chunks))) := by
    unfold proxyChunks; rw [hfilter]
  generalize hcs : proxyChunks qmint qmaxt (l.reps.flatMap (·.chunks)) = cs at hcsdef
  have hsub : ∀ c ∈ cs, c ∈ l.reps.flatMap (·.chunks) := by
    intro c hc
    rw [hcsdef] at hc
    exact mem_dedupContent_sub (mem_sortChunks.mp hc)
  have hcomp : ∀ d ∈ l.reps.flatMap (·.chunks), ∃ d' ∈ cs, d'.samples = d.samples := by
    intro d hd
    obtain ⟨d', hd', hs'⟩ := dedupContent_complete hd
    exact ⟨d', by rw [hcsdef]; exact mem_sortChunks.mpr hd', hs'⟩
  have hcsne : cs ≠ [] := by
    obtain ⟨r, hr⟩ : ∃ r, r ∈ l.reps := by
      cases hreps : l.reps with
      | nil => exact absurd hreps hid.1
      | cons r _ => exact ⟨r, by simp⟩
    obtain ⟨x, hx⟩ : ∃ x, x ∈ S := by
      cases S with
      | nil => exact absurd rfl hSne
      | cons x _ => exact ⟨x, by simp⟩
    obtain ⟨d, hd, _⟩ := (hid.2 r hr).2 x hx
    obtain ⟨d', hd', _⟩ := hcomp d (List.mem_flatMap.mpr ⟨r, hr, hd⟩)
    intro he; rw [he] at hd'; simp at hd'
  have hcut : ∀ c ∈ cs, c.samples ≠ [] ∧ c.samples <:+: S := fun c hc => hallcut c (hsub c hc)
  have hsorted : cs.Pairwise (fun a b => a.mint ≤ b.mint) := by rw [hcsdef]; exact sortChunks_sorted _
  have hsucc := succ_of_replicas hS hid hdj cs hsub hcomp
  have hrow0 := firstFit_row0 S hS cs hcut hsorted hsucc hcsne
  -- the querier side as a pure function
  have href := C04_select_refines l qmint qmaxt (by rw [hcs]; exact hcsne) (by
    rw [hcs]
    intro c hc
    obtain ⟨hne, hinf⟩ := hcut c hc
    exact ⟨⟨hne, fun x hx => hpos x (hinf.subset hx)⟩, fun x hx => hrange x (hinf.subset hx)⟩)
  rw [hcs] at href
  rw [href]
  congr 2
  -- rows: row 0 and the others
  obtain ⟨hrows, hperm⟩ := overlapSplit_partition cs
  have hrowcut : ∀ row ∈ overlapSplit cs, ∀ c ∈ row, c.samples ≠ [] ∧ c.samples <:+: S := by
    intro row hr c hc
    exact hcut c (hperm.subset (List.mem_flatten.mpr ⟨row, hr, hc⟩))
  -- on every row the union is the concatenation
  have hunion : ∀ row ∈ overlapSplit cs, unionFrom 0 (row.map (·.samples)) = row.flatMap (·.samples) := by
    intro row hr
    rw [List.flatMap_def]
    apply unionFrom_disjoint
    · intro c' hc'
      obtain ⟨c, hc, rfl⟩ := List.mem_map.mp hc'
      obtain ⟨hne, hinf⟩ := hrowcut row hr c hc
      exact ⟨hne, List.Pairwise.sublist hinf.sublist hS⟩
    · exact rowDisjoint_of_rowOK hS row (hrows row hr).1 (hrowcut row hr)
    · intro c' hc' x hx
      have hc'' : c' ∈ row.map (·.samples) := List.mem_of_mem_head? hc'
      obtain ⟨c, hc, rfl⟩ := List.mem_map.mp hc''
      have := hpos x ((hrowcut row hr c hc).2.subset hx)
      omega
  cases hos : overlapSplit cs with
  | nil =>
    exfalso
    rw [hos] at hperm
    exact hcsne (List.Perm.eq_nil hperm.symm)
  | cons row0 others =>
    rw [hos] at hunion hrows hrowcut hrow0
    simp only [headRow, List.head?_cons, Option.getD_some] at hrow0
    simp only [List.map_cons, pmFoldL]
    rw [hunion row0 (by simp), hrow0]
    apply foldl_pm2_sublist hS (fun x hx => by have := hpos x hx; simp only [minT]; omega)
    intro q hq
    obtain ⟨row, hr, rfl⟩ := List.mem_map.mp hq
    rw [hunion row (by simp [hr])]
    exact row_sublist row S hS (hrows row (by simp [hr])).1 (hrowcut row (by simp [hr]))

/-- **C04, dedup off** (for a query range that covers the series).  A replica whose chunks are
    cuts of `S` — overlapping in any way, duplicated on several stores — is returned with exactly
    the samples `S`: `chunkSeriesIterator` skips the overlaps and loses nothing. -/
theorem C04_dedup_off_fullrange (r : RReplica) (S : List Sample) (qmint qmaxt : Int)
    (hS : SSorted S) (hpos : ∀ x ∈ S, 1 ≤ x.t) (hSne : S ≠ [])
    (hcutr : ∀ c ∈ r.chunks, CutOf S c) (hcov : ∀ x ∈ S, ∃ c ∈ r.chunks, x ∈ c.samples)
    (hrange : ∀ x ∈ S, qmint ≤ x.t ∧ x.t ≤ qmaxt) :
    selectRaw qmint qmaxt r = some (some S) := by
  have hfilter : r.chunks.filter (inRange qmint qmaxt) = r.chunks := by
    apply List.filter_eq_self.mpr
    intro c hc
    obtain ⟨hne, hinf⟩ := hcutr c hc
    obtain ⟨a, ha⟩ : ∃ a, a ∈ c.samples := by
      cases hcs : c.samples with
      | nil => exact absurd hcs hne
      | cons a _ => exact ⟨a, by simp⟩
    have hb := mem_chunk_bounds hS hinf ha
    have hr := hrange a (hinf.subset ha)
    simp only [inRange, Bool.and_eq_true, decide_eq_true_eq]
    omega
  have hcsdef : proxyChunks qmint qmaxt r.chunks = sortChunks (dedupContent r.chunks) := by
    unfold proxyChunks; rw [hfilter]
  unfold selectRaw
  generalize hcs : proxyChunks qmint qmaxt r.chunks = cs at hcsdef
  have hsub : ∀ c ∈ cs, c ∈ r.chunks := by
    intro c hc; rw [hcsdef] at hc; exact mem_dedupContent_sub (mem_sortChunks.mp hc)
  have hcut : ∀ c ∈ cs, c.samples ≠ [] ∧ c.samples <:+: S := fun c hc => hcutr c (hsub c hc)
  have hcover : ∀ x ∈ S, ∃ c ∈ cs, x ∈ c.samples := by
    intro x hx
    obtain ⟨c, hc, hxc⟩ := hcov x hx
    obtain ⟨c', hc', hs'⟩ := dedupContent_complete hc
    exact ⟨c', by rw [hcsdef]; exact mem_sortChunks.mpr hc', by rw [hs']; exact hxc⟩
  have hsorted : cs.Pairwise (fun a b => a.mint ≤ b.mint) := by rw [hcsdef]; exact sortChunks_sorted _
  obtain ⟨c0, cs', hc0⟩ : ∃ c0 cs', cs = c0 :: cs' := by
    cases hcs2 : cs with
    | nil =>
      exfalso
      obtain ⟨x, hx⟩ : ∃ x, x ∈ S := by
        cases S with
        | nil => exact absurd rfl hSne
        | cons x _ => exact ⟨x, by simp⟩
      obtain ⟨c, hc, _⟩ := hcover x hx
      rw [hcs2] at hc; simp at hc
    | cons c0 cs' => exact ⟨c0, cs', rfl⟩
  have hunion := union_cover S hS cs hcut hsorted hcover cs [] [] S 0 rfl rfl (by simp)
    (fun b hb => by have := hpos b hb; omega) (by simp)
  subst hc0
  simp only [List.isEmpty_cons, Bool.false_eq_true, if_false, List.map_cons]
  obtain ⟨it, hit, hg⟩ := chunkSeriesIt_good qmint qmaxt c0.samples (cs'.map (·.samples))
    ⟨(hcut c0 (by simp)).1, fun x hx => hpos x ((hcut c0 (by simp)).2.subset hx)⟩
    (by
      intro d hd
      obtain ⟨c, hc, rfl⟩ := List.mem_map.mp hd
      exact ⟨(hcut c (by simp [hc])).1, fun x hx => hpos x ((hcut c (by simp [hc])).2.subset hx)⟩)
    (by
      intro d hd x hx
      rcases List.mem_cons.mp hd with rfl | hd
      · exact hrange x ((hcut c0 (by simp)).2.subset hx)
      · obtain ⟨c, hc, rfl⟩ := List.mem_map.mp hd
        exact hrange x ((hcut c (by simp [hc])).2.subset hx))
  simp only [hit, drainChecked_goodN hg]
  simp only [List.map_cons] at hunion
  rw [hunion]

/-- **C04, dedup off, any query range.**  `C04_dedup_off` holds: whatever `[qmint, qmaxt]` is
    (cutting the series, outside it, …) and however the replica's cuts overlap, the series returned
    for the replica holds, inside the range, exactly the samples of `S` inside the range.  The
    stores' range filter (only chunks that overlap the range are sent) is part of the model. -/
theorem C04_dedup_off_holds : C04_dedup_off := by
  intro r S qmint qmaxt hS hpos hcutr hcov out hsel
  unfold selectRaw at hsel
  generalize hcs : proxyChunks qmint qmaxt r.chunks = cs at hsel
  have hcsdef : cs = sortChunks (dedupContent (r.chunks.filter (inRange qmint qmaxt))) := by
    rw [← hcs]; rfl
  have hsub : ∀ c ∈ cs, c ∈ r.chunks := by
    intro c hc; rw [hcsdef] at hc
    exact (List.mem_filter.mp (mem_dedupContent_sub (mem_sortChunks.mp hc))).1
  have hcut : ∀ c ∈ cs, c.samples ≠ [] ∧ c.samples <:+: S := fun c hc => hcutr c (hsub c hc)
  have hsorted : cs.Pairwise (fun a b => a.mint ≤ b.mint) := by rw [hcsdef]; exact sortChunks_sorted _
  cases hcs2 : cs with
  | nil => rw [hcs2] at hsel; simp at hsel
  | cons c0 cs' =>
    rw [hcs2] at hsel
    simp only [List.isEmpty_cons, Bool.false_eq_true, if_false, List.map_cons] at hsel
    have hc0 : ChunkOK c0.samples := ⟨(hcut c0 (by rw [hcs2]; simp)).1,
      fun x hx => hpos x ((hcut c0 (by rw [hcs2]; simp)).2.subset hx)⟩
    have hcs'ok : ∀ d ∈ cs'.map (·.samples), ChunkOK d := by
      intro d hd
      obtain ⟨c, hc, rfl⟩ := List.mem_map.mp hd
      exact ⟨(hcut c (by rw [hcs2]; simp [hc])).1,
        fun x hx => hpos x ((hcut c (by rw [hcs2]; simp [hc])).2.subset hx)⟩
    obtain ⟨V, abs, hl, hi⟩ := cs_goodN c0.samples (cs'.map (·.samples)) hc0 hcs'ok
    -- the union is time-sorted
    have hLs : SSorted (unionFrom 0 (c0.samples :: cs'.map (·.samples))) := by
      apply (unionFrom_sorted _).1
      intro d hd
      have : d ∈ (c0 :: cs').map (·.samples) := by simpa using hd
      obtain ⟨c, hc, rfl⟩ := List.mem_map.mp this
      exact List.Pairwise.sublist (hcut c (by rw [hcs2]; exact hc)).2.sublist hS
    have hdrain := bnd_drain (o := csOps) hl qmint qmaxt hi hLs
    have hit : chunkSeriesIt qmint qmaxt (c0.samples :: cs'.map (·.samples)) =
        some { σ := Bnd CS, ops := bndOps csOps qmint qmaxt,
               st := { inner := (csIt c0.samples (cs'.map (·.samples))).st, bad := false, stopped := false } } := rfl
    rw [hit] at hsel
    simp only at hsel
    rw [hdrain] at hsel
    simp only [Option.some.injEq] at hsel
    refine ⟨_, hsel.symm, ?_⟩
    -- the result is S inside the range
    have hmemU := mem_unionFrom_cuts S hS (c0 :: cs') 0 (by rw [← hcs2]; exact hcut)
      (by rw [← hcs2]; exact hsorted)
    simp only [List.map_cons] at hmemU
    have hres : takeLe qmaxt (dropLt qmint (unionFrom 0 (c0.samples :: cs'.map (·.samples)))) =
        S.filter (inQuery qmint qmaxt) := by
      apply ssorted_ext
      · exact List.Pairwise.sublist ((takeLe_sublist _ _).trans (dropLt_sublist _ _)) hLs
      · exact List.Pairwise.sublist List.filter_sublist hS
      · intro x
        rw [mem_takeLe_sorted (ssorted_dropLt _ hLs), mem_dropLt_sorted hLs, hmemU x, List.mem_filter]
        simp only [inQuery, Bool.and_eq_true, decide_eq_true_eq]
        constructor
        · rintro ⟨⟨⟨⟨c, hc, hxc⟩, _⟩, h1⟩, h2⟩
          exact ⟨(hcut c (by rw [hcs2]; exact hc)).2.subset hxc, h1, h2⟩
        · rintro ⟨hxS, h1, h2⟩
          obtain ⟨c, hc, hxc⟩ := hcov x hxS
          have hb := mem_chunk_bounds hS (hcutr c hc).2 hxc
          have hcin : c ∈ r.chunks.filter (inRange qmint qmaxt) := by
            apply List.mem_filter.mpr
            refine ⟨hc, ?_⟩
            simp only [inRange, Bool.and_eq_true, decide_eq_true_eq]
            omega
          obtain ⟨c', hc', hs'⟩ := dedupContent_complete hcin
          have hc'cs : c' ∈ c0 :: cs' := by
            rw [← hcs2, hcsdef]; exact mem_sortChunks.mpr hc'
          have := hpos x hxS
          exact ⟨⟨⟨⟨c', hc'cs, by rw [hs']; exact hxc⟩, by omega⟩, h1⟩, h2⟩
    rw [hres]
    apply List.filter_eq_self.mpr
    intro x hx
    exact (List.mem_filter.mp hx).2

/-- non-vacuity: a replica of `S = [10, …, 50]` with overlapping and repeated chunks -/
example : selectRaw 1 100 { rid := 0, chunks := [
      { store := 0, rank := 0, samples := [⟨10, 1⟩, ⟨20, 2⟩, ⟨30, 3⟩] },
      { store := 1, rank := 0, samples := [⟨20, 2⟩, ⟨30, 3⟩, ⟨40, 4⟩] },
      { store := 2, rank := 0, samples := [⟨20, 2⟩, ⟨30, 3⟩, ⟨40, 4⟩] },
      { store := 0, rank := 0, samples := [⟨30, 3⟩] },
      { store := 0, rank := 0, samples := [⟨40, 4⟩, ⟨50, 5⟩] } ] }
    = some (some [⟨10, 1⟩, ⟨20, 2⟩, ⟨30, 3⟩, ⟨40, 4⟩, ⟨50, 5⟩]) := by decide

/-- … and with a query range that cuts the series (the chunk `[40, 50]` still overlaps it and
    is sent, the chunk beyond would not be) -/
example : selectRaw 15 40 { rid := 0, chunks := [
      { store := 0, rank := 0, samples := [⟨10, 1⟩, ⟨20, 2⟩, ⟨30, 3⟩] },
      { store := 1, rank := 0, samples := [⟨20, 2⟩, ⟨30, 3⟩, ⟨40, 4⟩] },
      { store := 0, rank := 0, samples := [⟨40, 4⟩, ⟨50, 5⟩] },
      { store := 0, rank := 0, samples := [⟨60, 6⟩] } ] }
    = some (some [⟨20, 2⟩, ⟨30, 3⟩, ⟨40, 4⟩]) := by decide

/-- non-vacuity: two replicas of `S = [10, 20, 30, 40, 50]` cut differently (`[10,20][30,40,50]` on
    stores 0/1 and `[10][20,30][40,50]` on stores 1/0/2), query range `[1, 100]` -/
def partialWitness : RSeries :=
  { key := 0,
    reps := [ { rid := 0, chunks := [ { store := 0, rank := 0, samples := [⟨10, 1⟩, ⟨20, 2⟩] },
                                     { store := 1, rank := 0, samples := [⟨30, 3⟩, ⟨40, 4⟩, ⟨50, 5⟩] } ] },
              { rid := 1, chunks := [ { store := 1, rank := 0, samples := [⟨10, 1⟩] },
                                     { store := 0, rank := 0, samples := [⟨20, 2⟩, ⟨30, 3⟩] },
                                     { store := 2, rank := 0, samples := [⟨40, 4⟩, ⟨50, 5⟩] } ] } ] }

example : selectDedup true 1 100 partialWitness =
    some (some [⟨10, 1⟩, ⟨20, 2⟩, ⟨30, 3⟩, ⟨40, 4⟩, ⟨50, 5⟩]) := by decide

/-- … and with a query range that cuts the series: the stores send the chunks that overlap
    `[15, 40]`, the answer is `S` inside it -/
example : selectDedup true 15 40 partialWitness =
    some (some [⟨20, 2⟩, ⟨30, 3⟩, ⟨40, 4⟩]) := by decide

/-- … and here a sample beyond `maxt` leaks out (`[15, 35]`: 40 is returned although `maxt = 35`) -/
example : selectDedup true 15 35 partialWitness =
    some (some [⟨20, 2⟩, ⟨30, 3⟩, ⟨40, 4⟩]) := by decide

example : DisjointCuts partialWitness := by
  intro r hr
  simp only [partialWitness, List.mem_cons, List.mem_nil_iff, or_false] at hr
  rcases hr with rfl | rfl <;> simp [RChunk.maxt, RChunk.mint]

/-! ### the partial property for ANY query range -/

/-- a cut that holds the head of `Q` and lies after `P` is a prefix of `Q` -/
theorem prefix_of_head {Sq P Q d : List Sample} {g : Sample} {dr : List Sample} (hS : SSorted Sq)
    (hPQ : Sq = P ++ Q) (hQ : Q.head? = some g) (hd : d = g :: dr) (hinf : d <:+: Sq)
    (hafter : ∀ a ∈ P, a.t < g.t) : d <+: Q := by
  have hSs : SSorted (P ++ Q) := by rw [← hPQ]; exact hS
  have hdQ : d <:+: Q := infix_right hd (by rw [← hPQ]; exact hinf) hafter
  obtain ⟨u, v, huv⟩ := hdQ
  cases u with
  | nil => exact ⟨v, by simpa using huv⟩
  | cons y' u' =>
    exfalso
    have hyy : y' = g := by rw [← huv] at hQ; simp at hQ; exact hQ
    have hQs : SSorted Q := List.Pairwise.sublist (List.sublist_append_right P _) hSs
    rw [← huv] at hQs
    have : SSorted ((y' :: u') ++ (d ++ v)) := by simpa using hQs
    have := ssorted_append_lt this y' (by simp) g (List.mem_append_left _ (by rw [hd]; simp))
    rw [hyy] at this
    omega

/-- **After every chunk end inside the range a chunk that the stores send begins** — the bounded
    successor property on the sequence `S.filter (covered cs)` of samples the sent chunks hold. -/
theorem succ_filtered {l : RSeries} {S : List Sample} (hS : SSorted S)
    (hid : IdenticalReplicas S l) (hdj : DisjointCuts l) (qmint qmaxt : Int) (cs : List RChunk)
    (hcsub : ∀ c ∈ cs, c ∈ (l.reps.flatMap (·.chunks)).filter (inRange qmint qmaxt))
    (hcomp : ∀ d ∈ (l.reps.flatMap (·.chunks)).filter (inRange qmint qmaxt),
      ∃ d' ∈ cs, d'.samples = d.samples) :
    ∀ P Q g, S.filter (covered cs) = P ++ Q → Q.head? = some g → g.t ≤ qmaxt →
      (P = [] ∨ ∃ c ∈ cs, c.samples <:+ P) → ∃ d ∈ cs, d.samples ≠ [] ∧ d.samples <+: Q := by
  intro P Q g hPQ hQ hgM hbd
  have hS' : SSorted (S.filter (covered cs)) := List.Pairwise.sublist List.filter_sublist hS
  have hcut : ∀ c ∈ cs, c.samples ≠ [] ∧ c.samples <:+: S := by
    intro c hc
    obtain ⟨r, hr, hcr⟩ := List.mem_flatMap.mp (List.mem_filter.mp (hcsub c hc)).1
    exact (hid.2 r hr).1 c hcr
  have hcutS' : ∀ c ∈ cs, c.samples <:+: S.filter (covered cs) := fun c hc =>
    infix_filter _ (hcut c hc).2 (fun x hx => covered_iff.mpr ⟨c, hc, hx⟩)
  have hgQ : g ∈ Q := List.mem_of_mem_head? hQ
  have hgS' : g ∈ S.filter (covered cs) := by rw [hPQ]; exact List.mem_append_right _ hgQ
  have hgS : g ∈ S := (List.mem_filter.mp hgS').1
  rcases hbd with hP | ⟨c, hc, hcP⟩
  · -- at the very start: the chunk that covers the first covered sample starts there
    obtain ⟨e, he, hge⟩ := covered_iff.mp (List.mem_filter.mp hgS').2
    obtain ⟨z, er, hz⟩ : ∃ z er, e.samples = z :: er := by
      cases hes : e.samples with
      | nil => rw [hes] at hge; simp at hge
      | cons z er => exact ⟨z, er, rfl⟩
    -- z is covered, so it is in S' = Q, hence not before g; and it is the head of a cut holding g
    have hzS' : z ∈ S.filter (covered cs) :=
      (hcutS' e he).subset (by rw [hz]; simp)
    have hzg : z = g := by
      rw [hPQ, hP, List.nil_append] at hzS'
      have hQs : SSorted Q := by rw [hPQ, hP] at hS'; simpa using hS'
      -- g is the head of Q, z ∈ Q, z ≤ g (head of a sorted cut holding g)
      have hzle : z.t ≤ g.t := (mem_chunk_bounds hS (hcut e he).2 hge).1 |> fun h => by
        rw [(mint_of_cons hz).1] at h; exact h
      cases Q with
      | nil => simp at hQ
      | cons q0 Q' =>
        simp at hQ; subst hQ
        rcases List.mem_cons.mp hzS' with h | h
        · exact h
        · have := (List.pairwise_cons.mp hQs).1 z h; omega
    refine ⟨e, he, by rw [hz]; simp, ?_⟩
    exact prefix_of_head hS' hPQ hQ (by rw [hz, hzg]) (hcutS' e he) (by intro a ha; rw [hP] at ha; simp at ha)
  · -- after the chunk c: its replica's next chunk starts at the next sample, which is g
    obtain ⟨hcall, hcin⟩ := List.mem_filter.mp (hcsub c hc)
    obtain ⟨hcne, hcinf⟩ := hcut c hc
    obtain ⟨cx, cr, hcx⟩ : ∃ cx cr, c.samples = cx :: cr := by
      cases hcs : c.samples with
      | nil => exact absurd hcs hcne
      | cons cx cr => exact ⟨cx, cr, rfl⟩
    have hlast : (cx :: cr).getLast? = some (cr.getLast?.getD cx) := getLast?_cons_getD cr cx
    let w := cr.getLast?.getD cx
    have hwc : w ∈ c.samples := by rw [hcx]; exact List.mem_of_getLast? hlast
    have hwP : w ∈ P := hcP.subset hwc
    have hcmax : c.maxt = w.t := by rw [(mint_of_cons hcx).2]; rfl
    have hcsort : SSorted (cx :: cr) := by rw [← hcx]; exact List.Pairwise.sublist hcinf.sublist hS
    have hSs' : SSorted (P ++ Q) := by rw [← hPQ]; exact hS'
    have hPs : SSorted P := List.Pairwise.sublist (List.sublist_append_left P Q) hSs'
    -- every sample of P is at or before w
    have hPle : ∀ a ∈ P, a.t ≤ w.t := by
      intro a ha
      obtain ⟨p0, hp0⟩ := hcP
      rw [← hp0, hcx] at ha hPs
      rcases List.mem_append.mp ha with ha | ha
      · have := ssorted_append_lt hPs a ha w (List.mem_of_getLast? hlast); omega
      · exact le_lastOf (List.Pairwise.sublist (List.sublist_append_right p0 _) hPs) a ha
    have hwg : w.t < g.t := ssorted_append_lt hSs' w hwP g hgQ
    -- split S at w
    have hAB : S = takeLe w.t S ++ dropLe w.t S := (takeLe_append_dropLe w.t S).symm
    have hcA : c.samples <:+ takeLe w.t S := by
      obtain ⟨s, t, hst⟩ := hcinf
      have hSst : SSorted (s ++ c.samples ++ t) := by rw [hst]; exact hS
      have : takeLe w.t S = s ++ c.samples := by
        rw [← hst]
        apply takeLe_append
        · intro x hx
          rcases List.mem_append.mp hx with hx | hx
          · have := ssorted_append_lt (List.Pairwise.sublist (List.sublist_append_left _ t) hSst) x hx w hwc
            omega
          · rw [hcx] at hx; exact le_lastOf hcsort x hx
        · intro x hx
          exact ssorted_append_lt hSst w (List.mem_append_right s hwc) x (List.mem_of_mem_head? hx)
      rw [this]; exact List.suffix_append s _
    have hgB : g ∈ dropLe w.t S := by
      rw [hAB] at hgS
      rcases List.mem_append.mp hgS with h | h
      · have := mem_takeLe_le' h; omega
      · exact h
    have hBne : dropLe w.t S ≠ [] := by intro he; rw [he] at hgB; simp at hgB
    obtain ⟨d, hd, hdne, hdB⟩ := succ_of_replicas hS hid hdj (l.reps.flatMap (·.chunks))
      (fun c h => h) (fun d h => ⟨d, h, rfl⟩) (takeLe w.t S) (dropLe w.t S) hAB hBne
      (Or.inr ⟨c, hcall, hcA⟩)
    obtain ⟨g0, dr, hg0⟩ : ∃ g0 dr, d.samples = g0 :: dr := by
      cases hds : d.samples with
      | nil => exact absurd hds hdne
      | cons g0 dr => exact ⟨g0, dr, rfl⟩
    have hdcut : d.samples ≠ [] ∧ d.samples <:+: S := by
      obtain ⟨r, hr, hdr⟩ := List.mem_flatMap.mp hd
      exact (hid.2 r hr).1 d hdr
    have hg0B : g0 ∈ dropLe w.t S := hdB.subset (by rw [hg0]; simp)
    have hg0w : w.t < g0.t := mem_dropLe_gt hS hg0B
    have hBs : SSorted (dropLe w.t S) := List.Pairwise.sublist (List.dropWhile_sublist _) hS
    -- g0 is the head of B, so g0 ≤ g
    have hg0g : g0.t ≤ g.t := by
      obtain ⟨t', ht'⟩ := hdB
      rw [hg0] at ht'
      rw [← ht'] at hgB hBs
      simp only [List.cons_append] at hgB hBs
      rcases List.mem_cons.mp hgB with h | h
      · rw [h]; exact Int.le_refl _
      · have := (List.pairwise_cons.mp hBs).1 g h; omega
    -- d overlaps the range, so the stores send it
    have hdin : d ∈ (l.reps.flatMap (·.chunks)).filter (inRange qmint qmaxt) := by
      apply List.mem_filter.mpr
      refine ⟨hd, ?_⟩
      have hb0 := mem_chunk_bounds hS hdcut.2 (a := g0) (by rw [hg0]; simp)
      have hdm := (mint_of_cons hg0).1
      simp only [inRange, Bool.and_eq_true, decide_eq_true_eq] at hcin ⊢
      omega
    obtain ⟨d', hd', hds'⟩ := hcomp d hdin
    -- g0 is covered, hence in S', after P, hence in Q; so g0 = g
    have hg0S : g0 ∈ S := hdcut.2.subset (by rw [hg0]; simp)
    have hg0S' : g0 ∈ S.filter (covered cs) :=
      List.mem_filter.mpr ⟨hg0S, covered_iff.mpr ⟨d', hd', by rw [hds', hg0]; simp⟩⟩
    have hg0Q : g0 ∈ Q := by
      rw [hPQ] at hg0S'
      rcases List.mem_append.mp hg0S' with h | h
      · have := hPle g0 h; omega
      · exact h
    have hgg0 : g.t ≤ g0.t := by
      have hQs : SSorted Q := List.Pairwise.sublist (List.sublist_append_right P Q) hSs'
      cases Q with
      | nil => simp at hQ
      | cons q0 Q' =>
        simp at hQ; subst hQ
        rcases List.mem_cons.mp hg0Q with h | h
        · rw [h]; exact Int.le_refl _
        · have := (List.pairwise_cons.mp hQs).1 g0 h; omega
    have heq : g0 = g := ssorted_eq_of_t hS hg0S hgS (by omega)
    refine ⟨d', hd', by rw [hds']; exact hdne, ?_⟩
    rw [hds']
    exact prefix_of_head hS' hPQ hQ (by rw [hg0, heq]) (by rw [← hds']; exact hcutS' d' hd')
      (fun a ha => by have := hPle a ha; omega)

/-- **C04, dedup on, the part that holds — for ANY query range.**  `C04_dedup_on_partial` is a
    theorem: identical replicas whose own chunks do not overlap in time (any cuts, any stores) and
    any `[qmint, qmaxt]` — cutting the series, with the stores sending only the chunks that overlap
    it — give, inside the range, exactly the samples of `S` inside the range. -/
theorem C04_dedup_on_partial_holds : C04_dedup_on_partial := by
  intro l S qmint qmaxt hS hpos hid hdj out hsel
  have hq : ∀ x : Sample, inQuery qmint qmaxt x = (decide (qmint ≤ x.t) && decide (x.t ≤ qmaxt)) := fun _ => rfl
  -- the chunks the stores send, and what the proxy makes of them
  have hallcut : ∀ c ∈ l.reps.flatMap (·.chunks), c.samples ≠ [] ∧ c.samples <:+: S := by
    intro c hc
    obtain ⟨r, hr, hcr⟩ := List.mem_flatMap.mp hc
    exact (hid.2 r hr).1 c hcr
  generalize hcs : proxyChunks qmint qmaxt (l.reps.flatMap (·.chunks)) = cs at hsel
  have hcsdef : cs = sortChunks (dedupContent ((l.reps.flatMap (·.chunks)).filter (inRange qmint qmaxt))) := by
    rw [← hcs]; rfl
  have hcsub : ∀ c ∈ cs, c ∈ (l.reps.flatMap (·.chunks)).filter (inRange qmint qmaxt) := by
    intro c hc; rw [hcsdef] at hc; exact mem_dedupContent_sub (mem_sortChunks.mp hc)
  have hcomp : ∀ d ∈ (l.reps.flatMap (·.chunks)).filter (inRange qmint qmaxt), ∃ d' ∈ cs, d'.samples = d.samples := by
    intro d hd
    obtain ⟨d', hd', hs'⟩ := dedupContent_complete hd
    exact ⟨d', by rw [hcsdef]; exact mem_sortChunks.mpr hd', hs'⟩
  have hcut : ∀ c ∈ cs, c.samples ≠ [] ∧ c.samples <:+: S := fun c hc =>
    hallcut c (List.mem_filter.mp (hcsub c hc)).1
  have hcsne : cs ≠ [] := by
    intro he
    rw [← hcs] at he
    unfold selectDedup at hsel
    rw [hcs] at hsel he
    subst he
    simp at hsel
  have hsorted : cs.Pairwise (fun a b => a.mint ≤ b.mint) := by rw [hcsdef]; exact sortChunks_sorted _
  -- every chunk that is sent starts at or before qmaxt; in particular minT ≤ qmaxt
  have hmx : ∀ c ∈ cs, c.mint ≤ qmaxt := by
    intro c hc
    have := (List.mem_filter.mp (hcsub c hc)).2
    simp only [inRange, Bool.and_eq_true, decide_eq_true_eq] at this
    exact this.2
  have hM : minT ≤ qmaxt := by
    obtain ⟨c, hc⟩ : ∃ c, c ∈ cs := by
      cases cs with
      | nil => exact absurd rfl hcsne
      | cons c _ => exact ⟨c, by simp⟩
    obtain ⟨hne, hinf⟩ := hcut c hc
    obtain ⟨a, ar, ha⟩ : ∃ a ar, c.samples = a :: ar := by
      cases hcs2 : c.samples with
      | nil => exact absurd hcs2 hne
      | cons a ar => exact ⟨a, ar, rfl⟩
    have h1 := (mint_of_cons ha).1
    have h2 := hpos a (hinf.subset (by rw [ha]; simp))
    have h3 := hmx c hc
    simp only [minT]; omega
  -- the querier side as a pure function
  obtain ⟨extra, href, hex⟩ := C04_select_refines_anyrange l qmint qmaxt hM (by rw [hcs]; exact hcsne) (by
    rw [hcs]
    intro c hc
    obtain ⟨hne, hinf⟩ := hcut c hc
    exact ⟨⟨hne, fun x hx => hpos x (hinf.subset hx)⟩, List.Pairwise.sublist hinf.sublist hS⟩)
  rw [hcs] at href
  rw [href] at hsel
  simp only [Option.some.injEq] at hsel
  refine ⟨_, hsel.symm, ?_⟩
  -- the samples beyond qmaxt are filtered out
  have hextra : extra.filter (inQuery qmint qmaxt) = [] := by
    apply List.filter_eq_nil_iff.mpr
    intro x hx
    have := hex x hx
    simp only [inQuery, Bool.and_eq_true, decide_eq_true_eq]
    omega
  rw [List.filter_append, hextra, List.append_nil]
  -- the covered sequence S' and the first-fit argument on it
  have hS' : SSorted (S.filter (covered cs)) := List.Pairwise.sublist List.filter_sublist hS
  have hcutS' : ∀ c ∈ cs, c.samples ≠ [] ∧ c.samples <:+: S.filter (covered cs) := fun c hc =>
    ⟨(hcut c hc).1, infix_filter _ (hcut c hc).2 (fun x hx => covered_iff.mpr ⟨c, hc, hx⟩)⟩
  obtain ⟨P, Q, hPQ, hrow0, hQ⟩ := firstFit_row0_bounded (S.filter (covered cs)) hS' cs qmaxt hmx hcutS'
    hsorted (succ_filtered hS hid hdj qmint qmaxt cs hcsub hcomp) hcsne
  -- in-range samples are covered
  have hcov : ∀ x ∈ S, inQuery qmint qmaxt x = true → covered cs x = true := by
    intro x hx hin
    simp only [inQuery, Bool.and_eq_true, decide_eq_true_eq] at hin
    obtain ⟨r, hr⟩ : ∃ r, r ∈ l.reps := by
      cases hreps : l.reps with
      | nil => exact absurd hreps hid.1
      | cons r _ => exact ⟨r, by simp⟩
    obtain ⟨c, hc, hxc⟩ := (hid.2 r hr).2 x hx
    have hb := mem_chunk_bounds hS ((hid.2 r hr).1 c hc).2 hxc
    have hcin : c ∈ (l.reps.flatMap (·.chunks)).filter (inRange qmint qmaxt) := by
      apply List.mem_filter.mpr
      refine ⟨List.mem_flatMap.mpr ⟨r, hr, hc⟩, ?_⟩
      simp only [inRange, Bool.and_eq_true, decide_eq_true_eq]
      omega
    obtain ⟨c', hc', hs'⟩ := hcomp c hcin
    exact covered_iff.mpr ⟨c', hc', by rw [hs']; exact hxc⟩
  have hS'q : (S.filter (covered cs)).filter (inQuery qmint qmaxt) = S.filter (inQuery qmint qmaxt) := by
    rw [List.filter_filter]
    apply List.filter_congr
    intro x hx
    cases hin : inQuery qmint qmaxt x with
    | false => rfl
    | true => simp [hcov x hx hin]
  have hPq : P.filter (inQuery qmint qmaxt) = S.filter (inQuery qmint qmaxt) := by
    rw [← hS'q, hPQ, List.filter_append]
    have : Q.filter (inQuery qmint qmaxt) = [] := by
      apply List.filter_eq_nil_iff.mpr
      intro x hx
      have hQs : SSorted Q := List.Pairwise.sublist (List.sublist_append_right P Q) (by rw [← hPQ]; exact hS')
      have hgt : qmaxt < x.t := by
        cases Q with
        | nil => simp at hx
        | cons q0 Q' =>
          have h0 := hQ q0 rfl
          rcases List.mem_cons.mp hx with rfl | hx
          · exact h0
          · have := (List.pairwise_cons.mp hQs).1 x hx; omega
      simp only [inQuery, Bool.and_eq_true, decide_eq_true_eq]
      omega
    rw [this, List.append_nil]
  -- rows
  obtain ⟨hrows, hperm⟩ := overlapSplit_partition cs
  have hrowcut : ∀ row ∈ overlapSplit cs, ∀ c ∈ row, c.samples ≠ [] ∧ c.samples <:+: S.filter (covered cs) := by
    intro row hr c hc
    exact hcutS' c (hperm.subset (List.mem_flatten.mpr ⟨row, hr, hc⟩))
  have hwin : ∀ row ∈ overlapSplit cs, rowWindow qmint qmaxt (row.map (·.samples)) =
      (row.flatMap (·.samples)).filter (inQuery qmint qmaxt) := by
    intro row hr
    have hunion : unionFrom 0 (row.map (·.samples)) = row.flatMap (·.samples) := by
      rw [List.flatMap_def]
      apply unionFrom_disjoint
      · intro c' hc'
        obtain ⟨c, hc, rfl⟩ := List.mem_map.mp hc'
        obtain ⟨hne, hinf⟩ := hrowcut row hr c hc
        exact ⟨hne, List.Pairwise.sublist hinf.sublist hS'⟩
      · exact rowDisjoint_of_rowOK hS' row (hrows row hr).1 (hrowcut row hr)
      · intro c' hc' x hx
        have hc'' : c' ∈ row.map (·.samples) := List.mem_of_mem_head? hc'
        obtain ⟨c, hc, rfl⟩ := List.mem_map.mp hc''
        have hxS : x ∈ S := (List.mem_filter.mp ((hrowcut row hr c hc).2.subset hx)).1
        have := hpos x hxS
        omega
    have hsrow : SSorted (row.flatMap (·.samples)) :=
      List.Pairwise.sublist (row_sublist row _ hS' (hrows row hr).1 (hrowcut row hr)) hS'
    unfold rowWindow
    rw [hunion, window_eq_filter hsrow]
    rfl
  have hSq : SSorted (S.filter (inQuery qmint qmaxt)) := List.Pairwise.sublist List.filter_sublist hS
  cases hos : overlapSplit cs with
  | nil =>
    exfalso
    rw [hos] at hperm
    exact hcsne (List.Perm.eq_nil hperm.symm)
  | cons row0 others =>
    rw [hos] at hwin hrows hrowcut hrow0
    simp only [headRow, List.head?_cons, Option.getD_some] at hrow0
    simp only [List.map_cons, pmFoldL]
    rw [hwin row0 (by simp), hrow0, hPq]
    have hfold : (others.map fun row => rowWindow qmint qmaxt (row.map (·.samples))).foldl (pm2 minT)
        (S.filter (inQuery qmint qmaxt)) = S.filter (inQuery qmint qmaxt) := by
      apply foldl_pm2_sublist hSq
      · intro x hx
        have := hpos x (List.mem_filter.mp hx).1
        simp only [minT]; omega
      · intro q hqm
        obtain ⟨row, hr, rfl⟩ := List.mem_map.mp hqm
        rw [hwin row (by simp [hr]), ← hS'q]
        exact (row_sublist row _ hS' (hrows row (by simp [hr])).1 (hrowcut row (by simp [hr]))).filter _
    rw [hfold]
    exact List.filter_eq_self.mpr (fun x hx => (List.mem_filter.mp hx).2)

/-! ### F04: overlapping chunks inside a replica make the penalty window swallow samples -/

def f04S : List Sample := [⟨32456, 1⟩, ⟨94057, 2⟩, ⟨154387, 3⟩, ⟨186226, 4⟩]

/-- replica 0 holds `S[0:2]` and `S[1:4]` (they overlap in 94057), replica 1 holds `S[0:4]` -/
def f04Witness : RSeries :=
  { key := 0,
    reps := [ { rid := 0, chunks := [ { store := 0, rank := 0, samples := [⟨32456, 1⟩, ⟨94057, 2⟩] },
                                     { store := 0, rank := 0, samples := [⟨94057, 2⟩, ⟨154387, 3⟩, ⟨186226, 4⟩] } ] },
              { rid := 1, chunks := [ { store := 1, rank := 0, samples := f04S } ] } ] }

/-- `overlapSplit` makes three virtual replicas `[S[0:2]]`, `[S[0:4]]`, `[S[1:4]]`; when the first
    one ends the others are sought past the pending penalty -/
theorem C04_witness_run : selectDedup true 1 200000 f04Witness = some (some [⟨32456, 1⟩, ⟨94057, 2⟩]) := by
  decide

theorem C04_witness_identical : IdenticalReplicas f04S f04Witness := by
  refine ⟨by simp [f04Witness], ?_⟩
  intro r hr
  simp only [f04Witness, List.mem_cons, List.mem_nil_iff, or_false] at hr
  rcases hr with rfl | rfl
  · refine ⟨?_, ?_⟩
    · intro c hc
      simp only [List.mem_cons, List.mem_nil_iff, or_false] at hc
      rcases hc with rfl | rfl
      · exact ⟨by simp, [], [⟨154387, 3⟩, ⟨186226, 4⟩], by simp [f04S]⟩
      · exact ⟨by simp, [⟨32456, 1⟩], [], by simp [f04S]⟩
    · intro x hx
      simp only [f04S, List.mem_cons, List.mem_nil_iff, or_false] at hx
      rcases hx with rfl | rfl | rfl | rfl <;> simp
  · refine ⟨?_, ?_⟩
    · intro c hc
      simp only [List.mem_cons, List.mem_nil_iff, or_false] at hc
      subst hc
      exact ⟨by simp [f04S], [], [], by simp⟩
    · intro x hx
      exact ⟨{ store := 1, rank := 0, samples := f04S }, by simp, hx⟩

theorem C04_full_false : ¬ C04_dedup_on := by
  intro h
  obtain ⟨o, ho, hf⟩ := h f04Witness f04S 1 200000 (by simp [SSorted, f04S]) (by
    intro x hx
    simp only [f04S, List.mem_cons, List.mem_nil_iff, or_false] at hx
    rcases hx with rfl | rfl | rfl | rfl <;> decide) C04_witness_identical _ C04_witness_run
  cases ho
  revert hf
  decide

/-- non-vacuity of `C04_select_refines`: the F04 witness meets its hypotheses, so its loss is
    already visible in the pure function (the penalty merge of the three rows' unions) -/
example : pmFoldL ((overlapSplit (proxyChunks 1 200000 (f04Witness.reps.flatMap (·.chunks)))).map
        fun row => unionFrom 0 (row.map (·.samples))) = [⟨32456, 1⟩, ⟨94057, 2⟩] := by
  have h1 := C04_select_refines f04Witness 1 200000 (by decide) (by unfold ChunkOK; decide)
  have h2 := C04_witness_run
  rw [h1] at h2
  simpa using h2

/-- the witness is outside the partial statement: replica 0's chunks overlap -/
example : ¬ DisjointCuts f04Witness := by
  intro h
  have := h _ (List.mem_cons_self ..)
  revert this
  simp [RChunk.maxt, RChunk.mint]

/-- without deduplication both replicas come back complete on the same input -/
example : f04Witness.reps.map (selectRaw 1 200000) = [some (some f04S), some (some f04S)] := by decide

/-! ### the label side of C04: which copies form one logical series

  The querier never removes a replica label: with deduplication on it passes the replica labels to
  the stores (`WithoutReplicaLabels`) and merges neighbouring series with EQUAL label sets.  The
  model's store (`storeLabels`) is the specification "every requested replica label is removed from
  both the external and the series labels" — for the stores themselves that is theorem C08 of the
  `stores` family; for `TSDBStore.Series` the regenerated facts below pin the two unconditional
  `rmLabels` calls.  Under that specification no returned series carries a replica label and there
  is exactly one series per label set after removing the replica labels. -/

theorem mem_insertLbl {x l : Lbl} : ∀ {acc : List Lbl}, x ∈ insertLbl l acc → x = l ∨ x ∈ acc := by
  intro acc
  induction acc with
  | nil => intro h; simp [insertLbl] at h; exact Or.inl h
  | cons m ms ih =>
    intro h
    unfold insertLbl at h
    split at h
    · rcases List.mem_cons.mp h with h | h
      · exact Or.inl h
      · exact Or.inr h
    · split at h
      · rcases List.mem_cons.mp h with h | h
        · exact Or.inl h
        · exact Or.inr (List.mem_cons_of_mem _ h)
      · rcases List.mem_cons.mp h with h | h
        · exact Or.inr (by rw [h]; exact List.mem_cons_self)
        · rcases ih h with h | h
          · exact Or.inl h
          · exact Or.inr (List.mem_cons_of_mem _ h)

theorem mem_foldl_insertLbl {x : Lbl} : ∀ (ls acc : List Lbl),
    x ∈ ls.foldl (fun acc l => insertLbl l acc) acc → x ∈ ls ∨ x ∈ acc := by
  intro ls
  induction ls with
  | nil => intro acc h; exact Or.inr h
  | cons l ls ih =>
    intro acc h
    rcases ih _ h with h | h
    · exact Or.inl (List.mem_cons_of_mem _ h)
    · rcases mem_insertLbl h with h | h
      · exact Or.inl (by rw [h]; exact List.mem_cons_self)
      · exact Or.inr h

theorem mem_extendLabels {x : Lbl} {ser ext : List Lbl} (h : x ∈ extendLabels ser ext) :
    x ∈ ser ∨ x ∈ ext := by
  unfold extendLabels at h
  rcases mem_foldl_insertLbl _ _ h with h | h
  · exact Or.inr h
  · rcases mem_foldl_insertLbl _ _ h with h | h
    · exact Or.inl h
    · cases h

/-- **the store specification strips every requested replica label**, wherever it comes from -/
theorem C04_store_strips (rl : List String) (ext ser : List Lbl) :
    ∀ l ∈ storeLabels rl ext ser, l.1 ∉ rl := by
  intro l hl hrl
  unfold storeLabels rmLabels at hl
  rcases mem_extendLabels hl with h | h <;>
  · have := (List.mem_filter.mp h).2
    simp [hrl] at this

theorem groupCopiesF_spec : ∀ (n : Nat) (cs : List (List Lbl × Nat × List (List Sample))),
    (∀ g ∈ groupCopiesF n cs, ∃ c ∈ cs, c.1 = g.1) ∧ (groupCopiesF n cs).Pairwise (fun a b => a.1 ≠ b.1) := by
  intro n
  induction n with
  | zero =>
    intro cs
    rw [groupCopiesF]
    exact ⟨(by intro g hg; cases hg), List.Pairwise.nil⟩
  | succ n ih =>
    intro cs
    cases cs with
    | nil => simp [groupCopiesF]
    | cons c rest =>
      obtain ⟨ls, i, sm⟩ := c
      rw [groupCopiesF]
      obtain ⟨i1, i2⟩ := ih (rest.filter fun c => !(c.1 == ls))
      refine ⟨?_, ?_⟩
      · intro g hg
        rcases List.mem_cons.mp hg with hg | hg
        · exact ⟨(ls, i, sm), List.mem_cons_self, by rw [hg]⟩
        · obtain ⟨c, hc, hc2⟩ := i1 g hg
          exact ⟨c, List.mem_cons_of_mem _ (List.mem_filter.mp hc).1, hc2⟩
      · refine List.Pairwise.cons ?_ i2
        intro g hg heq
        obtain ⟨c, hc, hc2⟩ := i1 g hg
        have := (List.mem_filter.mp hc).2
        simp only [] at heq
        rw [hc2, ← heq] at this
        simp at this

/-- the fuel `cs.length` suffices: every copy lands in a group -/
theorem groupCopiesF_complete : ∀ (n : Nat) (cs : List (List Lbl × Nat × List (List Sample))), cs.length ≤ n →
    ∀ c ∈ cs, ∃ g ∈ groupCopiesF n cs, g.1 = c.1 := by
  intro n
  induction n with
  | zero =>
    intro cs h c hc
    have : cs = [] := List.eq_nil_of_length_eq_zero (Nat.le_zero.mp h)
    subst this; cases hc
  | succ n ih =>
    intro cs h c hc
    cases cs with
    | nil => cases hc
    | cons d rest =>
      obtain ⟨ls, i, sm⟩ := d
      rw [groupCopiesF]
      by_cases heq : c.1 = ls
      · exact ⟨_, List.mem_cons_self, heq.symm⟩
      · have hc' : c ∈ rest := by
          rcases List.mem_cons.mp hc with h1 | h1
          · rw [h1] at heq; exact absurd rfl heq
          · exact h1
        have hlen : (rest.filter fun c => !(c.1 == ls)).length ≤ n :=
          Nat.le_trans (List.length_filter_le _ _) (Nat.le_of_succ_le_succ h)
        obtain ⟨g, hg, hg2⟩ := ih _ hlen c (List.mem_filter.mpr ⟨hc', by simp [heq]⟩)
        exact ⟨g, List.mem_cons_of_mem _ hg, hg2⟩

/-- **one series per label set, none carrying a replica label**: the logical series the querier
    deduplicates over stores that follow the stripping specification have pairwise different label
    sets, and no such label set contains a requested replica label -/
theorem C04_one_series_per_labelset (rl : List String) (stores : List TStore) :
    (groupCopies (tsdbCopies rl stores)).Pairwise (fun a b => a.1 ≠ b.1) ∧
    ∀ g ∈ groupCopies (tsdbCopies rl stores), ∀ l ∈ g.1, l.1 ∉ rl := by
  obtain ⟨h1, h2⟩ := groupCopiesF_spec (tsdbCopies rl stores).length (tsdbCopies rl stores)
  refine ⟨h2, ?_⟩
  intro g hg l hl
  obtain ⟨c, hc, hc2⟩ := h1 g hg
  unfold tsdbCopies at hc
  obtain ⟨p, _, hp⟩ := List.mem_flatMap.mp hc
  obtain ⟨q, _, hq⟩ := List.mem_map.mp hp
  rw [← hc2, ← hq] at hl
  exact C04_store_strips rl _ _ l hl

/-- the HA-pair-behind-two-receivers example: four copies, one logical series -/
example : (selectTSDB true true ["receive_replica", "prometheus_replica"] 0 100
    [{ ext := [("receive_replica", "r1"), ("region", "eu")],
       series := [([("__name__", "up"), ("prometheus_replica", "p1")], [[⟨10, 1⟩], [⟨20, 2⟩]]),
                  ([("__name__", "up"), ("prometheus_replica", "p2")], [[⟨10, 1⟩], [⟨20, 2⟩]])] },
     { ext := [("receive_replica", "r2"), ("region", "eu")],
       series := [([("__name__", "up"), ("prometheus_replica", "p1")], [[⟨10, 1⟩], [⟨20, 2⟩]]),
                  ([("__name__", "up"), ("prometheus_replica", "p2")], [[⟨10, 1⟩], [⟨20, 2⟩]])] }])
    = [("__name__=up,region=eu", some [⟨10, 1⟩, ⟨20, 2⟩])] := by decide

/-! ### regenerated facts: the querier pieces the model transliterates -/

theorem C04_fact_pipeline :
    Thanos.Facts.selectFnPipeline = ["NewPromSeriesSet", "newStoreSeriesSet", "NewPromSeriesSet",
      "dedup.NewOverlapSplit", "newStoreSeriesSet", "dedup.NewSeriesSet"] ∧
    Thanos.Facts.overlapSplitFit =
      "len(o.replicas[ri]) == 0 || o.replicas[ri][len(o.replicas[ri])-1].MaxTime < currMinTime" ∧
    Thanos.Facts.chunkIterSwitchSeek = ["lastT + 1"] ∧
    Thanos.Facts.chunkIterSeekStop = "ct >= t" ∧
    Thanos.Facts.boundedSeekTests = ["t > it.maxt", "t < it.mint"] := by decide

/-- `TSDBStore.Series` removes the requested replica labels from the external labels AND from the
    labels of every series, unconditionally (the model's `storeLabels`) -/
theorem C04_fact_store_strip :
    Thanos.Facts.readPathTSDBStrip =
      ["finalExtLset := rmLabels(s.extLsetAsLabelSets[0].Copy(), extLsetToRemove)",
       "completeLabelset := labelpb.ExtendSortedLabels(rmLabels(series.Labels(), extLsetToRemove), finalExtLset)"] ∧
    Thanos.Facts.readPathTSDBStripArgs =
      ["s.extLsetAsLabelSets[0].Copy(), extLsetToRemove", "series.Labels(), extLsetToRemove"] ∧
    Thanos.Facts.readPathTSDBStripGuards = [] := by decide

end Thanos.Dedup
