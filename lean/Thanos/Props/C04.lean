import Thanos.Model.ReadPath
import Thanos.Lemmas.ReadPath
import Thanos.Generated.Facts
/-
  C04 — Deduplicated queries return each logical series once with replica data.

  Spec-level composition (`Model/ReadPath.lean`): the proxy is represented by its specification
  (chunks of all replicas of a logical series chained, identical ones dropped, sorted), the
  querier side (`overlapSplit`, `chunkSeriesIterator`, `boundedSeriesIterator`, penalty
  deduplication) is transliterated.
-/
namespace Thanos.Dedup

def inQuery (qmint qmaxt : Int) (x : Sample) : Bool := decide (qmint ≤ x.t) && decide (x.t ≤ qmaxt)

/-- the chunk is a non-empty contiguous cut of the sample sequence `S` -/
def CutOf (S : List Sample) (c : RChunk) : Prop := c.samples ≠ [] ∧ c.samples <:+: S

/-- every replica of the logical series holds exactly the samples `S`, cut into chunks in any
    way (chunks of one replica may overlap in time) and placed on any stores -/
def IdenticalReplicas (S : List Sample) (l : RSeries) : Prop :=
  l.reps ≠ [] ∧ ∀ r ∈ l.reps, (∀ c ∈ r.chunks, CutOf S c) ∧ ∀ x ∈ S, ∃ c ∈ r.chunks, x ∈ c.samples

/-- the chunks of every replica are pairwise disjoint in time -/
def DisjointCuts (l : RSeries) : Prop :=
  ∀ r ∈ l.reps, r.chunks.Pairwise fun c d => c.samples = d.samples ∨ c.maxt < d.mint ∨ d.maxt < c.mint

/-- C04 (dedup on) at full strength: identical replicas ⇒ the deduplicated series, inside the
    query range, is exactly `S` inside the query range (`SelectHints` are hints: the returned
    series may also carry samples of `S` outside the range). -/
def C04_dedup_on : Prop :=
  ∀ (l : RSeries) (S : List Sample) (qmint qmaxt : Int),
    SSorted S → (∀ x ∈ S, 1 ≤ x.t) → IdenticalReplicas S l →
    ∀ out, selectDedup true qmint qmaxt l = some out →
      ∃ o, out = some o ∧ o.filter (inQuery qmint qmaxt) = S.filter (inQuery qmint qmaxt)

/-- the part of C04 that is expected to hold: replicas whose own chunks do not overlap in time -/
def C04_dedup_on_partial : Prop :=
  ∀ (l : RSeries) (S : List Sample) (qmint qmaxt : Int),
    SSorted S → (∀ x ∈ S, 1 ≤ x.t) → IdenticalReplicas S l → DisjointCuts l →
    ∀ out, selectDedup true qmint qmaxt l = some out →
      ∃ o, out = some o ∧ o.filter (inQuery qmint qmaxt) = S.filter (inQuery qmint qmaxt)

/-- C04 (dedup off): a replica whose chunks are cuts of `S` (overlapping or not, on any stores) is
    returned with exactly the samples of `S` in the query range -/
def C04_dedup_off : Prop :=
  ∀ (r : RReplica) (S : List Sample) (qmint qmaxt : Int),
    SSorted S → (∀ x ∈ S, 1 ≤ x.t) → (∀ c ∈ r.chunks, CutOf S c) → (∀ x ∈ S, ∃ c ∈ r.chunks, x ∈ c.samples) →
    ∀ out, selectRaw qmint qmaxt r = some out →
      ∃ o, out = some o ∧ o.filter (inQuery qmint qmaxt) = S.filter (inQuery qmint qmaxt)

/-! ### proved building blocks of the composition

  `C04_dedup_on_partial` and `C04_dedup_off` are stated above and checked differentially against
  the real querier on every run, but not proved: what is missing is (i) that the rows
  `overlapSplit` builds from contiguous, per-replica disjoint cuts of one sequence are gap-free
  (DESIGN's non-obvious lemma), (ii) `boundedSeriesIterator` as a side of the dedup node is not
  list-like (its `Seek` does not enforce `maxt`), so `node_listLike` does not apply directly, and
  (iii) that the union of the proxy's sorted cuts is the sequence itself.  Proved: -/

/-- `dedup.NewOverlapSplit` partitions the chunks into non-empty, time-ordered, non-overlapping rows -/
theorem C04_overlapSplit_partition (cs : List RChunk) :
    (∀ row ∈ overlapSplit cs, RowOK row ∧ row ≠ []) ∧ (overlapSplit cs).flatten.Perm cs :=
  overlapSplit_partition cs

/-- `query.chunkSeriesIterator` (Next and Seek calling each other, transliterated with fuel) over a row
    of non-empty chunks yields the first chunk and then, from every later chunk, the samples after
    the last one yielded; it is list-like (`cs_listLike`), i.e. fit to be a side of the dedup node -/
theorem C04_chunkIter_union (c : List Sample) (cs : List (List Sample)) (hc : ChunkOK c)
    (hcs : ∀ d ∈ cs, ChunkOK d) : drain (csIt c cs) = unionFrom 0 (c :: cs) :=
  cs_drain c cs hc hcs

/-- … which is strictly increasing when each chunk is time-sorted -/
theorem C04_chunkIter_increasing (c : List Sample) (cs : List (List Sample)) (hc : ChunkOK c)
    (hcs : ∀ d ∈ cs, ChunkOK d) (hs : ∀ d ∈ c :: cs, SSorted d) : SSorted (drain (csIt c cs)) := by
  rw [cs_drain c cs hc hcs]
  exact (unionFrom_sorted hs).1

/-- … and is just the concatenation of the chunks on a row without overlaps (a virtual replica) -/
theorem C04_row_concat (c : List Sample) (cs : List (List Sample)) (hc : ChunkOK c)
    (hcs : ∀ d ∈ cs, ChunkOK d) (hs : ∀ d ∈ c :: cs, SSorted d) (hd : RowDisjoint (c :: cs)) :
    drain (csIt c cs) = (c :: cs).flatten := by
  rw [cs_drain c cs hc hcs]
  apply unionFrom_disjoint
  · intro d hd'
    rcases List.mem_cons.mp hd' with rfl | hd'
    · exact ⟨hc.1, hs _ (by simp)⟩
    · exact ⟨(hcs d hd').1, hs d (by simp [hd'])⟩
  · exact hd
  · intro d hd' x hx
    simp at hd'; subst hd'
    have := hc.2 x hx; omega

example : drain (csIt [⟨10, 1⟩, ⟨20, 2⟩, ⟨30, 3⟩] [[⟨20, 2⟩, ⟨30, 3⟩, ⟨40, 4⟩], [⟨35, 9⟩, ⟨50, 5⟩]])
    = [⟨10, 1⟩, ⟨20, 2⟩, ⟨30, 3⟩, ⟨40, 4⟩, ⟨50, 5⟩] := by decide

/-- `mapM` over rows that all succeed, keeping what each result is good for -/
theorem mapM_rows {f : List RChunk → Option AnyIt} {g : List RChunk → List Sample} :
    ∀ (rows : List (List RChunk)), (∀ row ∈ rows, ∃ it, f row = some it ∧ GoodN it (g row)) →
    ∃ ps : List (AnyIt × List Sample), rows.mapM f = some (ps.map (·.1)) ∧ ps.map (·.2) = rows.map g ∧
      ps.length = rows.length ∧ ∀ p ∈ ps, GoodN p.1 p.2 := by
  intro rows
  induction rows with
  | nil => intro _; exact ⟨[], rfl, rfl, rfl, by simp⟩
  | cons row rows ih =>
    intro h
    obtain ⟨it, hit, hg⟩ := h row (by simp)
    obtain ⟨ps, h1, h2, h3, h4⟩ := ih (fun r hr => h r (by simp [hr]))
    refine ⟨(it, g row) :: ps, ?_, by simp [h2], by simp [h3], ?_⟩
    · simp [List.mapM_cons, hit, h1]
    · intro p hp
      rcases List.mem_cons.mp hp with rfl | hp
      · exact hg
      · exact h4 p hp

/-- **The querier side is a pure function** (for a query range that covers the chunks it gets):
    `overlapSplit`, `chunkSeriesIterator`, `boundedSeriesIterator` and the penalty iterators
    together compute the left fold of the pure penalty merge `pm2` over the rows' unions — no
    panic, no sample lost to loop fuel.  The F04 loss and the partial property are therefore
    statements about `pm2` and `overlapSplit` alone. -/
theorem C04_select_refines (l : RSeries) (qmint qmaxt : Int)
    (hne : proxyChunks qmint qmaxt (l.reps.flatMap (·.chunks)) ≠ [])
    (hok : ∀ c ∈ proxyChunks qmint qmaxt (l.reps.flatMap (·.chunks)),
      ChunkOK c.samples ∧ ∀ x ∈ c.samples, qmint ≤ x.t ∧ x.t ≤ qmaxt) :
    selectDedup true qmint qmaxt l = some (some (pmFoldL
      ((overlapSplit (proxyChunks qmint qmaxt (l.reps.flatMap (·.chunks)))).map
        fun row => unionFrom 0 (row.map (·.samples))))) := by
  unfold selectDedup
  generalize hcs : proxyChunks qmint qmaxt (l.reps.flatMap (·.chunks)) = cs at hne hok
  have hemp : cs.isEmpty = false := by
    cases cs with
    | nil => exact absurd rfl hne
    | cons _ _ => rfl
  simp only [hemp, Bool.false_eq_true, if_false]
  obtain ⟨hrows, hperm⟩ := overlapSplit_partition cs
  -- every row gives a good iterator
  have hrow : ∀ row ∈ overlapSplit cs, ∃ it,
      chunkSeriesIt qmint qmaxt (row.map (·.samples)) = some it ∧
      GoodN it (unionFrom 0 (row.map (·.samples))) := by
    intro row hr
    obtain ⟨_, hrne⟩ := hrows row hr
    have hmem : ∀ c ∈ row, c ∈ cs := fun c hc =>
      hperm.subset (List.mem_flatten.mpr ⟨row, hr, hc⟩)
    cases row with
    | nil => exact absurd rfl hrne
    | cons c row' =>
      simp only [List.map_cons]
      apply chunkSeriesIt_good
      · exact (hok c (hmem c (by simp))).1
      · intro d hd
        obtain ⟨c', hc', rfl⟩ := List.mem_map.mp hd
        exact (hok c' (hmem c' (by simp [hc']))).1
      · intro d hd x hx
        rcases List.mem_cons.mp hd with rfl | hd
        · exact (hok c (hmem c (by simp))).2 x hx
        · obtain ⟨c', hc', rfl⟩ := List.mem_map.mp hd
          exact (hok c' (hmem c' (by simp [hc']))).2 x hx
  obtain ⟨ps, h1, h2, h3, h4⟩ := mapM_rows (f := fun row => chunkSeriesIt qmint qmaxt (row.map (·.samples)))
    (g := fun row => unionFrom 0 (row.map (·.samples))) (overlapSplit cs) hrow
  have hpsne : ps ≠ [] := by
    intro he
    rw [he] at h3
    have : overlapSplit cs = [] := List.length_eq_zero_iff.mp h3.symm
    rw [this] at hperm
    exact hne (List.Perm.eq_nil (hperm.symm))
  obtain ⟨it, hit, hg⟩ := foldIts_good ps hpsne h4
  simp only [h1, hit, drainChecked_goodN hg, h2]

/-! ### F04: overlapping chunks inside a replica make the penalty window swallow samples -/

def f04S : List Sample := [⟨32456, 1⟩, ⟨94057, 2⟩, ⟨154387, 3⟩, ⟨186226, 4⟩]

/-- replica 0 holds `S[0:2]` and `S[1:4]` (they overlap in 94057), replica 1 holds `S[0:4]` -/
def f04Witness : RSeries :=
  { key := 0,
    reps := [ { rid := 0, chunks := [ { store := 0, rank := 0, samples := [⟨32456, 1⟩, ⟨94057, 2⟩] },
                                     { store := 0, rank := 0, samples := [⟨94057, 2⟩, ⟨154387, 3⟩, ⟨186226, 4⟩] } ] },
              { rid := 1, chunks := [ { store := 1, rank := 0, samples := f04S } ] } ] }

/-- `overlapSplit` makes three virtual replicas `[S[0:2]]`, `[S[0:4]]`, `[S[1:4]]`; when the first
    one ends the others are sought past the pending penalty -/
theorem C04_witness_run : selectDedup true 1 200000 f04Witness = some (some [⟨32456, 1⟩, ⟨94057, 2⟩]) := by
  decide

theorem C04_witness_identical : IdenticalReplicas f04S f04Witness := by
  refine ⟨by simp [f04Witness], ?_⟩
  intro r hr
  simp only [f04Witness, List.mem_cons, List.mem_nil_iff, or_false] at hr
  rcases hr with rfl | rfl
  · refine ⟨?_, ?_⟩
    · intro c hc
      simp only [List.mem_cons, List.mem_nil_iff, or_false] at hc
      rcases hc with rfl | rfl
      · exact ⟨by simp, [], [⟨154387, 3⟩, ⟨186226, 4⟩], by simp [f04S]⟩
      · exact ⟨by simp, [⟨32456, 1⟩], [], by simp [f04S]⟩
    · intro x hx
      simp only [f04S, List.mem_cons, List.mem_nil_iff, or_false] at hx
      rcases hx with rfl | rfl | rfl | rfl <;> simp
  · refine ⟨?_, ?_⟩
    · intro c hc
      simp only [List.mem_cons, List.mem_nil_iff, or_false] at hc
      subst hc
      exact ⟨by simp [f04S], [], [], by simp⟩
    · intro x hx
      exact ⟨{ store := 1, rank := 0, samples := f04S }, by simp, hx⟩

theorem C04_full_false : ¬ C04_dedup_on := by
  intro h
  obtain ⟨o, ho, hf⟩ := h f04Witness f04S 1 200000 (by simp [SSorted, f04S]) (by
    intro x hx
    simp only [f04S, List.mem_cons, List.mem_nil_iff, or_false] at hx
    rcases hx with rfl | rfl | rfl | rfl <;> decide) C04_witness_identical _ C04_witness_run
  cases ho
  revert hf
  decide

/-- non-vacuity of `C04_select_refines`: the F04 witness meets its hypotheses, so its loss is
    already visible in the pure function (the penalty merge of the three rows' unions) -/
example : pmFoldL ((overlapSplit (proxyChunks 1 200000 (f04Witness.reps.flatMap (·.chunks)))).map
        fun row => unionFrom 0 (row.map (·.samples))) = [⟨32456, 1⟩, ⟨94057, 2⟩] := by
  have h1 := C04_select_refines f04Witness 1 200000 (by decide) (by unfold ChunkOK; decide)
  have h2 := C04_witness_run
  rw [h1] at h2
  simpa using h2

/-- the witness is outside the partial statement: replica 0's chunks overlap -/
example : ¬ DisjointCuts f04Witness := by
  intro h
  have := h _ (List.mem_cons_self ..)
  revert this
  simp [RChunk.maxt, RChunk.mint]

/-- without deduplication both replicas come back complete on the same input -/
example : f04Witness.reps.map (selectRaw 1 200000) = [some (some f04S), some (some f04S)] := by decide

/-! ### regenerated facts: the querier pieces the model transliterates -/

theorem C04_fact_pipeline :
    Thanos.Facts.selectFnPipeline = ["NewPromSeriesSet", "newStoreSeriesSet", "NewPromSeriesSet",
      "dedup.NewOverlapSplit", "newStoreSeriesSet", "dedup.NewSeriesSet"] ∧
    Thanos.Facts.overlapSplitFit =
      "len(o.replicas[ri]) == 0 || o.replicas[ri][len(o.replicas[ri])-1].MaxTime < currMinTime" ∧
    Thanos.Facts.chunkIterSwitchSeek = ["lastT + 1"] ∧
    Thanos.Facts.chunkIterSeekStop = "ct >= t" ∧
    Thanos.Facts.boundedSeekTests = ["t > it.maxt", "t < it.mint"] := by decide

end Thanos.Dedup
