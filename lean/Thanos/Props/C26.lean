import Thanos.Model.RWv2
import Thanos.Generated.Facts
/-
  C26 — Remote-write v2 requests are translated faithfully and safely.

  "A remote-write 2.0 request is ingested with the same series labels, samples, histograms and
  exemplars it describes through its symbol table, and a request with symbol references outside
  the table is rejected with a client error rather than crashing request handling."
-/
namespace Thanos.RWv2

/-! ### what a request describes -/

/-- the (name, value) reference pairs of a reference list; an unpaired last reference describes
    nothing -/
def pairsOf : List Nat → List (Nat × Nat)
  | a :: b :: rest => (a, b) :: pairsOf rest
  | _ => []

/-- the labels a list of reference pairs describes through the symbol table; `none` if some
    reference lies outside the table -/
def lookupAll (symbols : List Sym) : List (Nat × Nat) → Option (List (Sym × Sym))
  | [] => some []
  | p :: ps =>
    match symbols[p.1]?, symbols[p.2]?, lookupAll symbols ps with
    | some n, some v, some more => some ((n, v) :: more)
    | _, _, _ => none

def lookupPairs (symbols : List Sym) (refs : List Nat) : Option (List (Sym × Sym)) :=
  lookupAll symbols (pairsOf refs)

/-- every dereferenced reference (both members of every pair) is inside the table -/
def RefsInRange (symbols : List Sym) (refs : List Nat) : Prop :=
  ∀ p, p ∈ pairsOf refs → p.1 < symbols.length ∧ p.2 < symbols.length

def TSInRange (symbols : List Sym) (t : TS2) : Prop :=
  RefsInRange symbols t.refs ∧ ∀ e, e ∈ t.exemplars → RefsInRange symbols e.refs

def ReqInRange (symbols : List Sym) (req : List TS2) : Prop := ∀ t, t ∈ req → TSInRange symbols t

/-- two lists correspond element by element -/
def AllPairs {α β : Type} (R : α → β → Prop) : List α → List β → Prop
  | [], [] => True
  | a :: as, b :: bs => R a b ∧ AllPairs R as bs
  | _, _ => False

def FaithfulExemplar (symbols : List Sym) (e : Exemplar2) (e' : Exemplar1) : Prop :=
  lookupPairs symbols e.refs = some e'.labels ∧ e'.value = e.value ∧ e'.ts = e.ts

/-- `o` is the v1 series that the v2 series `t` describes -/
def Faithful (symbols : List Sym) (t : TS2) (o : TS1) : Prop :=
  lookupPairs symbols t.refs = some o.labels ∧
  o.samples = t.samples.map (fun s => ⟨s.value, s.ts⟩) ∧
  o.hists = t.hists.map (·.h) ∧
  AllPairs (FaithfulExemplar symbols) t.exemplars o.exemplars

def errOf (checked : Bool) : Err := if checked then .badRequest else .panic

/-! ### helper lemmas -/

theorem lookupAll_isSome {symbols : List Sym} {ps : List (Nat × Nat)} :
    (∃ ls, lookupAll symbols ps = some ls) ↔ ∀ p, p ∈ ps → p.1 < symbols.length ∧ p.2 < symbols.length := by
  induction ps with
  | nil => simp [lookupAll]
  | cons p ps ih =>
    simp only [lookupAll, List.mem_cons]
    constructor
    · rintro ⟨ls, h⟩
      split at h
      · rename_i n v more h1 h2 h3
        have := ih.mp ⟨more, h3⟩
        intro q hq
        rcases hq with rfl | hq
        · exact ⟨(List.getElem?_eq_some_iff.mp h1).1, (List.getElem?_eq_some_iff.mp h2).1⟩
        · exact this q hq
      · simp at h
    · intro h
      obtain ⟨h1, h2⟩ := h p (Or.inl rfl)
      obtain ⟨ls', h3⟩ := ih.mpr (fun q hq => h q (Or.inr hq))
      exact ⟨(symbols[p.1], symbols[p.2]) :: ls', by simp [List.getElem?_eq_getElem h1, List.getElem?_eq_getElem h2, h3]⟩

theorem lookupPairs_isSome {symbols : List Sym} {refs : List Nat} :
    (∃ ls, lookupPairs symbols refs = some ls) ↔ RefsInRange symbols refs := lookupAll_isSome

/-- `resolve` is the lookup of the described pairs; outside the table it fails the way the flag says -/
theorem resolve_spec (checked : Bool) (symbols : List Sym) : ∀ (refs : List Nat),
    resolve checked symbols refs =
      match lookupPairs symbols refs with
      | some ls => .ok ls
      | none => .error (errOf checked)
  | [] => by simp [resolve, lookupPairs, pairsOf, lookupAll]
  | [_] => by simp [resolve, lookupPairs, pairsOf, lookupAll]
  | a :: b :: rest => by
    have ih := resolve_spec checked symbols rest
    simp only [resolve, lookupPairs, pairsOf, lookupAll, sym, errOf] at ih ⊢
    cases h1 : symbols[a]? <;> cases h2 : symbols[b]? <;> simp only [ih] <;>
      cases h3 : lookupAll symbols (pairsOf rest) <;> simp

theorem mapE_ok {α β : Type} (f : α → Except Err β) (R : α → β → Prop) :
    ∀ (l : List α), (∀ a, a ∈ l → ∃ b, f a = .ok b ∧ R a b) → ∃ bs, mapE f l = .ok bs ∧ AllPairs R l bs
  | [], _ => ⟨[], rfl, trivial⟩
  | a :: as, h => by
    obtain ⟨b, hb, hr⟩ := h a (by simp)
    obtain ⟨bs, hbs, hrs⟩ := mapE_ok f R as (fun x hx => h x (by simp [hx]))
    exact ⟨b :: bs, by simp [mapE, hb, hbs], hr, hrs⟩

theorem mapE_err {α β : Type} (f : α → Except Err β) (e : Err) :
    ∀ (l : List α), (∀ a, a ∈ l → (∃ b, f a = .ok b) ∨ f a = .error e) → (∃ a, a ∈ l ∧ f a = .error e) →
      mapE f l = .error e
  | [], _, h => by obtain ⟨a, ha, _⟩ := h; simp at ha
  | a :: as, hall, h => by
    rcases hall a (by simp) with ⟨b, hb⟩ | he
    · have : ∃ x, x ∈ as ∧ f x = .error e := by
        obtain ⟨x, hx, hxe⟩ := h
        rcases List.mem_cons.mp hx with rfl | hx
        · rw [hb] at hxe; cases hxe
        · exact ⟨x, hx, hxe⟩
      have := mapE_err f e as (fun x hx => hall x (by simp [hx])) this
      simp [mapE, hb, this]
    · simp [mapE, he]

theorem resolve_ok {checked : Bool} {symbols : List Sym} {refs : List Nat} (h : RefsInRange symbols refs) :
    ∃ ls, resolve checked symbols refs = .ok ls ∧ lookupPairs symbols refs = some ls := by
  obtain ⟨ls, hls⟩ := lookupPairs_isSome.mpr h
  exact ⟨ls, by rw [resolve_spec, hls], hls⟩

theorem resolve_err {checked : Bool} {symbols : List Sym} {refs : List Nat} (h : ¬ RefsInRange symbols refs) :
    resolve checked symbols refs = .error (errOf checked) := by
  rw [resolve_spec]
  cases hl : lookupPairs symbols refs with
  | none => rfl
  | some ls => exact absurd (lookupPairs_isSome.mp ⟨ls, hl⟩) h

theorem translateExemplar_cases (checked : Bool) (symbols : List Sym) (e : Exemplar2) :
    (RefsInRange symbols e.refs ∧ ∃ e', translateExemplar checked symbols e = .ok e' ∧ FaithfulExemplar symbols e e') ∨
    (¬ RefsInRange symbols e.refs ∧ translateExemplar checked symbols e = .error (errOf checked)) := by
  by_cases h : RefsInRange symbols e.refs
  · left
    obtain ⟨ls, h1, h2⟩ := resolve_ok (checked := checked) h
    exact ⟨h, ⟨ls, e.value, e.ts⟩, by simp [translateExemplar, h1], h2, rfl, rfl⟩
  · right
    exact ⟨h, by simp [translateExemplar, resolve_err h]⟩

theorem translateTS_ok (checked : Bool) (symbols : List Sym) (t : TS2) (h : TSInRange symbols t) :
    ∃ o, translateTS checked symbols t = .ok o ∧ Faithful symbols t o := by
  obtain ⟨hr, he⟩ := h
  obtain ⟨ls, h1, h2⟩ := resolve_ok (checked := checked) hr
  obtain ⟨es, h3, h4⟩ := mapE_ok (translateExemplar checked symbols) (FaithfulExemplar symbols) t.exemplars (by
    intro e hmem
    rcases translateExemplar_cases checked symbols e with ⟨_, e', a, b⟩ | ⟨hn, _⟩
    · exact ⟨e', a, b⟩
    · exact absurd (he e hmem) hn)
  exact ⟨⟨ls, t.samples.map (fun s => ⟨s.value, s.ts⟩), es, t.hists.map (·.h)⟩, by simp [translateTS, h1, h3], h2, rfl, rfl, h4⟩

theorem translateTS_err (checked : Bool) (symbols : List Sym) (t : TS2) (h : ¬ TSInRange symbols t) :
    translateTS checked symbols t = .error (errOf checked) := by
  by_cases hr : RefsInRange symbols t.refs
  · have hex : ∃ e, e ∈ t.exemplars ∧ ¬ RefsInRange symbols e.refs := by
      apply Classical.byContradiction
      intro hno
      apply h
      refine ⟨hr, fun e he => ?_⟩
      apply Classical.byContradiction
      intro hne
      exact hno ⟨e, he, hne⟩
    obtain ⟨ls, h1, _⟩ := resolve_ok (checked := checked) hr
    have := mapE_err (translateExemplar checked symbols) (errOf checked) t.exemplars (by
      intro e _
      rcases translateExemplar_cases checked symbols e with ⟨_, e', a, _⟩ | ⟨_, a⟩
      · exact Or.inl ⟨e', a⟩
      · exact Or.inr a) (by
      obtain ⟨e, he, hne⟩ := hex
      rcases translateExemplar_cases checked symbols e with ⟨hin, _⟩ | ⟨_, a⟩
      · exact absurd hin hne
      · exact ⟨e, he, a⟩)
    simp [translateTS, h1, this]
  · simp [translateTS, resolve_err hr]

/-! ### the property -/

/-- **Faithful.**  If every dereferenced reference lies inside the symbol table, the translation
    succeeds (with or without the bounds test) and yields, series by series, exactly what the
    request describes: the labels are the pairwise lookups of the references, samples keep value
    and timestamp, histograms keep every field of `prompb.Histogram` (both oneofs included),
    exemplars keep labels, value and timestamp. -/
theorem C26_faithful (checked : Bool) (symbols : List Sym) (req : List TS2) (h : ReqInRange symbols req) :
    ∃ out, translate checked symbols req = .ok out ∧ AllPairs (Faithful symbols) req out :=
  mapE_ok _ _ req (fun t ht => translateTS_ok checked symbols t (h t ht))

/-- a request with a dereferenced reference outside the table fails, in the way the flag says -/
theorem translate_out_of_range (checked : Bool) (symbols : List Sym) (req : List TS2) (h : ¬ ReqInRange symbols req) :
    translate checked symbols req = .error (errOf checked) := by
  have hex : ∃ t, t ∈ req ∧ ¬ TSInRange symbols t := by
    apply Classical.byContradiction
    intro hno
    apply h
    intro t ht
    apply Classical.byContradiction
    intro hne
    exact hno ⟨t, ht, hne⟩
  apply mapE_err
  · intro t _
    by_cases ht : TSInRange symbols t
    · obtain ⟨o, ho, _⟩ := translateTS_ok checked symbols t ht
      exact Or.inl ⟨o, ho⟩
    · exact Or.inr (translateTS_err checked symbols t ht)
  · obtain ⟨t, ht, hne⟩ := hex
    exact ⟨t, ht, translateTS_err checked symbols t hne⟩

/-- **Safe**, at full strength, for the translation selected by `checked`: a request with a
    reference outside the table is answered with the client error 400 (and nothing is forwarded). -/
def C26_safe_full (checked : Bool) : Prop :=
  ∀ (symbols : List Sym) (req : List TS2), ¬ ReqInRange symbols req → handleV2 checked symbols req = .status 400

/-- the translation with the bounds test is safe … -/
theorem C26_safe_fixed : C26_safe_full true := by
  intro symbols req h
  simp [handleV2, translate_out_of_range true symbols req h, errOf]

/-- … the bare index expressions are not: symbols ["", "a", "b"], LabelsRefs [1, 7] panics -/
theorem C26_safe_full_false : ¬ C26_safe_full false := by
  intro h
  have := h ["x", "x61", "x62"] [⟨[1, 7], [], [], [], ⟨0, 0, 0⟩⟩] (by
    intro hin
    have := (hin ⟨[1, 7], [], [], [], ⟨0, 0, 0⟩⟩ (List.mem_singleton.mpr rfl)).1 (1, 7) (by simp [pairsOf])
    exact absurd this.2 (by decide))
  revert this
  decide

/-- without the bounds test every such request panics (nothing weaker happens, e.g. no silent
    mistranslation) -/
theorem C26_unchecked_panics (symbols : List Sym) (req : List TS2) (h : ¬ ReqInRange symbols req) :
    handleV2 false symbols req = .panic := by
  simp [handleV2, translate_out_of_range false symbols req h, errOf]

/-- requests whose references are in range are accepted whatever the flag, with the written
    counters of the request and the described series handed on -/
theorem C26_accepts (checked : Bool) (symbols : List Sym) (req : List TS2) (h : ReqInRange symbols req) :
    ∃ out, handleV2 checked symbols req =
        .accepted (req.map (·.samples.length)).sum (req.map (·.hists.length)).sum (req.map (·.exemplars.length)).sum out ∧
      AllPairs (Faithful symbols) req out := by
  obtain ⟨out, h1, h2⟩ := C26_faithful checked symbols req h
  exact ⟨out, by simp [handleV2, h1], h2⟩

/-- an unpaired trailing reference is ignored, wherever it points -/
theorem C26_unpaired_ignored (refs : List Nat) (x : Nat) (h : refs.length % 2 = 0) :
    pairsOf (refs ++ [x]) = pairsOf refs := by
  induction refs using pairsOf.induct with
  | case1 a b rest ih => simp only [List.cons_append, pairsOf]; rw [ih (by simp at h; omega)]
  | case2 l hl =>
    match l, hl with
    | [], _ => simp [pairsOf]
    | [a], _ => simp at h
    | a :: b :: rest, hl => exact absurd rfl (hl a b rest)

/-- C26 for the translation selected by `checked` -/
def C26_full (checked : Bool) : Prop :=
  (∀ symbols req, ReqInRange symbols req →
    ∃ out, translate checked symbols req = .ok out ∧ AllPairs (Faithful symbols) req out) ∧
  C26_safe_full checked

/-- C26 holds of the code as it is now (`codeChecked`, tied to the source by `C26_refs_fact`) … -/
theorem C26_holds : C26_full codeChecked :=
  ⟨fun symbols req h => C26_faithful codeChecked symbols req h, C26_safe_fixed⟩

/-- … and did not hold of the code before the repair -/
theorem C26_full_false : ¬ C26_full false := fun h => C26_safe_full_false h.2

/-! ### tie to the source -/

/-- are the symbol references bounds-checked, as far as the source shows: the symbol table is
    indexed in one function only and that function tests both references of a pair against the
    length of the table first -/
def checkedOfFacts (idxFuncs : List String) (cond : String) : Bool :=
  idxFuncs == ["symbolizedLabels"] &&
  cond == "uint64(refs[i]) >= uint64(len(symbols)) || uint64(refs[i+1]) >= uint64(len(symbols))"

/-- Regenerated obligation: the model's flag is what the source shows. -/
theorem C26_refs_fact :
    checkedOfFacts Thanos.Facts.v2SymbolIndexFuncs Thanos.Facts.v2SymbolBoundCheck = codeChecked := by decide

/-- Regenerated obligation: every field of the v1 messages (`Sample`, `Exemplar`, `Histogram`,
    `BucketSpan`, `TimeSeries` of prompb/types.pb.go) is assigned by the translation — the
    programmatic check the TODO in `translateV2ToV1` asks for.  The model's `Hist` has the
    fourteen `Histogram` fields, `Sample1` / `Exemplar1` / `TS1` / `Span` the others. -/
theorem C26_fields_fact :
    Thanos.Facts.v1MessageFields =
      ["BucketSpan.Length", "BucketSpan.Offset", "Exemplar.Labels", "Exemplar.Timestamp", "Exemplar.Value",
       "Histogram.Count", "Histogram.CustomValues", "Histogram.NegativeCounts", "Histogram.NegativeDeltas",
       "Histogram.NegativeSpans", "Histogram.PositiveCounts", "Histogram.PositiveDeltas", "Histogram.PositiveSpans",
       "Histogram.ResetHint", "Histogram.Schema", "Histogram.Sum", "Histogram.Timestamp", "Histogram.ZeroCount",
       "Histogram.ZeroThreshold", "Sample.Timestamp", "Sample.Value", "TimeSeries.Exemplars", "TimeSeries.Histograms",
       "TimeSeries.Labels", "TimeSeries.Samples"] ∧
    Thanos.Facts.v1MessageFields.all (fun f => Thanos.Facts.v2TranslateAssigned.contains f) = true := by
  constructor <;> decide

/-! ### non-vacuity -/

private def exSyms : List Sym := ["x", "x5f5f6e616d655f5f", "x7570", "x6a6f62", "x61"]
private def exHist : Hist := ⟨.int 3, 5, 2, 0, .float 7, [⟨1, 2⟩], [1, -1], [], [⟨-3, 1⟩], [4], [9], 2, 1000, [11]⟩
private def exReq : List TS2 :=
  [⟨[1, 2, 3, 4, 9], [⟨7, 1000, 5⟩], [⟨[3, 4], 8, 999⟩], [⟨exHist, 17⟩], ⟨1, 0, 0⟩⟩, ⟨[], [], [], [], ⟨0, 9, 9⟩⟩]

example : ReqInRange exSyms exReq := by
  intro t ht
  simp [exReq] at ht
  rcases ht with rfl | rfl
  · refine ⟨?_, ?_⟩
    · intro p hp; simp [pairsOf] at hp; rcases hp with rfl | rfl <;> decide
    · intro e he; simp at he; subst he; intro p hp; simp [pairsOf] at hp; subst hp; decide
  · exact ⟨by intro p hp; simp [pairsOf] at hp, by intro e he; simp at he⟩

example : translate true exSyms exReq =
    .ok [⟨[("x5f5f6e616d655f5f", "x7570"), ("x6a6f62", "x61")], [⟨7, 1000⟩], [⟨[("x6a6f62", "x61")], 8, 999⟩], [exHist]⟩,
         ⟨[], [], [], []⟩] := rfl

example : handleV2 false ["x", "x61", "x62"] [⟨[1, 7], [], [], [], ⟨0, 0, 0⟩⟩] = .panic := by decide
example : handleV2 true ["x", "x61", "x62"] [⟨[1, 7], [], [], [], ⟨0, 0, 0⟩⟩] = .status 400 := by decide
example : handleV2 true ["x", "x61", "x62"] [⟨[1, 2, 7], [], [], [], ⟨0, 0, 0⟩⟩] = .accepted 0 0 0 [⟨[("x61", "x62")], [], [], []⟩] := by decide

end Thanos.RWv2
