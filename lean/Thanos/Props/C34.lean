import Thanos.Model.CompactProto
import Thanos.Lemmas.CompactProto
import Thanos.Generated.Facts
/-
  C34 — Compactor and store gateway delays keep data queryable (model).

  "In a system where the compactor replaces blocks and deletes sources after a delete delay while
   store gateways hide deletion-marked blocks after a shorter delay and sync periodically, every
   source sample remains served by some store gateway at all times."
  Quantifier: all interleavings of compactor steps (upload result, mark sources, clean) and
  store-gateway syncs, with sync lag bounded below the difference of the delays.

  The theorem is about the protocol model `Model/CompactProto.lean` (spec level: a block is its
  id, level, source set and deletion mark; the duplicate filter is its specification), for every
  action sequence, any number of blocks and gateways.  It is stated per gateway (hence "some
  gateway"): whatever sample was in the bucket when a gateway last synced is served by that
  gateway at every later moment.
-/
namespace Thanos.CompactProto

/-! ## The invariant -/

structure Inv (P : Params) (s : State) : Prop where
  ids_lt    : ∀ b ∈ s.blocks, b.id < s.nextId
  ids_nodup : s.blocks.Pairwise (fun a b => a.id ≠ b.id)
  src_sorted : ∀ b ∈ s.blocks, b.sources.Pairwise (· < ·)
  /-- every block marked for deletion has an unmarked block that holds all its samples and comes
      before it in the duplicate filter's order -/
  witness   : ∀ b ∈ s.blocks, b.mark ≠ none →
                ∃ u ∈ s.blocks, u.mark = none ∧ covers u b = true ∧ beats P.levelTie u b = true
  gw_time   : ∀ g ∈ s.gws, g.lastSync ≤ s.now ∧ s.now ≤ g.lastSync + P.lag
  /-- a loaded block is in the bucket, and if it is marked, the mark was young enough at the sync
      or was placed after it -/
  gw_loaded : ∀ g ∈ s.gws, ∀ i ∈ g.loaded, ∃ b ∈ s.blocks, b.id = i ∧
                ∀ t, b.mark = some t → g.lastSync ≤ t + P.ignoreDelay
  gw_known  : ∀ g ∈ s.gws, ∀ x ∈ g.known, ∃ b ∈ s.blocks, b.id ∈ g.loaded ∧ x ∈ b.sources

theorem insertSrc_sorted {x : Nat} : ∀ {l : List Nat}, l.Pairwise (· < ·) → (insertSrc x l).Pairwise (· < ·)
  | [], _ => by simp [insertSrc]
  | y :: ys, h => by
    have h' := List.pairwise_cons.mp h
    unfold insertSrc
    by_cases h1 : x < y
    · simp only [h1, if_true]
      refine List.pairwise_cons.mpr ⟨?_, h⟩
      intro z hz
      rcases List.mem_cons.mp hz with rfl | hz
      · exact h1
      · exact Nat.lt_trans h1 (h'.1 z hz)
    · by_cases h2 : x = y
      · simp [h2, h]
      · simp only [h1, h2, if_false]
        refine List.pairwise_cons.mpr ⟨?_, insertSrc_sorted h'.2⟩
        intro z hz
        rcases mem_insertSrc.mp hz with rfl | hz
        · omega
        · exact h'.1 z hz

theorem unionSrc_sorted : ∀ {a b : List Nat}, b.Pairwise (· < ·) → (unionSrc a b).Pairwise (· < ·)
  | [], _, h => by simpa [unionSrc] using h
  | x :: a, b, h => by
    have := unionSrc_sorted (a := a) (insertSrc_sorted (x := x) h)
    simpa [unionSrc] using this

theorem foldl_union_sorted : ∀ {bs : List Blk} {acc : List Nat}, acc.Pairwise (· < ·) →
    (bs.foldl (fun acc b => unionSrc b.sources acc) acc).Pairwise (· < ·)
  | [], _, h => by simpa using h
  | b :: bs, acc, h => by
    simp only [List.foldl_cons]
    exact foldl_union_sorted (unionSrc_sorted h)

theorem nodup_of_sorted {l : List Nat} (h : l.Pairwise (· < ·)) : l.Nodup :=
  h.imp (fun hab => Nat.ne_of_lt hab)

/-- adding a fresh unmarked block preserves the invariant -/
theorem inv_add (P : Params) (s : State) (nb : Blk) (hi : Inv P s) (hid : nb.id = s.nextId)
    (hm : nb.mark = none) (hs : nb.sources.Pairwise (· < ·)) :
    Inv P { s with blocks := s.blocks ++ [nb], nextId := s.nextId + 1 } := by
  refine ⟨?_, ?_, ?_, ?_, hi.gw_time, ?_, ?_⟩
  · intro b hb
    rcases List.mem_append.mp hb with hb | hb
    · have := hi.ids_lt b hb; simp only; omega
    · simp at hb; subst hb; simp only; omega
  · simp only
    rw [List.pairwise_append]
    refine ⟨hi.ids_nodup, by simp, ?_⟩
    intro a ha b hb
    simp at hb; subst hb
    have := hi.ids_lt a ha
    omega
  · intro b hb
    rcases List.mem_append.mp hb with hb | hb
    · exact hi.src_sorted b hb
    · simp at hb; subst hb; exact hs
  · intro b hb hmk
    rcases List.mem_append.mp hb with hb | hb
    · obtain ⟨u, hu, h1, h2, h3⟩ := hi.witness b hb hmk
      exact ⟨u, List.mem_append_left _ hu, h1, h2, h3⟩
    · simp at hb; subst hb; exact absurd hm hmk
  · intro g hg i hi'
    obtain ⟨b, hb, h1, h2⟩ := hi.gw_loaded g hg i hi'
    exact ⟨b, List.mem_append_left _ hb, h1, h2⟩
  · intro g hg x hx
    obtain ⟨b, hb, h1, h2⟩ := hi.gw_known g hg x hx
    exact ⟨b, List.mem_append_left _ hb, h1, h2⟩

/-- marking a block that has an unmarked cover which precedes it preserves the invariant -/
theorem inv_setMark (P : Params) (s : State) (i : Nat) (bb : Blk) (hi : Inv P s)
    (hbb : bb ∈ s.blocks) (hbi : bb.id = i)
    (hw : ∃ u ∈ s.blocks, u.mark = none ∧ covers u bb = true ∧ beats P.levelTie u bb = true) :
    Inv P { s with blocks := setMark i s.now s.blocks } := by
  obtain ⟨w, hwm, hwl, hwc, hwb⟩ := hw
  have hwi : w.id ≠ i := by
    intro h
    have : w = bb := eq_of_id_eq hi.ids_nodup hwm hbb (h.trans hbi.symm)
    subst this
    simp [beats_irrefl] at hwb
  have hw' : w ∈ setMark i s.now s.blocks := mem_setMark.mpr ⟨w, hwm, by simp [hwi]⟩
  refine ⟨?_, setMark_id_pairwise hi.ids_nodup, ?_, ?_, hi.gw_time, ?_, ?_⟩
  · intro b hb
    obtain ⟨c, hc, rfl⟩ := mem_setMark.mp hb
    have := hi.ids_lt c hc
    split <;> simpa using this
  · intro b hb
    obtain ⟨c, hc, rfl⟩ := mem_setMark.mp hb
    have := hi.src_sorted c hc
    split <;> simpa using this
  · intro b hb hmk
    obtain ⟨c, hc, rfl⟩ := mem_setMark.mp hb
    by_cases hci : c.id = i
    · -- the block being marked
      have : c = bb := eq_of_id_eq hi.ids_nodup hc hbb (hci.trans hbi.symm)
      subst this
      refine ⟨w, hw', hwl, ?_, ?_⟩
      · simp only [hci, if_true]; exact hwc
      · have : beats P.levelTie w (if c.id = i then { c with mark := some s.now } else c) = beats P.levelTie w c := by
          split <;> rfl
        rw [this]; exact hwb
    · simp only [hci, if_false] at hmk ⊢
      obtain ⟨u, hu, h1, h2, h3⟩ := hi.witness c hc hmk
      by_cases hui : u.id = i
      · have : u = bb := eq_of_id_eq hi.ids_nodup hu hbb (hui.trans hbi.symm)
        subst this
        exact ⟨w, hw', hwl, covers_trans hwc h2, beats_trans _ hwb h3⟩
      · exact ⟨u, mem_setMark.mpr ⟨u, hu, by simp [hui]⟩, h1, h2, h3⟩
  · intro g hg j hj
    obtain ⟨b, hb, h1, h2⟩ := hi.gw_loaded g hg j hj
    refine ⟨_, mem_setMark.mpr ⟨b, hb, rfl⟩, ?_, ?_⟩
    · split <;> simpa using h1
    · intro t ht
      by_cases hbi' : b.id = i
      · simp only [hbi', if_true, Option.some.injEq] at ht
        have := (hi.gw_time g hg).1
        omega
      · simp only [hbi', if_false] at ht
        exact h2 t ht
  · intro g hg x hx
    obtain ⟨b, hb, h1, h2⟩ := hi.gw_known g hg x hx
    refine ⟨_, mem_setMark.mpr ⟨b, hb, rfl⟩, ?_, ?_⟩
    · split <;> simpa using h1
    · split <;> simpa using h2

/-- in a state satisfying the invariant every sample of the bucket is in an unmarked block -/
theorem live_cover (P : Params) (s : State) (hi : Inv P s) (b : Blk) (hb : b ∈ s.blocks) :
    ∃ u ∈ s.blocks, u.mark = none ∧ covers u b = true := by
  by_cases hm : b.mark = none
  · exact ⟨b, hb, hm, covers_refl b⟩
  · obtain ⟨u, hu, h1, h2, _⟩ := hi.witness b hb hm
    exact ⟨u, hu, h1, h2⟩

/-- … hence the filter chain of a store gateway (any ignore delay) shows every sample -/
theorem chain_complete (P : Params) (s : State) (hi : Inv P s) (delay : Nat) (x : Nat)
    (hx : x ∈ allSources s.blocks) :
    ∃ k ∈ filterChain P.levelTie delay s.now s.blocks, x ∈ k.sources := by
  obtain ⟨b, hb, hxb⟩ := mem_allSources.mp hx
  obtain ⟨u, hu, hul, huc⟩ := live_cover P s hi b hb
  have hmo : markOk delay s.now u = true := by simp [markOk, hul]
  obtain ⟨k, hk, hkc⟩ := filterChain_covers P.levelTie delay s.now s.blocks u hu hmo
  exact ⟨k, hk, (covers_iff k u).mp hkc x ((covers_iff u b).mp huc x hxb)⟩

theorem mapM_find_mem {view : List Blk} : ∀ {ids : List Nat} {plan : List Blk},
    ids.mapM (findBlk view) = some plan → ∀ p ∈ plan, p ∈ view
  | [], plan, h => by simp at h; subst h; simp
  | i :: ids, plan, h => by
    simp only [List.mapM_cons, Option.bind_eq_bind] at h
    cases hf : findBlk view i with
    | none => simp [hf] at h
    | some b =>
      cases hr : ids.mapM (findBlk view) with
      | none => simp [hf, hr] at h
      | some rest =>
        simp [hf, hr] at h
        subst h
        intro p hp
        rcases List.mem_cons.mp hp with rfl | hp
        · exact (findBlk_some hf).1
        · exact mapM_find_mem hr p hp

/-- One step preserves the invariant — under the statement's hypothesis on the delays and with
    the duplicate filter's order preferring the higher compaction level among equal source sets. -/
theorem step_inv (P : Params) (s s' : State) (hP : P.ignoreDelay + P.lag < P.deleteDelay ∨ s.gws = [])
    (hT : P.levelTie = true) (a : Action) (hi : Inv P s) (h : step P s a = some s') : Inv P s' := by
  cases a with
  | ship =>
    simp only [step, Option.some.injEq] at h
    subst h
    exact inv_add P s _ hi rfl rfl (by simp)
  | compact ids =>
    simp only [step] at h
    split at h
    · simp at h
    · simp at h
    · simp only [Option.some.injEq] at h
      subst h
      exact inv_add P s _ hi rfl rfl (foldl_union_sorted (by simp))
  | markSource b r =>
    simp only [step] at h
    split at h
    · rename_i bb rr hfb hfr
      split at h
      · rename_i hg
        simp only [Option.some.injEq] at h
        subst h
        simp only [Bool.and_eq_true, Option.isNone_iff_eq_none, decide_eq_true_eq] at hg
        obtain ⟨⟨⟨hrl, hrc⟩, hlv⟩, _⟩ := hg
        obtain ⟨hbm, hbid⟩ := findBlk_some hfb
        obtain ⟨hrm, _⟩ := findBlk_some hfr
        refine inv_setMark P s b bb hi hbm hbid ⟨rr, hrm, hrl, hrc, ?_⟩
        rw [hT]
        exact beats_of_covers_level (nodup_of_sorted (hi.src_sorted bb hbm)) hrc hlv
      · simp at h
    · simp at h
  | gc b =>
    simp only [step] at h
    split at h
    · rename_i bb hfb
      split at h
      · simp only [Option.some.injEq] at h
        subst h
        obtain ⟨hbd, hbid⟩ := findBlk_some hfb
        obtain ⟨⟨hbm, _⟩, hhid⟩ := (mem_duplicates _ _ _ _ _).mp hbd
        obtain ⟨p, hp, hpb, hpc⟩ := (hiddenIn_iff _ _ _).mp hhid
        have hpm : p ∈ s.blocks := by
          simp only [markView, List.mem_filter] at hp
          exact hp.1
        refine inv_setMark P s b bb hi hbm hbid ?_
        by_cases hpl : p.mark = none
        · exact ⟨p, hpm, hpl, hpc, hpb⟩
        · obtain ⟨u, hu, h1, h2, h3⟩ := hi.witness p hpm hpl
          exact ⟨u, hu, h1, covers_trans h2 hpc, beats_trans _ h3 hpb⟩
      · simp at h
    · simp at h
  | clean b =>
    simp only [step] at h
    split at h
    · rename_i bb hfb
      split at h
      · rename_i t hbt
        split at h
        · rename_i hold
          simp only [Option.some.injEq] at h
          subst h
          obtain ⟨hbm, hbid⟩ := findBlk_some hfb
          -- a block that some gateway has loaded is never the one being cleaned
          have hkeep : ∀ g ∈ s.gws, ∀ c ∈ s.blocks, c.id ∈ g.loaded → c.id ≠ b := by
            intro g hg c hc hcl hcb
            have : c = bb := eq_of_id_eq hi.ids_nodup hc hbm (hcb.trans hbid.symm)
            subst this
            obtain ⟨c', hc', hid', hmk'⟩ := hi.gw_loaded g hg c.id hcl
            have : c' = c := eq_of_id_eq hi.ids_nodup hc' hc hid'
            subst this
            have h1 := hmk' t hbt
            have h2 := (hi.gw_time g hg).2
            rcases hP with hP | hnil
            · omega
            · simp [hnil] at hg
          refine ⟨?_, ?_, ?_, ?_, hi.gw_time, ?_, ?_⟩
          · intro c hc
            exact hi.ids_lt c (List.mem_filter.mp hc).1
          · exact hi.ids_nodup.sublist List.filter_sublist
          · intro c hc
            exact hi.src_sorted c (List.mem_filter.mp hc).1
          · intro c hc hmk
            have hc' := (List.mem_filter.mp hc).1
            obtain ⟨u, hu, h1, h2, h3⟩ := hi.witness c hc' hmk
            refine ⟨u, List.mem_filter.mpr ⟨hu, ?_⟩, h1, h2, h3⟩
            have : u.id ≠ b := by
              intro hub
              have : u = bb := eq_of_id_eq hi.ids_nodup hu hbm (hub.trans hbid.symm)
              subst this
              simp [h1] at hbt
            simpa using this
          · intro g hg j hj
            obtain ⟨c, hc, h1, h2⟩ := hi.gw_loaded g hg j hj
            refine ⟨c, List.mem_filter.mpr ⟨hc, ?_⟩, h1, h2⟩
            have := hkeep g hg c hc (h1 ▸ hj)
            simpa using this
          · intro g hg x hx
            obtain ⟨c, hc, h1, h2⟩ := hi.gw_known g hg x hx
            refine ⟨c, List.mem_filter.mpr ⟨hc, ?_⟩, h1, h2⟩
            have := hkeep g hg c hc h1
            simpa using this
        · simp at h
      · simp at h
    · simp at h
  | sync g =>
    simp only [step] at h
    split at h
    · simp only [Option.some.injEq] at h
      subst h
      refine ⟨hi.ids_lt, hi.ids_nodup, hi.src_sorted, hi.witness, ?_, ?_, ?_⟩
      · intro g' hg'
        rcases List.mem_or_eq_of_mem_set hg' with hold | rfl
        · exact hi.gw_time g' hold
        · simp
      · intro g' hg' j hj
        rcases List.mem_or_eq_of_mem_set hg' with hold | rfl
        · exact hi.gw_loaded g' hold j hj
        · simp only [List.mem_map] at hj
          obtain ⟨k, hk, rfl⟩ := hj
          obtain ⟨⟨hkb, hkm⟩, _⟩ := (mem_filterChain _ _ _ _ _).mp hk
          refine ⟨k, hkb, rfl, ?_⟩
          intro t ht
          simp only [markOk, ht, Bool.not_eq_true', decide_eq_false_iff_not] at hkm
          simp only
          omega
      · intro g' hg' x hx
        rcases List.mem_or_eq_of_mem_set hg' with hold | rfl
        · exact hi.gw_known g' hold x hx
        · obtain ⟨k, hk, hxk⟩ := chain_complete P s hi P.ignoreDelay x hx
          obtain ⟨⟨hkb, _⟩, _⟩ := (mem_filterChain _ _ _ _ _).mp hk
          exact ⟨k, hkb, List.mem_map.mpr ⟨k, hk, rfl⟩, hxk⟩
    · simp at h
  | tick d =>
    simp only [step] at h
    split at h
    · rename_i hall
      simp only [Option.some.injEq] at h
      subst h
      refine ⟨hi.ids_lt, hi.ids_nodup, hi.src_sorted, hi.witness, ?_, hi.gw_loaded, hi.gw_known⟩
      intro g hg
      have h1 := (hi.gw_time g hg).1
      have h2 := List.all_eq_true.mp hall g hg
      simp only [gwOk, decide_eq_true_eq] at h2
      simp only
      omega
    · simp at h
  | failedUpload =>
    simp only [step, Option.some.injEq] at h
    subst h
    exact ⟨fun b hb => by have := hi.ids_lt b hb; simp only; omega, hi.ids_nodup, hi.src_sorted, hi.witness,
      hi.gw_time, hi.gw_loaded, hi.gw_known⟩
  | readFault =>
    simp only [step, Option.some.injEq] at h
    subst h; exact hi
  | syncLoad g =>
    -- the loaded set after the first half of a sync is the whole view, exactly as after an atomic sync;
    -- what was loaded before and left the view is only kept on top of it (`stale`)
    simp only [step] at h
    split at h
    · simp only [Option.some.injEq] at h
      subst h
      refine ⟨hi.ids_lt, hi.ids_nodup, hi.src_sorted, hi.witness, ?_, ?_, ?_⟩
      · intro g' hg'
        rcases List.mem_or_eq_of_mem_set hg' with hold | rfl
        · exact hi.gw_time g' hold
        · simp
      · intro g' hg' j hj
        rcases List.mem_or_eq_of_mem_set hg' with hold | rfl
        · exact hi.gw_loaded g' hold j hj
        · simp only [List.mem_map] at hj
          obtain ⟨k, hk, rfl⟩ := hj
          obtain ⟨⟨hkb, hkm⟩, _⟩ := (mem_filterChain _ _ _ _ _).mp hk
          refine ⟨k, hkb, rfl, ?_⟩
          intro t ht
          simp only [markOk, ht, Bool.not_eq_true', decide_eq_false_iff_not] at hkm
          simp only
          omega
      · intro g' hg' x hx
        rcases List.mem_or_eq_of_mem_set hg' with hold | rfl
        · exact hi.gw_known g' hold x hx
        · obtain ⟨k, hk, hxk⟩ := chain_complete P s hi P.ignoreDelay x hx
          obtain ⟨⟨hkb, _⟩, _⟩ := (mem_filterChain _ _ _ _ _).mp hk
          exact ⟨k, hkb, List.mem_map.mpr ⟨k, hk, rfl⟩, hxk⟩
    · simp at h
  | syncDrop g =>
    -- dropping the stale blocks changes nothing the invariant speaks about
    simp only [step] at h
    split at h
    · rename_i gw hgw
      simp only [Option.some.injEq] at h
      subst h
      have hgm : gw ∈ s.gws := List.mem_of_getElem? hgw
      refine ⟨hi.ids_lt, hi.ids_nodup, hi.src_sorted, hi.witness, ?_, ?_, ?_⟩
      · intro g' hg'
        rcases List.mem_or_eq_of_mem_set hg' with hold | rfl
        · exact hi.gw_time g' hold
        · exact hi.gw_time gw hgm
      · intro g' hg' j hj
        rcases List.mem_or_eq_of_mem_set hg' with hold | rfl
        · exact hi.gw_loaded g' hold j hj
        · exact hi.gw_loaded gw hgm j hj
      · intro g' hg' x hx
        rcases List.mem_or_eq_of_mem_set hg' with hold | rfl
        · exact hi.gw_known g' hold x hx
        · exact hi.gw_known gw hgm x hx
    · simp at h

theorem init_inv (P : Params) (k : Nat) : Inv P (init k) := by
  refine ⟨by simp [init], by simp [init], by simp [init], by simp [init], ?_, ?_, ?_⟩
  · intro g hg
    simp only [init, List.mem_replicate] at hg
    obtain ⟨_, rfl⟩ := hg
    simp [init]
  · intro g hg i hi
    simp only [init, List.mem_replicate] at hg
    obtain ⟨_, rfl⟩ := hg
    simp at hi
  · intro g hg x hx
    simp only [init, List.mem_replicate] at hg
    obtain ⟨_, rfl⟩ := hg
    simp at hx

/-- no step creates a gateway -/
theorem step_gws_nil (P : Params) (s s' : State) (a : Action) (hn : s.gws = []) (h : step P s a = some s') :
    s'.gws = [] := by
  cases a <;> simp only [step] at h
  case ship => simp only [Option.some.injEq] at h; subst h; exact hn
  case compact ids =>
    split at h <;> first | (simp at h; done) | (simp only [Option.some.injEq] at h; subst h; exact hn)
  case markSource b r =>
    split at h
    · split at h
      · simp only [Option.some.injEq] at h; subst h; exact hn
      · simp at h
    · simp at h
  case gc b =>
    split at h
    · split at h
      · simp only [Option.some.injEq] at h; subst h; exact hn
      · simp at h
    · simp at h
  case clean b =>
    split at h
    · split at h
      · split at h
        · simp only [Option.some.injEq] at h; subst h; exact hn
        · simp at h
      · simp at h
    · simp at h
  case sync g =>
    split at h
    · rename_i hlt; simp [hn] at hlt
    · simp at h
  case tick d =>
    split at h
    · simp only [Option.some.injEq] at h; subst h; exact hn
    · simp at h
  case failedUpload => simp only [Option.some.injEq] at h; subst h; exact hn
  case readFault => simp only [Option.some.injEq] at h; subst h; exact hn
  case syncLoad g =>
    split at h
    · rename_i gw hgw; simp [hn] at hgw
    · simp at h
  case syncDrop g =>
    split at h
    · rename_i gw hgw; simp [hn] at hgw
    · simp at h

theorem run_inv (P : Params) (hT : P.levelTie = true) :
    ∀ (acts : List Action) (s s' : State), (P.ignoreDelay + P.lag < P.deleteDelay ∨ s.gws = []) →
      Inv P s → run P s acts = some s' → Inv P s'
  | [], s, s', _, hi, h => by simp [run] at h; subst h; exact hi
  | a :: as, s, s', hP, hi, h => by
    simp only [run] at h
    split at h
    · rename_i s1 hs1
      have hP1 : P.ignoreDelay + P.lag < P.deleteDelay ∨ s1.gws = [] := by
        rcases hP with hP | hn
        · exact Or.inl hP
        · exact Or.inr (step_gws_nil P s s1 a hn hs1)
      exact run_inv P hT as s1 s' hP1 (step_inv P s s1 hP hT a hi hs1) h
    · simp at h

/-! ## The property -/

/-- C34 at full strength for a tie rule `levelTie` of the duplicate filter's sort. -/
def C34_full (levelTie : Bool) : Prop :=
  ∀ (deleteDelay ignoreDelay lag k : Nat) (acts : List Action) (s : State),
    ignoreDelay + lag < deleteDelay →
    run { deleteDelay := deleteDelay, divisor := 2, ignoreDelay := ignoreDelay, lag := lag, levelTie := levelTie }
        (init k) acts = some s →
    ∀ g ∈ s.gws, ∀ x ∈ g.known, serves s g x = true

/-- C34: with the repaired order (higher compaction level first among equal source sets), in every
    reachable state every gateway still serves every sample that was in the bucket when it last
    synced — for all interleavings of ship / compact / mark / garbage-collect / clean / sync / tick,
    any number of blocks and gateways, whenever `ignoreDelay + lag < deleteDelay`. -/
theorem C34 : C34_full true := by
  intro dd ig lag k acts s hP hrun g hg x hx
  have hinv := run_inv _ rfl acts (init k) s (Or.inl hP) (init_inv _ k) hrun
  obtain ⟨b, hb, hl, hxb⟩ := hinv.gw_known g hg x hx
  simp only [serves, List.any_eq_true, Bool.and_eq_true, Bool.or_eq_true, List.contains_iff_mem]
  exact ⟨b, hb, Or.inl (by simpa using hl), by simpa using hxb⟩

/-- a sync makes the gateway know exactly the samples of the bucket — the claim above is not vacuous -/
theorem C34_sync_knows_all (P : Params) (s s' : State) (g : Nat) (h : step P s (.sync g) = some s') :
    ∃ gw ∈ s'.gws, gw.lastSync = s.now ∧ ∀ x, x ∈ gw.known ↔ ∃ b ∈ s.blocks, x ∈ b.sources := by
  simp only [step] at h
  split at h
  · rename_i hlt
    simp only [Option.some.injEq] at h
    subst h
    refine ⟨{ loaded := (filterChain P.levelTie P.ignoreDelay s.now s.blocks).map (·.id), lastSync := s.now,
              known := allSources s.blocks }, ?_, rfl, ?_⟩
    · exact List.mem_iff_getElem.mpr ⟨g, by simpa using hlt, by simp⟩
    · intro x
      exact mem_allSources
  · simp at h

/-- The order as originally written (ULID only) violates the property: a single-block
    (tombstone) compaction `2` of block `1` has the same sources as `1`; the older block wins the
    tie although it is marked for deletion, the garbage collector marks the new block as a
    duplicate, and once both marks are older than the ignore delay the gateway has nothing left. -/
theorem C34_idtie_false : ¬ C34_full false := by
  intro h
  have := h 100 40 50 1
    [.ship, .sync 0, .compact [1], .markSource 1 2, .gc 2, .tick 50, .sync 0]
    { now := 50,
      blocks := [ { id := 1, level := 1, sources := [1], mark := some 0 },
                  { id := 2, level := 2, sources := [1], mark := some 0 } ],
      gws := [ { loaded := [], lastSync := 50, known := [1] } ], nextId := 3 }
    (by decide) (by decide) { loaded := [], lastSync := 50, known := [1] } (by simp) 1 (by simp)
  revert this
  decide

/-- the same action sequence is refused by the repaired order: the garbage collector has nothing
    to mark, block 2 stays live -/
example : run { deleteDelay := 100, divisor := 2, ignoreDelay := 40, lag := 50, levelTie := true } (init 1)
    [.ship, .sync 0, .compact [1], .markSource 1 2, .gc 2] = none := by decide

/-- The bound on the sync lag is needed: a gateway that does not sync for longer than the delete
    delay loses the blocks it has loaded. -/
theorem C34_lag_needed :
    ∃ (acts : List Action) (s : State),
      run { deleteDelay := 100, divisor := 2, ignoreDelay := 40, lag := 200, levelTie := true } (init 1) acts = some s ∧
      ∃ g ∈ s.gws, ∃ x ∈ g.known, serves s g x = false :=
  ⟨[.ship, .ship, .sync 0, .compact [1, 2], .markSource 1 3, .markSource 2 3, .tick 101, .clean 1],
   { now := 101,
     blocks := [ { id := 2, level := 1, sources := [2], mark := some 0 },
                 { id := 3, level := 2, sources := [1, 2], mark := none } ],
     gws := [ { loaded := [1, 2], lastSync := 0, known := [1, 2] } ], nextId := 4 },
   by decide, { loaded := [1, 2], lastSync := 0, known := [1, 2] }, by simp, 1, by simp, by decide⟩

/-- The compactor's own view: a block it may still plan over (mark younger than deleteDelay/2)
    cannot be deleted for at least another deleteDelay − deleteDelay/2 seconds, so a compaction that
    takes less than that never reads a block whose deletion has begun. -/
theorem C34_compactor_view (deleteDelay now t d : Nat) (b : Blk) (hb : b.mark = some t)
    (hv : markOk (deleteDelay / 2) now b = true) (hd : d ≤ deleteDelay - deleteDelay / 2) :
    ¬ (now + d - t > deleteDelay) := by
  simp only [markOk, hb, Bool.not_eq_true', decide_eq_false_iff_not] at hv
  omega

/-! non-vacuity: a run with a compaction, garbage collection, cleaning and two gateways -/
example : (run { deleteDelay := 100, divisor := 2, ignoreDelay := 40, lag := 50, levelTie := true } (init 2)
    [.ship, .ship, .sync 0, .sync 1, .compact [1, 2], .markSource 1 3, .gc 2, .tick 50, .sync 0, .sync 1, .tick 50,
     .sync 0, .sync 1, .tick 10, .clean 1, .clean 2]).map (fun s => (s.blocks.map (·.id), s.gws.map (·.loaded)))
    = some ([3], [[3], [3]]) := by decide

/-! ### the marking step of `Group.compact` is reached only after a successful upload -/

/-- Control-flow skeleton of the end of `Group.compact`, read off the extracted shape
    `[tok, lhs, kind, cond, exit]` (see extract/compact.go `uploadGuard`): the statement that runs
    `block.Upload` is `lhs tok …`, directly in the loop body (`kind = "assign"`) or not, and the next
    statement is `if cond { … exit }`.  The check *sees* a failed upload only if the upload's error
    is stored, by plain assignment, into the very variable the check tests (a `:=` inside a nested
    block declares a new variable that is gone when the check runs), and it stops the function
    only if it returns.  `marksReached guard uploadFailed` = does control reach the loop that
    marks the source blocks. -/
def marksReached (guard : List String) (uploadFailed : Bool) : Bool :=
  match guard with
  | [tok, lhs, kind, cond, exit] =>
    let seen := uploadFailed && tok == "=" && kind == "assign" && cond == lhs ++ " != nil"
    !(seen && exit == "return")
  | _ => true

/-- With the code as it is, a failed upload of the compaction result never reaches the marking
    loop — this is what the protocol's `markSource` guard ("the result is a complete block of the
    bucket") stands for in the implementation. -/
theorem C34_fact_marks_only_after_upload :
    Thanos.Facts.groupCompactUploadGuard = ["=", "err", "assign", "err != nil", "return"] ∧
    marksReached Thanos.Facts.groupCompactUploadGuard true = false ∧
    marksReached Thanos.Facts.groupCompactUploadGuard false = true := by decide

/-- the shadowing variant (`err := …` inside a retry loop) does reach the marks after a failed upload -/
example : marksReached [":=", "err", "loop", "err != nil", "return"] true = true := by decide

/-- in the model nothing can be marked on behalf of a result that never became visible: after
    `failedUpload` the would-be result id names no block, so `markSource b r` is disabled -/
theorem markSource_needs_result (P : Params) (s s1 : State) (b : Nat)
    (hids : ∀ c ∈ s.blocks, c.id < s.nextId) (h : step P s .failedUpload = some s1) :
    step P s1 (.markSource b s.nextId) = none := by
  simp only [step, Option.some.injEq] at h
  subst h
  have hnone : findBlk s.blocks s.nextId = none := by
    unfold findBlk
    apply List.find?_eq_none.mpr
    intro c hc
    have := hids c hc
    simp
    omega
  simp only [step, hnone]
  split <;> simp_all

/-! ### a sync of the real store gateway is two half-steps: load the new blocks, then drop the outdated ones -/

/-- `C34` quantifies over all action sequences, hence also over those in which a gateway's sync is
    split (`syncLoad g`, any other actions — compactor steps, ticks, syncs of other gateways — then
    `syncDrop g`).  Spelled out for the state between the two half-steps: right after `syncLoad`
    the gateway's loaded set is the whole current view (the cover of every sample of the bucket),
    whatever was loaded before stays on top of it until `syncDrop`. -/
theorem C34_between_half_steps (dd ig lag k : Nat) (acts : List Action) (s s1 : State) (g : Nat)
    (hP : ig + lag < dd)
    (hrun : run { deleteDelay := dd, divisor := 2, ignoreDelay := ig, lag := lag, levelTie := true } (init k) acts = some s)
    (hload : step { deleteDelay := dd, divisor := 2, ignoreDelay := ig, lag := lag, levelTie := true } s (.syncLoad g) = some s1) :
    ∀ gw ∈ s1.gws, ∀ x ∈ gw.known, serves s1 gw x = true := by
  have hrun1 : run { deleteDelay := dd, divisor := 2, ignoreDelay := ig, lag := lag, levelTie := true } (init k)
      (acts ++ [.syncLoad g]) = some s1 := by
    have append : ∀ (as : List Action) (t : State),
        run { deleteDelay := dd, divisor := 2, ignoreDelay := ig, lag := lag, levelTie := true } t as = some s →
        run { deleteDelay := dd, divisor := 2, ignoreDelay := ig, lag := lag, levelTie := true } t (as ++ [.syncLoad g]) = some s1 := by
      intro as
      induction as with
      | nil => intro t ht; simp [run] at ht; subst ht; simp [run, hload]
      | cons a as ih =>
        intro t ht
        simp only [run, List.cons_append] at ht ⊢
        split at ht
        · rename_i t1 ht1
          first | (rw [ht1]; exact ih t1 ht) | exact ih t1 ht
        · simp at ht
    exact append acts (init k) hrun
  exact C34 dd ig lag k _ s1 hP hrun1

def midSyncWitness : State :=
  { now := 0,
    blocks := [ { id := 1, level := 1, sources := [1], mark := some 0 },
                { id := 2, level := 1, sources := [2], mark := some 0 },
                { id := 3, level := 2, sources := [1, 2], mark := none } ],
    gws := [ { loaded := [1, 2], lastSync := 0, known := [1, 2] } ], nextId := 4 }

/-- the state is reachable: sources shipped, gateway synced, compaction uploaded, sources marked -/
example : run { deleteDelay := 100, divisor := 2, ignoreDelay := 40, lag := 50, levelTie := true } (init 1)
    [.ship, .ship, .sync 0, .compact [1, 2], .markSource 1 3, .markSource 2 3] = some midSyncWitness := by decide

/-- The other order — drop what left the view first, load the new blocks afterwards — violates the
    property in the middle of the sync: sources 1 and 2 are hidden by the duplicate filter in favour
    of block 3, the gateway unloads them, block 3 is not loaded yet. -/
theorem C34_drop_first_false :
    ∃ gw ∈ (dropOutdatedFirst { deleteDelay := 100, divisor := 2, ignoreDelay := 40, lag := 50, levelTie := true } midSyncWitness 0).gws,
      ∃ x ∈ gw.known, serves (dropOutdatedFirst { deleteDelay := 100, divisor := 2, ignoreDelay := 40, lag := 50, levelTie := true } midSyncWitness 0) gw x = false :=
  ⟨{ loaded := [], lastSync := 0, known := [1, 2] }, by decide, 1, by simp, by decide⟩

/-- What happens under a fault OUTSIDE the property's quantifier (recorded, not claimed): C34 ranges
    over interleavings of compactor steps and gateway syncs with bounded lag; a gateway that cannot
    load a block of its view is not among them.  The order in the code is right, but when the
    replacement block cannot be loaded in a sync (index-header download fails) the outdated blocks
    are dropped all the same, and until the next sync nothing serves the source samples.
    `syncWithFailedLoads` is that behaviour; it is not a step of the model.  The harness generates
    it (mode `failonce`) and counts the outcome as an observation. -/
theorem C34_failed_load_false :
    ∃ gw ∈ (syncWithFailedLoads { deleteDelay := 100, divisor := 2, ignoreDelay := 40, lag := 50, levelTie := true } midSyncWitness 0 [3]).gws,
      ∃ x ∈ gw.known, serves (syncWithFailedLoads { deleteDelay := 100, divisor := 2, ignoreDelay := 40, lag := 50, levelTie := true } midSyncWitness 0 [3]) gw x = false :=
  ⟨{ loaded := [], lastSync := 0, known := [1, 2] }, by decide, 1, by decide, by decide⟩

/-- … and when every block of the view loads, it is the atomic sync -/
example : (syncWithFailedLoads { deleteDelay := 100, divisor := 2, ignoreDelay := 40, lag := 50, levelTie := true } midSyncWitness 0 []).gws
    = [ { loaded := [3], lastSync := 0, known := [1, 2] } ] := by decide

/-- `BucketStore.SyncBlocks` loads (addBlock) before it drops (removeBlock) -/
theorem C34_fact_sync_blocks_order : Thanos.Facts.storeSyncBlocksOrder = ["addBlock", "removeBlock"] := by decide

/-! ## Regenerated facts -/

/-- the compactor's ignore filter uses half the delete delay, the cleaner the whole -/
theorem C34_fact_compactor :
    Thanos.Facts.compactIgnoreDelayArg = "deleteDelay / 2" ∧
    Thanos.Facts.compactCleanerDelayArg = "deleteDelay" ∧
    Thanos.Facts.compactDeleteDelayDefault = "48h" := by decide

/-- the store gateway's ignore filter uses --ignore-deletion-marks-delay (default 24h), it syncs every 15m -/
theorem C34_fact_store :
    Thanos.Facts.storeIgnoreDelayArg = "time.Duration(conf.ignoreDeletionMarksDelay)" ∧
    Thanos.Facts.storeIgnoreDelayDefault = "24h" ∧
    Thanos.Facts.storeSyncIntervalDefault = "15m" := by decide

/-- both run the deletion-mark filter before the duplicate filter -/
theorem C34_fact_order :
    Thanos.Facts.compactFilterOrder = ["ignoreDeletionMarkFilter", "duplicateBlocksFilter"] ∧
    Thanos.Facts.storeFilterOrder = ["ignoreDeletionMarkFilter", "NewDeduplicateFilter"] := by decide

/-- the duplicate filter's sort: more sources first, then the higher compaction level, then the
    smaller ULID — `beats true` -/
theorem C34_fact_tie :
    Thanos.Facts.dedupSortReturns =
      ["ilvl > jlvl", "metaSlice[i].ULID.Compare(metaSlice[j].ULID) < 0", "ilen-jlen > 0"] := by decide

def digitsVal : List Char → Nat → Option Nat
  | [], acc => some acc
  | c :: cs, acc => if '0' ≤ c ∧ c ≤ '9' then digitsVal cs (10 * acc + (c.toNat - 48)) else none

/-- a flag default such as "48h", "24h", "15m", "30s", "2d" in seconds -/
def durationSeconds (s : String) : Option Nat :=
  match s.toList.reverse with
  | u :: ds =>
    match ds with
    | [] => none
    | _ =>
      match digitsVal ds.reverse 0 with
      | some n =>
        if u = 's' then some n else if u = 'm' then some (60 * n) else if u = 'h' then some (3600 * n)
        else if u = 'd' then some (86400 * n) else none
      | none => none
  | [] => none

/-- the flag defaults as extracted from cmd/thanos/compact.go and cmd/thanos/store.go, in seconds -/
theorem C34_fact_default_values :
    durationSeconds Thanos.Facts.compactDeleteDelayDefault = some 172800 ∧
    durationSeconds Thanos.Facts.storeIgnoreDelayDefault = some 86400 ∧
    durationSeconds Thanos.Facts.storeSyncIntervalDefault = some 900 := by decide

/-- With the extracted defaults the hypothesis of `C34` holds for every sync lag below 24 h — in
    particular for the default sync interval (15 m) plus any sync duration up to 23 h 45 m. -/
theorem C34_defaults (dd ig sync : Nat)
    (hdd : durationSeconds Thanos.Facts.compactDeleteDelayDefault = some dd)
    (hig : durationSeconds Thanos.Facts.storeIgnoreDelayDefault = some ig)
    (hsy : durationSeconds Thanos.Facts.storeSyncIntervalDefault = some sync) :
    (∀ lag, lag < 24 * 3600 → ig + lag < dd) ∧ sync < 24 * 3600 := by
  obtain ⟨h1, h2, h3⟩ := C34_fact_default_values
  rw [h1] at hdd; rw [h2] at hig; rw [h3] at hsy
  simp only [Option.some.injEq] at hdd hig hsy
  subst hdd; subst hig; subst hsy
  exact ⟨fun lag h => by omega, by omega⟩

/-- … hence `C34` applies to a default deployment: every store gateway that completes a sync at
    least every `lag < 24h` serves, at all times, every sample that was in the bucket at its last sync -/
theorem C34_default_deployment (lag k : Nat) (hlag : lag < 24 * 3600) (acts : List Action) (s : State)
    (h : run { deleteDelay := 172800, divisor := 2, ignoreDelay := 86400, lag := lag, levelTie := true } (init k) acts = some s) :
    ∀ g ∈ s.gws, ∀ x ∈ g.known, serves s g x = true :=
  C34 172800 86400 lag k acts s (by omega) h

end Thanos.CompactProto
