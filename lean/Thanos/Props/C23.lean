import Thanos.Model.Quorum
import Thanos.Lemmas.Quorum
import Thanos.Generated.Facts
/-
  C23 — Failed replicated writes report retryable and permanent failures correctly.

  "When a replicated write fails, the client gets 409 Conflict only if conflicts alone make quorum
  impossible for some series, gets 503 when the failure can still be fixed by retrying, and never
  gets a 500 for failures made only of conflicts and unavailable replicas.  The outcome is the same
  for any order of replica responses."

  The model (Model/Quorum.lean) transliterates fanoutForward's response loop with its early
  return, replicationErrors.Cause, writeErrors.Cause and the status mapping of handleV1HTTP.  The
  one thing the theorems hinge on in the source — which variable is passed to
  newReplicationErrors — is the regenerated fact `replicationErrorsThresholdArg`.
-/
namespace Thanos.Quorum

/-- the outcomes C23 speaks about: success, conflict, unavailable / not ready -/
def inDomain : Outcome → Bool
  | none => true
  | some k => (k.conflict && !k.notReady && !k.unavail) || (!k.conflict && (k.notReady || k.unavail))

def InDomain (rs : List Resp) : Prop := ∀ r, r ∈ rs → inDomain r.out = true

/-- C23 for one request and one arrival order (and all its re-orderings) -/
def C23_at (sel : ThrSel) (rf : Nat) (replicated : Bool) (n : Nat) (rs : List Resp) : Prop :=
  let st := httpStatus (fanout sel rf replicated n rs)
  (st = 409 → ∃ i, i < n ∧ conflictsOf rs i ≥ failThr rf replicated) ∧
  ((∃ i, i < n ∧ oks rs i < quorumOf rf replicated) → (∀ i, i < n → conflictsOf rs i < failThr rf replicated) → st = 503) ∧
  st ≠ 500 ∧
  (∀ rs', rs'.Perm rs → httpStatus (fanout sel rf replicated n rs') = st)

/-- C23 at full strength, for the code passing the threshold selected by `sel`:
    every replication factor ≥ 1, every number of series and nodes, every multiset of outcomes
    in the domain, every arrival order. -/
def C23_full (sel : ThrSel) : Prop :=
  ∀ (rf : Nat) (replicated : Bool) (n : Nat) (rs : List Resp),
    1 ≤ rf → Complete n (nrepOf rf replicated) rs → InDomain rs → C23_at sel rf replicated n rs

private def w (os : List Outcome) : List Resp := os.map fun o => ⟨[0], o⟩
private def c : Outcome := some kConflict
private def u : Outcome := some kGrpcUnavail

theorem inDomain_wf {k : ErrKind} (h : inDomain (some k) = true) : wfKind k = true := by
  rcases k with ⟨c, n, u⟩
  cases c <;> cases n <;> cases u <;> simp_all [inDomain, wfKind]

/-! ### the code passing `failureThreshold` (the tree after the repair of F23) satisfies C23 -/

/-- C23 for the code that passes the failure threshold to `newReplicationErrors`: every
    replication factor ≥ 1 (not only 1..6), any number of series spread over any nodes, every
    multiset of outcomes in the domain, every arrival order and every early-return point. -/
theorem C23_fixed : C23_full .failure := by
  intro rf replicated n rs hrf hc hd
  have hwf : ∀ r, r ∈ rs → ∀ k, r.out = some k → wfKind k = true :=
    fun r hr k hk => inDomain_wf (by rw [← hk]; exact hd r hr)
  have heq := fanout_failure_eq_final rf replicated n rs hrf hc hwf
  have P := params_of rf replicated hrf
  obtain ⟨s1, s2, s3, _, _⟩ := final_status P n rs hc
  unfold C23_at
  simp only [heq]
  refine ⟨s1, s2, s3, ?_⟩
  intro rs' hp
  have hc' : Complete n (nrepOf rf replicated) rs' := fun i hi => by
    rw [(evs_perm hp i).length_eq]; exact hc i hi
  have hwf' : ∀ r, r ∈ rs' → ∀ k, r.out = some k → wfKind k = true :=
    fun r hr k hk => hwf r (hp.mem_iff.mp hr) k hk
  rw [fanout_failure_eq_final rf replicated n rs' hrf hc' hwf', final_perm _ _ _ hp]

/-- … and that is the code as it is now (`codeSel`, tied to the source by `C23_threshold_fact`). -/
theorem C23_holds : C23_full codeSel := C23_fixed

/-- Without restricting the outcomes: whatever errors the replicas return (internal errors
    included), a request handled by the repaired code is answered 200, 409 or 503 — never 500 —
    provided no error is classified both as conflict and as unavailable / not ready. -/
theorem C23_never_500 (rf : Nat) (replicated : Bool) (n : Nat) (rs : List Resp) (hrf : 1 ≤ rf)
    (hc : Complete n (nrepOf rf replicated) rs)
    (hwf : ∀ r, r ∈ rs → ∀ k, r.out = some k → wfKind k = true) :
    httpStatus (fanout .failure rf replicated n rs) ≠ 500 := by
  rw [fanout_failure_eq_final rf replicated n rs hrf hc hwf]
  exact (final_status (params_of rf replicated hrf) n rs hc).2.2.1

/-- **The status is a function of the per-series numbers of successes and of conflicts alone**
    (repaired code, arbitrary error kinds): 200 iff every series has a quorum of successes; 409 iff
    some series lacks it and every series that lacks it has `failThr` conflicts; otherwise 503. -/
theorem C23_status_char (rf : Nat) (replicated : Bool) (n : Nat) (rs : List Resp) (hrf : 1 ≤ rf)
    (hc : Complete n (nrepOf rf replicated) rs)
    (hwf : ∀ r, r ∈ rs → ∀ k, r.out = some k → wfKind k = true) :
    let st := httpStatus (fanout .failure rf replicated n rs)
    (st = 200 ↔ ∀ i, i < n → quorumOf rf replicated ≤ oks rs i) ∧
    (st = 409 ↔ (∃ i, i < n ∧ oks rs i < quorumOf rf replicated) ∧
                 ∀ i, i < n → oks rs i < quorumOf rf replicated → failThr rf replicated ≤ conflictsOf rs i) ∧
    (st = 200 ∨ st = 409 ∨ st = 503) := by
  simp only
  rw [fanout_failure_eq_final rf replicated n rs hrf hc hwf]
  exact final_status_char (params_of rf replicated hrf) n rs hc hwf

/-- **How a transport classifies the non-conflict errors does not matter.**  The protobuf peers
    report a peer's internal error as `codes.Internal` (none of the three classes), the Cap'n Proto
    client (`writecapnp.RemoteWriteClient`) reports it as `codes.Unavailable` (not-ready and
    unavailable); a peer in back-off gives `errUnavailable`, a dial error a wrapped one … .  Any
    re-classification `f` of the errors that keeps the conflict flag leaves the status unchanged. -/
theorem C23_transport_independent (f : ErrKind → ErrKind)
    (hf : ∀ k, (f k).conflict = k.conflict) (hfw : ∀ k, wfKind k = true → wfKind (f k) = true)
    (rf : Nat) (replicated : Bool) (n : Nat) (rs : List Resp) (hrf : 1 ≤ rf)
    (hc : Complete n (nrepOf rf replicated) rs)
    (hwf : ∀ r, r ∈ rs → ∀ k, r.out = some k → wfKind k = true) :
    httpStatus (fanout .failure rf replicated n (relabel f rs)) = httpStatus (fanout .failure rf replicated n rs) := by
  have hc' : Complete n (nrepOf rf replicated) (relabel f rs) := fun i hi => by
    rw [evs_relabel, List.length_map]; exact hc i hi
  have hwf' : ∀ r, r ∈ relabel f rs → ∀ k, r.out = some k → wfKind k = true := by
    intro r hr k hk
    simp only [relabel, List.mem_map] at hr
    obtain ⟨r0, hr0, rfl⟩ := hr
    simp only [Option.map_eq_some_iff] at hk
    obtain ⟨k0, hk0, rfl⟩ := hk
    exact hfw k0 (hwf r0 hr0 k0 hk0)
  obtain ⟨a1, a2, a3⟩ := C23_status_char rf replicated n rs hrf hc hwf
  obtain ⟨b1, b2, b3⟩ := C23_status_char rf replicated n (relabel f rs) hrf hc' hwf'
  simp only [oks_relabel, conflictsOf_relabel f hf] at b1 b2
  rcases a3 with h | h | h
  · rw [h]; exact b1.mpr (a1.mp h)
  · rw [h]; exact b2.mpr (a2.mp h)
  · rw [h]
    rcases b3 with g | g | g
    · have := a1.mpr (b1.mp g); omega
    · have := a2.mpr (b2.mp g); omega
    · exact g

/-- the capnp client's view of a peer: an internal error arrives as Unavailable -/
def capnpClass (k : ErrKind) : ErrKind := if k = kOther then kGrpcUnavail else k

example : (∀ k, (capnpClass k).conflict = k.conflict) ∧ (∀ k, wfKind k = true → wfKind (capnpClass k) = true) := by
  constructor <;> intro k <;> rcases k with ⟨c, n, u⟩ <;> cases c <;> cases n <;> cases u <;> decide

/-- Regenerated obligations: the Cap'n Proto server maps the cause of a failed write to
    unavailable / alreadyExists / invalidArgument / internal as the gRPC handler does; the client ends
    `case WriteError_internal` with a plain error, which its `RemoteWrite` reports as
    `codes.Unavailable` — the re-classification `capnpClass` of `C23_transport_independent`. -/
theorem C23_capnp_transport_fact :
    Thanos.Facts.capnpServerErrorMap =
      ["errNotReady=>writecapnp.WriteError_unavailable", "errUnavailable=>writecapnp.WriteError_unavailable",
       "errConflict=>writecapnp.WriteError_alreadyExists", "errBadReplica=>writecapnp.WriteError_invalidArgument",
       "default=>writecapnp.WriteError_internal"] ∧
    Thanos.Facts.capnpClientInternal = ["return nil, 0, fmt.Errorf(\"rpc failed%s\", extraContext)"] ∧
    Thanos.Facts.capnpClientFallback =
      "return &storepb.WriteResponse{}, status.Error(codes.Unavailable, fmt.Sprintf(\"writing to peer: %s\", err.Error()))" := by
  refine ⟨?_, ?_, ?_⟩ <;> decide

/-! ### the code passing `successThreshold` (the tree before the repair) violates C23 -/

/-- rf 4, {conflict, conflict, ok, ok}: cause nil ⇒ 500 -/
theorem C23_success_500 : httpStatus (fanout .success 4 false 1 (w [c, c, none, none])) = 500 := by decide

/-- rf 2, {conflict, unavailable}: one conflict does not make quorum impossible, yet 409 -/
theorem C23_success_409 : httpStatus (fanout .success 2 false 1 (w [c, u])) = 409 := by decide

/-- rf 4, {conflict, conflict, unavailable, unavailable}: 500 or 503 depending on the order -/
theorem C23_success_order :
    httpStatus (fanout .success 4 false 1 (w [c, c, u, u])) = 500 ∧
    httpStatus (fanout .success 4 false 1 (w [u, u, c, c])) = 503 := by decide

/-- … and the repaired code answers 409 / 503 / 409 (in both orders) on the same inputs -/
example : httpStatus (fanout .failure 4 false 1 (w [c, c, none, none])) = 409 := by decide
example : httpStatus (fanout .failure 2 false 1 (w [c, u])) = 503 := by decide
example : httpStatus (fanout .failure 4 false 1 (w [c, c, u, u])) = 409 ∧
    httpStatus (fanout .failure 4 false 1 (w [u, u, c, c])) = 409 := by decide

/-- rf 6, three conflicts: 500 -/
theorem C23_success_rf6 : httpStatus (fanout .success 6 false 1 (w [c, c, c, none, none, none])) = 500 := by decide

theorem C23_full_false : ¬ C23_full .success := by
  intro h
  have h4 := h 4 false 1 (w [c, c, none, none]) (by decide) (by unfold Complete; decide) (by unfold InDomain; decide)
  exact h4.2.2.1 C23_success_500

/-- … and holds exactly where the two thresholds coincide: odd replication factors and
    already replicated requests (the only replication factor the repository's tests use is 3). -/
theorem C23_partial (rf : Nat) (replicated : Bool) (n : Nat) (rs : List Resp)
    (hsame : quorumOf rf replicated = failThr rf replicated)
    (hrf : 1 ≤ rf) (hc : Complete n (nrepOf rf replicated) rs) (hd : InDomain rs) :
    C23_at .success rf replicated n rs := by
  have hth : thresholds .success rf replicated = thresholds .failure rf replicated := by
    cases replicated
    · simp only [quorumOf, failThr, nrepOf, Bool.false_eq_true, if_false] at hsame
      simp only [thresholds, Bool.false_eq_true, if_false]
      rw [← hsame]
    · simp [thresholds]
  have hfan : ∀ rs', fanout .success rf replicated n rs' = fanout .failure rf replicated n rs' := by
    intro rs'; unfold fanout; rw [hth]
  have := C23_fixed rf replicated n rs hrf hc hd
  unfold C23_at at this ⊢
  simpa only [hfan] using this

theorem thresholds_coincide_odd (rf : Nat) (h : rf % 2 = 1) : quorumOf rf false = failThr rf false := by
  have : rf ≠ 2 := by omega
  simp [quorumOf, failThr, nrepOf, writeQuorum, this]; omega

theorem thresholds_coincide_replicated (rf : Nat) : quorumOf rf true = failThr rf true := by
  simp [quorumOf, failThr, nrepOf]

theorem thresholds_differ_even (rf : Nat) (h : rf % 2 = 0) (h0 : 0 < rf) : quorumOf rf false ≠ failThr rf false := by
  simp only [quorumOf, failThr, nrepOf, writeQuorum, Bool.false_eq_true, if_false]
  split <;> omega

/-! ### tie to the source -/

def selOfArg : String → Option ThrSel
  | "successThreshold" => some .success
  | "failureThreshold" => some .failure
  | _ => none

/-- Regenerated obligation: the variable the source passes to `newReplicationErrors` is the one the
    model (and the compiled driver) uses. -/
theorem C23_threshold_fact : selOfArg Thanos.Facts.replicationErrorsThresholdArg = some codeSel := by decide

/-! ### non-vacuity -/

-- a two-series request over four nodes, rf 3, meets the hypotheses of `C23_fixed`; series 1 has
-- two conflicts (permanent), series 0 one conflict and one unavailable replica (retryable)
private def ex2 : List Resp :=
  [⟨[0], c⟩, ⟨[0, 1], u⟩, ⟨[0], none⟩, ⟨[1], c⟩, ⟨[1], c⟩]

example : Complete 2 (nrepOf 3 false) ex2 := by unfold Complete; decide
example : InDomain ex2 := by unfold InDomain; decide
example : httpStatus (fanout .failure 3 false 2 ex2) = 503 := by decide
example : conflictsOf ex2 1 ≥ failThr 3 false ∧ oks ex2 0 < quorumOf 3 false := by decide

end Thanos.Quorum
