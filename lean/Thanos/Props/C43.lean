import Thanos.Model.CacheKey
import Thanos.Lemmas.CacheKey
import Thanos.Generated.Facts
/-
  C43 — Results-cache keys separate tenants and result-changing parameters.

  The three key formats of `thanosCacheKeyGenerator.GenerateCacheKey` are transliterated in
  Model/CacheKey.lean.  The property is false of the code as it is (golden-tested key formats,
  see `C43_*_full_false`); the `…_partial` theorems say exactly when keys do separate requests,
  for strings of any length and any content.
-/
namespace Thanos.CacheKey

/-- the part of a shard info that `generateShardInfoKey` writes -/
def shardView (s : Option ShardInfo) : Option (Int × Int) := s.map fun s => (s.total, s.index)

theorem col_col_eq (A x y : Str) : col A (x ++ ':' :: y) = col (col A x) y := by simp [col]

/-- the shard field is "-" or two numbers; no number prints as "-", so it is self-delimiting
    when read from the right -/
theorem col_shard_inj {A B : Str} {s s' : Option ShardInfo}
    (h : col A (shardKey s) = col B (shardKey s')) : A = B ∧ shardView s = shardView s' := by
  cases s with
  | none =>
    cases s' with
    | none => exact ⟨(col_inj (by decide) (by decide) h).1, rfl⟩
    | some t =>
      simp only [shardKey, col_col_eq] at h
      exact absurd (col_inj (by decide) showInt_no_colon h).2.symm showInt_ne_dash
  | some t =>
    cases s' with
    | none =>
      simp only [shardKey, col_col_eq] at h
      exact absurd (col_inj showInt_no_colon (by decide) h).2 showInt_ne_dash
    | some t' =>
      simp only [shardKey, col_col_eq] at h
      obtain ⟨h, i1⟩ := col_inj showInt_no_colon showInt_no_colon h
      obtain ⟨h, i2⟩ := col_inj showInt_no_colon showInt_no_colon h
      exact ⟨h, by simp [shardView, showInt_inj i1, showInt_inj i2]⟩

/-- The result-changing parameters of a range request agree (resolution up to the bucket the
    querier distinguishes, replica labels as a sorted list).  `start`/`splitMs` are not part of
    it: requests of one split interval share a key on purpose and are told apart by extents. -/
def SameAnswerRange (a b : RangeReq) : Prop :=
  a.tenant = b.tenant ∧ a.query = b.query ∧ a.step = b.step ∧ bucketOf a.msr = bucketOf b.msr ∧
  a.shard = b.shard ∧ a.lookback = b.lookback ∧ a.engine = b.engine ∧
  a.partialResp = b.partialResp ∧ sortS a.replicas = sortS b.replicas ∧ a.analyze = b.analyze

/-- C43 for range requests at full strength: tenants accepted by the resolver, any strings. -/
def C43_range_full : Prop :=
  ∀ (a b : RangeReq) (k : Str), tenantAccepted a.tenant = true → tenantAccepted b.tenant = true →
    rangeKey a = some k → rangeKey b = some k → SameAnswerRange a b

/-- the separators are not escaped: these strings make the fixed-arity tail of the key ambiguous -/
def RangeFieldsOK (r : RangeReq) : Prop :=
  ':' ∉ r.tenant ∧ ':' ∉ r.engine ∧ ∀ x ∈ r.replicas, LabelOK x

/-- What the range key does separate, for queries of any content (':' included): parse from
    the right — the last ten ':'-separated fields have fixed arity (the shard field is "-" or
    two numbers, told apart because no number prints as "-"), the query is what remains after
    the first ':' following the colon-free tenant. -/
theorem C43_range_partial (a b : RangeReq) (k : Str) (ha : RangeFieldsOK a) (hb : RangeFieldsOK b)
    (hka : rangeKey a = some k) (hkb : rangeKey b = some k) :
    a.tenant = b.tenant ∧ a.query = b.query ∧ a.step = b.step ∧ a.splitMs = b.splitMs ∧
    a.start.tdiv a.splitMs = b.start.tdiv b.splitMs ∧ bucketOf a.msr = bucketOf b.msr ∧
    shardView a.shard = shardView b.shard ∧ a.lookback = b.lookback ∧ a.engine = b.engine ∧
    a.partialResp = b.partialResp ∧ sortS a.replicas = sortS b.replicas ∧ a.analyze = b.analyze := by
  obtain ⟨hat, hae, har⟩ := ha
  obtain ⟨hbt, hbe, hbr⟩ := hb
  have hsa : ∀ x ∈ sortS a.replicas, LabelOK x := fun x hx => har x (mem_sortS hx)
  have hsb : ∀ x ∈ sortS b.replicas, LabelOK x := fun x hx => hbr x (mem_sortS hx)
  unfold rangeKey at hka hkb
  split at hka
  · simp at hka
  split at hkb
  · simp at hkb
  have h : rangeKeyWith a a.step (a.start.tdiv a.splitMs) = rangeKeyWith b b.step (b.start.tdiv b.splitMs) := by
    simp at hka hkb; rw [hka, hkb]
  unfold rangeKeyWith at h
  simp only at h
  obtain ⟨h, e12⟩ := col_inj showBool_no_colon showBool_no_colon h
  obtain ⟨h, e11⟩ := col_inj (joinComma_no_colon hsa) (joinComma_no_colon hsb) h
  obtain ⟨h, e10⟩ := col_inj showBool_no_colon showBool_no_colon h
  obtain ⟨h, e9⟩ := col_inj hae hbe h
  obtain ⟨h, e8⟩ := col_inj showInt_no_colon showInt_no_colon h
  obtain ⟨h, e7⟩ := col_shard_inj h
  obtain ⟨h, e6⟩ := col_inj showNat_no_colon showNat_no_colon h
  obtain ⟨h, e5⟩ := col_inj showInt_no_colon showInt_no_colon h
  obtain ⟨h, e4⟩ := col_inj showInt_no_colon showInt_no_colon h
  obtain ⟨h, e3⟩ := col_inj showInt_no_colon showInt_no_colon h
  -- "fe:" ++ tenant ++ ":" ++ query: the tenant ends at the first colon
  simp only [col, List.cons_append, List.nil_append, List.cons.injEq, true_and] at h
  obtain ⟨e1, e2⟩ := sep_first hat hbt h
  exact ⟨e1, e2, showInt_inj e3, showInt_inj e4, showInt_inj e5, showNat_inj e6, e7, showInt_inj e8, e9,
    showBool_inj e10, joinComma_inj hsa hsb e11, showBool_inj e12⟩

/-- With the separators absent, and with shard labels a function of the query (as they are when
    the frontend's own sharding middleware produced the shard info), equal keys mean equal
    result-changing parameters. -/
theorem C43_range_sameAnswer (a b : RangeReq) (k : Str) (ha : RangeFieldsOK a) (hb : RangeFieldsOK b)
    (hshard : a.query = b.query → shardView a.shard = shardView b.shard → a.shard = b.shard)
    (hka : rangeKey a = some k) (hkb : rangeKey b = some k) : SameAnswerRange a b := by
  obtain ⟨e1, e2, e3, _, _, e6, e7, e8, e9, e10, e11, e12⟩ := C43_range_partial a b k ha hb hka hkb
  exact ⟨e1, e2, e3, e6, hshard e2 e7, e8, e9, e10, e11, e12⟩

private def s (x : String) : Str := x.toList

private def rq : RangeReq :=
  { tenant := s "a", query := s "up", start := 7200000, step := 60000, splitMs := 3600000, msr := 0,
    shard := none, lookback := 0, engine := s "", partialResp := false, replicas := [], analyze := false }

-- non-vacuity of the partial theorem: an ordinary request meets the hypotheses and has a key
example : RangeFieldsOK { rq with replicas := [s "replica", s "pod"], engine := s "thanos" } := by
  refine ⟨by decide, by decide, ?_⟩
  intro x hx
  simp [rq] at hx
  rcases hx with rfl | rfl <;> exact ⟨by decide, by decide, by decide⟩
example : rangeKey rq = some (s "fe:a:up:60000:3600000:2:2:-:0::false::false") := by decide
example : rangeKey { rq with replicas := [s "prometheus", s "pod"], shard := some ⟨4, 1, true, [s "x"]⟩ } =
    some (s "fe:a:up:60000:3600000:2:2:4:1:0::false:pod,prometheus:false") := by decide
example : tenantAccepted (s "a:b") = true ∧ tenantAccepted (s "a/b") = false ∧ tenantAccepted (s "..") = false := by decide

/-- F43a: tenant "a" asking `b:c` and tenant "a:b" asking `c` get the same key — the resolver
    accepts ':' in a tenant id and the key does not escape it. -/
theorem C43_range_full_false : ¬ C43_range_full := by
  intro h
  have := h { rq with tenant := s "a", query := s "b:c" } { rq with tenant := s "a:b", query := s "c" }
    (s "fe:a:b:c:60000:3600000:2:2:-:0::false::false") (by decide) (by decide) (by decide) (by decide)
  exact absurd this.1 (by decide)

/-- further members of the same family, with colon-free tenants: an engine name containing ':'
    against a lookback delta, a replica label containing ',' against two labels, and client
    supplied shard labels (only total/index are written). -/
theorem C43_range_other_collisions :
    (∃ a b k, ':' ∉ a.tenant ∧ ':' ∉ b.tenant ∧ rangeKey a = some k ∧ rangeKey b = some k ∧ a.replicas ≠ b.replicas ∧
      sortS a.replicas ≠ sortS b.replicas) ∧
    (∃ a b k, ':' ∉ a.tenant ∧ ':' ∉ b.tenant ∧ rangeKey a = some k ∧ rangeKey b = some k ∧ a.shard ≠ b.shard) := by
  refine ⟨⟨{ rq with replicas := [s "a,b"] }, { rq with replicas := [s "a", s "b"] }, _, by decide, by decide, rfl, by decide, by decide, by decide⟩,
    ⟨{ rq with shard := some ⟨2, 0, true, [s "x"]⟩ }, { rq with shard := some ⟨2, 0, true, [s "y"]⟩ }, _, by decide, by decide, rfl, by decide, by decide⟩⟩

/-- the hypothesis "engine is colon-free" is needed: an engine `5:x` shifts every field to its left
    by one, and a query `q:60000` absorbs the shift -/
example :
    rangeKey { rq with query := s "q", start := 12960000000000, shard := some ⟨2, 1, true, []⟩,
                       engine := s "5:x" } =
    rangeKey { rq with query := s "q:60000", step := 3600000, start := 7200000,
                       shard := some ⟨1, 0, true, []⟩, lookback := 5, engine := s "x" } := by
  decide

/-! ### labels and series keys -/

/-- result-changing parameters of a labels request -/
def SameAnswerLabels (a b : LabelsReq) : Prop :=
  a.tenant = b.tenant ∧ a.label = b.label ∧ a.matchers = b.matchers ∧ a.partialResp = b.partialResp

def C43_labels_full : Prop :=
  ∀ (a b : LabelsReq) (k : Str), tenantAccepted a.tenant = true → tenantAccepted b.tenant = true →
    labelsKey a = some k → labelsKey b = some k → SameAnswerLabels a b

/-- the labels key separates tenant, label name, matcher text (any content) and interval when
    tenant and label name are colon-free … -/
theorem C43_labels_partial (a b : LabelsReq) (k : Str)
    (ha : ':' ∉ a.tenant ∧ ':' ∉ a.label) (hb : ':' ∉ b.tenant ∧ ':' ∉ b.label)
    (hka : labelsKey a = some k) (hkb : labelsKey b = some k) :
    a.tenant = b.tenant ∧ a.label = b.label ∧ a.matchers = b.matchers ∧ a.splitMs = b.splitMs ∧
    a.start.tdiv a.splitMs = b.start.tdiv b.splitMs := by
  unfold labelsKey at hka hkb
  split at hka
  · simp at hka
  split at hkb
  · simp at hkb
  simp only [Option.some.injEq] at hka hkb
  have h := hka.trans hkb.symm
  obtain ⟨h, e5⟩ := col_inj showInt_no_colon showInt_no_colon h
  obtain ⟨h, e4⟩ := col_inj showInt_no_colon showInt_no_colon h
  simp only [col, List.cons_append, List.nil_append, List.cons.injEq, true_and, List.append_assoc] at h
  obtain ⟨e1, h⟩ := sep_first ha.1 hb.1 h
  obtain ⟨e2, e3⟩ := sep_first ha.2 hb.2 h
  exact ⟨e1, e2, e3, showInt_inj e4, showInt_inj e5⟩

/-- … but never the partial-response flag (F43b), and not (tenant, label) pairs with a ':' -/
theorem C43_labels_full_false : ¬ C43_labels_full := by
  intro h
  have := h ⟨s "t", s "job", s "[[up]]", 0, 3600000, false⟩ ⟨s "t", s "job", s "[[up]]", 0, 3600000, true⟩
    (s "fe:t:job:[[up]]:3600000:0") (by decide) (by decide) (by decide) (by decide)
  exact absurd this.2.2.2 (by decide)

theorem C43_labels_colon_collision :
    labelsKey ⟨s "a", s "b:c", s "[]", 0, 3600000, false⟩ = labelsKey ⟨s "a:b", s "c", s "[]", 0, 3600000, false⟩ := by
  decide

/-- result-changing parameters of a (dedup-enabled, hence cacheable) series request -/
def SameAnswerSeries (a b : SeriesReq) : Prop :=
  a.tenant = b.tenant ∧ a.matchers = b.matchers ∧ a.partialResp = b.partialResp ∧
  sortS a.replicas = sortS b.replicas

/-- C43 for series requests at full strength, for the key as found (`false`) or as repaired (`true`) -/
def C43_series_full (full : Bool) : Prop :=
  ∀ (a b : SeriesReq) (k : Str), tenantAccepted a.tenant = true → tenantAccepted b.tenant = true →
    seriesKeyWith full a = some k → seriesKeyWith full b = some k → SameAnswerSeries a b

/-- The series key of the repository as it is now separates tenant, matcher text (any content),
    interval, partial response and the replica label set, for colon-free tenants and
    separator-free replica labels. -/
theorem C43_series_partial (a b : SeriesReq) (k : Str) (ha : ':' ∉ a.tenant) (hb : ':' ∉ b.tenant)
    (hra : ∀ x ∈ a.replicas, LabelOK x) (hrb : ∀ x ∈ b.replicas, LabelOK x)
    (hka : seriesKey a = some k) (hkb : seriesKey b = some k) :
    SameAnswerSeries a b ∧ a.splitMs = b.splitMs ∧ a.start.tdiv a.splitMs = b.start.tdiv b.splitMs := by
  have hsa : ∀ x ∈ sortS a.replicas, LabelOK x := fun x hx => hra x (mem_sortS hx)
  have hsb : ∀ x ∈ sortS b.replicas, LabelOK x := fun x hx => hrb x (mem_sortS hx)
  unfold seriesKey seriesKeyWith at hka hkb
  split at hka
  · simp at hka
  split at hkb
  · simp at hkb
  simp only [if_true, Option.some.injEq] at hka hkb
  have h := hka.trans hkb.symm
  obtain ⟨h, e7⟩ := col_inj (joinComma_no_colon hsa) (joinComma_no_colon hsb) h
  obtain ⟨h, e6⟩ := col_inj showBool_no_colon showBool_no_colon h
  obtain ⟨h, e5⟩ := col_inj showInt_no_colon showInt_no_colon h
  obtain ⟨h, e4⟩ := col_inj showInt_no_colon showInt_no_colon h
  simp only [col, List.cons_append, List.nil_append, List.cons.injEq, true_and] at h
  obtain ⟨e1, e2⟩ := sep_first ha hb h
  exact ⟨⟨e1, e2, showBool_inj e6, joinComma_inj hsa hsb e7⟩, showInt_inj e4, showInt_inj e5⟩

/-- F43b (repaired in the repository, still provable of the key as found): two series requests
    that differ only in the replica labels, or only in the partial-response flag, shared a key. -/
theorem C43_series_unrepaired_false : ¬ C43_series_full false := by
  intro h
  have := h ⟨s "t", s "[[up]]", 0, 3600000, false, [s "replica"]⟩ ⟨s "t", s "[[up]]", 0, 3600000, false, []⟩
    (s "fe:t:[[up]]:3600000:0") (by decide) (by decide) (by decide) (by decide)
  exact absurd this.2.2.2 (by decide)

example : seriesKeyWith false ⟨s "t", s "[[up]]", 0, 3600000, false, []⟩ = seriesKeyWith false ⟨s "t", s "[[up]]", 0, 3600000, true, []⟩ := by decide
example : seriesKey ⟨s "t", s "[[up]]", 0, 3600000, false, [s "b", s "a"]⟩ = some (s "fe:t:[[up]]:3600000:0:false:a,b") := by decide

/-- the repaired key still does not escape its separators: replica labels ["a,b"] and ["a","b"] -/
theorem C43_series_full_false : ¬ C43_series_full true := by
  intro h
  have := h ⟨s "t", s "[[up]]", 0, 3600000, false, [s "a,b"]⟩ ⟨s "t", s "[[up]]", 0, 3600000, false, [s "a", s "b"]⟩
    (s "fe:t:[[up]]:3600000:0:false:a,b") (by decide) (by decide) (by decide) (by decide)
  exact absurd this.2.2.2 (by decide)

/-- since the repair a labels key and a series key cannot coincide (the series key ends in
    `…:<bool>:<replica labels>`, the labels key in `…:<number>:<number>`) when the replica labels
    are separator-free; before the repair the label-names key of tenant "t" equalled the series
    key of tenant "t:" -/
theorem C43_cross_type_separated (a : LabelsReq) (b : SeriesReq) (k : Str) (hrb : ∀ x ∈ b.replicas, LabelOK x)
    (hka : labelsKey a = some k) (hkb : seriesKey b = some k) : False := by
  have hsb : ∀ x ∈ sortS b.replicas, LabelOK x := fun x hx => hrb x (mem_sortS hx)
  unfold labelsKey at hka
  unfold seriesKey seriesKeyWith at hkb
  split at hka
  · simp at hka
  split at hkb
  · simp at hkb
  simp only [if_true, Option.some.injEq] at hka hkb
  have h := hka.trans hkb.symm
  obtain ⟨h, _⟩ := col_inj showInt_no_colon (joinComma_no_colon hsb) h
  obtain ⟨_, e⟩ := col_inj showInt_no_colon showBool_no_colon h
  -- a printed integer is never "true" / "false"
  have hc : ∀ c ∈ showInt a.splitMs, c.isDigit ∨ c = '-' := fun c hc => showInt_chars hc
  rw [e] at hc
  cases hp : b.partialResp with
  | true => rw [hp] at hc; have := hc 't' (by simp [showBool]); revert this; decide
  | false => rw [hp] at hc; have := hc 'f' (by simp [showBool]); revert this; decide

theorem C43_cross_type_collision_unrepaired :
    labelsKey ⟨s "t", s "", s "[[up]]", 0, 3600000, false⟩ = seriesKeyWith false ⟨s "t:", s "[[up]]", 0, 3600000, false, []⟩ := by
  decide

/-- a zero split interval (request that did not pass the split middleware) divides by zero -/
theorem C43_zero_split_panics : rangeKey { rq with splitMs := 0 } = none := by decide

/-! ### from the matcher text to the matcher sets

  The key theorems above end at "equal matcher text".  What the injectivity of the key in the
  matcher SETS needs of the rendering is `Rendered`: the text reads back (`unrender`) as the sets
  of the request — true of `(*labels.Matcher).String()` because `strconv.Quote` escapes `"` and
  `\` (the quoted value is a prefix code), checked for every generated request against the real
  rendering (driver answer `render-mismatch`), false of a rendering that writes values raw. -/

theorem rendered_inj {text : Str} {sa sb : List (List Matcher)} (ha : Rendered text sa) (hb : Rendered text sb) :
    sa = sb := by
  unfold Rendered at ha hb
  rw [ha] at hb
  exact Option.some.inj hb

/-- the labels key separates the matcher sets (same hypotheses as `C43_labels_partial`, plus the
    rendering hypothesis for both requests) -/
theorem C43_labels_sets (a b : LabelsReq) (sa sb : List (List Matcher)) (k : Str)
    (ha : ':' ∉ a.tenant ∧ ':' ∉ a.label) (hb : ':' ∉ b.tenant ∧ ':' ∉ b.label)
    (hra : Rendered a.matchers sa) (hrb : Rendered b.matchers sb)
    (hka : labelsKey a = some k) (hkb : labelsKey b = some k) :
    a.tenant = b.tenant ∧ a.label = b.label ∧ sa = sb := by
  obtain ⟨e1, e2, e3, _, _⟩ := C43_labels_partial a b k ha hb hka hkb
  exact ⟨e1, e2, rendered_inj hra (e3 ▸ hrb)⟩

/-- … and so does the series key -/
theorem C43_series_sets (a b : SeriesReq) (sa sb : List (List Matcher)) (k : Str) (ha : ':' ∉ a.tenant) (hb : ':' ∉ b.tenant)
    (hra : ∀ x ∈ a.replicas, LabelOK x) (hrb : ∀ x ∈ b.replicas, LabelOK x)
    (hsa : Rendered a.matchers sa) (hsb : Rendered b.matchers sb)
    (hka : seriesKey a = some k) (hkb : seriesKey b = some k) :
    a.tenant = b.tenant ∧ sa = sb ∧ a.partialResp = b.partialResp ∧ sortS a.replicas = sortS b.replicas := by
  obtain ⟨⟨e1, e2, e3, e4⟩, _, _⟩ := C43_series_partial a b k ha hb hra hrb hka hkb
  exact ⟨e1, rendered_inj hsa (e2 ▸ hsb), e3, e4⟩

/-- the spelled-out twins: `{foo="a", b="c"}` and `{foo="a\" b=\"c"}`; two selectors `{foo="a"}`,
    `{b="c"}` and the one selector `{foo="a\"] [b=\"c"}` -/
private def twinA : List (List Matcher) := [[⟨s "foo", 0, s "a"⟩, ⟨s "b", 0, s "c"⟩]]
private def twinB : List (List Matcher) := [[⟨s "foo", 0, s "a\" b=\"c"⟩]]
private def twinC : List (List Matcher) := [[⟨s "foo", 0, s "a"⟩], [⟨s "b", 0, s "c"⟩]]
private def twinD : List (List Matcher) := [[⟨s "foo", 0, s "a\"] [b=\"c"⟩]]

/-- the rendering hypothesis is necessary: when values are written raw between the quotes
    (`renderWith id`), different matcher sets have the same text, so no decoder exists … -/
theorem C43_raw_rendering_false :
    ¬ ∃ u : Str → Option (List (List Matcher)), ∀ sets, u (renderWith id sets) = some sets := by
  intro ⟨u, h⟩
  have h1 := h twinA
  have h2 := h twinB
  have e : renderWith id twinA = renderWith id twinB := by decide
  rw [e, h2] at h1
  exact absurd (Option.some.inj h1) (by decide)

example : renderWith id twinC = renderWith id twinD := by decide

/-- … and with it equal keys for requests that select different series -/
theorem C43_raw_rendering_collision :
    labelsKey ⟨s "t", s "job", renderWith id twinA, 0, 3600000, false⟩ =
      labelsKey ⟨s "t", s "job", renderWith id twinB, 0, 3600000, false⟩ ∧ twinA ≠ twinB := by
  decide

/-- the hypothesis is satisfiable, for ALL matcher sets, by a renderer that escapes `"` and `\\`
    (`quoteMin`; names verbatim identifiers, operators `=`, `!=`, `=~`, `!~`): the quoted value is
    a prefix code, so the decoder reads back exactly what was rendered -/
theorem C43_escaped_rendering_reads_back (sets : List (List Matcher)) (hp : ∀ ms ∈ sets, ∀ m ∈ ms, m.Plain) :
    Rendered (renderWith quoteMin sets) sets :=
  rendered_quoteMin sets hp

/-- with escaping the twins are told apart and read back -/
example : Rendered (renderWith quoteMin twinA) twinA ∧ Rendered (renderWith quoteMin twinB) twinB ∧
    Rendered (renderWith quoteMin twinC) twinC ∧ Rendered (renderWith quoteMin twinD) twinD := by decide
example : renderWith quoteMin twinB = s "[[foo=\"a\\\" b=\\\"c\"]]" := by decide
-- what strconv.Quote does beyond quoteMin: control characters, quoted (UTF-8) names, every operator
example : Rendered (s "[[\"utf8.name\"!~\"a\\nb\\x01\\u00a0\\\\\"] [__name__=~\"a|b\" x!=\"\"]]")
    [[⟨s "utf8.name", 3, ['a', '\n', 'b', Char.ofNat 1, Char.ofNat 160, '\\']⟩], [⟨s "__name__", 2, s "a|b"⟩, ⟨s "x", 1, []⟩]] := by
  decide
example : Rendered (s "[]") [] := by decide

/-! ### regenerated obligations: field order and formats in the source are the modelled ones -/

theorem C43_fact_range_writes :
    Thanos.Facts.rangeKeyWrites =
      ["buf.WriteString(\"fe:\")", "buf.WriteString(userID)", "buf.WriteByte(':')", "buf.WriteString(tr.Query)",
       "writeCacheKeyInt64(buf, step)", "writeCacheKeyInt64(buf, splitInterval)", "writeCacheKeyInt64(buf, currentInterval)",
       "writeCacheKeyInt(buf, i)", "buf.WriteByte(':')", "buf.WriteString(shardInfoKey)",
       "writeCacheKeyInt64(buf, tr.LookbackDelta)", "buf.WriteByte(':')", "buf.WriteString(tr.Engine)",
       "writeCacheKeyBool(buf, tr.PartialResponse)", "buf.WriteByte(':')",
       "writeCacheKeyReplicaLabels(buf, replicaLabels)", "writeCacheKeyBool(buf, tr.Analyze)"] ∧
    Thanos.Facts.rangeKeyCall =
      ["return t.generateQueryRangeCacheKey(userID, tr, tr.Step, splitInterval, currentInterval)"] ∧
    Thanos.Facts.shardInfoKeyBody =
      ["if r.ShardInfo == nil {", "return \"-\"", "}",
       "return fmt.Sprintf(\"%d:%d\", r.ShardInfo.TotalShards, r.ShardInfo.ShardIndex)"] ∧
    Thanos.Facts.cacheKeyResolutions =
      ["return thanosCacheKeyGenerator{ resolutions: []int64{downsample.ResLevel2, downsample.ResLevel1, downsample.ResLevel0}, }"] := by
  decide

theorem C43_fact_meta_formats :
    Thanos.Facts.labelsKeyFormat =
      ["return fmt.Sprintf(\"fe:%s:%s:%s:%d:%d\", userID, tr.Label, tr.Matchers, splitInterval, currentInterval)"] ∧
    Thanos.Facts.seriesKeyFormat =
      ["replicaLabels := append([]string(nil), tr.ReplicaLabels...)", "sort.Strings(replicaLabels)",
       "return fmt.Sprintf(\"fe:%s:%s:%d:%d:%t:%s\", userID, tr.Matchers, splitInterval, currentInterval, tr.PartialResponse, strings.Join(replicaLabels, \",\"))"] :=
  ⟨rfl, rfl⟩

/-- the purity assumption of the model (Model/CacheKey.lean): the generator has the one field
    `resolutions`; its three methods have value receivers and use the receiver only to call
    `generateQueryRangeCacheKey` and to read `len(t.resolutions)` / `t.resolutions[i]` — no field
    is assigned, sliced, appended to or passed on; the pooled buffer is taken, reset, copied out by
    `String()`, reset and only then given back. -/
theorem C43_fact_generator_pure :
    Thanos.Facts.cacheKeyGenFields = ["resolutions []int64"] ∧
    Thanos.Facts.cacheKeyGenUses =
      ["func (t thanosCacheKeyGenerator) GenerateCacheKey", "GenerateCacheKey: call t.generateQueryRangeCacheKey",
       "func (t thanosCacheKeyGenerator) GenerateCacheKeyAlternatives",
       "GenerateCacheKeyAlternatives: call t.generateQueryRangeCacheKey",
       "func (t thanosCacheKeyGenerator) generateQueryRangeCacheKey",
       "generateQueryRangeCacheKey: len(t.resolutions)", "generateQueryRangeCacheKey: t.resolutions[i]"] ∧
    Thanos.Facts.rangeKeyBufferLife =
      ["buf := queryRangeCacheKeyBufferPool.Get().(*bytes.Buffer)", "buf.Reset()", "cacheKey := buf.String()",
       "buf.Reset()", "queryRangeCacheKeyBufferPool.Put(buf)", "return cacheKey"] :=
  ⟨rfl, rfl, rfl⟩

theorem C43_fact_should_cache :
    Thanos.Facts.shouldCacheBody =
      ["if thanosReqStoreMatcherGettable, ok := r.(ThanosRequestStoreMatcherGetter); ok {",
       "if len(thanosReqStoreMatcherGettable.GetStoreMatchers()) > 0 {", "return false", "}", "}",
       "if thanosReqDedup, ok := r.(ThanosRequestDedup); ok {", "if !thanosReqDedup.IsDedupEnabled() {",
       "return false", "}", "}", "return !r.GetCachingOptions().Disabled"] ∧
    Thanos.Facts.unsafeTenantBody =
      ["if id == \".\" || id == \"..\" {", "return true", "}", "return strings.ContainsAny(id, \"\\\\/\")"] := by
  decide

end Thanos.CacheKey
