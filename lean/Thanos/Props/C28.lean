import Thanos.Model.Bucket
import Thanos.Lemmas.Bucket
import Thanos.Lemmas.BucketProcs
import Thanos.Generated.Facts
/-
  C28 — A block is visible in object storage only when all its files are.

  Statement proved (for every number of blocks, every number of segment files, every crash
  budget, every history of crashed and restarted procedures): in every bucket state reachable
  from the empty bucket by runs of block.Upload, the shipper's upload, the replicator,
  block.Delete and the marker writers — each run cut off after any number of mutating calls —
  a block whose meta.json is present has every file that meta.json lists, with the recorded size
  (`C28_compose`), and a Delete run that started with a deletion mark removes the mark only when
  nothing else of the block is left (`C28_delete_mark`).

  The theorems are about the call scripts of Model/Bucket.lean; the scripts are tied to the code
  by the differential harness (recorded bucket calls of the real functions = the scripts, at every
  crash budget) and by the regenerated facts at the end of this file (order of the uploads /
  deletions in the source).
-/
namespace Thanos.Bucket


/-- **Upload** (`block.Upload`): from any consistent bucket state (in particular one left by
    crashed earlier attempts on the same block), cut after any number of mutating calls. -/
theorem C28_upload {w : Nat → Block} (hw : WF w) {order : List String} (ho : MetaLast order)
    (s : Bucket) (hs : Good w s) (n : Nat) (k : Option Nat) :
    Good w (exec k (uploadScript order n (w n)) s).bkt := by
  apply good_exec hw k _ s hs
  rw [uploadScript, muts_map_mu]
  exact safeRun_upload ho n s

/-- **Shipper** (`Sync` of one block: Exists(meta.json), then upload). -/
theorem C28_shipper {w : Nat → Block} (hw : WF w) {order : List String} (ho : MetaLast order)
    (s : Bucket) (hs : Good w s) (n : Nat) (k : Option Nat) :
    Good w (exec k (shipScript order s n (w n)) s).bkt := by
  apply good_exec hw k _ s hs
  unfold shipScript
  split
  · simp [muts, SafeRun]
  · simp only [muts, uploadScript, muts_map_mu]
    exact safeRun_upload ho n s

-- ---------------------------------------------------------------- markers

theorem C28_mark {w : Nat → Block} (hw : WF w) (s : Bucket) (hs : Good w s) (n : Nat)
    (name : String) (size : Nat) (hname : name = markName ∨ name = noCompactName) (k : Option Nat) :
    Good w (exec k (markScript s n name size) s).bkt := by
  apply good_exec hw k _ s hs
  unfold markScript
  split
  · simp [muts, SafeRun]
  · simp only [muts, SafeRun, and_true]
    refine .putOther n name size ?_ ?_
    · rcases hname with rfl | rfl <;> decide
    · intro z hz
      have := (hw n).2 name z hz
      rcases hname with rfl | rfl <;> simp [reserved] at this

-- ---------------------------------------------------------------- replication

/-- **Replication** (`ensureBlockIsReplicated` with the origin holding the complete block). -/
theorem C28_replicate {w : Nat → Block} (hw : WF w) (s : Bucket) (hs : Good w s) (n : Nat)
    (k : Option Nat) : Good w (exec k (replicateScript codeReplicateOrder s n (w n)) s).bkt := by
  apply good_exec hw k _ s hs
  unfold replicateScript
  split
  · simp [muts, SafeRun]
  · simp only [muts, codeReplicateOrder, replicatePhases, replicatePhase, List.append_nil, muts_append]
    obtain ⟨c1, c2⟩ := ensure_props (w := w) n (w n).chunks s (fun p hp => by simp [Block.files, hp])
    obtain ⟨i1, i2⟩ := ensure_props (w := w) n [(indexName, (w n).index)]
      (applyAll s (muts (ensureScript n s (w n).chunks))) (fun p hp => by
        simp at hp; subst hp; simp [Block.files])
    rw [safeRun_append, safeRun_append]
    refine ⟨safeRun_dataPuts _ _ (fun op hop => ?_), safeRun_dataPuts _ _ (fun op hop => ?_), ?_, trivial⟩
    · obtain ⟨f, sz, e, hf⟩ := c1 op hop; exact ⟨n, f, sz, e, hf⟩
    · obtain ⟨f, sz, e, hf⟩ := i1 op hop; exact ⟨n, f, sz, e, hf⟩
    · refine .putMeta n true (fun f sz hf => ?_)
      simp only [Block.files, List.mem_append, List.mem_singleton] at hf
      rcases hf with hf | hf
      · exact present_applyAll_puts _ _ (fun op hop => by
          obtain ⟨f', sz', e, _⟩ := i1 op hop
          subst e; trivial) _ (c2 (f, sz) hf)
      · cases hf
        exact i2 (indexName, (w n).index) (by simp)

-- ---------------------------------------------------------------- block.Delete

/-- **Delete** keeps the invariant at every crash point, also on a partially deleted or partially
    uploaded block. -/
theorem C28_delete {w : Nat → Block} (hw : WF w) (s : Bucket) (hs : Good w s) (n : Nat)
    (k : Option Nat) : Good w (exec k (deleteScript codeDeleteOrder s n) s).bkt := by
  apply good_exec hw k _ s hs
  obtain ⟨rest', hmem, hdel, e⟩ := muts_deleteScript s n
  rw [e]
  -- after the meta phase the block is invisible, and deletions keep it so
  have hinv : ¬ Visible (applyAll s (delMeta s n)) n := by
    unfold delMeta Visible
    split
    · simp [applyAll, apply, get_del]
    · rename_i h; simpa [applyAll] using h
  have hsafeDels : ∀ (ops : List Op) (s' : Bucket), (∀ op ∈ ops, ∃ f, op = .del (n, f)) →
      ¬ Visible s' n → SafeRun w s' ops ∧ ¬ Visible (applyAll s' ops) n := by
    intro ops
    induction ops with
    | nil => intro s' _ h; exact ⟨trivial, by simpa [applyAll] using h⟩
    | cons op ops ih =>
      intro s' h hv
      obtain ⟨f, rfl⟩ := h op (by simp)
      have hv' : ¬ Visible (apply s' (.del (n, f))) n := by
        simp only [Visible, apply, get_del]
        split
        · simp
        · exact hv
      obtain ⟨a, c⟩ := ih _ (fun o ho => h o (List.mem_cons_of_mem _ ho)) hv'
      exact ⟨⟨.delInvisible n f hv, a⟩, by simpa [applyAll_cons] using c⟩
  have htail : ∀ op ∈ rest' ++ delMark s n ++ delDirs n, ∃ f, op = Op.del (n, f) := by
    intro op hop
    simp only [List.mem_append] at hop
    rcases hop with (hop | hop) | hop
    · exact hdel op hop
    · unfold delMark at hop
      split at hop
      · simp at hop; exact ⟨markName, hop⟩
      · simp at hop
    · simp [delDirs] at hop
      rcases hop with rfl | rfl
      · exact ⟨_, rfl⟩
      · exact ⟨_, rfl⟩
  rw [List.append_assoc, List.append_assoc, safeRun_append]
  refine ⟨?_, ?_⟩
  · unfold delMeta
    split
    · exact ⟨.delMeta n, trivial⟩
    · trivial
  · rw [← List.append_assoc]
    exact (hsafeDels _ _ htail hinv).1

/-- **Deletion mark last**: in a Delete run that starts with the deletion mark present, at
    every crash point, if the mark is gone then nothing of the block is left. -/
theorem C28_delete_mark (s : Bucket) (n : Nat) (k : Option Nat)
    (hmark : (get s (n, markName)).isSome = true) :
    let s' := (exec k (deleteScript codeDeleteOrder s n) s).bkt
    get s' (n, markName) = none → ∀ f, get s' (n, f) = none := by
  intro s' hgone f
  obtain ⟨j, hj⟩ := exec_bkt k (deleteScript codeDeleteOrder s n) s
  obtain ⟨rest', hmem, hdel, e⟩ := muts_deleteScript s n
  have hs' : s' = applyAll s ((delMeta s n ++ rest' ++ delMark s n ++ delDirs n).take j) := by
    rw [← e]; exact hj
  have hM : delMark s n = [.del (n, markName)] := by simp [delMark, hmark]
  -- every op is a deletion on block n
  have hall : ∀ op ∈ delMeta s n ++ rest' ++ delMark s n ++ delDirs n, ∃ f, op = Op.del (n, f) := by
    intro op hop
    simp only [List.mem_append] at hop
    rcases hop with ((hop | hop) | hop) | hop
    · unfold delMeta at hop
      split at hop
      · simp at hop; exact ⟨_, hop⟩
      · simp at hop
    · exact hdel op hop
    · rw [hM] at hop; simp at hop; exact ⟨_, hop⟩
    · simp [delDirs] at hop
      rcases hop with rfl | rfl <;> exact ⟨_, rfl⟩
  have htake : ∀ op ∈ (delMeta s n ++ rest' ++ delMark s n ++ delDirs n).take j, ∃ f, op = Op.del (n, f) :=
    fun op hop => hall op (List.mem_of_mem_take hop)
  have hget := dels_same_block_get _ s htake
  -- the mark is gone, so `del mark` is inside the prefix taken
  have hin : Op.del (n, markName) ∈ (delMeta s n ++ rest' ++ delMark s n ++ delDirs n).take j := by
    have := hget (n, markName)
    rw [← hs', hgone] at this
    by_cases hc : Op.del (n, markName) ∈ (delMeta s n ++ rest' ++ delMark s n ++ delDirs n).take j
    · exact hc
    · simp only [hc, if_false] at this
      rw [← this] at hmark
      simp at hmark
  -- `del mark` does not occur in the meta and rest phases, hence the prefix covers them
  have hnotA : Op.del (n, markName) ∉ delMeta s n ++ rest' := by
    simp only [List.mem_append, not_or]
    constructor
    · unfold delMeta
      split
      · simp [markName, metaName]
      · simp
    · intro h
      have := (hmem markName).mp h
      rw [mem_restNames] at this
      exact this.2.2 rfl
  have hlen : (delMeta s n ++ rest').length < j := by
    by_cases hl : (delMeta s n ++ rest').length < j
    · exact hl
    · exfalso
      have hle : j ≤ (delMeta s n ++ rest').length := by omega
      have : (delMeta s n ++ rest' ++ delMark s n ++ delDirs n).take j = (delMeta s n ++ rest').take j := by
        rw [List.append_assoc (delMeta s n ++ rest'), List.take_append_of_le_length hle]
      rw [this] at hin
      exact hnotA (List.mem_of_mem_take hin)
  have hA : ∀ op ∈ delMeta s n ++ rest', op ∈ (delMeta s n ++ rest' ++ delMark s n ++ delDirs n).take j := by
    intro op hop
    rw [List.append_assoc (delMeta s n ++ rest'), List.take_append]
    have : (delMeta s n ++ rest').take j = delMeta s n ++ rest' := List.take_of_length_le (by omega)
    rw [this]
    exact List.mem_append_left _ hop
  -- now every object of the block is gone
  rw [hs', hget (n, f)]
  split
  · rfl
  · rename_i hnot
    cases hg : get s (n, f) with
    | none => rfl
    | some o =>
      exfalso
      apply hnot
      by_cases e1 : f = metaName
      · subst e1
        exact hA _ (List.mem_append_left _ (by simp [delMeta, hg]))
      · by_cases e2 : f = markName
        · subst e2; exact hin
        · apply hA
          apply List.mem_append_right
          apply (hmem f).mpr
          rw [mem_restNames]
          exact ⟨mem_namesOf_of_get (by simp [hg]), e1, e2⟩

-- ---------------------------------------------------------------- composition

/-- bucket states reachable from the empty bucket by any history of runs of the procedures, on
    any blocks, each run cut off at any crash budget (`none` = it ran to completion) -/
inductive Reach (w : Nat → Block) : Bucket → Prop where
  | empty : Reach w []
  | upload (s n k) : Reach w s → Reach w (exec k (uploadScript codeUploadOrder n (w n)) s).bkt
  | ship (s n k) : Reach w s → Reach w (exec k (shipScript codeUploadOrder s n (w n)) s).bkt
  | replicate (s n k) : Reach w s → Reach w (exec k (replicateScript codeReplicateOrder s n (w n)) s).bkt
  | delete (s n k) : Reach w s → Reach w (exec k (deleteScript codeDeleteOrder s n) s).bkt
  | markDeletion (s n sz k) : Reach w s → Reach w (exec k (markScript s n markName sz) s).bkt
  | markNoCompact (s n sz k) : Reach w s → Reach w (exec k (markScript s n noCompactName sz) s).bkt

theorem reach_good {w : Nat → Block} (hw : WF w) {s : Bucket} (h : Reach w s) : Good w s := by
  induction h with
  | empty => exact good_empty w
  | upload s n k _ ih => exact C28_upload hw metaLast_code s ih n k
  | ship s n k _ ih => exact C28_shipper hw metaLast_code s ih n k
  | replicate s n k _ ih => exact C28_replicate hw s ih n k
  | delete s n k _ ih => exact C28_delete hw s ih n k
  | markDeletion s n sz k _ ih => exact C28_mark hw s ih n markName sz (Or.inl rfl) k
  | markNoCompact s n sz k _ ih => exact C28_mark hw s ih n noCompactName sz (Or.inr rfl) k

/-- **C28**: at every point of every history of uploads, shipper uploads, replications,
    deletions and markings, crashed anywhere and restarted in any order, a visible block is
    complete. -/
theorem C28_compose {w : Nat → Block} (hw : WF w) {s : Bucket} (h : Reach w s) (n : Nat) :
    Visible s n → Complete s n :=
  (reach_good hw h).complete n

/-- the uploaders -/
inductive Uploader where
  | upload | ship | replicate

def uploaderScript (u : Uploader) (s : Bucket) (n : Nat) (b : Block) : List Call :=
  match u with
  | .upload => uploadScript codeUploadOrder n b
  | .ship => shipScript codeUploadOrder s n b
  | .replicate => replicateScript codeReplicateOrder s n b

/-- **Uploading after a partially crashed Delete** (explicit instance of `C28_compose`): take any
    reachable bucket, interrupt a Delete of block `n` after any number `kd` of its calls, then run
    any uploader on the same block, itself cut anywhere (`ku`): at that point — and after the
    uploader has been restarted and finished — a visible block is complete.  In particular the
    replicator's "object already exists ⇒ skip" and the shipper's "meta.json exists ⇒ done" are
    safe on the leftovers of the Delete, because Delete removes meta.json first. -/
theorem C28_upload_after_crashed_delete {w : Nat → Block} (hw : WF w) {s : Bucket} (h : Reach w s)
    (n : Nat) (kd ku : Option Nat) (u u' : Uploader) :
    let s1 := (exec kd (deleteScript codeDeleteOrder s n) s).bkt
    let s2 := (exec ku (uploaderScript u s1 n (w n)) s1).bkt
    let s3 := (exec none (uploaderScript u' s2 n (w n)) s2).bkt
    (∀ m, Visible s2 m → Complete s2 m) ∧ (∀ m, Visible s3 m → Complete s3 m) := by
  intro s1 s2 s3
  have r1 : Reach w s1 := .delete s n kd h
  have step : ∀ (u : Uploader) (t : Bucket) (k : Option Nat), Reach w t →
      Reach w (exec k (uploaderScript u t n (w n)) t).bkt := by
    intro u t k ht
    cases u
    · exact .upload t n k ht
    · exact .ship t n k ht
    · exact .replicate t n k ht
  have r2 : Reach w s2 := step u s1 ku r1
  have r3 : Reach w s3 := step u' s2 none r2
  exact ⟨fun m => C28_compose hw r2 m, fun m => C28_compose hw r3 m⟩

/-- … and a crash-free uploader run after the crashed Delete makes the block visible again
    (so it is complete): nothing of the Delete's leftovers is mistaken for a finished upload. -/
theorem C28_reupload_visible {w : Nat → Block} (s : Bucket) (n : Nat) :
    Visible (exec none (uploadScript codeUploadOrder n (w n)) s).bkt n := by
  rw [(exec_none _ s).2.1, uploadScript, muts_map_mu]
  have hp : ∀ op ∈ uploadOps codeUploadOrder n (w n), IsPut op := by
    intro op hop
    simp only [uploadOps, codeUploadOrder, List.flatMap_cons, List.flatMap_nil, phaseOps, List.append_nil,
      List.mem_append, List.mem_map, List.mem_singleton] at hop
    rcases hop with ⟨p, _, rfl⟩ | rfl | rfl <;> trivial
  exact present_after_puts _ s hp (n, metaName) (w n).metaObj (by simp [uploadOps, codeUploadOrder, phaseOps])

-- ---------------------------------------------------------------- the order hypotheses are needed

/-- a one-segment block used in the witnesses below -/
def exBlock : Block := ⟨[("chunks/000001", 12)], 40⟩

/-- uploading meta.json before the index (a seeded change listed in DESIGN §11) breaks the
    property: crash after two mutating calls leaves a visible block without index -/
theorem C28_meta_early_false :
    ¬ (∀ s' : Bucket, s' = (exec (some 2) (uploadScript ["chunks", "meta", "index"] 0 exBlock) []).bkt →
        Visible s' 0 → Complete s' 0) := by
  intro h
  have hv : Visible (exec (some 2) (uploadScript ["chunks", "meta", "index"] 0 exBlock) []).bkt 0 := by decide
  obtain ⟨r, files, hm, hall⟩ := h _ rfl hv
  have hm' : get (exec (some 2) (uploadScript ["chunks", "meta", "index"] 0 exBlock) []).bkt (0, metaName)
      = some (.metaJson false exBlock.files) := by decide
  rw [hm'] at hm
  cases hm
  have := hall indexName 40 (by decide)
  revert this
  decide

/-- deleting the other files before meta.json breaks it as well -/
theorem C28_delete_rest_first_false :
    ¬ (∀ s' : Bucket,
        s' = (exec (some 1) (deleteScript ["rest", "meta", "mark", "dirmarkers"]
                (exec none (uploadScript codeUploadOrder 0 exBlock) []).bkt 0)
                (exec none (uploadScript codeUploadOrder 0 exBlock) []).bkt).bkt →
        Visible s' 0 → Complete s' 0) := by
  intro h
  have hv : Visible (exec (some 1) (deleteScript ["rest", "meta", "mark", "dirmarkers"]
                (exec none (uploadScript codeUploadOrder 0 exBlock) []).bkt 0)
                (exec none (uploadScript codeUploadOrder 0 exBlock) []).bkt).bkt 0 := by decide
  obtain ⟨r, files, hm, hall⟩ := h _ rfl hv
  have hm' : get (exec (some 1) (deleteScript ["rest", "meta", "mark", "dirmarkers"]
                (exec none (uploadScript codeUploadOrder 0 exBlock) []).bkt 0)
                (exec none (uploadScript codeUploadOrder 0 exBlock) []).bkt).bkt (0, metaName)
      = some (.metaJson false exBlock.files) := by decide
  rw [hm'] at hm
  cases hm
  have := hall indexName 40 (by decide)
  revert this
  decide

-- ---------------------------------------------------------------- regenerated facts

/-- `block.upload` uploads chunks, index, meta.json in this order in the source -/
theorem C28_fact_uploadOrder : Thanos.Facts.uploadOrder = codeUploadOrder := by decide
/-- `block.Delete` deletes meta.json, the rest, the deletion mark, the directory markers -/
theorem C28_fact_deleteOrder : Thanos.Facts.deleteOrder = codeDeleteOrder := by decide
/-- … and `deleteDirRec` skips exactly meta.json and the deletion mark -/
theorem C28_fact_deleteKeep :
    Thanos.Facts.deleteKeepCond = "name == metaFile || name == deletionMarkFile" := by decide
/-- the replicator copies chunks, index, meta.json in this order … -/
theorem C28_fact_replicateOrder : Thanos.Facts.replicateOrder = codeReplicateOrder := by decide
/-- … each object by Exists on the target, Get from the origin, Upload to the target -/
theorem C28_fact_replicateObject :
    Thanos.Facts.replicateObjectOrder = ["rs.toBkt.Exists", "rs.fromBkt.Get", "rs.toBkt.Upload"] := by decide
/-- the shipper's upload goes through `block.Upload` after the meta rewrite -/
theorem C28_fact_shipperUpload :
    Thanos.Facts.shipperUploadOrder = ["hardlinkBlock", "meta.WriteToDir", "block.Upload"] := by decide

-- ---------------------------------------------------------------- non-vacuity

/-- a world with a three-segment block is well formed -/
def exWorld : Nat → Block := fun _ => ⟨[("chunks/000001", 12), ("chunks/000002", 7), ("chunks/000003", 30)], 40⟩

example : WF exWorld := fun _ => wfBlock_of_nodup (exWorld 0) (by decide) (by decide)

-- an upload cut after 4 of 5 mutating calls is invisible; the restart makes it visible and complete
example : (get (exec (some 4) (uploadScript codeUploadOrder 0 (exWorld 0)) []).bkt (0, metaName)) = none := by decide
example : Visible (exec none (uploadScript codeUploadOrder 0 (exWorld 0))
    (exec (some 4) (uploadScript codeUploadOrder 0 (exWorld 0)) []).bkt).bkt 0 := by decide
-- a Delete of a marked block cut after the meta and two files: mark still there, other files too
example :
    let s0 := (exec none (markScript (exec none (uploadScript codeUploadOrder 0 (exWorld 0)) []).bkt 0 markName 0)
                (exec none (uploadScript codeUploadOrder 0 (exWorld 0)) []).bkt).bkt
    let s1 := (exec (some 3) (deleteScript codeDeleteOrder s0 0) s0).bkt
    (get s1 (0, markName)).isSome = true ∧ (get s1 (0, "chunks/000003")).isSome = true ∧ get s1 (0, metaName) = none := by
  decide

end Thanos.Bucket
