import Thanos.Model.Retention
import Thanos.Model.CleanerHist
import Thanos.Generated.Facts
/-
  C32 — Blocks are deleted only when retention and delays allow it.

  Clock: integer nanoseconds.  The three decision functions are transliterations of the
  conditions in retention.go / blocks_cleaner.go / clean.go (compared with the sources by the
  regenerated facts at the end), so the theorems are short; the assurance that the *code* decides
  like the model comes from the differential runs against the wall clock (harness/cmd/block/c32.go).

   * `C32_retention`            (repaired code: millisecond precision) marked ⇒ now > MaxTime + retention, retention ≠ 0
   * `C32_retention_sample`     … hence every sample of the block (t < MaxTime) is older than the retention
   * `C32_retention_trunc_false`  the code as it was (`time.Unix(MaxTime/1000, 0)`) violates it: witness MaxTime = 1999 ms
   * `C32_retention_trunc_partial` / `_bound`  what the old code did guarantee: exact for whole-second or
                                 non-positive MaxTime, never more than 999 ms early
   * `C32_cleaner`              deleted ⇒ now − DeletionTime > delay
   * `C32_partial`              deleted ⇒ not passed as marked ∧ now − lastModified > 48 h
-/
namespace Thanos.Retention

/-- C32, retention clause, at full strength for a given MaxTime conversion -/
def C32_retention_full (msPrecision : Bool) : Prop :=
  ∀ (now : Int) (ret : List (Int × Int)) (b : RBlock),
    marks msPrecision now ret b = true →
      retentionFor ret b.res ≠ 0 ∧ now > b.maxTime * nsPerMs + retentionFor ret b.res

theorem marks_iff (p : Bool) (now : Int) (ret : List (Int × Int)) (b : RBlock) :
    marks p now ret b = true ↔
      retentionFor ret b.res ≠ 0 ∧ now > maxTimeNs p b.maxTime + retentionFor ret b.res := by
  unfold marks
  by_cases h : retentionFor ret b.res = 0 <;> simp [h]

/-- **Retention (code after the repair)**: a block is marked only when `now` is past
    `MaxTime + retention(resolution)`, to the millisecond, and only for a non-zero retention. -/
theorem C32_retention : C32_retention_full true := by
  intro now ret b h
  have := (marks_iff true now ret b).mp h
  simpa [maxTimeNs] using this

/-- … so every sample of the block (timestamps are `< MaxTime`) is older than the retention. -/
theorem C32_retention_sample (now : Int) (ret : List (Int × Int)) (b : RBlock) (t : Int)
    (ht : t < b.maxTime) (h : marks true now ret b = true) :
    now > t * nsPerMs + retentionFor ret b.res := by
  have := (C32_retention now ret b h).2
  have : t * nsPerMs < b.maxTime * nsPerMs := by
    simp only [nsPerMs]; omega
  omega

/-- **F32**: with `time.Unix(MaxTime/1000, 0)` the sub-second part of MaxTime is dropped.
    Witness: MaxTime = 1999 ms, retention 1 s, now = 2.5 s: marked, though MaxTime + retention = 2.999 s. -/
theorem C32_retention_trunc_false : ¬ C32_retention_full false := by
  intro h
  have := (h 2500000000 [(0, 1000000000)] ⟨1, 0, 1999⟩ (by decide)).2
  revert this
  decide

theorem tdiv_bounds (m : Int) :
    (0 ≤ m → Int.tdiv m 1000 * 1000 ≤ m ∧ m < Int.tdiv m 1000 * 1000 + 1000) ∧
    (m ≤ 0 → m ≤ Int.tdiv m 1000 * 1000 ∧ Int.tdiv m 1000 * 1000 < m + 1000) := by
  constructor
  · intro h
    rw [Int.tdiv_eq_ediv_of_nonneg h]
    omega
  · intro h
    have h' : 0 ≤ -m := by omega
    have e : Int.tdiv m 1000 = -(Int.tdiv (-m) 1000) := by
      rw [Int.neg_tdiv, Int.neg_neg]
    rw [e, Int.tdiv_eq_ediv_of_nonneg h']
    omega

/-- what the old code did guarantee (1): exact when MaxTime is a whole second or not positive -/
theorem C32_retention_trunc_partial (now : Int) (ret : List (Int × Int)) (b : RBlock)
    (hb : b.maxTime % 1000 = 0 ∨ b.maxTime ≤ 0) (h : marks false now ret b = true) :
    retentionFor ret b.res ≠ 0 ∧ now > b.maxTime * nsPerMs + retentionFor ret b.res := by
  obtain ⟨h0, h1⟩ := (marks_iff false now ret b).mp h
  refine ⟨h0, ?_⟩
  simp only [maxTimeNs, Bool.false_eq_true, if_false, nsPerSec, nsPerMs] at h1 ⊢
  have tb := tdiv_bounds b.maxTime
  rcases hb with hb | hb
  · by_cases hp : 0 ≤ b.maxTime
    · have := (tb.1 hp)
      have e : Int.tdiv b.maxTime 1000 * 1000 = b.maxTime := by
        rw [Int.tdiv_eq_ediv_of_nonneg hp]; omega
      omega
    · have := tb.2 (by omega)
      omega
  · have := tb.2 hb
    omega

/-- (2): never more than 999 ms early -/
theorem C32_retention_trunc_bound (now : Int) (ret : List (Int × Int)) (b : RBlock)
    (h : marks false now ret b = true) :
    now > b.maxTime * nsPerMs + retentionFor ret b.res - 999 * nsPerMs := by
  obtain ⟨_, h1⟩ := (marks_iff false now ret b).mp h
  simp only [maxTimeNs, Bool.false_eq_true, if_false, nsPerSec, nsPerMs] at h1 ⊢
  have tb := tdiv_bounds b.maxTime
  by_cases hp : 0 ≤ b.maxTime
  · have := tb.1 hp; omega
  · have := tb.2 (by omega); omega

/-- a zero (or absent) retention disables marking for that resolution -/
theorem C32_retention_zero_disabled (p : Bool) (now : Int) (ret : List (Int × Int)) (b : RBlock)
    (h : retentionFor ret b.res = 0) : marks p now ret b = false := by
  simp [marks, h]

/-- list form: every id the function marks belongs to a block that satisfies the clause -/
theorem C32_retention_list (now : Int) (ret : List (Int × Int)) (bs : List RBlock) (i : Nat)
    (h : i ∈ retentionMarked true now ret bs) :
    ∃ b ∈ bs, b.id = i ∧ retentionFor ret b.res ≠ 0 ∧ now > b.maxTime * nsPerMs + retentionFor ret b.res := by
  simp only [retentionMarked, List.mem_map, List.mem_filter] at h
  obtain ⟨b, ⟨hb, hm⟩, e⟩ := h
  exact ⟨b, hb, e, C32_retention now ret b hm⟩

/-- relocating a scenario by whole seconds does not change a decision (what lets the harness
    run lines written around a nominal instant at the current wall-clock second) -/
theorem C32_shift_invariant (p : Bool) (now : Int) (ret : List (Int × Int)) (b : RBlock) (k : Int)
    (h0 : 0 ≤ b.maxTime) (h1 : 0 ≤ b.maxTime + 1000 * k) :
    marks p (now + k * nsPerSec) ret ⟨b.id, b.res, b.maxTime + 1000 * k⟩ = marks p now ret b := by
  have key : maxTimeNs p (b.maxTime + 1000 * k) = maxTimeNs p b.maxTime + k * nsPerSec := by
    cases p
    · simp only [maxTimeNs, Bool.false_eq_true, if_false, nsPerSec]
      rw [Int.tdiv_eq_ediv_of_nonneg h0, Int.tdiv_eq_ediv_of_nonneg h1]
      omega
    · simp only [maxTimeNs, if_true, nsPerMs, nsPerSec]; omega
  unfold marks
  simp only [key]
  by_cases hr : retentionFor ret b.res = 0
  · simp [hr]
  · simp only [hr, if_false]
    congr 1
    apply propext
    constructor <;> intro h <;> omega

-- ---------------------------------------------------------------- cleaner

/-- **Cleaner**: only blocks whose deletion mark is older than the delete delay. -/
theorem C32_cleaner (now delay : Int) (ms : List Mark) (i : Nat) (h : i ∈ cleanerDeletes now delay ms) :
    ∃ m ∈ ms, m.id = i ∧ now - m.deletionTime * nsPerSec > delay := by
  simp only [cleanerDeletes, List.mem_map, List.mem_filter, cleans, decide_eq_true_eq] at h
  obtain ⟨m, ⟨hm, hc⟩, e⟩ := h
  exact ⟨m, hm, e, hc⟩

/-- the mark records whole seconds (`time.Now().Unix()`): measured from the instant `tMark` at
    which the mark was really written, a deletion can come up to one second before the delay
    has passed, never more -/
theorem C32_cleaner_since_marking (now delay tMark : Int) (m : Mark)
    (hrec : m.deletionTime * nsPerSec ≤ tMark ∧ tMark < m.deletionTime * nsPerSec + nsPerSec)
    (h : cleans now delay m = true) : now - tMark > delay - nsPerSec := by
  simp only [cleans, decide_eq_true_eq] at h
  omega

-- ---------------------------------------------------------------- monotonicity (retention, cleaner)

/-- **Retention is monotone in time**: a block not yet past its
    retention at `now'` was not marked at any earlier `now` (a mark, once due, stays due). -/
theorem C32_retention_monotone (p : Bool) (now now' : Int) (ret : List (Int × Int)) (b : RBlock)
    (hle : now ≤ now') (h : marks p now ret b = true) : marks p now' ret b = true := by
  rw [marks_iff] at h ⊢
  exact ⟨h.1, by omega⟩

/-- … and so for the whole list of marked ids: a later retention pass marks a superset. -/
theorem C32_retention_marked_monotone (p : Bool) (now now' : Int) (ret : List (Int × Int)) (bs : List RBlock)
    (hle : now ≤ now') : ∀ i ∈ retentionMarked p now ret bs, i ∈ retentionMarked p now' ret bs := by
  intro i hi
  simp only [retentionMarked, List.mem_map, List.mem_filter] at hi ⊢
  obtain ⟨b, ⟨hb, hm⟩, e⟩ := hi
  exact ⟨b, ⟨hb, C32_retention_monotone p now now' ret b hle hm⟩, e⟩

/-- **Cleaner is monotone in time and anti-monotone in the delay**: what a later run with a
    shorter (or equal) delay deletes includes what an earlier run with a longer delay deletes — so raising
    `--delete-delay` never causes an earlier deletion. -/
theorem C32_cleaner_monotone (now now' delay delay' : Int) (ms : List Mark)
    (hn : now ≤ now') (hd : delay' ≤ delay) :
    ∀ i ∈ cleanerDeletes now delay ms, i ∈ cleanerDeletes now' delay' ms := by
  intro i hi
  simp only [cleanerDeletes, List.mem_map, List.mem_filter, cleans, decide_eq_true_eq] at hi ⊢
  obtain ⟨m, ⟨hm, hc⟩, e⟩ := hi
  exact ⟨m, ⟨hm, by omega⟩, e⟩

-- non-vacuity: a mark due at 10 s with delay 3 s is deleted at 14 s, and still at 20 s with delay 2 s
example : cleanerDeletes (14 * nsPerSec) (3 * nsPerSec) [⟨7, 10⟩] = [7] ∧
    cleanerDeletes (20 * nsPerSec) (2 * nsPerSec) [⟨7, 10⟩] = [7] := by decide


-- ---------------------------------------------------------------- partial uploads

theorem maxOf_ge : ∀ (xs : List Int) (m : Int), maxOf xs = some m → ∀ x ∈ xs, x ≤ m
  | [], _, h, _, _ => by simp [maxOf] at h
  | y :: ys, m, h, x, hx => by
    simp only [maxOf] at h
    cases hm : maxOf ys with
    | none =>
      simp only [hm] at h
      cases ys with
      | nil =>
        cases h
        simp at hx
        omega
      | cons z zs =>
        simp only [maxOf] at hm
        cases h2 : maxOf zs <;> simp [h2] at hm
    | some m' =>
      simp only [hm] at h
      have ih := maxOf_ge ys m' hm
      cases h
      rcases List.mem_cons.mp hx with rfl | hx'
      · split <;> omega
      · have := ih x hx'
        split <;> omega

/-- **Partial uploads**: removed only if not passed as marked for deletion and untouched (no
    object of the block directory modified) for more than the abort threshold of 48 h; when the
    listing fails or is empty the block's creation time (ULID) stands in. -/
theorem C32_partial (now : Int) (marked : List Nat) (ps : List Partial) (i : Nat)
    (h : i ∈ partialDeletes now marked ps) :
    ∃ p ∈ ps, p.id = i ∧ i ∉ marked ∧ now - lastModifiedMs p * nsPerMs > partialThresholdNs ∧
      (p.iterFails = false → ∀ x ∈ p.modified, now - x * nsPerMs > partialThresholdNs) := by
  simp only [partialDeletes, List.mem_map, List.mem_filter] at h
  obtain ⟨p, ⟨hp, hc⟩, e⟩ := h
  unfold cleansPartial at hc
  split at hc
  · simp at hc
  · rename_i hm
    simp only [decide_eq_true_eq] at hc
    refine ⟨p, hp, e, ?_, hc, ?_⟩
    · subst e; simpa using hm
    · intro hf x hx
      unfold lastModifiedMs at hc
      simp only [hf, Bool.false_eq_true, if_false] at hc
      cases hmx : maxOf p.modified with
      | none =>
        cases hl : p.modified with
        | nil => simp [hl] at hx
        | cons y ys =>
          simp only [hl, maxOf] at hmx
          cases h2 : maxOf ys <;> simp [h2] at hmx
      | some m =>
        simp only [hmx] at hc
        have := maxOf_ge p.modified m hmx x hx
        simp only [nsPerMs] at hc ⊢
        omega

-- ---------------------------------------------------------------- histories of one filter + cleaner

end Thanos.Retention

namespace Thanos.CleanerHist
open Thanos.Retention

/-- a deletion is justified in state `s`: the block has, in the bucket, at this moment, a
    deletion mark older than the delay -/
def Justified (now delay : Int) (s : St) (id : Nat) : Prop :=
  ∃ t, (id, some t) ∈ s.blocks ∧ now - t * nsPerSec > delay

/-- every deletion of every compactor iteration of a history is justified in the state in which
    the iteration starts -/
def AllJustified (replace : Bool) (now delay : Int) : St → List Step → Prop
  | _, [] => True
  | s, st :: rest =>
    (st = .iterate → ∀ id ∈ (step replace now delay s st).2, Justified now delay s id) ∧
    AllJustified replace now delay (step replace now delay s st).1 rest

theorem mem_fresh {blocks : List (Nat × Option Int)} {id : Nat} {t : Int} :
    (id, t) ∈ fresh blocks ↔ (id, some t) ∈ blocks := by
  simp only [fresh, List.mem_filterMap]
  constructor
  · rintro ⟨⟨i, m⟩, hp, h⟩
    cases m with
    | none => simp at h
    | some x =>
      simp only [Option.map_some, Option.some.injEq, Prod.mk.injEq] at h
      obtain ⟨rfl, rfl⟩ := h
      exact hp
  · intro h
    exact ⟨(id, some t), h, by simp⟩

/-- **One iteration (repaired filter)**: from ANY state — whatever the filter remembered — a
    block deleted by the cleaner has a current mark in the bucket older than the delay. -/
theorem C32_hist_iterate (now delay : Int) (s : St) (id : Nat)
    (h : id ∈ (step true now delay s .iterate).2) : Justified now delay s id := by
  simp only [step, filterMap', if_true, List.mem_filter, toDelete, List.mem_map] at h
  obtain ⟨⟨⟨i, t⟩, hp, rfl⟩, _⟩ := h
  simp only [cleans, decide_eq_true_eq] at hp
  exact ⟨t, mem_fresh.mp hp.1, hp.2⟩

/-- … and after every sync the filter's map is exactly the marks in the bucket. -/
theorem C32_hist_sync_inv (now delay : Int) (s : St) :
    (step true now delay s .sync).1.fmap = fresh s.blocks ∧
    (step true now delay s .iterate).1.fmap = fresh s.blocks := by
  simp [step, filterMap']

/-- **Histories (repaired filter)**: for every history of marking, un-marking, re-marking, syncs
    and compactor iterations over one long-lived filter + cleaner, from any state, every block a
    cleaning step deletes has at that moment a deletion mark in the bucket older than the delay. -/
theorem C32_hist (now delay : Int) : ∀ (steps : List Step) (s : St), AllJustified true now delay s steps
  | [], _ => trivial
  | st :: rest, s => ⟨fun e id hid => by subst e; exact C32_hist_iterate now delay s id hid,
      C32_hist now delay rest _⟩

/-- the full-strength statement for a given way of updating the filter's map -/
def C32_hist_full (replace : Bool) : Prop :=
  ∀ (now delay : Int) (steps : List Step) (s : St), s.fmap = [] → AllJustified replace now delay s steps

/-- a filter that replaced its map on every sync would satisfy it -/
theorem C32_hist_holds_if_replaced : C32_hist_full true := fun now delay steps s _ => C32_hist now delay steps s

/-- What the code as it is (merging update, pinned by the upstream test
    `TestDeletionMarkFilter_HoldsOntoMarks`) does guarantee, from ANY state: a block deleted by an
    iteration has a CURRENT mark older than the delay, or has NO mark in the bucket any more while
    the filter still holds the mark it had at an earlier sync, and that one is older than the
    delay.  In particular a current mark always wins over a remembered one: re-marking a block
    restarts the delay. -/
theorem C32_hist_merge_partial (now delay : Int) (s : St) (id : Nat)
    (h : id ∈ (step false now delay s .iterate).2) :
    Justified now delay s id ∨
      ((id, none) ∈ s.blocks ∧ ∃ t, lookup s.fmap id = some t ∧ now - t * nsPerSec > delay) := by
  simp only [step, filterMap', Bool.false_eq_true, if_false, List.mem_filter, toDelete, List.mem_map] at h
  obtain ⟨⟨⟨i, t⟩, hp, rfl⟩, _⟩ := h
  simp only [cleans, decide_eq_true_eq, List.mem_filterMap] at hp
  obtain ⟨⟨⟨j, m⟩, hb, hm⟩, hold⟩ := hp
  cases m with
  | some x =>
    simp only [Option.some.injEq, Prod.mk.injEq] at hm
    obtain ⟨rfl, rfl⟩ := hm
    exact Or.inl ⟨x, hb, hold⟩
  | none =>
    simp only [Option.map_eq_some_iff, Prod.mk.injEq] at hm
    obtain ⟨t', hl, rfl, rfl⟩ := hm
    exact Or.inr ⟨hb, t', hl, hold⟩

/-- **The finding** (kept: upstream pins the behaviour with a test): with the merging update (`maps.Copy` into the old map) a
    mark that an operator removed stays in the filter, and the cleaner deletes the un-marked
    block.  Witness: mark (100 s old, delay 10 s), sync, remove the mark, iterate. -/
theorem C32_hist_merge_false : ¬ C32_hist_full false := by
  intro h
  have h := h 1000000000000 10000000000 [.mark 1 900, .sync, .unmark 1, .iterate] ⟨[(1, none)], []⟩ rfl
  unfold AllJustified at h; obtain ⟨_, h⟩ := h
  unfold AllJustified at h; obtain ⟨_, h⟩ := h
  unfold AllJustified at h; obtain ⟨_, h⟩ := h
  unfold AllJustified at h; obtain ⟨h, _⟩ := h
  obtain ⟨t, hm, _⟩ := h rfl 1 (by decide)
  have e : (step false 1000000000000 10000000000 (step false 1000000000000 10000000000
      (step false 1000000000000 10000000000 ⟨[(1, none)], []⟩ (.mark 1 900)).1 .sync).1 (.unmark 1)).1.blocks
      = [(1, none)] := by decide
  rw [e] at hm
  simp at hm

end Thanos.CleanerHist

namespace Thanos.Retention

-- ---------------------------------------------------------------- regenerated facts

/-- `Filter` reads deletion-mark.json of every block on every call (no guard around ReadMarker) … -/
theorem C32_fact_filterReadsAlways : Thanos.Facts.deletionFilterReadGuards = [] := by decide
/-- … and then sets its map to what it read -/
theorem C32_fact_filterMapUpdate : Thanos.Facts.deletionFilterMapUpdate =
    (if Thanos.CleanerHist.codeReplace then ["f.deletionMarkMap = deletionMarkMap"]
     else ["if f.deletionMarkMap == nil { f.deletionMarkMap = make(map[ulid.ULID]*metadata.DeletionMark) }",
           "maps.Copy(f.deletionMarkMap, deletionMarkMap)",
           "for u := range f.deletionMarkMap { if _, exists := preFilterMetas[u]; exists { continue } delete(f.deletionMarkMap, u) }"]) := by decide

/-- the conversion of MaxTime in the source is the one `codeMsPrecision` stands for -/
theorem C32_fact_maxTimeExpr :
    Thanos.Facts.retentionMaxTimeExpr =
      (if codeMsPrecision then "time.UnixMilli(m.MaxTime)" else "time.Unix(m.MaxTime/1000, 0)") := by decide
theorem C32_fact_retentionCond :
    Thanos.Facts.retentionCond = "time.Now().After(maxTime.Add(retentionDuration))" := by decide
theorem C32_fact_retentionDisabled :
    Thanos.Facts.retentionDisabledCond = "retentionDuration.Seconds() == 0" := by decide
theorem C32_fact_cleanerCond : Thanos.Facts.cleanerCond =
    "time.Since(time.Unix(deletionMark.DeletionTime, 0)).Seconds() > s.deleteDelay.Seconds()" := by decide
theorem C32_fact_partialSkip :
    Thanos.Facts.partialSkipCond = "time.Since(lastModifiedTime) <= PartialUploadThresholdAge" := by decide
theorem C32_fact_partialMarked :
    Thanos.Facts.partialMarkedCond = "_, ok := deletionMarkBlocks[id]; ok => continue" := by decide
theorem C32_fact_partialThreshold : Thanos.Facts.partialThresholdAge = "2 * 24 * time.Hour" := by decide
theorem C32_fact_partialLastModified :
    Thanos.Facts.partialLastModifiedCond = "lm.After(lastModifiedTime)" := by decide
theorem partialThreshold_value : partialThresholdNs = 172800 * nsPerSec := by decide

-- ---------------------------------------------------------------- non-vacuity

-- a block 400 ms before its true expiry (MaxTime …900 ms): the old code marks it, the repaired one does not
example : marks false 1700000000500000000 [(0, 172800000000000)] ⟨1, 0, 1699827200900⟩ = true := by decide
example : marks true 1700000000500000000 [(0, 172800000000000)] ⟨1, 0, 1699827200900⟩ = false := by decide
-- … and 600 ms after it both do
example : marks true 1700000001500000000 [(0, 172800000000000)] ⟨1, 0, 1699827200900⟩ = true := by decide
example : cleanerDeletes 1700000000500000000 10000000000 [⟨1, 1699999990⟩, ⟨2, 1699999991⟩] = [1] := by decide
example : partialDeletes 1700000000500000000 [3]
    [⟨1, 0, [1699827200000, 1699000000000], false⟩, ⟨2, 0, [1699827201000], false⟩,
     ⟨3, 0, [1699000000000], false⟩, ⟨4, 1699827200000, [1699999999000], true⟩] = [1, 4] := by decide

end Thanos.Retention
