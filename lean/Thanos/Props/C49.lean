import Thanos.Model.Memcached
import Thanos.Lemmas.Memcached
import Thanos.Generated.Facts
/-
  C49 — Memcached key placement is consistent.

  All theorems are for an arbitrary step function of the jump-hash loop that moves forward
  (`Forward step : ∀ k b, 0 ≤ b → b < (step k b).2`).  For the real formula
  `int64(float64(b+1) * (float64(1<<31) / float64((key>>33)+1)))` this is proved over the rationals
  (`ratStep_forward`); that IEEE rounding keeps it (the quotient is ≥ 1.0 because division is
  monotone and 2^31/2^31 = 1 exactly; multiplying the exactly representable b+1 by a factor ≥ 1.0
  cannot round below b+1) is the remaining assumption — Lean's `Float` is opaque to proofs.  The
  correspondence runs `realStep` (IEEE doubles) against Go bit for bit, and a stalled loop would
  show there as `none`.
-/
namespace Thanos.Memcached

/-- the rational step moves forward: (b+1)·2³¹/(k+1) ≥ b+1 because k+1 ≤ 2³¹ -/
theorem shr33_lt (x : UInt64) : (x >>> 33).toNat < 2 ^ 31 := by
  have h := UInt64.toNat_lt x
  have e : (x >>> 33).toNat = x.toNat / 2 ^ 33 := by
    rw [UInt64.toNat_shiftRight]
    simp [Nat.shiftRight_eq_div_pow]
  rw [e]
  omega

theorem ratStep_forward : Forward ratStep := by
  intro key b hb
  simp only [ratStep]
  have hlt := shr33_lt (key * 2862933555777941757 + 1)
  generalize (((key * 2862933555777941757 + 1) >>> 33).toNat) = kn at hlt
  have hk1 : Int.ofNat kn + 1 ≤ 2147483648 := by simp only [Int.ofNat_eq_natCast]; omega
  have hpos : 0 < Int.ofNat kn + 1 := by simp only [Int.ofNat_eq_natCast]; omega
  have : (b + 1) ≤ (b + 1) * 2147483648 / (Int.ofNat kn + 1) := by
    apply Int.le_ediv_of_mul_le hpos
    exact Int.mul_le_mul_of_nonneg_left hk1 (by omega)
  omega

/-- **range**: with `n ≥ 1` buckets the jump hash ends in a bucket in `[0, n)` -/
theorem jump_range (step : UInt64 → Int → UInt64 × Int) (hs : Forward step) (key : UInt64) (n : Nat)
    (hn : 1 ≤ n) : ∃ r, jumpHashWith step key n = some r ∧ 0 ≤ r ∧ r < n := by
  obtain ⟨r, hr, _, h2, h3⟩ := jumpGo_range step hs n (n + 1) key (-1) 0 (by omega) (by omega) (by omega) (by omega)
  exact ⟨r, hr, h3 (by omega), h2⟩

/-- **consistency**: with one more bucket a key keeps its bucket or moves to the new one -/
theorem jump_consistent (step : UInt64 → Int → UInt64 × Int) (hs : Forward step) (key : UInt64) (n : Nat)
    (hn : 1 ≤ n) : ∃ r r', jumpHashWith step key n = some r ∧ jumpHashWith step key (n + 1) = some r' ∧
      (r' = r ∨ r' = n) := by
  have := jumpGo_succ step hs n (n + 1) (n + 1 + 1) key (-1) 0 (by omega) (by omega) (by omega) (by omega)
  simpa [jumpHashWith] using this

/-- the index `PickServer` uses is inside the server list -/
theorem pickIdx_lt (step : UInt64 → Int → UInt64 × Int) (hs : Forward step) (n : Nat) (hn : 1 ≤ n) (h : UInt64) :
    ∃ i, pickIdx step n h = some i ∧ i < n := by
  unfold pickIdx
  by_cases h1 : n = 1
  · subst h1; exact ⟨0, by simp, by omega⟩
  · obtain ⟨r, hr, h0, hlt⟩ := jump_range step hs h n hn
    refine ⟨r.toNat, ?_, by omega⟩
    have : n ≠ 0 := by omega
    simp [this, h1, hr]

/-- `PickServer` never fails with servers configured and answers one of them -/
theorem pick_some (step : UInt64 → Int → UInt64 × Int) (hs : Forward step) (sorted : List String)
    (hne : sorted ≠ []) (h : UInt64) : ∃ s ∈ sorted, pickServer step sorted h = some s := by
  have hn : 1 ≤ sorted.length := by
    cases sorted with
    | nil => exact absurd rfl hne
    | cons _ _ => simp
  obtain ⟨i, hi, hlt⟩ := pickIdx_lt step hs sorted.length hn h
  refine ⟨sorted[i], List.getElem_mem hlt, ?_⟩
  simp [pickServer, hi, List.getElem?_eq_getElem hlt]

/-- **batch = single**: `PickServerForKeys` lists every key exactly under the server `PickServer`
    gives for it, in request order, each server once (also in the one-server shortcut). -/
theorem C49_batch (step : UInt64 → Int → UInt64 × Int) (hs : Forward step) (sorted : List String)
    (keys : List (String × UInt64)) (m : List (String × List (String × UInt64)))
    (hm : pickForKeys step sorted keys = some m) :
    (m.map (·.1)).Nodup ∧
    (∀ s ks, (s, ks) ∈ m → ks = keys.filter (fun k => pickServer step sorted k.2 == some s)) ∧
    (∀ k ∈ keys, ∃ s ks, (s, ks) ∈ m ∧ k ∈ ks ∧ pickServer step sorted k.2 = some s) := by
  cases sorted with
  | nil => simp [pickForKeys] at hm
  | cons a t =>
    cases t with
    | nil =>
      simp only [pickForKeys, Option.some.injEq] at hm
      subst hm
      have hp : ∀ h, pickServer step [a] h = some a := by intro h; simp [pickServer, pickIdx]
      refine ⟨by simp, ?_, ?_⟩
      · intro s' ks hmem
        simp at hmem
        obtain ⟨rfl, rfl⟩ := hmem
        exact (List.filter_eq_self.mpr (by simp [hp])).symm
      · intro k hk
        exact ⟨a, keys, by simp, hk, hp k.2⟩
    | cons b rest =>
      simp only [pickForKeys, Option.some.injEq] at hm
      subst hm
      obtain ⟨hnd, hl⟩ := groupFold_spec (fun k : String × UInt64 => pickServer step (a :: b :: rest) k.2) keys [] (by simp)
      simp only [lookup, List.nil_append] at hl
      have hl' : ∀ s, lookup (groupKeys (fun k : String × UInt64 => pickServer step (a :: b :: rest) k.2) keys) s =
          keys.filter (fun k => pickServer step (a :: b :: rest) k.2 == some s) := by
        intro s; simp only [groupKeys]; exact hl s
      have hnd' : ((groupKeys (fun k : String × UInt64 => pickServer step (a :: b :: rest) k.2) keys).map (·.1)).Nodup := by
        simp only [groupKeys]; exact hnd
      refine ⟨hnd', ?_, ?_⟩
      · intro s ks hmem
        rw [← hl' s]
        exact (lookup_of_mem _ hnd' s ks hmem).symm
      · intro k hk
        obtain ⟨s, _, hs'⟩ := pick_some step hs (a :: b :: rest) (by simp) k.2
        have hin : k ∈ lookup (groupKeys (fun k : String × UInt64 => pickServer step (a :: b :: rest) k.2) keys) s := by
          rw [hl' s]
          simp [List.mem_filter, hk, hs']
        have hne : lookup (groupKeys (fun k : String × UInt64 => pickServer step (a :: b :: rest) k.2) keys) s ≠ [] := by
          intro h0; rw [h0] at hin; simp at hin
        exact ⟨s, _, mem_of_lookup_ne_nil _ s hne, hin, hs'⟩

theorem canon_perm_eq (la lb : List String) (h : la.Perm lb) : canon la = canon lb := by
  have le_trans : ∀ a b c : String, (compare a b).isLE = true → (compare b c).isLE = true → (compare a c).isLE = true :=
    fun a b c h1 h2 => Std.TransCmp.isLE_trans h1 h2
  have le_total : ∀ a b : String, ((compare a b).isLE || (compare b a).isLE) = true := by
    intro a b
    rw [Std.OrientedCmp.eq_swap (cmp := (compare : String → String → Ordering)) (a := a) (b := b)]
    cases compare b a <;> simp [Ordering.swap, Ordering.isLE]
  have sa := List.pairwise_mergeSort (le := fun a b : String => (compare a b).isLE) le_trans le_total la
  have sb := List.pairwise_mergeSort (le := fun a b : String => (compare a b).isLE) le_trans le_total lb
  have pa := List.mergeSort_perm la (fun a b : String => (compare a b).isLE)
  have pb := List.mergeSort_perm lb (fun a b : String => (compare a b).isLE)
  refine List.Perm.eq_of_pairwise (le := fun a b : String => (compare a b).isLE = true) ?_ sa sb
    (pa.trans (h.trans pb.symm))
  intro a b _ _ h1 h2
  have h2' : (compare a b).isGE = true := by
    rw [Std.OrientedCmp.eq_swap (cmp := (compare : String → String → Ordering)) (a := a) (b := b)]
    cases hc : compare b a <;> simp_all [Ordering.swap, Ordering.isLE, Ordering.isGE]
  have : compare a b = .eq := by
    cases hc : compare a b <;> simp_all [Ordering.isLE, Ordering.isGE]
  exact Std.compare_eq_iff_eq.mp this

/-- **listing order** (the repaired `SetServers`: `sort.Strings`, then natsort): whatever the
    third-party natural sort does with a list, two listings of the same servers give the same
    address list, hence the same server for every key.  No assumption on natsort is needed. -/
theorem C49_perm (step : UInt64 → Int → UInt64 × Int) (nat : List String → List String)
    (la lb : List String) (hperm : la.Perm lb) (h : UInt64) :
    pickServer step (setServers nat la) h = pickServer step (setServers nat lb) h := by
  simp [setServers, canon_perm_eq la lb hperm]

/-- The same for the selector as it was (natsort applied to the list as given), under the
    hypothesis natsort does not meet: the order sorted by is antisymmetric on the servers. -/
theorem C49_perm_antisymm (step : UInt64 → Int → UInt64 × Int) (le : String → String → Prop)
    (la lb sa sb : List String) (hperm : la.Perm lb) (ha : sa.Perm la) (hb : sb.Perm lb)
    (hsa : sa.Pairwise le) (hsb : sb.Pairwise le)
    (hanti : ∀ a b, a ∈ la → b ∈ la → le a b → le b a → a = b) (h : UInt64) :
    pickServer step sa h = pickServer step sb h := by
  have hab : sa.Perm sb := ha.trans (hperm.trans hb.symm)
  have : sa = sb := List.Perm.eq_of_pairwise
    (fun a b ha' hb' => hanti a b (ha.mem_iff.mp ha') (hperm.mem_iff.mpr (hb.mem_iff.mp hb'))) hsa hsb hab
  rw [this]

/-- the order clause for the selector as it was: an arbitrary sorting procedure, applied to the
    list as given, that only promises a rearrangement -/
def C49_order_full (step : UInt64 → Int → UInt64 × Int) (sort : List String → List String) : Prop :=
  ∀ la lb : List String, la.Perm lb → ∀ h, pickServer step (sort la) h = pickServer step (sort lb) h

/-- … is false: `sort.Sort` with a comparison that answers "less" both ways (natsort.Compare on
    "/s/1" and "/s/01") swaps the pair whatever its order, so the two listings end up in different
    orders and a key with bucket 1 changes server. -/
theorem C49_order_full_false : ∃ (step : UInt64 → Int → UInt64 × Int) (sort : List String → List String),
    Forward step ∧ (∀ l, (sort l).Perm l) ∧ ¬ C49_order_full step sort := by
  refine ⟨fun k b => (k, b + 1), List.reverse, ?_, fun l => List.reverse_perm l, ?_⟩
  · intro k b _; show b < b + 1; omega
  · intro h
    have := h ["/s/1", "/s/01"] ["/s/01", "/s/1"] (by decide) 0
    revert this
    decide

/-- **adding a server**, full strength: wherever the new server sorts, a key stays or moves to it -/
def C49_add_full (step : UInt64 → Int → UInt64 × Int) : Prop :=
  ∀ (sorted : List String) (new : String) (p : Nat) (h : UInt64), p ≤ sorted.length →
    pickServer step (insertAt sorted p new) h = pickServer step sorted h ∨
    pickServer step (insertAt sorted p new) h = some new

/-- … is false for jump hash over a sorted list (F49): servers [b, c], new server a sorts first;
    a key in bucket 1 was on c and is now on b. -/
theorem C49_add_full_false : ∃ step : UInt64 → Int → UInt64 × Int, Forward step ∧ ¬ C49_add_full step := by
  refine ⟨fun k b => (k, if b = 0 then 1 else b + 5), ?_, ?_⟩
  · intro k b hb
    show b < (if b = 0 then 1 else b + 5)
    split <;> omega
  · intro h
    have := h ["b", "c"] "a" 0 0 (by decide)
    revert this
    decide

theorem insertAt_length (l : List String) (x : String) : insertAt l l.length x = l ++ [x] := by
  simp [insertAt]

/-- … and holds when the new server sorts last (what the code comment asks operators to arrange). -/
theorem C49_add_partial (step : UInt64 → Int → UInt64 × Int) (hs : Forward step) (sorted : List String)
    (new : String) (h : UInt64) :
    pickServer step (sorted ++ [new]) h = pickServer step sorted h ∨
    pickServer step (sorted ++ [new]) h = some new := by
  cases hl : sorted.length with
  | zero =>
    have : sorted = [] := List.length_eq_zero_iff.mp hl
    subst this
    right
    simp [pickServer, pickIdx]
  | succ n =>
    -- old index i < n+1, new index i' ∈ {i, n+1}
    obtain ⟨i, hi, hilt⟩ := pickIdx_lt step hs (n + 1) (by omega) h
    obtain ⟨i', hi', hi'lt⟩ := pickIdx_lt step hs (n + 2) (by omega) h
    have hrel : i' = i ∨ i' = n + 1 := by
      by_cases hn0 : n = 0
      · subst hn0
        -- one server before: old index 0; new index is the jump hash over 2 buckets
        have h0 : i = 0 := by omega
        omega
      · obtain ⟨r, r', hr, hr', hrr⟩ := jump_consistent step hs h (n + 1) (by omega)
        have e1 : pickIdx step (n + 1) h = some r.toNat := by
          simp [pickIdx, hn0, hr]
        have e2 : pickIdx step (n + 2) h = some r'.toNat := by
          have : n + 1 + 1 = n + 2 := rfl
          simp [pickIdx, hr', this]
        rw [e1] at hi
        rw [e2] at hi'
        have hi1 : r.toNat = i := by simpa using hi
        have hi2 : r'.toNat = i' := by simpa using hi'
        rcases hrr with h1 | h1
        · left; rw [← hi1, ← hi2, h1]
        · right; rw [← hi2, h1]; simp
    have hlen : (sorted ++ [new]).length = n + 2 := by simp [hl]
    rcases hrel with rfl | rfl
    · left
      have hlt' : i' < sorted.length := by omega
      simp [pickServer, hl, hlen, hi, hi', List.getElem?_append_left hlt']
    · right
      have hlast : (sorted ++ [new])[n + 1]? = some new := by rw [← hl]; simp
      simp only [pickServer, hlen, hi']
      exact hlast

/-! ### histories of SetServers calls -/

/-- the list of the last call that succeeded (the initial list when none did) -/
def lastGood (cur : List String) : List SetCall → List String
  | [] => cur
  | .ok sorted :: rest => lastGood sorted rest
  | .fail :: rest => lastGood cur rest

/-- **all-or-nothing**: after any history of `SetServers` calls the selector holds exactly the list of
    the last call that succeeded; failing calls (a name that does not resolve) leave no trace -/
theorem runCalls_lastGood : ∀ (calls : List SetCall) (cur : List String), runCalls cur calls = lastGood cur calls
  | [], _ => rfl
  | .ok sorted :: rest, cur => by
    simp only [runCalls, List.foldl_cons, setCall, lastGood]
    exact runCalls_lastGood rest sorted
  | .fail :: rest, cur => by
    simp only [runCalls, List.foldl_cons, setCall, lastGood]
    exact runCalls_lastGood rest cur

/-- **placement is a function of the last successful list**: two selectors whose histories end with the
    same successful call — whatever failing calls follow it, whatever came before — place every key on
    the same server, single or batched -/
theorem C49_history (step : UInt64 → Int → UInt64 × Int) (sorted : List String)
    (before before' : List SetCall) (cur cur' : List String) (fails fails' : List SetCall)
    (hf : ∀ c ∈ fails, c = .fail) (hf' : ∀ c ∈ fails', c = .fail) (h : UInt64)
    (keys : List (String × UInt64)) :
    pickServer step (runCalls cur (before ++ .ok sorted :: fails)) h =
      pickServer step (runCalls cur' (before' ++ .ok sorted :: fails')) h ∧
    pickForKeys step (runCalls cur (before ++ .ok sorted :: fails)) keys =
      pickForKeys step (runCalls cur' (before' ++ .ok sorted :: fails')) keys := by
  have key : ∀ (b : List SetCall) (c : List String) (fs : List SetCall), (∀ x ∈ fs, x = SetCall.fail) →
      runCalls c (b ++ .ok sorted :: fs) = sorted := by
    intro b c fs hfs
    rw [runCalls_lastGood]
    induction b generalizing c with
    | nil =>
      simp only [List.nil_append, lastGood]
      clear c
      induction fs with
      | nil => rfl
      | cons x xs ih =>
        have hx : x = .fail := hfs x (by simp)
        subst hx
        simp only [lastGood]
        exact ih (fun y hy => hfs y (by simp [hy]))
    | cons x xs ih =>
      cases x with
      | ok s' => simp only [List.cons_append, lastGood]; exact ih s'
      | fail => simp only [List.cons_append, lastGood]; exact ih c
  rw [key before cur fails hf, key before' cur' fails' hf']
  exact ⟨rfl, rfl⟩

/-- Regenerated obligation: `SetServers` builds the new list in a FRESH slice (`make`), fills it in the
    loop (the only early return is inside the loop, before anything of the selector is touched),
    and only after the loop takes the lock and installs it — so a failing call cannot change what
    lookups see (`setCall … .fail = cur`). -/
theorem C49_build_fact : Thanos.Facts.setServersBuild =
    ["naddr := make([]net.Addr, len(servers))", "range sortedServers", "naddr[i], err = parseStaticAddr(server)",
     "return in loop", "end range", "s.mu.Lock", "s.mu.Unlock", "s.addrs = naddr"] := by decide

/-- Regenerated obligation: `SetServers` sorts lexically before it sorts naturally (so
    `setServers` is the model of the code as it is now and `C49_perm` its theorem). -/
theorem C49_sort_order_fact : Thanos.Facts.setServersSortCalls = ["sort.Strings", "natsort.Sort"] := by decide

-- non-vacuity: a forward step, a concrete key, three servers
example : Forward (fun k b => (k, b + 1)) := by intro k b _; show b < b + 1; omega
example : jumpHashWith (fun k b => (k, if b = 0 then 1 else b + 5)) 0 2 = some 1 := by decide
example : pickServer (fun k b => (k, if b = 0 then 1 else b + 5)) ["b", "c"] 0 = some "c" := by decide
example : pickServer (fun k b => (k, if b = 0 then 1 else b + 5)) (insertAt ["b", "c"] 0 "a") 0 = some "b" := by decide
example : pickForKeys (fun k b => (k, if b = 0 then 1 else b + 5)) ["b", "c"] [("k1", 0), ("k2", 1)] =
    some [("c", [("k1", 0), ("k2", 1)])] := by decide
example : (ratStep 12345 0).2 = 1 := by decide
example : runCalls [] [.ok ["a", "b"], .fail, .ok ["a", "c"], .fail, .fail] = ["a", "c"] := by decide
example : applyPerm [1, 0, 2] ["a10", "a2", "b"] = some ["a2", "a10", "b"] := by decide
example : ["b", "a10", "a2"].Perm ["a2", "b", "a10"] := by decide

end Thanos.Memcached
