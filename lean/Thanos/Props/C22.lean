import Thanos.Model.Quorum
import Thanos.Lemmas.Quorum
import Thanos.Generated.Facts
/-
  C22 — An acknowledged remote write reached quorum for every series.

  "The receiver acknowledges a remote-write request only if every series in it was stored on at
  least a write quorum of its replicas (or, for an already-replicated request, on the addressed
  replica); if any series cannot reach quorum the request fails."

  Model: Model/Quorum.lean (handleRequest → forward → distributeTimeseriesToReplicas →
  fanoutForward with its early return).  The arrival order of the replica answers is a list; the
  theorems quantify over all lists, i.e. all orders, and over the point at which the loop returns.
-/
namespace Thanos.Quorum

theorem thresholds_eq (sel : ThrSel) (rf : Nat) (replicated : Bool) :
    ∃ thr, thresholds sel rf replicated = (quorumOf rf replicated, failThr rf replicated, thr) := by
  cases replicated <;> cases sel <;> simp [thresholds, quorumOf, failThr, nrepOf]

/-- the answers `fanoutForward` has taken from the channel when it returns -/
def consumedOf (rf : Nat) (replicated : Bool) (n : Nat) (rs : List Resp) : List Resp :=
  consumed n (quorumOf rf replicated) (failThr rf replicated) St.init rs

theorem consumedOf_prefix (rf : Nat) (replicated : Bool) (n : Nat) (rs : List Resp) :
    consumedOf rf replicated n rs <+: rs := consumed_prefix _ _ _ _ _

/-- **Soundness of the acknowledgement.**  For every replication factor ≥ 1, any number of series
    placed on any nodes, any outcomes (success, conflict, unavailable, other errors), any arrival
    order, any point of early return, and whichever threshold the replication errors carry: if
    `fanoutForward` returns nil then every series already had a quorum of successful writes among
    the answers consumed so far. -/
theorem C22_ack_sound (sel : ThrSel) (rf : Nat) (replicated : Bool) (n : Nat) (rs : List Resp)
    (hrf : 1 ≤ rf) (hc : Complete n (nrepOf rf replicated) rs)
    (hok : fanout sel rf replicated n rs = .ok) :
    ∀ i, i < n → quorumOf rf replicated ≤ oks (consumedOf rf replicated n rs) i := by
  obtain ⟨thr, hthr⟩ := thresholds_eq sel rf replicated
  unfold fanout at hok
  rw [hthr] at hok
  exact (loop_ok_iff (params_of rf replicated hrf) n thr rs hc).2 hok

/-- **The request is acknowledged exactly when every series has a quorum of successes** among
    the complete set of answers. -/
theorem C22_ack_iff (sel : ThrSel) (rf : Nat) (replicated : Bool) (n : Nat) (rs : List Resp)
    (hrf : 1 ≤ rf) (hc : Complete n (nrepOf rf replicated) rs) :
    fanout sel rf replicated n rs = .ok ↔ ∀ i, i < n → quorumOf rf replicated ≤ oks rs i := by
  obtain ⟨thr, hthr⟩ := thresholds_eq sel rf replicated
  unfold fanout
  rw [hthr]
  exact (loop_ok_iff (params_of rf replicated hrf) n thr rs hc).1

/-- **Completeness of the failure.**  If some series has fewer successful writes than the quorum
    once every replica has answered, the request is not acknowledged. -/
theorem C22_fail_complete (sel : ThrSel) (rf : Nat) (replicated : Bool) (n : Nat) (rs : List Resp)
    (hrf : 1 ≤ rf) (hc : Complete n (nrepOf rf replicated) rs)
    (hfail : ∃ i, i < n ∧ oks rs i < quorumOf rf replicated) :
    fanout sel rf replicated n rs ≠ .ok := by
  intro hok
  obtain ⟨i, hi, hlt⟩ := hfail
  have := (C22_ack_iff sel rf replicated n rs hrf hc).mp hok i hi
  omega

/-- **Order independence**: whether a request is acknowledged does not depend on the order in
    which the replicas answer. -/
theorem C22_order (sel : ThrSel) (rf : Nat) (replicated : Bool) (n : Nat) (rs rs' : List Resp)
    (hrf : 1 ≤ rf) (hc : Complete n (nrepOf rf replicated) rs) (hp : rs'.Perm rs) :
    (fanout sel rf replicated n rs' = .ok ↔ fanout sel rf replicated n rs = .ok) := by
  have hc' : Complete n (nrepOf rf replicated) rs' := fun i hi => by
    rw [(evs_perm hp i).length_eq]; exact hc i hi
  rw [C22_ack_iff sel rf replicated n rs hrf hc, C22_ack_iff sel rf replicated n rs' hrf hc']
  constructor <;> intro h i hi
  · rw [← oks_perm hp i]; exact h i hi
  · rw [oks_perm hp i]; exact h i hi

/-- **Several tenants in one request** (gRPC tuples, or the split-tenant label): the series ids run
    over all tenants, a write carries the series of every tenant placed on its node, and the
    request is acknowledged iff every series of every tenant has a quorum of successes — one
    tenant's failed series fails the whole request. -/
theorem C22_multi_tenant (sel : ThrSel) (rf : Nat) (replicated : Bool) (n : Nat) (rs : List Resp)
    (tenantOf : Nat → Nat) (hrf : 1 ≤ rf) (hc : Complete n (nrepOf rf replicated) rs) :
    fanout sel rf replicated n rs = .ok ↔
      ∀ t, ∀ i, i < n → tenantOf i = t → quorumOf rf replicated ≤ oks rs i := by
  rw [C22_ack_iff sel rf replicated n rs hrf hc]
  exact ⟨fun h _ i hi _ => h i hi, fun h i hi => h (tenantOf i) i hi rfl⟩

/-- an already replicated request needs the addressed replica only -/
theorem C22_replicated_threshold (rf : Nat) : quorumOf rf true = 1 ∧ nrepOf rf true = 1 ∧ failThr rf true = 1 := by
  simp [quorumOf, nrepOf, failThr]

/-! ### the two surfaces on which the acknowledgement is given -/

/-- HTTP: 200 is written exactly when `fanoutForward` returned nil -/
theorem C22_http_ack (r : Result) : httpStatus r = 200 ↔ r = .ok := by
  cases r with
  | ok => simp [httpStatus]
  | failed cs =>
    simp only [httpStatus]
    split <;> simp

theorem writeCause_sentinels (cs : List RCause) (hne : cs ≠ []) (hall : ∀ c, c ∈ cs → ∃ s, c = .sentinel s) :
    ∃ s, writeCause cs = .sentinel s := by
  have h0 : cs.isEmpty = false := by cases cs <;> simp_all
  unfold writeCause
  simp only [h0]
  by_cases hu : cs.any (· == .sentinel .unavailable) = true
  · exact ⟨.unavailable, by simp [hu]⟩
  · by_cases hn : cs.any (· == .sentinel .notReady) = true
    · exact ⟨.notReady, by simp [hu, hn]⟩
    · by_cases hc : cs.any (· == .sentinel .conflict) = true
      · exact ⟨.conflict, by simp [hu, hn, hc]⟩
      · exfalso
        cases cs with
        | nil => exact hne rfl
        | cons c cs =>
          obtain ⟨s, rfl⟩ := hall c (by simp)
          cases s <;> simp_all

/-- gRPC (`Handler.RemoteWrite`): with the failure threshold, success is answered exactly when
    `fanoutForward` returned nil … -/
theorem C22_grpc_ack (rf : Nat) (replicated : Bool) (n : Nat) (rs : List Resp) (hrf : 1 ≤ rf) :
    grpcCode (fanout .failure rf replicated n rs) = .ok ↔ fanout .failure rf replicated n rs = .ok := by
  constructor
  · intro h
    unfold fanout at h ⊢
    rw [thresholds_failure] at h ⊢
    simp only at h ⊢
    rw [loop_eq_finish_consumed] at h ⊢
    generalize (consumed n (quorumOf rf replicated) (failThr rf replicated) St.init rs).foldl step St.init = s at h ⊢
    have P := params_of rf replicated hrf
    have hf1 : 1 ≤ failThr rf replicated := by have := P.fT_eq; omega
    unfold finish at h ⊢
    cases hcs : collect n (failThr rf replicated) (failThr rf replicated) s with
    | nil => simp
    | cons c0 cs0 =>
      rw [hcs] at h
      simp only [List.isEmpty_cons, Bool.false_eq_true, if_false] at h
      exfalso
      have hall : ∀ c, c ∈ c0 :: cs0 → ∃ s', c = RCause.sentinel s' := by
        intro c hc
        rw [← hcs] at hc
        obtain ⟨i, _, hl, rfl⟩ := mem_collect.mp hc
        obtain ⟨s', hs', _⟩ := replCause_sentinel hf1 (s.errs i) hl
        exact ⟨s', hs'⟩
      obtain ⟨s', hs'⟩ := writeCause_sentinels (c0 :: cs0) (by simp) hall
      simp only [grpcCode, hs'] at h
      cases s' <;> simp at h
  · intro h; rw [h]; rfl

/-- … whereas the code before the repair of F23 (threshold = successThreshold) acknowledged a
    failed write on the gRPC surface: rf 4, {conflict, conflict, ok, ok} ⇒ `writeErrors.Cause()`
    is nil ⇒ `case nil` ⇒ success, although no series reached the quorum of 3. -/
theorem C22_grpc_ack_false :
    grpcCode (fanout .success 4 false 1 [⟨[0], some kConflict⟩, ⟨[0], some kConflict⟩, ⟨[0], none⟩, ⟨[0], none⟩]) = .ok ∧
    fanout .success 4 false 1 [⟨[0], some kConflict⟩, ⟨[0], some kConflict⟩, ⟨[0], none⟩, ⟨[0], none⟩] ≠ .ok := by
  decide

/-! ### end to end: handleRequest → forward → distribute → fanoutForward -/

/-- the answers of a script, given the writes -/
def respsOf (ws : Writes) (script : List ((Nat × Nat) × Outcome)) : Option (List Resp) :=
  script.mapM (fun e => (lookupWrite e.1 ws).map (fun ids => Resp.mk ids e.2))

/-- For the code as it is (`codeSel`): a request that passes the replica check and the hashring,
    and whose writes are each answered exactly once, is acknowledged — on the HTTP surface and on
    the gRPC surface — iff every series has a quorum of successful writes. -/
theorem C22_handle (rf rep : Nat) (placement : List (List Nat)) (script : List ((Nat × Nat) × Outcome))
    (ws : Writes) (r : Result) (rs : List Resp)
    (hrf : 1 ≤ rf)
    (hh : handle codeSel rf rep placement script = .done ws r)
    (hrs : respsOf ws script = some rs)
    (hans : (rs.map (·.ids)).Perm (ws.map (·.2))) :
    (httpStatus r = 200 ↔ ∀ i, i < placement.length → quorumOf rf (decide (rep ≠ 0)) ≤ oks rs i) ∧
    (grpcCode r = .ok ↔ ∀ i, i < placement.length → quorumOf rf (decide (rep ≠ 0)) ≤ oks rs i) := by
  unfold handle at hh
  split at hh
  · simp at hh
  · split at hh
    · simp at hh
    · rename_i ws0 hd
      unfold respsOf at hrs
      split at hh
      · simp at hh
      · rename_i rs0 hm
        simp only [Handled.done.injEq] at hh
        obtain ⟨rfl, rfl⟩ := hh
        rw [hm] at hrs
        simp only [Option.some.injEq] at hrs
        subst hrs
        have hc := distribute_complete _ _ _ _ hd hans
        rw [replicasOf_length] at hc
        have hiff := C22_ack_iff codeSel rf (decide (rep ≠ 0)) placement.length rs0 hrf hc
        refine ⟨by rw [C22_http_ack, hiff], ?_⟩
        have := C22_grpc_ack rf (decide (rep ≠ 0)) placement.length rs0 hrf
        show grpcCode (fanout .failure rf _ _ rs0) = .ok ↔ _
        rw [this]
        exact hiff

/-! ### tie to the source -/

/-- Regenerated obligations: `writeQuorum` returns 1 for replication factor 2 and rf/2+1 otherwise;
    `failureThreshold` is `len(replicas) - successThreshold + 1`; the loop keeps waiting while some
    series has neither enough successes nor enough conflicts. -/
theorem C22_quorum_fact :
    Thanos.Facts.writeQuorumSpecialCase = "h.options.ReplicationFactor == 2" ∧
    Thanos.Facts.writeQuorumReturns = ["1", "int((h.options.ReplicationFactor / 2) + 1)"] := by decide

theorem C22_threshold_fact :
    Thanos.Facts.failureThresholdExpr = "len(params.replicas) - successThreshold + 1" ∧
    Thanos.Facts.canReturnEarlyCond = "successes[i] < successThreshold && conflictFailures[i] < failureThreshold" := by decide

/-! ### non-vacuity -/

-- two series over four nodes, rf 3: series 0 gets ok, ok and then an internal error; series 1 ok,
-- conflict, ok.  The loop returns after the fourth answer; both series had two successes by then.
private def ex : List Resp :=
  [⟨[0], none⟩, ⟨[0, 1], none⟩, ⟨[1], some kConflict⟩, ⟨[1], none⟩, ⟨[0], some kOther⟩]

example : Complete 2 (nrepOf 3 false) ex := by unfold Complete; decide
example : fanout codeSel 3 false 2 ex = .ok := by decide
example : (consumedOf 3 false 2 ex).length = 4 := by decide
example : oks (consumedOf 3 false 2 ex) 0 = 2 ∧ oks (consumedOf 3 false 2 ex) 1 = 2 := by decide
-- a request that cannot reach quorum: rf 3, series 0 has one success only
example : fanout codeSel 3 false 1 [⟨[0], none⟩, ⟨[0], some kOther⟩, ⟨[0], some kGrpcUnavail⟩] ≠ .ok := by decide
-- end to end through `handle`
example : handle codeSel 3 0 [[0, 1, 2], [1, 2, 3]]
    [((0, 0), none), ((1, 1), none), ((2, 2), some kOther), ((1, 0), none), ((2, 1), some kConflict), ((3, 2), none)]
    = .done [((0, 0), [0]), ((1, 1), [0]), ((2, 2), [0]), ((1, 0), [1]), ((2, 1), [1]), ((3, 2), [1])] .ok := by decide

end Thanos.Quorum
