import Thanos.Model.AggrChunk
import Thanos.Lemmas.Uvarint
import Thanos.Generated.Facts
/-
  C39 — Aggregate chunk encoding round-trips for any set of aggregates.
  Property theorems only; helper lemmas about varints are in Lemmas/Uvarint.lean.
-/
namespace Thanos.AggrChunk
open Thanos.Uvarint

/-- present sub-chunks carry at least one data byte (XOR/histogram chunks always have a 2-byte
    sample-count header) and their length fits Go's `int` -/
def WF (cs : List Sub) : Prop := ∀ e d, some (e, d) ∈ cs → d ≠ [] ∧ d.length < 2 ^ 63

/-- what `Get(t)` must answer -/
def expected (cs : List Sub) (t : Nat) : Res :=
  match cs[t]? with
  | some (some (e, d)) => fromData (e :: d)
  | _ => .notExist

private theorem encode_ne_nil : ∀ {cs : List Sub}, cs ≠ [] → encode cs ≠ []
  | [], h => absurd rfl h
  | none :: cs, _ => by simp [encode, uvarint_zero]
  | some (e, d) :: cs, _ => by simp [encode]

private theorem encode_length_pos {cs : List Sub} (h : 0 < cs.length) : 0 < (encode cs).length := by
  have : cs ≠ [] := by intro h'; simp [h'] at h
  have := encode_ne_nil this
  cases h' : encode cs with
  | nil => exact absurd h' this
  | cons _ _ => simp

/-- The round trip, for both size tests: the repaired test needs nothing more; the test as
    originally written additionally needs "an absent aggregate is not the last slot". -/
theorem get_encode (strict : Bool) : ∀ (cs : List Sub) (t : Nat), t < cs.length → WF cs →
    (strict = true → cs[t]? = some none → t + 1 < cs.length) →
    get strict (encode cs) t = expected cs t := by
  intro cs
  induction cs with
  | nil => intro t ht; simp at ht
  | cons c cs ih =>
    intro t ht wf hs
    have wf' : WF cs := fun e d h => wf e d (List.mem_cons_of_mem _ h)
    cases c with
    | none =>
      have hdec : unuvarint (uvarint 0 ++ encode cs) = (0, ((uvarint 0).length : Int)) :=
        unuvarint_uvarint 0 _ (by decide)
      rw [uvarint_zero] at hdec
      cases t with
      | zero =>
        have hlen : strict = true → 0 < (encode cs).length := by
          intro h
          have := hs h (by simp)
          exact encode_length_pos (by simpa using this)
        unfold get getLoop
        simp only [encode, uvarint_zero, hdec]
        cases strict with
        | false => simp [tooShort, expected]
        | true =>
          have := hlen rfl
          simp [tooShort, expected]
          (intro h0; rw [h0] at this; simp at this)
      | succ t =>
        have ht' : t < cs.length := by simpa using ht
        unfold get getLoop
        simp only [encode, uvarint_zero, hdec]
        have hshort : tooShort strict 0 (List.drop (Int.toNat ((List.length [0] : Nat) : Int)) ([0] ++ encode cs)) = false := by
          have := encode_length_pos (cs := cs) (by omega)
          cases strict <;> simp [tooShort]
          (intro h0; rw [h0] at this; simp at this)
        simp only [hshort]
        have := ih t ht' wf' (by
          intro h1 h2
          have := hs h1 (by simpa using h2)
          simpa using this)
        simp [get] at this
        simp [this, expected]
    | some p =>
      obtain ⟨e, d⟩ := p
      obtain ⟨hd, hlen⟩ := wf e d (by simp)
      have hl0 : d.length ≠ 0 := by
        intro h; exact hd (List.length_eq_zero_iff.mp h)
      have hdec : unuvarint (uvarint d.length ++ ((e :: d) ++ encode cs)) =
          (d.length, ((uvarint d.length).length : Int)) :=
        unuvarint_uvarint _ _ (by omega)
      have hpos := uvarint_length_pos d.length
      have hrest : List.drop (Int.toNat ((uvarint d.length).length : Int))
          (uvarint d.length ++ ((e :: d) ++ encode cs)) = (e :: d) ++ encode cs := by
        simp
      have hshort : tooShort strict d.length ((e :: d) ++ encode cs) = false := by
        cases strict <;> simp [tooShort]
      unfold get getLoop
      simp only [encode, List.append_assoc, hdec, hrest, hshort]
      have hn : ¬ (((uvarint d.length).length : Int) < 1) := by omega
      simp only [hn, if_false, hl0]
      cases t with
      | zero =>
        simp [expected]
      | succ t =>
        have ht' : t < cs.length := by simpa using ht
        have hdrop : List.drop (d.length + 1) ((e :: d) ++ encode cs) = encode cs := by
          simp
        simp only [hdrop]
        have := ih t ht' wf' (by
          intro h1 h2
          have := hs h1 (by simpa using h2)
          simpa using this)
        simp [get] at this
        simp [this, expected]

/-- C39 at full strength, for the size test selected by `strict`. -/
def C39_full (strict : Bool) : Prop :=
  ∀ (cs : List Sub) (t : Nat), t < cs.length → WF cs → get strict (encode cs) t = expected cs t

/-- The repaired `Get` (zero-length entries are not size-checked) round-trips every presence
    pattern, any number of aggregate slots, any contents. -/
theorem C39_roundtrip : C39_full false :=
  fun cs t ht wf => get_encode false cs t ht wf (by simp)

/-- The test as written before the repair is false of the property: with the last aggregate
    absent, reading it gives "invalid size" instead of "does not exist". -/
theorem C39_strict_false : ¬ C39_full true := by
  intro h
  have := h [some (1, [0, 1, 7]), none] 1 (by decide) (by
    intro e d hm
    simp at hm
    obtain ⟨rfl, rfl⟩ := hm
    decide)
  revert this
  decide

/-- … and holds exactly away from that case. -/
theorem C39_strict_partial (cs : List Sub) (t : Nat) (ht : t < cs.length) (wf : WF cs)
    (h : cs[t]? = some none → t + 1 < cs.length) :
    get true (encode cs) t = expected cs t :=
  get_encode true cs t ht wf (fun _ => h)

/-- every byte of an encoded chunk is a byte if the inputs are -/
theorem encode_bytes : ∀ (cs : List Sub),
    (∀ e d, some (e, d) ∈ cs → e < 256 ∧ ∀ b ∈ d, b < 256) → ∀ b ∈ encode cs, b < 256
  | [], _, b, hb => by simp [encode] at hb
  | none :: cs, h, b, hb => by
    simp only [encode, List.mem_append] at hb
    rcases hb with hb | hb
    · exact uvarint_lt_256 0 b hb
    · exact encode_bytes cs (fun e d hm => h e d (List.mem_cons_of_mem _ hm)) b hb
  | some (e, d) :: cs, h, b, hb => by
    simp only [encode, List.mem_append, List.mem_cons] at hb
    obtain ⟨he, hd⟩ := h e d (by simp)
    rcases hb with (hb | hb | hb) | hb
    · exact uvarint_lt_256 _ b hb
    · omega
    · exact hd b hb
    · exact encode_bytes cs (fun e d hm => h e d (List.mem_cons_of_mem _ hm)) b hb

/-- Regenerated obligation: the size test in the source is the one the model takes for
    `strict = false` (so `C39_roundtrip` is the theorem about the code as it is now). -/
theorem C39_size_test_fact :
    Thanos.Facts.aggrGetSizeTest = "n < 1 || (l > 0 && len(b[n:]) < int(l)+1)" := by decide

-- non-vacuity: a concrete five-slot chunk with absent sum and counter meets the hypotheses,
-- and the theorem's conclusion is the interesting branch on it
example : WF [some (1, [0, 2, 9]), none, some (1, [0, 1]), some (1, [5]), none] := by
  intro e d hm
  simp at hm
  rcases hm with ⟨_, rfl⟩ | ⟨_, rfl⟩ | ⟨_, rfl⟩ <;> decide

example : get false (encode [some (1, [0, 2, 9]), none, some (1, [0, 1]), some (1, [5]), none]) 4
    = .notExist := by decide
example : get true (encode [some (1, [0, 2, 9]), none, some (1, [0, 1]), some (1, [5]), none]) 4
    = .invalid := by decide
example : get false (encode [some (1, [0, 2, 9]), none, some (1, [0, 1]), some (1, [5]), none]) 2
    = .ok 1 [0, 1] := by decide

end Thanos.AggrChunk
