import Thanos.Model.Iter
import Thanos.Lemmas.DedupMono
import Thanos.Lemmas.IterBasic
import Thanos.Generated.Facts
/-
  C02 — Counter deduplication never fabricates counter resets.

  The model is the transliteration of `dedupSeries.Iterator` for a counter function
  (`counterErrAdjustSeriesIterator` around every replica, `dedupSeriesIterator` folded over them,
  the deferred `adjustAtValue` on a replica switch).  Values are integers (integer-valued float64
  are exact in Go; the rounding of `v + (last - v)` for other floats is outside the model and is
  measured by the harness's fractional stream).
-/
namespace Thanos.Dedup

/-- the samples a reader observed before the first `ValNone` / panic -/
def obsPrefix : List Obs → List Sample
  | .sample x :: rest => x :: obsPrefix rest
  | _ => []

/-! ### generic consequences of the value invariant -/

theorem drainN_mono {σ : Type} {o : Ops σ} {I : σ → Int → Prop} (h : Mono o I) :
    ∀ (n : Nat) (s : σ) (m : Int), I s m →
      (∀ x ∈ drainN o n s, m ≤ x.v) ∧ MonoVals (drainN o n s) := by
  intro n
  induction n with
  | zero => intro s m _; simp [drainN, MonoVals]
  | succ n ih =>
    intro s m hI
    unfold drainN
    simp only
    by_cases hok : (o.next s).2 = true
    · simp only [hok, if_true]
      obtain ⟨m', hle, hI'⟩ := h.next s m hI hok
      obtain ⟨x, hx, hxm⟩ := h.atS _ _ hI'
      simp only [hx]
      obtain ⟨ih1, ih2⟩ := ih _ m' hI'
      constructor
      · intro y hy
        rcases List.mem_cons.mp hy with rfl | hy
        · omega
        · have := ih1 y hy; omega
      · exact List.pairwise_cons.mpr ⟨fun y hy => by have := ih1 y hy; omega, ih2⟩
    · simp [hok, MonoVals]

theorem drainN_fresh_mono {σ : Type} {o : Ops σ} {I : σ → Int → Prop} (h : Mono o I)
    (n : Nat) (s : σ) (hf : FreshM o I s) : MonoVals (drainN o n s) := by
  cases n with
  | zero => simp [drainN, MonoVals]
  | succ n =>
    unfold drainN
    simp only
    by_cases hok : (o.next s).2 = true
    · simp only [hok, if_true]
      obtain ⟨m', hI'⟩ := hf.next hok
      obtain ⟨x, hx, hxm⟩ := h.atS _ _ hI'
      simp only [hx]
      obtain ⟨ih1, ih2⟩ := drainN_mono h n _ m' hI'
      exact List.pairwise_cons.mpr ⟨fun y hy => by have := ih1 y hy; omega, ih2⟩
    · simp [hok, MonoVals]

theorem runCalls_mono {σ : Type} {o : Ops σ} {I : σ → Int → Prop} (h : Mono o I) :
    ∀ (cs : List Call) (s : σ) (m : Int), I s m →
      (∀ x ∈ obsPrefix (runCalls o cs s), m ≤ x.v) ∧ MonoVals (obsPrefix (runCalls o cs s)) := by
  intro cs
  induction cs with
  | nil => intro s m _; simp [runCalls, obsPrefix, MonoVals]
  | cons c cs ih =>
    intro s m hI
    have key : ∀ r : σ × Bool, (r.2 = true → ∃ m', m ≤ m' ∧ I r.1 m') →
        (∀ x ∈ obsPrefix (if o.bad r.1 then [Obs.panic] else if r.2 then
            (match o.atS r.1 with
              | some x => Obs.sample x :: runCalls o cs r.1
              | none => [Obs.panic]) else Obs.none :: runCalls o cs r.1), m ≤ x.v) ∧
        MonoVals (obsPrefix (if o.bad r.1 then [Obs.panic] else if r.2 then
            (match o.atS r.1 with
              | some x => Obs.sample x :: runCalls o cs r.1
              | none => [Obs.panic]) else Obs.none :: runCalls o cs r.1)) := by
      intro r hr
      by_cases hb : o.bad r.1 = true
      · simp [hb, obsPrefix, MonoVals]
      · simp only [hb]
        by_cases hok : r.2 = true
        · simp only [hok, if_true]
          obtain ⟨m', hle, hI'⟩ := hr hok
          obtain ⟨x, hx, hxm⟩ := h.atS _ _ hI'
          simp only [hx, obsPrefix]
          obtain ⟨ih1, ih2⟩ := ih _ m' hI'
          constructor
          · intro y hy
            rcases List.mem_cons.mp hy with rfl | hy
            · omega
            · have := ih1 y hy; omega
          · exact List.pairwise_cons.mpr ⟨fun y hy => by have := ih1 y hy; omega, ih2⟩
        · simp [hok, obsPrefix, MonoVals]
    cases c with
    | next => exact key (o.next s) (fun hok => h.next s m hI hok)
    | seek t => exact key (o.seek t s) (fun hok => h.seek s m t hI hok)

theorem runCalls_fresh_mono {σ : Type} {o : Ops σ} {I : σ → Int → Prop} (h : Mono o I)
    (cs : List Call) (s : σ) (hf : FreshM o I s) : MonoVals (obsPrefix (runCalls o cs s)) := by
  cases cs with
  | nil => simp [runCalls, obsPrefix, MonoVals]
  | cons c cs =>
    have key : ∀ r : σ × Bool, (r.2 = true → ∃ m', I r.1 m') →
        MonoVals (obsPrefix (if o.bad r.1 then [Obs.panic] else if r.2 then
            (match o.atS r.1 with
              | some x => Obs.sample x :: runCalls o cs r.1
              | none => [Obs.panic]) else Obs.none :: runCalls o cs r.1)) := by
      intro r hr
      by_cases hb : o.bad r.1 = true
      · simp [hb, obsPrefix, MonoVals]
      · simp only [hb]
        by_cases hok : r.2 = true
        · simp only [hok, if_true]
          obtain ⟨m', hI'⟩ := hr hok
          obtain ⟨x, hx, hxm⟩ := h.atS _ _ hI'
          simp only [hx, obsPrefix]
          obtain ⟨ih1, ih2⟩ := runCalls_mono h cs _ m' hI'
          exact List.pairwise_cons.mpr ⟨fun y hy => by have := ih1 y hy; omega, ih2⟩
        · simp [hok, obsPrefix, MonoVals]
    cases c with
    | next => exact key (o.next s) hf.next
    | seek t => exact key (o.seek t s) (hf.seek t)

/-! ### the fold over the replicas -/

/-- an iterator that carries a value invariant and on which nothing has been called yet -/
def GoodM (i : AnyIt) : Prop := ∃ I : i.σ → Int → Prop, Mono i.ops I ∧ FreshM i.ops I i.st

theorem replicaIt_good (r : List Sample) (h : MonoVals r) : GoodM (replicaIt true r) :=
  ⟨ctrI, ctr_mono, ctr_fresh r h⟩

theorem foldNode_good (acc : AnyIt) (r : List Sample) (hacc : GoodM acc) (h : MonoVals r) :
    GoodM (foldNode true true acc r) := by
  obtain ⟨Ia, ha, fa⟩ := hacc
  exact ⟨nodeI Ia ctrI, node_mono ha ctr_mono true, node_fresh ha ctr_mono fa (ctr_fresh r h)⟩

theorem foldl_good (rs : List (List Sample)) : ∀ (acc : AnyIt), GoodM acc → (∀ q ∈ rs, MonoVals q) →
    GoodM (rs.foldl (foldNode true true) acc) := by
  induction rs with
  | nil => intro acc h _; exact h
  | cons r rs ih =>
    intro acc hacc h
    exact ih _ (foldNode_good acc r hacc (h r (by simp))) (fun q hq => h q (by simp [hq]))

/-- a single replica is returned as it is: the plain list iterator -/
theorem leaf_drainN_started (n : Nat) : ∀ (l : List Sample),
    drainN leafOps n { rest := l, started := true } = l.tail.take n := by
  induction n with
  | zero => intro l; simp [drainN]
  | succ n ih =>
    intro l
    unfold drainN
    simp only [leafOps_next, leafOps_atS, leafNext, if_true, Leaf.cur]
    cases htl : l.tail with
    | nil => simp
    | cons x tl =>
      have := ih (x :: tl)
      simp only [List.tail_cons] at this
      simp [this]

theorem leaf_runCalls_mono : ∀ (cs : List Call) (l : Leaf), MonoVals l.rest →
    (∀ x ∈ obsPrefix (runCalls leafOps cs l), ∀ y, l.cur = some y → y.v ≤ x.v) ∧
    MonoVals (obsPrefix (runCalls leafOps cs l)) := by
  intro cs
  induction cs with
  | nil => intro l _; simp [runCalls, obsPrefix, MonoVals]
  | cons c cs ih =>
    intro l hl
    have key : ∀ l' : Leaf, l'.started = true → MonoVals l'.rest →
        (∀ x y, l'.rest.head? = some x → l.cur = some y → y.v ≤ x.v) →
        (∀ x ∈ obsPrefix (if leafOps.bad l' then [Obs.panic] else if (!l'.rest.isEmpty) then
            (match leafOps.atS l' with
              | some x => Obs.sample x :: runCalls leafOps cs l'
              | none => [Obs.panic]) else Obs.none :: runCalls leafOps cs l'),
            ∀ y, l.cur = some y → y.v ≤ x.v) ∧
        MonoVals (obsPrefix (if leafOps.bad l' then [Obs.panic] else if (!l'.rest.isEmpty) then
            (match leafOps.atS l' with
              | some x => Obs.sample x :: runCalls leafOps cs l'
              | none => [Obs.panic]) else Obs.none :: runCalls leafOps cs l')) := by
      intro l' hs hm hge
      obtain ⟨ih1, ih2⟩ := ih l' hm
      simp only [leafOps_bad, leafOps_atS, Leaf.cur, hs, if_true, Bool.false_eq_true, if_false]
      cases hr : l'.rest with
      | nil => simp [obsPrefix, MonoVals]
      | cons x tl =>
        simp only [List.isEmpty_cons, Bool.not_false, if_true, List.head?_cons, obsPrefix]
        have hcur : l'.cur = some x := by simp [Leaf.cur, hs, hr]
        constructor
        · intro z hz y hy
          rcases List.mem_cons.mp hz with rfl | hz
          · exact hge _ y (by simp [hr]) hy
          · have h1 := ih1 z hz x hcur
            have h2 := hge x y (by simp [hr]) hy
            omega
        · exact List.pairwise_cons.mpr ⟨fun z hz => ih1 z hz x hcur, ih2⟩
    cases c with
    | next =>
      simp only [runCalls, leafOps_next, leafNext]
      refine key { rest := if l.started then l.rest.tail else l.rest, started := true } rfl ?_ ?_
      · by_cases hs : l.started = true <;> simp [hs, hl, monoVals_tail hl]
      · intro x y hx hy
        simp only [Leaf.cur] at hy
        by_cases hs : l.started = true
        · simp only [hs, if_true] at hx hy
          exact head_tail_ge hl hy hx
        · simp [hs] at hy
    | seek t =>
      simp only [runCalls, leafOps_seek, leafSeek]
      refine key { rest := l.rest.dropWhile fun s => decide (s.t < t), started := true } rfl
        (monoVals_dropWhile _ hl) ?_
      intro x y hx hy
      simp only [Leaf.cur] at hy
      by_cases hs : l.started = true
      · simp only [hs, if_true] at hy
        exact head_dropWhile_ge _ hl hy hx
      · simp [hs] at hy

/-- one replica: `dedupSeriesSet.At` returns the replica's own iterator, which yields its samples -/
theorem drain_single (fixed counter : Bool) (r : List Sample) : drain (mk fixed counter r []) = r := by
  show drainN leafOps (r.length + 1) (Leaf.init r) = r
  unfold drainN
  simp only [leafOps_next, leafOps_atS, leafNext, Leaf.init, Leaf.cur, Bool.false_eq_true, if_false, if_true]
  cases r with
  | nil => simp
  | cons x tl =>
    have := leaf_drainN_started (tl.length + 1) (x :: tl)
    simp only [List.isEmpty_cons, Bool.not_false, if_true, List.head?_cons, List.length_cons, this]
    simp only [List.tail_cons]
    rw [List.take_of_length_le (by omega)]

/-! ### C02 -/

/-- **C02.**  For a counter function and any number of replicas whose values never decrease,
    the values of the deduplicated series never decrease — whatever the timestamps are and
    wherever the penalty logic switches between replicas. -/
theorem C02_monotone (r : List Sample) (rs : List (List Sample))
    (h : ∀ q ∈ r :: rs, MonoVals q) : MonoVals (drain (mk true true r rs)) := by
  cases rs with
  | nil =>
    rw [drain_single]
    exact h r (by simp)
  | cons r2 rs =>
    obtain ⟨I, hm, hf⟩ := foldl_good (r2 :: rs) (replicaIt true r) (replicaIt_good r (h r (by simp)))
      (fun q hq => h q (by simp [hq]))
    exact drainN_fresh_mono hm _ _ hf

/-- **C02 for every function name `isCounter` accepts** (`rate`, `irate`, `increase`, `resets`) -/
theorem C02_monotone_fn (f : String) (hf : f ∈ counterFuncs) (r : List Sample) (rs : List (List Sample))
    (h : ∀ q ∈ r :: rs, MonoVals q) : MonoVals (drain (mkF true f r rs)) := by
  have : isCounter f = true := by
    unfold isCounter
    exact List.contains_iff_mem.mpr hf
  unfold mkF
  rw [this]
  exact C02_monotone r rs h

/-- **C02 after any seeks.**  The same for every script of `Next`/`Seek` calls: the values a
    reader observes up to the first `ValNone` never decrease. -/
theorem C02_seek (r : List Sample) (rs : List (List Sample)) (cs : List Call)
    (h : ∀ q ∈ r :: rs, MonoVals q) : MonoVals (obsPrefix ((mk true true r rs).run cs)) := by
  cases rs with
  | nil =>
    exact (leaf_runCalls_mono cs (Leaf.init r) (h r (by simp))).2
  | cons r2 rs =>
    obtain ⟨I, hm, hf⟩ := foldl_good (r2 :: rs) (replicaIt true r) (replicaIt_good r (h r (by simp)))
      (fun q hq => h q (by simp [hq]))
    exact runCalls_fresh_mono hm cs _ hf

/-! ### non-vacuity: the layout of issue 2401 (replica 2 restarted from a lower base) -/

/-- the adjustment is really exercised: replica 1 stalls at 40 while replica 2 (which is in use
    at 55000) has reached 47; the switch back to replica 1 raises its values by 7 … -/
example : drain (mk true true
    [⟨10000, 20⟩, ⟨20000, 30⟩, ⟨30000, 40⟩, ⟨200000, 40⟩, ⟨210000, 45⟩]
    [[⟨15000, 25⟩, ⟨25000, 35⟩, ⟨35000, 45⟩, ⟨45000, 46⟩, ⟨55000, 47⟩, ⟨205000, 47⟩]])
    = [⟨10000, 20⟩, ⟨20000, 30⟩, ⟨30000, 40⟩, ⟨55000, 47⟩, ⟨200000, 47⟩, ⟨210000, 52⟩] := by decide

/-- … whereas for a non-counter function the merged series goes from 47 back to 40 -/
example : drain (mk true false
    [⟨10000, 20⟩, ⟨20000, 30⟩, ⟨30000, 40⟩, ⟨200000, 40⟩, ⟨210000, 45⟩]
    [[⟨15000, 25⟩, ⟨25000, 35⟩, ⟨35000, 45⟩, ⟨45000, 46⟩, ⟨55000, 47⟩, ⟨205000, 47⟩]])
    = [⟨10000, 20⟩, ⟨20000, 30⟩, ⟨30000, 40⟩, ⟨55000, 47⟩, ⟨200000, 40⟩, ⟨210000, 45⟩] := by decide

example : ∀ q ∈ [[(⟨10000, 20⟩ : Sample), ⟨20000, 30⟩, ⟨30000, 40⟩, ⟨200000, 40⟩, ⟨210000, 45⟩],
    [⟨15000, 25⟩, ⟨25000, 35⟩, ⟨35000, 45⟩, ⟨45000, 46⟩, ⟨55000, 47⟩, ⟨205000, 47⟩]], MonoVals q := by
  intro q hq
  simp at hq
  rcases hq with rfl | rfl <;> simp [MonoVals]

/-! ### regenerated facts: the source has the adjustment logic the model transliterates -/

theorem C02_fact_adjust :
    Thanos.Facts.ctrAdjustCond = "lastFloatValue > v" ∧
    Thanos.Facts.ctrAdjustStmt = "it.errAdjust += lastFloatValue - v" ∧
    Thanos.Facts.dedupSwitchCond = "it.useA != lastUseA && isFloatVal" ∧
    Thanos.Facts.dedupAdjustCalls = ["it.a.adjustAtValue", "it.b.adjustAtValue"] := by decide

/-- the counter functions of the model are exactly the names `isCounter` accepts -/
theorem C02_fact_counter_funcs :
    Thanos.Facts.dedupCounterFuncs = counterFuncs ∧
    Thanos.Facts.dedupCounterReturns =
      ["f == \"increase\" || f == \"rate\" || f == \"irate\" || f == \"resets\""] := by decide

end Thanos.Dedup
