import Thanos.Model.Rules
import Thanos.Lemmas.Rules
import Thanos.Generated.Facts
/-
  C45 — Rules API label filters follow Prometheus semantics; replicas deduplicated to one per rule.

  `matchesOr` is the specification (Prometheus: a rule is returned iff its non-templated labels
  satisfy all selectors of at least one set); `codeMatches fixed` is the transliteration of
  `rules.matches` before (`false`) and after (`true`) the repair.
-/
namespace Thanos.Rules

/-- C45 (filter clause) at full strength for the code selected by the two switches. -/
def C45_full (fixedLoop freshTmpl : Bool) : Prop :=
  ∀ (sets : List (List Matcher)) (l : List Label), codeMatches fixedLoop freshTmpl sets l = matchesOr sets l

/-- The loop as it was (AND across sets) violates the property: rule {a="1"} with selector sets
    {a="1"} and {a="2"} is filtered out although the first set matches. -/
theorem C45_full_false : ¬ C45_full false true := by
  intro h
  have := h [[⟨"a", fun v => v == "1"⟩], [⟨"a", fun v => v == "2"⟩]] [⟨"a", "1", .plain⟩]
  revert this
  decide

/-- … and holds for at most one selector set (what the existing tests exercise). -/
theorem C45_partial (sets : List (List Matcher)) (l : List Label) (h : sets.length ≤ 1) :
    codeMatches false true sets l = matchesOr sets l := by
  match sets, h with
  | [], _ => rfl
  | [s], _ => simp [codeMatches, matchesAnd, matchesOr, matchesAny]

/-- One template shared by all labels of a rule (as it was) also violates the property: after
    the plain label a="x" the comment-only value of b keeps a's parse tree and is taken for plain
    text, so the selector {b="{{/* c */}}"} matches a templated label. -/
theorem C45_stale_false : ¬ C45_full true false := by
  intro h
  have := h [[⟨"b", fun v => v == "{{/* c */}}"⟩]] [⟨"a", "x", .plain⟩, ⟨"b", "{{/* c */}}", .emptyOther⟩]
  revert this
  decide

theorem nonTemplatedStale_eq (l : List Label) (h : ∀ x ∈ l, x.cls ≠ .emptyText ∧ x.cls ≠ .emptyOther) :
    ∀ st, nonTemplatedStale st l = nonTemplated l := by
  induction l with
  | nil => intro st; rfl
  | cons x xs ih =>
    intro st
    have hx := h x (by simp)
    have ih' := ih (fun y hy => h y (by simp [hy]))
    unfold nonTemplatedStale
    cases hc : x.cls <;> simp_all [nonTemplated, PClass.ownText]

/-- … and holds when no label value parses to an empty tree. -/
theorem C45_stale_partial (fixedLoop : Bool) (sets : List (List Matcher)) (l : List Label)
    (h : ∀ x ∈ l, x.cls ≠ .emptyText ∧ x.cls ≠ .emptyOther) :
    codeMatches fixedLoop false sets l = codeMatches fixedLoop true sets l := by
  simp [codeMatches, nonTemplatedStale_eq l h]

/-- The repaired `matches` is the specification, for any number of sets, matchers and labels. -/
theorem C45_fixed : C45_full true true := fun _ _ => rfl

/-- What the specification says, spelled out: no sets ⇒ everything; otherwise some set all of
    whose matchers accept the value of their label among the non-templated labels (`""` when the
    label is absent or templated). -/
theorem matchesOr_iff (sets : List (List Matcher)) (l : List Label) :
    matchesOr sets l = true ↔
      sets = [] ∨ ∃ s ∈ sets, ∀ m ∈ s, m.pred (get (nonTemplated l) m.name) = true := by
  cases sets with
  | nil => simp [matchesOr, matchesAny]
  | cons s ss => simp [matchesOr, matchesAny, setMatches, List.any_eq_true, List.all_eq_true]

/-- a templated label is invisible to the matchers: it reads as the empty value -/
theorem templated_reads_empty (l : List Label) (n : String)
    (h : ∀ x ∈ l, x.name = n → x.cls.ownText = false) : get (nonTemplated l) n = "" := by
  unfold get
  have : (nonTemplated l).find? (fun p => p.1 == n) = none := by
    rw [List.find?_eq_none]
    intro p hp
    simp only [nonTemplated, List.mem_map, List.mem_filter] at hp
    obtain ⟨x, ⟨hx, ht⟩, rfl⟩ := hp
    intro hn
    have := h x hx (by simpa using hn)
    simp [this] at ht
  simp [this]

/-! ### deduplication -/

/-- `filterRulesByMatchers` keeps exactly the rules `matches` accepts and drops emptied groups -/
theorem filterGroups_spec (fixed fresh : Bool) (sets : List (List Matcher)) (hs : sets ≠ []) (gs : List Group)
    (g : Group) : g ∈ filterGroups fixed fresh sets gs ↔
      g.rules ≠ [] ∧ ∃ g0 ∈ gs, g.file = g0.file ∧ g.name = g0.name ∧
        g.rules = g0.rules.filter (fun r => codeMatches fixed fresh sets r.labels) := by
  have : sets.isEmpty = false := by cases sets <;> simp_all
  simp only [filterGroups, this, Bool.false_eq_true, if_false, List.mem_filter, List.mem_map]
  constructor
  · rintro ⟨⟨g0, h0, rfl⟩, hne⟩
    refine ⟨by simpa using hne, g0, h0, rfl, rfl, rfl⟩
  · rintro ⟨hne, g0, h0, hf, hn, hr⟩
    refine ⟨⟨g0, h0, ?_⟩, by simpa using hne⟩
    cases g; cases g0; simp_all

/-- **One per rule.**  For any list of rules, `dedupRules` returns a list that is strictly
    increasing in `Rule.Compare` (so no two results are equal up to replica labels), every
    result is one of the inputs without its replica labels, every input is represented by a
    result of the same identity, and no replica of that identity is better (more critical state /
    later evaluation) than the survivor. -/
theorem dedup_one_per_rule (repl : List String) (rs : List Rule) :
    let out := dedupRules repl rs
    out.Pairwise (fun a b => ruleCmp a b = .lt) ∧
    (∀ o ∈ out, o ∈ rs.map (removeReplica repl)) ∧
    (∀ r ∈ rs, ∃ o ∈ out, sameRule o (removeReplica repl r) = true ∧ worse o (removeReplica repl r) = false) :=
  dedupRules_spec repl rs

/-- Groups: the result has one group per `file;name` key, sorted by key, and its rules are the
    rules of all input groups with that key. -/
theorem dedup_groups_one_per_key (gs : List Group) :
    let out := dedupGroups gs
    out.Pairwise (fun a b => compare a.key b.key = .lt) ∧
    (∀ g ∈ gs, ∃ o ∈ out, o.key = g.key ∧ ∀ r ∈ g.rules, r ∈ o.rules) ∧
    (∀ o ∈ out, ∀ r ∈ o.rules, ∃ g ∈ gs, g.key = o.key ∧ r ∈ g.rules) :=
  dedupGroups_spec gs

theorem key_with_rules (g : Group) (rs : List Rule) : ({ g with rules := rs } : Group).key = g.key := rfl

/-- what `filterRulesByMatchers` (repaired) leaves, with or without selector sets -/
theorem filterGroups_sound (sets : List (List Matcher)) (gs : List Group) (gf : Group)
    (h : gf ∈ filterGroups true true sets gs) :
    ∃ g ∈ gs, g.key = gf.key ∧ ∀ r ∈ gf.rules, r ∈ g.rules ∧ matchesOr sets r.labels = true := by
  by_cases hs : sets = []
  · subst hs
    simp only [filterGroups, List.isEmpty_nil, if_true] at h
    exact ⟨gf, h, rfl, fun r hr => ⟨hr, by simp [matchesOr, matchesAny]⟩⟩
  · obtain ⟨_, g0, hg0, hf, hn, hr⟩ := (filterGroups_spec true true sets hs gs gf).mp h
    refine ⟨g0, hg0, by simp [Group.key, hf, hn], ?_⟩
    intro r hrm
    rw [hr] at hrm
    have := List.mem_filter.mp hrm
    exact ⟨this.1, by simpa [codeMatches, matchesOr] using this.2⟩

theorem filterGroups_complete (sets : List (List Matcher)) (gs : List Group) (g : Group) (hg : g ∈ gs)
    (r : Rule) (hr : r ∈ g.rules) (hm : matchesOr sets r.labels = true) :
    ∃ gf ∈ filterGroups true true sets gs, gf.key = g.key ∧ r ∈ gf.rules := by
  by_cases hs : sets = []
  · subst hs
    simp only [filterGroups, List.isEmpty_nil, if_true]
    exact ⟨g, hg, rfl, hr⟩
  · have hin : r ∈ g.rules.filter (fun r => codeMatches true true sets r.labels) :=
      List.mem_filter.mpr ⟨hr, by simpa [codeMatches, matchesOr] using hm⟩
    refine ⟨{ g with rules := g.rules.filter (fun r => codeMatches true true sets r.labels) }, ?_, rfl, hin⟩
    apply (filterGroups_spec true true sets hs gs _).mpr
    refine ⟨?_, g, hg, rfl, rfl, rfl⟩
    intro h0
    simp only at h0
    rw [h0] at hin
    simp at hin

/-- **The whole answer of the Rules API** (repaired filter): groups strictly sorted by key (one per
    `file;name`), the rules of a group strictly sorted by `Rule.Compare` (one per rule identity);
    every returned rule is an input rule of that group without its replica labels whose
    non-templated labels satisfy all selectors of at least one set; and every such input rule is
    represented in its group by a rule of the same identity that is at least as critical / recent. -/
theorem C45_pipeline (repl : List String) (sets : List (List Matcher)) (gs : List Group) :
    (rulesPipeline true true repl sets gs).Pairwise (fun a b => compare a.key b.key = .lt) ∧
    (∀ o ∈ rulesPipeline true true repl sets gs, o.rules.Pairwise (fun a b => ruleCmp a b = .lt)) ∧
    (∀ o ∈ rulesPipeline true true repl sets gs, ∀ r ∈ o.rules, ∃ g ∈ gs, g.key = o.key ∧
        ∃ r0 ∈ g.rules, r = removeReplica repl r0 ∧ matchesOr sets r0.labels = true) ∧
    (∀ g ∈ gs, ∀ r0 ∈ g.rules, matchesOr sets r0.labels = true →
        ∃ o ∈ rulesPipeline true true repl sets gs, o.key = g.key ∧
          ∃ r ∈ o.rules, sameRule r (removeReplica repl r0) = true ∧ worse r (removeReplica repl r0) = false) := by
  obtain ⟨d1, d2, d3⟩ := dedupGroups_spec (filterGroups true true sets gs)
  unfold rulesPipeline
  refine ⟨?_, ?_, ?_, ?_⟩
  · exact List.Pairwise.map _ (fun a b h => by simpa [key_with_rules] using h) d1
  · intro o ho
    obtain ⟨g', _, rfl⟩ := List.mem_map.mp ho
    exact (dedupRules_spec repl g'.rules).1
  · intro o ho r hr
    obtain ⟨g', hg', rfl⟩ := List.mem_map.mp ho
    simp only at hr
    have hr1 := (dedupRules_spec repl g'.rules).2.1 r hr
    obtain ⟨r0, hr0, rfl⟩ := List.mem_map.mp hr1
    obtain ⟨gf, hgf, hkey, hmem⟩ := d3 g' hg' r0 hr0
    obtain ⟨g, hg, hk2, hall⟩ := filterGroups_sound sets gs gf hgf
    exact ⟨g, hg, by rw [hk2, hkey]; rfl, r0, (hall r0 hmem).1, rfl, (hall r0 hmem).2⟩
  · intro g hg r0 hr0 hm
    obtain ⟨gf, hgf, hk, hin⟩ := filterGroups_complete sets gs g hg r0 hr0 hm
    obtain ⟨o', ho', hk', hsub⟩ := d2 gf hgf
    obtain ⟨r, hr, hs⟩ := (dedupRules_spec repl o'.rules).2.2 r0 (hsub r0 hin)
    exact ⟨{ o' with rules := dedupRules repl o'.rules }, List.mem_map.mpr ⟨o', ho', rfl⟩,
      by rw [key_with_rules, hk', hk], r, hr, hs⟩

/-! ### from the request strings to the matcher sets -/

/-- the selector loop keeps one set per `match[]` string, in order, none dropped or left empty:
    it succeeds iff every string parses, and then the sets are exactly the parse results -/
theorem assembleSets_spec : ∀ (sels : List (Option (List Matcher))) (sets : List (List Matcher)),
    assembleSets sels = some sets ↔ sels = sets.map some
  | [], sets => by
    cases sets <;> simp [assembleSets]
  | none :: rest, sets => by
    cases sets <;> simp [assembleSets]
  | some ms :: rest, sets => by
    cases sets with
    | nil => simp [assembleSets]
    | cons t ts =>
      simp only [assembleSets, Option.map_eq_some_iff, List.map_cons, List.cons.injEq, Option.some.injEq]
      constructor
      · rintro ⟨a, ha, h1, h2⟩
        exact ⟨h1, by rw [← h2]; exact (assembleSets_spec rest a).mp ha⟩
      · rintro ⟨h1, h2⟩
        exact ⟨ts, (assembleSets_spec rest ts).mpr h2, h1, rfl⟩

/-- an unparsable `match[]` string fails the request -/
theorem assembleSets_none (sels : List (Option (List Matcher))) (h : none ∈ sels) : assembleSets sels = none := by
  induction sels with
  | nil => simp at h
  | cons a rest ih =>
    cases a with
    | none => simp [assembleSets]
    | some ms =>
      have : none ∈ rest := by simpa using h
      simp [assembleSets, ih this]

/-- repeating a selector (a byte-identical string, another spelling, another matcher order — anything
    that parses to matchers accepting the same values) does not change which rules match -/
theorem matchesOr_dup (sets : List (List Matcher)) (s : List Matcher) (hs : s ∈ sets) (l : List Label) :
    matchesOr (sets ++ [s]) l = matchesOr sets l := by
  cases sets with
  | nil => simp at hs
  | cons a rest =>
    simp only [matchesOr, matchesAny, List.cons_append, List.isEmpty_cons, Bool.false_eq_true, if_false,
      List.any_cons, List.any_append, List.any_nil, Bool.or_false]
    have : setMatches (nonTemplated l) s = true → (setMatches (nonTemplated l) a || rest.any (setMatches (nonTemplated l))) = true := by
      intro h
      rcases List.mem_cons.mp hs with rfl | hr
      · simp [h]
      · simp only [Bool.or_eq_true]
        exact Or.inr (List.any_eq_true.mpr ⟨s, hr, h⟩)
    cases h1 : setMatches (nonTemplated l) s with
    | false => simp
    | true => simp [this h1]

/-- **The Rules API from the request strings**: when every `match[]` string parses, `GRPCClient.Rules`
    answers `C45_pipeline`'s result for exactly the parsed sets — one per string, duplicates included,
    nothing skipped or left empty (a nil set would match every rule) —, and it fails when one does not. -/
theorem C45_request (repl : List String) (sels : List (Option (List Matcher))) (gs : List Group) :
    (∀ sets, sels = sets.map some →
        rulesRequest true true repl sels gs = some (rulesPipeline true true repl sets gs)) ∧
    (none ∈ sels → rulesRequest true true repl sels gs = none) := by
  constructor
  · intro sets h
    simp [rulesRequest, (assembleSets_spec sels sets).mpr h]
  · intro h
    simp [rulesRequest, assembleSets_none sels h]

/-- Regenerated obligation: the loop of `GRPCClient.Rules` over `req.MatcherString` — the slice is
    allocated with one slot per string and EVERY iteration assigns its slot from
    `extpromql.ParseMetricSelector(s)`; the only other statements are the error check and its
    return: no `continue`, no `break`, no condition that skips an assignment (`assembleSets`). -/
theorem C45_selector_loop_fact : Thanos.Facts.rulesSelectorLoop =
    ["matcherSets := make([][]*labels.Matcher, len(req.MatcherString))", "range req.MatcherString",
     "matcherSets[i], err = extpromql.ParseMetricSelector(s)", "if err != nil", "return"] := by decide

/-- Regenerated obligations: the `return` statements of `rules.matches` in source order, and
    where `template.New("label")` is called (function body or the per-label closure) — they say the
    source has the repaired loop (`true` for no sets, `true` inside the loop over sets, `false` at
    the end) and a template per label, i.e. the switches the driver uses
    (`Driver/Misc.lean: rulesFixed = rulesFresh = true`) and `C45_fixed` is the theorem about the
    code as it is now. -/
theorem C45_code_loop_fact : Thanos.Facts.rulesMatchesReturns = ["true", "true", "false"] := by decide
theorem C45_code_template_fact : Thanos.Facts.rulesMatchesTemplateScope = "closure" := by decide

-- non-vacuity
example : matchesOr [[⟨"a", fun v => v == "1"⟩], [⟨"a", fun v => v == "2"⟩]] [⟨"a", "1", .plain⟩] = true := by decide
example : codeMatches false true [[⟨"a", fun v => v == "1"⟩], [⟨"a", fun v => v == "2"⟩]] [⟨"a", "1", .plain⟩] = false := by decide
example : matchesOr [[⟨"a", fun v => v == "1"⟩]] [⟨"a", "1", .templ⟩] = false := by decide
example : ∀ x ∈ [(⟨"a", "1", .plain⟩ : Label), ⟨"b", "{{ .X }}", .templ⟩], x.cls ≠ .emptyText ∧ x.cls ≠ .emptyOther := by decide
example : ([[⟨"a", fun v => v == "1"⟩]] : List (List Matcher)).length ≤ 1 := by decide
example : (assembleSets [some [⟨"a", fun v => v == "1"⟩], some [⟨"a", fun v => v == "1"⟩]]).map List.length = some 2 := by decide
example : (assembleSets [some [⟨"a", fun v => v == "1"⟩], none]).isNone = true := by decide

end Thanos.Rules
